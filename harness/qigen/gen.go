package qigen

import (
	"encoding/binary"
	"fmt"
	"math/big"
	"sort"
	"strings"

	"github.com/btcsuite/btcd/btcec/v2/schnorr"
	"github.com/dominant-strategies/go-quai/common"
	"github.com/dominant-strategies/go-quai/core/types"
	"github.com/dominant-strategies/go-quai/crypto"
	"github.com/dominant-strategies/go-quai/params"
	"pgregory.net/rapid"
)

// ---- universe -------------------------------------------------------------------------------

// GenUniverse draws the UTXO set a block starts from: 4-24 outputs over the key pool, every
// denomination (and rarely an invalid one), locks below / at / above the block height, several
// indices under one transaction hash, owners of every class.
func GenUniverse(t *rapid.T, env *Env) *UTXOLedger {
	l := NewLedger()
	n := irange(t, 4, 24, "universeSize")
	lb := LocByte(env.Loc)
	for j := 0; j < n; j++ {
		var c [2]byte
		binary.BigEndian.PutUint16(c[:], uint16(irange(t, 0, 9, "uHash")))
		h := common.BytesToHash(crypto.Keccak256([]byte("verif-qigen-universe"), c[:]))
		h[2] = lb
		idx := uint16(sample(t, []int{0, 0, 1, 1, 2, 3, 255, 256, 65535}, "uIndex"))
		op := types.OutPoint{TxHash: h, Index: idx}
		for {
			if _, dup := l.Get(op); !dup {
				break
			}
			op.Index++ // by construction, never by rejection
		}
		var addr []byte
		switch w := irange(t, 0, 19, "uOwner"); {
		case w == 0:
			addr = env.Pool.Quai[irange(t, 0, len(env.Pool.Quai)-1, "uKey")].AddrBytes()
		case w == 1:
			addr = env.Pool.Foreign[irange(t, 0, len(env.Pool.Foreign)-1, "uKey")].AddrBytes()
		case w == 2:
			addr = RawAddress(lb, true, uint32(1000+j))
		default:
			addr = env.Pool.Qi[irange(t, 0, len(env.Pool.Qi)-1, "uKey")].AddrBytes()
		}
		d := uint8(irange(t, 0, MaxDenomination, "uDenom"))
		if irange(t, 0, 39, "uBadDenom") == 0 {
			d = sample(t, []uint8{15, 16, 255}, "uBadDenomV")
		}
		var lock *big.Int
		switch irange(t, 0, 9, "uLock") {
		case 0, 1, 2, 3:
			lock = nil
		case 4:
			lock = big.NewInt(0)
		case 5:
			lock = new(big.Int).SetUint64(env.Height - 1)
		case 6:
			lock = new(big.Int).SetUint64(env.Height)
		case 7:
			lock = new(big.Int).SetUint64(env.Height + 1)
		case 8:
			lock = new(big.Int).SetUint64(env.Height * 3)
		case 9:
			lock = big.NewInt(1)
		}
		l.Add(op, Entry{Denomination: d, Address: addr, Lock: lock})
	}
	if Chance(t, 40, "uPair") { // two equal unlocked bills worth one bill of the next denomination
		dn := sample(t, []uint8{1, 3, 5, 7, 8}, "uPairDenom")
		h := common.BytesToHash(crypto.Keccak256([]byte("verif-qigen-universe-pair")))
		h[2] = lb
		for i := 0; i < 2; i++ {
			l.Add(types.OutPoint{TxHash: h, Index: uint16(i)}, Entry{Denomination: dn, Address: env.Pool.Qi[Uniform(t, len(env.Pool.Qi), "uKey")].AddrBytes()})
		}
	}
	return l
}

// ---- transactions ---------------------------------------------------------------------------

// Mutation tags. The first group makes the model forbid the transaction; the second group is
// implementation policy (model has no opinion); the third group is legitimate behaviour that is
// nevertheless an adversarial element for the double-spend machinery.
const (
	MDupIn       = "dup-outpoint-in-tx"
	MRespent     = "respend-in-block"
	MUnknown     = "unknown-outpoint"
	MNonOwner    = "non-owner-key"
	MWrongLedger = "wrong-ledger-key"
	MLocked      = "locked-output"
	MOverspend   = "overspend"
	MBadSig      = "bad-signature"
	MBadDenomIn  = "bad-denom-input"

	MBadDenomOut = "denom-above-14"
	MOutLock     = "nonzero-output-lock"
	MMerge       = "merge-denominations"
	MReuseAddr   = "reused-address"
	MIneligible  = "ineligible-zone"
	MLowFee      = "fee-below-floor"
	MChainID     = "wrong-chain-id"
	MBadData     = "bad-data"
	MQuaiOut     = "quai-output-without-data"
	MNoInputs    = "no-inputs"
	MQuaiOwned   = "quai-owned-utxo"

	MSameBlock = "spend-same-block-output"

	MRespentEarlier = "respend-of-earlier-block"
)

var forbidding = map[string]bool{MDupIn: true, MRespent: true, MRespentEarlier: true, MUnknown: true, MNonOwner: true, MWrongLedger: true,
	MLocked: true, MOverspend: true, MBadSig: true, MBadDenomIn: true}

// IsForbidding reports whether a mutation tag is meant to make the model forbid the transaction.
func IsForbidding(m string) bool { return forbidding[m] }

// TxCase is one generated, signed Qi transaction with its provenance.
type TxCase struct {
	Tx        *types.Transaction
	CheckSig  bool
	SigValid  bool     // by construction: signed by exactly the listed keys, in order, over the final content
	SigKind   string   // schnorr | musig2 | variants of a broken signature
	Mutations []string // adversarial mutations applied (sorted)
	Features  []string // legitimate features (crosszone, conversion, wrap, musig2, ...)
	Ordered   bool     // fee was aimed at respecting the block's gas-price ordering
	Desc      string   // readable dump
}

// Shape is the structural signature of the transaction.
func (c *TxCase) Shape() string {
	return fmt.Sprintf("i%d/o%d/%s/%s/sig=%v", len(c.Tx.TxIn()), len(c.Tx.TxOut()), strings.Join(c.Features, "+"), strings.Join(c.Mutations, "+"), c.CheckSig)
}

func (c *TxCase) Has(m string) bool {
	for _, x := range c.Mutations {
		if x == m {
			return true
		}
	}
	return false
}

type inSpec struct {
	op     types.OutPoint
	listed *Key // key whose public key is put into the input
	signer *Key // key that actually signs for this input
	value  int64
	denom  uint8
}

type draft struct {
	chainID *big.Int
	ins     []inSpec
	outs    []types.TxOut
	data    []byte
}

func (d *draft) txData(sig *schnorr.Signature) *types.QiTx {
	q := &types.QiTx{ChainID: new(big.Int).Set(d.chainID), Signature: sig, Data: append([]byte(nil), d.data...)}
	for _, in := range d.ins {
		q.TxIn = append(q.TxIn, types.TxIn{PreviousOutPoint: in.op, PubKey: append([]byte{}, in.listed.Pub...)})
	}
	for _, o := range d.outs {
		q.TxOut = append(q.TxOut, types.TxOut{Denomination: o.Denomination, Address: append([]byte{}, o.Address...), Lock: o.Lock})
	}
	return q
}

func (d *draft) sumIn() int64 {
	var s int64
	for _, in := range d.ins {
		s += in.value
	}
	return s
}

func (d *draft) sumOut() int64 {
	var s int64
	for _, o := range d.outs {
		if o.Denomination <= MaxDenomination {
			s += denomValue[o.Denomination]
		}
	}
	return s
}

// greedySplit splits amount into at most maxParts denominations <= maxDenom, largest first;
// what cannot be expressed is returned as rest.
func greedySplit(amount int64, maxDenom int, maxParts int) (parts []uint8, rest int64) {
	for d := maxDenom; d >= 0 && len(parts) < maxParts; d-- {
		for amount >= denomValue[d] && len(parts) < maxParts {
			parts = append(parts, uint8(d))
			amount -= denomValue[d]
		}
	}
	return parts, amount
}

// BlockFeeState carries the gas-price ordering information from one transaction of the block to
// the next (Process rejects a block whose Qi gas prices increase).
type BlockFeeState struct {
	Ordered   bool     // aim at non-increasing gas prices
	PrevPrice *big.Int // gas price (wei per gas) of the previous transaction, nil for the first
}

// GasPrice computes the per-gas price Process derives for an accepted Qi transaction.
func (e *Env) GasPrice(tx *types.Transaction, feeQits *big.Int) *big.Int {
	q := e.QiToQuai(feeQits)
	return q.Div(q, new(big.Int).SetUint64(types.CalculateBlockQiTxGas(tx, e.QiScalingFactor, e.Loc)))
}

// minFee returns the smallest fee (qits) that satisfies both base-fee rules for the draft.
func (e *Env) minFee(d *draft) int64 {
	tx := types.NewTx(d.txData(nil))
	req := types.CalculateQiTxGas(tx, e.QiScalingFactor, e.Loc)
	hasAgg := false
	lb := LocByte(e.Loc)
	for _, o := range d.outs {
		if len(o.Address) == 20 && o.Address[0] == lb && !IsQiBytes(o.Address) {
			hasAgg = true
		}
	}
	if hasAgg {
		req += params.QiToQuaiConversionGas
	}
	need := new(big.Int).Mul(new(big.Int).SetUint64(req), e.BaseFee)
	lo, hi := int64(1), int64(1)
	for e.QiToQuai(big.NewInt(hi)).Cmp(need) < 0 && hi < 1<<40 {
		hi *= 2
	}
	for lo < hi {
		mid := (lo + hi) / 2
		if e.QiToQuai(big.NewInt(mid)).Cmp(need) >= 0 {
			hi = mid
		} else {
			lo = mid + 1
		}
	}
	return lo
}

type txGen struct {
	t        *rapid.T
	env      *Env
	led      *UTXOLedger
	used     map[[20]byte]bool
	rawCtr   uint32
	txIdx    int
	features map[string]bool
	muts     map[string]bool
	prep     *prepared
}

func (g *txGen) mark(a []byte) {
	var k [20]byte
	copy(k[:], a)
	g.used[k] = true
}

func (g *txGen) isUsed(a []byte) bool {
	var k [20]byte
	copy(k[:], a)
	return g.used[k]
}

// freshLocal returns an in-zone Qi address not yet used in this transaction: preferably a pool
// key (so the output can be spent later in the block), else a constructed address.
func (g *txGen) freshLocal() []byte {
	if irange(g.t, 0, 9, "recipientFromPool") < 8 {
		start := irange(g.t, 0, len(g.env.Pool.Qi)-1, "recipient")
		for i := 0; i < len(g.env.Pool.Qi); i++ {
			k := g.env.Pool.Qi[(start+i)%len(g.env.Pool.Qi)]
			if !g.isUsed(k.Addr[:]) {
				g.mark(k.Addr[:])
				return k.AddrBytes()
			}
		}
	}
	g.rawCtr++
	a := RawAddress(LocByte(g.env.Loc), true, uint32(g.txIdx)<<16|g.rawCtr)
	g.mark(a)
	return a
}

func (g *txGen) freshRaw(zone byte, qi bool) []byte {
	g.rawCtr++
	a := RawAddress(zone, qi, uint32(g.txIdx)<<16|g.rawCtr)
	g.mark(a)
	return a
}

// spendable lists live outputs the pool can legitimately spend now.
func (g *txGen) spendable() (all []Item, sameBlock []Item) {
	for _, it := range g.led.Items() {
		k := g.env.Pool.ByAddr(it.Entry.Address)
		if k == nil || !IsQiBytes(k.Addr[:]) {
			continue
		}
		if it.Entry.Denomination > MaxDenomination {
			continue
		}
		if it.Entry.Lock != nil && it.Entry.Lock.Cmp(new(big.Int).SetUint64(g.env.Height)) > 0 {
			continue
		}
		all = append(all, it)
		if g.led.CreatedInBlock(it.OutPoint) {
			sameBlock = append(sameBlock, it)
		}
	}
	return
}

func (g *txGen) inFor(it Item, k *Key) inSpec {
	v := int64(0)
	if it.Entry.Denomination <= MaxDenomination {
		v = denomValue[it.Entry.Denomination]
	}
	return inSpec{op: it.OutPoint, listed: k, signer: k, value: v, denom: it.Entry.Denomination}
}

// GenTx draws transaction number txIdx of the block from the current ledger view (which already
// reflects the accepted transactions 0..txIdx-1). With probability mutationPct/100 the
// adversarial mutation layer applies one or two mutations to the otherwise valid draft.
func GenTx(t *rapid.T, env *Env, led *UTXOLedger, txIdx int, fs *BlockFeeState, mutationPct int) *TxCase {
	g := &txGen{t: t, env: env, led: led, used: map[[20]byte]bool{}, txIdx: txIdx, features: map[string]bool{}, muts: map[string]bool{}}
	d := &draft{chainID: new(big.Int).Set(env.ChainID)}
	lb := LocByte(env.Loc)

	// ---- inputs
	// The first input is the "fee bill": the output whose value pays the fee (the rest of it comes
	// back as change). Process refuses a block whose Qi gas prices increase, so in ordered mode the
	// fee bill is chosen such that a fee under the previous price is reachable with few change
	// outputs: the most valuable outputs go first, smaller and smaller ones follow.
	all, same := g.spendable()
	ordered := fs.Ordered
	K := env.QiToQuai(big.NewInt(1000)) // wei per 1000 qits
	feeTargetHint := int64(-1)
	if len(all) > 0 {
		nIn := sample(t, []int{1, 1, 1, 1, 2, 2, 2, 3, 3, 4}, "nIn")
		if nIn > len(all) {
			nIn = len(all)
		}
		picked := map[types.OutPoint]bool{}
		take := func(it Item) {
			picked[it.OutPoint] = true
			d.ins = append(d.ins, g.inFor(it, env.Pool.ByAddr(it.Entry.Address)))
		}
		if ordered {
			// a fee bill must at least cover the base-fee floor of a large transaction shape
			gasBig := params.CalculateQiGasWithUTXOSetSizeScalingFactor(env.QiScalingFactor, 4*params.SloadGas+8*params.CallValueTransferGas+params.EcrecoverGas) + 2*(params.TxGas+params.ETXGas) + params.QiToQuaiConversionGas
			floorQ := int64(1)
			if need := new(big.Int).Mul(new(big.Int).SetUint64(gasBig), env.BaseFee); K.Sign() > 0 {
				need.Mul(need, big.NewInt(1000))
				need.Div(need, K)
				if need.IsInt64() && need.Int64()+1 > floorQ {
					floorQ = need.Int64() + 1
				}
			}
			byValue := append([]Item{}, all...)
			sort.SliceStable(byValue, func(i, j int) bool { return byValue[i].Entry.Denomination > byValue[j].Entry.Denomination })
			if fs.PrevPrice == nil {
				take(byValue[Uniform(t, min(3, len(byValue)), "feeBillTop")])
			} else {
				// conservative cap: the cheapest transaction shape (1 input, 1 output)
				gasMin := params.CalculateQiGasWithUTXOSetSizeScalingFactor(env.QiScalingFactor, params.SloadGas+params.CallValueTransferGas+params.EcrecoverGas)
				cp := new(big.Int).Mul(fs.PrevPrice, new(big.Int).SetUint64(gasMin))
				cp.Mul(cp, big.NewInt(1000))
				if K.Sign() > 0 {
					cp.Div(cp, K)
				}
				capQ := int64(1 << 40)
				if cp.IsInt64() && cp.Int64() < capQ {
					capQ = cp.Int64()
				}
				feeTargetHint = capQ * sample(t, []int64{100, 90, 60, 25}, "feeFraction") / 100
				if feeTargetHint < 1 {
					feeTargetHint = 1
				}
				var cands []Item
				for _, it := range byValue {
					v := denomValue[it.Entry.Denomination]
					fee := v
					if v > feeTargetHint {
						_, rest := greedySplit(v-feeTargetHint, int(it.Entry.Denomination), 5)
						fee = feeTargetHint + rest
					}
					if fee <= capQ && v >= floorQ {
						cands = append(cands, it)
					}
				}
				if len(cands) > 0 {
					// prefer the valuable ones: they keep the price high for the transactions that follow
					take(cands[Uniform(t, min(4, len(cands)), "feeBillPick")])
				} else {
					take(byValue[0]) // nothing fits under the previous price: at least pay the floor
				}
			}
		}
		if len(same) > 0 && len(d.ins) < nIn && Chance(t, 50, "preferSameBlock") {
			if it := same[Uniform(t, len(same), "sameBlockPick")]; !picked[it.OutPoint] {
				take(it)
			}
		}
		for len(d.ins) < nIn {
			start := Uniform(t, len(all), "inPick")
			for i := 0; i < len(all); i++ {
				if it := all[(start+i)%len(all)]; !picked[it.OutPoint] {
					take(it)
					break
				}
			}
		}
		for _, in := range d.ins {
			g.mark(in.listed.Addr[:])
			if g.led.CreatedInBlock(in.op) {
				g.muts[MSameBlock] = true
			}
		}
	}

	// ---- plan of outputs (everything except the change of the fee bill)
	type planned struct {
		denom uint8
		kind  OutputClass
	}
	var fixed []planned
	feeBill := -1
	if len(d.ins) > 0 {
		feeBill = 0
		if !ordered {
			for i, in := range d.ins {
				if in.value > d.ins[feeBill].value {
					feeBill = i
				}
			}
		}
	}
	for i, in := range d.ins {
		if i == feeBill {
			continue
		}
		// the other bills pass through, or are broken exactly into the next smaller denomination
		if in.denom > 0 && Chance(t, 35, "splitBill") {
			if r := denomValue[in.denom] / denomValue[in.denom-1]; r <= 5 {
				for k := int64(0); k < r; k++ {
					fixed = append(fixed, planned{in.denom - 1, OutLocal})
				}
				continue
			}
		}
		fixed = append(fixed, planned{in.denom, OutLocal})
	}
	// destinations: which of the outputs leave the ledger
	var eligibleZones, ineligibleZones []byte
	for _, z := range DestZones {
		if env.ZoneEligible(z) {
			eligibleZones = append(eligibleZones, z)
		} else {
			ineligibleZones = append(ineligibleZones, z)
		}
	}
	nCross := 0
	if len(eligibleZones) > 0 {
		nCross = sample(t, []int{0, 0, 0, 0, 0, 1, 1, 2}, "nCrossZone")
	}
	aggKind := OutLocal
	switch irange(t, 0, 11, "aggKind") {
	case 0:
		// conversions are refused in the hold intervals after a fork: aim there only sometimes
		if !env.ConversionHeld() || Chance(t, 25, "conversionInHold") {
			aggKind = OutConversion
		}
	case 1:
		aggKind = OutWrap
	}
	nAgg := 0
	if aggKind != OutLocal {
		nAgg = irange(t, 1, 2, "nAgg")
	}
	maxChange := irange(t, 1, 4, "maxChange")

	build := func(fee int64) {
		d.outs = d.outs[:0]
		var pl []planned
		pl = append(pl, fixed...)
		if feeBill >= 0 {
			fb := d.ins[feeBill]
			if fee < fb.value {
				parts, _ := greedySplit(fb.value-fee, int(fb.denom), maxChange)
				for _, p := range parts {
					pl = append(pl, planned{p, OutLocal})
				}
			}
		}
		// assign special destinations from the end of the list (change outputs first)
		c, a := nCross, nAgg
		for i := len(pl) - 1; i >= 0; i-- {
			if a > 0 {
				pl[i].kind = aggKind
				a--
			} else if c > 0 {
				pl[i].kind = OutCrossZone
				c--
			}
		}
		for _, p := range pl {
			d.outs = append(d.outs, types.TxOut{Denomination: p.denom})
		}
		// addresses come from the prepared destinations (each drawn only once)
		kinds := make([]OutputClass, len(pl))
		for i := range pl {
			kinds[i] = pl[i].kind
		}
		g.assign(d, kinds)
	}

	// ---- fee: fixpoint between the fee, the change outputs it leaves and the gas they cost
	g.prepareAddresses(d, aggKind, eligibleZones)
	build(1)
	minFee := env.minFee(d)
	target := minFee
	if feeBill >= 0 {
		switch {
		case !ordered:
			target = minFee + int64(sample(t, []int{0, 1, 2, 7, 60}, "feeExtra"))
		case fs.PrevPrice == nil:
			// the first transaction sets a high price so that the following ones have room below it
			if base := d.ins[feeBill].value / int64(sample(t, []int{2, 4, 10, 100}, "feeTarget")); base > target {
				target = base
			}
		default:
			if feeTargetHint > target {
				target = feeTargetHint
			}
		}
		frac := int64(100)
		if ordered && fs.PrevPrice != nil {
			frac = sample(t, []int64{100, 95, 80, 50}, "feeFractionExact")
		}
		raised := false
		for attempt := 0; attempt < 8; attempt++ {
			build(target)
			mf := env.minFee(d)
			fee := d.sumIn() - d.sumOut()
			if fee < mf {
				if target >= mf || mf > d.ins[feeBill].value {
					break // the fee bill cannot pay the floor
				}
				target = mf
				continue
			}
			if ordered && fs.PrevPrice != nil {
				tmp := types.NewTx(d.txData(nil))
				gas := types.CalculateBlockQiTxGas(tmp, env.QiScalingFactor, env.Loc)
				ce := new(big.Int).Mul(fs.PrevPrice, new(big.Int).SetUint64(gas))
				ce.Mul(ce, big.NewInt(1000))
				if K.Sign() > 0 {
					ce.Div(ce, K)
				}
				capE := int64(1 << 40)
				if ce.IsInt64() && ce.Int64() < capE {
					capE = ce.Int64()
				}
				want := capE * frac / 100
				if p := env.GasPrice(tmp, big.NewInt(fee)); p.Cmp(fs.PrevPrice) > 0 {
					nt := target * 7 / 10
					if want < nt {
						nt = want
					}
					if nt < mf {
						nt = mf
					}
					if nt == target && maxChange >= 6 {
						break
					}
					target, maxChange = nt, 6
					continue
				}
				// far below the previous price: move up towards it so that later transactions keep room
				if !raised && fee < want/2 && want <= d.ins[feeBill].value {
					raised = true
					target = want
					continue
				}
			}
			break
		}
	}

	// ---- a data payload only accompanies aggregated (conversion / wrap) outputs
	if nAgg == 0 || len(d.outs) == 0 {
		d.data = nil
	}

	// ---- adversarial mutation layer
	nMut := 0
	if Chance(t, mutationPct, "mutate") || len(d.ins) == 0 {
		nMut = sample(t, []int{1, 1, 1, 2}, "nMut")
	}
	sigMut := ""
	for m := 0; m < nMut; m++ {
		if s := g.mutate(d, ineligibleZones); s != "" {
			sigMut = s
		}
	}

	// ---- features of the final draft
	for _, o := range d.outs {
		if len(o.Address) != 20 {
			continue
		}
		switch {
		case o.Address[0] != lb:
			g.features["crosszone"] = true
		case !IsQiBytes(o.Address) && len(d.data) == 22:
			g.features["conversion"] = true
		case !IsQiBytes(o.Address) && len(d.data) == 20:
			g.features["wrap"] = true
		}
	}
	if len(d.ins) > 1 {
		g.features["musig2"] = true
	} else {
		delete(g.features, "musig2")
	}

	// ---- sign
	tc := &TxCase{Ordered: ordered}
	tc.CheckSig = irange(t, 0, 3, "checkSig") != 0
	unsigned := types.NewTx(d.txData(nil))
	msg := env.Signer.Hash(unsigned)
	var sig *schnorr.Signature
	var err error
	valid := len(d.ins) > 0
	signers := make([]*Key, len(d.ins))
	for i, in := range d.ins {
		signers[i] = in.signer
		if in.signer != in.listed {
			valid = false
		}
	}
	signMsg := [32]byte(msg)
	switch sigMut {
	case "wrong-message":
		signMsg = [32]byte(crypto.Keccak256Hash(msg[:]))
		valid = false
	case "single-for-multi":
		if len(signers) > 1 {
			signers = signers[:1]
			valid = false
		}
	}
	switch {
	case len(signers) == 0 || sigMut == "no-signature":
		sig, valid = nil, false
		tc.SigKind = "none"
	case len(signers) == 1:
		sig, err = SignSchnorr(signers[0], signMsg)
		tc.SigKind = "schnorr"
	default:
		sig, err = SignMuSig2(signers, signMsg)
		tc.SigKind = "musig2"
	}
	if err != nil {
		t.Fatalf("HARNESS: signing failed: %v", err)
	}
	if sigMut == "bit-flip" && sig != nil {
		b := sig.Serialize()
		for try := 0; try < 8; try++ {
			pos := 33 + irange(t, 0, 30, "flipByte")
			b[pos] ^= 1 << uint(irange(t, 0, 7, "flipBit"))
			if s2, e2 := schnorr.ParseSignature(b); e2 == nil {
				sig = s2
				valid = false
				break
			}
		}
	}
	if sigMut != "" {
		tc.SigKind += "/" + sigMut
	}
	tc.Tx = types.NewTx(d.txData(sig))
	tc.SigValid = valid
	// self-check of the construction flag against an actual verification
	listed := make([][]byte, len(d.ins))
	for i, in := range d.ins {
		listed[i] = in.listed.Pub
	}
	if got := VerifyListed(listed, sig, [32]byte(msg)); got != valid {
		t.Fatalf("HARNESS: generator believes signature valid=%v but verification says %v (%s, %d inputs)", valid, got, tc.SigKind, len(d.ins))
	}
	if !valid {
		g.muts[MBadSig] = true
	}
	for m := range g.muts {
		tc.Mutations = append(tc.Mutations, m)
	}
	sort.Strings(tc.Mutations)
	for f := range g.features {
		tc.Features = append(tc.Features, f)
	}
	sort.Strings(tc.Features)
	tc.Desc = describe(env, d, tc)
	return tc
}

// prepared destination addresses of the transaction (drawn once so that rebuilding the outputs
// for a different fee does not change the structure)
type prepared struct {
	agg   []byte
	cross [][]byte
	local [][]byte
}

func (g *txGen) prepareAddresses(d *draft, aggKind OutputClass, eligibleZones []byte) {
	p := &prepared{}
	lb := LocByte(g.env.Loc)
	if aggKind != OutLocal {
		p.agg = g.freshRaw(lb, false)
		if aggKind == OutConversion {
			refund := g.env.Pool.Qi[irange(g.t, 0, len(g.env.Pool.Qi)-1, "refund")]
			d.data = append([]byte{0, byte(irange(g.t, 0, 255, "slip"))}, refund.Addr[:]...)
		} else {
			d.data = RawAddress(lb, false, 77)
		}
	}
	for i := 0; i < 2 && len(eligibleZones) > 0; i++ {
		z := eligibleZones[irange(g.t, 0, len(eligibleZones)-1, "crossZone")]
		p.cross = append(p.cross, g.freshRaw(z, true))
	}
	g.prep = p // local recipients are drawn lazily, in order, by assign
}

func (g *txGen) assign(d *draft, kinds []OutputClass) {
	p := g.prep
	ci, li := 0, 0
	for i := range d.outs {
		switch kinds[i] {
		case OutConversion, OutWrap:
			d.outs[i].Address = append([]byte{}, p.agg...)
		case OutCrossZone:
			if ci < len(p.cross) {
				d.outs[i].Address = append([]byte{}, p.cross[ci]...)
				ci++
				continue
			}
			fallthrough
		default:
			if li >= len(p.local) {
				p.local = append(p.local, nil)
			}
			if p.local[li] == nil {
				p.local[li] = g.freshLocal()
			}
			d.outs[i].Address = append([]byte{}, p.local[li]...)
			li++
		}
	}
}

// mutate applies one adversarial mutation chosen among the currently applicable ones and
// returns a signature-mutation name if the mutation concerns the signature.
func (g *txGen) mutate(d *draft, ineligibleZones []byte) string {
	t, env, led := g.t, g.env, g.led
	lb := LocByte(env.Loc)
	type opt struct {
		name   string
		weight int
	}
	var opts []opt
	add := func(n string, w int, ok bool) {
		if ok && !g.muts[n] {
			opts = append(opts, opt{n, w})
		}
	}
	hasIns := len(d.ins) > 0
	var locked, badDenom, quaiOwned []Item
	for _, it := range led.Items() {
		k := env.Pool.ByAddr(it.Entry.Address)
		if k != nil && !IsQiBytes(k.Addr[:]) && it.Entry.Denomination <= MaxDenomination {
			quaiOwned = append(quaiOwned, it)
		}
		if k == nil || !IsQiBytes(k.Addr[:]) {
			continue
		}
		isLocked := it.Entry.Lock != nil && it.Entry.Lock.Cmp(new(big.Int).SetUint64(env.Height)) > 0
		if isLocked && it.Entry.Denomination <= MaxDenomination {
			locked = append(locked, it)
		}
		if !isLocked && it.Entry.Denomination > MaxDenomination {
			badDenom = append(badDenom, it)
		}
	}
	add(MDupIn, 6, hasIns)
	add(MRespent, 8, len(led.Spent) > 0)
	add(MRespentEarlier, 20, len(led.Gone) > 0)
	add(MUnknown, 3, true)
	add(MNonOwner, 3, hasIns)
	add(MWrongLedger, 1, hasIns)
	add(MLocked, 3, len(locked) > 0)
	add(MBadDenomIn, 1, len(badDenom) > 0)
	add(MOverspend, 3, hasIns)
	add(MBadSig, 4, hasIns)
	add(MBadDenomOut, 1, len(d.outs) > 0)
	add(MOutLock, 1, len(d.outs) > 0)
	add(MMerge, 2, hasIns)
	add(MReuseAddr, 2, hasIns && len(d.outs) > 0)
	add(MIneligible, 1, len(ineligibleZones) > 0 && len(d.outs) > 0)
	add(MLowFee, 2, hasIns)
	add(MChainID, 1, true)
	add(MBadData, 1, true)
	add(MQuaiOut, 1, len(d.outs) > 0 && len(d.data) == 0)
	add(MNoInputs, 1, hasIns)
	add(MQuaiOwned, 1, len(quaiOwned) > 0)
	if len(opts) == 0 {
		return ""
	}
	total := 0
	for _, o := range opts {
		total += o.weight
	}
	r := irange(t, 0, total-1, "mutation")
	choice := opts[0].name
	for _, o := range opts {
		if r < o.weight {
			choice = o.name
			break
		}
		r -= o.weight
	}
	g.muts[choice] = true
	// greedy: also claim the value of the illegitimate input as a new output (otherwise it is
	// left to the fee)
	greedy := rapid.Bool().Draw(t, "greedy")
	claim := func(denom uint8) {
		if greedy && denom <= MaxDenomination {
			d.outs = append(d.outs, types.TxOut{Denomination: denom, Address: g.freshLocal()})
		}
	}
	anyQi := func() *Key { return env.Pool.Qi[irange(t, 0, len(env.Pool.Qi)-1, "mutKey")] }
	switch choice {
	case MDupIn:
		j := irange(t, 0, len(d.ins)-1, "dupWhich")
		cp := d.ins[j]
		pos := irange(t, 0, len(d.ins), "dupPos")
		d.ins = append(d.ins[:pos], append([]inSpec{cp}, d.ins[pos:]...)...)
		claim(cp.denom)
	case MRespent:
		rec := led.Spent[irange(t, 0, len(led.Spent)-1, "respentWhich")]
		k := env.Pool.ByAddr(rec.Entry.Address)
		if k == nil {
			k = anyQi()
		}
		d.ins = append(d.ins, g.inFor(rec.Item, k))
		claim(rec.Entry.Denomination)
	case MRespentEarlier:
		rec := led.Gone[Uniform(t, len(led.Gone), "goneWhich")]
		k := env.Pool.ByAddr(rec.Entry.Address)
		if k == nil {
			k = anyQi()
		}
		d.ins = append(d.ins, g.inFor(rec.Item, k))
		claim(rec.Entry.Denomination)
	case MUnknown:
		var op types.OutPoint
		items := led.Items()
		switch v := irange(t, 0, 2, "unknownKind"); {
		case v == 0 || len(items) == 0:
			op = types.OutPoint{TxHash: common.BytesToHash(crypto.Keccak256([]byte("verif-unknown"), []byte{byte(g.txIdx), byte(irange(t, 0, 255, "unknownSeed"))})), Index: uint16(irange(t, 0, 2, "unknownIdx"))}
		default:
			op = items[irange(t, 0, len(items)-1, "unknownNear")].OutPoint
			for {
				if v == 1 {
					op.Index++
				} else {
					op.Index--
				}
				if _, live := led.Get(op); !live && !led.SpentInBlock(op) && !led.SpentEarlier(op) {
					break
				}
			}
		}
		dn := uint8(irange(t, 0, MaxDenomination, "unknownDenom"))
		d.ins = append(d.ins, inSpec{op: op, listed: anyQi(), value: 0, denom: dn})
		d.ins[len(d.ins)-1].signer = d.ins[len(d.ins)-1].listed
		claim(dn)
	case MNonOwner, MWrongLedger:
		j := irange(t, 0, len(d.ins)-1, "keyWhich")
		var nk *Key
		if choice == MWrongLedger {
			nk = env.Pool.Quai[irange(t, 0, len(env.Pool.Quai)-1, "mutKey")]
		} else {
			cands := append(append([]*Key{}, env.Pool.Qi...), env.Pool.Foreign...)
			start := irange(t, 0, len(cands)-1, "mutKey")
			for i := 0; i < len(cands); i++ {
				if c := cands[(start+i)%len(cands)]; c != d.ins[j].listed {
					nk = c
					break
				}
			}
		}
		d.ins[j].listed, d.ins[j].signer = nk, nk
	case MLocked:
		it := locked[irange(t, 0, len(locked)-1, "lockedWhich")]
		d.ins = append(d.ins, g.inFor(it, env.Pool.ByAddr(it.Entry.Address)))
		claim(it.Entry.Denomination)
	case MBadDenomIn:
		it := badDenom[irange(t, 0, len(badDenom)-1, "badDenomWhich")]
		d.ins = append(d.ins, g.inFor(it, env.Pool.ByAddr(it.Entry.Address)))
	case MOverspend:
		fee := d.sumIn() - d.sumOut()
		// smallest denomination worth more than the fee (there is always one below 1e9 for
		// our sizes; otherwise take the largest)
		dn := uint8(MaxDenomination)
		for k := 0; k <= MaxDenomination; k++ {
			if denomValue[k] > fee {
				dn = uint8(k)
				break
			}
		}
		if rapid.Bool().Draw(t, "overspendBig") {
			dn = uint8(irange(t, int(dn), MaxDenomination, "overspendDenom"))
		}
		d.outs = append(d.outs, types.TxOut{Denomination: dn, Address: g.freshLocal()})
	case MBadSig:
		kinds := []string{"bit-flip", "wrong-message", "wrong-key", "no-signature"}
		if len(d.ins) > 1 {
			kinds = append(kinds, "single-for-multi")
		}
		k := sample(t, kinds, "sigMutation")
		if k == "wrong-key" {
			j := irange(t, 0, len(d.ins)-1, "keyWhich")
			for _, c := range append(append([]*Key{}, env.Pool.Qi...), env.Pool.Quai...) {
				if c != d.ins[j].listed {
					d.ins[j].signer = c
					break
				}
			}
		}
		return k
	case MBadDenomOut:
		j := irange(t, 0, len(d.outs)-1, "outWhich")
		d.outs[j].Denomination = sample(t, []uint8{15, 16, 200, 255}, "badDenomV")
	case MOutLock:
		j := irange(t, 0, len(d.outs)-1, "outWhich")
		d.outs[j].Lock = big.NewInt(int64(sample(t, []int{1, 100, 1 << 40}, "outLock")))
	case MMerge:
		// preferred: two spendable bills of a denomination worth half of the next one are added as
		// inputs and come out as one bill of the next denomination (fee unchanged)
		have := map[types.OutPoint]bool{}
		for _, in := range d.ins {
			have[in.op] = true
		}
		spend, _ := g.spendable()
		merged := false
		for _, dn := range []uint8{1, 3, 5, 7, 8} {
			var pair []Item
			for _, it := range spend {
				if it.Entry.Denomination == dn && !have[it.OutPoint] && len(pair) < 2 {
					pair = append(pair, it)
				}
			}
			if len(pair) == 2 {
				for _, it := range pair {
					d.ins = append(d.ins, g.inFor(it, env.Pool.ByAddr(it.Entry.Address)))
				}
				d.outs = append(d.outs, types.TxOut{Denomination: dn + 1, Address: g.freshLocal()})
				merged = true
				break
			}
		}
		if merged {
			break
		}
		fee := d.sumIn() - d.sumOut()
		if fee < 0 {
			fee = 0
		}
		parts, _ := greedySplit(d.sumIn()-fee, MaxDenomination, 3)
		var outs []types.TxOut
		for _, p := range parts {
			outs = append(outs, types.TxOut{Denomination: p, Address: g.freshLocal()})
		}
		d.outs = outs
		d.data = nil
	case MReuseAddr:
		j := irange(t, 0, len(d.outs)-1, "outWhich")
		if len(d.outs) > 1 && rapid.Bool().Draw(t, "reuseOut") {
			d.outs[j].Address = append([]byte{}, d.outs[(j+1)%len(d.outs)].Address...)
		} else {
			d.outs[j].Address = d.ins[irange(t, 0, len(d.ins)-1, "reuseIn")].listed.AddrBytes()
		}
	case MIneligible:
		j := irange(t, 0, len(d.outs)-1, "outWhich")
		d.outs[j].Address = g.freshRaw(ineligibleZones[irange(t, 0, len(ineligibleZones)-1, "ineligibleZone")], true)
	case MLowFee:
		fee := d.sumIn() - d.sumOut()
		keep := int64(0)
		if mf := env.minFee(d); mf > 1 && rapid.Bool().Draw(t, "feeJustBelow") {
			keep = mf - 1
		}
		if fee > keep {
			parts, _ := greedySplit(fee-keep, MaxDenomination, 6)
			for _, p := range parts {
				d.outs = append(d.outs, types.TxOut{Denomination: p, Address: g.freshLocal()})
			}
		}
	case MChainID:
		d.chainID = sample(t, []*big.Int{big.NewInt(0), big.NewInt(1338), big.NewInt(9000)}, "chainID")
	case MBadData:
		switch irange(t, 0, 3, "badData") {
		case 0:
			d.data = []byte{1, 2, 3, 4, 5}
		case 1:
			d.data = RawAddress(lb, true, 5) // wrap owner in the Qi ledger
		case 2:
			d.data = append([]byte{0, 1}, RawAddress(lb, false, 6)...) // conversion refund in the Quai ledger
		case 3:
			d.data = make([]byte, 21)
		}
	case MQuaiOut:
		j := irange(t, 0, len(d.outs)-1, "outWhich")
		z := lb
		if rapid.Bool().Draw(t, "quaiOutForeign") {
			z = DestZones[irange(t, 0, len(DestZones)-1, "quaiOutZone")]
		}
		d.outs[j].Address = g.freshRaw(z, false)
	case MNoInputs:
		d.ins = nil
	case MQuaiOwned:
		it := quaiOwned[irange(t, 0, len(quaiOwned)-1, "quaiOwnedWhich")]
		d.ins = append(d.ins, g.inFor(it, env.Pool.ByAddr(it.Entry.Address)))
		claim(it.Entry.Denomination)
	}
	return ""
}

func describe(env *Env, d *draft, tc *TxCase) string {
	var b strings.Builder
	fmt.Fprintf(&b, "tx %s chain=%s checkSig=%v sig=%s valid=%v mut=%v feat=%v data=%x\n", tc.Tx.Hash().Hex()[:14], d.chainID, tc.CheckSig, tc.SigKind, tc.SigValid, tc.Mutations, tc.Features, d.data)
	for _, in := range d.ins {
		fmt.Fprintf(&b, "  in  %s:%d key=%s", in.op.TxHash.Hex()[:14], in.op.Index, in.listed.Name)
		if in.signer != in.listed {
			fmt.Fprintf(&b, " signedBy=%s", in.signer.Name)
		}
		b.WriteByte('\n')
	}
	for i, o := range d.outs {
		who := ""
		if k := env.Pool.ByAddr(o.Address); k != nil {
			who = " (" + k.Name + ")"
		}
		fmt.Fprintf(&b, "  out %d d%d -> %x%s lock=%v\n", i, o.Denomination, o.Address, who, o.Lock)
	}
	return b.String()
}
