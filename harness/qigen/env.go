package qigen

import (
	"fmt"
	"math"
	"math/big"

	"github.com/dominant-strategies/go-quai/common"
	"github.com/dominant-strategies/go-quai/consensus"
	"github.com/dominant-strategies/go-quai/consensus/misc"
	"github.com/dominant-strategies/go-quai/core/types"
	"github.com/dominant-strategies/go-quai/params"
	"pgregory.net/rapid"
)

// StubChain is the minimal core.ChainContext needed by core.ProcessQiTx /
// core.ValidateQiTx*: it serves one prime-terminus header and evaluates the eligibility bit mask
// exactly like HeaderChain.CheckIfEtxIsEligible.
type StubChain struct{ PrimeTerminus *types.WorkObject }

func (s *StubChain) Engine(*types.WorkObjectHeader) consensus.Engine          { return nil }
func (s *StubChain) GetHeaderOrCandidateByHash(common.Hash) *types.WorkObject { return s.PrimeTerminus }
func (s *StubChain) NodeCtx() int                                             { return common.ZONE_CTX }
func (s *StubChain) IsGenesisHash(common.Hash) bool                           { return false }
func (s *StubChain) GetHeaderByHash(common.Hash) *types.WorkObject            { return s.PrimeTerminus }
func (s *StubChain) GetBlockByHash(common.Hash) *types.WorkObject             { return s.PrimeTerminus }
func (s *StubChain) CheckInCalcOrderCache(common.Hash) (*big.Int, int, bool)  { return nil, 0, false }
func (s *StubChain) AddToCalcOrderCache(common.Hash, int, *big.Int)           {}
func (s *StubChain) CalcBaseFee(*types.WorkObject) *big.Int                   { return big.NewInt(1) }
func (s *StubChain) CalcOrder(*types.WorkObject) (*big.Int, int, error) {
	return big.NewInt(0), common.ZONE_CTX, nil
}
func (s *StubChain) CheckIfEtxIsEligible(mask common.Hash, to common.Location) bool {
	position := to.Region()*16 + to.Zone()
	return mask[position/8]&(1<<uint(position%8)) != 0
}

// Regime names a fork regime selected through the current header's prime-terminus number.
type Regime struct {
	Name string
	PTN  uint64
}

// Regimes lists the prime-terminus numbers on both sides of every fork that ProcessQiTx or
// the Qi/Quai rate functions consult.
func Regimes() []Regime {
	k, h := params.KawPowForkBlock, params.KQuaiChangeHoldInterval
	s, w := params.ShaEquivalentDifficultyForkBlock, params.QiWrappingChangeBlock
	return []Regime{
		{"pre-kawpow", 10},
		{"pre-kawpow", k - 1},
		{"kawpow-hold", k},
		{"kawpow-hold", k + h - 1},
		{"kawpow", k + h},
		{"kawpow", w - 1},
		{"wrapfork", w},
		{"wrapfork", s - 1},
		{"sha-hold", s},
		{"sha-hold", s + h - 1},
		{"sha", s + h},
		{"sha", s + 1000000},
	}
}

// Env is the block environment of one generated case.
type Env struct {
	Loc             common.Location
	ChainID         *big.Int
	Regime          Regime
	Height          uint64
	Difficulty      *big.Int
	ExchangeRate    *big.Int
	BaseFee         *big.Int
	BaseFeeLevel    int
	GasLimit        uint64
	Eligible        common.Hash
	ParentUtxoSize  uint64
	ParentTxCount   uint64
	Header          *types.WorkObject
	PrimeTerminus   *types.WorkObject
	Chain           *StubChain
	Signer          types.Signer
	QiScalingFactor float64
	Pool            *KeyPool
	rateNum         *big.Int
	rateDen         *big.Int
}

// AdvanceBlock moves the environment to the next block height (same fork regime and rates).
func (e *Env) AdvanceBlock() {
	e.Height++
	e.Header.SetNumber(new(big.Int).SetUint64(e.Height), common.ZONE_CTX)
	e.rateNum, e.rateDen = nil, nil // OneOverKqi depends on the block number
}

// WrapKeepsLocal mirrors the fork rule: before QiWrappingChangeBlock a wrapped output also
// stays in the local ledger.
func (e *Env) WrapKeepsLocal() bool { return e.Regime.PTN < params.QiWrappingChangeBlock }

// ConversionHeld reports the hold intervals in which conversions are refused.
func (e *Env) ConversionHeld() bool {
	return e.Regime.Name == "kawpow-hold" || e.Regime.Name == "sha-hold"
}

// EtxLimits returns the per-block cross-region / cross-prime ETX gas limits exactly as
// StateProcessor.Process derives them from the parent's transaction count.
func (e *Env) EtxLimits() (r, p uint64) {
	r = (e.ParentTxCount * params.TxGas) / params.ETXRegionMaxFraction
	if r < params.ETXRLimitMin {
		r = params.ETXRLimitMin
	}
	p = (e.ParentTxCount * params.TxGas) / params.ETXPrimeMaxFraction
	if p < params.ETXPLimitMin {
		p = params.ETXPLimitMin
	}
	return
}

// QiToQuai converts qits to wei with the rate functions of the implementation (used by the
// generator to aim fees, never by an oracle).
func (e *Env) QiToQuai(qits *big.Int) *big.Int {
	if e.rateNum == nil { // misc.QiToQuai is num*qits/den; the two rewards are costly (big-int log2)
		e.rateNum = misc.CalculateQuaiReward(e.Header.WorkObjectHeader(), e.Header.Difficulty(), e.PrimeTerminus.ExchangeRate())
		e.rateDen = misc.CalculateQiReward(e.Header.WorkObjectHeader(), e.Header.Difficulty())
	}
	q := new(big.Int).Mul(e.rateNum, qits)
	return q.Quo(q, e.rateDen)
}

// ZoneEligible reports whether the eligibility mask has the bit of the zone byte set.
func (e *Env) ZoneEligible(zoneByte byte) bool {
	pos := int(zoneByte>>4)*16 + int(zoneByte&0x0f)
	return e.Eligible[pos/8]&(1<<uint(pos%8)) != 0
}

func (e *Env) String() string {
	return fmt.Sprintf("regime=%s ptn=%d height=%d diff=%s rate=%s basefee=%s(level %d) gaslimit=%d eligible=%x scaling=%.2f parentTxs=%d",
		e.Regime.Name, e.Regime.PTN, e.Height, e.Difficulty, e.ExchangeRate, e.BaseFee, e.BaseFeeLevel, e.GasLimit, e.Eligible[:2], e.QiScalingFactor, e.ParentTxCount)
}

// foreign zones used as cross-zone destinations: same region and another region.
var DestZones = []byte{0x01, 0x02, 0x10, 0x11, 0x21}

// GenEnv draws a block environment for zone loc.
func GenEnv(t *rapid.T, loc common.Location) *Env {
	e := &Env{Loc: loc, ChainID: big.NewInt(1337), Pool: Pool(loc)}
	regs := Regimes()
	e.Regime = regs[irange(t, 0, len(regs)-1, "regime")]
	e.Height = sample(t, []uint64{100, 5000, 1300000, 3000000}, "height")
	// Difficulties: after the KawPoW fork the reward formula subtracts log2(3e11), so keep
	// realistic values there.
	if e.Regime.PTN >= params.KawPowForkBlock {
		e.Difficulty = sample(t, []*big.Int{big.NewInt(2e12), big.NewInt(9e13), big.NewInt(4e15)}, "difficulty")
	} else {
		e.Difficulty = sample(t, []*big.Int{big.NewInt(1e6), big.NewInt(3e10), big.NewInt(5e13)}, "difficulty")
	}
	rate := new(big.Int).Set(params.ExchangeRate)
	switch irange(t, 0, 3, "rate") {
	case 1:
		rate.Mul(rate, big.NewInt(30))
	case 2:
		rate.Mul(rate, big.NewInt(60))
	case 3:
		rate.Div(rate, big.NewInt(1000))
	}
	e.ExchangeRate = rate
	e.GasLimit = sample(t, []uint64{12000000, 12000000, 12000000, 12000000, 12000000, 12000000, 400000, 90000}, "gaslimit")
	// eligibility mask: zone bits drawn individually for the destination zones; never all set
	var mask common.Hash
	for _, z := range DestZones {
		if irange(t, 0, 3, "eligible") != 0 {
			pos := int(z>>4)*16 + int(z&0x0f)
			mask[pos/8] |= 1 << uint(pos%8)
		}
	}
	e.Eligible = mask
	e.ParentUtxoSize = sample(t, []uint64{0, 1, 24, 4000000, 60000000}, "parentUtxoSetSize")
	e.QiScalingFactor = math.Log(float64(e.ParentUtxoSize)) // as in Process; -Inf for 0
	e.ParentTxCount = sample(t, []uint64{0, 0, 3, 200}, "parentTxs")

	pt := types.EmptyZoneWorkObject()
	pt.Header().SetExchangeRate(new(big.Int).Set(e.ExchangeRate))
	pt.Header().SetEtxEligibleSlices(mask)
	e.PrimeTerminus = pt

	hdr := types.EmptyZoneWorkObject()
	hdr.WorkObjectHeader().SetLocation(loc)
	hdr.SetNumber(new(big.Int).SetUint64(e.Height), common.ZONE_CTX)
	hdr.WorkObjectHeader().SetDifficulty(new(big.Int).Set(e.Difficulty))
	hdr.WorkObjectHeader().SetPrimeTerminusNumber(new(big.Int).SetUint64(e.Regime.PTN))
	hdr.Header().SetPrimeTerminusHash(common.HexToHash("0x7e57"))
	hdr.Header().SetGasLimit(e.GasLimit)
	hdr.Header().SetBaseFee(big.NewInt(1))
	e.Header = hdr
	e.Chain = &StubChain{pt}
	e.Signer = types.NewSigner(e.ChainID, loc)

	// Base fee: level k means "a 20000-gas transaction needs about k qits of fee"; level 0 is 1 wei.
	e.BaseFeeLevel = sample(t, []int{0, 0, 1, 3, 40}, "baseFeeLevel")
	bf := big.NewInt(1)
	if e.BaseFeeLevel > 0 {
		bf = e.QiToQuai(big.NewInt(int64(e.BaseFeeLevel)))
		bf.Div(bf, big.NewInt(20000))
		if bf.Sign() <= 0 {
			bf = big.NewInt(1)
		}
	}
	e.BaseFee = bf
	hdr.Header().SetBaseFee(new(big.Int).Set(bf))
	return e
}
