package qigen

import (
	"bytes"
	"fmt"
	"math/big"
	"sort"

	"github.com/dominant-strategies/go-quai/common"
	"github.com/dominant-strategies/go-quai/core/types"
)

// MaxDenomination is the model's own copy of the largest valid denomination index.
const MaxDenomination = 14

// denomValue is the model's own denomination table (qits).
var denomValue = [MaxDenomination + 1]int64{1, 5, 10, 50, 100, 500, 1000, 5000, 10000, 20000, 100000, 1000000, 10000000, 100000000, 1000000000}

// DenomValue returns the value in qits of a denomination index, ok=false for an invalid index.
func DenomValue(d uint8) (*big.Int, bool) {
	if d > MaxDenomination {
		return nil, false
	}
	return big.NewInt(denomValue[d]), true
}

// Entry is one unspent output of the model.
type Entry struct {
	Denomination uint8
	Address      []byte   // owner address bytes as stored
	Lock         *big.Int // nil or 0 = unlocked, else first height at which it is spendable
}

func (e Entry) lockU() *big.Int {
	if e.Lock == nil {
		return new(big.Int)
	}
	return e.Lock
}

// Equal compares two entries (nil lock == zero lock).
func (e Entry) Equal(o Entry) bool {
	return e.Denomination == o.Denomination && bytes.Equal(e.Address, o.Address) && e.lockU().Cmp(o.lockU()) == 0
}

func (e Entry) String() string {
	return fmt.Sprintf("{d%d %x lock=%s}", e.Denomination, e.Address, e.lockU())
}

// ToUtxoEntry converts to the implementation's entry type (for hashing / seeding a DB).
func (e Entry) ToUtxoEntry() *types.UtxoEntry {
	var l *big.Int
	if e.Lock != nil {
		l = new(big.Int).Set(e.Lock)
	}
	return &types.UtxoEntry{Denomination: e.Denomination, Address: append([]byte{}, e.Address...), Lock: l}
}

// Item is an (outpoint, entry) pair.
type Item struct {
	OutPoint types.OutPoint
	Entry    Entry
}

// SpentRecord remembers an output consumed earlier in the block being built.
type SpentRecord struct {
	Item
	ByTx int
}

// UTXOLedger is the reference model of one zone's Qi ledger: outpoint -> entry, plus the
// bookkeeping of the block that is currently being applied (what was created and what was spent
// by its accepted transactions so far).
type UTXOLedger struct {
	live    map[types.OutPoint]Entry
	Spent   []SpentRecord // outputs consumed by accepted transactions of the current block
	Gone    []SpentRecord // outputs consumed by earlier blocks of the same history
	Created []Item        // outputs created by accepted transactions of the current block (may be spent again)
}

func NewLedger() *UTXOLedger { return &UTXOLedger{live: map[types.OutPoint]Entry{}} }

// Clone deep-copies the ledger (the undo of a block is "keep the clone taken before it").
func (l *UTXOLedger) Clone() *UTXOLedger {
	c := &UTXOLedger{live: make(map[types.OutPoint]Entry, len(l.live))}
	for k, v := range l.live {
		c.live[k] = v
	}
	c.Spent = append(c.Spent, l.Spent...)
	c.Gone = append(c.Gone, l.Gone...)
	c.Created = append(c.Created, l.Created...)
	return c
}

// BeginBlock closes the previous block: what it spent becomes "spent in an earlier block" and
// the per-block bookkeeping starts empty.
func (l *UTXOLedger) BeginBlock() {
	l.Gone = append(l.Gone, l.Spent...)
	l.Spent, l.Created = nil, nil
}

// SpentEarlier reports whether op was consumed by an earlier block of the history.
func (l *UTXOLedger) SpentEarlier(op types.OutPoint) bool {
	for _, s := range l.Gone {
		if s.OutPoint == op {
			return true
		}
	}
	return false
}

func (l *UTXOLedger) Add(op types.OutPoint, e Entry) { l.live[op] = e }
func (l *UTXOLedger) Get(op types.OutPoint) (Entry, bool) {
	e, ok := l.live[op]
	return e, ok
}
func (l *UTXOLedger) Len() int { return len(l.live) }

// SpentInBlock reports whether op was consumed by an accepted transaction of the current block.
func (l *UTXOLedger) SpentInBlock(op types.OutPoint) bool {
	for _, s := range l.Spent {
		if s.OutPoint == op {
			return true
		}
	}
	return false
}

// CreatedInBlock reports whether op was created by an accepted transaction of the current block.
func (l *UTXOLedger) CreatedInBlock(op types.OutPoint) bool {
	for _, s := range l.Created {
		if s.OutPoint == op {
			return true
		}
	}
	return false
}

// Items returns the live set ordered by (hash, index) - the order of a DB scan of the prefix.
func (l *UTXOLedger) Items() []Item {
	out := make([]Item, 0, len(l.live))
	for k, v := range l.live {
		out = append(out, Item{k, v})
	}
	sort.Slice(out, func(i, j int) bool {
		if c := bytes.Compare(out[i].OutPoint.TxHash[:], out[j].OutPoint.TxHash[:]); c != 0 {
			return c < 0
		}
		return out[i].OutPoint.Index < out[j].OutPoint.Index
	})
	return out
}

// Reasons for which the model forbids a transaction (the property's safety half). Anything not
// listed here is implementation policy: the model has no opinion on it.
const (
	RNoSuchOutput = "unknown-outpoint"       // never existed / not live and not spent in this block
	RSpentInBlock = "spent-in-block"         // consumed by an earlier accepted transaction of this block
	RSpentEarlier = "spent-in-earlier-block" // consumed by an earlier block
	RDupInTx      = "dup-in-tx"              // named by an earlier input of the same transaction
	RNotOwner     = "non-owner-key"          // address of the supplied public key differs from the owner address
	RLocked       = "locked"                 // lock height above the block height
	RBadDenomIn   = "bad-denom-input"        // entry without a defined value
	RBadDenomOut  = "bad-denom-output"       // output without a defined value
	ROverspend    = "value-created"          // outputs worth more than inputs
	RBadSignature = "bad-signature"          // signature check requested and the signature is not by the listed keys
	RBadPubKey    = "malformed-pubkey"       // public key that has no owner address
)

// OutputClass says where the value of one transaction output goes according to the model.
type OutputClass int

const (
	OutLocal      OutputClass = iota // a new local unspent output
	OutCrossZone                     // leaves as one external transaction carrying the denomination
	OutConversion                    // aggregated into the Qi->Quai conversion external transaction
	OutWrap                          // aggregated into the wrapping external transaction
)

// Effects is what an accepted transaction does to the ledger according to the model.
type Effects struct {
	Reasons   []string // non-empty: the model forbids accepting this transaction
	SpentIdx  []int    // for every input, 0-based
	Spends    []Item   // inputs resolved against the ledger (only those that resolved)
	InValue   *big.Int // value of the resolved inputs with a defined value
	OutValue  *big.Int // value of all outputs with a defined value
	Creates   []Item   // local outputs, in output order
	Class     []OutputClass
	CrossZone []int    // output indices leaving as plain external transactions
	AggValue  *big.Int // value aggregated into the conversion / wrap external transaction
	AggTo     []byte   // its destination (address of the aggregated outputs; last one wins as in a sequential scan)
	AggKind   OutputClass
	HasAgg    bool
	// WrapKeepsLocal is true when wrapped outputs stay in the Qi ledger as custody outputs in
	// addition to the wrap notification (rule before the wrapping fork); then the wrap
	// external transaction carries no value out of the Qi ledger.
	WrapKeepsLocal bool
}

// TxContext is the part of the block environment the model needs.
type TxContext struct {
	Loc            common.Location
	Height         *big.Int
	CheckSig       bool
	SigValid       bool // established by the generator by construction
	WrapKeepsLocal bool // see Effects
}

// Evaluate computes, without changing the ledger, whether the model allows tx and what it
// would do. It reads only the transaction's own content and the ledger.
func (l *UTXOLedger) Evaluate(tx *types.Transaction, c TxContext) *Effects {
	ef := &Effects{InValue: new(big.Int), OutValue: new(big.Int), AggValue: new(big.Int), WrapKeepsLocal: c.WrapKeepsLocal}
	add := func(r string) {
		for _, x := range ef.Reasons {
			if x == r {
				return
			}
		}
		ef.Reasons = append(ef.Reasons, r)
	}
	seen := map[types.OutPoint]bool{}
	for _, in := range tx.TxIn() {
		op := in.PreviousOutPoint
		if seen[op] {
			add(RDupInTx)
			continue
		}
		seen[op] = true
		e, ok := l.live[op]
		if !ok {
			if l.SpentInBlock(op) {
				add(RSpentInBlock)
			} else if l.SpentEarlier(op) {
				add(RSpentEarlier)
			} else {
				add(RNoSuchOutput)
			}
			continue
		}
		ef.Spends = append(ef.Spends, Item{op, e})
		owner, okp := AddressOfPub(in.PubKey)
		if !okp {
			add(RBadPubKey)
		} else if !bytes.Equal(owner[:], leftPad20(e.Address)) {
			add(RNotOwner)
		}
		if e.Lock != nil && e.Lock.Cmp(c.Height) > 0 {
			add(RLocked)
		}
		if v, okv := DenomValue(e.Denomination); okv {
			ef.InValue.Add(ef.InValue, v)
		} else {
			add(RBadDenomIn)
		}
	}
	lb := LocByte(c.Loc)
	data := tx.Data()
	h := tx.Hash()
	for i, o := range tx.TxOut() {
		v, okv := DenomValue(o.Denomination)
		if okv {
			ef.OutValue.Add(ef.OutValue, v)
		} else {
			add(RBadDenomOut)
			v = new(big.Int)
		}
		a := leftPad20(o.Address)
		inZone := a[0] == lb
		qi := a[1] > 127
		cls := OutLocal
		switch {
		case inZone && !qi && len(data) == 22:
			cls = OutConversion
		case inZone && !qi && len(data) == 20:
			cls = OutWrap
		case !inZone:
			cls = OutCrossZone
		}
		ef.Class = append(ef.Class, cls)
		switch cls {
		case OutConversion, OutWrap:
			ef.HasAgg = true
			ef.AggKind = cls
			ef.AggTo = a
			ef.AggValue.Add(ef.AggValue, v)
			if cls == OutWrap && c.WrapKeepsLocal {
				ef.Creates = append(ef.Creates, Item{types.OutPoint{TxHash: h, Index: uint16(i)}, Entry{o.Denomination, append([]byte{}, o.Address...), o.Lock}})
			}
		case OutCrossZone:
			ef.CrossZone = append(ef.CrossZone, i)
		default:
			ef.Creates = append(ef.Creates, Item{types.OutPoint{TxHash: h, Index: uint16(i)}, Entry{o.Denomination, append([]byte{}, o.Address...), o.Lock}})
		}
	}
	if ef.OutValue.Cmp(ef.InValue) > 0 {
		add(ROverspend)
	}
	if c.CheckSig && !c.SigValid {
		add(RBadSignature)
	}
	return ef
}

// Apply performs the effects of an accepted transaction (number txIdx of the current block).
func (l *UTXOLedger) Apply(ef *Effects, txIdx int) {
	for _, s := range ef.Spends {
		delete(l.live, s.OutPoint)
		l.Spent = append(l.Spent, SpentRecord{s, txIdx})
	}
	for _, c := range ef.Creates {
		l.live[c.OutPoint] = c.Entry
		l.Created = append(l.Created, c)
	}
}

func leftPad20(b []byte) []byte {
	if len(b) == 20 {
		return b
	}
	out := make([]byte, 20)
	if len(b) > 20 {
		copy(out, b[len(b)-20:])
	} else {
		copy(out[20-len(b):], b)
	}
	return out
}
