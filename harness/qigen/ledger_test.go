package qigen

import (
	"math/big"
	"testing"

	"github.com/dominant-strategies/go-quai/common"
	"github.com/dominant-strategies/go-quai/core/types"
)

func mkTx(ins []types.TxIn, outs []types.TxOut, data []byte) *types.Transaction {
	return types.NewTx(&types.QiTx{ChainID: big.NewInt(1337), TxIn: ins, TxOut: outs, Data: data})
}

func has(r []string, x string) bool {
	for _, y := range r {
		if y == x {
			return true
		}
	}
	return false
}

// The reference ledger's own unit tests: every forbidding reason, and apply.
func TestLedgerModel(t *testing.T) {
	loc := common.Location{0, 0}
	pool := Pool(loc)
	a, b := pool.Qi[0], pool.Qi[1]
	h := common.HexToHash("0x1234")
	op0, op1, op2 := types.OutPoint{TxHash: h, Index: 0}, types.OutPoint{TxHash: h, Index: 1}, types.OutPoint{TxHash: h, Index: 2}
	l := NewLedger()
	l.Add(op0, Entry{Denomination: 2, Address: a.AddrBytes()})                        // 10, unlocked
	l.Add(op1, Entry{Denomination: 4, Address: b.AddrBytes(), Lock: big.NewInt(101)}) // 100, locked at 100
	l.Add(op2, Entry{Denomination: 20, Address: a.AddrBytes()})                       // undefined value
	ctx := TxContext{Loc: loc, Height: big.NewInt(100), CheckSig: true, SigValid: true}
	local := RawAddress(0x00, true, 1)

	ok := mkTx([]types.TxIn{{PreviousOutPoint: op0, PubKey: a.Pub}}, []types.TxOut{{Denomination: 1, Address: local}}, nil)
	ef := l.Evaluate(ok, ctx)
	if len(ef.Reasons) != 0 || ef.InValue.Int64() != 10 || ef.OutValue.Int64() != 5 || len(ef.Creates) != 1 {
		t.Fatalf("valid spend: %+v", ef)
	}
	cases := []struct {
		name string
		tx   *types.Transaction
		ctx  TxContext
		want string
	}{
		{"dup", mkTx([]types.TxIn{{PreviousOutPoint: op0, PubKey: a.Pub}, {PreviousOutPoint: op0, PubKey: a.Pub}}, nil, nil), ctx, RDupInTx},
		{"unknown", mkTx([]types.TxIn{{PreviousOutPoint: types.OutPoint{TxHash: h, Index: 9}, PubKey: a.Pub}}, nil, nil), ctx, RNoSuchOutput},
		{"owner", mkTx([]types.TxIn{{PreviousOutPoint: op0, PubKey: b.Pub}}, nil, nil), ctx, RNotOwner},
		{"locked", mkTx([]types.TxIn{{PreviousOutPoint: op1, PubKey: b.Pub}}, nil, nil), ctx, RLocked},
		{"denom-in", mkTx([]types.TxIn{{PreviousOutPoint: op2, PubKey: a.Pub}}, nil, nil), ctx, RBadDenomIn},
		{"denom-out", mkTx([]types.TxIn{{PreviousOutPoint: op0, PubKey: a.Pub}}, []types.TxOut{{Denomination: 15, Address: local}}, nil), ctx, RBadDenomOut},
		{"overspend", mkTx([]types.TxIn{{PreviousOutPoint: op0, PubKey: a.Pub}}, []types.TxOut{{Denomination: 3, Address: local}}, nil), ctx, ROverspend},
		{"sig", ok, TxContext{Loc: loc, Height: big.NewInt(100), CheckSig: true, SigValid: false}, RBadSignature},
	}
	for _, c := range cases {
		if r := l.Evaluate(c.tx, c.ctx).Reasons; !has(r, c.want) {
			t.Errorf("%s: reasons %v lack %s", c.name, r, c.want)
		}
	}
	// lock == height is spendable; signature is not looked at without checkSig
	atLock := TxContext{Loc: loc, Height: big.NewInt(101), CheckSig: false, SigValid: false}
	if r := l.Evaluate(mkTx([]types.TxIn{{PreviousOutPoint: op1, PubKey: b.Pub}}, nil, nil), atLock).Reasons; len(r) != 0 {
		t.Errorf("lock==height: %v", r)
	}
	// apply, then the same outpoint is "spent in block", and the created output is live
	l.BeginBlock()
	l.Apply(ef, 0)
	if r := l.Evaluate(ok, ctx).Reasons; !has(r, RSpentInBlock) {
		t.Errorf("respend: %v", r)
	}
	created := types.OutPoint{TxHash: ok.Hash(), Index: 0}
	if _, live := l.Get(created); !live || !l.CreatedInBlock(created) || l.Len() != 3 {
		t.Errorf("apply did not create the output")
	}
	// classification: cross-zone, conversion, wrap before / after the fork
	cross, quai := RawAddress(0x01, true, 2), RawAddress(0x00, false, 3)
	outs := []types.TxOut{{Denomination: 0, Address: cross}, {Denomination: 1, Address: quai}, {Denomination: 0, Address: local}}
	in := []types.TxIn{{PreviousOutPoint: op1, PubKey: b.Pub}}
	conv := l.Evaluate(mkTx(in, outs, make([]byte, 22)), atLock)
	if len(conv.CrossZone) != 1 || !conv.HasAgg || conv.AggKind != OutConversion || conv.AggValue.Int64() != 5 || len(conv.Creates) != 1 {
		t.Errorf("conversion classification: %+v", conv)
	}
	wrapCtx := atLock
	wrapCtx.WrapKeepsLocal = true
	wrap := l.Evaluate(mkTx(in, outs, make([]byte, 20)), wrapCtx)
	if wrap.AggKind != OutWrap || len(wrap.Creates) != 2 {
		t.Errorf("wrap before the fork keeps a custody output: %+v", wrap)
	}
	if w2 := l.Evaluate(mkTx(in, outs, make([]byte, 20)), atLock); len(w2.Creates) != 1 {
		t.Errorf("wrap after the fork: %+v", w2)
	}
}

func TestMuSig2AndSchnorrSelfVerify(t *testing.T) {
	pool := Pool(common.Location{0, 0})
	var msg [32]byte
	msg[0] = 7
	s1, err := SignSchnorr(pool.Qi[0], msg)
	if err != nil || !VerifyListed([][]byte{pool.Qi[0].Pub}, s1, msg) || VerifyListed([][]byte{pool.Qi[1].Pub}, s1, msg) {
		t.Fatalf("schnorr self check failed: %v", err)
	}
	signers := []*Key{pool.Qi[0], pool.Qi[1], pool.Qi[0]} // a key may own several inputs
	s2, err := SignMuSig2(signers, msg)
	if err != nil {
		t.Fatal(err)
	}
	listed := [][]byte{pool.Qi[0].Pub, pool.Qi[1].Pub, pool.Qi[0].Pub}
	if !VerifyListed(listed, s2, msg) {
		t.Fatalf("musig2 signature does not verify against the aggregate of the listed keys")
	}
	if VerifyListed([][]byte{pool.Qi[1].Pub, pool.Qi[0].Pub, pool.Qi[0].Pub}, s2, msg) {
		t.Fatalf("musig2 signature verifies for a different key order")
	}
	s3, _ := SignMuSig2(signers, msg)
	if !s3.IsEqual(s2) {
		t.Fatalf("musig2 signing is not deterministic")
	}
}
