package qigen

import (
	"sync"

	"pgregory.net/rapid"
)

// rapid's integer and SampledFrom generators are deliberately biased towards small values and
// bounds; the generators here need predictable class frequencies (label floors), so every
// structural choice is made with a uniform integer assembled from unbiased boolean draws.
// Shrinking still works: all-false is the first alternative.

var (
	uniMu   sync.Mutex
	uniGens = map[int]*rapid.Generator[int]{}
)

func uniformGen(n int) *rapid.Generator[int] {
	uniMu.Lock()
	defer uniMu.Unlock()
	if g := uniGens[n]; g != nil {
		return g
	}
	bits := 10
	for (1 << uint(bits-4)) < n { // at least 16 times finer than n: modulo bias below 7 %
		bits += 4
	}
	g := rapid.Custom(func(t *rapid.T) int {
		u := 0
		for i := 0; i < bits; i++ {
			if rapid.Bool().Draw(t, "bit") {
				u |= 1 << uint(i)
			}
		}
		return int((uint64(u) * uint64(n)) >> uint(bits))
	})
	uniGens[n] = g
	return g
}

// Uniform returns a uniform integer in [0,n) (one logged draw per call).
func Uniform(t *rapid.T, n int, label string) int {
	if n <= 1 {
		return 0
	}
	return uniformGen(n).Draw(t, label)
}

func irange(t *rapid.T, lo, hi int, label string) int { return lo + Uniform(t, hi-lo+1, label) }

func sample[T any](t *rapid.T, xs []T, label string) T { return xs[Uniform(t, len(xs), label)] }

// Chance is true with probability pct/100.
func Chance(t *rapid.T, pct int, label string) bool { return Uniform(t, 100, label) < pct }
