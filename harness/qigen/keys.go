// Package qigen holds the reusable pieces of the Qi (UTXO) ledger checks: a deterministic key
// pool, the reference ledger model (UTXOLedger), the execution environment (header, stub
// chain context) and the rapid generators for UTXO universes and Qi transactions with an
// adversarial mutation layer (DESIGN.md §3.1 / §3.3). It contains no oracles: comparing the
// implementation with the model is the business of the props/cNN packages.
package qigen

import (
	"encoding/binary"
	"sync"

	"github.com/btcsuite/btcd/btcec/v2"
	"github.com/dominant-strategies/go-quai/common"
	"github.com/dominant-strategies/go-quai/crypto"
)

// Key is one secp256k1 key of the pool together with the 20-byte address derived from it.
type Key struct {
	Name string // stable readable name, e.g. "qi3", "quai0", "foreign1"
	Priv *btcec.PrivateKey
	Pub  []byte // 65-byte uncompressed public key, as carried by types.TxIn.PubKey
	Addr [20]byte
}

// AddrBytes returns a fresh copy of the address bytes.
func (k *Key) AddrBytes() []byte { return append([]byte{}, k.Addr[:]...) }

// AddressOfPub is the model's own derivation of the owner address of a public key
// (keccak256 of the 64 coordinate bytes, last 20 bytes). It does not go through
// common.Address so that it stays independent of the location logic.
func AddressOfPub(pub []byte) (a [20]byte, ok bool) {
	if len(pub) != 65 {
		return a, false
	}
	copy(a[:], crypto.Keccak256(pub[1:])[12:])
	return a, true
}

// LocByte is the first address byte of a zone location.
func LocByte(loc common.Location) byte { return byte(loc.Region())<<4 | byte(loc.Zone()) }

// IsQiBytes reports whether a 20-byte address is in the Qi ledger (top bit of the second byte).
func IsQiBytes(a []byte) bool { return len(a) >= 2 && a[1] > 127 }

// KeyPool is the per-location set of keys the generators draw from.
type KeyPool struct {
	Loc     common.Location
	Qi      []*Key // in-zone, Qi ledger: legitimate UTXO owners
	Quai    []*Key // in-zone, Quai ledger: "wrong ledger" keys
	Foreign []*Key // Qi ledger, some other zone
	byAddr  map[[20]byte]*Key
}

// ByAddr returns the pool key owning addr, or nil.
func (p *KeyPool) ByAddr(addr []byte) *Key {
	if len(addr) != 20 {
		return nil
	}
	var a [20]byte
	copy(a[:], addr)
	return p.byAddr[a]
}

const (
	nQiKeys      = 8
	nQuaiKeys    = 2
	nForeignKeys = 2
)

var (
	poolMu sync.Mutex
	pools  = map[string]*KeyPool{}
)

// Pool grinds (once per process and location, deterministically: private key i is
// keccak256("verif-qigen-key" || i)) a key pool for the zone location.
func Pool(loc common.Location) *KeyPool {
	poolMu.Lock()
	defer poolMu.Unlock()
	id := loc.Name()
	if p := pools[id]; p != nil {
		return p
	}
	p := &KeyPool{Loc: loc, byAddr: map[[20]byte]*Key{}}
	lb := LocByte(loc)
	var ctr [8]byte
	for i := uint64(0); len(p.Qi) < nQiKeys || len(p.Quai) < nQuaiKeys || len(p.Foreign) < nForeignKeys; i++ {
		binary.BigEndian.PutUint64(ctr[:], i)
		d := crypto.Keccak256([]byte("verif-qigen-key"), ctr[:])
		priv, pub := btcec.PrivKeyFromBytes(d)
		k := &Key{Priv: priv, Pub: pub.SerializeUncompressed()}
		a, _ := AddressOfPub(k.Pub)
		k.Addr = a
		switch {
		case a[0] == lb && a[1] > 127 && len(p.Qi) < nQiKeys:
			k.Name = "qi" + string(rune('0'+len(p.Qi)))
			p.Qi = append(p.Qi, k)
		case a[0] == lb && a[1] <= 127 && len(p.Quai) < nQuaiKeys:
			k.Name = "quai" + string(rune('0'+len(p.Quai)))
			p.Quai = append(p.Quai, k)
		case a[0] != lb && a[0]&0xf0 <= 0x20 && a[0]&0x0f <= 2 && a[1] > 127 && len(p.Foreign) < nForeignKeys:
			k.Name = "foreign" + string(rune('0'+len(p.Foreign)))
			p.Foreign = append(p.Foreign, k)
		default:
			continue
		}
		p.byAddr[k.Addr] = k
	}
	pools[id] = p
	return p
}

// RawAddress builds a 20-byte address by construction: zone byte, ledger bit and a tail
// derived from n. No key is known for it.
func RawAddress(zoneByte byte, qi bool, n uint32) []byte {
	var c [4]byte
	binary.BigEndian.PutUint32(c[:], n)
	h := crypto.Keccak256([]byte("verif-qigen-addr"), c[:])
	a := make([]byte, 20)
	copy(a, h[:20])
	a[0] = zoneByte
	if qi {
		a[1] |= 0x80
	} else {
		a[1] &= 0x7f
	}
	return a
}
