package qigen

import (
	"encoding/binary"
	"errors"
	"io"

	"github.com/btcsuite/btcd/btcec/v2"
	"github.com/btcsuite/btcd/btcec/v2/schnorr"
	"github.com/btcsuite/btcd/btcec/v2/schnorr/musig2"
	"github.com/dominant-strategies/go-quai/crypto"
)

// detRand is a deterministic byte stream (keccak in counter mode) used as the nonce source of
// MuSig2 so that a generated case depends on rapid draws only.
type detRand struct {
	seed []byte
	ctr  uint64
	buf  []byte
}

func (d *detRand) Read(p []byte) (int, error) {
	n := 0
	for n < len(p) {
		if len(d.buf) == 0 {
			var c [8]byte
			binary.BigEndian.PutUint64(c[:], d.ctr)
			d.ctr++
			d.buf = crypto.Keccak256(d.seed, c[:])
		}
		k := copy(p[n:], d.buf)
		d.buf = d.buf[k:]
		n += k
	}
	return n, nil
}

var _ io.Reader = (*detRand)(nil)

// SignSchnorr produces the single-key BIP-340 signature (deterministic nonce).
func SignSchnorr(k *Key, msg [32]byte) (*schnorr.Signature, error) {
	return schnorr.Sign(k.Priv, msg[:])
}

// SignMuSig2 runs the full MuSig2 protocol (nonce generation, nonce aggregation, partial
// signatures, combination) between the given signers, in the given order, without key sorting
// - the aggregation ProcessQiTx verifies against. A key may appear several times (it then signs
// once per occurrence with its own nonce).
func SignMuSig2(signers []*Key, msg [32]byte) (*schnorr.Signature, error) {
	if len(signers) < 2 {
		return nil, errors.New("musig2 needs at least two signers")
	}
	pubs := make([]*btcec.PublicKey, len(signers))
	for i, s := range signers {
		pubs[i] = s.Priv.PubKey()
	}
	nonces := make([]*musig2.Nonces, len(signers))
	pubNonces := make([][musig2.PubNonceSize]byte, len(signers))
	for i, s := range signers {
		var c [4]byte
		binary.BigEndian.PutUint32(c[:], uint32(i))
		n, err := musig2.GenNonces(musig2.WithPublicKey(pubs[i]),
			musig2.WithCustomRand(&detRand{seed: crypto.Keccak256([]byte("verif-qigen-nonce"), msg[:], c[:], s.Addr[:])}))
		if err != nil {
			return nil, err
		}
		nonces[i] = n
		pubNonces[i] = n.PubNonce
	}
	combined, err := musig2.AggregateNonces(pubNonces)
	if err != nil {
		return nil, err
	}
	partials := make([]*musig2.PartialSignature, len(signers))
	for i, s := range signers {
		ps, err := musig2.Sign(nonces[i].SecNonce, s.Priv, combined, pubs, msg)
		if err != nil {
			return nil, err
		}
		partials[i] = ps
	}
	return musig2.CombineSigs(partials[0].R, partials), nil
}

// VerifyListed re-verifies a signature against the keys a transaction lists, the way a
// verifier does (single key, or MuSig2 aggregate of all listed keys in order). It is only used
// as a self-check of the generator's "valid by construction" flag.
func VerifyListed(listed [][]byte, sig *schnorr.Signature, msg [32]byte) bool {
	if sig == nil || len(listed) == 0 {
		return false
	}
	pubs := make([]*btcec.PublicKey, len(listed))
	for i, b := range listed {
		p, err := btcec.ParsePubKey(b)
		if err != nil {
			return false
		}
		pubs[i] = p
	}
	final := pubs[0]
	if len(pubs) > 1 {
		agg, _, _, err := musig2.AggregateKeys(pubs, false)
		if err != nil {
			return false
		}
		final = agg.FinalKey
	}
	return sig.Verify(msg[:], final)
}
