// Package evmgen is the shared EVM-level machinery of the verification harness: a tiny
// assembler, a rapid grammar of EVM program "blocks", a pre-state universe builder, a block/tx
// context builder for vm.NewEVM / core.ApplyTransaction / core.ApplyMessage, and the tracer of
// DESIGN.md §3.4. It is a helper (non-test) package used by props/c02, props/c05 (and others).
package evmgen

import (
	"encoding/hex"
	"fmt"
	"math/big"
	"strings"

	"github.com/dominant-strategies/go-quai/common"
	"github.com/dominant-strategies/go-quai/core/vm"
)

// Program is an assembled program: readable text plus the bytes that are executed.
type Program struct {
	Text string `json:"asm"`
	Code []byte `json:"-"`
	Hex  string `json:"hex"`
}

type itemKind int

const (
	itOp itemKind = iota
	itPush
	itPushLabel // PUSH2 <offset of label>
	itLabel
	itPushData // PUSH2 <offset of data blob>
	itComment
)

type item struct {
	kind    itemKind
	op      vm.OpCode
	imm     []byte
	label   string
	data    int
	comment string
}

// Asm is a two-pass assembler with labels and a trailing data section. Blobs placed in the data
// section (init code, call inputs, access-list blobs) are reached with CODECOPY.
type Asm struct {
	items  []item
	datas  [][]byte
	dnotes []string
	nlabel int
}

func NewAsm() *Asm { return &Asm{} }

// Op appends plain opcodes.
func (a *Asm) Op(ops ...vm.OpCode) *Asm {
	for _, op := range ops {
		a.items = append(a.items, item{kind: itOp, op: op})
	}
	return a
}

// Comment adds a text-only line.
func (a *Asm) Comment(format string, args ...any) *Asm {
	a.items = append(a.items, item{kind: itComment, comment: fmt.Sprintf(format, args...)})
	return a
}

// PushBytes pushes 1..32 bytes verbatim (PUSHn with n=len(b)); empty means PUSH1 0.
func (a *Asm) PushBytes(b []byte) *Asm {
	if len(b) == 0 {
		b = []byte{0}
	}
	if len(b) > 32 {
		b = b[len(b)-32:]
	}
	a.items = append(a.items, item{kind: itPush, imm: append([]byte(nil), b...)})
	return a
}

// Push pushes an unsigned integer using the shortest PUSHn (PUSH1 0 for zero: PUSH0 is a
// fork-gated opcode and is generated only on purpose).
func (a *Asm) Push(v uint64) *Asm { return a.PushBig(new(big.Int).SetUint64(v)) }

// PushBig pushes v mod 2^256.
func (a *Asm) PushBig(v *big.Int) *Asm {
	if v.Sign() < 0 {
		v = new(big.Int).Add(v, new(big.Int).Lsh(big.NewInt(1), 256))
	}
	return a.PushBytes(v.Bytes())
}

// PushAddr pushes a 20-byte address with PUSH20.
func (a *Asm) PushAddr(addr common.Address) *Asm { return a.PushBytes(addr.Bytes()) }

// NewLabel returns a fresh label name.
func (a *Asm) NewLabel(prefix string) string {
	a.nlabel++
	return fmt.Sprintf("%s%d", prefix, a.nlabel)
}

// Label places a JUMPDEST named name.
func (a *Asm) Label(name string) *Asm {
	a.items = append(a.items, item{kind: itLabel, label: name})
	return a
}

// PushLabel pushes the code offset of a label (PUSH2).
func (a *Asm) PushLabel(name string) *Asm {
	a.items = append(a.items, item{kind: itPushLabel, label: name})
	return a
}

// Data registers a blob in the data section and returns its handle.
func (a *Asm) Data(blob []byte, note string) int {
	a.datas = append(a.datas, append([]byte(nil), blob...))
	a.dnotes = append(a.dnotes, note)
	return len(a.datas) - 1
}

// PushDataOffset pushes the code offset at which blob h will be placed (PUSH2).
func (a *Asm) PushDataOffset(h int) *Asm {
	a.items = append(a.items, item{kind: itPushData, data: h})
	return a
}

// DataToMem emits CODECOPY(memOff, @blob, len(blob)) for a registered blob.
func (a *Asm) DataToMem(h int, memOff uint64) *Asm {
	a.Push(uint64(len(a.datas[h])))
	a.PushDataOffset(h)
	a.Push(memOff)
	a.Op(vm.CODECOPY)
	return a
}

func (it item) size() int {
	switch it.kind {
	case itOp, itLabel:
		return 1
	case itPush:
		return 1 + len(it.imm)
	case itPushLabel, itPushData:
		return 3
	}
	return 0
}

// Assemble resolves labels and data offsets. A STOP separates code and data so that running off
// the end of the code never executes a blob.
func (a *Asm) Assemble() Program {
	labels := map[string]int{}
	pc := 0
	for _, it := range a.items {
		if it.kind == itLabel {
			labels[it.label] = pc
		}
		pc += it.size()
	}
	codeEnd := pc
	dataOff := make([]int, len(a.datas))
	off := codeEnd + 1 // STOP guard
	for i, d := range a.datas {
		dataOff[i] = off
		off += len(d)
	}
	var (
		code []byte
		sb   strings.Builder
	)
	for _, it := range a.items {
		switch it.kind {
		case itComment:
			fmt.Fprintf(&sb, "      ; %s\n", it.comment)
		case itOp:
			fmt.Fprintf(&sb, "%04x: %s\n", len(code), it.op.String())
			code = append(code, byte(it.op))
		case itLabel:
			fmt.Fprintf(&sb, "%04x: JUMPDEST            ; %s:\n", len(code), it.label)
			code = append(code, byte(vm.JUMPDEST))
		case itPush:
			fmt.Fprintf(&sb, "%04x: PUSH%d 0x%s\n", len(code), len(it.imm), hex.EncodeToString(it.imm))
			code = append(code, byte(int(vm.PUSH1)+len(it.imm)-1))
			code = append(code, it.imm...)
		case itPushLabel:
			t, ok := labels[it.label]
			if !ok {
				panic("evmgen: undefined label " + it.label)
			}
			fmt.Fprintf(&sb, "%04x: PUSH2 0x%04x        ; @%s\n", len(code), t, it.label)
			code = append(code, byte(vm.PUSH2), byte(t>>8), byte(t))
		case itPushData:
			t := dataOff[it.data]
			fmt.Fprintf(&sb, "%04x: PUSH2 0x%04x        ; @data%d (%s, %d bytes)\n", len(code), t, it.data, a.dnotes[it.data], len(a.datas[it.data]))
			code = append(code, byte(vm.PUSH2), byte(t>>8), byte(t))
		}
	}
	if len(a.datas) > 0 {
		fmt.Fprintf(&sb, "%04x: STOP                ; guard before data\n", len(code))
		code = append(code, byte(vm.STOP))
		for i, d := range a.datas {
			h := hex.EncodeToString(d)
			if len(h) > 160 {
				h = h[:160] + "…"
			}
			fmt.Fprintf(&sb, "%04x: data%d (%s, %d bytes) 0x%s\n", len(code), i, a.dnotes[i], len(d), h)
			code = append(code, d...)
		}
	}
	if len(code) > 0xffff {
		panic("evmgen: program larger than 64 KiB")
	}
	return Program{Text: sb.String(), Code: code, Hex: hex.EncodeToString(code)}
}

// Size returns the number of code bytes emitted so far (without data).
func (a *Asm) Size() int {
	n := 0
	for _, it := range a.items {
		n += it.size()
	}
	return n
}
