package evmgen

import (
	"encoding/binary"
	"fmt"
	"math/big"

	"github.com/dominant-strategies/go-quai/common"
	"github.com/dominant-strategies/go-quai/core/types"
	"github.com/dominant-strategies/go-quai/core/vm"
	"github.com/dominant-strategies/go-quai/crypto"
	"github.com/dominant-strategies/go-quai/params"
	"github.com/dominant-strategies/go-quai/rlp"
	"pgregory.net/rapid"
)

// Exclusions lists the input classes of known (unrepaired) findings that the generator must not
// construct. Every time the generator would have produced such an input it calls OnExcluded with
// the class name instead (the caller counts it with stats.Excluded).
type Exclusions struct {
	ETXMalformedAccessList bool // ETX with a non-empty access-list blob that does not decode
	ETXIneligibleDest      bool // ETX to a slice that is not eligible
	LegacyWrapETX          bool // ETX fee operands that overflow 2^256 before the checked-arithmetic fork
	LegacyWrapConvert      bool // same for CONVERT
	ETXUnmeteredMem        bool // ETX whose data / access-list operands expand memory by more than a few KiB
	OnExcluded             func(class string)
}

func (x *Exclusions) hit(class string) {
	if x != nil && x.OnExcluded != nil {
		x.OnExcluded(class)
	}
}

// GenCfg tunes the grammar.
type GenCfg struct {
	MaxBlocks int // blocks per program (top level)
	Depth     int // nesting budget for init code
	// weights of block families
	WNoise, WStorage, WMem, WCall, WCreate, WExport, WLockup, WSelfdestruct, WLoop, WTerminal int
	WNest                                                                                     int    // percentage of blocks that are a plain call into another generated contract
	BigMem                                                                                    bool   // every memory-touching opcode may draw the large boundary sizes (C15b)
	FailTailPct                                                                               int    // percentage of programs that end in a failing terminal after their blocks (C12b)
	MemCap                                                                                    uint64 // largest size operand of metered memory operations
	Excl                                                                                      *Exclusions
	// conversion-only mixes (C20 part O): no ETX opcode, out-of-scope CALLs only to in-zone Qi
	// addresses (conversions), no arbitrary-byte tail
	NoETXOp, ExtOnlyConv, NoRawTail, NoInitSelfdestruct bool
	// NestOps are the weights of CALL, DELEGATECALL, CALLCODE, STATICCALL for calls into other
	// generated contracts (nil = 8,2,1,1)
	NestOps []int
	// ConvHappyPct: percentage of CONVERT / conversion-CALL blocks whose value operand is computed
	// at run time as a fraction of the executing account's balance (so that it is fundable in
	// whatever context the code runs, e.g. under DELEGATECALL) with a sane gas limit
	ConvHappyPct int
	// NestDAG: calls into other generated contracts only go to contracts with a higher index than
	// the caller (no call cycles, so that gas is not burnt by mutual recursion)
	NestDAG bool
}

// DefaultCfg is the C02 mix; ExportCfg is the C05 mix (biased to value-exporting operations).
func DefaultCfg() GenCfg {
	return GenCfg{MaxBlocks: 6, Depth: 2, WNoise: 3, WStorage: 3, WMem: 3, WCall: 8, WCreate: 3, WExport: 5, WLockup: 3, WSelfdestruct: 1, WLoop: 1, WTerminal: 1, WNest: 12, MemCap: 1 << 24}
}

// MemCfg is the C15(b) mix: memory-touching operations of every kind with sizes up to 2^24.
func MemCfg() GenCfg {
	return GenCfg{MaxBlocks: 6, Depth: 1, WNoise: 1, WStorage: 2, WMem: 14, WCall: 3, WCreate: 2, WExport: 3, WLockup: 1, WSelfdestruct: 0, WLoop: 1, WTerminal: 2, WNest: 8, MemCap: 1 << 24, BigMem: true}
}

// FailCfg is the C12(b) mix: nested frames that produce effects and then fail.
func FailCfg() GenCfg {
	return GenCfg{MaxBlocks: 5, Depth: 2, WNoise: 1, WStorage: 6, WMem: 1, WCall: 4, WCreate: 5, WExport: 4, WLockup: 5, WSelfdestruct: 2, WLoop: 1, WTerminal: 3, WNest: 28, MemCap: 1 << 16, FailTailPct: 35}
}
// ConvCfg is the C20 part-O mix: Quai->Qi conversions (CONVERT, value CALLs to in-zone Qi
// addresses) are the only way value leaves the ledger; deep nesting through every frame kind with
// frequent failing tails.
func ConvCfg() GenCfg {
	return GenCfg{MaxBlocks: 4, Depth: 2, WNoise: 1, WStorage: 1, WMem: 1, WCall: 3, WCreate: 3, WExport: 12, WLockup: 0, WSelfdestruct: 0, WLoop: 1, WTerminal: 2, WNest: 30, MemCap: 1 << 16, FailTailPct: 30, ConvHappyPct: 70, NestDAG: true,
		NoETXOp: true, ExtOnlyConv: true, NoRawTail: true, NoInitSelfdestruct: true, NestOps: []int{4, 4, 3, 1}}
}
func ExportCfg() GenCfg {
	return GenCfg{MaxBlocks: 5, Depth: 2, WNoise: 1, WStorage: 1, WMem: 2, WCall: 5, WCreate: 2, WExport: 12, WLockup: 10, WSelfdestruct: 1, WLoop: 1, WTerminal: 1, WNest: 15, MemCap: 1 << 20}
}

// Hints is what the generator knows about the account whose code it is writing.
type Hints struct {
	Self     common.Address
	Balance  *big.Int
	Wrapped  *big.Int
	Deposits []common.Address
	Lockups  []LockupRec
}

// ProgGen generates programs for one case.
type ProgGen struct {
	T     *rapid.T
	Env   *Env
	Price *big.Int
	Cfg   GenCfg
	Kinds []string // kinds of all blocks generated in this case (signature material)
	// Created collects the addresses CREATE/CREATE2 blocks are expected to deploy to (exact for
	// CREATE2 with a ground salt executed in the account's own context, a best-effort prediction
	// for the n-th CREATE of an account); the case puts them into the complete access list, since
	// evm.create refuses an address that is not listed when access lists are enforced.
	Created []common.Address
	creates map[common.AddressBytes]uint64
	n       int
}

func (g *ProgGen) lbl(s string) string { g.n++; return fmt.Sprintf("%s#%d", s, g.n) }

func (g *ProgGen) intn(label string, n int) int {
	if n <= 1 {
		return 0
	}
	return rapid.IntRange(0, n-1).Draw(g.T, g.lbl(label))
}

func (g *ProgGen) weighted(label string, w ...int) int {
	tot := 0
	for _, x := range w {
		tot += x
	}
	if tot == 0 {
		return 0
	}
	r := g.intn(label, tot)
	for i, x := range w {
		if r < x {
			return i
		}
		r -= x
	}
	return len(w) - 1
}

func (g *ProgGen) flip(label string, pct int) bool { return g.intn(label, 100) < pct }

func (g *ProgGen) kind(k string) { g.Kinds = append(g.Kinds, k) }

var (
	two256   = new(big.Int).Lsh(big.NewInt(1), 256)
	maxU256  = new(big.Int).Sub(two256, big.NewInt(1))
	two64    = new(big.Int).Lsh(big.NewInt(1), 64)
	two128   = new(big.Int).Lsh(big.NewInt(1), 128)
	two255   = new(big.Int).Lsh(big.NewInt(1), 255)
	bigTxGas = new(big.Int).SetUint64(params.TxGas)
)

func bi(v int64) *big.Int { return big.NewInt(v) }

// memSizes are the boundary sizes of DESIGN.md §3.1.
var memSizes = []uint64{0, 1, 31, 32, 33, 1 << 10, 1 << 16, 1 << 20, 1 << 24}

func (g *ProgGen) memSize(label string, cap uint64) uint64 {
	// small sizes dominate; the large ones are drawn rarely because they mostly end in out-of-gas
	i := 0
	if g.Cfg.BigMem {
		// C15b: mostly sizes that matter for metering
		i = g.weighted(label, 2, 1, 1, 2, 1, 5, 6, 3, 1)
	} else {
		i = g.weighted(label, 6, 4, 4, 6, 4, 4, 2, 1, 1)
	}
	s := memSizes[i]
	if s > cap {
		s = cap
	}
	return s
}

func (g *ProgGen) memOff(label string) uint64 {
	return []uint64{0, 0, 1, 31, 32, 64, 0x100, 0x3e0, 1 << 10, 1 << 16}[g.weighted(label, 5, 3, 2, 2, 4, 4, 3, 2, 2, 1)]
}

// ---------------------------------------------------------------------------------------------
// values

// valueFor draws a value operand relative to the emitter's balance hint.
func (g *ProgGen) valueFor(label string, bal *big.Int, min *big.Int) (*big.Int, string) {
	if bal == nil {
		bal = new(big.Int)
	}
	switch g.weighted(label, 2, 2, 5, 3, 2, 2, 1, 1, 1, 2) {
	case 0:
		return new(big.Int), "zero"
	case 1:
		return bi(1), "one"
	case 2:
		d := new(big.Int).Div(bal, bi(int64(2+g.intn(label+"d", 6))))
		if min != nil && d.Cmp(min) < 0 && bal.Cmp(min) >= 0 {
			d = new(big.Int).Set(min)
		}
		return d, "part"
	case 3:
		// all but a little (room for the prepaid fee)
		v := new(big.Int).Sub(bal, new(big.Int).Mul(bi(21000), new(big.Int).Add(g.Price, bi(2))))
		if v.Sign() < 0 {
			v = new(big.Int)
		}
		return v, "most"
	case 4:
		return new(big.Int).Set(bal), "all"
	case 5:
		return new(big.Int).Add(bal, bi(1)), "all+1"
	case 6:
		return new(big.Int).Set(two64), "2^64"
	case 7:
		return new(big.Int).Set(two128), "2^128"
	case 8:
		return new(big.Int).Set(maxU256), "max"
	default:
		if min != nil {
			return new(big.Int).Add(min, bi(int64(g.intn(label+"m", 3)-1))), "min±1"
		}
		return bi(1000), "small"
	}
}

// etxGasLimit draws the ETX gas-limit operand around TxGas and the uint64 boundary.
func (g *ProgGen) etxGasLimit(label string) (*big.Int, string) {
	switch g.weighted(label, 1, 2, 8, 2, 3, 1, 1, 1, 1, 1) {
	case 0:
		return new(big.Int), "0"
	case 1:
		return bi(int64(params.TxGas) - 1), "txgas-1"
	case 2:
		return bi(int64(params.TxGas)), "txgas"
	case 3:
		return bi(int64(params.TxGas) + 1), "txgas+1"
	case 4:
		return bi(100000), "100k"
	case 5:
		return new(big.Int).Lsh(bi(1), 32), "2^32"
	case 6:
		return new(big.Int).Sub(two64, bi(1)), "2^64-1"
	case 7:
		return new(big.Int).Set(two64), "2^64"
	case 8:
		return new(big.Int).Add(two64, bigTxGas), "2^64+txgas"
	default:
		return new(big.Int).Set(maxU256), "max"
	}
}

// feeOperand draws a gasTipCap / gasFeeCap operand.
func (g *ProgGen) feeOperand(label string) (*big.Int, string) {
	switch g.weighted(label, 8, 5, 3, 1, 1, 1) {
	case 0:
		return new(big.Int), "0"
	case 1:
		return bi(1), "1"
	case 2:
		return new(big.Int).Set(g.Env.BaseFee), "basefee"
	case 3:
		return new(big.Int).Set(two64), "2^64"
	case 4:
		return new(big.Int).Set(two255), "2^255"
	default:
		return new(big.Int).Set(maxU256), "max"
	}
}

// ---------------------------------------------------------------------------------------------
// access-list blobs

// AccessListBlob returns an access-list operand blob of the given class.
func (g *ProgGen) accessListBlob(label string) ([]byte, string) {
	u := U()
	valid := func() []byte {
		al := types.AccessList{}
		n := g.intn(label+"n", 3)
		for i := 0; i < n; i++ {
			tup := types.AccessTuple{Address: u.ForeignQuai[g.intn(label+"a", len(u.ForeignQuai))]}
			for k := 0; k < g.intn(label+"k", 3); k++ {
				tup.StorageKeys = append(tup.StorageKeys, common.BigToHash(bi(int64(k))))
			}
			al = append(al, tup)
		}
		b, err := rlp.EncodeToBytes(al)
		if err != nil {
			panic(err)
		}
		return b
	}
	c := g.weighted(label, 5, 6, 5)
	if c == 2 && g.Cfg.Excl != nil && g.Cfg.Excl.ETXMalformedAccessList {
		g.Cfg.Excl.hit("etx-malformed-accesslist")
		c = g.weighted(label+"x", 5, 6)
	}
	switch c {
	case 0:
		return nil, "al-empty"
	case 1:
		return valid(), "al-valid"
	default:
		switch g.intn(label+"m", 6) {
		case 0:
			return []byte{0x00}, "al-malformed"
		case 1:
			return []byte{0x80}, "al-malformed" // empty string where a list is expected
		case 2:
			v := valid()
			if len(v) > 1 {
				return v[:len(v)-1], "al-malformed"
			}
			return []byte{0xc1}, "al-malformed"
		case 3:
			return append(valid(), 0x01), "al-malformed" // trailing garbage
		case 4:
			return []byte{0xf8, 0xff, 0x01}, "al-malformed" // length prefix beyond the input
		default:
			n := 1 + g.intn(label+"l", 40)
			b := make([]byte, n)
			for i := range b {
				b[i] = byte(rapid.IntRange(0, 255).Draw(g.T, g.lbl("rb")))
			}
			// random bytes are malformed unless they happen to decode; the oracle classifies the
			// blob that was actually in memory, so the label here is only the intent
			var al types.AccessList
			if rlp.DecodeBytes(b, &al) == nil {
				return b, "al-valid"
			}
			return b, "al-malformed"
		}
	}
}

// ---------------------------------------------------------------------------------------------
// targets

type target struct {
	addr common.Address
	name string
}

func (g *ProgGen) callTarget(label string, h *Hints) target {
	u := U()
	switch g.weighted(label, 4, 10, 3, 3, 3, 2, 1, 1, 1, 1) {
	case 0:
		i := g.intn(label+"e", len(u.EOAs)-1)
		return target{u.EOAs[i].Addr, "eoa"}
	case 1:
		i := g.intn(label+"c", len(u.Contracts))
		return target{u.Contracts[i], "contract"}
	case 2:
		return target{h.Self, "self"}
	case 3:
		i := g.intn(label+"p", len(u.Precompiles))
		return target{u.Precompiles[i], fmt.Sprintf("precompile%d", i+1)}
	case 4:
		return target{u.Lockup, "lockup"}
	case 5:
		return target{u.NonExistent[g.intn(label+"n", len(u.NonExistent))], "nonexistent"}
	case 6:
		return target{u.Zero, "zero"}
	case 7:
		return target{u.ForeignQuai[g.intn(label+"f", len(u.ForeignQuai))], "foreignQuai"}
	case 8:
		return target{u.InZoneQi[g.intn(label+"q", len(u.InZoneQi))], "inZoneQi"}
	default:
		return target{u.ForeignQi[g.intn(label+"fq", len(u.ForeignQi))], "foreignQi"}
	}
}

// foreignDest picks an out-of-zone destination; wantEligible selects by the env's mask when
// possible.
func (g *ProgGen) foreignDest(label string, wantEligible bool, qi bool) (common.Address, bool) {
	u := U()
	pool := u.ForeignQuai
	if qi {
		pool = u.ForeignQi
	}
	var match []common.Address
	for _, a := range pool {
		if IsEligible(g.Env.Eligible, *a.Location()) == wantEligible {
			match = append(match, a)
		}
	}
	if len(match) == 0 {
		a := pool[g.intn(label, len(pool))]
		return a, IsEligible(g.Env.Eligible, *a.Location())
	}
	return match[g.intn(label, len(match))], wantEligible
}

// ---------------------------------------------------------------------------------------------
// blocks. Every block leaves the stack height unchanged.

// after a call-like opcode has left its flag on the stack
func (g *ProgGen) consumeFlag(a *Asm) {
	switch g.weighted("flag", 7, 2, 1) {
	case 0:
		a.Op(vm.POP)
	case 1:
		// require(success)
		ok := a.NewLabel("ok")
		a.PushLabel(ok).Op(vm.JUMPI)
		a.Push(0).Push(0).Op(vm.REVERT)
		a.Label(ok)
		g.kind("require")
	default:
		a.Push(uint64(g.intn("slot", 4))).Op(vm.SSTORE)
	}
}

func (g *ProgGen) noise(a *Asm, h *Hints) {
	g.kind("noise")
	u := U()
	switch g.intn("noise", 8) {
	case 0, 1, 2:
		ops := []vm.OpCode{vm.ADD, vm.MUL, vm.SUB, vm.DIV, vm.SDIV, vm.MOD, vm.SMOD, vm.EXP, vm.SIGNEXTEND, vm.LT, vm.GT, vm.SLT, vm.SGT, vm.EQ, vm.AND, vm.OR, vm.XOR, vm.BYTE, vm.SHL, vm.SHR, vm.SAR}
		vals := []*big.Int{bi(0), bi(1), bi(2), bi(255), two64, two128, two255, maxU256}
		a.PushBig(vals[g.intn("v", len(vals))]).PushBig(vals[g.intn("v", len(vals))]).Op(ops[g.intn("op", len(ops))], vm.POP)
	case 3:
		ops := []vm.OpCode{vm.ADDRESS, vm.ORIGIN, vm.CALLER, vm.CALLVALUE, vm.CALLDATASIZE, vm.CODESIZE, vm.GASPRICE, vm.COINBASE, vm.TIMESTAMP, vm.NUMBER, vm.DIFFICULTY, vm.GASLIMIT, vm.PC, vm.MSIZE, vm.GAS, vm.RETURNDATASIZE}
		a.Op(ops[g.intn("op", len(ops))], vm.POP)
	case 4:
		t := g.callTarget("bal", h)
		ops := []vm.OpCode{vm.BALANCE, vm.EXTCODESIZE, vm.EXTCODEHASH, vm.ISADDRINTERNAL}
		a.PushAddr(t.addr).Op(ops[g.intn("op", len(ops))], vm.POP)
	case 5:
		a.Push(uint64(g.intn("n", 300))).Op(vm.BLOCKHASH, vm.POP)
	case 6:
		a.PushAddr(u.Contracts[g.intn("c", len(u.Contracts))])
		a.Push(g.memSize("sz", g.bigOr(1<<16))).Push(0).Push(g.memOff("off")).Op(vm.DUP4, vm.EXTCODECOPY, vm.POP)
		// EXTCODECOPY pops addr, memOff, codeOff, size: stack built as size, codeOff, memOff, addr
	default:
		a.Push(uint64(g.intn("n", 64))).Op(vm.CALLDATALOAD, vm.POP)
	}
}

func (g *ProgGen) storage(a *Asm) {
	g.kind("storage")
	slot := uint64(g.intn("slot", 4))
	vals := []*big.Int{bi(0), bi(0), bi(1), bi(7), maxU256}
	switch g.weighted("st", 4, 3, 2, 1, 3) {
	case 0:
		a.PushBig(vals[g.intn("v", len(vals))]).Push(slot).Op(vm.SSTORE)
	case 1:
		a.Push(slot).Op(vm.SLOAD, vm.POP)
	case 2:
		a.PushBig(vals[g.intn("v", len(vals))]).Push(slot).Op(vm.TSTORE)
	case 3:
		a.Push(slot).Op(vm.TLOAD, vm.POP)
	default:
		nt := g.intn("topics", 3)
		for i := 0; i < nt; i++ {
			a.Push(uint64(0xA0 + i))
		}
		a.Push(g.memSize("lsz", g.bigOr(1<<10))).Push(g.memOff("loff"))
		a.Op(vm.OpCode(int(vm.LOG0) + nt))
	}
}

// bigOr returns the configured memory cap when every opcode may draw large sizes, else small.
func (g *ProgGen) bigOr(small uint64) uint64 {
	if g.Cfg.BigMem {
		return g.Cfg.MemCap
	}
	return small
}

func (g *ProgGen) mem(a *Asm) {
	g.kind("mem")
	cap := g.Cfg.MemCap
	n := 9
	if g.Cfg.BigMem {
		n = 13
	}
	switch g.intn("mem", n) {
	case 9: // CREATE reading a large (zero-filled) init code region
		a.Push(g.memSize("s", cap)).Push(g.memOff("o")).Push(0).Op(vm.CREATE, vm.POP)
	case 10: // CREATE2 likewise
		a.Push(0).Push(g.memSize("s", cap)).Push(g.memOff("o")).Push(0).Op(vm.CREATE2, vm.POP)
	case 11: // call-family opcodes with large argument / return regions to the identity precompile
		ops := []vm.OpCode{vm.CALL, vm.CALLCODE, vm.DELEGATECALL, vm.STATICCALL}
		op := ops[g.intn("mop", 4)]
		a.Push(g.memSize("os", cap)).Push(g.memOff("oo")).Push(g.memSize("is", cap)).Push(g.memOff("io"))
		if op == vm.CALL || op == vm.CALLCODE {
			a.Push(0)
		}
		a.PushAddr(U().Precompiles[3]).Op(vm.GAS, op, vm.POP)
	case 12:
		a.Push(g.memSize("s", cap)).Push(g.memOff("o")).Op(vm.LOG0)
	case 0:
		a.PushBig(maxU256).Push(g.memOff("o")).Op(vm.MSTORE)
	case 1:
		a.Push(0xAB).Push(g.memOff("o")).Op(vm.MSTORE8)
	case 2:
		a.Push(g.memOff("o")).Op(vm.MLOAD, vm.POP)
	case 3:
		a.Push(g.memSize("s", cap)).Push(g.memOff("src")).Push(g.memOff("dst")).Op(vm.MCOPY)
	case 4:
		a.Push(g.memSize("s", cap)).Push(uint64(g.intn("co", 40))).Push(g.memOff("dst")).Op(vm.CALLDATACOPY)
	case 5:
		a.Push(g.memSize("s", cap)).Push(uint64(g.intn("co", 40))).Push(g.memOff("dst")).Op(vm.CODECOPY)
	case 6:
		a.Push(g.memSize("s", g.bigOr(64))).Push(0).Push(g.memOff("dst")).Op(vm.RETURNDATACOPY)
	case 7:
		a.Push(g.memSize("s", cap)).Push(g.memOff("o")).Op(vm.SHA3, vm.POP)
	default:
		// one large touch
		a.Push(g.memSize("s", cap)).Op(vm.MLOAD, vm.POP)
	}
}

// gasOperand pushes the gas operand of a call. `need` is the amount that is just enough for the
// interesting callee behaviour (0 = unknown).
func (g *ProgGen) gasOperand(a *Asm, need uint64) string {
	switch g.weighted("gas", 8, 2, 2, 1, 1, 2, 2, 3) {
	case 0:
		a.Op(vm.GAS)
		return "all"
	case 1:
		if need > 0 {
			a.Push(need)
			return "just-enough"
		}
		a.Push(100000)
		return "100k"
	case 2:
		if need > 0 {
			a.Push(need - 1)
			return "just-too-little"
		}
		a.Push(2300)
		return "2300"
	case 3:
		a.Push(0)
		return "0"
	case 4:
		a.PushBig(maxU256)
		return "max"
	case 5:
		a.Push(30000)
		return "30k"
	case 6:
		if need > 0 {
			a.Push(need + 1)
			return "just-enough+1"
		}
		a.Push(700)
		return "700"
	default:
		a.Push(500000)
		return "500k"
	}
}

func (g *ProgGen) call(a *Asm, h *Hints) {
	ops := []vm.OpCode{vm.CALL, vm.CALLCODE, vm.DELEGATECALL, vm.STATICCALL}
	op := ops[g.weighted("callop", 6, 2, 2, 2)]
	t := g.callTarget("tgt", h)
	g.kind(op.String() + ">" + t.name)
	inSize, inOff := g.memSize("isz", g.bigOr(1<<16)), g.memOff("ioff")
	outSize, outOff := g.memSize("osz", g.bigOr(1<<10)), g.memOff("ooff")
	if g.flip("seedmem", 40) {
		a.PushBig(maxU256).Push(inOff).Op(vm.MSTORE)
	}
	a.Push(outSize).Push(outOff).Push(inSize).Push(inOff)
	if op == vm.CALL || op == vm.CALLCODE {
		if g.flip("val", 35) {
			v, _ := g.valueFor("cv", h.Balance, nil)
			if v.Cmp(two64) >= 0 && g.flip("tame", 70) {
				v = bi(1)
			}
			a.PushBig(v)
		} else {
			a.Push(0)
		}
	}
	a.PushAddr(t.addr)
	g.gasOperand(a, 0)
	a.Op(op)
	g.consumeFlag(a)
}

// callContract emits a CALL/DELEGATECALL/CALLCODE into another generated contract with all the gas
// (nesting: the callee's own emissions, failures and self-destructs happen inside an inner frame).
func (g *ProgGen) callContract(a *Asm, h *Hints) {
	u := U()
	ops := []vm.OpCode{vm.CALL, vm.DELEGATECALL, vm.CALLCODE, vm.STATICCALL}
	w := []int{8, 2, 1, 1}
	if len(g.Cfg.NestOps) == 4 {
		w = g.Cfg.NestOps
	}
	op := ops[g.weighted("ccop", w...)]
	t := u.Contracts[g.intn("cct", len(u.Contracts))]
	if g.Cfg.NestDAG {
		self := -1
		for i, c := range u.Contracts {
			if c.Equal(h.Self) {
				self = i
			}
		}
		if self+1 >= len(u.Contracts) {
			g.noise(a, h)
			return
		}
		t = u.Contracts[self+1+g.intn("cctd", len(u.Contracts)-self-1)]
	}
	g.kind(op.String() + ">contract!")
	a.Push(0).Push(0).Push(uint64(g.intn("ccin", 2))).Push(0)
	if op == vm.CALL || op == vm.CALLCODE {
		if g.flip("ccval", 25) {
			a.Push(1000)
		} else {
			a.Push(0)
		}
	}
	a.PushAddr(t)
	if g.flip("ccgas", 80) {
		a.Op(vm.GAS)
	} else {
		a.Push(uint64(50000 + 50000*g.intn("ccg", 8)))
	}
	a.Op(op)
	g.consumeFlag(a)
}

// lockupInput builds the packed input of a lockup-contract call.
func (g *ProgGen) lockupInput(h *Hints) ([]byte, string, uint64) {
	u := U()
	gasClass := func() (uint64, string) {
		switch g.weighted("lgas", 2, 6, 2, 1, 1) {
		case 0:
			return 0, "g0"
		case 1:
			return params.TxGas, "gtx"
		case 2:
			return 100000, "g100k"
		case 3:
			return 10_000_000, "ghuge"
		default:
			return ^uint64(0), "gmax"
		}
	}
	switch g.weighted("lk", 6, 8, 2, 1, 1, 2) {
	case 0: // UnwrapQi: 20 beneficiary ‖ 32 value ‖ 8 gas limit
		in := make([]byte, 60)
		var ben common.Address
		bclass := ""
		switch g.weighted("ben", 7, 2, 1, 1) {
		case 0:
			ben, bclass = u.InZoneQi[g.intn("q", len(u.InZoneQi))], "qi"
		case 1:
			ben, bclass = u.EOAs[0].Addr, "quai"
		case 2:
			ben, bclass = u.ForeignQi[0], "foreignQi"
		default:
			ben, bclass = u.Zero, "zero"
		}
		copy(in[:20], ben.Bytes())
		w := h.Wrapped
		if w == nil {
			w = new(big.Int)
		}
		var v *big.Int
		vclass := ""
		switch g.weighted("uv", 1, 2, 4, 3, 2, 1) {
		case 0:
			v, vclass = new(big.Int), "0"
		case 1:
			v, vclass = bi(1), "1"
		case 2:
			v, vclass = new(big.Int).Div(w, bi(2)), "half"
		case 3:
			v, vclass = new(big.Int).Set(w), "all"
		case 4:
			v, vclass = new(big.Int).Add(w, bi(1)), "all+1"
		default:
			v, vclass = new(big.Int).Set(maxU256), "max"
		}
		v.FillBytes(in[20:52])
		gl, gc := gasClass()
		binary.BigEndian.PutUint64(in[52:], gl)
		return in, "unwrap:" + bclass + ":" + vclass + ":" + gc, gl
	case 1: // ClaimCoinbaseLockup: 20 miner ‖ 20 to ‖ 1 lockup byte ‖ 4 epoch ‖ 8 gas limit
		in := make([]byte, 53)
		var rec LockupRec
		known := "norec"
		if len(h.Lockups) > 0 && g.flip("userec", 85) {
			rec = h.Lockups[g.intn("rec", len(h.Lockups))]
			known = "rec"
		} else {
			rec = LockupRec{Miner: u.Miners[0], LockupByte: byte(g.intn("lb", 4)), Epoch: uint32(1 + g.intn("ep", 3))}
		}
		if g.flip("mutrec", 15) {
			switch g.intn("mut", 3) {
			case 0:
				rec.Epoch++
			case 1:
				rec.LockupByte ^= 1
			default:
				rec.Miner = u.Miners[1]
			}
			known += "-mut"
		}
		copy(in[:20], rec.Miner.Bytes())
		var to common.Address
		tclass := ""
		tc := g.weighted("to", 5, 3, 2, 1)
		if g.flip("matchledger", 75) {
			// ClaimCoinbaseLockup wants miner and recipient on the same ledger
			if rec.Miner.IsInQiLedgerScope() {
				tc = 2 + g.intn("qito", 2)
			} else {
				tc = g.intn("quaito", 2)
			}
		}
		switch tc {
		case 0:
			to, tclass = u.ForeignQuai[g.intn("f", len(u.ForeignQuai))], "foreignQuai"
		case 1:
			to, tclass = u.EOAs[g.intn("e", len(u.EOAs)-1)].Addr, "inzoneQuai"
		case 2:
			to, tclass = u.InZoneQi[0], "inzoneQi"
		default:
			to, tclass = u.ForeignQi[0], "foreignQi"
		}
		copy(in[20:40], to.Bytes())
		in[40] = rec.LockupByte
		binary.BigEndian.PutUint32(in[41:45], rec.Epoch)
		gl, gc := gasClass()
		binary.BigEndian.PutUint64(in[45:], gl)
		return in, "claim:" + known + ":" + tclass + ":" + gc, gl
	case 2: // ClaimQiDeposit: 20-byte Quai owner
		var o common.Address
		if len(h.Deposits) > 0 && g.flip("dep", 80) {
			o = h.Deposits[g.intn("d", len(h.Deposits))]
		} else {
			o = u.EOAs[g.intn("e", len(u.EOAs)-1)].Addr
		}
		return append([]byte(nil), o.Bytes()...), "claimdeposit", 0
	case 3: // GetLatestLockupData
		in := make([]byte, 21)
		copy(in, u.Miners[0].Bytes())
		in[20] = byte(g.intn("lb", 4))
		return in, "getlatest", 0
	case 4: // GetLockupData
		in := make([]byte, 25)
		copy(in, u.Miners[0].Bytes())
		in[20] = byte(g.intn("lb", 4))
		binary.BigEndian.PutUint32(in[21:], uint32(g.intn("ep", 4)))
		return in, "getdata", 0
	default:
		n := []int{0, 1, 19, 22, 52, 54, 59, 61, 100}[g.intn("len", 9)]
		return make([]byte, n), fmt.Sprintf("badlen%d", n), 0
	}
}

func (g *ProgGen) lockup(a *Asm, h *Hints) {
	in, class, gl := g.lockupInput(h)
	ops := []vm.OpCode{vm.CALL, vm.CALLCODE, vm.DELEGATECALL, vm.STATICCALL}
	op := ops[g.weighted("lop", 12, 1, 1, 1)]
	g.kind(op.String() + ">lockup:" + class)
	off := []uint64{0, 0x20, 0x100}[g.intn("off", 3)]
	if len(in) > 0 {
		a.DataToMem(a.Data(in, "lockup "+class), off)
	}
	a.Push(0x40).Push(0x200).Push(uint64(len(in))).Push(off)
	if op == vm.CALL || op == vm.CALLCODE {
		if g.flip("lval", 10) {
			a.Push(1)
		} else {
			a.Push(0)
		}
	}
	a.PushAddr(U().Lockup)
	need := uint64(0)
	if gl > 0 && gl < 1_000_000 {
		need = gl
	}
	g.gasOperand(a, need)
	a.Op(op)
	g.consumeFlag(a)
}

// etx emits an ETX block.
func (g *ProgGen) etx(a *Asm, h *Hints) {
	u := U()
	post := PostArithFork(g.Env.PrimeTerminusNumber)
	// destination
	var dest common.Address
	dclass := ""
	dc := g.weighted("dest", 10, 4, 2, 1, 1, 1)
	if dc == 1 && g.Cfg.Excl != nil && g.Cfg.Excl.ETXIneligibleDest {
		g.Cfg.Excl.hit("etx-ineligible-dest")
		dc = 0
	}
	switch dc {
	case 0:
		var ok bool
		dest, ok = g.foreignDest("d", true, false)
		dclass = "eligible"
		if !ok {
			if g.Cfg.Excl != nil && g.Cfg.Excl.ETXIneligibleDest {
				// no eligible foreign slice in this environment: fall back to an in-scope (refused) destination
				g.Cfg.Excl.hit("etx-ineligible-dest")
				dest, dclass = u.EOAs[0].Addr, "inscope-quai"
			} else {
				dclass = "ineligible"
			}
		}
	case 1:
		var inel bool
		dest, inel = g.foreignDest("d", false, false)
		dclass = "ineligible"
		if inel {
			dclass = "eligible"
		}
	case 2:
		var el bool
		dest, el = g.foreignDest("d", true, true)
		dclass = "foreignQi-eligible"
		if !el {
			if g.Cfg.Excl != nil && g.Cfg.Excl.ETXIneligibleDest {
				g.Cfg.Excl.hit("etx-ineligible-dest")
				dest, dclass = u.InZoneQi[0], "inscope-qi"
			} else {
				dclass = "foreignQi-ineligible"
			}
		}
	case 3:
		dest, dclass = u.EOAs[g.intn("e", len(u.EOAs)-1)].Addr, "inscope-quai"
	case 4:
		dest, dclass = u.InZoneQi[0], "inscope-qi"
	default:
		dest, dclass = u.Zero, "inscope-zero"
	}
	value, vclass := g.valueFor("ev", h.Balance, nil)
	limit, lclass := g.etxGasLimit("el")
	tip, tclass := g.feeOperand("tip")
	cap_, cclass := g.feeOperand("cap")
	if !post && g.Cfg.Excl != nil && g.Cfg.Excl.LegacyWrapETX {
		// exclude exactly the operand tuples whose true total exceeds 2^256-1
		fee := new(big.Int).Mul(new(big.Int).Add(tip, cap_), limit)
		if new(big.Int).Add(fee, value).Cmp(maxU256) > 0 {
			g.Cfg.Excl.hit("legacy-wrap-etx")
			tip, tclass = new(big.Int), "0"
			cap_, cclass = bi(1), "1"
			if new(big.Int).Add(new(big.Int).Mul(cap_, limit), value).Cmp(maxU256) > 0 {
				limit, lclass = bi(int64(params.TxGas)), "txgas"
			}
			if new(big.Int).Add(new(big.Int).Mul(cap_, limit), value).Cmp(maxU256) > 0 {
				value, vclass = bi(1000), "small"
			}
		}
	}
	al, aclass := g.accessListBlob("al")
	// ETX memory expansion is not metered (C15): never more than 1 MiB, to protect the RAM
	dataSize := g.memSize("dsz", 1<<20)
	if dataSize > 1<<20 {
		dataSize = 1 << 20
	}
	smallMem := g.Cfg.Excl != nil && g.Cfg.Excl.ETXUnmeteredMem
	if smallMem && dataSize > 1<<10 {
		g.Cfg.Excl.hit("etx-unmetered-mem")
		dataSize = 1 << 10
	}
	alOff := []uint64{0x300, 0x300, 0, 0x1000}[g.intn("aloff", 4)]
	dOff := []uint64{0, 0x20, 0x400}[g.intn("doff", 3)]
	g.kind("ETX:" + dclass + ":" + aclass)
	a.Comment("ETX dest=%s value=%s gaslimit=%s tip=%s cap=%s accesslist=%s datasize=%d", dclass, vclass, lclass, tclass, cclass, aclass, dataSize)
	if len(al) > 0 {
		a.DataToMem(a.Data(al, aclass), alOff)
	}
	alSize := uint64(len(al))
	if aclass == "al-empty" && g.flip("alzero", 50) {
		alOff = g.memOff("alo")
		if smallMem && alOff > 0x1000 {
			alOff = 0x1000
		}
	}
	a.Push(alSize).Push(alOff).Push(dataSize).Push(dOff)
	a.PushBig(cap_).PushBig(tip).PushBig(limit).PushBig(value).PushAddr(dest).Push(0)
	a.Op(vm.ETX)
	g.consumeFlag(a)
}

func (g *ProgGen) convert(a *Asm, h *Hints) {
	u := U()
	var dest common.Address
	dclass := ""
	switch g.weighted("cd", 10, 2, 1, 1) {
	case 0:
		dest, dclass = u.InZoneQi[g.intn("q", len(u.InZoneQi))], "inzoneQi"
	case 1:
		dest, dclass = u.EOAs[0].Addr, "inzoneQuai"
	case 2:
		dest, dclass = u.ForeignQi[0], "foreignQi"
	default:
		dest, dclass = u.ForeignQuai[0], "foreignQuai"
	}
	if g.Cfg.ConvHappyPct > 0 && g.flip("convhappy", g.Cfg.ConvHappyPct) {
		// value = balance(self) / k, evaluated by the program
		k := uint64(2 + g.intn("ck", 6))
		lim := []uint64{params.TxGas, params.TxGas, 100000}[g.intn("chl", 3)]
		g.kind("CONVERT:" + dclass + ":dyn")
		a.Comment("CONVERT dest=%s value=balance/%d gaslimit=%d", dclass, k, lim)
		a.Push(lim).Push(k).Op(vm.ADDRESS, vm.BALANCE, vm.DIV).PushAddr(dest).Push(0).Op(vm.CONVERT)
		g.consumeFlag(a)
		return
	}
	value, vclass := g.valueFor("cv", h.Balance, params.MinQuaiConversionAmount)
	limit, lclass := g.etxGasLimit("cl")
	if !PostArithFork(g.Env.PrimeTerminusNumber) && g.Cfg.Excl != nil && g.Cfg.Excl.LegacyWrapConvert {
		if new(big.Int).Add(new(big.Int).Mul(g.Price, limit), value).Cmp(maxU256) > 0 {
			g.Cfg.Excl.hit("legacy-wrap-convert")
			limit, lclass = bi(int64(params.TxGas)), "txgas"
			if new(big.Int).Add(new(big.Int).Mul(g.Price, limit), value).Cmp(maxU256) > 0 {
				value, vclass = new(big.Int).Set(params.MinQuaiConversionAmount), "min"
			}
		}
	}
	g.kind("CONVERT:" + dclass)
	a.Comment("CONVERT dest=%s value=%s gaslimit=%s", dclass, vclass, lclass)
	a.PushBig(limit).PushBig(value).PushAddr(dest).Push(0).Op(vm.CONVERT)
	g.consumeFlag(a)
}

// extCall emits a value CALL to an out-of-scope address (evm.CreateETX).
func (g *ProgGen) extCall(a *Asm, h *Hints) {
	u := U()
	var dest common.Address
	dclass := ""
	var min *big.Int
	xw := []int{5, 2, 5, 1}
	if g.Cfg.ExtOnlyConv {
		xw = []int{0, 0, 1, 0}
	}
	switch g.weighted("xd", xw...) {
	case 0:
		dest, _ = g.foreignDest("d", true, false)
		dclass = "foreignQuai"
		if !IsEligible(g.Env.Eligible, *dest.Location()) {
			dclass = "foreignQuai-ineligible"
		}
	case 1:
		dest, _ = g.foreignDest("d", false, false)
		dclass = "foreignQuai-ineligible"
		if IsEligible(g.Env.Eligible, *dest.Location()) {
			dclass = "foreignQuai"
		}
	case 2:
		dest, dclass = u.InZoneQi[g.intn("q", len(u.InZoneQi))], "inzoneQi"
		min = params.MinQuaiConversionAmount
	default:
		dest, dclass = u.ForeignQi[g.intn("q", len(u.ForeignQi))], "foreignQi"
	}
	if g.Cfg.ConvHappyPct > 0 && min != nil && g.flip("exthappy", g.Cfg.ConvHappyPct) {
		k := uint64(2 + g.intn("xk", 6))
		g.kind("CALL-EXT:" + dclass + ":dyn")
		a.Comment("CALL to out-of-scope %s value=balance/%d all gas", dclass, k)
		a.Push(0).Push(0).Push(0).Push(0).Push(k).Op(vm.ADDRESS, vm.BALANCE, vm.DIV).PushAddr(dest).Op(vm.GAS, vm.CALL)
		g.consumeFlag(a)
		return
	}
	value, vclass := g.valueFor("xv", h.Balance, min)
	g.kind("CALL-EXT:" + dclass)
	a.Comment("CALL to out-of-scope %s value=%s", dclass, vclass)
	inSize := g.memSize("isz", 1<<10)
	a.Push(0).Push(0).Push(inSize).Push(0).PushBig(value).PushAddr(dest)
	// CreateETX needs ETXGas+TxGas = 42000 after the stipend (2300 when value != 0)
	need := params.ETXGas + params.TxGas
	if value.Sign() != 0 {
		need -= params.CallStipend
	}
	g.gasOperand(a, need)
	a.Op(vm.CALL)
	g.consumeFlag(a)
}

func (g *ProgGen) selfdestruct(a *Asm, h *Hints) {
	t := g.callTarget("sd", h)
	g.kind("SELFDESTRUCT>" + t.name)
	if g.flip("cond", 30) {
		// guarded so that the program may continue: skip the self-destruct unless calldata is empty
		skip := a.NewLabel("nosd")
		a.Op(vm.CALLDATASIZE).PushLabel(skip).Op(vm.JUMPI)
		a.PushAddr(t.addr).Op(vm.SELFDESTRUCT)
		a.Label(skip)
		return
	}
	a.PushAddr(t.addr).Op(vm.SELFDESTRUCT)
}

func (g *ProgGen) terminal(a *Asm) {
	switch g.weighted("term", 3, 3, 3, 1, 1, 1) {
	case 0:
		g.kind("STOP")
		a.Op(vm.STOP)
	case 1:
		g.kind("RETURN")
		a.Push(g.memSize("rs", g.bigOr(1<<10))).Push(g.memOff("ro")).Op(vm.RETURN)
	case 2:
		g.kind("REVERT")
		a.Push(g.memSize("rs", g.bigOr(1<<10))).Push(g.memOff("ro")).Op(vm.REVERT)
	case 3:
		g.kind("INVALID")
		a.Op(vm.OpCode(0xfe))
	case 4:
		g.kind("UNDEFINED")
		a.Op(vm.OpCode(0x0c))
	default:
		g.kind("BADJUMP")
		a.Push(1).Op(vm.JUMP)
	}
}

// initCode assembles init code: body blocks followed by how creation ends.
func (g *ProgGen) initCode(h *Hints, depth int) []byte {
	a := NewAsm()
	nb := g.intn("ib", 3)
	for i := 0; i < nb; i++ {
		g.block(a, h, depth, false)
	}
	wsd := 1
	if g.Cfg.NoInitSelfdestruct {
		wsd = 0
	}
	switch g.weighted("iend", 6, 3, 2, 1, 1, 1, wsd) {
	case 0: // return a small generated runtime
		rt := NewAsm()
		for i := 0; i < 1+g.intn("rb", 2); i++ {
			g.block(rt, h, 0, false)
		}
		p := rt.Assemble()
		g.kind("init:runtime")
		a.DataToMem(a.Data(p.Code, "runtime"), 0)
		a.Push(uint64(len(p.Code))).Push(0).Op(vm.RETURN)
	case 1: // return zero-filled code of a boundary size (code-store gas / max code size)
		sz := []uint64{0, 1, 100, 3000, params.MaxCodeSize, params.MaxCodeSize + 1, params.NewMaxCodeSize + 1}[g.intn("isz", 7)]
		g.kind(fmt.Sprintf("init:zeros%d", sz))
		a.Push(sz).Push(0).Op(vm.RETURN)
	case 2:
		g.kind("init:0xEF")
		a.Push(0xEF).Push(0).Op(vm.MSTORE8).Push(2).Push(0).Op(vm.RETURN)
	case 3:
		g.kind("init:revert")
		a.Push(0).Push(0).Op(vm.REVERT)
	case 4:
		g.kind("init:invalid")
		a.Op(vm.OpCode(0xfe))
	case 5:
		g.kind("init:stop")
		a.Op(vm.STOP)
	default:
		g.kind("init:selfdestruct")
		a.PushAddr(U().EOAs[0].Addr).Op(vm.SELFDESTRUCT)
	}
	return a.Assemble().Code
}

func (g *ProgGen) create(a *Asm, h *Hints, depth int) {
	two := g.flip("c2", 40)
	// the created contract's own balance hint is its endowment
	var value *big.Int
	if g.flip("cval", 50) {
		value, _ = g.valueFor("crv", h.Balance, nil)
		if value.Cmp(two64) >= 0 && g.flip("tame", 70) {
			value = bi(1000)
		}
	} else {
		value = new(big.Int)
	}
	child := &Hints{Self: U().NonExistent[0], Balance: value}
	init := g.initCode(child, depth-1)
	name := "CREATE"
	if two {
		name = "CREATE2"
	}
	g.kind(name)
	a.DataToMem(a.Data(init, "initcode"), 0)
	if two {
		salt := new(big.Int)
		if g.flip("grind", 60) {
			// grind a salt that puts the new address into this zone's Quai ledger (CREATE2 does not
			// grind by itself)
			ch := crypto.Keccak256Hash(init)
			for i := int64(0); i < 5000; i++ {
				var s [32]byte
				big.NewInt(i).FillBytes(s[:])
				addr := crypto.CreateAddress2(h.Self, s, ch.Bytes(), Loc)
				if _, err := addr.InternalAndQuaiAddress(); err == nil {
					salt = big.NewInt(i)
					g.Created = append(g.Created, addr)
					break
				}
			}
		} else {
			salt = bi(int64(g.intn("salt", 4)))
		}
		a.PushBig(salt)
	}
	if !two {
		if g.creates == nil {
			g.creates = map[common.AddressBytes]uint64{}
		}
		g.creates[h.Self.Bytes20()]++
		// generated contracts start with nonce 1
		if addr, ok := PredictCreateAddress(h.Self, g.creates[h.Self.Bytes20()], init, g.Env.BlockNumber); ok {
			g.Created = append(g.Created, addr)
		}
	}
	a.Push(uint64(len(init))).Push(0).PushBig(value)
	if two {
		a.Op(vm.CREATE2)
	} else {
		a.Op(vm.CREATE)
	}
	g.consumeFlag(a)
}

func (g *ProgGen) loop(a *Asm, h *Hints, depth int) {
	g.kind("loop")
	n := uint64(1 + g.intn("iters", 4))
	top := a.NewLabel("loop")
	a.Push(n).Label(top)
	g.block(a, h, depth, true)
	a.Push(1).Op(vm.SWAP1, vm.SUB, vm.DUP1).PushLabel(top).Op(vm.JUMPI, vm.POP)
}

// block emits one stack-neutral block.
func (g *ProgGen) block(a *Asm, h *Hints, depth int, inLoop bool) {
	c := g.Cfg
	wCreate, wLoop, wTerm, wSd := c.WCreate, c.WLoop, c.WTerminal, c.WSelfdestruct
	if depth <= 0 {
		wCreate = 0
	}
	if inLoop || depth <= 0 {
		wLoop = 0
	}
	if inLoop {
		wTerm, wSd = 0, 0
	}
	wETX := c.WExport * 2
	wConv := c.WExport
	wExt := (c.WExport + 3) / 4 // a CALL to an out-of-scope address always dies in the gas function
	if c.NoETXOp {
		wETX = 0
	}
	if c.ExtOnlyConv {
		wExt = 1 // (a contract's CALL to a Qi address dies in the gas function, like every out-of-scope CALL)
	}
	if !inLoop && g.weighted("nest", 100-c.WNest, c.WNest) == 1 {
		g.callContract(a, h)
		return
	}
	switch g.weighted("block", c.WNoise, c.WStorage, c.WMem, c.WCall, wCreate, wETX, wConv, wExt, c.WLockup, wSd, wLoop, wTerm) {
	case 0:
		g.noise(a, h)
	case 1:
		g.storage(a)
	case 2:
		g.mem(a)
	case 3:
		g.call(a, h)
	case 4:
		g.create(a, h, depth)
	case 5:
		g.etx(a, h)
	case 6:
		g.convert(a, h)
	case 7:
		g.extCall(a, h)
	case 8:
		g.lockup(a, h)
	case 9:
		g.selfdestruct(a, h)
	case 10:
		g.loop(a, h, depth)
	default:
		g.terminal(a)
	}
}

// Program generates a whole program for the account described by h.
func (g *ProgGen) Program(h *Hints) Program {
	a := NewAsm()
	// a stack cushion lets execution continue past an opcode that forgets to push its result
	cushion := g.weighted("cushion", 5, 2, 2, 1)
	for i := 0; i < cushion; i++ {
		a.Push(uint64(0xC0 + i))
	}
	nb := 1 + g.intn("nblocks", g.Cfg.MaxBlocks)
	for i := 0; i < nb; i++ {
		g.block(a, h, g.Cfg.Depth, false)
	}
	if g.Cfg.FailTailPct > 0 && g.flip("failtail", g.Cfg.FailTailPct) {
		switch g.weighted("failkind", 4, 2, 1, 1, 1) {
		case 0:
			g.kind("tail:REVERT")
			a.Push(0).Push(0).Op(vm.REVERT)
		case 1:
			g.kind("tail:INVALID")
			a.Op(vm.OpCode(0xfe))
		case 2:
			g.kind("tail:BADJUMP")
			a.Push(3).Op(vm.JUMP)
		case 3:
			g.kind("tail:UNDERFLOW")
			a.Op(vm.POP, vm.POP, vm.POP, vm.POP, vm.POP)
		default:
			g.kind("tail:OOG")
			// a memory touch no budget can pay for: immediate out-of-gas
			a.Push(1 << 30).Op(vm.MLOAD)
		}
	}
	if !g.Cfg.NoRawTail && g.flip("rawtail", 3) {
		// low-weight arbitrary bytes
		n := 1 + g.intn("rawn", 24)
		for i := 0; i < n; i++ {
			a.Op(vm.OpCode(rapid.IntRange(0, 255).Draw(g.T, g.lbl("raw"))))
		}
		g.kind("raw")
	}
	return a.Assemble()
}
