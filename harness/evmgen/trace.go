package evmgen

import (
	"fmt"
	"math/big"
	"time"

	"github.com/dominant-strategies/go-quai/common"
	"github.com/dominant-strategies/go-quai/core/rawdb"
	"github.com/dominant-strategies/go-quai/core/state"
	"github.com/dominant-strategies/go-quai/core/types"
	"github.com/dominant-strategies/go-quai/core/vm"
	"github.com/holiman/uint256"
)

// Frame is one interpreter activation reconstructed from the depth sequence of tracer events.
type Frame struct {
	ID      int
	Parent  int // -1 for the top frame
	Depth   int
	Kind    string // TOP, CALL, CALLCODE, DELEGATECALL, STATICCALL, CREATE, CREATE2
	Self    common.Address
	Steps   int
	PeakMem int
	// the largest single-step memory growth seen in the frame and the opcode it happened for
	// (CaptureState fires after the interpreter resized memory for the opcode about to execute)
	BigGrow   int
	BigGrowOp vm.OpCode
	lastMem   int
	EtxAt     int // len(ETXCache) when the frame was entered
	EtxEnd    int // len(ETXCache) at the last event seen inside the frame
	Failed    bool
	Err       string
	Closed    bool
	Flag      *uint256.Int // what the opener found on its stack afterwards (nil for TOP / unknown)
	Ops       []int        // indices into Tracer.Ops of operations recorded in this frame
	LastOp    vm.OpCode
	// for CREATE frames: what the init code returned (taken from the RETURN operands)
	RetLen   uint64
	RetFirst int // first byte of the returned code, -1 if none
	GasAtEnd uint64
}

// OpRec is one recorded value-exporting operation (ETX, CONVERT, CALL to an out-of-scope address,
// CALL to the lockup contract) with everything the C05 oracle compares.
type OpRec struct {
	Kind     string // ETX, CONVERT, CALL-EXT, CALL-LOCKUP
	CallOp   vm.OpCode
	Frame    int
	Depth    int
	PC       uint64
	Gas      uint64
	Operands []uint256.Int // top of stack first, as popped by the opcode
	Emitter  common.Address

	BalBefore, BalAfter *big.Int
	EtxBefore, EtxAfter int
	StkBefore, StkAfter int
	HaveAfter           bool
	Top                 *uint256.Int // top of stack at the after-observation (the status word when one was pushed)
	AfterErr            string       // error carried by the after-observation (fault of this op, or the next op failing its pre-checks)
	Faulted             bool         // the after-observation was a fault of this very op
	NewEtxs             []*types.Transaction

	// ETX
	AccessListBytes []byte
	Data            []byte
	// CALL-EXT / CALL-LOCKUP
	Input []byte
	// CALL-LOCKUP: the debited things
	SlotBefore, SlotAfter common.Hash // wrapped-Qi slot of the emitter in the lockup contract
	RecBefore, RecAfter   *big.Int    // balance of the lockup record named by a 53-byte claim (nil when not a claim)
	RecUnlock             uint32
	RecElems              uint16
	ReadOnly              bool // inside a STATICCALL context (best effort: any enclosing STATICCALL frame)
}

// SuicideRec is one executed SELFDESTRUCT.
type SuicideRec struct {
	Frame int
	Addr  common.Address
}

// Tracer implements vm.Tracer (DESIGN.md §3.4).
type Tracer struct {
	// EnforceAccessList re-enables access-list checking when the top-level call starts: with
	// vm.Config.Debug set, StateDB.PrepareAccessList switches the checks off, which is not what
	// block processing does. Setting this gives the production behaviour under the tracer.
	EnforceAccessList bool
	// MaxSteps aborts runaway executions (harness guard, 0 = none).
	MaxSteps int

	Frames []*Frame
	Ops    []*OpRec
	Steps  int
	// counters of every opcode kind executed that moves value (for labels / non-trivial rules)
	Counts map[string]int
	// every SELFDESTRUCT that started executing (frame it ran in, account destroyed)
	Suicides []SuicideRec

	open    []*Frame          // open frames, index = depth-1
	pending map[int]*OpRec    // depth -> op awaiting its after-observation
	opener  map[int]vm.OpCode // depth -> call-like opcode executed last at that depth (may open a frame)
	lockup  common.Address
	evm     *vm.EVM

	TopFrom, TopTo common.Address
	TopCreate      bool
	Started        bool
	EndErr         error
	EndGasUsed     uint64
}

func NewTracer() *Tracer {
	return &Tracer{pending: map[int]*OpRec{}, opener: map[int]vm.OpCode{}, Counts: map[string]int{}, lockup: U().Lockup}
}

func (t *Tracer) CaptureStart(env *vm.EVM, from common.Address, to common.Address, create bool, input []byte, gas uint64, value *big.Int) {
	t.Started = true
	t.TopFrom, t.TopTo, t.TopCreate = from, to, create
	t.evm = env
	if t.EnforceAccessList {
		if s, ok := env.StateDB.(*state.StateDB); ok {
			s.ConfigureAccessListChecks(true)
		}
	}
}

func (t *Tracer) CaptureEnd(output []byte, gasUsed uint64, d time.Duration, err error) {
	t.EndErr, t.EndGasUsed = err, gasUsed
	// close whatever is still open (the top frame ends without a further event)
	t.closeTo(0, nil, nil)
}

func (t *Tracer) CaptureFault(env *vm.EVM, pc uint64, op vm.OpCode, gas, cost uint64, scope *vm.ScopeContext, depth int, err error) {
	t.event(env, pc, op, gas, scope, depth, err, true)
}

func (t *Tracer) CaptureState(env *vm.EVM, pc uint64, op vm.OpCode, gas, cost uint64, scope *vm.ScopeContext, rData []byte, depth int, err error, loc common.Location) {
	t.event(env, pc, op, gas, scope, depth, err, false)
}

func isCallLike(op vm.OpCode) bool {
	switch op {
	case vm.CALL, vm.CALLCODE, vm.DELEGATECALL, vm.STATICCALL, vm.CREATE, vm.CREATE2:
		return true
	}
	return false
}

// closeTo pops frames deeper than depth. top is the stack top seen by the frame at `depth` in the
// event that revealed the closing (the success flag of the direct child).
func (t *Tracer) closeTo(depth int, top *uint256.Int, env *vm.EVM) {
	for len(t.open) > depth {
		f := t.open[len(t.open)-1]
		t.open = t.open[:len(t.open)-1]
		f.Closed = true
		if len(t.open) == depth && top != nil {
			f.Flag = new(uint256.Int).Set(top)
		}
		delete(t.pending, f.Depth)
		delete(t.opener, f.Depth)
	}
}

func (t *Tracer) balance(env *vm.EVM, a common.Address) *big.Int {
	in, err := a.InternalAndQuaiAddress()
	if err != nil {
		return new(big.Int)
	}
	return new(big.Int).Set(env.StateDB.GetBalance(in))
}

func (t *Tracer) lockupSlot(env *vm.EVM, owner common.Address) common.Hash {
	li, err := t.lockup.InternalAndQuaiAddress()
	if err != nil {
		return common.Hash{}
	}
	if _, err := owner.InternalAndQuaiAddress(); err != nil {
		return common.Hash{}
	}
	return env.StateDB.GetState(li, WrappedQiSlot(owner))
}

func (t *Tracer) lockupRecord(env *vm.EVM, owner common.Address, input []byte) (*big.Int, uint32, uint16) {
	if len(input) != 53 {
		return nil, 0, 0
	}
	miner := common.BytesToAddress(input[:20], Loc)
	lb := input[40]
	epoch := uint32(input[41])<<24 | uint32(input[42])<<16 | uint32(input[43])<<8 | uint32(input[44])
	bal, unlock, elems, _ := rawdb.ReadCoinbaseLockup(env.StateDB.UnderlyingDatabase(), env.Batch, owner, miner, lb, epoch)
	return bal, unlock, elems
}

func memSlice(scope *vm.ScopeContext, off, size *uint256.Int, cap uint64) []byte {
	if size.IsZero() {
		return nil
	}
	if !off.IsUint64() || !size.IsUint64() || size.Uint64() > cap {
		return nil
	}
	o, s := off.Uint64(), size.Uint64()
	if o+s < o || o+s > uint64(scope.Memory.Len()) {
		return nil
	}
	return scope.Memory.GetCopy(int64(o), int64(s))
}

func (t *Tracer) event(env *vm.EVM, pc uint64, op vm.OpCode, gas uint64, scope *vm.ScopeContext, depth int, err error, fault bool) {
	t.evm = env
	t.Steps++
	if t.MaxSteps > 0 && t.Steps == t.MaxSteps {
		env.Cancel()
	}
	stack := scope.Stack.Data()
	var top *uint256.Int
	if len(stack) > 0 {
		top = &stack[len(stack)-1]
	}
	etxLen := len(env.ETXCache)

	// --- frame bookkeeping -----------------------------------------------------------------
	if depth < len(t.open) {
		// a fault event of a frame arrives at that frame's own depth, so anything deeper is closed
		t.closeTo(depth, top, env)
	}
	if depth > len(t.open) {
		kind := "TOP"
		parent := -1
		if len(t.open) > 0 {
			parent = t.open[len(t.open)-1].ID
			if o, ok := t.opener[depth-1]; ok {
				kind = o.String()
			} else {
				kind = "?"
			}
		}
		f := &Frame{ID: len(t.Frames), Parent: parent, Depth: depth, Kind: kind, Self: scope.Contract.Address(), EtxAt: etxLen, RetFirst: -1}
		t.Frames = append(t.Frames, f)
		t.open = append(t.open, f)
	}
	f := t.open[len(t.open)-1]
	f.Steps++
	f.EtxEnd = etxLen
	f.GasAtEnd = gas
	if l := scope.Memory.Len(); l > f.PeakMem {
		f.PeakMem = l
	}
	if l := scope.Memory.Len(); l-f.lastMem > f.BigGrow {
		f.BigGrow, f.BigGrowOp = l-f.lastMem, op
	}
	f.lastMem = scope.Memory.Len()

	// --- after-observation of a pending operation at this depth ------------------------------
	if p, ok := t.pending[depth]; ok {
		delete(t.pending, depth)
		p.HaveAfter = true
		p.StkAfter = len(stack)
		if top != nil {
			p.Top = new(uint256.Int).Set(top)
		}
		p.BalAfter = t.balance(env, p.Emitter)
		p.EtxAfter = etxLen
		if etxLen > p.EtxBefore {
			p.NewEtxs = append([]*types.Transaction(nil), env.ETXCache[p.EtxBefore:etxLen]...)
		}
		if err != nil {
			p.AfterErr = err.Error()
			p.Faulted = fault && pc == p.PC
		}
		if p.Kind == "CALL-LOCKUP" {
			p.SlotAfter = t.lockupSlot(env, p.Emitter)
			p.RecAfter, _, _ = t.lockupRecord(env, p.Emitter, p.Input)
		}
	}
	if fault || err != nil {
		f.Failed = true
		f.Err = err.Error()
		f.LastOp = op
		return
	}
	f.LastOp = op
	delete(t.opener, depth)

	// --- record the operation about to execute ---------------------------------------------
	n := len(stack)
	arg := func(i int) *uint256.Int { return &stack[n-1-i] }
	switch op {
	case vm.ETX:
		if n < 10 {
			return
		}
		t.Counts["ETX"]++
		r := t.newOp("ETX", op, f, pc, gas, scope, env, 10)
		r.Data = memSlice(scope, arg(6), arg(7), 1<<21)
		r.AccessListBytes = memSlice(scope, arg(8), arg(9), 1<<21)
	case vm.CONVERT:
		if n < 4 {
			return
		}
		t.Counts["CONVERT"]++
		t.newOp("CONVERT", op, f, pc, gas, scope, env, 4)
	case vm.CALL, vm.CALLCODE, vm.DELEGATECALL, vm.STATICCALL:
		t.opener[depth] = op
		need := 7
		if op == vm.DELEGATECALL || op == vm.STATICCALL {
			need = 6
		}
		if n < need {
			return
		}
		to := common.Bytes20ToAddress(arg(1).Bytes20(), Loc)
		hasValue := need == 7 && !arg(2).IsZero()
		if hasValue {
			t.Counts["VALUE-"+op.String()]++
		}
		if op != vm.CALL {
			if to.Equal(t.lockup) {
				t.Counts["LOCKUP-VIA-"+op.String()]++
			}
			return
		}
		inOff, inSize := arg(3), arg(4)
		switch {
		case to.Equal(t.lockup):
			t.Counts["CALL-LOCKUP"]++
			r := t.newOp("CALL-LOCKUP", op, f, pc, gas, scope, env, 7)
			r.Input = memSlice(scope, inOff, inSize, 1<<16)
			r.SlotBefore = t.lockupSlot(env, r.Emitter)
			r.RecBefore, r.RecUnlock, r.RecElems = t.lockupRecord(env, r.Emitter, r.Input)
		default:
			if _, e := to.InternalAndQuaiAddress(); e != nil {
				// out of scope: foreign zone or in-zone Qi => evm.CreateETX
				t.Counts["CALL-EXT"]++
				r := t.newOp("CALL-EXT", op, f, pc, gas, scope, env, 7)
				r.Input = memSlice(scope, inOff, inSize, 1<<16)
			}
		}
	case vm.CREATE, vm.CREATE2:
		t.opener[depth] = op
		if n >= 1 && !arg(0).IsZero() {
			t.Counts["VALUE-"+op.String()]++
		}
		t.Counts[op.String()]++
	case vm.SELFDESTRUCT:
		t.Counts["SELFDESTRUCT"]++
		t.Suicides = append(t.Suicides, SuicideRec{f.ID, scope.Contract.Address()})
		if t.balance(env, scope.Contract.Address()).Sign() > 0 {
			t.Counts["SELFDESTRUCT-FUNDED"]++
		}
	case vm.RETURN:
		if n >= 2 && (f.Kind == "CREATE" || f.Kind == "CREATE2" || (f.Kind == "TOP" && t.TopCreate)) {
			if arg(1).IsUint64() {
				f.RetLen = arg(1).Uint64()
				if b := memSlice(scope, arg(0), uint256.NewInt(1), 1); len(b) == 1 && f.RetLen > 0 {
					f.RetFirst = int(b[0])
				}
			} else {
				f.RetLen = ^uint64(0)
			}
		}
	}
}

func (t *Tracer) newOp(kind string, op vm.OpCode, f *Frame, pc, gas uint64, scope *vm.ScopeContext, env *vm.EVM, nargs int) *OpRec {
	stack := scope.Stack.Data()
	n := len(stack)
	r := &OpRec{Kind: kind, CallOp: op, Frame: f.ID, Depth: f.Depth, PC: pc, Gas: gas, Emitter: scope.Contract.Address(),
		StkBefore: n, EtxBefore: len(env.ETXCache)}
	r.Operands = make([]uint256.Int, nargs)
	for i := 0; i < nargs; i++ {
		r.Operands[i] = stack[n-1-i]
	}
	r.BalBefore = t.balance(env, r.Emitter)
	for _, of := range t.open {
		if of.Kind == "STATICCALL" {
			r.ReadOnly = true
		}
	}
	f.Ops = append(f.Ops, len(t.Ops))
	t.Ops = append(t.Ops, r)
	t.pending[f.Depth] = r
	return r
}

// Reverted reports whether frame id, or any frame enclosing it, failed (i.e. its effects were
// rolled back by the EVM's snapshot revert).
func (t *Tracer) Reverted(id int) bool {
	for id >= 0 {
		f := t.Frames[id]
		if f.Failed {
			return true
		}
		id = f.Parent
	}
	return false
}

// CreateFlagZero reports whether frame id or an enclosing frame is a CREATE/CREATE2 whose init
// code ran to completion but whose opener nevertheless found 0 on its stack (code too large,
// 0xEF prefix, or code-store out of gas — the last one is not rolled back by the EVM).
func (t *Tracer) CreateFlagZero(id int) (bool, *Frame) {
	for id >= 0 {
		f := t.Frames[id]
		if (f.Kind == "CREATE" || f.Kind == "CREATE2") && !f.Failed && f.Flag != nil && f.Flag.IsZero() {
			return true, f
		}
		id = f.Parent
	}
	return false, nil
}

// Dump renders the recorded operations readably.
func (t *Tracer) Dump() []any {
	var out []any
	u := U()
	for i, r := range t.Ops {
		ops := []string{}
		for _, o := range r.Operands {
			ops = append(ops, o.Hex())
		}
		m := map[string]any{"i": i, "kind": r.Kind, "frame": r.Frame, "depth": r.Depth, "pc": r.PC, "gas": r.Gas, "emitter": u.Name(r.Emitter),
			"operands_top_first": ops, "bal_before": r.BalBefore.String(), "etx_before": r.EtxBefore, "stack_before": r.StkBefore,
			"have_after": r.HaveAfter}
		if r.HaveAfter {
			m["bal_after"] = r.BalAfter.String()
			m["etx_after"] = r.EtxAfter
			m["stack_after"] = r.StkAfter
			if r.Top != nil {
				m["top_after"] = r.Top.Hex()
			}
			if r.AfterErr != "" {
				m["after_err"] = r.AfterErr
				m["faulted"] = r.Faulted
			}
		}
		if r.AccessListBytes != nil {
			m["access_list_bytes"] = fmt.Sprintf("%x", trunc(r.AccessListBytes, 128))
		}
		if r.Input != nil {
			m["input"] = fmt.Sprintf("%x", trunc(r.Input, 128))
		}
		if r.Kind == "CALL-LOCKUP" {
			m["slot_before"] = r.SlotBefore.Hex()
			m["slot_after"] = r.SlotAfter.Hex()
			if r.RecBefore != nil {
				m["rec_before"] = r.RecBefore.String()
			}
			if r.RecAfter != nil {
				m["rec_after"] = r.RecAfter.String()
			}
		}
		out = append(out, m)
	}
	fr := []any{}
	for _, f := range t.Frames {
		m := map[string]any{"id": f.ID, "parent": f.Parent, "depth": f.Depth, "kind": f.Kind, "self": u.Name(f.Self), "steps": f.Steps,
			"peak_mem": f.PeakMem, "etx_at_entry": f.EtxAt, "failed": f.Failed}
		if f.Err != "" {
			m["err"] = f.Err
		}
		if f.Flag != nil {
			m["flag"] = f.Flag.Hex()
		}
		fr = append(fr, m)
	}
	out = append(out, map[string]any{"frames": fr})
	return out
}

func trunc(b []byte, n int) []byte {
	if len(b) > n {
		return b[:n]
	}
	return b
}

// CreateRejected classifies a creation frame whose init code ran to completion but whose creation
// nevertheless failed (flag 0 / failed transaction): "size" and "0xEF" are rolled back by the
// EVM, "codestore-oog" is not (evm.create skips the revert for ErrCodeStoreOutOfGas).
func (f *Frame) CreateRejected(maxCodeSize uint64) string {
	switch {
	case f.RetLen > maxCodeSize:
		return "size"
	case f.RetFirst == 0xEF:
		return "0xEF"
	default:
		return "codestore-oog"
	}
}

// RolledBack reports whether the effects of frame id were rolled back by the EVM: the frame or an
// enclosing frame faulted, or is a creation rejected for code size / 0xEF prefix. txFailed is the
// outcome of the whole transaction (needed for a top-level creation, which has no opener).
// The second result names a creation frame on the path that failed with code-store out-of-gas
// (not rolled back), if any.
func (t *Tracer) RolledBack(id int, maxCodeSize uint64, txFailed bool) (bool, *Frame) {
	var oog *Frame
	for id >= 0 {
		f := t.Frames[id]
		if f.Failed {
			return true, oog
		}
		isCreate := f.Kind == "CREATE" || f.Kind == "CREATE2" || (f.Kind == "TOP" && t.TopCreate)
		flagZero := (f.Flag != nil && f.Flag.IsZero()) || (f.Kind == "TOP" && txFailed)
		if isCreate && flagZero {
			if r := f.CreateRejected(maxCodeSize); r != "codestore-oog" {
				return true, oog
			}
			oog = f
		}
		id = f.Parent
	}
	return false, oog
}
