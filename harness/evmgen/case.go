package evmgen

import (
	"fmt"
	"math/big"
	"sort"
	"strings"

	"github.com/dominant-strategies/go-quai/common"
	"github.com/dominant-strategies/go-quai/core"
	"github.com/dominant-strategies/go-quai/core/types"
	"github.com/dominant-strategies/go-quai/core/vm"
	"github.com/dominant-strategies/go-quai/crypto"
	"github.com/dominant-strategies/go-quai/params"
	"pgregory.net/rapid"
)

// Execution modes of a case.
const (
	ModeTracedBypass   = "traced-bypass"   // tracer on, access-list checks off (what Debug does)
	ModeTracedEnforced = "traced-enforced" // tracer on, access-list checks re-enabled (= block processing)
	ModeUntraced       = "untraced"        // Debug off: exactly the block-processing configuration
)

// TxSpec describes the generated transaction.
type TxSpec struct {
	Kind       string // "quai" or "etx"
	From       int    // index of the signing EOA (quai)
	To         *common.Address
	ToClass    string
	Nonce      uint64
	NonceClass string
	Gas        uint64
	GasClass   string
	Price      *big.Int
	PriceClass string
	Value      *big.Int
	Data       []byte
	DataNote   string
	AccessList types.AccessList
	ALClass    string
	// inbound ETX
	EtxType   uint64
	EtxSender common.Address
	// suicide-data branch of TransitionDb
	Suicide bool
	Tx      *types.Transaction
}

// Case is one generated execution.
type Case struct {
	Env       *Env
	Pre       *PreState
	Tx        TxSpec
	Mode      string
	Kinds     []string // kinds of every generated block
	CleanFrom bool     // the sender is an address no generated program ever names
}

// Dump renders the case for replay files and samples.
func (c *Case) Dump() map[string]any {
	tx := map[string]any{"kind": c.Tx.Kind, "to_class": c.Tx.ToClass, "gas": c.Tx.Gas, "gas_class": c.Tx.GasClass, "value": c.Tx.Value.String(),
		"data": fmt.Sprintf("%x", trunc(c.Tx.Data, 4096)), "data_note": c.Tx.DataNote, "access_list_class": c.Tx.ALClass, "access_list_len": len(c.Tx.AccessList)}
	if c.Tx.To != nil {
		tx["to"] = c.Tx.To.Hex()
	}
	if c.Tx.Kind == "quai" {
		tx["from"] = fmt.Sprintf("eoa%d %s", c.Tx.From, U().EOAs[c.Tx.From].Addr.Hex())
		tx["nonce"] = c.Tx.Nonce
		tx["price"] = c.Tx.Price.String()
		tx["suicide_branch"] = c.Tx.Suicide
	} else {
		tx["etx_type"] = c.Tx.EtxType
		tx["etx_sender"] = c.Tx.EtxSender.Hex()
	}
	return map[string]any{"env": c.Env.Dump(), "mode": c.Mode, "tx": tx, "pre": c.Pre.Dump(), "kinds": strings.Join(c.Kinds, " ")}
}

// CaseOpts selects what GenCase produces.
type CaseOpts struct {
	Cfg       GenCfg
	AllowETX  bool   // generate inbound ETX transactions too
	ForceMode string // "" = draw
	// ContractPct is the percentage of transactions addressed to a generated contract (default 55)
	ContractPct int
	// NoSuicideTx: never generate the "Suicide"+beneficiary data branch of TransitionDb (it burns
	// the sender's gas refund by design, which is not a conversion)
	NoSuicideTx bool
	// PreferRegime: when set, three cases in four draw the fork regime among those it accepts
	PreferRegime func(ptn uint64) bool
	// ForcePostFork / ForcePreFork restrict the regime (used by regression tests)
}

// rare reports true with roughly pct percent probability. rapid's integer draws favour small
// values, so the band is placed in the middle of the range; shrinking moves towards "not rare".
func rare(t *rapid.T, label string, pct int) bool {
	v := rapid.IntRange(0, 999).Draw(t, label)
	return v >= 500 && v < 500+10*pct
}

func pickBig(t *rapid.T, label string, vals ...*big.Int) *big.Int {
	return new(big.Int).Set(vals[rapid.IntRange(0, len(vals)-1).Draw(t, label)])
}

func e(n int64, exp int) *big.Int {
	return new(big.Int).Mul(big.NewInt(n), new(big.Int).Exp(big.NewInt(10), big.NewInt(int64(exp)), nil))
}

// GenEnv draws a block environment.
func GenEnv(t *rapid.T) *Env {
	u := U()
	env := &Env{}
	env.PrimeTerminusNumber = Regimes[rapid.IntRange(0, len(Regimes)-1).Draw(t, "regime")]
	// zone heights: epoch arithmetic of the lockup contract wants >= 2 epochs; both sides of the
	// new-opcode / code-size fork
	env.BlockNumber = []uint64{10, 120000, 120000, 120000, params.MaxCodeSizeForkHeight - 1, params.MaxCodeSizeForkHeight + 10, params.MaxCodeSizeForkHeight + 10, params.MaxCodeSizeForkHeight + 10, params.MaxCodeSizeForkHeight + 10, 4000000, 4000000}[rapid.IntRange(0, 10).Draw(t, "blocknumber")]
	env.BaseFee = pickBig(t, "basefee", big.NewInt(1), big.NewInt(7), e(1, 9), e(3, 14))
	env.GasLimit = []uint64{5_000_000, 12_000_000, 30_000_000}[rapid.IntRange(0, 2).Draw(t, "gaslimit")]
	env.Time = 1_700_000_000
	env.QuaiStateSize = pickBig(t, "statesize", big.NewInt(0), big.NewInt(1_000_000), e(5, 9))
	var locs []common.Location
	for _, a := range append(append([]common.Address{}, u.ForeignQuai...), u.ForeignQi...) {
		l := *a.Location()
		if rapid.IntRange(0, 9).Draw(t, "elig") < 7 {
			locs = append(locs, l)
		}
	}
	env.Eligible = EligibleMask(locs...)
	env.Coinbase = u.EOAs[0].Addr
	return env
}

// completeAccessList names every in-scope address programs can touch, with slots 0..3.
func completeAccessList() types.AccessList {
	u := U()
	var al types.AccessList
	keys := []common.Hash{common.BigToHash(big.NewInt(0)), common.BigToHash(big.NewInt(1)), common.BigToHash(big.NewInt(2)), common.BigToHash(big.NewInt(3))}
	for _, c := range u.Contracts {
		al = append(al, types.AccessTuple{Address: c, StorageKeys: keys})
	}
	for _, e := range u.EOAs {
		al = append(al, types.AccessTuple{Address: e.Addr})
	}
	for _, l := range [][]common.Address{u.NonExistent, u.ForeignQuai, u.ForeignQi, u.InZoneQi, {u.Lockup, u.Zero}} {
		for _, a := range l {
			al = append(al, types.AccessTuple{Address: a})
		}
	}
	return al
}

// GenCase draws a complete case.
func GenCase(t *rapid.T, opts CaseOpts) *Case {
	u := U()
	c := &Case{Env: GenEnv(t)}
	if opts.PreferRegime != nil && rapid.IntRange(0, 3).Draw(t, "preferregime") > 0 {
		var ok []uint64
		for _, r := range Regimes {
			if opts.PreferRegime(r) {
				ok = append(ok, r)
			}
		}
		if len(ok) > 0 {
			c.Env.PrimeTerminusNumber = ok[rapid.IntRange(0, len(ok)-1).Draw(t, "regime2")]
		}
	}
	env := c.Env
	// price
	priceClass := rapid.IntRange(0, 28).Draw(t, "priceclass")
	if rare(t, "pricelow", 2) {
		priceClass = 29
	}
	var price *big.Int
	switch {
	case priceClass < 15:
		price, c.Tx.PriceClass = new(big.Int).Set(env.BaseFee), "basefee"
	case priceClass < 22:
		price, c.Tx.PriceClass = new(big.Int).Add(env.BaseFee, big.NewInt(1)), "basefee+1"
	case priceClass < 29:
		price, c.Tx.PriceClass = new(big.Int).Mul(env.BaseFee, big.NewInt(2)), "2x"
	default:
		price, c.Tx.PriceClass = new(big.Int).Sub(env.BaseFee, big.NewInt(1)), "below-basefee"
	}
	isETX := opts.AllowETX && rare(t, "isetx", 45)
	if isETX {
		price = new(big.Int) // ExternalTx.gasPrice() is zero
		c.Tx.PriceClass = "etx"
	}
	c.Tx.Price = price

	g := &ProgGen{T: t, Env: env, Price: price, Cfg: opts.Cfg}

	// ---- pre-state ---------------------------------------------------------------------------
	pre := &PreState{}
	c.Pre = pre
	nContracts := rapid.IntRange(2, len(u.Contracts)).Draw(t, "ncontracts")
	hints := make([]*Hints, nContracts)
	for i := 0; i < nContracts; i++ {
		h := &Hints{Self: u.Contracts[i]}
		h.Balance = pickBig(t, "cbal", big.NewInt(0), big.NewInt(1), e(1, 15), e(1, 19), e(11, 18), e(1, 21), e(1, 21), e(1, 24), e(1, 24), new(big.Int).Lsh(big.NewInt(1), 64), new(big.Int).Lsh(big.NewInt(1), 128), new(big.Int).Lsh(big.NewInt(1), 128))
		if rapid.IntRange(0, 9).Draw(t, "wrapped") < 7 {
			h.Wrapped = pickBig(t, "wbal", big.NewInt(1), big.NewInt(1000), e(1, 18), new(big.Int).Lsh(big.NewInt(1), 200))
			pre.WrappedQi = append(pre.WrappedQi, WrappedQi{h.Self, h.Wrapped})
		}
		if rapid.IntRange(0, 9).Draw(t, "deposit") < 3 {
			o := u.EOAs[rapid.IntRange(0, len(u.EOAs)-2).Draw(t, "depowner")].Addr
			h.Deposits = append(h.Deposits, o)
			pre.QiDeposits = append(pre.QiDeposits, QiDeposit{h.Self, o, pickBig(t, "dbal", big.NewInt(5), e(1, 18))})
		}
		nrec := []int{1, 2, 1, 0}[rapid.IntRange(0, 3).Draw(t, "nlock")]
		for k := 0; k < nrec; k++ {
			latest := uint32(env.BlockNumber/params.CoinbaseEpochBlocks) + 1
			r := LockupRec{Owner: h.Self, Miner: u.Miners[rapid.IntRange(0, len(u.Miners)-1).Draw(t, "miner")], LockupByte: byte(rapid.IntRange(0, 3).Draw(t, "lb")), Delegate: common.Zero}
			// epoch: mostly a past one, sometimes the current / a future one
			switch rapid.IntRange(0, 7).Draw(t, "epochclass") {
			case 6:
				r.Epoch = latest
			case 7:
				r.Epoch = latest + 1
			default:
				if latest > 1 {
					r.Epoch = uint32(rapid.IntRange(1, int(latest)-1).Draw(t, "epoch"))
				} else {
					r.Epoch = 1
				}
			}
			switch rapid.IntRange(0, 7).Draw(t, "unlockclass") {
			case 6:
				r.Unlock = uint32(env.BlockNumber) + 1 // not yet
			case 7:
				r.Unlock = uint32(env.BlockNumber) // exactly now
			default:
				r.Unlock = 1 + uint32(env.BlockNumber/2)
			}
			r.Elements = uint16(rapid.IntRange(0, 3).Draw(t, "elements"))
			if rapid.IntRange(0, 3).Draw(t, "elemnz") > 0 && r.Elements == 0 {
				r.Elements = 1
			}
			r.Balance = pickBig(t, "lbal", big.NewInt(777), e(1, 18), e(5, 20))
			if rapid.IntRange(0, 4).Draw(t, "delegate") == 0 {
				r.Delegate = u.EOAs[1].Addr
			}
			dup := false
			for _, o := range pre.Lockups {
				if o.Owner.Equal(r.Owner) && o.Miner.Equal(r.Miner) && o.LockupByte == r.LockupByte && o.Epoch == r.Epoch {
					dup = true
				}
			}
			if !dup {
				pre.Lockups = append(pre.Lockups, r)
				h.Lockups = append(h.Lockups, r)
			}
		}
		hints[i] = h
	}
	for i := 0; i < nContracts; i++ {
		p := g.Program(hints[i])
		acc := AccountSpec{Addr: hints[i].Self, Balance: hints[i].Balance, Nonce: 1, Code: &p}
		if rapid.IntRange(0, 2).Draw(t, "hasstorage") == 0 {
			acc.Storage = map[common.Hash]common.Hash{common.BigToHash(big.NewInt(int64(rapid.IntRange(0, 3).Draw(t, "sslot")))): common.BigToHash(big.NewInt(7))}
		}
		pre.Accounts = append(pre.Accounts, acc)
	}

	// ---- transaction -------------------------------------------------------------------------
	tx := &c.Tx
	tx.Kind = "quai"
	if isETX {
		tx.Kind = "etx"
	}
	// the last EOA is never named by any program: a "clean" fee payer
	tx.From = rapid.IntRange(0, len(u.EOAs)-1).Draw(t, "from")
	if rapid.IntRange(0, 1).Draw(t, "cleanfrom") == 0 {
		tx.From = len(u.EOAs) - 1
	}
	c.CleanFrom = tx.From == len(u.EOAs)-1
	fromAddr := u.EOAs[tx.From].Addr

	// recipient
	var toHints *Hints
	if opts.ContractPct == 0 {
		opts.ContractPct = 55
	}
	toSel := rapid.IntRange(0, 99).Draw(t, "toclass")
	if toSel >= 55 && toSel < opts.ContractPct {
		toSel = 0
	}
	setTo := func(a common.Address, class string) { aa := a; tx.To = &aa; tx.ToClass = class }
	switch {
	case toSel < 55:
		i := rapid.IntRange(0, nContracts-1).Draw(t, "tocontract")
		setTo(u.Contracts[i], "contract")
		toHints = hints[i]
	case toSel < 67:
		tx.To, tx.ToClass = nil, "create"
	case toSel < 72:
		setTo(u.EOAs[rapid.IntRange(0, len(u.EOAs)-2).Draw(t, "toeoa")].Addr, "eoa")
	case toSel < 77:
		setTo(u.ForeignQuai[rapid.IntRange(0, len(u.ForeignQuai)-1).Draw(t, "tofq")], "foreignQuai")
	case toSel < 82:
		setTo(u.InZoneQi[rapid.IntRange(0, len(u.InZoneQi)-1).Draw(t, "toqi")], "inZoneQi")
	case toSel < 85:
		setTo(u.NonExistent[0], "nonexistent")
	case toSel < 89:
		setTo(u.Lockup, "lockup")
	case toSel < 91:
		setTo(u.Precompiles[rapid.IntRange(0, 8).Draw(t, "toprec")], "precompile")
	case toSel < 93:
		setTo(u.Zero, "zero")
	case toSel < 95:
		setTo(u.ForeignQi[0], "foreignQi")
	default:
		setTo(fromAddr, "self")
	}
	if isETX {
		// inbound ETXs reach the EVM only with an in-zone Quai recipient; the zero address means
		// contract creation
		switch tx.ToClass {
		case "create":
			setTo(u.Zero, "create")
		case "foreignQuai", "inZoneQi", "foreignQi", "self", "zero":
			i := rapid.IntRange(0, nContracts-1).Draw(t, "tocontract2")
			setTo(u.Contracts[i], "contract")
			toHints = hints[i]
		}
		tx.EtxSender = u.ForeignQuai[rapid.IntRange(0, len(u.ForeignQuai)-1).Draw(t, "etxsender")]
		tx.EtxType = []uint64{types.DefaultType, types.DefaultType, types.CoinbaseLockupType, types.CoinbaseType}[rapid.IntRange(0, 3).Draw(t, "etxtype")]
	}

	// data
	switch tx.ToClass {
	case "create":
		child := &Hints{Self: u.NonExistent[1], Balance: new(big.Int)}
		tx.Data = g.initCode(child, opts.Cfg.Depth)
		tx.DataNote = "init code"
	case "lockup":
		h := &Hints{Self: fromAddr, Balance: new(big.Int)}
		in, class, _ := g.lockupInput(h)
		tx.Data, tx.DataNote = in, "lockup "+class
	case "self":
		if !opts.NoSuicideTx && rapid.IntRange(0, 3).Draw(t, "suicidebranch") > 0 {
			ben := g.callTarget("suicideben", &Hints{Self: fromAddr})
			tx.Data = append([]byte("Suicide"), ben.addr.Bytes()...)
			tx.DataNote = "Suicide>" + ben.name
			tx.Suicide = true
		}
	default:
		n := []int{0, 0, 4, 32, 100}[rapid.IntRange(0, 4).Draw(t, "datalen")]
		tx.Data = make([]byte, n)
		for i := range tx.Data {
			tx.Data[i] = byte(i * 37)
		}
	}

	// value
	switch rapid.IntRange(0, 9).Draw(t, "valueclass") {
	case 0, 1, 2, 3:
		tx.Value = new(big.Int)
	case 4:
		tx.Value = big.NewInt(1)
	case 5, 6:
		tx.Value = e(1, 15)
	case 7:
		tx.Value = e(2, 19) // above the minimum conversion amount
	case 8:
		tx.Value = e(1, 21)
	default:
		tx.Value = new(big.Int).Lsh(big.NewInt(1), 100)
	}
	if tx.ToClass == "inZoneQi" && rapid.IntRange(0, 2).Draw(t, "convvalue") > 0 {
		tx.Value = new(big.Int).Add(params.MinQuaiConversionAmount, big.NewInt(int64(rapid.IntRange(-1, 1).Draw(t, "convdelta"))))
	}

	// access list
	full := completeAccessList()
	for _, a := range g.Created {
		full = append(full, types.AccessTuple{Address: a, StorageKeys: []common.Hash{{}, common.BigToHash(big.NewInt(1))}})
	}
	switch rapid.IntRange(0, 9).Draw(t, "alclass") {
	case 0:
		tx.AccessList, tx.ALClass = nil, "empty"
	case 1, 2:
		for _, tup := range full {
			if rapid.IntRange(0, 1).Draw(t, "alkeep") == 0 {
				keep := tup
				if len(tup.StorageKeys) > 0 {
					keep.StorageKeys = tup.StorageKeys[:rapid.IntRange(0, len(tup.StorageKeys)).Draw(t, "alkeys")]
				}
				tx.AccessList = append(tx.AccessList, keep)
			}
		}
		tx.ALClass = "partial"
	default:
		tx.AccessList, tx.ALClass = full, "complete"
	}
	if tx.ToClass == "create" && !isETX && rapid.IntRange(0, 3).Draw(t, "alcreate") > 0 {
		// name the address the creation will use (found the way evm.Create finds it)
		if a, ok := PredictCreateAddress(fromAddr, 0, tx.Data, env.BlockNumber); ok {
			tx.AccessList = append(tx.AccessList, types.AccessTuple{Address: a, StorageKeys: []common.Hash{{}, common.BigToHash(big.NewInt(1))}})
			tx.ALClass += "+created"
		}
	}

	// gas
	intrinsic, _ := core.IntrinsicGas(tx.Data, tx.AccessList, tx.ToClass == "create")
	gc := rapid.IntRange(2, 39).Draw(t, "gasclass")
	if rare(t, "gasbelow", 2) {
		gc = 0
	} else if rare(t, "gasexact", 2) {
		gc = 1
	}
	gc = []int{0, 1, 34, 35, 36, 24, 25, 26, 27, 5, 6, 7, 8, 9, 10, 11, 12, 13, 14, 15, 16, 17, 18, 19, 20, 21, 22, 23, 28, 29, 30, 31, 32, 33, 37, 38, 39, 2, 3, 4}[gc]
	switch {
	case gc == 0:
		tx.Gas, tx.GasClass = intrinsic-1, "below-intrinsic"
	case gc == 1:
		tx.Gas, tx.GasClass = intrinsic, "intrinsic"
	case gc < 5:
		tx.Gas, tx.GasClass = intrinsic+uint64(rapid.IntRange(1, 5000).Draw(t, "gassmall")), "small"
	case gc < 9:
		tx.Gas, tx.GasClass = intrinsic+params.ETXGas+params.TxGas+uint64(rapid.IntRange(0, 3000).Draw(t, "gasetx")), "around-etx"
	case gc < 15:
		tx.Gas, tx.GasClass = intrinsic+60_000, "60k"
	case gc < 24:
		tx.Gas, tx.GasClass = intrinsic+250_000, "250k"
	case gc < 34:
		tx.Gas, tx.GasClass = intrinsic+1_000_000, "1M"
	default:
		tx.Gas, tx.GasClass = 4_900_000, "5M"
		if tx.Gas < intrinsic {
			tx.Gas = intrinsic + 100000
		}
	}
	if isETX && rare(t, "etxgasbig", 3) {
		tx.Gas, tx.GasClass = env.GasLimit/params.MinimumEtxGasDivisor+1, "above-etx-max"
	}

	// nonce
	tx.Nonce, tx.NonceClass = 0, "ok"
	senderNonce := uint64(rapid.IntRange(0, 2).Draw(t, "sendernonce"))
	tx.Nonce = senderNonce
	if rare(t, "noncehigh", 2) {
		tx.Nonce, tx.NonceClass = senderNonce+1, "too-high"
	} else if senderNonce > 0 && rare(t, "noncelow", 3) {
		tx.Nonce, tx.NonceClass = senderNonce-1, "too-low"
	}

	// EOAs: the sender can afford the transaction unless the class says otherwise
	need := new(big.Int).Add(new(big.Int).Mul(new(big.Int).SetUint64(tx.Gas), price), tx.Value)
	for i, eoa := range u.EOAs {
		acc := AccountSpec{Addr: eoa.Addr}
		if i == tx.From && !isETX {
			acc.Nonce = senderNonce
			sb := rapid.IntRange(1, 29).Draw(t, "senderbal")
			if rare(t, "senderpoor", 2) {
				sb = 0
			}
			switch sb {
			case 0:
				acc.Balance = new(big.Int).Sub(need, big.NewInt(1))
				if acc.Balance.Sign() < 0 {
					acc.Balance = new(big.Int)
				}
			case 27, 28, 29:
				acc.Balance = new(big.Int).Set(need)
			case 22, 23, 24, 25, 26:
				acc.Balance = new(big.Int).Add(need, e(1, 18))
			default:
				acc.Balance = new(big.Int).Add(need, e(1, 24))
			}
		} else {
			if i >= 3 && i != tx.From && rapid.IntRange(0, 1).Draw(t, "eoaexists") == 0 {
				continue // this EOA does not exist in the pre-state
			}
			acc.Balance = pickBig(t, "ebal", big.NewInt(0), big.NewInt(1), e(1, 18), e(1, 21), new(big.Int).Lsh(big.NewInt(1), 64))
		}
		pre.Accounts = append(pre.Accounts, acc)
	}
	if rapid.IntRange(0, 9).Draw(t, "zerobal") == 0 {
		pre.Accounts = append(pre.Accounts, AccountSpec{Addr: u.Zero, Balance: e(3, 18)})
	}
	_ = toHints

	// mode
	c.Mode = opts.ForceMode
	if c.Mode == "" {
		// the enforced modes are what block processing does; the bypass mode (what Debug alone gives:
		// RPC tracing, eth_call) is kept as a minority because it reaches deeper nesting
		c.Mode = []string{ModeTracedEnforced, ModeTracedEnforced, ModeTracedBypass, ModeUntraced, ModeTracedEnforced, ModeTracedBypass, ModeTracedEnforced, ModeUntraced, ModeTracedBypass, ModeTracedEnforced}[rapid.IntRange(0, 9).Draw(t, "mode")]
	}
	c.Kinds = g.Kinds
	return c
}

// PredictCreateAddress reproduces evm.Create's address choice for a top-level creation.
func PredictCreateAddress(from common.Address, nonce uint64, code []byte, blockNumber uint64) (common.Address, bool) {
	a := crypto.CreateAddress(from, nonce, code, Loc)
	if _, err := a.InternalAndQuaiAddress(); err == nil {
		return a, true
	}
	words := (len(code) + 31) / 32
	cost := int64(params.Sha3Gas) + int64(words)*int64(params.Sha3WordGas)
	addr, _, err := vm.GrindContract(from, nonce, 1<<40, cost, crypto.Keccak256Hash(code), new(big.Int).SetUint64(blockNumber), Loc)
	if err != nil {
		return common.Address{}, false
	}
	return addr, true
}

// BuildTx materialises the transaction object of the case.
func (c *Case) BuildTx() (*types.Transaction, error) {
	tx := &c.Tx
	if tx.Kind == "etx" {
		inner := &types.ExternalTx{OriginatingTxHash: common.BytesToHash([]byte("verif-origin")), ETXIndex: 3, Gas: tx.Gas, To: tx.To, Value: new(big.Int).Set(tx.Value),
			Data: tx.Data, AccessList: tx.AccessList, Sender: tx.EtxSender, EtxType: tx.EtxType}
		tx.Tx = types.NewTx(inner)
		return tx.Tx, nil
	}
	inner := &types.QuaiTx{Nonce: tx.Nonce, GasPrice: new(big.Int).Set(tx.Price), Gas: tx.Gas, To: tx.To, Value: new(big.Int).Set(tx.Value), Data: tx.Data, AccessList: tx.AccessList}
	t, err := SignQuaiTx(tx.From, inner)
	if err != nil {
		return nil, err
	}
	tx.Tx = t
	return t, nil
}

// Outcome is everything the oracles look at.
type Outcome struct {
	World   *World
	Before  *Balances
	After   *Balances
	Res     *TxResult
	Tracer  *Tracer // nil in untraced mode
	Payer   *common.InternalAddress
	Refund  *big.Int // the state-rent refund of one self-destruct in this environment
	Created *common.Address
	Broken  string // non-empty: the post-state could not be hashed (e.g. a negative balance)
	// PartialBalances: Before/After hold only the fee payer (a step of a block run that did not walk
	// the account trie); oracles over the sum of balances do not apply
	PartialBalances bool
}

// Run builds the world, executes the transaction and snapshots balances before and after.
func (c *Case) Run() (*Outcome, error) {
	w, err := c.Pre.Build()
	if err != nil {
		return nil, err
	}
	tx, err := c.BuildTx()
	if err != nil {
		return nil, err
	}
	o := &Outcome{World: w}
	if o.Before, err = Snapshot(w.SDB); err != nil {
		return nil, err
	}
	cfg := vm.Config{}
	if c.Mode != ModeUntraced {
		o.Tracer = NewTracer()
		o.Tracer.EnforceAccessList = c.Mode == ModeTracedEnforced
		cfg = vm.Config{Debug: true, Tracer: o.Tracer}
	}
	o.Res = c.Env.ApplyTx(w, tx, 0, cfg)
	if o.After, err = Snapshot(w.SDB); err != nil {
		if be, ok := err.(*BrokenStateError); ok {
			o.Broken = be.Msg // for the oracles: a state that cannot be hashed is a finding, not a harness problem
			o.After = &Balances{ByAddr: map[common.InternalAddress]*big.Int{}, Sum: new(big.Int)}
		} else {
			return nil, err
		}
	}
	if c.Tx.Kind == "quai" {
		in, err := U().EOAs[c.Tx.From].Addr.InternalAndQuaiAddress()
		if err != nil {
			return nil, err
		}
		o.Payer = &in
	}
	o.Refund = new(big.Int).Mul(c.Env.BaseFee, new(big.Int).SetUint64(params.CallNewAccountGas(c.Env.QuaiStateSize)))
	return o, nil
}

// Signature is a structural description of a case: sorted multiset of block kinds plus outcome.
func Signature(kinds []string, extra ...string) string {
	m := map[string]int{}
	for _, k := range kinds {
		m[k]++
	}
	keys := make([]string, 0, len(m))
	for k := range m {
		keys = append(keys, k)
	}
	sort.Strings(keys)
	var sb strings.Builder
	for _, k := range keys {
		fmt.Fprintf(&sb, "%s*%d,", k, m[k])
	}
	sb.WriteString("|")
	sb.WriteString(strings.Join(extra, "|"))
	return sb.String()
}
