package evmgen

import (
	"fmt"
	"math/big"

	"github.com/dominant-strategies/go-quai/common"
	"github.com/dominant-strategies/go-quai/consensus"
	"github.com/dominant-strategies/go-quai/core"
	"github.com/dominant-strategies/go-quai/core/types"
	"github.com/dominant-strategies/go-quai/core/vm"
	"github.com/dominant-strategies/go-quai/params"
)

// ChainID used for the signer of generated transactions.
var ChainID = big.NewInt(1337)

// ChainConfig is the configuration handed to the EVM and the state transition.
func ChainConfig() *params.ChainConfig {
	return &params.ChainConfig{ChainID: new(big.Int).Set(ChainID), Location: Loc}
}

// Env is the generated block environment. PrimeTerminusNumber selects the fork regime consulted
// by the ETX/CONVERT opcodes, the lockup revert rule, the self-destruct refund rule and the
// conversion gates; BlockNumber selects the zone-height gated rules (new opcodes, code size,
// lockup epochs).
type Env struct {
	BlockNumber         uint64
	PrimeTerminusNumber uint64
	BaseFee             *big.Int
	GasLimit            uint64
	Time                uint64
	QuaiStateSize       *big.Int
	Eligible            common.Hash // bit (region*16+zone) set = that slice accepts ETXs
	Coinbase            common.Address
}

func (e *Env) Dump() map[string]any {
	return map[string]any{"block_number": e.BlockNumber, "prime_terminus_number": e.PrimeTerminusNumber, "regime": RegimeName(e.PrimeTerminusNumber),
		"base_fee": e.BaseFee.String(), "gas_limit": e.GasLimit, "time": e.Time, "quai_state_size": e.QuaiStateSize.String(),
		"eligible_slices": e.Eligible.Hex()}
}

// IsEligible mirrors HeaderChain.CheckIfEtxIsEligible.
func IsEligible(mask common.Hash, to common.Location) bool {
	position := to.Region()*16 + to.Zone()
	return mask[position/8]&(1<<uint(position%8)) != 0
}

// EligibleMask builds a mask from a list of locations.
func EligibleMask(locs ...common.Location) common.Hash {
	var m common.Hash
	for _, l := range locs {
		p := l.Region()*16 + l.Zone()
		m[p/8] |= 1 << uint(p%8)
	}
	return m
}

// Regimes lists prime-terminus numbers on both sides of every fork the EVM layer consults.
var Regimes = []uint64{
	100,                               // before the controller kick-in: conversions refused
	params.ControllerKickInBlock + 10, // conversions allowed, pre everything else
	params.KawPowForkBlock + 5,        // conversion hold interval after KawPow
	params.KawPowForkBlock + params.KQuaiChangeHoldInterval + 5,
	params.ShaEquivalentDifficultyForkBlock - 1, // last block with the un-reverted lockup error path
	params.ShaEquivalentDifficultyForkBlock + 5, // hold interval, lockup errors reverted
	params.ShaEquivalentDifficultyForkBlock + params.KQuaiChangeHoldInterval + 5,
	params.SelfDestructRefundForkBlock - 1, // legacy ETX/CONVERT arithmetic, refund on every self-destruct
	params.SelfDestructRefundForkBlock,     // checked arithmetic, once-only refund
	params.SelfDestructRefundForkBlock + 500000,
}

// RegimeName names the fork regime of a prime terminus number.
func RegimeName(ptn uint64) string {
	switch {
	case ptn < params.ControllerKickInBlock:
		return "pre-controller"
	case ptn < params.KawPowForkBlock:
		return "pre-kawpow"
	case ptn < params.KawPowForkBlock+params.KQuaiChangeHoldInterval:
		return "kawpow-hold"
	case ptn < params.ShaEquivalentDifficultyForkBlock:
		return "pre-sha-fork"
	case ptn < params.ShaEquivalentDifficultyForkBlock+params.KQuaiChangeHoldInterval:
		return "sha-hold"
	case ptn < params.SelfDestructRefundForkBlock:
		return "pre-selfdestruct-fork"
	default:
		return "post-selfdestruct-fork"
	}
}

// PostArithFork reports whether ETX/CONVERT use the overflow-checked arithmetic.
func PostArithFork(ptn uint64) bool { return ptn >= params.SelfDestructRefundForkBlock }

// ConversionOpen reports whether CONVERT / a value call to an in-zone Qi address is admitted by
// the fork gates at this prime terminus number.
func ConversionOpen(ptn uint64) bool {
	if ptn < params.ControllerKickInBlock {
		return false
	}
	if ptn >= params.KawPowForkBlock && ptn < params.KawPowForkBlock+params.KQuaiChangeHoldInterval {
		return false
	}
	if ptn >= params.ShaEquivalentDifficultyForkBlock && ptn < params.ShaEquivalentDifficultyForkBlock+params.KQuaiChangeHoldInterval {
		return false
	}
	return true
}

// stubChain is the minimal core.ChainContext that NewEVMBlockContext consults.
type stubChain struct {
	parent *types.WorkObject
}

func (c *stubChain) Engine(*types.WorkObjectHeader) consensus.Engine { return nil }
func (c *stubChain) GetHeaderOrCandidateByHash(h common.Hash) *types.WorkObject {
	if h == c.parent.Hash() {
		return c.parent
	}
	return nil
}
func (c *stubChain) NodeCtx() int                   { return common.ZONE_CTX }
func (c *stubChain) IsGenesisHash(common.Hash) bool { return false }
func (c *stubChain) GetHeaderByHash(h common.Hash) *types.WorkObject {
	return c.GetHeaderOrCandidateByHash(h)
}
func (c *stubChain) GetBlockByHash(h common.Hash) *types.WorkObject {
	return c.GetHeaderOrCandidateByHash(h)
}
func (c *stubChain) CheckIfEtxIsEligible(mask common.Hash, to common.Location) bool {
	return IsEligible(mask, to)
}
func (c *stubChain) CheckInCalcOrderCache(common.Hash) (*big.Int, int, bool) { return nil, 0, false }
func (c *stubChain) AddToCalcOrderCache(common.Hash, int, *big.Int)          {}
func (c *stubChain) CalcBaseFee(*types.WorkObject) *big.Int                  { return big.NewInt(0) }

// CalcOrder says the parent is a prime block, so that the parent itself is the prime terminus
// whose EtxEligibleSlices the block context uses.
func (c *stubChain) CalcOrder(*types.WorkObject) (*big.Int, int, error) {
	return big.NewInt(0), common.PRIME_CTX, nil
}

// Headers builds the (header, parent) pair realising env.
func (e *Env) Headers() (*types.WorkObject, *types.WorkObject) {
	parent := types.EmptyWorkObject(common.ZONE_CTX)
	parent.WorkObjectHeader().SetLocation(Loc)
	if e.BlockNumber > 0 {
		parent.SetNumber(new(big.Int).SetUint64(e.BlockNumber-1), common.ZONE_CTX)
		parent.WorkObjectHeader().SetNumber(new(big.Int).SetUint64(e.BlockNumber - 1))
	}
	parent.WorkObjectHeader().SetTime(e.Time)
	parent.Header().SetQuaiStateSize(new(big.Int).Set(e.QuaiStateSize))
	parent.Header().SetEtxEligibleSlices(e.Eligible)
	parent.WorkObjectHeader().SetPrimaryCoinbase(e.Coinbase)

	h := types.EmptyWorkObject(common.ZONE_CTX)
	h.WorkObjectHeader().SetLocation(Loc)
	h.SetNumber(new(big.Int).SetUint64(e.BlockNumber), common.ZONE_CTX)
	h.WorkObjectHeader().SetNumber(new(big.Int).SetUint64(e.BlockNumber))
	h.SetParentHash(parent.Hash(), common.ZONE_CTX)
	h.WorkObjectHeader().SetParentHash(parent.Hash())
	h.WorkObjectHeader().SetPrimeTerminusNumber(new(big.Int).SetUint64(e.PrimeTerminusNumber))
	h.WorkObjectHeader().SetTime(e.Time + 5)
	h.WorkObjectHeader().SetDifficulty(big.NewInt(1000))
	h.WorkObjectHeader().SetPrimaryCoinbase(e.Coinbase)
	h.Header().SetBaseFee(new(big.Int).Set(e.BaseFee))
	h.Header().SetGasLimit(e.GasLimit)
	h.Header().SetPrimeTerminusHash(parent.Hash())
	return h, parent
}

// BlockContext builds the vm.BlockContext exactly as core.NewEVMBlockContext does for env.
func (e *Env) BlockContext() (vm.BlockContext, error) {
	h, parent := e.Headers()
	return core.NewEVMBlockContext(h, parent, &stubChain{parent}, nil)
}

// NewEVM creates an EVM over the world for direct evm.Call / evm.Create use.
func (e *Env) NewEVM(w *World, txctx vm.TxContext, cfg vm.Config) (*vm.EVM, error) {
	bc, err := e.BlockContext()
	if err != nil {
		return nil, err
	}
	return vm.NewEVM(bc, txctx, w.SDB, ChainConfig(), cfg, w.Batch), nil
}

// TxResult is what ApplyTx returns.
type TxResult struct {
	Receipt  *types.Receipt
	Fees     *big.Int
	Err      error // consensus error: the transaction is not includable
	UsedGas  uint64
	GasPool  uint64 // gas left in the block pool
	EtxRLeft uint64
	EtxPLeft uint64
}

// ApplyTx runs one transaction through the exported core.ApplyTransaction, as the worker does
// (statedb.Prepare, then ApplyTransaction with the block batch).
func (e *Env) ApplyTx(w *World, tx *types.Transaction, txIndex int, cfg vm.Config) *TxResult {
	h, parent := e.Headers()
	gp := new(types.GasPool).AddGas(e.GasLimit)
	var usedGas, usedState uint64
	etxR, etxP := e.GasLimit, e.GasLimit
	w.SDB.Prepare(tx.Hash(), txIndex)
	receipt, fees, err := core.ApplyTransaction(ChainConfig(), parent, common.PRIME_CTX, &stubChain{parent}, nil, gp, w.SDB, h, tx, &usedGas, &usedState, cfg, &etxR, &etxP, w.Batch, Logger)
	return &TxResult{Receipt: receipt, Fees: fees, Err: err, UsedGas: usedGas, GasPool: gp.Gas(), EtxRLeft: etxR, EtxPLeft: etxP}
}

// ApplyMsg runs a message through core.ApplyMessage on a fresh EVM (no receipt, no ETX staging).
func (e *Env) ApplyMsg(w *World, msg types.Message, cfg vm.Config) (*core.ExecutionResult, *vm.EVM, error) {
	bc, err := e.BlockContext()
	if err != nil {
		return nil, nil, err
	}
	evm := vm.NewEVM(bc, core.NewEVMTxContext(msg), w.SDB, ChainConfig(), cfg, w.Batch)
	gp := new(types.GasPool).AddGas(e.GasLimit)
	res, err := core.ApplyMessage(evm, msg, gp)
	return res, evm, err
}

// Signer returns the signer for generated transactions.
func Signer() types.Signer { return types.NewSigner(ChainID, Loc) }

// SignQuaiTx builds and signs a Quai transaction from EOA number `from` of the universe.
func SignQuaiTx(from int, inner *types.QuaiTx) (*types.Transaction, error) {
	inner.ChainID = new(big.Int).Set(ChainID)
	tx, err := types.SignNewTx(U().EOAs[from].Key, Signer(), inner)
	if err != nil {
		return nil, fmt.Errorf("sign: %v", err)
	}
	return tx, nil
}
