package evmgen

// Structured "frames" cases: a chain of contracts 0 -> 1 -> ... -> depth, each running a generated
// body of value-moving effects whose operands are computed at run time from the executing
// account's balance (so that they are fundable in whatever context the code runs, e.g. under
// DELEGATECALL), nested frames of every kind whose result the caller ignores, and an ending that
// succeeds, fails, or self-destructs. Compared with the grammar of gen.go this generator is dense
// in the situations the frame-related properties are about: an effect inside a nested frame that
// is rolled back (or not) while the enclosing frames / the transaction succeed (or not).

import (
	"fmt"
	"math/big"

	"github.com/dominant-strategies/go-quai/common"
	"github.com/dominant-strategies/go-quai/core"
	"github.com/dominant-strategies/go-quai/core/types"
	"github.com/dominant-strategies/go-quai/core/vm"
	"github.com/dominant-strategies/go-quai/params"
	"pgregory.net/rapid"
)

// FramesOpts selects the effects and shape of GenFrames.
type FramesOpts struct {
	// Effects: any of "convert", "etx", "transfer", "sstore", "log", "tstore", "selfdestruct" (as an ending)
	Effects      []string
	MaxDepth     int // 1..3 nested contracts below contract 0 (default 3)
	FailPctTop   int // percentage of top-level bodies that end in a failure (default 8)
	FailPctInner int // same for nested bodies (default 45)
	PreferRegime func(ptn uint64) bool
	Modes        []string // default: enforced, untraced, bypass
}

type framesGen struct {
	t       *rapid.T
	o       FramesOpts
	env     *Env
	kinds   []string
	inits   [][]byte
	effects map[string]bool
}

func (g *framesGen) kind(format string, args ...any) {
	g.kinds = append(g.kinds, fmt.Sprintf(format, args...))
}

// dynValue pushes balance(self)/k.
func dynValue(a *Asm, k uint64) { a.Push(k).Op(vm.ADDRESS, vm.BALANCE, vm.DIV) }

func (g *framesGen) body(a *Asm, level, maxLevel int, failPct int, tag string) {
	u := U()
	t := g.t
	n := rapid.IntRange(1, 3).Draw(t, tag+"steps")
	var eff []string
	for _, e := range []string{"convert", "etx", "transfer", "sstore", "log", "tstore"} {
		if g.effects[e] {
			eff = append(eff, e)
		}
	}
	for i := 0; i < n; i++ {
		lbl := fmt.Sprintf("%s.%d", tag, i)
		choice := rapid.IntRange(0, 9).Draw(t, lbl+"kind")
		if choice >= 5 && choice < 9 && level < maxLevel {
			ops := []vm.OpCode{vm.CALL, vm.DELEGATECALL, vm.CALLCODE, vm.STATICCALL, vm.CREATE, vm.DELEGATECALL, vm.CALL, vm.CREATE2}
			op := ops[rapid.IntRange(0, len(ops)-1).Draw(t, lbl+"op")]
			g.kind("L%d:%s", level, op)
			if op == vm.CREATE || op == vm.CREATE2 {
				init := NewAsm()
				g.body(init, level+1, maxLevel, failPct, lbl+"i")
				code := init.Assemble().Code
				g.inits = append(g.inits, code)
				a.DataToMem(a.Data(code, "init"), 0)
				if op == vm.CREATE2 {
					a.Push(uint64(rapid.IntRange(0, 3).Draw(t, lbl+"salt")))
				}
				a.Push(uint64(len(code))).Push(0)
				dynValue(a, 3) // endowment
				a.Op(op, vm.POP)
				continue
			}
			a.Push(0).Push(0).Push(0).Push(0)
			if op == vm.CALL || op == vm.CALLCODE {
				if rapid.Bool().Draw(t, lbl+"val") {
					dynValue(a, 4) // fund the callee
				} else {
					a.Push(0)
				}
			}
			a.PushAddr(u.Contracts[level+1])
			if rapid.IntRange(0, 5).Draw(t, lbl+"gas") == 0 {
				a.Push(uint64(rapid.SampledFrom([]int{0, 2300, 30000, 60000}).Draw(t, lbl+"gasv")))
			} else {
				a.Op(vm.GAS)
			}
			a.Op(op, vm.POP)
			continue
		}
		if len(eff) == 0 {
			continue
		}
		e := eff[rapid.IntRange(0, len(eff)-1).Draw(t, lbl+"eff")]
		k := uint64(rapid.IntRange(2, 9).Draw(t, lbl+"k"))
		switch e {
		case "convert":
			lim := []uint64{params.TxGas, params.TxGas, 100000, params.TxGas - 1}[rapid.IntRange(0, 3).Draw(t, lbl+"lim")]
			dest := u.InZoneQi[rapid.IntRange(0, len(u.InZoneQi)-1).Draw(t, lbl+"dest")]
			g.kind("L%d:CONVERT", level)
			a.Push(lim)
			dynValue(a, k)
			a.PushAddr(dest).Push(0).Op(vm.CONVERT, vm.POP)
		case "etx":
			// ETX(temp, dest, value, gasLimit, tip, cap, dataOff, dataSize, alOff, alSize)
			var dest common.Address
			for _, d := range u.ForeignQuai {
				if IsEligible(g.env.Eligible, *d.Location()) {
					dest = d
				}
			}
			if dest == (common.Address{}) || rapid.IntRange(0, 5).Draw(t, lbl+"inelig") == 0 {
				dest = u.ForeignQuai[rapid.IntRange(0, len(u.ForeignQuai)-1).Draw(t, lbl+"fd")]
			}
			tip, cp := uint64(rapid.IntRange(0, 1).Draw(t, lbl+"tip")), uint64(rapid.IntRange(0, 2).Draw(t, lbl+"cap"))
			g.kind("L%d:ETX", level)
			a.Push(0).Push(0).Push(0).Push(0)
			a.Push(cp).Push(tip).Push(params.TxGas)
			dynValue(a, k)
			a.PushAddr(dest).Push(0).Op(vm.ETX, vm.POP)
		case "transfer":
			to := []common.Address{u.EOAs[1].Addr, u.EOAs[2].Addr, u.NonExistent[0], u.Contracts[0]}[rapid.IntRange(0, 3).Draw(t, lbl+"to")]
			g.kind("L%d:TRANSFER", level)
			a.Push(0).Push(0).Push(0).Push(0)
			dynValue(a, k)
			a.PushAddr(to).Op(vm.GAS, vm.CALL, vm.POP)
		case "log":
			g.kind("L%d:LOG1", level)
			a.Push(k).Push(32).Push(0).Op(vm.LOG1)
		case "tstore":
			g.kind("L%d:TSTORE", level)
			a.Push(k).Push(uint64(rapid.IntRange(0, 3).Draw(t, lbl+"tk"))).Op(vm.TSTORE)
		default:
			g.kind("L%d:SSTORE", level)
			a.Push(uint64(rapid.IntRange(1, 9).Draw(t, lbl+"sv"))).Push(uint64(rapid.IntRange(0, 3).Draw(t, lbl+"sk"))).Op(vm.SSTORE)
		}
	}
	if rapid.IntRange(0, 99).Draw(t, tag+"fail") < failPct {
		switch rapid.IntRange(0, 4).Draw(t, tag+"failkind") {
		case 0, 1:
			g.kind("L%d:end=REVERT", level)
			a.Push(0).Push(0).Op(vm.REVERT)
		case 2:
			g.kind("L%d:end=INVALID", level)
			a.Op(vm.OpCode(0xfe))
		case 3:
			g.kind("L%d:end=UNDERFLOW", level)
			a.Op(vm.POP, vm.POP, vm.POP, vm.POP, vm.POP, vm.POP, vm.POP, vm.POP)
		default:
			g.kind("L%d:end=OOG", level)
			a.Push(1 << 30).Op(vm.MLOAD)
		}
		return
	}
	if g.effects["selfdestruct"] && rapid.IntRange(0, 3).Draw(t, tag+"sd") == 0 {
		ben := []common.Address{u.EOAs[1].Addr, u.Contracts[level], u.NonExistent[1], u.Contracts[0], u.EOAs[2].Addr}[rapid.IntRange(0, 4).Draw(t, tag+"ben")]
		g.kind("L%d:end=SELFDESTRUCT>%s", level, u.Name(ben))
		a.PushAddr(ben).Op(vm.SELFDESTRUCT)
		return
	}
	g.kind("L%d:end=STOP", level)
	a.Op(vm.STOP)
}

// GenFrames draws a structured frames case: the transaction (from the clean EOA 4) calls
// contract 0.
func GenFrames(t *rapid.T, o FramesOpts) *Case {
	u := U()
	if o.MaxDepth == 0 {
		o.MaxDepth = 3
	}
	if o.FailPctTop == 0 {
		o.FailPctTop = 8
	}
	if o.FailPctInner == 0 {
		o.FailPctInner = 45
	}
	if len(o.Modes) == 0 {
		o.Modes = []string{ModeTracedEnforced, ModeUntraced, ModeTracedBypass}
	}
	ptn := Regimes[rapid.IntRange(0, len(Regimes)-1).Draw(t, "regime")]
	if o.PreferRegime != nil && rapid.IntRange(0, 3).Draw(t, "prefer") > 0 {
		var ok []uint64
		for _, r := range Regimes {
			if o.PreferRegime(r) {
				ok = append(ok, r)
			}
		}
		if len(ok) > 0 {
			ptn = ok[rapid.IntRange(0, len(ok)-1).Draw(t, "regime2")]
		}
	}
	price := []*big.Int{big.NewInt(1), big.NewInt(7), big.NewInt(1_000_000_000)}[rapid.IntRange(0, 2).Draw(t, "price")]
	var locs []common.Location
	for _, a := range u.ForeignQuai {
		if rapid.IntRange(0, 9).Draw(t, "elig") < 8 {
			locs = append(locs, *a.Location())
		}
	}
	env := &Env{BlockNumber: []uint64{120000, params.MaxCodeSizeForkHeight + 10, 4000000}[rapid.IntRange(0, 2).Draw(t, "bn")], PrimeTerminusNumber: ptn, BaseFee: new(big.Int).Set(price),
		GasLimit: 12_000_000, Time: 1_700_000_000, QuaiStateSize: []*big.Int{big.NewInt(1_000_000), big.NewInt(0), e(5, 9)}[rapid.IntRange(0, 2).Draw(t, "statesize")],
		Eligible: EligibleMask(locs...), Coinbase: u.EOAs[0].Addr}
	maxLevel := rapid.IntRange(1, o.MaxDepth).Draw(t, "depth")
	g := &framesGen{t: t, o: o, env: env, effects: map[string]bool{}}
	for _, ef := range o.Effects {
		g.effects[ef] = true
	}
	pre := &PreState{}
	for lvl := 0; lvl <= maxLevel; lvl++ {
		a := NewAsm()
		fail := o.FailPctInner
		if lvl == 0 {
			fail = o.FailPctTop
		}
		g.body(a, lvl, maxLevel, fail, fmt.Sprintf("c%d", lvl))
		p := a.Assemble()
		bal := []*big.Int{e(1, 21), e(1, 21), e(1, 24), big.NewInt(0), new(big.Int).Lsh(big.NewInt(1), 64)}[rapid.IntRange(0, 4).Draw(t, fmt.Sprintf("bal%d", lvl))]
		acc := AccountSpec{Addr: u.Contracts[lvl], Balance: bal, Nonce: 1, Code: &p}
		if rapid.IntRange(0, 2).Draw(t, fmt.Sprintf("st%d", lvl)) == 0 {
			acc.Storage = map[common.Hash]common.Hash{common.BigToHash(big.NewInt(int64(rapid.IntRange(0, 3).Draw(t, fmt.Sprintf("ss%d", lvl))))): common.BigToHash(big.NewInt(7))}
		}
		pre.Accounts = append(pre.Accounts, acc)
	}
	pre.Accounts = append(pre.Accounts,
		AccountSpec{Addr: u.EOAs[1].Addr, Balance: big.NewInt(12345)},
		AccountSpec{Addr: u.EOAs[4].Addr, Balance: e(1, 26)})
	to := u.Contracts[0]
	mode := o.Modes[rapid.IntRange(0, len(o.Modes)-1).Draw(t, "mode")]
	c := &Case{Env: env, Pre: pre, Mode: mode, CleanFrom: true, Kinds: g.kinds,
		Tx: TxSpec{Kind: "quai", From: 4, To: &to, ToClass: "contract", Gas: uint64(rapid.SampledFrom([]int{300000, 2000000, 4900000}).Draw(t, "gas")), GasClass: "frames", Price: price, PriceClass: "basefee",
			Value: new(big.Int), ALClass: "complete"}}
	// access lists are enforced in block processing: name everything the bodies can touch, and
	// (best effort) the addresses their CREATE / CREATE2 frames deploy to
	c.Tx.AccessList = completeAccessList()
	seen := map[common.AddressBytes]bool{}
	for _, code := range g.inits {
		for lvl := 0; lvl <= maxLevel; lvl++ {
			for nonce := uint64(1); nonce <= 2; nonce++ {
				if addr, ok := PredictCreateAddress(u.Contracts[lvl], nonce, code, env.BlockNumber); ok && !seen[addr.Bytes20()] {
					seen[addr.Bytes20()] = true
					c.Tx.AccessList = append(c.Tx.AccessList, types.AccessTuple{Address: addr, StorageKeys: []common.Hash{{}, common.BigToHash(big.NewInt(1)), common.BigToHash(big.NewInt(2)), common.BigToHash(big.NewInt(3))}})
				}
			}
		}
	}
	// the access list costs intrinsic gas: the budget always leaves room for execution
	if intrinsic, err := core.IntrinsicGas(c.Tx.Data, c.Tx.AccessList, false); err == nil && c.Tx.Gas < intrinsic+250_000 {
		c.Tx.Gas = intrinsic + 250_000
	}
	return c
}
