//go:build verif

package evmgen

import (
	"fmt"
	"math/big"
	"strings"
	"time"

	"github.com/dominant-strategies/go-quai/common"
	"github.com/dominant-strategies/go-quai/core"
	"github.com/dominant-strategies/go-quai/core/types"
	"github.com/dominant-strategies/go-quai/core/vm"
	"github.com/dominant-strategies/go-quai/crypto"
	"github.com/dominant-strategies/go-quai/params"
	"pgregory.net/rapid"
)

// Block mode: several transactions executed in ONE block on a shared StateDB, in the two
// configurations the node uses:
//
//   - "worker": what the miner does while assembling a block (worker.commitTransaction): snapshot,
//     core.ApplyTransaction (a fresh vm.EVM per transaction), revert + skip on a consensus error;
//   - "process": what every validator does (StateProcessor.Process): ONE vm.EVM for the whole
//     block, statedb.Prepare + applyTransaction per transaction, an error invalidates the block.
//
// State survives from one transaction to the next (cached state objects of deleted accounts, the
// EVM's ETX cache, the gas pool, the ETX gas budgets), which single-transaction cases cannot see.

// BlockRoles names the special-purpose contracts a block case plants in its pre-state.
type BlockRoles struct {
	Victim       common.Address // code: SELFDESTRUCT to VictimBen
	VictimBen    common.Address
	Payer        common.Address // code: CALL Victim (kills it), then CALL Victim with value, STOP
	Factory      common.Address // code: CREATE2(endowment, init, salt) -> Child; the child's runtime self-destructs to ChildBen
	Child        common.Address
	ChildBen     common.Address
	FactoryValue *big.Int
	Emitter      common.Address // code: one ETX of 1000 wei to an eligible foreign address (when there is one), STOP
}

// BlockCase is a generated block.
type BlockCase struct {
	Env       *Env
	Pre       *PreState
	Roles     BlockRoles
	Txs       []*TxSpec // nonces (and the created address in the access list) are filled in at execution time, as a pool would
	Kinds     []string
	PerTxWalk bool // the worker-configuration run walks the account trie between transactions
}

func (b *BlockCase) Dump() map[string]any {
	u := U()
	txs := []any{}
	for i, tx := range b.Txs {
		m := map[string]any{"i": i, "kind": tx.Kind, "class": tx.DataNote, "to_class": tx.ToClass, "gas": tx.Gas, "value": tx.Value.String(), "data": fmt.Sprintf("%x", trunc(tx.Data, 2048))}
		if tx.To != nil {
			m["to"] = u.Name(*tx.To) + " " + tx.To.Hex()
		}
		if tx.Kind == "quai" {
			m["from"] = fmt.Sprintf("eoa%d", tx.From)
			m["nonce"] = tx.Nonce
			m["price"] = tx.Price.String()
		} else {
			m["etx_type"] = tx.EtxType
		}
		txs = append(txs, m)
	}
	return map[string]any{"env": b.Env.Dump(), "pre": b.Pre.Dump(), "txs": txs, "per_tx_walk": b.PerTxWalk,
		"roles": map[string]string{"victim": b.Roles.Victim.Hex(), "victim_beneficiary": u.Name(b.Roles.VictimBen), "payer": b.Roles.Payer.Hex(), "factory": b.Roles.Factory.Hex(),
			"child": b.Roles.Child.Hex(), "child_beneficiary": u.Name(b.Roles.ChildBen), "emitter": b.Roles.Emitter.Hex()}}
}

// selfdestructCode is PUSH20 ben; SELFDESTRUCT.
func selfdestructCode(ben common.Address) Program {
	a := NewAsm()
	a.PushAddr(ben).Op(vm.SELFDESTRUCT)
	return a.Assemble()
}

// emittingInit assembles creation code that optionally sends value off-chain and then returns
// `size` zero bytes as runtime code (size large => code-store out of gas).
func emittingInit(env *Env, emit string, value *big.Int, size uint64) []byte {
	u := U()
	a := NewAsm()
	switch emit {
	case "ETX":
		dest := u.ForeignQuai[0]
		for _, f := range u.ForeignQuai {
			if IsEligible(env.Eligible, *f.Location()) {
				dest = f
			}
		}
		a.Push(0).Push(0).Push(0).Push(0).Push(0).Push(0).Push(params.TxGas).PushBig(value).PushAddr(dest).Push(0).Op(vm.ETX, vm.POP)
	case "CONVERT":
		a.Push(params.TxGas).PushBig(value).PushAddr(u.InZoneQi[0]).Push(0).Op(vm.CONVERT, vm.POP)
	case "EXTCALL":
		// a value CALL to an out-of-scope address (dies in the gas function: the creation fails and reverts)
		a.Push(0).Push(0).Push(0).Push(0).PushBig(value).PushAddr(u.ForeignQuai[0]).Push(60000).Op(vm.CALL, vm.POP)
	case "SSTORE":
		a.Push(7).Push(0).Op(vm.SSTORE)
	}
	a.Push(size).Push(0).Op(vm.RETURN)
	return a.Assemble().Code
}

// GenBlock draws a block case.
func GenBlock(t *rapid.T, cfg GenCfg) *BlockCase {
	u := U()
	b := &BlockCase{Env: GenEnv(t)}
	env := b.Env
	if env.GasLimit < 12_000_000 {
		env.GasLimit = 12_000_000
	}
	// the role contracts that export (emitter, emitting init code) need an eligible destination
	anyEligible := false
	for _, f := range u.ForeignQuai {
		anyEligible = anyEligible || IsEligible(env.Eligible, *f.Location())
	}
	if !anyEligible {
		l := *u.ForeignQuai[0].Location()
		p := l.Region()*16 + l.Zone()
		env.Eligible[p/8] |= 1 << uint(p%8)
	}
	price := new(big.Int).Set(env.BaseFee)
	g := &ProgGen{T: t, Env: env, Price: price, Cfg: cfg}
	pre := &PreState{}
	b.Pre = pre
	b.PerTxWalk = rapid.IntRange(0, 3).Draw(t, "pertxwalk") != 3

	// ---- generated contracts 0 and 1 -------------------------------------------------------------
	hints := []*Hints{}
	for i := 0; i < 1; i++ {
		h := &Hints{Self: u.Contracts[i], Balance: pickBig(t, "cbal", e(1, 21), e(1, 24), e(1, 19), big.NewInt(0))}
		hints = append(hints, h)
	}
	for _, h := range hints {
		p := g.Program(h)
		pre.Accounts = append(pre.Accounts, AccountSpec{Addr: h.Self, Balance: h.Balance, Nonce: 1, Code: &p})
	}
	// ---- role contracts --------------------------------------------------------------------------
	r := &b.Roles
	r.Victim, r.Payer, r.Factory, r.Emitter = u.Contracts[2], u.Contracts[3], u.Contracts[4], u.Contracts[1]
	{
		ea := NewAsm()
		dest := u.ForeignQuai[0]
		for _, f := range u.ForeignQuai {
			if IsEligible(env.Eligible, *f.Location()) {
				dest = f
			}
		}
		ea.Push(0).Push(0).Push(0).Push(0).Push(0).Push(0).Push(params.TxGas).Push(1000).PushAddr(dest).Push(0).Op(vm.ETX, vm.POP, vm.STOP)
		p := ea.Assemble()
		pre.Accounts = append(pre.Accounts, AccountSpec{Addr: r.Emitter, Balance: e(1, 18), Nonce: 1, Code: &p})
	}
	bens := []common.Address{r.Victim, u.EOAs[1].Addr, u.NonExistent[0], u.EOAs[3].Addr}
	r.VictimBen = bens[rapid.IntRange(0, len(bens)-1).Draw(t, "victimben")]
	vcode := selfdestructCode(r.VictimBen)
	vacc := AccountSpec{Addr: r.Victim, Balance: pickBig(t, "vbal", e(5, 18), big.NewInt(0), big.NewInt(12345)), Nonce: 1, Code: &vcode}
	if rapid.IntRange(0, 1).Draw(t, "vstorage") == 0 {
		vacc.Storage = map[common.Hash]common.Hash{common.BigToHash(big.NewInt(1)): common.BigToHash(big.NewInt(9))}
	}
	pre.Accounts = append(pre.Accounts, vacc)
	payValue := pickBig(t, "payvalue", e(3, 18), big.NewInt(1), big.NewInt(777))
	{
		a := NewAsm()
		order := rapid.IntRange(0, 2).Draw(t, "payorder")
		kill := func() { a.Push(0).Push(0).Push(0).Push(0).Push(0).PushAddr(r.Victim).Op(vm.GAS, vm.CALL, vm.POP) }
		pay := func() {
			a.Push(0).Push(0).Push(0).Push(0).PushBig(payValue).PushAddr(r.Victim).Op(vm.GAS, vm.CALL, vm.POP)
		}
		switch order {
		case 0, 1: // SELFDESTRUCT, then a value CALL to the dead contract in the same transaction
			kill()
			pay()
		default:
			pay()
			kill()
		}
		a.Op(vm.STOP)
		p := a.Assemble()
		pre.Accounts = append(pre.Accounts, AccountSpec{Addr: r.Payer, Balance: e(1, 21), Nonce: 1, Code: &p})
	}
	r.ChildBen = []common.Address{u.EOAs[2].Addr, u.NonExistent[1]}[rapid.IntRange(0, 1).Draw(t, "childben")]
	r.FactoryValue = pickBig(t, "factoryvalue", e(2, 18), big.NewInt(0), big.NewInt(4242))
	{
		rt := selfdestructCode(r.ChildBen)
		childSelf := rapid.IntRange(0, 2).Draw(t, "childself") == 0
		ia := NewAsm()
		if childSelf {
			// the child sends its balance to itself when it dies: PUSH ADDRESS; SELFDESTRUCT
			rta := NewAsm()
			rta.Op(vm.ADDRESS, vm.SELFDESTRUCT)
			rt = rta.Assemble()
			r.ChildBen = r.Factory // placeholder name; the real beneficiary is the child itself
		}
		ia.DataToMem(ia.Data(rt.Code, "runtime"), 0)
		ia.Push(uint64(len(rt.Code))).Push(0).Op(vm.RETURN)
		init := ia.Assemble().Code
		ch := crypto.Keccak256(init)
		salt := int64(0)
		for i := int64(0); i < 200000; i++ {
			var s [32]byte
			big.NewInt(i).FillBytes(s[:])
			addr := crypto.CreateAddress2(r.Factory, s, ch, Loc)
			if _, err := addr.InternalAndQuaiAddress(); err == nil {
				salt, r.Child = i, addr
				break
			}
		}
		if childSelf {
			r.ChildBen = r.Child
		}
		fa := NewAsm()
		fa.DataToMem(fa.Data(init, "child init"), 0)
		fa.Push(uint64(salt)).Push(uint64(len(init))).Push(0).PushBig(r.FactoryValue).Op(vm.CREATE2, vm.POP, vm.STOP)
		p := fa.Assemble()
		pre.Accounts = append(pre.Accounts, AccountSpec{Addr: r.Factory, Balance: e(1, 21), Nonce: 1, Code: &p})
	}
	for i, eoa := range u.EOAs {
		bal := e(1, 24)
		if i == 3 && rapid.IntRange(0, 1).Draw(t, "eoa3") == 0 {
			continue // absent
		}
		pre.Accounts = append(pre.Accounts, AccountSpec{Addr: eoa.Addr, Balance: bal})
	}

	// ---- transactions ---------------------------------------------------------------------------
	full := completeAccessList()
	full = append(full, types.AccessTuple{Address: r.Child, StorageKeys: []common.Hash{{}, common.BigToHash(big.NewInt(1))}})
	for _, a := range g.Created {
		full = append(full, types.AccessTuple{Address: a})
	}
	n := rapid.IntRange(2, 5).Draw(t, "ntx")
	var touched []common.Address // addresses earlier transactions are meant to kill, create or send from
	childMade, oogMade := false, false
	addTx := func(tx *TxSpec) {
		tx.Price = new(big.Int).Set(price)
		tx.PriceClass = "basefee"
		if tx.Kind == "etx" {
			tx.Price, tx.PriceClass = new(big.Int), "etx" // ExternalTx.gasPrice() is zero
		}
		if tx.Value == nil {
			tx.Value = new(big.Int)
		}
		if tx.AccessList == nil {
			tx.AccessList, tx.ALClass = full, "complete"
		}
		b.Txs = append(b.Txs, tx)
		b.Kinds = append(b.Kinds, "tx:"+tx.DataNote)
	}
	to := func(a common.Address) *common.Address { x := a; return &x }
	for i := 0; i < n; i++ {
		from := rapid.IntRange(0, len(u.EOAs)-1).Draw(t, "from")
		fromAddr := u.EOAs[from].Addr
		// later transactions prefer the classes that touch what earlier ones did
		// classes: 0 transfer, 1 kill victim, 2 factory, 3 kill child, 4 suicide tx, 5 creation, 6 inbound ETX, 7 generated, 8 emitter
		w := []int{4, 6, 5, 3, 5, 8, 3, 3, 3}
		if len(touched) > 0 {
			w[0] += 10 // transfer to a touched address
			w[6] += 4  // inbound ETX to a touched address
		}
		if childMade {
			w[3] += 8 // kill the child
			w[2] += 3 // CREATE2 again onto the (possibly dead) child address
		}
		if oogMade {
			w[8] += 14 // an exporting transaction after the failed creation
			w[7] += 3
			w[0] += 3
		}
		tot := 0
		for _, x := range w {
			tot += x
		}
		pick := rapid.IntRange(0, tot-1).Draw(t, "txclass")
		cls := 0
		for ; cls < len(w); cls++ {
			if pick < w[cls] {
				break
			}
			pick -= w[cls]
		}
		target := func() common.Address {
			if len(touched) > 0 && rapid.IntRange(0, 9).Draw(t, "targettouched") < 8 {
				return touched[rapid.IntRange(0, len(touched)-1).Draw(t, "whichtouched")]
			}
			pool := []common.Address{u.EOAs[0].Addr, u.EOAs[1].Addr, u.NonExistent[0], r.Victim, r.Child, u.Contracts[0]}
			return pool[rapid.IntRange(0, len(pool)-1).Draw(t, "targetpool")]
		}
		switch cls {
		case 4: // the Suicide-data branch of TransitionDb, mostly with the sender itself as beneficiary
			ben := fromAddr
			note := "suicide-self"
			if rapid.IntRange(0, 3).Draw(t, "suicideben") == 0 {
				ben, note = target(), "suicide-other"
			}
			addTx(&TxSpec{Kind: "quai", From: from, To: to(fromAddr), ToClass: "self", Gas: 60000 + uint64(len(full))*2400 + 40*1900, GasClass: "ample", Data: append([]byte("Suicide"), ben.Bytes()...), DataNote: note, Suicide: true})
			touched = append(touched, fromAddr)
		case 1: // SELFDESTRUCT followed by a value CALL to the dead contract, or just the SELFDESTRUCT
			if rapid.IntRange(0, 2).Draw(t, "killhow") > 0 {
				addTx(&TxSpec{Kind: "quai", From: from, To: to(r.Payer), ToClass: "contract", Gas: 600000, GasClass: "ample", DataNote: "kill-then-pay"})
			} else {
				addTx(&TxSpec{Kind: "quai", From: from, To: to(r.Victim), ToClass: "contract", Gas: 400000, GasClass: "ample", Value: pickBig(t, "killvalue", big.NewInt(0), e(1, 18)), DataNote: "kill-victim"})
			}
			touched = append(touched, r.Victim, fromAddr)
		case 2: // CREATE2 onto the child address
			addTx(&TxSpec{Kind: "quai", From: from, To: to(r.Factory), ToClass: "contract", Gas: 800000, GasClass: "ample", DataNote: "factory-create2"})
			childMade = true
			touched = append(touched, r.Child, fromAddr)
		case 3: // make the child self-destruct
			addTx(&TxSpec{Kind: "quai", From: from, To: to(r.Child), ToClass: "contract", Gas: 400000, GasClass: "ample", Value: pickBig(t, "childvalue", big.NewInt(0), big.NewInt(5000)), DataNote: "kill-child"})
			touched = append(touched, r.Child)
		case 0: // plain value transfer
			tg := target()
			addTx(&TxSpec{Kind: "quai", From: from, To: to(tg), ToClass: "transfer", Gas: 500000, GasClass: "ample", Value: pickBig(t, "xfervalue", e(1, 18), big.NewInt(1), e(25, 17)), DataNote: "transfer>" + u.Name(tg)})
			touched = append(touched, fromAddr)
		case 5: // creation transaction: optional off-chain send in the init code, then small or unpayable runtime code
			emit := []string{"ETX", "ETX", "CONVERT", "EXTCALL", "SSTORE", "none"}[rapid.IntRange(0, 5).Draw(t, "emit")]
			size := []uint64{20000, 20000, 64, 0}[rapid.IntRange(0, 3).Draw(t, "runtimesize")]
			val := e(1, 15)
			endow := e(3, 15)
			if emit == "CONVERT" {
				val = new(big.Int).Set(params.MinQuaiConversionAmount)
				endow = new(big.Int).Mul(val, big.NewInt(3))
			}
			note := fmt.Sprintf("create:%s:ret%d", emit, size)
			addTx(&TxSpec{Kind: "quai", From: from, To: nil, ToClass: "create", Gas: 700000 + uint64(len(full))*2400 + 40*1900, GasClass: "oog-tuned", Value: endow, Data: emittingInit(env, emit, val, size), DataNote: note})
			if size >= 20000 {
				oogMade = true
			}
			touched = append(touched, fromAddr)
		case 6: // inbound ETX
			tg := target()
			if _, err := tg.InternalAndQuaiAddress(); err != nil {
				tg = r.Victim
			}
			addTx(&TxSpec{Kind: "etx", To: to(tg), ToClass: "etx", Gas: 200000, GasClass: "ample", Value: pickBig(t, "etxvalue", e(1, 18), big.NewInt(3)), DataNote: "etx>" + u.Name(tg),
				EtxSender: u.ForeignQuai[0], EtxType: []uint64{types.DefaultType, types.CoinbaseLockupType}[rapid.IntRange(0, 1).Draw(t, "etxtype")]})
		case 8: // a contract that exports exactly one ETX
			addTx(&TxSpec{Kind: "quai", From: from, To: to(r.Emitter), ToClass: "contract", Gas: 300000, GasClass: "ample", DataNote: "emitter"})
			touched = append(touched, fromAddr)
		default: // a generated contract
			addTx(&TxSpec{Kind: "quai", From: from, To: to(u.Contracts[0]), ToClass: "contract", Gas: 900000, GasClass: "ample", Value: pickBig(t, "genvalue", big.NewInt(0), e(1, 15)), DataNote: "generated"})
			touched = append(touched, fromAddr)
		}
	}
	b.Kinds = append(b.Kinds, g.Kinds...)
	return b
}

// ---------------------------------------------------------------------------------------------
// execution

// TxStep is one transaction of a block run.
type TxStep struct {
	Index    int // position among the accepted transactions
	Spec     *TxSpec
	Tx       *types.Transaction
	Res      *TxResult
	Rejected bool // worker configuration: consensus error, state reverted, transaction skipped
	Tracer   *Tracer
	Before   *Balances // full account-trie walk when FullWalk, otherwise only the payer
	After    *Balances
	FullWalk bool
	Payer    *common.InternalAddress
	Broken   string
}

// BlockRun is one execution of a block in one configuration.
type BlockRun struct {
	Config   string // "worker" or "process"
	World    *World
	Steps    []*TxStep // accepted and (worker only) rejected transactions, in order
	Start    *Balances
	End      *Balances
	Root     common.Hash
	Broken   string
	BlockErr error // process configuration: applyTransaction returned an error => the block is invalid
	ErrIndex int
}

// Accepted returns the transactions that made it into the block.
func (r *BlockRun) Accepted() []*TxStep {
	var out []*TxStep
	for _, s := range r.Steps {
		if !s.Rejected {
			out = append(out, s)
		}
	}
	return out
}

// switchTracer lets one vm.EVM (whose interpreter copies the vm.Config once) report to a fresh
// Tracer per transaction.
type switchTracer struct{ cur *Tracer }

func (s *switchTracer) CaptureStart(env *vm.EVM, from common.Address, to common.Address, create bool, input []byte, gas uint64, value *big.Int) {
	s.cur.CaptureStart(env, from, to, create, input, gas, value)
}
func (s *switchTracer) CaptureState(env *vm.EVM, pc uint64, op vm.OpCode, gas, cost uint64, scope *vm.ScopeContext, rData []byte, depth int, err error, loc common.Location) {
	s.cur.CaptureState(env, pc, op, gas, cost, scope, rData, depth, err, loc)
}
func (s *switchTracer) CaptureFault(env *vm.EVM, pc uint64, op vm.OpCode, gas, cost uint64, scope *vm.ScopeContext, depth int, err error) {
	s.cur.CaptureFault(env, pc, op, gas, cost, scope, depth, err)
}
func (s *switchTracer) CaptureEnd(output []byte, gasUsed uint64, d time.Duration, err error) {
	s.cur.CaptureEnd(output, gasUsed, d, err)
}

func payerOnly(w *World, p *common.InternalAddress) *Balances {
	b := &Balances{ByAddr: map[common.InternalAddress]*big.Int{}, Sum: new(big.Int)}
	if p != nil {
		b.ByAddr[*p] = new(big.Int).Set(w.SDB.GetBalance(*p))
	}
	return b
}

func snapshotOrBroken(w *World) (*Balances, string, error) {
	bal, err := Snapshot(w.SDB)
	if err != nil {
		if be, ok := err.(*BrokenStateError); ok {
			return &Balances{ByAddr: map[common.InternalAddress]*big.Int{}, Sum: new(big.Int)}, be.Msg, nil
		}
		return nil, "", err
	}
	return bal, "", nil
}

// materialise signs a Quai transaction with the sender's current nonce (a pool hands the miner
// executable transactions) or builds the inbound ETX.
func (b *BlockCase) materialise(w *World, spec *TxSpec, seq int) (*types.Transaction, error) {
	u := U()
	if spec.Kind == "etx" {
		var h common.Hash
		copy(h[:], "verif-origin-block")
		h[31] = byte(seq)
		inner := &types.ExternalTx{OriginatingTxHash: h, ETXIndex: uint16(seq), Gas: spec.Gas, To: spec.To, Value: new(big.Int).Set(spec.Value),
			Data: spec.Data, AccessList: spec.AccessList, Sender: spec.EtxSender, EtxType: spec.EtxType}
		spec.Tx = types.NewTx(inner)
		return spec.Tx, nil
	}
	in, err := u.EOAs[spec.From].Addr.InternalAndQuaiAddress()
	if err != nil {
		return nil, err
	}
	spec.Nonce = w.SDB.GetNonce(in)
	al := spec.AccessList
	if spec.To == nil {
		if a, ok := PredictCreateAddress(u.EOAs[spec.From].Addr, spec.Nonce, spec.Data, b.Env.BlockNumber); ok {
			al = append(append(types.AccessList{}, al...), types.AccessTuple{Address: a, StorageKeys: []common.Hash{{}}})
		}
	}
	inner := &types.QuaiTx{Nonce: spec.Nonce, GasPrice: new(big.Int).Set(spec.Price), Gas: spec.Gas, To: spec.To, Value: new(big.Int).Set(spec.Value), Data: spec.Data, AccessList: al}
	tx, err := SignQuaiTx(spec.From, inner)
	if err != nil {
		return nil, err
	}
	spec.Tx = tx
	return tx, nil
}

func (b *BlockCase) payer(spec *TxSpec) *common.InternalAddress {
	if spec.Kind != "quai" {
		return nil
	}
	in, err := U().EOAs[spec.From].Addr.InternalAndQuaiAddress()
	if err != nil {
		return nil
	}
	return &in
}

// RunWorker executes the block the way the miner assembles it. onTx is called after every
// accepted transaction, while the world is in the state that transaction left.
func (b *BlockCase) RunWorker(onTx func(r *BlockRun, s *TxStep)) (*BlockRun, error) {
	w, err := b.Pre.Build()
	if err != nil {
		return nil, err
	}
	r := &BlockRun{Config: "worker", World: w}
	if r.Start, err = Snapshot(w.SDB); err != nil {
		return nil, err
	}
	h, parent := b.Env.Headers()
	chain := &stubChain{parent}
	gp := new(types.GasPool).AddGas(b.Env.GasLimit)
	var usedGas, usedState uint64
	etxR, etxP := b.Env.GasLimit, b.Env.GasLimit
	coinbase := b.Env.Coinbase
	tcount := 0
	for seq, spec := range b.Txs {
		tx, err := b.materialise(w, spec, seq)
		if err != nil {
			return nil, err
		}
		st := &TxStep{Index: tcount, Spec: spec, Tx: tx, Payer: b.payer(spec), Tracer: NewTracer()}
		st.Tracer.EnforceAccessList = true
		if b.PerTxWalk {
			var broken string
			if st.Before, broken, err = snapshotOrBroken(w); err != nil {
				return nil, err
			}
			st.FullWalk = broken == ""
			r.Broken += broken
		} else {
			st.Before = payerOnly(w, st.Payer)
		}
		snap := w.SDB.Snapshot()
		w.SDB.Prepare(tx.Hash(), tcount)
		before := usedGas
		receipt, fees, aerr := core.ApplyTransaction(ChainConfig(), parent, common.PRIME_CTX, chain, &coinbase, gp, w.SDB, h, tx, &usedGas, &usedState, vm.Config{Debug: true, Tracer: st.Tracer}, &etxR, &etxP, w.Batch, Logger)
		st.Res = &TxResult{Receipt: receipt, Fees: fees, Err: aerr, UsedGas: usedGas - before, GasPool: gp.Gas(), EtxRLeft: etxR, EtxPLeft: etxP}
		if aerr != nil {
			w.SDB.RevertToSnapshot(snap)
			st.Rejected = true
			r.Steps = append(r.Steps, st)
			continue
		}
		if b.PerTxWalk {
			var broken string
			if st.After, broken, err = snapshotOrBroken(w); err != nil {
				return nil, err
			}
			st.Broken = broken
			st.FullWalk = st.FullWalk && broken == ""
		} else {
			st.After = payerOnly(w, st.Payer)
		}
		tcount++
		r.Steps = append(r.Steps, st)
		if onTx != nil {
			onTx(r, st)
		}
	}
	var broken string
	if r.End, broken, err = snapshotOrBroken(w); err != nil {
		return nil, err
	}
	r.Broken += broken
	if broken == "" {
		r.Root = w.SDB.IntermediateRoot(true)
	}
	return r, nil
}

// RunProcess executes the accepted transactions the way StateProcessor.Process does: one EVM for
// the block, statedb.Prepare + applyTransaction (through the verif hook) per transaction, the
// zero-address staging around inbound ETXs.
func (b *BlockCase) RunProcess(accepted []*TxStep, onTx func(r *BlockRun, s *TxStep)) (*BlockRun, error) {
	w, err := b.Pre.Build()
	if err != nil {
		return nil, err
	}
	r := &BlockRun{Config: "process", World: w, ErrIndex: -1}
	if r.Start, err = Snapshot(w.SDB); err != nil {
		return nil, err
	}
	h, parent := b.Env.Headers()
	chain := &stubChain{parent}
	config := ChainConfig()
	blockContext, err := core.NewEVMBlockContext(h, parent, chain, nil)
	if err != nil {
		return nil, err
	}
	sw := &switchTracer{}
	vmenv := vm.NewEVM(blockContext, vm.TxContext{}, w.SDB, config, vm.Config{Debug: true, Tracer: sw}, w.Batch)
	gp := new(types.GasPool).AddGas(b.Env.GasLimit)
	usedGas, usedState := new(uint64), new(uint64)
	etxR, etxP := b.Env.GasLimit, b.Env.GasLimit
	signer := types.MakeSigner(config, h.Number(common.ZONE_CTX))
	blockNumber, blockHash := h.Number(common.ZONE_CTX), h.Hash()
	zero := common.ZeroInternal(Loc)
	for i, acc := range accepted {
		tx := acc.Tx
		st := &TxStep{Index: i, Spec: acc.Spec, Tx: tx, Payer: acc.Payer, Tracer: NewTracer()}
		st.Tracer.EnforceAccessList = true
		sw.cur = st.Tracer
		st.Before = payerOnly(w, st.Payer)
		msg, merr := tx.AsMessageWithSender(signer, h.BaseFee(), nil)
		if merr != nil {
			r.BlockErr, r.ErrIndex = merr, i
			break
		}
		w.SDB.Prepare(tx.Hash(), i)
		before := *usedGas
		var (
			receipt *types.Receipt
			fees    *big.Int
			aerr    error
		)
		if tx.Type() == types.ExternalTxType {
			prevZeroBal := w.SDB.GetBalance(zero) // prepareApplyETX
			w.SDB.SetBalance(zero, msg.Value())
			receipt, fees, aerr = core.VerifApplyTransactionShared(vmenv, msg, parent, config, chain, gp, w.SDB, blockNumber, blockHash, tx, usedGas, usedState, &etxR, &etxP, Logger)
			w.SDB.SetBalance(zero, prevZeroBal)
		} else {
			receipt, fees, aerr = core.VerifApplyTransactionShared(vmenv, msg, parent, config, chain, gp, w.SDB, blockNumber, blockHash, tx, usedGas, usedState, &etxR, &etxP, Logger)
		}
		st.Res = &TxResult{Receipt: receipt, Fees: fees, Err: aerr, UsedGas: *usedGas - before, GasPool: gp.Gas(), EtxRLeft: etxR, EtxPLeft: etxP}
		r.Steps = append(r.Steps, st)
		if aerr != nil {
			r.BlockErr, r.ErrIndex = aerr, i
			break
		}
		st.After = payerOnly(w, st.Payer)
		if onTx != nil {
			onTx(r, st)
		}
	}
	var broken string
	if r.End, broken, err = snapshotOrBroken(w); err != nil {
		return nil, err
	}
	r.Broken = broken
	if broken == "" {
		r.Root = w.SDB.IntermediateRoot(true)
	}
	return r, nil
}

// PseudoCase wraps one step of a block run as a single-transaction Case/Outcome pair so that the
// single-transaction oracles can be applied to it unchanged.
func (b *BlockCase) PseudoCase(r *BlockRun, s *TxStep) (*Case, *Outcome) {
	c := &Case{Env: b.Env, Pre: &PreState{}, Tx: *s.Spec, Mode: ModeTracedEnforced, Kinds: b.Kinds}
	c.Tx.Tx = s.Tx
	o := &Outcome{World: r.World, Before: s.Before, After: s.After, Res: s.Res, Tracer: s.Tracer, Payer: s.Payer, Broken: s.Broken, PartialBalances: !s.FullWalk}
	o.Refund = new(big.Int).Mul(b.Env.BaseFee, new(big.Int).SetUint64(params.CallNewAccountGas(b.Env.QuaiStateSize)))
	return c, o
}

// DeletedBy lists the accounts a step removed from the state: the sender of a Suicide-data
// transaction and every contract whose SELFDESTRUCT was not rolled back.
func (b *BlockCase) DeletedBy(s *TxStep) []common.Address {
	if s.Rejected || s.Res == nil || s.Res.Receipt == nil || s.Res.Receipt.Status != types.ReceiptStatusSuccessful {
		return nil
	}
	var out []common.Address
	if s.Spec.Suicide {
		out = append(out, U().EOAs[s.Spec.From].Addr)
	}
	maxCode := uint64(params.GetMaxCodeSize(b.Env.BlockNumber))
	for _, sd := range s.Tracer.Suicides {
		if rolled, _ := s.Tracer.RolledBack(sd.Frame, maxCode, false); !rolled {
			out = append(out, sd.Addr)
		}
	}
	return out
}

// Touches lists the addresses a step's top level and frames ran in or created.
func (b *BlockCase) Touches(s *TxStep) []common.Address {
	var out []common.Address
	if s.Spec.To != nil {
		out = append(out, *s.Spec.To)
	}
	if s.Res != nil && s.Res.Receipt != nil && s.Res.Receipt.ContractAddress.Bytes20() != (common.AddressBytes{}) {
		out = append(out, s.Res.Receipt.ContractAddress)
	}
	for _, f := range s.Tracer.Frames {
		out = append(out, f.Self)
	}
	return out
}

// BlockSignature is the structural description of a block: the transaction classes in order
// with their outcomes.
func BlockSignature(steps []*TxStep) string {
	var parts []string
	for _, s := range steps {
		oc := "rejected"
		if !s.Rejected && s.Res != nil && s.Res.Receipt != nil {
			oc = fmt.Sprintf("s%d/e%d", s.Res.Receipt.Status, len(s.Res.Receipt.OutboundEtxs))
		}
		note := s.Spec.DataNote
		if i := strings.Index(note, ">"); i >= 0 {
			note = note[:i+1] + "*"
		}
		parts = append(parts, note+":"+oc)
	}
	return strings.Join(parts, ",")
}
