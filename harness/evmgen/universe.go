package evmgen

import (
	"crypto/ecdsa"
	"encoding/binary"
	"fmt"
	"io"
	"math/big"
	"os"
	"sort"
	"strings"
	"sync"

	"github.com/dominant-strategies/go-quai/common"
	"github.com/dominant-strategies/go-quai/core/rawdb"
	"github.com/dominant-strategies/go-quai/core/state"
	"github.com/dominant-strategies/go-quai/core/types"
	"github.com/dominant-strategies/go-quai/core/vm"
	"github.com/dominant-strategies/go-quai/crypto"
	"github.com/dominant-strategies/go-quai/ethdb"
	"github.com/dominant-strategies/go-quai/ethdb/memorydb"
	"github.com/dominant-strategies/go-quai/ethdb/pebble"
	"github.com/dominant-strategies/go-quai/log"
	"github.com/sirupsen/logrus"
)

// Loc is the node location every EVM-level check runs in.
var Loc = common.Location{0, 0}

// Logger is a silent logger; log.Global is redirected to it by Init.
var Logger = func() *log.Logger {
	l := logrus.New()
	l.SetOutput(io.Discard)
	l.SetLevel(logrus.PanicLevel)
	return l
}()

// Keyed is an externally owned account with its key.
type Keyed struct {
	Key  *ecdsa.PrivateKey
	Addr common.Address
}

// Universe is the fixed address universe programs and transactions draw from. It is the same in
// every case; the per-case PreState decides which of the addresses hold what.
type Universe struct {
	EOAs        []Keyed          // in-zone Quai-ledger key holders
	Contracts   []common.Address // in-zone Quai-ledger addresses that carry generated code
	Precompiles []common.Address // 1..9
	Lockup      common.Address
	NonExistent []common.Address // in-zone Quai addresses that are never populated
	ForeignQuai []common.Address // other zones, Quai ledger: {0,1}, {1,0}, {3,3}
	ForeignQi   []common.Address // other zone, Qi ledger
	InZoneQi    []common.Address // this zone, Qi ledger
	Zero        common.Address
	Miners      []common.Address // beneficiary miners of lockup records (in-zone Quai / Qi)
}

var (
	uniOnce sync.Once
	uni     *Universe
)

func mkAddr(b0, b1 byte, tag byte, n byte) common.Address {
	var a [20]byte
	a[0], a[1] = b0, b1
	for i := 2; i < 19; i++ {
		a[i] = tag
	}
	a[19] = n
	return common.Bytes20ToAddress(a, Loc)
}

// U returns the process-wide universe (keys are derived deterministically and ground until the
// address falls into zone {0,0} / Quai ledger).
func U() *Universe {
	uniOnce.Do(func() {
		log.Global = Logger
		vm.InitializePrecompiles(Loc)
		u := &Universe{Zero: common.ZeroAddress(Loc)}
		ctr := uint64(0)
		for len(u.EOAs) < 5 {
			var seed [16]byte
			copy(seed[:], "verif-evm")
			binary.BigEndian.PutUint64(seed[8:], ctr)
			ctr++
			k, err := crypto.ToECDSA(crypto.Keccak256(seed[:]))
			if err != nil {
				continue
			}
			a := crypto.PubkeyToAddress(k.PublicKey, Loc)
			if _, err := a.InternalAndQuaiAddress(); err != nil {
				continue
			}
			u.EOAs = append(u.EOAs, Keyed{k, a})
		}
		for i := 0; i < 5; i++ {
			u.Contracts = append(u.Contracts, mkAddr(0x00, 0x10, 0xc0, byte(i)))
		}
		for i := 1; i <= 9; i++ {
			u.Precompiles = append(u.Precompiles, common.HexToAddress(fmt.Sprintf("0x%02x000000000000000000000000000000000000%02x", Loc.BytePrefix(), i), Loc))
		}
		u.Lockup = vm.LockupContractAddresses[[2]byte{Loc[0], Loc[1]}]
		u.NonExistent = []common.Address{mkAddr(0x00, 0x7f, 0xee, 1), mkAddr(0x00, 0x22, 0xee, 2)}
		u.ForeignQuai = []common.Address{mkAddr(0x01, 0x00, 0xf1, 1), mkAddr(0x10, 0x05, 0xf2, 2), mkAddr(0x33, 0x7f, 0xf3, 3)}
		u.ForeignQi = []common.Address{mkAddr(0x01, 0x80, 0xf4, 1), mkAddr(0x10, 0xff, 0xf5, 2)}
		u.InZoneQi = []common.Address{mkAddr(0x00, 0x80, 0xa1, 1), mkAddr(0x00, 0xff, 0xa2, 2)}
		u.Miners = []common.Address{mkAddr(0x00, 0x33, 0xb1, 1), mkAddr(0x00, 0x90, 0xb2, 2)}
		uni = u
	})
	return uni
}

// Name gives a short role name for an address of the universe (for readable dumps).
func (u *Universe) Name(a common.Address) string {
	for i, e := range u.EOAs {
		if e.Addr.Equal(a) {
			return fmt.Sprintf("eoa%d", i)
		}
	}
	for i, c := range u.Contracts {
		if c.Equal(a) {
			return fmt.Sprintf("contract%d", i)
		}
	}
	for i, c := range u.Precompiles {
		if c.Equal(a) {
			return fmt.Sprintf("precompile%d", i+1)
		}
	}
	if u.Lockup.Equal(a) {
		return "lockup"
	}
	if u.Zero.Equal(a) {
		return "zero"
	}
	for i, c := range u.NonExistent {
		if c.Equal(a) {
			return fmt.Sprintf("nonexistent%d", i)
		}
	}
	for i, c := range u.ForeignQuai {
		if c.Equal(a) {
			return fmt.Sprintf("foreignQuai%d", i)
		}
	}
	for i, c := range u.ForeignQi {
		if c.Equal(a) {
			return fmt.Sprintf("foreignQi%d", i)
		}
	}
	for i, c := range u.InZoneQi {
		if c.Equal(a) {
			return fmt.Sprintf("inZoneQi%d", i)
		}
	}
	return a.Hex()
}

// ---------------------------------------------------------------------------------------------
// pre-state

type AccountSpec struct {
	Addr    common.Address
	Balance *big.Int
	Nonce   uint64
	Code    *Program // nil for EOAs
	Storage map[common.Hash]common.Hash
}

type LockupRec struct {
	Owner, Miner common.Address
	LockupByte   byte
	Epoch        uint32
	Balance      *big.Int
	Unlock       uint32
	Elements     uint16
	Delegate     common.Address // common.Zero for none
}

type WrappedQi struct {
	Owner   common.Address
	Balance *big.Int
}

type QiDeposit struct {
	Owner, QuaiOwner common.Address
	Balance          *big.Int
}

// PreState is the generated world a case starts from.
type PreState struct {
	Accounts   []AccountSpec
	WrappedQi  []WrappedQi
	QiDeposits []QiDeposit
	Lockups    []LockupRec
}

// Dump renders the pre-state readably (for replay files and samples).
func (p *PreState) Dump() map[string]any {
	u := U()
	accs := []any{}
	for _, a := range p.Accounts {
		m := map[string]any{"role": u.Name(a.Addr), "addr": a.Addr.Hex(), "balance": a.Balance.String(), "nonce": a.Nonce}
		if a.Code != nil {
			m["code_hex"] = a.Code.Hex
			m["code_asm"] = a.Code.Text
		}
		if len(a.Storage) > 0 {
			st := map[string]string{}
			for k, v := range a.Storage {
				st[k.Hex()] = v.Hex()
			}
			m["storage"] = st
		}
		accs = append(accs, m)
	}
	out := map[string]any{"accounts": accs}
	if len(p.WrappedQi) > 0 {
		l := []any{}
		for _, w := range p.WrappedQi {
			l = append(l, map[string]any{"owner": u.Name(w.Owner), "balance": w.Balance.String()})
		}
		out["wrapped_qi"] = l
	}
	if len(p.QiDeposits) > 0 {
		l := []any{}
		for _, w := range p.QiDeposits {
			l = append(l, map[string]any{"owner": u.Name(w.Owner), "quai_owner": u.Name(w.QuaiOwner), "balance": w.Balance.String()})
		}
		out["qi_deposits"] = l
	}
	if len(p.Lockups) > 0 {
		l := []any{}
		for _, r := range p.Lockups {
			l = append(l, map[string]any{"owner": u.Name(r.Owner), "miner": r.Miner.Hex(), "lockup_byte": r.LockupByte, "epoch": r.Epoch,
				"balance": r.Balance.String(), "unlock": r.Unlock, "elements": r.Elements})
		}
		out["lockups"] = l
	}
	return out
}

// locStore makes the in-memory key-value store report the node location (the stock memorydb
// returns nil, which mis-decodes stored addresses).
type locStore struct {
	*memorydb.Database
	loc common.Location
}

func (s *locStore) Location() common.Location { return s.loc }

// DiskEvery, when n > 0, makes every n-th store returned by NewKV a pebble database in a
// temporary directory instead of the in-memory store (the production node runs on pebble, and
// the block batch's read-your-own-writes view is implemented per backend). The directories of
// all but the most recent few stores are closed and removed as new ones are made.
var DiskEvery int

var (
	kvCount  int
	diskOpen []diskKV
)

type diskKV struct {
	db  ethdb.Database
	dir string
}

// NewKV returns a fresh database that reports Location {0,0}: in memory, or (see DiskEvery) pebble.
func NewKV() ethdb.Database {
	kvCount++
	if DiskEvery > 0 && kvCount%DiskEvery == 0 {
		for len(diskOpen) >= 6 {
			diskOpen[0].db.Close()
			os.RemoveAll(diskOpen[0].dir)
			diskOpen = diskOpen[1:]
		}
		dir, err := os.MkdirTemp("", "evmgen-pebble")
		if err == nil {
			if d, err := pebble.New(dir, 16, 16, "", false, Logger, Loc); err == nil {
				db := rawdb.NewDatabase(d)
				diskOpen = append(diskOpen, diskKV{db, dir})
				return db
			}
			os.RemoveAll(dir)
		}
	}
	return rawdb.NewDatabase(&locStore{memorydb.New(Logger), Loc})
}

// CloseDiskKVs closes and removes every pebble store NewKV still holds (end of a test).
func CloseDiskKVs() {
	for _, d := range diskOpen {
		d.db.Close()
		os.RemoveAll(d.dir)
	}
	diskOpen = nil
}

// World is a built pre-state: the key-value store, the state database over it, and the block
// batch (pending tracking on, as StateProcessor.Process sets it).
type World struct {
	KV    ethdb.Database
	SDB   *state.StateDB
	Batch ethdb.Batch
}

// WrappedQiSlot is the lockup-contract storage key holding owner's wrapped-Qi balance.
func WrappedQiSlot(owner common.Address) common.Hash {
	in, _ := owner.InternalAndQuaiAddress()
	return common.BytesToHash(in[:])
}

// QiDepositSlot is the lockup-contract storage key of an unclaimed wrapped-Qi deposit.
func QiDepositSlot(owner, quaiOwner common.Address) common.Hash {
	oi, _ := owner.InternalAndQuaiAddress()
	qi, _ := quaiOwner.InternalAndQuaiAddress()
	var k common.Hash
	copy(k[:16], oi[:16])
	copy(k[16:], qi[:16])
	return k
}

// Build materialises the pre-state. The returned StateDB has had IntermediateRoot called, i.e. it
// is at a transaction boundary.
func (p *PreState) Build() (*World, error) {
	U()
	kv := NewKV()
	db := state.NewDatabase(kv)
	sdb, err := state.New(types.EmptyRootHash, types.EmptyRootHash, big.NewInt(0), db, db, nil, Loc, Logger)
	if err != nil {
		return nil, err
	}
	for _, a := range p.Accounts {
		in, err := a.Addr.InternalAndQuaiAddress()
		if err != nil {
			return nil, fmt.Errorf("pre-state account %s: %v", a.Addr.Hex(), err)
		}
		sdb.CreateAccount(in)
		sdb.SetBalance(in, new(big.Int).Set(a.Balance))
		sdb.SetNonce(in, a.Nonce)
		if a.Code != nil {
			sdb.SetCode(in, a.Code.Code)
		}
		keys := make([]common.Hash, 0, len(a.Storage))
		for k := range a.Storage {
			keys = append(keys, k)
		}
		sort.Slice(keys, func(i, j int) bool { return string(keys[i][:]) < string(keys[j][:]) })
		for _, k := range keys {
			sdb.SetState(in, k, a.Storage[k])
		}
	}
	lockupIn, err := U().Lockup.InternalAndQuaiAddress()
	if err != nil {
		return nil, err
	}
	if len(p.WrappedQi)+len(p.QiDeposits) > 0 {
		// An account without balance, nonce and code is deleted by Finalise(true) together with
		// its freshly written storage (Size is only counted when the storage trie is updated), so
		// the lockup contract account is made non-empty here. Stated as an assumption of the checks.
		sdb.SetNonce(lockupIn, 1)
	}
	for _, w := range p.WrappedQi {
		sdb.SetState(lockupIn, WrappedQiSlot(w.Owner), common.BigToHash(w.Balance))
	}
	for _, w := range p.QiDeposits {
		sdb.SetState(lockupIn, QiDepositSlot(w.Owner, w.QuaiOwner), common.BigToHash(w.Balance))
	}
	for _, r := range p.Lockups {
		if _, err := rawdb.WriteCoinbaseLockup(kv, r.Owner, r.Miner, r.LockupByte, r.Epoch, r.Balance, r.Unlock, r.Elements, r.Delegate); err != nil {
			return nil, err
		}
	}
	sdb.IntermediateRoot(true)
	batch := kv.NewBatch()
	batch.SetPending(true)
	return &World{KV: kv, SDB: sdb, Batch: batch}, nil
}

// ---------------------------------------------------------------------------------------------
// balance snapshots

// Balances is a full snapshot of every account balance in a StateDB.
type Balances struct {
	ByAddr map[common.InternalAddress]*big.Int
	Sum    *big.Int
	N      int
}

type balCollector struct {
	b       *Balances
	missing int
	dup     int
}

func (c *balCollector) OnRoot(common.Hash) {}
func (c *balCollector) OnAccount(addr common.InternalAddress, acc state.DumpAccount) {
	v, ok := new(big.Int).SetString(acc.Balance, 10)
	if !ok {
		c.missing++
		return
	}
	c.b.Sum.Add(c.b.Sum, v)
	c.b.N++
	// verify that the address is the preimage of the trie key (a missing preimage would be
	// reported as the zero address)
	if string(crypto.Keccak256(addr[:])) != string(acc.SecureKey) {
		c.missing++
		return
	}
	if _, seen := c.b.ByAddr[addr]; seen {
		c.dup++
	}
	c.b.ByAddr[addr] = v
}

// BrokenStateError is returned by Snapshot when the state cannot be hashed (e.g. "cannot encode
// negative *big.Int": an account balance went below zero).
type BrokenStateError struct{ Msg string }

func (e *BrokenStateError) Error() string { return e.Msg }

// NegativeSizeMark is appended to a BrokenStateError's message when the object that could not be
// encoded has a non-negative balance and a negative storage-size counter: the crash form of the
// recorded finding FpSuicideSize (Suicide zeroes the counter without journalling it; a reverted
// SELFDESTRUCT followed by a slot deletion drives it below zero).
const (
	NegativeSizeMark = " [storage-size counter negative, balance not]"
	FpSuicideSize    = "C12/A/revert/acct.size/x=suicide"
)

func diagnoseBroken(sdb *state.StateDB, msg string) (out string) {
	defer func() {
		if recover() != nil {
			out = ""
		}
	}()
	const marker = "can't encode object at "
	i := strings.Index(msg, marker)
	if i < 0 || len(msg) < i+len(marker)+40 {
		return ""
	}
	b := common.FromHex(msg[i+len(marker) : i+len(marker)+40])
	if len(b) != 20 {
		return ""
	}
	var ia common.InternalAddress
	copy(ia[:], b)
	if sdb.GetBalance(ia).Sign() >= 0 && sdb.GetSize(ia).Sign() < 0 {
		return NegativeSizeMark
	}
	return ""
}

// BrokenBySuicideSize reports whether a broken-state message carries NegativeSizeMark.
func BrokenBySuicideSize(msg string) bool { return strings.Contains(msg, NegativeSizeMark) }

// Snapshot walks the account trie (after IntermediateRoot) and returns every balance. It fails
// if an account cannot be attributed to an address, so that a sum is never silently partial.
func Snapshot(sdb *state.StateDB) (bal *Balances, err error) {
	defer func() {
		// the account encoder panics on a negative balance; report it instead of crashing
		if r := recover(); r != nil {
			bal, err = nil, &BrokenStateError{Msg: fmt.Sprint(r) + diagnoseBroken(sdb, fmt.Sprint(r))}
		}
	}()
	sdb.IntermediateRoot(true)
	b := &Balances{ByAddr: map[common.InternalAddress]*big.Int{}, Sum: new(big.Int)}
	c := &balCollector{b: b}
	sdb.DumpToCollector(c, &state.DumpConfig{SkipCode: true, SkipStorage: true})
	if c.missing > 0 || c.dup > 0 {
		return nil, fmt.Errorf("state dump: %d unattributable accounts, %d duplicates", c.missing, c.dup)
	}
	return b, nil
}

// Get returns the balance of addr (zero when absent).
func (b *Balances) Get(a common.InternalAddress) *big.Int {
	if v, ok := b.ByAddr[a]; ok {
		return v
	}
	return new(big.Int)
}
