// Package stats collects per-case statistics, samples and violations for the verification
// checks and writes them to the file named by $VERIF_STATS when the test binary exits.
// It also implements the known-findings protocol (see DESIGN.md §2).
package stats

import (
	"encoding/json"
	"fmt"
	"hash/fnv"
	"os"
	"path/filepath"
	"sort"
	"strconv"
	"strings"
	"sync"
	"testing"
	"time"
)

type TB interface {
	Fatalf(format string, args ...any)
	Logf(format string, args ...any)
	Helper()
}

type partStats struct {
	Evaluations int64            `json:"evaluations"`
	Nontrivial  int64            `json:"nontrivial"`
	Labels      map[string]int64 `json:"labels"`
	Sigs        []string         `json:"sigs"` // hex fnv64 of distinct non-trivial signatures
	Samples     []any            `json:"samples"`
	Exhaustive  bool             `json:"exhaustive,omitempty"`
	sigset      map[uint64]struct{}
	sampleSeen  int64
}

type knownEntry struct {
	Property    string `json:"property"`
	Fingerprint string `json:"fingerprint"`
	Status      string `json:"status"`
	Description string `json:"description"`
}

type violation struct {
	Fingerprint string `json:"fingerprint"`
	Part        string `json:"part"`
	Message     string `json:"message"`
	Replay      string `json:"replay"`
}

type output struct {
	Property   string                `json:"property"`
	Shard      int                   `json:"shard"`
	Seed       int64                 `json:"seed"`
	Tier       string                `json:"tier"`
	Parts      map[string]*partStats `json:"parts"`
	KnownHits  map[string]int64      `json:"known_hits"`
	Excluded   map[string]int64      `json:"excluded_known"`
	Violations []violation           `json:"violations"`
	WallS      float64               `json:"wall_s"`
	Notes      []string              `json:"notes,omitempty"`
}

var (
	mu       sync.Mutex
	out      = output{Parts: map[string]*partStats{}, KnownHits: map[string]int64{}, Excluded: map[string]int64{}}
	known    = map[string]knownEntry{}
	started  = time.Now()
	maxSamp  = 6
	initOnce sync.Once
)

// Tier returns "quick" or "thorough".
func Tier() string {
	if t := os.Getenv("VERIF_TIER"); t != "" {
		return t
	}
	return "quick"
}

func Thorough() bool { return Tier() == "thorough" }

func envInt(name string, def int) int {
	if v, err := strconv.Atoi(os.Getenv(name)); err == nil {
		return v
	}
	return def
}

// Shard / NShards let enumerating (non-rapid) tests partition their space.
func Shard() int { return envInt("VERIF_SHARD", 0) }
func NShards() int {
	n := envInt("VERIF_NSHARDS", 1)
	if n < 1 {
		n = 1
	}
	return n
}
func Seed() int64 { return int64(envInt("VERIF_SEED", 0)) }

// Scale returns q in the quick tier and th in the thorough tier.
func Scale(q, th int) int {
	if Thorough() {
		return th
	}
	return q
}

func doInit() {
	initOnce.Do(func() {
		out.Property = os.Getenv("VERIF_PROPERTY")
		out.Shard = Shard()
		out.Seed = Seed()
		out.Tier = Tier()
		if p := os.Getenv("VERIF_KNOWN"); p != "" {
			if b, err := os.ReadFile(p); err == nil {
				var f struct {
					Findings []knownEntry `json:"findings"`
				}
				if json.Unmarshal(b, &f) == nil {
					for _, e := range f.Findings {
						if e.Status == "known" {
							known[e.Fingerprint] = e
						}
					}
				}
			}
		}
	})
}

func part(name string) *partStats {
	p := out.Parts[name]
	if p == nil {
		p = &partStats{Labels: map[string]int64{}, sigset: map[uint64]struct{}{}}
		out.Parts[name] = p
	}
	return p
}

func h64(s string) uint64 { h := fnv.New64a(); h.Write([]byte(s)); return h.Sum64() }

// Case records one generated case. sig is the structural signature used for the distinct
// count; nontrivial is the per-property rule; labels feed the histogram.
func Case(partName, sig string, nontrivial bool, labels ...string) {
	mu.Lock()
	defer mu.Unlock()
	p := part(partName)
	p.Evaluations++
	if nontrivial {
		p.Nontrivial++
		p.sigset[h64(sig)] = struct{}{}
	}
	for _, l := range labels {
		p.Labels[l]++
	}
}

// Label adds to the histogram without counting a case.
func Label(partName string, labels ...string) {
	mu.Lock()
	defer mu.Unlock()
	p := part(partName)
	for _, l := range labels {
		p.Labels[l]++
	}
}

// Sample offers a case for the evidence samples (kept: the first few offered per part, then
// sparse replacement so late cases also show up).
func Sample(partName string, v any) {
	mu.Lock()
	defer mu.Unlock()
	p := part(partName)
	p.sampleSeen++
	if len(p.Samples) < maxSamp {
		p.Samples = append(p.Samples, v)
		return
	}
	// deterministic sparse replacement: powers of two
	n := p.sampleSeen
	if n&(n-1) == 0 {
		p.Samples[int(n)%maxSamp] = v
	}
}

// WantSample reports whether the next Sample call would be stored; lets callers avoid
// building expensive dumps.
func WantSample(partName string) bool {
	mu.Lock()
	defer mu.Unlock()
	p := part(partName)
	n := p.sampleSeen + 1
	return len(p.Samples) < maxSamp || n&(n-1) == 0
}

func Exhaustive(partName string) {
	mu.Lock()
	defer mu.Unlock()
	part(partName).Exhaustive = true
}

func Note(s string) {
	mu.Lock()
	defer mu.Unlock()
	out.Notes = append(out.Notes, s)
}

// IsKnown reports whether fingerprint is listed as a known (unrepaired) finding; generators
// use it to exclude exactly that case by construction. Each exclusion is counted.
func IsKnown(fingerprint string) bool {
	doInit()
	mu.Lock()
	defer mu.Unlock()
	_, ok := known[fingerprint]
	return ok
}

func Excluded(fingerprint string) {
	mu.Lock()
	defer mu.Unlock()
	out.Excluded[fingerprint]++
}

type alias struct{ suffix, canonical string }

var aliases []alias

// Alias declares that a fingerprint ending in suffix (whatever check composed it) denotes the
// finding whose fingerprint is canonical: one root cause observed through another property's
// check keeps the fingerprint it is recorded under.
func Alias(suffix, canonical string) {
	mu.Lock()
	defer mu.Unlock()
	aliases = append(aliases, alias{suffix, canonical})
}

// Violation reports an oracle failure. If the fingerprint is a listed known finding it is
// counted and true is returned (the caller continues); otherwise the case dump is written to
// the replay directory and the test fails.
func Violation(t TB, partName, fingerprint, msg string, dump any) bool {
	t.Helper()
	doInit()
	mu.Lock()
	for _, a := range aliases {
		if strings.HasSuffix(fingerprint, a.suffix) || strings.Contains(fingerprint, a.suffix+"/") {
			fingerprint = a.canonical
		}
	}
	if _, ok := known[fingerprint]; ok {
		out.KnownHits[fingerprint]++
		mu.Unlock()
		return true
	}
	replay := writeReplay(partName, fingerprint, msg, dump)
	// keep only the latest violation per part+fingerprint (shrinking re-reports)
	found := false
	for i := range out.Violations {
		if out.Violations[i].Part == partName && out.Violations[i].Fingerprint == fingerprint {
			out.Violations[i].Message = msg
			out.Violations[i].Replay = replay
			found = true
		}
	}
	if !found {
		out.Violations = append(out.Violations, violation{fingerprint, partName, msg, replay})
	}
	mu.Unlock()
	flush()
	t.Fatalf("VERIF-VIOLATION fingerprint=%s part=%s: %s", fingerprint, partName, msg)
	return false
}

func writeReplay(partName, fingerprint, msg string, dump any) string {
	dir := os.Getenv("VERIF_REPLAY_DIR")
	if dir == "" {
		return ""
	}
	os.MkdirAll(dir, 0o755)
	name := fmt.Sprintf("%s-%s-s%d-%016x.json", partName, os.Getenv("VERIF_TEST"), Shard(), h64(fingerprint))
	path := filepath.Join(dir, name)
	b, err := json.MarshalIndent(map[string]any{
		"property": os.Getenv("VERIF_PROPERTY"), "part": partName, "test": os.Getenv("VERIF_TEST"),
		"fingerprint": fingerprint, "message": msg, "case": dump,
		"rapid_seed": os.Getenv("VERIF_RAPID_SEED"), "rapid_checks": os.Getenv("VERIF_RAPID_CHECKS"),
		"rapid_failfile": os.Getenv("VERIF_RAPID_FAILFILE"),
		"tier":           Tier(), "shard": Shard(), "nshards": NShards(), "verif_seed": Seed(),
	}, "", " ")
	if err != nil {
		b, _ = json.Marshal(map[string]any{"fingerprint": fingerprint, "message": msg, "case": fmt.Sprintf("%+v", dump)})
	}
	os.WriteFile(path, b, 0o644)
	return path
}

func flush() {
	path := os.Getenv("VERIF_STATS")
	if path == "" {
		return
	}
	mu.Lock()
	defer mu.Unlock()
	for _, p := range out.Parts {
		p.Sigs = p.Sigs[:0]
		for s := range p.sigset {
			p.Sigs = append(p.Sigs, strconv.FormatUint(s, 16))
		}
		sort.Strings(p.Sigs)
	}
	out.WallS = time.Since(started).Seconds()
	b, err := json.Marshal(&out)
	if err != nil {
		// a sample that cannot be marshalled must not lose the counts
		for _, p := range out.Parts {
			for i, s := range p.Samples {
				p.Samples[i] = fmt.Sprintf("%+v", s)
			}
		}
		b, _ = json.Marshal(&out)
	}
	tmp := path + ".tmp"
	os.WriteFile(tmp, b, 0o644)
	os.Rename(tmp, path)
}

// Main is the TestMain body of every props package.
func Main(m *testing.M) {
	doInit()
	code := m.Run()
	flush()
	for _, f := range atExit {
		f()
	}
	os.Exit(code)
}

var atExit []func()

// AtExit registers a function run after the tests of the package, before the process exits.
func AtExit(f func()) { atExit = append(atExit, f) }
