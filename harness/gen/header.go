package gen

import (
	"fmt"
	"math/big"
	"time"

	btchash "github.com/btcsuite/btcd/chaincfg/chainhash"
	btcwire "github.com/btcsuite/btcd/wire"
	"github.com/dominant-strategies/go-quai/common"
	"github.com/dominant-strategies/go-quai/core/types"
	"github.com/dominant-strategies/go-quai/params"
	ltchash "github.com/dominant-strategies/ltcd/chaincfg/chainhash"
	ltcwire "github.com/dominant-strategies/ltcd/wire"
	bchhash "github.com/gcash/bchd/chaincfg/chainhash"
	bchwire "github.com/gcash/bchd/wire"
	"pgregory.net/rapid"
)

// Header fills every field of types.EmptyHeader() through the setters (the only way the
// production code populates a header besides decoding one).
func Header(t *rapid.T, g *Tags) *types.Header {
	h := types.EmptyHeader()
	if rapid.IntRange(0, 9).Draw(t, "hdr_empty") == 0 {
		g.Add("header:empty")
		return h
	}
	for i := 0; i < common.HierarchyDepth; i++ {
		h.SetManifestHash(Hash(t, fmt.Sprintf("manifest%d", i)), i)
		h.SetParentEntropy(Big(t, fmt.Sprintf("pent%d", i), 256), i)
		h.SetParentDeltaEntropy(Big(t, fmt.Sprintf("pdent%d", i), 256), i)
		h.SetParentUncledDeltaEntropy(Big(t, fmt.Sprintf("pudent%d", i), 256), i)
	}
	for i := 0; i < common.HierarchyDepth-1; i++ {
		h.SetParentHash(Hash(t, fmt.Sprintf("parent%d", i)), i)
		h.SetNumber(new(big.Int).SetUint64(U64(t, fmt.Sprintf("number%d", i))), i)
	}
	h.SetUncleHash(Hash(t, "uncleHash"))
	h.SetEVMRoot(Hash(t, "evmRoot"))
	h.SetUTXORoot(Hash(t, "utxoRoot"))
	h.SetTxHash(Hash(t, "txHash"))
	h.SetOutboundEtxHash(Hash(t, "oetxHash"))
	h.SetEtxSetRoot(Hash(t, "etxSetRoot"))
	h.SetEtxRollupHash(Hash(t, "etxRollup"))
	h.SetReceiptHash(Hash(t, "receiptHash"))
	h.SetPrimeTerminusHash(Hash(t, "ptHash"))
	h.SetInterlinkRootHash(Hash(t, "interlinkRoot"))
	h.SetEtxEligibleSlices(Hash(t, "eligible"))
	h.SetPrimeStateRoot(Hash(t, "primeStateRoot"))
	h.SetRegionStateRoot(Hash(t, "regionStateRoot"))
	h.SetQuaiStateSize(Big(t, "quaiStateSize", 256))
	h.SetUncledEntropy(Big(t, "uncledEntropy", 256))
	h.SetBaseFee(Big(t, "baseFee", 256))
	h.SetExchangeRate(Big(t, "exchangeRate", 256))
	h.SetAvgTxFees(Big(t, "avgTxFees", 256))
	h.SetTotalFees(Big(t, "totalFees", 256))
	h.SetKQuaiDiscount(Big(t, "kQuaiDiscount", 256))
	h.SetConversionFlowAmount(Big(t, "convFlow", 256))
	h.SetMinerDifficulty(Big(t, "minerDiff", 256))
	h.SetGasLimit(U64(t, "gasLimit"))
	h.SetGasUsed(U64(t, "gasUsed"))
	h.SetStateLimit(U64(t, "stateLimit"))
	h.SetStateUsed(U64(t, "stateUsed"))
	h.SetEfficiencyScore(U16(t, "effScore"))
	h.SetThresholdCount(U16(t, "threshold"))
	h.SetExpansionNumber(U8(t, "expansion"))
	h.SetExtra(Bytes(t, "extra", 40))
	if h.EfficiencyScore() == 0xffff || h.ThresholdCount() == 0xffff || h.ExpansionNumber() == 0xff || h.GasLimit() == ^uint64(0) {
		g.Add("maxwidth")
	}
	if len(h.Extra()) == 0 {
		g.Add("header:extra_empty")
	} else {
		g.Add("header:extra")
	}
	return h
}

// HeaderMutation is a copy of a header differing in one field.
type HeaderMutation struct {
	Field  string
	Header *types.Header
}

// HeaderMutations: one mutated copy per header field (every array slot separately).
func HeaderMutations(h *types.Header) []HeaderMutation {
	var out []HeaderMutation
	add := func(f string, fn func(c *types.Header)) {
		c := types.CopyHeader(h)
		fn(c)
		out = append(out, HeaderMutation{f, c})
	}
	for i := 0; i < common.HierarchyDepth; i++ {
		i := i
		add(fmt.Sprintf("manifestHash[%d]", i), func(c *types.Header) { c.SetManifestHash(flipHash(h.ManifestHash(i), 0), i) })
		add(fmt.Sprintf("parentEntropy[%d]", i), func(c *types.Header) { c.SetParentEntropy(bump(h.ParentEntropy(i)), i) })
		add(fmt.Sprintf("parentDeltaEntropy[%d]", i), func(c *types.Header) { c.SetParentDeltaEntropy(bump(h.ParentDeltaEntropy(i)), i) })
		add(fmt.Sprintf("parentUncledDeltaEntropy[%d]", i), func(c *types.Header) { c.SetParentUncledDeltaEntropy(bump(h.ParentUncledDeltaEntropy(i)), i) })
	}
	for i := 0; i < common.HierarchyDepth-1; i++ {
		i := i
		add(fmt.Sprintf("parentHash[%d]", i), func(c *types.Header) { c.SetParentHash(flipHash(h.ParentHash(i), 0), i) })
		add(fmt.Sprintf("number[%d]", i), func(c *types.Header) { c.SetNumber(new(big.Int).SetUint64(h.NumberU64(i)^1), i) })
	}
	add("uncleHash", func(c *types.Header) { c.SetUncleHash(flipHash(h.UncleHash(), 0)) })
	add("evmRoot", func(c *types.Header) { c.SetEVMRoot(flipHash(h.EVMRoot(), 0)) })
	add("utxoRoot", func(c *types.Header) { c.SetUTXORoot(flipHash(h.UTXORoot(), 0)) })
	add("txHash", func(c *types.Header) { c.SetTxHash(flipHash(h.TxHash(), 0)) })
	add("outboundEtxHash", func(c *types.Header) { c.SetOutboundEtxHash(flipHash(h.OutboundEtxHash(), 0)) })
	add("etxSetRoot", func(c *types.Header) { c.SetEtxSetRoot(flipHash(h.EtxSetRoot(), 0)) })
	add("etxRollupHash", func(c *types.Header) { c.SetEtxRollupHash(flipHash(h.EtxRollupHash(), 0)) })
	add("receiptHash", func(c *types.Header) { c.SetReceiptHash(flipHash(h.ReceiptHash(), 0)) })
	add("primeTerminusHash", func(c *types.Header) { c.SetPrimeTerminusHash(flipHash(h.PrimeTerminusHash(), 0)) })
	add("interlinkRootHash", func(c *types.Header) { c.SetInterlinkRootHash(flipHash(h.InterlinkRootHash(), 0)) })
	add("etxEligibleSlices", func(c *types.Header) { c.SetEtxEligibleSlices(flipHash(h.EtxEligibleSlices(), 0)) })
	add("primeStateRoot", func(c *types.Header) { c.SetPrimeStateRoot(flipHash(h.PrimeStateRoot(), 0)) })
	add("regionStateRoot", func(c *types.Header) { c.SetRegionStateRoot(flipHash(h.RegionStateRoot(), 0)) })
	add("quaiStateSize", func(c *types.Header) { c.SetQuaiStateSize(bump(h.QuaiStateSize())) })
	add("uncledEntropy", func(c *types.Header) { c.SetUncledEntropy(bump(h.UncledEntropy())) })
	add("baseFee", func(c *types.Header) { c.SetBaseFee(bump(h.BaseFee())) })
	add("exchangeRate", func(c *types.Header) { c.SetExchangeRate(bump(h.ExchangeRate())) })
	add("avgTxFees", func(c *types.Header) { c.SetAvgTxFees(bump(h.AvgTxFees())) })
	add("totalFees", func(c *types.Header) { c.SetTotalFees(bump(h.TotalFees())) })
	add("kQuaiDiscount", func(c *types.Header) { c.SetKQuaiDiscount(bump(h.KQuaiDiscount())) })
	add("conversionFlowAmount", func(c *types.Header) { c.SetConversionFlowAmount(bump(h.ConversionFlowAmount())) })
	add("minerDifficulty", func(c *types.Header) { c.SetMinerDifficulty(bump(h.MinerDifficulty())) })
	add("gasLimit", func(c *types.Header) { c.SetGasLimit(h.GasLimit() ^ 1) })
	add("gasUsed", func(c *types.Header) { c.SetGasUsed(h.GasUsed() ^ 1) })
	add("stateLimit", func(c *types.Header) { c.SetStateLimit(h.StateLimit() ^ 1) })
	add("stateUsed", func(c *types.Header) { c.SetStateUsed(h.StateUsed() ^ 1) })
	add("efficiencyScore", func(c *types.Header) { c.SetEfficiencyScore(h.EfficiencyScore() ^ 1) })
	add("efficiencyScore/hi", func(c *types.Header) { c.SetEfficiencyScore(h.EfficiencyScore() ^ 0x8000) })
	add("thresholdCount", func(c *types.Header) { c.SetThresholdCount(h.ThresholdCount() ^ 1) })
	add("thresholdCount/hi", func(c *types.Header) { c.SetThresholdCount(h.ThresholdCount() ^ 0x8000) })
	add("expansionNumber", func(c *types.Header) { c.SetExpansionNumber(h.ExpansionNumber() ^ 1) })
	add("expansionNumber/hi", func(c *types.Header) { c.SetExpansionNumber(h.ExpansionNumber() ^ 0x80) })
	add("extra", func(c *types.Header) { c.SetExtra(flipBytes(h.Extra())) })
	return out
}

// ---- AuxPoW ------------------------------------------------------------------------------------

var powNames = map[types.PowID]string{types.Kawpow: "kawpow", types.SHA_BTC: "sha_btc", types.SHA_BCH: "sha_bch", types.Scrypt: "scrypt"}

// PowID draws one of the four donor algorithms.
func PowID(t *rapid.T, label string) types.PowID {
	return types.PowID(rapid.IntRange(int(types.Kawpow), int(types.Scrypt)).Draw(t, label))
}

// DonorHeader builds the donor-chain header for powID from explicit field values (the
// repository's New*BlockHeader helpers stamp time.Now(), which would not be reproducible).
func DonorHeader(t *rapid.T, label string, powID types.PowID) *types.AuxPowHeader {
	version := int32(U32(t, label+"_version"))
	prev := Hash(t, label+"_prev")
	root := Hash(t, label+"_root")
	ts := U32(t, label+"_time")
	bits := U32(t, label+"_bits")
	nonce := U32(t, label+"_nonce")
	switch powID {
	case types.Kawpow:
		h := types.NewRavencoinBlockHeader(version, prev, root, ts, bits, U32(t, label+"_height"))
		h.Nonce64 = U64(t, label+"_nonce64")
		h.MixHash = Hash(t, label+"_mix")
		return types.NewAuxPowHeader(h)
	case types.SHA_BTC:
		return types.NewAuxPowHeader(types.NewBitcoinHeaderWrapper(&btcwire.BlockHeader{Version: version, PrevBlock: btchash.Hash(prev), MerkleRoot: btchash.Hash(root), Timestamp: time.Unix(int64(ts), 0), Bits: bits, Nonce: nonce}))
	case types.SHA_BCH:
		return types.NewAuxPowHeader(types.NewBitcoinCashHeaderWrapper(&bchwire.BlockHeader{Version: version, PrevBlock: bchhash.Hash(prev), MerkleRoot: bchhash.Hash(root), Timestamp: time.Unix(int64(ts), 0), Bits: bits, Nonce: nonce}))
	default:
		return types.NewAuxPowHeader(types.NewLitecoinHeaderWrapper(&ltcwire.BlockHeader{Version: version, PrevBlock: ltchash.Hash(prev), MerkleRoot: ltchash.Hash(root), Timestamp: time.Unix(int64(ts), 0), Bits: bits, Nonce: nonce}))
	}
}

func merkleBranch(t *rapid.T, label string) [][]byte {
	n := rapid.IntRange(0, 4).Draw(t, label+"_n")
	out := make([][]byte, n)
	for i := range out {
		out[i] = Blob(t, fmt.Sprintf("%s%d", label, i), 32)
	}
	return out
}

var defaultTemplates = []*types.AuxTemplate{types.DefaultKawpowAuxTemplate(), types.DefaultShaBchAuxTemplate(), types.DefaultScryptAuxTemplate()}

// CoinbaseTx builds donor coinbase bytes with the repository's constructor (scriptSig carrying
// height, seal hash and signature time, followed by a coinbase-out tail).
func CoinbaseTx(t *rapid.T, label string, powID types.PowID) []byte {
	var out []byte
	if rapid.Bool().Draw(t, label+"_deftail") {
		out = defaultTemplates[rapid.IntRange(0, len(defaultTemplates)-1).Draw(t, label+"_tail")].CoinbaseOut()
	} else {
		out = Blob(t, label+"_tail", rapid.IntRange(5, 60).Draw(t, label+"_tailn"))
	}
	return types.NewAuxPowCoinbaseTx(powID, U32(t, label+"_height"), out, Hash(t, label+"_seal"), U32(t, label+"_sigtime"))
}

// AuxPow always carries a donor header and a non-empty coinbase transaction (the decoder only
// materialises the AuxPow when both are present).
func AuxPow(t *rapid.T, label string, g *Tags) *types.AuxPow {
	powID := PowID(t, label+"_pow")
	g.Add("auxpow:" + powNames[powID])
	var auxPow2 []byte
	switch rapid.IntRange(0, 2).Draw(t, label+"_ap2") {
	case 0:
		auxPow2 = nil
	case 1:
		auxPow2 = []byte{}
	default:
		auxPow2 = Blob(t, label+"_ap2b", 32)
	}
	var sig []byte
	if rapid.IntRange(0, 3).Draw(t, label+"_sigk") == 0 {
		sig = Bytes(t, label+"_sig", 64)
	} else {
		sig = Blob(t, label+"_sig", 64)
	}
	return types.NewAuxPow(powID, DonorHeader(t, label+"_hdr", powID), auxPow2, sig, merkleBranch(t, label+"_mb"), CoinbaseTx(t, label+"_cb", powID))
}

func AuxTemplate(t *rapid.T, label string, g *Tags) *types.AuxTemplate {
	if k := rapid.IntRange(0, 7).Draw(t, label+"_default"); k < len(defaultTemplates) {
		g.Add("auxtemplate:default")
		// the Default* constructors return fresh values
		switch k {
		case 0:
			return types.DefaultKawpowAuxTemplate()
		case 1:
			return types.DefaultShaBchAuxTemplate()
		default:
			return types.DefaultScryptAuxTemplate()
		}
	}
	at := types.NewAuxTemplate()
	at.SetPowID(PowID(t, label+"_pow"))
	at.SetPrevHash(Hash(t, label+"_prev"))
	at.SetAuxPow2(Bytes(t, label+"_ap2", 32))
	at.SetVersion(U32(t, label+"_version"))
	at.SetNBits(U32(t, label+"_bits"))
	at.SetSignatureTime(U32(t, label+"_sigtime"))
	at.SetHeight(U32(t, label+"_height"))
	at.SetCoinbaseOut(Bytes(t, label+"_out", 60))
	at.SetMerkleBranch(merkleBranch(t, label+"_mb"))
	at.SetSigs(Bytes(t, label+"_sigs", 64))
	g.Add("auxtemplate:generated")
	return at
}

// ---- WorkObjectHeader --------------------------------------------------------------------------

// Regime of a work object header relative to the KawPoW fork.
type Regime int

const (
	PreFork    Regime = iota // primeTerminusNumber < KawPowForkBlock: ProgPoW hash, no fork fields on the wire
	Transition               // inside the grace period: fork fields present, AuxPoW optional
	PostFork                 // after the grace period: fork fields present, AuxPoW expected
	AnyRegime  Regime = -1
)

func (r Regime) String() string { return [...]string{"prefork", "transition", "postfork"}[r] }

func primeTerminusNumber(t *rapid.T, label string, r Regime) *big.Int {
	f, p := params.KawPowForkBlock, params.KawPowTransitionPeriod
	var choices []uint64
	switch r {
	case PreFork:
		choices = []uint64{0, 1, f / 2, f - 1}
	case Transition:
		choices = []uint64{f, f + 1, f + p - 1}
	default:
		choices = []uint64{f + p, f + p + 1, 1<<63 - 1, ^uint64(0)}
	}
	return new(big.Int).SetUint64(choices[rapid.IntRange(0, len(choices)-1).Draw(t, label)])
}

func diffAndCount(t *rapid.T, label string) *types.PowShareDiffAndCount {
	return types.NewPowShareDiffAndCount(Big(t, label+"_d", 256), Big(t, label+"_c", 64), Big(t, label+"_u", 64))
}

// WoOpts selects the shape of a generated work object header.
type WoOpts struct {
	Regime Regime
	// AuxPow: -1 draw, 0 never, 1 always (ignored before the fork, where it is never encoded)
	AuxPow int
	// NilInnerCoinbase allows the zero-value common.Address{} that types.EmptyWorkObject sets
	NilInnerCoinbase bool
	// NonZeroNumber forces number >= 1 (rawdb readers treat block number 0 specially)
	NonZeroNumber bool
}

// WorkObjectHeader builds a header with NewWorkObjectHeader. Before the fork the fork-only
// fields (share counters, targets, kawpow difficulty, AuxPoW) are left nil - the state every
// decoded or freshly mined pre-fork header is in; with tag "woh:prefork_forkfields" they carry
// values as in types.EmptyWorkObject (they are not part of the pre-fork encoding).
func WorkObjectHeader(t *rapid.T, label string, loc common.Location, o WoOpts, g *Tags) *types.WorkObjectHeader {
	r := o.Regime
	if r == AnyRegime {
		r = Regime(rapid.IntRange(0, 2).Draw(t, label+"_regime"))
	}
	g.Add("woh:" + r.String())
	var coinbase common.Address
	if o.NilInnerCoinbase && rapid.IntRange(0, 7).Draw(t, label+"_cbnil") == 0 {
		g.Add("woh:coinbase_nil_inner")
	} else {
		coinbase = Address(t, label+"_coinbase", loc)
	}
	var whLoc common.Location
	switch rapid.IntRange(0, 5).Draw(t, label+"_lock") {
	case 0:
		whLoc = common.Location{}
		g.Add("woh:loc_prime")
	case 1:
		whLoc = common.Location{byte(rapid.IntRange(0, 3).Draw(t, label+"_locr"))}
		g.Add("woh:loc_region")
	case 2:
		whLoc = ZoneLocation(t, label+"_locz")
		g.Add("woh:loc_zone")
	default:
		whLoc = append(common.Location{}, loc...)
	}
	number := new(big.Int).SetUint64(U64(t, label+"_number"))
	if o.NonZeroNumber && number.Sign() == 0 {
		number.SetUint64(7)
	}
	var (
		auxPow                 *types.AuxPow
		scrypt, sha            *types.PowShareDiffAndCount
		shaT, scryptT, kawDiff *big.Int
	)
	withFork := r != PreFork
	if r == PreFork && rapid.IntRange(0, 7).Draw(t, label+"_pff") == 0 {
		withFork = true
		g.Add("woh:prefork_forkfields")
	}
	if withFork {
		scrypt, sha = diffAndCount(t, label+"_scrypt"), diffAndCount(t, label+"_sha")
		shaT, scryptT, kawDiff = Big(t, label+"_shaT", 256), Big(t, label+"_scryptT", 256), Big(t, label+"_kaw", 256)
	} else {
		// NewWorkObjectHeader clones the counters, so a value is required
		scrypt, sha = &types.PowShareDiffAndCount{}, &types.PowShareDiffAndCount{}
	}
	if r != PreFork {
		want := o.AuxPow
		if want < 0 {
			want = rapid.IntRange(0, 1).Draw(t, label+"_auxk")
		}
		if want == 1 {
			auxPow = AuxPow(t, label+"_aux", g)
			g.Add("woh:auxpow")
		} else {
			g.Add("woh:no_auxpow")
		}
	}
	data := Bytes(t, label+"_data", 30)
	wh := types.NewWorkObjectHeader(Hash(t, label+"_hh"), Hash(t, label+"_ph"), number, Big(t, label+"_diff", 256),
		primeTerminusNumber(t, label+"_ptn", r), Hash(t, label+"_txh"), types.EncodeNonce(U64(t, label+"_nonce")), U8(t, label+"_lockb"),
		U64(t, label+"_time"), whLoc, coinbase, data, auxPow, scrypt, sha, shaT, scryptT, kawDiff)
	wh.SetMixHash(Hash(t, label+"_mix"))
	if wh.Lock() == 0xff || wh.Time() == ^uint64(0) {
		g.Add("maxwidth")
	}
	return wh
}

// WohMutation is a copy of a work object header differing in one field. Sealed tells whether
// the field is covered by SealHash; Pow whether it is one of mixHash/nonce (ProgPoW hash only);
// Aux whether it is an AuxPoW field (custom PoW hash only).
type WohMutation struct {
	Field            string
	Header           *types.WorkObjectHeader
	Sealed, Pow, Aux bool
	ForkOnly         bool // field only encoded at or after the fork
}

func copyDC(p *types.PowShareDiffAndCount, which int) *types.PowShareDiffAndCount {
	c := p.Clone()
	switch which {
	case 0:
		c.SetDifficulty(bump(p.Difficulty()))
	case 1:
		c.SetCount(bump(p.Count()))
	default:
		c.SetUncled(bump(p.Uncled()))
	}
	return c
}

// WohMutations keeps primeTerminusNumber inside the regime of wh.
func WohMutations(wh *types.WorkObjectHeader, loc common.Location) []WohMutation {
	var out []WohMutation
	add := func(f string, sealed, pow, aux, forkOnly bool, fn func(c *types.WorkObjectHeader)) {
		c := types.CopyWorkObjectHeader(wh)
		fn(c)
		out = append(out, WohMutation{f, c, sealed, pow, aux, forkOnly})
	}
	add("headerHash", true, false, false, false, func(c *types.WorkObjectHeader) { c.SetHeaderHash(flipHash(wh.HeaderHash(), 0)) })
	add("parentHash", true, false, false, false, func(c *types.WorkObjectHeader) { c.SetParentHash(flipHash(wh.ParentHash(), 0)) })
	add("number", true, false, false, false, func(c *types.WorkObjectHeader) { c.SetNumber(new(big.Int).SetUint64(wh.NumberU64() ^ 1)) })
	add("difficulty", true, false, false, false, func(c *types.WorkObjectHeader) { c.SetDifficulty(bump(wh.Difficulty())) })
	add("txHash", true, false, false, false, func(c *types.WorkObjectHeader) { c.SetTxHash(flipHash(wh.TxHash(), 0)) })
	// flipping the lowest bit stays in the regime for every value primeTerminusNumber() draws
	// except the exact regime borders, which are moved inwards instead
	add("primeTerminusNumber", true, false, false, false, func(c *types.WorkObjectHeader) {
		v := wh.PrimeTerminusNumber().Uint64()
		f, p := params.KawPowForkBlock, params.KawPowTransitionPeriod
		nv := v ^ 1
		same := func(a, b uint64) bool {
			cls := func(x uint64) int {
				switch {
				case x < f:
					return 0
				case x < f+p:
					return 1
				}
				return 2
			}
			return cls(a) == cls(b)
		}
		if !same(v, nv) {
			if same(v, v+2) && v+2 > v {
				nv = v + 2
			} else {
				nv = v - 2
			}
		}
		c.SetPrimeTerminusNumber(new(big.Int).SetUint64(nv))
	})
	add("location", true, false, false, false, func(c *types.WorkObjectHeader) {
		l := append(common.Location{}, wh.Location()...)
		if len(l) == 0 {
			l = common.Location{1}
		} else {
			l[len(l)-1] ^= 1
		}
		c.SetLocation(l)
	})
	add("lock", true, false, false, false, func(c *types.WorkObjectHeader) { c.SetLock(wh.Lock() ^ 1) })
	add("lock/hi", true, false, false, false, func(c *types.WorkObjectHeader) { c.SetLock(wh.Lock() ^ 0x80) })
	add("primaryCoinbase", true, false, false, false, func(c *types.WorkObjectHeader) {
		b := wh.PrimaryCoinbase().Bytes20()
		b[19] ^= 1
		c.SetPrimaryCoinbase(common.BytesToAddress(b[:], loc))
	})
	add("time", true, false, false, false, func(c *types.WorkObjectHeader) { c.SetTime(wh.Time() ^ 1) })
	add("data", true, false, false, false, func(c *types.WorkObjectHeader) { c.SetData(flipBytes(wh.Data())) })
	add("mixHash", false, true, false, false, func(c *types.WorkObjectHeader) { c.SetMixHash(flipHash(wh.MixHash(), 0)) })
	add("nonce", false, true, false, false, func(c *types.WorkObjectHeader) { c.SetNonce(types.EncodeNonce(wh.NonceU64() ^ 1)) })
	if wh.KawpowActivationHappened() {
		for w, n := range []string{"difficulty", "count", "uncled"} {
			w := w
			add("shaDiffAndCount/"+n, true, false, false, true, func(c *types.WorkObjectHeader) { c.SetShaDiffAndCount(copyDC(wh.ShaDiffAndCount(), w)) })
			add("scryptDiffAndCount/"+n, true, false, false, true, func(c *types.WorkObjectHeader) { c.SetScryptDiffAndCount(copyDC(wh.ScryptDiffAndCount(), w)) })
		}
		add("shaShareTarget", true, false, false, true, func(c *types.WorkObjectHeader) { c.SetShaShareTarget(bump(wh.ShaShareTarget())) })
		add("scryptShareTarget", true, false, false, true, func(c *types.WorkObjectHeader) { c.SetScryptShareTarget(bump(wh.ScryptShareTarget())) })
		add("kawpowDifficulty", true, false, false, true, func(c *types.WorkObjectHeader) { c.SetKawpowDifficulty(bump(wh.KawpowDifficulty())) })
		if ap := wh.AuxPow(); ap != nil {
			aux := func(f string, fn func(a *types.AuxPow)) {
				add("auxPow/"+f, false, false, true, true, func(c *types.WorkObjectHeader) {
					a := types.CopyAuxPow(ap)
					fn(a)
					c.SetAuxPow(a)
				})
			}
			aux("signature", func(a *types.AuxPow) { a.SetSignature(flipBytes(ap.Signature())) })
			aux("transaction", func(a *types.AuxPow) { a.SetTransaction(flipBytes(ap.Transaction())) })
			aux("auxPow2", func(a *types.AuxPow) { a.SetAuxPow2(flipBytes(ap.AuxPow2())) })
			aux("merkleBranch/add", func(a *types.AuxPow) {
				a.SetMerkleBranch(append(append([][]byte{}, ap.MerkleBranch()...), make([]byte, 32)))
			})
			if len(ap.MerkleBranch()) > 0 {
				aux("merkleBranch/0", func(a *types.AuxPow) {
					mb := append([][]byte{}, ap.MerkleBranch()...)
					mb[0] = flipBytes(mb[0])
					a.SetMerkleBranch(mb)
				})
			}
			aux("header/nonce", func(a *types.AuxPow) {
				if ap.PowID() == types.Kawpow {
					a.Header().SetNonce64(ap.Header().Nonce64() ^ 1)
				} else {
					a.Header().SetNonce(ap.Header().Nonce() ^ 1)
				}
			})
			// SHA_BTC and SHA_BCH share the 80-byte header layout: only the chain id differs
			if ap.PowID() == types.SHA_BTC || ap.PowID() == types.SHA_BCH {
				aux("powID", func(a *types.AuxPow) {
					raw := ap.Header().Bytes()
					var prev, root [32]byte
					copy(prev[:], raw[4:36])
					copy(root[:], raw[36:68])
					ts := time.Unix(int64(ap.Header().Timestamp()), 0)
					if ap.PowID() == types.SHA_BTC {
						a.SetPowID(types.SHA_BCH)
						a.SetHeader(types.NewAuxPowHeader(types.NewBitcoinCashHeaderWrapper(&bchwire.BlockHeader{Version: ap.Header().Version(), PrevBlock: bchhash.Hash(prev), MerkleRoot: bchhash.Hash(root), Timestamp: ts, Bits: ap.Header().Bits(), Nonce: ap.Header().Nonce()})))
					} else {
						a.SetPowID(types.SHA_BTC)
						a.SetHeader(types.NewAuxPowHeader(types.NewBitcoinHeaderWrapper(&btcwire.BlockHeader{Version: ap.Header().Version(), PrevBlock: btchash.Hash(prev), MerkleRoot: btchash.Hash(root), Timestamp: ts, Bits: ap.Header().Bits(), Nonce: ap.Header().Nonce()})))
					}
				})
			}
		}
	}
	return out
}

// ---- WorkObject and friends --------------------------------------------------------------------

func Manifest(t *rapid.T, label string) types.BlockManifest {
	m := types.BlockManifest(Hashes(t, label, 4))
	// now and then a long manifest (a region block lists every zone block since the last one)
	if len(m) > 0 && rapid.IntRange(0, 15).Draw(t, label+"_long") == 0 {
		n := rapid.SampledFrom([]int{63, 64, 127, 128, 129, 255, 256, 300}).Draw(t, label+"_longN")
		for i := len(m); i < n; i++ {
			h := m[i%4%len(m)]
			h[0], h[1], h[31] = byte(i), byte(i>>8), ^byte(i)
			m = append(m, h)
		}
	}
	return m
}

// Uncles are work object headers (workshares / uncles) of the same regime mix as blocks.
func Uncles(t *rapid.T, label string, loc common.Location, max int, g *Tags) []*types.WorkObjectHeader {
	n := rapid.IntRange(0, max).Draw(t, label+"_n")
	// the protocol bounds the list (16 shares, 32 after a fork): now and then a list around
	// those bounds; the encoders themselves have no bound
	many := 0
	if rapid.IntRange(0, 11).Draw(t, label+"_many") == 0 {
		many = rapid.SampledFrom([]int{15, 16, 17, 31, 32, 33, 40}).Draw(t, label+"_manyN")
		if n == 0 {
			n = 1
		}
	}
	out := make([]*types.WorkObjectHeader, n)
	for i := range out {
		out[i] = WorkObjectHeader(t, fmt.Sprintf("%s%d", label, i), loc, WoOpts{Regime: AnyRegime, AuxPow: -1}, nil)
	}
	// the rest of a long list: copies of the drawn entries told apart by their nonce
	for i := n; i < many; i++ {
		c := types.CopyWorkObjectHeader(out[i%n])
		var nonce types.BlockNonce
		nonce[0], nonce[7] = byte(i), byte(i>>3)+1
		c.SetNonce(nonce)
		out = append(out, c)
	}
	if len(out) > 0 {
		g.Add("wo:uncles")
	}
	if len(out) > 16 {
		g.Add("wo:uncles>16")
	}
	return out
}

// WorkObject builds a full block-view work object (header, body with every list, optional tx).
// The other views are derived from it with the repository's ConvertTo* helpers.
func WorkObject(t *rapid.T, loc common.Location, o WoOpts, g *Tags) *types.WorkObject {
	wh := WorkObjectHeader(t, "wh", loc, o, g)
	txs := Txs(t, "txs", loc, 3, -1, g)
	etxs := Txs(t, "etxs", loc, 2, 1, g)
	if len(txs) > 0 {
		g.Add("wo:txs")
	}
	if len(etxs) > 0 {
		g.Add("wo:etxs")
	}
	uncles := Uncles(t, "unc", loc, 2, g)
	manifest := Manifest(t, "manifest")
	interlink := common.Hashes(Hashes(t, "interlink", 4))
	if len(manifest) > 0 {
		g.Add("wo:manifest")
	}
	if len(interlink) > 0 {
		g.Add("wo:interlink")
	}
	var tx *types.Transaction
	switch rapid.IntRange(0, 3).Draw(t, "wotx_k") {
	case 0:
		tx = QuaiTx(t, loc, nil)
		g.Add("wo:tx")
	default:
		g.Add("wo:tx_nil")
	}
	wo := types.NewWorkObject(wh, nil, tx)
	return wo.WithBody(Header(t, g), txs, etxs, uncles, manifest, interlink)
}

func Termini(t *rapid.T, label string) types.Termini {
	tm := types.EmptyTermini()
	if rapid.IntRange(0, 4).Draw(t, label+"_empty") == 0 {
		return tm
	}
	for i := 0; i < common.MaxWidth; i++ {
		if rapid.IntRange(0, 3).Draw(t, fmt.Sprintf("%s_set%d", label, i)) == 0 {
			tm.SetDomTerminiAtIndex(Hash(t, fmt.Sprintf("%s_dom%d", label, i)), i)
			tm.SetSubTerminiAtIndex(Hash(t, fmt.Sprintf("%s_sub%d", label, i)), i)
		}
	}
	return tm
}

// PendingEtxs as core/slice.go builds them: header in PEtx view plus the outbound ETX list.
func PendingEtxs(t *rapid.T, loc common.Location, g *Tags) types.PendingEtxs {
	wo := WorkObject(t, loc, WoOpts{Regime: AnyRegime, AuxPow: -1}, g)
	return types.PendingEtxs{Header: wo.ConvertToPEtxView(), OutboundEtxs: Txs(t, "petxs", loc, 3, 1, g)}
}

func PendingEtxsRollup(t *rapid.T, loc common.Location, g *Tags) types.PendingEtxsRollup {
	wo := WorkObject(t, loc, WoOpts{Regime: AnyRegime, AuxPow: -1}, g)
	return types.PendingEtxsRollup{Header: wo.ConvertToPEtxView(), EtxsRollup: Txs(t, "rollup", loc, 3, 1, g)}
}

func PendingHeader(t *rapid.T, loc common.Location, g *Tags) types.PendingHeader {
	return types.NewPendingHeader(WorkObject(t, loc, WoOpts{Regime: AnyRegime, AuxPow: -1}, g), Termini(t, "termini"))
}
