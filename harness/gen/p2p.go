package gen

import (
	"math/big"

	"github.com/dominant-strategies/go-quai/common"
	"github.com/dominant-strategies/go-quai/core/types"
	"pgregory.net/rapid"
)

// P2PRequest is the argument tuple of pb.EncodeQuaiRequest.
type P2PRequest struct {
	ID       uint32
	Loc      common.Location
	Data     interface{} // common.Hash or *big.Int
	RespType interface{} // *WorkObjectBlockView, []*WorkObjectBlockView, *WorkObjectHeaderView or common.Hash
	Kind     string
}

func Request(t *rapid.T, g *Tags) P2PRequest {
	r := P2PRequest{ID: U32(t, "reqid"), Loc: Location(t, "reqloc")}
	if rapid.Bool().Draw(t, "req_byhash") {
		r.Data = Hash(t, "reqhash")
		r.Kind = "hash"
	} else {
		r.Data = new(big.Int).Set(Big(t, "reqnum", 64))
		r.Kind = "number"
	}
	switch rapid.IntRange(0, 3).Draw(t, "req_type") {
	case 0:
		r.RespType = &types.WorkObjectBlockView{}
		r.Kind += "/block"
	case 1:
		r.RespType = []*types.WorkObjectBlockView{}
		r.Kind += "/blocks"
	case 2:
		r.RespType = &types.WorkObjectHeaderView{}
		r.Kind += "/header"
	default:
		r.RespType = common.Hash{}
		r.Kind += "/blockhash"
	}
	g.Add("p2p:req:" + r.Kind)
	return r
}

// P2PResponse is the argument tuple of pb.EncodeQuaiResponse.
type P2PResponse struct {
	ID       uint32
	Loc      common.Location
	RespType interface{}
	Data     interface{}
	Kind     string
}

// Response builds a response carrying generated work objects in the view the handler uses
// (ConvertToBlockView / ConvertToHeaderView) or a block hash.
func Response(t *rapid.T, g *Tags) P2PResponse {
	loc := Location(t, "resploc")
	r := P2PResponse{ID: U32(t, "respid"), Loc: loc}
	switch rapid.IntRange(0, 3).Draw(t, "resp_type") {
	case 0:
		r.RespType = &types.WorkObjectBlockView{}
		r.Data = WorkObject(t, loc, WoOpts{Regime: AnyRegime, AuxPow: -1}, g).ConvertToBlockView()
		r.Kind = "block"
	case 1:
		r.RespType = []*types.WorkObjectBlockView{}
		n := rapid.IntRange(1, 2).Draw(t, "resp_n")
		var l []*types.WorkObjectBlockView
		for i := 0; i < n; i++ {
			l = append(l, WorkObject(t, loc, WoOpts{Regime: AnyRegime, AuxPow: -1}, g).ConvertToBlockView())
		}
		r.Data = l
		r.Kind = "blocks"
	case 2:
		r.RespType = &types.WorkObjectHeaderView{}
		r.Data = WorkObject(t, loc, WoOpts{Regime: AnyRegime, AuxPow: -1}, g).ConvertToHeaderView()
		r.Kind = "header"
	default:
		r.RespType = &common.Hash{}
		r.Data = Hash(t, "resphash")
		r.Kind = "blockhash"
	}
	g.Add("p2p:resp:" + r.Kind)
	return r
}
