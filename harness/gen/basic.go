// Package gen holds the reusable object generators of the verification harness: every function
// draws from a *rapid.T and returns a well-formed go-quai object (one that the production
// constructors / decoders can produce). The package contains no oracles; the structural
// classes a generator hit are reported through the optional *Tags collector.
package gen

import (
	"crypto/ecdsa"
	"encoding/binary"
	"fmt"
	"math/big"
	"sort"
	"strings"

	"github.com/btcsuite/btcd/btcec/v2"
	"github.com/dominant-strategies/go-quai/common"
	"github.com/dominant-strategies/go-quai/core/types"
	"github.com/dominant-strategies/go-quai/crypto"
	"pgregory.net/rapid"
)

// Tags collects the structural classes hit while generating one case. A nil *Tags is valid.
type Tags struct{ l []string }

func (g *Tags) Add(format string, a ...any) {
	if g == nil {
		return
	}
	if len(a) == 0 {
		g.l = append(g.l, format)
		return
	}
	g.l = append(g.l, fmt.Sprintf(format, a...))
}

// List returns the distinct tags in sorted order.
func (g *Tags) List() []string {
	if g == nil {
		return nil
	}
	seen := map[string]bool{}
	var out []string
	for _, s := range g.l {
		if !seen[s] {
			seen[s] = true
			out = append(out, s)
		}
	}
	sort.Strings(out)
	return out
}

func (g *Tags) Has(s string) bool {
	if g == nil {
		return false
	}
	for _, x := range g.l {
		if x == s {
			return true
		}
	}
	return false
}

// Sig is a structural signature (sorted distinct tags).
func (g *Tags) Sig() string { return strings.Join(g.List(), ",") }

// expand derives n pseudo-random bytes from a 64-bit seed (one rapid draw per blob keeps
// generation cheap; rapid shrinks the seed towards 0).
func expand(seed uint64, n int) []byte {
	out := make([]byte, 0, n+32)
	var ctr [16]byte
	binary.BigEndian.PutUint64(ctr[:8], seed)
	for i := uint64(0); len(out) < n; i++ {
		binary.BigEndian.PutUint64(ctr[8:], i)
		out = append(out, crypto.Keccak256(ctr[:])...)
	}
	return out[:n]
}

// Blob returns exactly n bytes.
func Blob(t *rapid.T, label string, n int) []byte {
	if n == 0 {
		return []byte{}
	}
	switch rapid.IntRange(0, 7).Draw(t, label+"_k") {
	case 0:
		return make([]byte, n)
	case 1:
		b := make([]byte, n)
		for i := range b {
			b[i] = 0xff
		}
		return b
	default:
		return expand(rapid.Uint64().Draw(t, label), n)
	}
}

// Bytes returns nil, an empty slice, or 1..max bytes.
func Bytes(t *rapid.T, label string, max int) []byte {
	switch rapid.IntRange(0, 5).Draw(t, label+"_len") {
	case 0:
		return nil
	case 1:
		return []byte{}
	case 2:
		return Blob(t, label, 1)
	default:
		return Blob(t, label, rapid.IntRange(1, max).Draw(t, label+"_n"))
	}
}

var specialHashes = []common.Hash{
	{}, types.EmptyRootHash, types.EmptyUncleHash,
	common.HexToHash("ffffffffffffffffffffffffffffffffffffffffffffffffffffffffffffffff"),
	common.HexToHash("0000000000000000000000000000000000000000000000000000000000000001"),
	common.HexToHash("0100000000000000000000000000000000000000000000000000000000000000"),
}

// Hash is biased towards the all-zero, "empty root" and all-ones values.
func Hash(t *rapid.T, label string) common.Hash {
	k := rapid.IntRange(0, 11).Draw(t, label+"_k")
	if k < len(specialHashes) {
		return specialHashes[k]
	}
	return common.BytesToHash(expand(rapid.Uint64().Draw(t, label), 32))
}

func Hashes(t *rapid.T, label string, max int) []common.Hash {
	n := rapid.IntRange(0, max).Draw(t, label+"_n")
	out := make([]common.Hash, n)
	for i := range out {
		out[i] = Hash(t, fmt.Sprintf("%s%d", label, i))
	}
	return out
}

func pow2(n uint) *big.Int { return new(big.Int).Lsh(big.NewInt(1), n) }

// Big returns a non-negative integer of at most maxBits bits, biased to the boundaries.
func Big(t *rapid.T, label string, maxBits int) *big.Int {
	max := new(big.Int).Sub(pow2(uint(maxBits)), big.NewInt(1))
	var v *big.Int
	switch rapid.IntRange(0, 11).Draw(t, label+"_k") {
	case 0:
		v = big.NewInt(0)
	case 1:
		v = big.NewInt(1)
	case 2:
		v = new(big.Int).SetUint64(^uint64(0))
	case 3:
		v = pow2(64)
	case 4:
		v = pow2(128)
	case 5:
		v = new(big.Int).Set(max)
	case 6:
		v = pow2(uint(maxBits - 1))
	case 7:
		v = big.NewInt(int64(rapid.IntRange(2, 300).Draw(t, label+"_small")))
	case 8:
		v = big.NewInt(0x80) // high bit in the first byte
	default:
		bits := rapid.IntRange(1, maxBits).Draw(t, label+"_bits")
		v = new(big.Int).SetBytes(expand(rapid.Uint64().Draw(t, label), (bits+7)/8))
		v.And(v, new(big.Int).Sub(pow2(uint(bits)), big.NewInt(1)))
	}
	if v.Cmp(max) > 0 {
		v.And(v, max)
	}
	return v
}

func U64(t *rapid.T, label string) uint64 {
	switch rapid.IntRange(0, 7).Draw(t, label+"_k") {
	case 0:
		return 0
	case 1:
		return 1
	case 2:
		return ^uint64(0)
	case 3:
		return 1 << 32
	case 4:
		return 1<<63 - 1
	case 5:
		return uint64(rapid.IntRange(2, 100000).Draw(t, label))
	default:
		return rapid.Uint64().Draw(t, label)
	}
}

func U32(t *rapid.T, label string) uint32 {
	switch rapid.IntRange(0, 5).Draw(t, label+"_k") {
	case 0:
		return 0
	case 1:
		return 1
	case 2:
		return ^uint32(0)
	case 3:
		return 1 << 31
	default:
		return rapid.Uint32().Draw(t, label)
	}
}

func U16(t *rapid.T, label string) uint16 {
	switch rapid.IntRange(0, 5).Draw(t, label+"_k") {
	case 0:
		return 0
	case 1:
		return 1
	case 2:
		return 0xffff
	case 3:
		return 0x100
	default:
		return rapid.Uint16().Draw(t, label)
	}
}

func U8(t *rapid.T, label string) uint8 {
	switch rapid.IntRange(0, 4).Draw(t, label+"_k") {
	case 0:
		return 0
	case 1:
		return 1
	case 2:
		return 0xff
	default:
		return rapid.Uint8().Draw(t, label)
	}
}

// ---- locations, keys, addresses ---------------------------------------------------------------

// ZoneLocation returns {r,z} with r,z in 0..3.
func ZoneLocation(t *rapid.T, label string) common.Location {
	return common.Location{byte(rapid.IntRange(0, 3).Draw(t, label+"_r")), byte(rapid.IntRange(0, 3).Draw(t, label+"_z"))}
}

// Location returns prime {}, a region {r} or a zone {r,z}; zones are the common case.
func Location(t *rapid.T, label string) common.Location {
	switch rapid.IntRange(0, 5).Draw(t, label+"_ctx") {
	case 0:
		return common.Location{}
	case 1:
		return common.Location{byte(rapid.IntRange(0, 3).Draw(t, label+"_r"))}
	default:
		return ZoneLocation(t, label)
	}
}

// DecodeLocations lists every location the decoders are exercised with.
func DecodeLocations() []common.Location {
	out := []common.Location{{}, {0}, {2}}
	for r := 0; r < 3; r++ {
		for z := 0; z < 3; z++ {
			out = append(out, common.Location{byte(r), byte(z)})
		}
	}
	return out
}

const nKeys = 8

var (
	keys    [nKeys]*ecdsa.PrivateKey
	btcKeys [nKeys]*btcec.PrivateKey
	pubs    [nKeys][]byte // 65-byte uncompressed
	pubsC   [nKeys][]byte // 33-byte compressed
)

func init() {
	for i := range keys {
		seed := crypto.Keccak256([]byte(fmt.Sprintf("verif-gen-key-%d", i)))
		k, err := crypto.ToECDSA(seed)
		if err != nil {
			panic(err)
		}
		keys[i] = k
		btcKeys[i], _ = btcec.PrivKeyFromBytes(seed)
		pubs[i] = crypto.FromECDSAPub(&k.PublicKey)
		pubsC[i] = crypto.CompressPubkey(&k.PublicKey)
	}
}

// KeyIndex picks one of the fixed process-wide secp256k1 keys.
func KeyIndex(t *rapid.T, label string) int { return rapid.IntRange(0, nKeys-1).Draw(t, label) }

func Key(i int) *ecdsa.PrivateKey    { return keys[i] }
func BtcKey(i int) *btcec.PrivateKey { return btcKeys[i] }
func PubKey(i int) []byte            { return common.CopyBytes(pubs[i]) }
func PubKeyCompressed(i int) []byte  { return common.CopyBytes(pubsC[i]) }
func KeyAddressBytes(i int) [20]byte {
	return crypto.PubkeyToAddress(keys[i].PublicKey, common.Location{0, 0}).Bytes20()
}
func NumKeys() int { return nKeys }

// AddressBytes draws 20 raw address bytes by (zone prefix, ledger bit, free bytes). loc is the
// node location the address is biased towards (ignored unless it is a zone).
func AddressBytes(t *rapid.T, label string, loc common.Location) [20]byte {
	var a [20]byte
	k := rapid.IntRange(0, 9).Draw(t, label+"_k")
	switch k {
	case 0:
		return a // 0x00…00
	case 1:
		if len(loc) == 2 {
			a[0] = loc.BytePrefix() // the zone's zero address
		}
		return a
	}
	copy(a[:], expand(rapid.Uint64().Draw(t, label), 20))
	switch {
	case k <= 5 && len(loc) == 2:
		a[0] = loc.BytePrefix()
	case k <= 7:
		a[0] = byte(rapid.IntRange(0, 3).Draw(t, label+"_r"))<<4 | byte(rapid.IntRange(0, 3).Draw(t, label+"_z"))
	}
	if rapid.Bool().Draw(t, label+"_qi") {
		a[1] |= 0x80
	} else {
		a[1] &= 0x7f
	}
	return a
}

// Address builds the address the way the decoders do (internal iff in scope of loc).
func Address(t *rapid.T, label string, loc common.Location) common.Address {
	b := AddressBytes(t, label, loc)
	return common.BytesToAddress(b[:], loc)
}
