package gen

import (
	"fmt"
	"math/big"

	"github.com/btcsuite/btcd/btcec/v2/schnorr"
	"github.com/dominant-strategies/go-quai/common"
	"github.com/dominant-strategies/go-quai/core/types"
	"github.com/dominant-strategies/go-quai/crypto"
	"pgregory.net/rapid"
)

// ChainID: small ids, the production id range and wide values.
func ChainID(t *rapid.T, label string) *big.Int {
	switch rapid.IntRange(0, 6).Draw(t, label+"_k") {
	case 0:
		return big.NewInt(1)
	case 1:
		return big.NewInt(9000)
	case 2:
		return big.NewInt(15000)
	case 3:
		return new(big.Int).SetUint64(^uint64(0))
	case 4:
		return big.NewInt(0)
	default:
		return Big(t, label, 256)
	}
}

// AccessList returns nil, an empty list or 1..3 tuples; storage key slices are never nil
// (every decoder and the interpreter produce non-nil slices).
func AccessList(t *rapid.T, label string, loc common.Location, g *Tags) types.AccessList {
	switch rapid.IntRange(0, 4).Draw(t, label+"_k") {
	case 0:
		g.Add("al:nil")
		return nil
	case 1:
		g.Add("al:empty")
		return types.AccessList{}
	}
	n := rapid.IntRange(1, 3).Draw(t, label+"_n")
	al := make(types.AccessList, n)
	for i := range al {
		keys := Hashes(t, fmt.Sprintf("%s_keys%d", label, i), 3)
		if keys == nil {
			keys = []common.Hash{}
		}
		al[i] = types.AccessTuple{Address: Address(t, fmt.Sprintf("%s_addr%d", label, i), loc), StorageKeys: keys}
	}
	g.Add("al:tuples")
	return al
}

func optHash(t *rapid.T, label string) *common.Hash {
	if rapid.Bool().Draw(t, label+"_present") {
		h := Hash(t, label)
		return &h
	}
	return nil
}

func optNonce(t *rapid.T, label string) *types.BlockNonce {
	if rapid.Bool().Draw(t, label+"_present") {
		n := types.EncodeNonce(U64(t, label))
		return &n
	}
	return nil
}

func workFields(t *rapid.T, g *Tags, pfx string) (*common.Hash, *common.Hash, *types.BlockNonce) {
	// the three work fields are usually all present or all absent; mixed masks are rarer
	switch rapid.IntRange(0, 5).Draw(t, "work_k") {
	case 0, 1, 2:
		g.Add(pfx + ":work_absent")
		return nil, nil, nil
	case 3:
		g.Add(pfx + ":work_present")
		ph, mh, wn := Hash(t, "wparent"), Hash(t, "wmix"), types.EncodeNonce(U64(t, "wnonce"))
		return &ph, &mh, &wn
	default:
		ph, mh, wn := optHash(t, "wparent"), optHash(t, "wmix"), optNonce(t, "wnonce")
		if ph == nil && mh == nil && wn == nil {
			g.Add(pfx + ":work_absent")
		} else if ph != nil && mh != nil && wn != nil {
			g.Add(pfx + ":work_present")
		} else {
			g.Add(pfx + ":work_mixed")
		}
		return ph, mh, wn
	}
}

// QuaiTx returns a Quai (account) transaction built through types.NewTx, either signed with one
// of the process keys, unsigned (V=R=S=0) or carrying in-range but arbitrary signature values.
func QuaiTx(t *rapid.T, loc common.Location, g *Tags) *types.Transaction {
	chainID := ChainID(t, "chainid")
	inner := &types.QuaiTx{
		ChainID:  chainID,
		Nonce:    U64(t, "nonce"),
		GasPrice: Big(t, "gasprice", 256),
		Gas:      U64(t, "gas"),
		Value:    Big(t, "value", 256),
		Data:     Bytes(t, "data", 70),
	}
	switch {
	case inner.Data == nil:
		g.Add("quai:data_nil")
	case len(inner.Data) == 0:
		g.Add("quai:data_empty")
	default:
		g.Add("quai:data")
	}
	if rapid.IntRange(0, 3).Draw(t, "to_k") == 0 {
		g.Add("quai:to_nil")
	} else {
		to := Address(t, "to", loc)
		inner.To = &to
		g.Add("quai:to")
	}
	inner.AccessList = AccessList(t, "al", loc, g)
	inner.ParentHash, inner.MixHash, inner.WorkNonce = workFields(t, g, "quai")
	if inner.Nonce == ^uint64(0) || inner.Gas == ^uint64(0) || inner.Value.BitLen() == 256 || inner.GasPrice.BitLen() == 256 {
		g.Add("maxwidth")
	}
	switch k := rapid.IntRange(0, 9).Draw(t, "sig_k"); {
	case k == 0:
		g.Add("quai:unsigned")
		return types.NewTx(inner)
	case k == 1:
		g.Add("quai:randsig")
		inner.V = big.NewInt(int64(rapid.IntRange(0, 1).Draw(t, "v")))
		inner.R = new(big.Int).Add(Big(t, "r", 254), big.NewInt(1))
		inner.S = new(big.Int).Add(Big(t, "s", 254), big.NewInt(1))
		return types.NewTx(inner)
	default:
		g.Add("quai:signed")
		tx, err := types.SignTx(types.NewTx(inner), types.NewSigner(chainID, loc), Key(KeyIndex(t, "key")))
		if err != nil {
			t.Fatalf("HARNESS: SignTx: %v", err)
		}
		return tx
	}
}

var etxTypeNames = []string{"default", "coinbase", "conversion", "coinbaselockup", "wrappingqi", "conversionrevert", "unwrapqi"}

// ExternalTx returns an ETX the way the state processor / EVM build them (NewTx of an
// ExternalTx literal with To and Sender always set). etxType < 0 draws the type.
func ExternalTx(t *rapid.T, loc common.Location, etxType int, g *Tags) *types.Transaction {
	if etxType < 0 {
		etxType = rapid.IntRange(0, 7).Draw(t, "etxtype")
	}
	typ := uint64(etxType)
	if etxType == 7 {
		// the type is an unchecked uint64 on the wire
		typ = U64(t, "etxtype_wide")
		g.Add("etx:type_other")
	} else {
		g.Add("etx:" + etxTypeNames[etxType])
	}
	to := Address(t, "to", loc)
	inner := &types.ExternalTx{
		OriginatingTxHash: Hash(t, "origin"),
		ETXIndex:          U16(t, "etxindex"),
		Gas:               U64(t, "gas"),
		To:                &to,
		Value:             Big(t, "value", 256),
		Data:              Bytes(t, "data", 70),
		AccessList:        AccessList(t, "al", loc, g),
		Sender:            Address(t, "sender", loc),
		EtxType:           typ,
	}
	if inner.Data == nil {
		g.Add("etx:data_nil")
	} else {
		g.Add("etx:data")
	}
	if inner.ETXIndex == 0xffff || inner.Gas == ^uint64(0) || inner.Value.BitLen() == 256 {
		g.Add("maxwidth")
	}
	return types.NewTx(inner)
}

// TxIn: outpoint plus the 65-byte uncompressed key (compressed=false, what the decoders hand
// out) or the 33-byte compressed form (what a wallet may put on the wire).
func TxIn(t *rapid.T, label string, compressed bool) types.TxIn {
	ki := KeyIndex(t, label+"_key")
	pk := PubKey(ki)
	if compressed {
		pk = PubKeyCompressed(ki)
	}
	return types.TxIn{PreviousOutPoint: OutPoint(t, label+"_op"), PubKey: pk}
}

func OutPoint(t *rapid.T, label string) types.OutPoint {
	return types.OutPoint{TxHash: Hash(t, label+"_hash"), Index: U16(t, label+"_idx")}
}

// Lock: nil, zero or a block height.
func Lock(t *rapid.T, label string, allowNil bool, g *Tags, pfx string) *big.Int {
	switch rapid.IntRange(0, 3).Draw(t, label+"_k") {
	case 0:
		if allowNil {
			g.Add(pfx + ":lock_nil")
			return nil
		}
		fallthrough
	case 1:
		g.Add(pfx + ":lock_zero")
		return big.NewInt(0)
	default:
		g.Add(pfx + ":lock_set")
		return new(big.Int).Add(Big(t, label, 64), big.NewInt(1))
	}
}

func Denomination(t *rapid.T, label string) uint8 {
	switch rapid.IntRange(0, 5).Draw(t, label+"_k") {
	case 0:
		return 0
	case 1:
		return types.MaxDenomination
	case 2:
		return U8(t, label+"_any") // > 14 is a syntactically valid, consensus-invalid value
	default:
		return uint8(rapid.IntRange(0, types.MaxDenomination).Draw(t, label))
	}
}

func TxOut(t *rapid.T, label string, loc common.Location, allowNilLock bool, g *Tags) types.TxOut {
	a := AddressBytes(t, label+"_addr", loc)
	return types.TxOut{Denomination: Denomination(t, label+"_den"), Address: a[:], Lock: Lock(t, label+"_lock", allowNilLock, g, "qi")}
}

// SchnorrSig: a real BIP-340 signature or 64 in-range bytes.
func SchnorrSig(t *rapid.T, label string) *schnorr.Signature {
	if rapid.Bool().Draw(t, label+"_real") {
		msg := expand(rapid.Uint64().Draw(t, label+"_msg"), 32)
		sig, err := schnorr.Sign(BtcKey(KeyIndex(t, label+"_key")), msg)
		if err != nil {
			t.Fatalf("HARNESS: schnorr sign: %v", err)
		}
		return sig
	}
	b := Blob(t, label, 64)
	b[0] &= 0x3f  // r < p
	b[32] &= 0x3f // s < n
	sig, err := schnorr.ParseSignature(b)
	if err != nil {
		t.Fatalf("HARNESS: schnorr parse: %v", err)
	}
	return sig
}

// QiTx returns a Qi (UTXO) transaction with >= 1 input. compressedKeys makes the inputs carry
// 33-byte keys (the proto codec canonicalises both forms to the same bytes).
func QiTx(t *rapid.T, loc common.Location, compressedKeys, allowNilLock bool, g *Tags) *types.Transaction {
	nIn := rapid.IntRange(1, 3).Draw(t, "nin")
	nOut := rapid.IntRange(0, 3).Draw(t, "nout")
	inner := &types.QiTx{ChainID: ChainID(t, "chainid"), Signature: SchnorrSig(t, "sig")}
	for i := 0; i < nIn; i++ {
		inner.TxIn = append(inner.TxIn, TxIn(t, fmt.Sprintf("in%d", i), compressedKeys))
	}
	for i := 0; i < nOut; i++ {
		inner.TxOut = append(inner.TxOut, TxOut(t, fmt.Sprintf("out%d", i), loc, allowNilLock, g))
	}
	if nOut == 0 {
		g.Add("qi:no_outputs")
	}
	if compressedKeys {
		g.Add("qi:compressed_keys")
	}
	switch rapid.IntRange(0, 4).Draw(t, "data_k") {
	case 0:
		g.Add("qi:data_nil")
	case 1:
		inner.Data = []byte{}
		g.Add("qi:data_empty")
	case 2:
		inner.Data = Blob(t, "data", 20) // wrap target
		g.Add("qi:data")
	case 3:
		inner.Data = Blob(t, "data", 22) // conversion with slippage
		g.Add("qi:data")
	default:
		inner.Data = Blob(t, "data", rapid.IntRange(1, 40).Draw(t, "data_n"))
		g.Add("qi:data")
	}
	inner.ParentHash, inner.MixHash, inner.WorkNonce = workFields(t, g, "qi")
	return types.NewTx(inner)
}

// Tx draws any transaction kind. kind: 0 quai, 1 etx, 2 qi, <0 any.
func Tx(t *rapid.T, loc common.Location, kind int, g *Tags) *types.Transaction {
	if kind < 0 {
		kind = rapid.IntRange(0, 2).Draw(t, "txkind")
	}
	switch kind {
	case 0:
		return QuaiTx(t, loc, g)
	case 1:
		return ExternalTx(t, loc, -1, g)
	default:
		return QiTx(t, loc, false, false, g)
	}
}

// Txs draws 0..max transactions; each element is generated under its own label scope.
func Txs(t *rapid.T, label string, loc common.Location, max int, kind int, g *Tags) types.Transactions {
	n := rapid.IntRange(0, max).Draw(t, label+"_n")
	out := make(types.Transactions, 0, n)
	for i := 0; i < n; i++ {
		out = append(out, Tx(t, loc, kind, g))
	}
	return out
}

// ---- single-field mutations (for hash injectivity checks) --------------------------------------

// Mutation is a copy of an object in which exactly the named consensus field differs.
type TxMutation struct {
	Field string
	Tx    *types.Transaction
}

func flipHash(h common.Hash, bit uint) common.Hash { h[31-bit/8] ^= 1 << (bit % 8); return h }

func flipBytes(b []byte) []byte {
	c := common.CopyBytes(b)
	if len(c) == 0 {
		return []byte{1}
	}
	c[len(c)-1] ^= 1
	return c
}

func bump(v *big.Int) *big.Int { return new(big.Int).Add(v, big.NewInt(1)) }

func flipAddr(a common.Address, loc common.Location) common.Address {
	b := a.Bytes20()
	b[19] ^= 1
	return common.BytesToAddress(b[:], loc)
}

func mutateAccessList(al types.AccessList, loc common.Location, which int) types.AccessList {
	out := make(types.AccessList, len(al))
	for i, tp := range al {
		out[i] = types.AccessTuple{Address: tp.Address, StorageKeys: append([]common.Hash{}, tp.StorageKeys...)}
	}
	switch {
	case which == 0 || len(out) == 0: // add a tuple
		return append(out, types.AccessTuple{Address: common.BytesToAddress([]byte{1}, loc), StorageKeys: []common.Hash{}})
	case which == 1: // change an address
		out[0].Address = flipAddr(out[0].Address, loc)
	default: // add a storage key
		out[0].StorageKeys = append(out[0].StorageKeys, common.Hash{1})
	}
	return out
}

// TxMutations returns, for every consensus field of tx, a transaction differing in that field
// only. Signed Quai transactions are mutated without re-signing (the signature is a field too).
func TxMutations(tx *types.Transaction, loc common.Location) []TxMutation {
	var out []TxMutation
	add := func(f string, in types.TxData) { out = append(out, TxMutation{f, types.NewTx(in)}) }
	switch in := tx.Inner().(type) {
	case *types.QuaiTx:
		c := func() *types.QuaiTx { v := *in; return &v }
		m := c()
		m.ChainID = bump(in.ChainID)
		add("chainId", m)
		m = c()
		m.Nonce = in.Nonce ^ 1
		add("nonce", m)
		m = c()
		m.GasPrice = bump(in.GasPrice)
		add("gasPrice", m)
		m = c()
		m.Gas = in.Gas ^ 1
		add("gas", m)
		m = c()
		if in.To == nil {
			a := common.BytesToAddress([]byte{}, loc)
			m.To = &a
			add("to(nil->zero)", m)
		} else {
			a := flipAddr(*in.To, loc)
			m.To = &a
			add("to", m)
			m = c()
			m.To = nil
			add("to(->nil)", m)
		}
		m = c()
		m.Value = bump(in.Value)
		add("value", m)
		m = c()
		m.Data = flipBytes(in.Data)
		add("data", m)
		for w := 0; w < 3; w++ {
			m = c()
			m.AccessList = mutateAccessList(in.AccessList, loc, w)
			add(fmt.Sprintf("accessList/%d", w), m)
		}
		m = c()
		m.V = new(big.Int).Xor(in.V, big.NewInt(1))
		add("v", m)
		m = c()
		m.R = bump(in.R)
		add("r", m)
		m = c()
		m.S = bump(in.S)
		add("s", m)
		m = c()
		if in.ParentHash == nil {
			m.ParentHash = &common.Hash{}
		} else {
			h := flipHash(*in.ParentHash, 0)
			m.ParentHash = &h
		}
		add("parentHash", m)
		m = c()
		if in.MixHash == nil {
			m.MixHash = &common.Hash{}
		} else {
			h := flipHash(*in.MixHash, 0)
			m.MixHash = &h
		}
		add("mixHash", m)
		m = c()
		if in.WorkNonce == nil {
			m.WorkNonce = &types.BlockNonce{}
		} else {
			n := types.EncodeNonce(in.WorkNonce.Uint64() ^ 1)
			m.WorkNonce = &n
		}
		add("workNonce", m)
	case *types.ExternalTx:
		c := func() *types.ExternalTx { v := *in; return &v }
		m := c()
		m.OriginatingTxHash = flipHash(in.OriginatingTxHash, 0)
		add("originatingTxHash", m)
		m = c()
		m.ETXIndex = in.ETXIndex ^ 1
		add("etxIndex", m)
		m = c()
		m.ETXIndex = in.ETXIndex ^ 0x100
		add("etxIndex/hi", m)
		m = c()
		m.Gas = in.Gas ^ 1
		add("gas", m)
		m = c()
		a := flipAddr(*in.To, loc)
		m.To = &a
		add("to", m)
		m = c()
		m.Value = bump(in.Value)
		add("value", m)
		m = c()
		m.Data = flipBytes(in.Data)
		add("data", m)
		for w := 0; w < 3; w++ {
			m = c()
			m.AccessList = mutateAccessList(in.AccessList, loc, w)
			add(fmt.Sprintf("accessList/%d", w), m)
		}
		m = c()
		m.Sender = flipAddr(in.Sender, loc)
		add("sender", m)
		m = c()
		m.EtxType = in.EtxType ^ 1
		add("etxType", m)
	case *types.QiTx:
		c := func() *types.QiTx {
			v := *in
			v.TxIn = append(types.TxIns{}, in.TxIn...)
			v.TxOut = append(types.TxOuts{}, in.TxOut...)
			return &v
		}
		m := c()
		m.ChainID = bump(in.ChainID)
		add("chainId", m)
		m = c()
		m.TxIn[0].PreviousOutPoint.TxHash = flipHash(in.TxIn[0].PreviousOutPoint.TxHash, 0)
		add("txIn/hash", m)
		m = c()
		m.TxIn[len(m.TxIn)-1].PreviousOutPoint.Index ^= 1
		add("txIn/index", m)
		m = c()
		m.TxIn[0].PreviousOutPoint.Index ^= 0x8000
		add("txIn/index/hi", m)
		m = c()
		other := PubKey(0)
		if string(crypto.CompressPubkey(&Key(0).PublicKey)) == string(compress(in.TxIn[0].PubKey)) {
			other = PubKey(1)
		}
		m.TxIn[0].PubKey = other
		add("txIn/pubKey", m)
		m = c()
		m.TxIn = append(m.TxIn, in.TxIn[0])
		add("txIn/count", m)
		if len(in.TxOut) > 0 {
			m = c()
			m.TxOut[0].Denomination ^= 1
			add("txOut/denomination", m)
			m = c()
			m.TxOut[0].Address = flipBytes(in.TxOut[0].Address)
			add("txOut/address", m)
			m = c()
			l := in.TxOut[0].Lock
			if l == nil {
				l = new(big.Int)
			}
			m.TxOut[0].Lock = bump(l)
			add("txOut/lock", m)
		}
		m = c()
		m.TxOut = append(m.TxOut, types.TxOut{Denomination: 1, Address: make([]byte, 20), Lock: big.NewInt(0)})
		add("txOut/count", m)
		m = c()
		sb := in.Signature.Serialize()
		sb[63] ^= 1
		m.Signature, _ = schnorr.ParseSignature(sb)
		add("signature", m)
		m = c()
		m.Data = flipBytes(in.Data)
		add("data", m)
		m = c()
		if in.ParentHash == nil {
			m.ParentHash = &common.Hash{}
		} else {
			h := flipHash(*in.ParentHash, 0)
			m.ParentHash = &h
		}
		add("parentHash", m)
		m = c()
		if in.MixHash == nil {
			m.MixHash = &common.Hash{}
		} else {
			h := flipHash(*in.MixHash, 0)
			m.MixHash = &h
		}
		add("mixHash", m)
		m = c()
		if in.WorkNonce == nil {
			m.WorkNonce = &types.BlockNonce{}
		} else {
			n := types.EncodeNonce(in.WorkNonce.Uint64() ^ 1)
			m.WorkNonce = &n
		}
		add("workNonce", m)
	}
	return out
}

func compress(pk []byte) []byte {
	if len(pk) == 65 {
		if p, err := crypto.UnmarshalPubkey(pk); err == nil {
			return crypto.CompressPubkey(p)
		}
	}
	return pk
}
