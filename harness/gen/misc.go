package gen

import (
	"fmt"

	"github.com/dominant-strategies/go-quai/common"
	"github.com/dominant-strategies/go-quai/core/types"
	"github.com/dominant-strategies/go-quai/params"
	"pgregory.net/rapid"
)

// Log as the EVM creates it (non-nil topic slice, consensus fields only; the derived fields are
// filled by DeriveFields and are not stored).
func Log(t *rapid.T, label string, loc common.Location) *types.Log {
	topics := Hashes(t, label+"_topics", 4)
	if topics == nil {
		topics = []common.Hash{}
	}
	return &types.Log{Address: Address(t, label+"_addr", loc), Topics: topics, Data: Bytes(t, label+"_data", 64)}
}

// Receipt as the state processor builds it before storage. Status: 0 failed, 1 successful,
// 2 locked (tag "receipt:locked").
func Receipt(t *rapid.T, label string, loc common.Location, allowLocked bool, g *Tags) *types.Receipt {
	r := &types.Receipt{
		Type:              uint8(rapid.IntRange(0, 2).Draw(t, label+"_type")),
		CumulativeGasUsed: U64(t, label+"_cum"),
		TxHash:            Hash(t, label+"_txhash"),
		GasUsed:           U64(t, label+"_gas"),
	}
	switch k := rapid.IntRange(0, 3).Draw(t, label+"_status"); {
	case k == 0:
		r.Status = types.ReceiptStatusFailed
		g.Add("receipt:failed")
	case k == 1 && allowLocked:
		r.Status = types.ReceiptStatusLocked
		g.Add("receipt:locked")
	default:
		r.Status = types.ReceiptStatusSuccessful
		g.Add("receipt:ok")
	}
	if rapid.IntRange(0, 2).Draw(t, label+"_ca") == 0 {
		r.ContractAddress = Address(t, label+"_contract", loc)
		g.Add("receipt:contract")
	} else {
		g.Add("receipt:no_contract") // common.Address{} as left by the state processor
	}
	n := rapid.IntRange(0, 3).Draw(t, label+"_nlogs")
	for i := 0; i < n; i++ {
		r.Logs = append(r.Logs, Log(t, fmt.Sprintf("%s_log%d", label, i), loc))
	}
	if n > 0 {
		g.Add("receipt:logs")
	}
	ne := rapid.IntRange(0, 2).Draw(t, label+"_netx")
	for i := 0; i < ne; i++ {
		r.OutboundEtxs = append(r.OutboundEtxs, ExternalTx(t, loc, -1, nil))
	}
	if ne > 0 {
		g.Add("receipt:etxs")
	}
	r.Bloom = types.CreateBloom(types.Receipts{r})
	return r
}

func Receipts(t *rapid.T, loc common.Location, allowLocked bool, g *Tags) types.Receipts {
	n := rapid.IntRange(1, 3).Draw(t, "nreceipts")
	out := make(types.Receipts, n)
	for i := range out {
		out[i] = Receipt(t, fmt.Sprintf("rc%d", i), loc, allowLocked, g)
	}
	return out
}

func UtxoEntry(t *rapid.T, label string, loc common.Location, g *Tags) *types.UtxoEntry {
	o := TxOut(t, label, loc, true, nil)
	switch {
	case o.Lock == nil:
		g.Add("utxo:lock_nil")
	case o.Lock.Sign() == 0:
		g.Add("utxo:lock_zero")
	default:
		g.Add("utxo:lock_set")
	}
	return types.NewUtxoEntry(&o)
}

func SpentUtxoEntry(t *rapid.T, label string, loc common.Location, g *Tags) *types.SpentUtxoEntry {
	return &types.SpentUtxoEntry{OutPoint: OutPoint(t, label+"_op"), UtxoEntry: UtxoEntry(t, label+"_e", loc, g)}
}

func OutpointAndDenomination(t *rapid.T, label string, g *Tags) *types.OutpointAndDenomination {
	o := &types.OutpointAndDenomination{TxHash: Hash(t, label+"_hash"), Index: U16(t, label+"_idx"), Denomination: Denomination(t, label+"_den")}
	o.Lock = Lock(t, label+"_lock", true, g, "opd")
	return o
}

// TokenChoiceSet fills a few slots of the fixed-size set.
func TokenChoiceSet(t *rapid.T, label string) *types.TokenChoiceSet {
	s := types.NewTokenChoiceSet()
	n := rapid.IntRange(0, 6).Draw(t, label+"_n")
	for i := 0; i < n; i++ {
		idx := rapid.IntRange(0, int(params.TokenChoiceSetSize)-1).Draw(t, fmt.Sprintf("%s_i%d", label, i))
		if i == 0 {
			idx = 0
		} else if i == 1 {
			idx = int(params.TokenChoiceSetSize) - 1
		}
		s[idx] = types.TokenChoices{Quai: U64(t, fmt.Sprintf("%s_q%d", label, i)), Qi: U64(t, fmt.Sprintf("%s_qi%d", label, i)), Diff: Big(t, fmt.Sprintf("%s_d%d", label, i), 256)}
	}
	return &s
}
