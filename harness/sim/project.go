//go:build verif

package sim

import (
	"bytes"
	"encoding/binary"
	"fmt"
	"math/big"
	"sort"

	"github.com/dominant-strategies/go-quai/common"
	"github.com/dominant-strategies/go-quai/core/rawdb"
	"github.com/dominant-strategies/go-quai/core/state"
	"github.com/dominant-strategies/go-quai/core/types"
	"github.com/dominant-strategies/go-quai/crypto/multiset"
	"github.com/dominant-strategies/go-quai/crypto"
	"github.com/dominant-strategies/go-quai/ethdb"
	"github.com/dominant-strategies/go-quai/rlp"
	"google.golang.org/protobuf/proto"
)

// UTXORec is one unspent Qi output as stored under the "ut" prefix.
type UTXORec struct {
	TxHash common.Hash
	Index  uint16
	Entry  *types.UtxoEntry
	Raw    []byte
}

func (u UTXORec) String() string {
	return fmt.Sprintf("%x:%d den=%d owner=%x lock=%v", u.TxHash[:6], u.Index, u.Entry.Denomination, u.Entry.Address, u.Entry.Lock)
}

// LockupRec is one coinbase-lockup record as stored under the "cl" prefix.
type LockupRec struct {
	Owner, Miner, Delegate common.Address
	LockupByte             byte
	Epoch                  uint32
	Balance                *big.Int
	UnlockHeight           uint32
	Elements               uint16
	Key, Raw               []byte
}

func (l LockupRec) String() string {
	return fmt.Sprintf("owner=%x miner=%x byte=%d epoch=%d bal=%v unlock=%d n=%d", l.Owner.Bytes()[:4], l.Miner.Bytes()[:4], l.LockupByte, l.Epoch, l.Balance, l.UnlockHeight, l.Elements)
}

// ScanUTXOs returns every record under the UTXO prefix with the exact UTXO key length, in key
// order. A record whose value cannot be decoded is returned with Entry == nil.
func ScanUTXOs(db ethdb.Iteratee) []UTXORec {
	var out []UTXORec
	it := db.NewIterator(rawdb.UtxoPrefix, nil)
	defer it.Release()
	for it.Next() {
		k := it.Key()
		if len(k) != rawdb.UtxoKeyLength {
			continue
		}
		h, idx, err := rawdb.ReverseUtxoKey(k)
		if err != nil {
			continue
		}
		rec := UTXORec{TxHash: h, Index: idx, Raw: append([]byte{}, it.Value()...)}
		p := new(types.ProtoTxOut)
		if err := proto.Unmarshal(rec.Raw, p); err == nil {
			e := new(types.UtxoEntry)
			if err := e.ProtoDecode(p); err == nil {
				rec.Entry = e
			}
		}
		out = append(out, rec)
	}
	return out
}

// ScanLockups returns every coinbase-lockup record (exact key length).
func ScanLockups(db ethdb.Iteratee, loc common.Location) []LockupRec {
	var out []LockupRec
	it := db.NewIterator(rawdb.CoinbaseLockupPrefix, nil)
	defer it.Release()
	for it.Next() {
		k := it.Key()
		if len(k) != rawdb.CoinbaseLockupKeyLength {
			continue
		}
		owner, miner, lb, epoch, err := rawdb.ReverseCoinbaseLockupKey(k, loc)
		if err != nil {
			continue
		}
		v := append([]byte{}, it.Value()...)
		rec := LockupRec{Owner: owner, Miner: miner, LockupByte: lb, Epoch: epoch, Key: append([]byte{}, k...), Raw: v, Delegate: common.Zero}
		if len(v) >= 38 {
			rec.Balance = new(big.Int).SetBytes(v[:32])
			rec.UnlockHeight = binary.BigEndian.Uint32(v[32:36])
			rec.Elements = binary.BigEndian.Uint16(v[36:38])
			if len(v) == 58 {
				rec.Delegate = common.BytesToAddress(v[38:], loc)
			}
		}
		out = append(out, rec)
	}
	return out
}

// RecomputeUTXOCommitment rebuilds the multiset hash and element count from exactly the
// records found in the database (independent of the node's incremental bookkeeping).
func RecomputeUTXOCommitment(db ethdb.Iteratee, loc common.Location) (common.Hash, uint64, error) {
	ms := multiset.New()
	var n uint64
	for _, u := range ScanUTXOs(db) {
		if u.Entry == nil {
			return common.Hash{}, 0, fmt.Errorf("undecodable utxo record %x:%d", u.TxHash, u.Index)
		}
		ms.Add(types.UTXOHash(u.TxHash, u.Index, u.Entry).Bytes())
		n++
	}
	for _, l := range ScanLockups(db, loc) {
		if l.Balance == nil {
			return common.Hash{}, 0, fmt.Errorf("undecodable lockup record %x", l.Key)
		}
		ms.Add(types.CoinbaseLockupHash(l.Owner, l.Miner, l.Delegate, l.LockupByte, l.Epoch, l.Balance, l.UnlockHeight, l.Elements).Bytes())
		n++
	}
	return ms.Hash(), n, nil
}

// spentAndTrimmed reports whether the head block spends an unlocked output of a trimmable
// denomination that was created exactly TrimDepth blocks earlier (i.e. in the block whose
// outputs the head trims).
func spentAndTrimmed(nd *Node, head *types.WorkObject) bool {
	blk := nd.Core.GetBlockByHash(head.Hash())
	if blk == nil {
		return false
	}
	spent, err := rawdb.ReadSpentUTXOs(nd.DB, head.Hash())
	if err != nil {
		return false
	}
	for _, s := range spent {
		if s.Denomination > types.MaxTrimDenomination || s.Lock == nil || s.Lock.Sign() != 0 {
			continue
		}
		depth := types.TrimDepths[s.Denomination]
		if head.NumberU64(Zone) <= depth {
			continue
		}
		trimmedBlock := rawdb.ReadCanonicalHash(nd.DB, head.NumberU64(Zone)-depth)
		keys, _ := rawdb.ReadCreatedUTXOKeys(nd.DB, trimmedBlock)
		want := rawdb.UtxoKeyWithDenomination(s.TxHash, s.Index, s.Denomination)
		for _, k := range keys {
			if bytes.Equal(k, want) {
				return true
			}
		}
	}
	return false
}

// KV is a flat key/value listing used for byte-exact comparisons.
type KV struct{ K, V []byte }

// ScanPrefix lists all records under a prefix (optionally filtered by exact key length; 0 = any).
func ScanPrefix(db ethdb.Iteratee, prefix []byte, keyLen int) []KV {
	var out []KV
	it := db.NewIterator(prefix, nil)
	defer it.Release()
	for it.Next() {
		if keyLen != 0 && len(it.Key()) != keyLen {
			continue
		}
		out = append(out, KV{append([]byte{}, it.Key()...), append([]byte{}, it.Value()...)})
	}
	return out
}

func show(b []byte) string {
	for _, c := range b {
		if c < 0x20 || c > 0x7e {
			return fmt.Sprintf("%x", b)
		}
	}
	return string(b)
}

// DiffKV describes the first few differences between two sorted listings.
func DiffKV(a, b []KV) string {
	am, bm := map[string][]byte{}, map[string][]byte{}
	for _, x := range a {
		am[string(x.K)] = x.V
	}
	for _, x := range b {
		bm[string(x.K)] = x.V
	}
	var d []string
	for k, v := range am {
		if w, ok := bm[k]; !ok {
			d = append(d, fmt.Sprintf("only-left %x", k))
		} else if !bytes.Equal(v, w) {
			d = append(d, fmt.Sprintf("value-differs %x: %s vs %s", k, show(v), show(w)))
		}
	}
	for k := range bm {
		if _, ok := am[k]; !ok {
			d = append(d, fmt.Sprintf("only-right %x", k))
		}
	}
	sort.Strings(d)
	if len(d) > 8 {
		d = append(d[:8], fmt.Sprintf("... %d more", len(d)-8))
	}
	return fmt.Sprint(d)
}

// ChainState is the projection of a zone node's chain state that reorganisation, restart and
// rejected blocks must preserve (DESIGN.md C07/C10/C11): head, canonical map, UTXO and lockup
// records, address index, and the head's stored commitments.
type ChainState struct {
	Head       common.Hash
	HeadNumber uint64
	Canonical  []common.Hash // index = number (0..HeadNumber)
	UTXOs      []KV
	Lockups    []KV
	AddrIndex  []KV
	AddrLocks  []KV
}

// ZoneChainState captures the projection of the zone node.
func (n *Net) ZoneChainState() *ChainState {
	return CaptureChainState(n.Nodes[Zone])
}

func CaptureChainState(nd *Node) *ChainState {
	db := nd.DB
	cs := &ChainState{}
	cs.Head = rawdb.ReadHeadBlockHash(db)
	if num := rawdb.ReadHeaderNumber(db, cs.Head); num != nil {
		cs.HeadNumber = *num
	}
	// canonical map: read a little beyond the head so stale entries above it are visible
	for i := uint64(0); i <= cs.HeadNumber+8; i++ {
		cs.Canonical = append(cs.Canonical, rawdb.ReadCanonicalHash(db, i))
	}
	cs.UTXOs = ScanPrefix(db, rawdb.UtxoPrefix, rawdb.UtxoKeyLength)
	cs.Lockups = ScanPrefix(db, rawdb.CoinbaseLockupPrefix, rawdb.CoinbaseLockupKeyLength)
	// address -> outpoint index: the stored value is a list whose order depends on history
	// (removal swaps the last element in); compare it as a set, an empty list equals no record
	for _, kv := range ScanPrefix(db, rawdb.AddressUtxosWithoutHeightPrefix, len(rawdb.AddressUtxosWithoutHeightPrefix)+common.AddressLength) {
		p := new(types.ProtoAddressOutPoints)
		var items []string
		if err := proto.Unmarshal(kv.V, p); err != nil {
			items = []string{fmt.Sprintf("undecodable:%x", kv.V)}
		} else {
			for _, op := range p.OutPoints {
				items = append(items, fmt.Sprintf("%x:%d:d%d:l%x", op.GetHash().GetValue(), op.GetIndex(), op.GetDenomination(), op.GetLock()))
			}
		}
		if len(items) == 0 {
			continue
		}
		sort.Strings(items)
		cs.AddrIndex = append(cs.AddrIndex, KV{kv.K, []byte(fmt.Sprint(items))})
	}
	// address -> locked balance: zero equals no record
	for _, kv := range ScanPrefix(db, rawdb.AddressLockupsPrefix, len(rawdb.AddressLockupsPrefix)+common.AddressLength) {
		v := new(big.Int).SetBytes(kv.V)
		if v.Sign() == 0 {
			continue
		}
		cs.AddrLocks = append(cs.AddrLocks, KV{kv.K, v.Bytes()})
	}
	return cs
}

// Diff returns "" when equal, otherwise a description of the first differences.
func (a *ChainState) Diff(b *ChainState) string {
	var d []string
	if a.Head != b.Head {
		d = append(d, fmt.Sprintf("head %x vs %x", a.Head[:6], b.Head[:6]))
	}
	for i := 0; i < len(a.Canonical) || i < len(b.Canonical); i++ {
		var x, y common.Hash
		if i < len(a.Canonical) {
			x = a.Canonical[i]
		}
		if i < len(b.Canonical) {
			y = b.Canonical[i]
		}
		if x != y {
			d = append(d, fmt.Sprintf("canonical[%d] %x vs %x", i, x[:6], y[:6]))
		}
	}
	if s := DiffKV(a.UTXOs, b.UTXOs); s != "[]" {
		d = append(d, "utxos "+s)
	}
	if s := DiffKV(a.Lockups, b.Lockups); s != "[]" {
		d = append(d, "lockups "+s)
	}
	if s := DiffKV(a.AddrIndex, b.AddrIndex); s != "[]" {
		d = append(d, "addr-index "+s)
	}
	if s := DiffKV(a.AddrLocks, b.AddrLocks); s != "[]" {
		d = append(d, "addr-lockups "+s)
	}
	if len(d) == 0 {
		return ""
	}
	return fmt.Sprint(d)
}

// CheckHeadCommitment verifies, for the zone node's current head, that the header's UTXO root
// and the stored set size equal what a scan of the database yields, and that the EVM and
// ETX-set roots open. It returns a fingerprint suffix and message, or "" if consistent.
func CheckHeadCommitment(nd *Node) (string, string) {
	head := nd.Core.CurrentHeader()
	if head == nil {
		return "no-head", "node reports no current header"
	}
	if nd.Core.Slice().HeaderChain().IsGenesisHash(head.Hash()) {
		return "", ""
	}
	root, n, err := RecomputeUTXOCommitment(nd.DB, nd.Loc)
	if err != nil {
		return "undecodable-record", err.Error()
	}
	if root != head.UTXORoot() {
		if spentAndTrimmed(nd, head) {
			return "spent-and-trimmed-same-block", fmt.Sprintf("head %x #%d spends a trimmable unlocked Qi output in the very block that trims it; header UTXORoot %x but database content hashes to %x", head.Hash().Bytes()[:6], head.NumberU64(Zone), head.UTXORoot().Bytes()[:8], root.Bytes()[:8])
		}
		// the double removal is inherited: once a block has taken an output out of the commitment
		// twice, the root of every descendant differs from the content by the same output
		for anc, i := nd.Core.GetBlockByHash(head.ParentHash(Zone)), 0; anc != nil && i < 4096 && !nd.Core.Slice().HeaderChain().IsGenesisHash(anc.Hash()); anc, i = nd.Core.GetBlockByHash(anc.ParentHash(Zone)), i+1 {
			if spentAndTrimmed(nd, anc) {
				return "spent-and-trimmed-same-block", fmt.Sprintf("ancestor #%d %x of head #%d spends a trimmable unlocked Qi output in the very block that trims it (inherited by every descendant); header UTXORoot %x but database content hashes to %x", anc.NumberU64(Zone), anc.Hash().Bytes()[:6], head.NumberU64(Zone), head.UTXORoot().Bytes()[:8], root.Bytes()[:8])
			}
		}
		return "utxo-root", fmt.Sprintf("head %x #%d: header UTXORoot %x but database content hashes to %x (%d records)", head.Hash().Bytes()[:6], head.NumberU64(Zone), head.UTXORoot().Bytes()[:8], root.Bytes()[:8], n)
	}
	if ms := rawdb.ReadMultiSet(nd.DB, head.Hash()); ms == nil {
		return "multiset-missing", fmt.Sprintf("no stored multiset for head %x", head.Hash().Bytes()[:6])
	} else if ms.Hash() != root {
		return "stored-multiset", fmt.Sprintf("stored multiset %x differs from database content %x", ms.Hash().Bytes()[:8], root.Bytes()[:8])
	}
	if sz := rawdb.ReadUTXOSetSize(nd.DB, head.Hash()); sz != n {
		return "utxo-set-size", fmt.Sprintf("head %x #%d: stored UTXOSetSize %d but database holds %d records", head.Hash().Bytes()[:6], head.NumberU64(Zone), sz, n)
	}
	st, err := nd.Core.Processor().StateAt(head.EVMRoot(), head.EtxSetRoot(), head.QuaiStateSize())
	if err != nil || st == nil {
		return "state-unopenable", fmt.Sprintf("state at head roots does not open: %v", err)
	}
	// "the EVM and ETX-set roots open to the account state and queue that later blocks use": every
	// node of the account trie, of every storage trie and of the ETX-set trie, and every contract's
	// code, must be retrievable (a root that resolves proves nothing about the rest)
	if _, _, err := WalkState(st, head.EVMRoot(), head.EtxSetRoot()); err != nil {
		return "state-incomplete", fmt.Sprintf("head %x #%d: %v", head.Hash().Bytes()[:6], head.NumberU64(Zone), err)
	}
	return "", ""
}

// WalkState visits every node of the account trie at evmRoot, of each account's storage trie and
// of the ETX-set trie at etxRoot, and loads every non-empty code. It returns the number of
// accounts and storage slots seen, or the first missing / undecodable item.
func WalkState(st *state.StateDB, evmRoot, etxRoot common.Hash) (accounts, slots int, err error) {
	db := st.Database()
	tr, err := db.OpenTrie(evmRoot)
	if err != nil {
		return 0, 0, fmt.Errorf("account trie %x does not open: %v", evmRoot.Bytes()[:6], err)
	}
	it := tr.NodeIterator(nil)
	for it.Next(true) {
		if !it.Leaf() {
			continue
		}
		accounts++
		var acc state.Account
		if e := rlp.DecodeBytes(it.LeafBlob(), &acc); e != nil {
			return accounts, slots, fmt.Errorf("account leaf %x does not decode: %v", it.LeafKey()[:6], e)
		}
		addrHash := common.BytesToHash(it.LeafKey())
		if acc.Root != types.EmptyRootHash && acc.Root != (common.Hash{}) {
			str, e := db.OpenStorageTrie(addrHash, acc.Root)
			if e != nil {
				return accounts, slots, fmt.Errorf("storage trie %x of account %x does not open: %v", acc.Root.Bytes()[:6], addrHash.Bytes()[:6], e)
			}
			sit := str.NodeIterator(nil)
			for sit.Next(true) {
				if sit.Leaf() {
					slots++
				}
			}
			if e := sit.Error(); e != nil {
				return accounts, slots, fmt.Errorf("storage trie of account %x is incomplete: %v", addrHash.Bytes()[:6], e)
			}
		}
		if len(acc.CodeHash) > 0 && !bytes.Equal(acc.CodeHash, crypto.Keccak256(nil)) {
			code, e := db.ContractCode(addrHash, common.BytesToHash(acc.CodeHash))
			if e != nil || len(code) == 0 {
				return accounts, slots, fmt.Errorf("code %x of account %x is missing: %v", acc.CodeHash[:6], addrHash.Bytes()[:6], e)
			}
		}
	}
	if e := it.Error(); e != nil {
		return accounts, slots, fmt.Errorf("account trie is incomplete: %v", e)
	}
	if etxRoot != types.EmptyRootHash && etxRoot != (common.Hash{}) {
		etr, e := st.ETXDatabase().OpenTrie(etxRoot)
		if e != nil {
			return accounts, slots, fmt.Errorf("ETX-set trie %x does not open: %v", etxRoot.Bytes()[:6], e)
		}
		eit := etr.NodeIterator(nil)
		for eit.Next(true) {
		}
		if e := eit.Error(); e != nil {
			return accounts, slots, fmt.Errorf("ETX-set trie is incomplete: %v", e)
		}
	}
	return accounts, slots, nil
}
