//go:build verif

package sim

import (
	"fmt"
	"math/big"
	"testing"

	"github.com/dominant-strategies/go-quai/core/types"
)

func TestActivity(t *testing.T) {
	n, err := NewNet(Options{})
	if err != nil {
		t.Fatal(err)
	}
	defer n.Close()
	qk := QuaiKeys(3)
	ik := QiKeys(3)
	h := n.GenesisHeads()
	orders := []int{0, 0, 0, 0, 2, 2, 0, 2, 2, 0, 2, 2, 0, 2, 2, 0, 2, 0, 2, 2, 0, 2, 2, 0}
	nonce := uint64(0)
	for i, o := range orders {
		cb := qk[0].Addr
		if i%3 == 1 && i >= 7 {
			cb = ik[0].Addr
		}
		st, _ := n.HeadState()
		bal := st.GetBalance(qk[0].Internal())
		if bal.Cmp(big.NewInt(1e18)) > 0 && i%2 == 0 && i > 5 {
			head := n.Nodes[Zone].Core.CurrentHeader()
			var tx *types.Transaction
			if i%4 == 0 {
				tx, err = QuaiTx(qk[0], nonce, &qk[1].Addr, big.NewInt(12345), 21000, head.BaseFee(), nil, nil)
			} else {
				// Quai -> Qi conversion
				tx, err = QuaiTx(qk[0], nonce, &ik[1].Addr, new(big.Int).Div(bal, big.NewInt(1000)), 200000, head.BaseFee(), nil, nil)
			}
			if err != nil {
				t.Fatal(err)
			}
			errs := n.SubmitTxs(tx)
			fmt.Println("  submit", i, errs)
			if errs[0] == nil {
				nonce++
			}
		}
		if us := n.OwnedUTXOs(ik[0].Addr); len(us) > 0 && i%5 == 0 {
			head := n.Nodes[Zone].Core.CurrentHeader()
			for _, u := range us {
				if u.Entry.Lock.Uint64() <= head.NumberU64(Zone) && u.Entry.Denomination >= 4 {
					tx, err := QiTx(ik[0], []UTXORec{u}, []QiOut{{Denomination: u.Entry.Denomination - 1, To: ik[2].Addr}}, nil)
					if err != nil {
						t.Fatal(err)
					}
					fmt.Println("  qi submit", n.SubmitTxs(tx), u)
					break
				}
			}
		}
		var b *Block
		h, b, err = n.Mine(h, MineOpts{Order: o, Salt: 1, Coinbase: cb})
		if err != nil {
			t.Fatalf("block %d: %v", i, err)
		}
		fp, msg := CheckHeadCommitment(n.Nodes[Zone])
		st, _ = n.HeadState()
		fmt.Println(i, "order", b.Order, "num", b.Zone().NumberArray(), "etxs", len(b.Etxs), "txs", len(b.Zone().Transactions()), "bal0", st.GetBalance(qk[0].Internal()), "bal1", st.GetBalance(qk[1].Internal()), "utxos", len(ScanUTXOs(n.Nodes[Zone].DB)), "cl", len(ScanLockups(n.Nodes[Zone].DB, ZoneLoc)), fp, msg)
		for _, tx := range b.Zone().Transactions() {
			fmt.Printf("      tx type %d etxtype %v\n", tx.Type(), func() any {
				if tx.Type() == types.ExternalTxType {
					return tx.EtxType()
				}
				return "-"
			}())
		}
	}
}
