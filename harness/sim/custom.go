//go:build verif

package sim

import (
	"fmt"
	"math/big"
	"regexp"

	"github.com/dominant-strategies/go-quai/core/types"
	"github.com/dominant-strategies/go-quai/params"
	"github.com/dominant-strategies/go-quai/trie"
)

var localRe = regexp.MustCompile(`local: (\d+)\)`)

// Refinalize turns a pending block whose transaction list was edited by the harness into a
// block a (non-standard but honest) miner could have produced: it executes the edited body with
// the node's own StateProcessor on a scratch batch and writes the results (fee fields, gas and
// state usage, receipt / transaction / outbound-ETX roots, UTXO root, EVM and ETX-set roots,
// state size) into the header, then registers the body under the new seal hash. It is the
// harness's custom miner: blocks that the stock worker never assembles (e.g. a Qi transaction
// spending an output created earlier in the same block) but that block processing accepts.
func (n *Net) Refinalize(full *types.WorkObject, txs []*types.Transaction) (*types.WorkObject, error) {
	return n.RefinalizeBody(full, txs, full.Uncles())
}

// RefinalizeBody is Refinalize with an edited uncle (workshare) list as well: the uncle hash and
// the uncled entropy are recomputed for the new list and the share rewards follow from executing
// the body.
func (n *Net) RefinalizeBody(full *types.WorkObject, txs []*types.Transaction, uncles []*types.WorkObjectHeader) (*types.WorkObject, error) {
	zone := n.Nodes[Zone]
	parent := zone.Core.GetBlockByHash(full.ParentHash(Zone))
	if parent == nil {
		return nil, fmt.Errorf("refinalize: parent unknown")
	}
	blk := types.CopyWorkObject(full)
	blk.Body().SetTransactions(txs)
	blk.Body().SetUncles(uncles)
	blk.Header().SetUncleHash(types.CalcUncleHash(uncles))
	blk.Header().SetUncledEntropy(zone.Core.Slice().HeaderChain().UncledLogEntropy(blk))
	blk.Header().SetTxHash(types.DeriveSha(types.Transactions(txs), trie.NewStackTrie(nil)))
	for attempt := 0; attempt < 6; attempt++ {
		blk.WorkObjectHeader().SetHeaderHash(blk.Header().Hash())
		batch := zone.DB.NewBatch()
		receipts, etxs, _, statedb, usedGas, usedState, _, multiSet, _, err := zone.Core.Processor().Process(blk, batch)
		if err != nil {
			m := localRe.FindStringSubmatch(err.Error())
			if m == nil {
				return nil, fmt.Errorf("refinalize: %w", err)
			}
			v, _ := new(big.Int).SetString(m[1], 10)
			switch {
			case regexp.MustCompile(`invalid avgTxFees`).MatchString(err.Error()):
				blk.Header().SetAvgTxFees(v)
			case regexp.MustCompile(`invalid totalFees`).MatchString(err.Error()):
				blk.Header().SetTotalFees(v)
			default:
				return nil, fmt.Errorf("refinalize: %w", err)
			}
			continue
		}
		h := blk.Header()
		if parent.NumberU64(Zone) < params.TimeToStartTx {
			h.SetGasUsed(0)
		} else {
			h.SetGasUsed(usedGas)
		}
		h.SetStateUsed(usedState)
		h.SetUTXORoot(multiSet.Hash())
		h.SetEVMRoot(statedb.IntermediateRoot(true))
		h.SetEtxSetRoot(statedb.ETXRoot())
		h.SetQuaiStateSize(statedb.GetQuaiTrieSize())
		body, err := types.NewWorkObjectBody(h, txs, etxs, blk.Uncles(), blk.Manifest(), receipts, trie.NewStackTrie(nil), Zone)
		if err != nil {
			return nil, fmt.Errorf("refinalize: body: %w", err)
		}
		out := types.NewWorkObject(blk.WorkObjectHeader(), body, nil)
		out.WorkObjectHeader().SetHeaderHash(out.Header().Hash())
		zone.Core.Slice().VerifRegisterPendingBody(out)
		return out, nil
	}
	return nil, fmt.Errorf("refinalize: fee fields did not converge")
}

// MineCustom builds the worker's pending block on heads, lets edit change the transaction list,
// re-finalises, seals and submits it.
func (n *Net) MineCustom(heads Heads, o MineOpts, edit func(txs []*types.Transaction) []*types.Transaction) (Heads, *Block, error) {
	return n.MineCustomBody(heads, o, edit, nil)
}

// MineCustomBody is MineCustom with an optional edit of the uncle (workshare) list.
func (n *Net) MineCustomBody(heads Heads, o MineOpts, edit func(txs []*types.Transaction) []*types.Transaction, editUncles func(us []*types.WorkObjectHeader) []*types.WorkObjectHeader) (Heads, *Block, error) {
	full, err := n.PendingFull(heads, o)
	if err != nil {
		return heads, nil, err
	}
	txs := append([]*types.Transaction{}, full.Transactions()...)
	if edit != nil {
		txs = edit(txs)
	}
	uncles := append([]*types.WorkObjectHeader{}, full.Uncles()...)
	if editUncles != nil {
		uncles = editUncles(uncles)
	}
	edited, err := n.RefinalizeBody(full, txs, uncles)
	if err != nil {
		return heads, nil, err
	}
	ph, err := RoundTripPending(edited)
	if err != nil {
		return heads, nil, err
	}
	if err := n.Seal(ph, o.Order, o.Salt); err != nil {
		return heads, nil, err
	}
	b, err := n.Submit(ph)
	if err != nil {
		return heads, b, err
	}
	return heads.Advance(b), b, nil
}
