//go:build verif

package sim

import (
	"crypto/ecdsa"
	"crypto/sha256"
	"encoding/binary"
	"errors"
	"fmt"
	"math/big"
	"sync"
	"time"
	"verifharness/qigen"

	"github.com/btcsuite/btcd/btcec/v2"
	"github.com/btcsuite/btcd/btcec/v2/schnorr"
	"github.com/dominant-strategies/go-quai/common"
	"github.com/dominant-strategies/go-quai/core/state"
	"github.com/dominant-strategies/go-quai/core/types"
	"github.com/dominant-strategies/go-quai/crypto"
)

// Key is a secp256k1 key whose address lies in zone 0-0 in the wanted ledger.
type Key struct {
	Priv *ecdsa.PrivateKey
	Bt   *btcec.PrivateKey
	Pub  []byte // 65-byte uncompressed, as used in TxIn.PubKey
	Addr common.Address
}

func (k *Key) Internal() common.InternalAddress {
	ia, _ := k.Addr.InternalAddress()
	return ia
}

var (
	keyMu    sync.Mutex
	quaiKeys []*Key
	qiKeys   []*Key
	keyCtr   uint64
)

func nextKey() *Key {
	for {
		keyCtr++
		var buf [16]byte
		copy(buf[:8], "verifkey")
		binary.BigEndian.PutUint64(buf[8:], keyCtr)
		d := sha256.Sum256(buf[:])
		priv, err := crypto.ToECDSA(d[:])
		if err != nil {
			continue
		}
		bt, _ := btcec.PrivKeyFromBytes(d[:])
		return &Key{Priv: priv, Bt: bt, Pub: crypto.FromECDSAPub(&priv.PublicKey), Addr: crypto.PubkeyToAddress(priv.PublicKey, ZoneLoc)}
	}
}

func grow(n int, qi bool) {
	for {
		if qi && len(qiKeys) >= n || !qi && len(quaiKeys) >= n {
			return
		}
		k := nextKey()
		if _, err := k.Addr.InternalAndQuaiAddress(); err == nil {
			quaiKeys = append(quaiKeys, k)
		} else if _, err := k.Addr.InternalAndQiAddress(); err == nil {
			qiKeys = append(qiKeys, k)
		}
	}
}

// QuaiKeys returns the first n deterministic in-zone Quai-ledger keys.
func QuaiKeys(n int) []*Key {
	keyMu.Lock()
	defer keyMu.Unlock()
	grow(n, false)
	return quaiKeys[:n]
}

// QiKeys returns the first n deterministic in-zone Qi-ledger keys.
func QiKeys(n int) []*Key {
	keyMu.Lock()
	defer keyMu.Unlock()
	grow(n, true)
	return qiKeys[:n]
}

func Signer() types.Signer { return types.LatestSignerForChainID(ChainID, ZoneLoc) }

// HeadState opens the state of the zone's current head.
func (n *Net) HeadState() (*state.StateDB, error) {
	return n.Nodes[Zone].Core.Processor().State()
}

// StateAtBlock opens the account state committed by a zone block.
func (n *Net) StateAtBlock(b *types.WorkObject) (*state.StateDB, error) {
	return n.Nodes[Zone].Core.Processor().StateAt(b.EVMRoot(), b.EtxSetRoot(), b.QuaiStateSize())
}

// QuaiTx builds and signs a Quai transaction.
func QuaiTx(k *Key, nonce uint64, to *common.Address, value *big.Int, gas uint64, gasPrice *big.Int, data []byte, al types.AccessList) (*types.Transaction, error) {
	return types.SignNewTx(k.Priv, Signer(), &types.QuaiTx{ChainID: ChainID, Nonce: nonce, GasPrice: gasPrice, Gas: gas, To: to, Value: value, Data: data, AccessList: al})
}

// DeployTx builds a contract-creation transaction whose contract address is an in-zone Quai
// address (junk bytes are appended after the init code until it is) and carries the access
// list entry contract creation requires. It returns the transaction and the contract address.
func DeployTx(k *Key, nonce uint64, initCode []byte, value *big.Int, gas uint64, gasPrice *big.Int) (*types.Transaction, common.Address, error) {
	code := append([]byte{}, initCode...)
	code = append(code, 0xfe, 0, 0, 0)
	for salt := uint32(0); salt < 1<<20; salt++ {
		binary.BigEndian.PutUint32(code[len(code)-4:], salt)
		// keep the first junk byte an INVALID opcode so trailing bytes are never executed
		addr := crypto.CreateAddress(k.Addr, nonce, code, ZoneLoc)
		if _, err := addr.InternalAndQuaiAddress(); err != nil {
			continue
		}
		al := types.AccessList{{Address: addr, StorageKeys: nil}}
		tx, err := QuaiTx(k, nonce, nil, value, gas, gasPrice, code, al)
		return tx, addr, err
	}
	return nil, common.Address{}, errors.New("could not grind an in-zone contract address")
}

// QiOut describes one output of a Qi transaction.
type QiOut struct {
	Denomination uint8
	To           common.Address
	Lock         *big.Int
}

// QiTx builds and signs a Qi transaction with Schnorr (all inputs must be owned by k; a single
// input uses the plain key, several inputs the MuSig2 aggregate of the repeated key is not
// supported here — use one input).
func QiTx(k *Key, ins []UTXORec, outs []QiOut, data []byte) (*types.Transaction, error) {
	if len(ins) != 1 {
		ks := make([]*Key, len(ins))
		for i := range ks {
			ks[i] = k
		}
		return QiTxMulti(ks, ins, outs, data)
	}
	var txIns types.TxIns
	for _, in := range ins {
		txIns = append(txIns, types.TxIn{PreviousOutPoint: types.OutPoint{TxHash: in.TxHash, Index: in.Index}, PubKey: k.Pub})
	}
	var txOuts types.TxOuts
	for _, o := range outs {
		lock := o.Lock
		if lock == nil {
			lock = big.NewInt(0)
		}
		txOuts = append(txOuts, *types.NewTxOut(o.Denomination, o.To.Bytes(), lock))
	}
	inner := &types.QiTx{ChainID: ChainID, TxIn: txIns, TxOut: txOuts, Data: data}
	unsigned := types.NewTx(inner)
	digest := Signer().Hash(unsigned)
	sig, err := schnorr.Sign(k.Bt, digest[:])
	if err != nil {
		return nil, err
	}
	inner.Signature = sig
	return types.NewTx(inner), nil
}

// QiTxMulti builds a Qi transaction with several inputs, input i owned by keys[i] (a key - and an
// outpoint - may repeat), signed with the MuSig2 aggregate of the listed keys in order, which is
// what block processing verifies for more than one input.
func QiTxMulti(keys []*Key, ins []UTXORec, outs []QiOut, data []byte) (*types.Transaction, error) {
	if len(ins) < 2 || len(keys) != len(ins) {
		return nil, errors.New("sim.QiTxMulti needs two or more inputs and one key per input")
	}
	var txIns types.TxIns
	signers := make([]*qigen.Key, len(ins))
	for i, in := range ins {
		txIns = append(txIns, types.TxIn{PreviousOutPoint: types.OutPoint{TxHash: in.TxHash, Index: in.Index}, PubKey: keys[i].Pub})
		signers[i] = &qigen.Key{Priv: keys[i].Bt, Pub: keys[i].Pub, Addr: keys[i].Addr.Bytes20()}
	}
	var txOuts types.TxOuts
	for _, o := range outs {
		lock := o.Lock
		if lock == nil {
			lock = big.NewInt(0)
		}
		txOuts = append(txOuts, *types.NewTxOut(o.Denomination, o.To.Bytes(), lock))
	}
	inner := &types.QiTx{ChainID: ChainID, TxIn: txIns, TxOut: txOuts, Data: data}
	digest := Signer().Hash(types.NewTx(inner))
	sig, err := qigen.SignMuSig2(signers, digest)
	if err != nil {
		return nil, err
	}
	inner.Signature = sig
	return types.NewTx(inner), nil
}

// OwnedUTXOs lists the outputs owned by addr in the zone database.
func (n *Net) OwnedUTXOs(addr common.Address) []UTXORec {
	var out []UTXORec
	for _, u := range ScanUTXOs(n.Nodes[Zone].DB) {
		if u.Entry != nil && common.BytesToAddress(u.Entry.Address, ZoneLoc).Equal(addr) {
			out = append(out, u)
		}
	}
	return out
}

// SubmitTxs adds transactions to the zone pool and waits until the pool has made the
// accepted Quai ones executable (or they are known to stay queued) — the pool promotes only on
// a reorg run, so this polls instead of sleeping a fixed time. Returns per-tx errors.
func (n *Net) SubmitTxs(txs ...*types.Transaction) []error {
	pool := n.Nodes[Zone].Core.TxPool()
	errs := pool.AddRemotesSync(txs)
	want := map[common.Hash]bool{}
	for i, tx := range txs {
		if errs[i] == nil && tx.Type() == types.QuaiTxType {
			want[tx.Hash()] = true
		}
	}
	deadline := time.Now().Add(3 * time.Second)
	for len(want) > 0 && time.Now().Before(deadline) {
		pending, queued := pool.Content()
		for _, l := range pending {
			for _, tx := range l {
				delete(want, tx.Hash())
			}
		}
		// transactions that sit in the queue behind a nonce gap will never be promoted: stop waiting
		// for those once every remaining one is in the queue and the pool has been idle for a while
		inQueue := 0
		for _, l := range queued {
			for _, tx := range l {
				if want[tx.Hash()] {
					inQueue++
				}
			}
		}
		if len(want) == 0 {
			break
		}
		if inQueue == len(want) && time.Now().After(deadline.Add(-2700*time.Millisecond)) {
			break
		}
		time.Sleep(2 * time.Millisecond)
	}
	n.Nodes[Zone].Core.Slice().VerifForcePendingRecompute()
	return errs
}

// WaitPoolHead waits until the pool has processed the zone's current head (its view of nonce
// for addr equals the state nonce) — used after head changes before submitting transactions.
func (n *Net) WaitPoolNonce(k *Key, nonce uint64) error {
	pool := n.Nodes[Zone].Core.TxPool()
	deadline := time.Now().Add(3 * time.Second)
	for time.Now().Before(deadline) {
		if pool.Nonce(k.Internal()) >= nonce {
			return nil
		}
		time.Sleep(2 * time.Millisecond)
	}
	return fmt.Errorf("pool nonce for %x stuck below %d", k.Addr.Bytes()[:4], nonce)
}
