package sim

// "Lab" contracts: small purpose-built contracts that give the simulated histories the EVM
// activity block processing has special paths for - storage writes to fresh / existing / cleared
// slots, contract creation onto an address that already holds a balance, self-destruct and
// re-creation (CREATE2) at the same address within one block or across blocks, reverting calls
// after writes. They are deployed and called by ordinary transactions of the generated traffic.

import (
	"encoding/binary"
	"fmt"
	"math/big"

	"github.com/dominant-strategies/go-quai/common"
	"github.com/dominant-strategies/go-quai/core/types"
	"github.com/dominant-strategies/go-quai/core/vm"
	"github.com/dominant-strategies/go-quai/crypto"
	"pgregory.net/rapid"

	"verifharness/evmgen"
)

// LabStoreRuntime: calldata is a sequence of (slot, value) byte pairs, each executed as
// SSTORE(slot, value), optionally followed by one command byte: 0xff SELFDESTRUCT(caller),
// 0xfe REVERT, anything else INVALID.
func LabStoreRuntime() []byte {
	a := evmgen.NewAsm()
	loop, tail, end, sd, rv := a.NewLabel("loop"), a.NewLabel("tail"), a.NewLabel("end"), a.NewLabel("sd"), a.NewLabel("rv")
	a.Push(0) // i
	a.Label(loop)
	a.Op(vm.DUP1).Push(1).Op(vm.ADD, vm.CALLDATASIZE, vm.GT, vm.ISZERO).PushLabel(tail).Op(vm.JUMPI) // !(size > i+1) -> tail
	a.Op(vm.DUP1, vm.CALLDATALOAD).Push(248).Op(vm.SHR)                                                // i key
	a.Op(vm.DUP2).Push(1).Op(vm.ADD, vm.CALLDATALOAD).Push(248).Op(vm.SHR)                             // i key val
	a.Op(vm.SWAP1, vm.SSTORE)
	a.Push(2).Op(vm.ADD).PushLabel(loop).Op(vm.JUMP)
	a.Label(tail)
	a.Op(vm.DUP1, vm.CALLDATASIZE, vm.GT, vm.ISZERO).PushLabel(end).Op(vm.JUMPI) // !(size > i) -> end
	a.Op(vm.CALLDATALOAD).Push(248).Op(vm.SHR)                                   // cmd
	a.Op(vm.DUP1).Push(0xff).Op(vm.EQ).PushLabel(sd).Op(vm.JUMPI)
	a.Op(vm.DUP1).Push(0xfe).Op(vm.EQ).PushLabel(rv).Op(vm.JUMPI)
	a.Op(vm.OpCode(0xfe))
	a.Label(sd).Op(vm.CALLER, vm.SELFDESTRUCT)
	a.Label(rv).Push(0).Push(0).Op(vm.REVERT)
	a.Label(end).Op(vm.STOP)
	return a.Assemble().Code
}

// LabStoreInit: the constructor writes slots 1 and 2, then returns the Store runtime.
func LabStoreInit() []byte {
	rt := LabStoreRuntime()
	a := evmgen.NewAsm()
	a.Push(1).Push(1).Op(vm.SSTORE)
	a.Push(2).Push(2).Op(vm.SSTORE)
	a.DataToMem(a.Data(rt, "runtime"), 0)
	a.Push(uint64(len(rt))).Push(0).Op(vm.RETURN)
	return a.Assemble().Code
}

// LabFactoryInit: the factory's runtime CREATE2s a Store (init code above) with the 32-byte salt
// taken from calldata and the call's value as endowment.
func LabFactoryInit() []byte {
	child := LabStoreInit()
	r := evmgen.NewAsm()
	r.DataToMem(r.Data(child, "child init"), 0)
	r.Push(0).Op(vm.CALLDATALOAD) // salt
	r.Push(uint64(len(child))).Push(0).Op(vm.CALLVALUE, vm.CREATE2, vm.POP, vm.STOP)
	rt := r.Assemble().Code
	a := evmgen.NewAsm()
	a.DataToMem(a.Data(rt, "runtime"), 0)
	a.Push(uint64(len(rt))).Push(0).Op(vm.RETURN)
	return a.Assemble().Code
}

// LabConverterInit: the converter's runtime converts three quarters of the value it is called
// with (in two conversions of three eighths each) to Qi for the 20-byte Qi address given as calldata (CONVERT opcode, 100000 destination gas;
// the rest of the value pays the prepaid destination fee, the remainder stays on the contract).
func LabConverterInit() []byte {
	r := evmgen.NewAsm()
	// two conversions of three eighths of the value each: both outbound transactions carry the
	// same originating transaction hash (indices n, n+1), as the outputs of one Qi transaction do
	for i := 0; i < 2; i++ {
		r.Push(100000)
		r.Push(8).Push(3).Op(vm.CALLVALUE, vm.MUL, vm.DIV) // value*3/8
		r.Push(96).Push(0).Op(vm.CALLDATALOAD, vm.SWAP1, vm.SHR)
		r.Push(0).Op(vm.CONVERT, vm.POP)
	}
	r.Op(vm.STOP)
	rt := r.Assemble().Code
	a := evmgen.NewAsm()
	a.DataToMem(a.Data(rt, "runtime"), 0)
	a.Push(uint64(len(rt))).Push(0).Op(vm.RETURN)
	return a.Assemble().Code
}

// LabChild returns the n-th salt (and the address it yields) for which the factory's CREATE2 of
// a Store lands on an in-zone Quai address.
func LabChild(factory common.Address, n int) (salt [32]byte, addr common.Address) {
	h := crypto.Keccak256(LabStoreInit())
	found := -1
	for i := uint64(0); ; i++ {
		binary.BigEndian.PutUint64(salt[24:], i)
		addr = crypto.CreateAddress2(factory, salt, h, ZoneLoc)
		if _, err := addr.InternalAndQuaiAddress(); err == nil {
			found++
			if found == n {
				return salt, addr
			}
		}
	}
}

type pendingDeploy struct {
	key   int
	nonce uint64
	tx    *types.Transaction
	addr  common.Address
}

func labSlots() []common.Hash {
	var ks []common.Hash
	for i := int64(0); i < 8; i++ {
		ks = append(ks, common.BigToHash(big.NewInt(i)))
	}
	return ks
}

// labTargets lists the Store contracts this actor knows of (deployed ones and factory children).
func (a *Actor) labTargets() []common.Address {
	out := append([]common.Address{}, a.Labs...)
	if a.Factory != nil {
		for n := 0; n < 2; n++ {
			_, c := LabChild(*a.Factory, n)
			out = append(out, c)
		}
	}
	return out
}

// submitLab handles the lab traffic kinds.
func (a *Actor) submitLab(t *rapid.T, kind string) {
	gp := a.gasPrice()
	pool := a.Net.Nodes[Zone].Core.TxPool()
	fromIdx := rapid.IntRange(0, FundedKeys-1).Draw(t, "labfrom")
	from := a.quai[fromIdx]
	nonce := pool.Nonce(from.Internal())
	send := func(tx *types.Transaction, what string, label string) bool {
		errs := a.Net.SubmitTxs(tx)
		a.logf("tx %s from=%x nonce=%d err=%v", what, from.Addr.Bytes()[:3], tx.Nonce(), errs[0])
		if errs[0] == nil {
			a.label("tx_" + label)
			return true
		}
		return false
	}
	switch kind {
	case "labdeploy":
		if len(a.Labs) >= 3 {
			return
		}
		value := big.NewInt(int64(rapid.SampledFrom([]int{0, 0, 1000}).Draw(t, "labvalue")))
		tx, addr, err := DeployTx(from, nonce, LabStoreInit(), value, 2_000_000, gp)
		if err != nil {
			return
		}
		if send(tx, "labdeploy store at "+addr.Hex()[:10], "labdeploy") {
			a.Labs = append(a.Labs, addr)
		}
	case "labprefund":
		// value is sent to the address a later creation will use: the creation then runs on an
		// account that already exists in the parent state
		if a.pendingLab != nil || len(a.Labs) >= 4 {
			return
		}
		dIdx := (fromIdx + 1) % FundedKeys
		d := a.quai[dIdx]
		dn := pool.Nonce(d.Internal())
		dtx, addr, err := DeployTx(d, dn, LabStoreInit(), big.NewInt(0), 2_000_000, gp)
		if err != nil {
			return
		}
		to := addr
		tx, err := QuaiTx(from, nonce, &to, big.NewInt(int64(rapid.IntRange(1, 1_000_000).Draw(t, "prefund"))), 400000, gp, nil, nil)
		if err != nil {
			return
		}
		if !send(tx, "labprefund future contract "+addr.Hex()[:10], "labprefund") {
			return
		}
		a.pendingLab = &pendingDeploy{key: dIdx, nonce: dn, tx: dtx, addr: addr}
		if rapid.Bool().Draw(t, "createNow") {
			a.submitLab(t, "labcreate")
		}
	case "labcreate":
		p := a.pendingLab
		if p == nil {
			return
		}
		if pool.Nonce(a.quai[p.key].Internal()) != p.nonce {
			a.pendingLab = nil // the deployer moved on: the reserved address is gone
			return
		}
		errs := a.Net.SubmitTxs(p.tx)
		a.logf("tx labcreate on prefunded %s deployer=%x nonce=%d err=%v", p.addr.Hex()[:10], a.quai[p.key].Addr.Bytes()[:3], p.nonce, errs[0])
		if errs[0] == nil {
			a.label("tx_labcreate_prefunded")
			a.Labs = append(a.Labs, p.addr)
		}
		a.pendingLab = nil
	case "labfactory":
		if a.Factory != nil {
			return
		}
		tx, addr, err := DeployTx(from, nonce, LabFactoryInit(), big.NewInt(0), 2_000_000, gp)
		if err != nil {
			return
		}
		if send(tx, "labfactory at "+addr.Hex()[:10], "labfactory") {
			a.Factory = &addr
		}
	case "labconverter":
		if a.Converter != nil {
			return
		}
		tx, addr, err := DeployTx(from, nonce, LabConverterInit(), big.NewInt(0), 2_000_000, gp)
		if err != nil {
			return
		}
		if send(tx, "labconverter at "+addr.Hex()[:10], "labconverter") {
			a.Converter = &addr
		}
	case "labconvert":
		// a conversion whose origin is a contract (CONVERT opcode), not an account
		if a.Converter == nil {
			return
		}
		to := a.qi[rapid.IntRange(0, 3).Draw(t, "labtoqi")].Addr
		qits := rapid.SampledFrom([]int64{700, 12000}).Draw(t, "labqits")
		value := new(big.Int).Mul(big.NewInt(qits), big.NewInt(4e18))
		al := types.AccessList{{Address: *a.Converter}}
		tx, err := QuaiTx(from, nonce, a.Converter, value, 600_000, gp, to.Bytes(), al)
		if err != nil {
			return
		}
		send(tx, fmt.Sprintf("labconvert %d qits-worth via contract to %s", qits, to.Hex()[:10]), "labconvert")
	case "labspawn":
		// (re-)create a factory child; on an address whose contract self-destructed earlier - in this
		// block or a previous one - this is a re-creation
		if a.Factory == nil {
			return
		}
		n := rapid.IntRange(0, 1).Draw(t, "child")
		salt, child := LabChild(*a.Factory, n)
		al := types.AccessList{{Address: *a.Factory}, {Address: child, StorageKeys: labSlots()[:3]}}
		value := big.NewInt(int64(rapid.SampledFrom([]int{0, 0, 7}).Draw(t, "spawnvalue")))
		tx, err := QuaiTx(from, nonce, a.Factory, value, 2_000_000, gp, salt[:], al)
		if err != nil {
			return
		}
		send(tx, "labspawn child "+child.Hex()[:10], "labspawn")
	case "labcall", "labkill":
		ts := a.labTargets()
		if len(ts) == 0 {
			return
		}
		to := ts[rapid.IntRange(0, len(ts)-1).Draw(t, "labto")]
		var data []byte
		np := rapid.IntRange(0, 4).Draw(t, "pairs")
		for i := 0; i < np; i++ {
			data = append(data, byte(rapid.IntRange(0, 7).Draw(t, "slot")), byte(rapid.SampledFrom([]int{0, 0, 1, 2, 9}).Draw(t, "val")))
		}
		cmd := "store"
		if kind == "labkill" {
			data = append(data, 0xff)
			cmd = "selfdestruct"
		} else if c := rapid.IntRange(0, 9).Draw(t, "cmd"); c == 0 {
			data = append(data, 0xfe)
			cmd = "revert"
		} else if c == 1 {
			data = append(data, 0xfd)
			cmd = "invalid"
		}
		al := types.AccessList{{Address: to}}
		if rapid.Bool().Draw(t, "alslots") {
			al[0].StorageKeys = labSlots()
		}
		tx, err := QuaiTx(from, nonce, &to, big.NewInt(0), 1_500_000, gp, data, al)
		if err != nil {
			return
		}
		if send(tx, "labcall "+to.Hex()[:10]+" data="+common.Bytes2Hex(data)+" ("+cmd+")", "labcall") {
			a.label("tx_labcall_" + cmd)
		}
	}
}
