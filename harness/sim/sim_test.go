//go:build verif

package sim

import (
	"fmt"
	"testing"
	"time"
)

func TestSmoke(t *testing.T) {
	t0 := time.Now()
	n, err := NewNet(Options{})
	if err != nil {
		t.Fatal(err)
	}
	defer n.Close()
	fmt.Println("net up in", time.Since(t0))
	h := n.GenesisHeads()
	orders := []int{0, 0, 2, 2, 1, 2, 0, 2, 2, 1, 2, 2, 2, 0, 2, 2}
	t1 := time.Now()
	for i, o := range orders {
		var b *Block
		h, b, err = n.Mine(h, MineOpts{Order: o, Salt: 1})
		if err != nil {
			t.Fatalf("block %d: %v", i, err)
		}
		fmt.Println(i, "order", b.Order, "num", b.Zone().NumberArray(), "etxs", len(b.Etxs), "txs", len(b.Zone().Transactions()), "time", b.Zone().Time())
	}
	fmt.Println("mined", len(orders), "in", time.Since(t1))
	fork := h
	a := fork
	for i := 0; i < 3; i++ {
		a, _, err = n.Mine(a, MineOpts{Order: 2, Salt: 2, Coinbase: DefaultQiCoinbase})
		if err != nil {
			t.Fatal(err)
		}
	}
	b := fork
	for i := 0; i < 4; i++ {
		b, _, err = n.Mine(b, MineOpts{Order: 2, Salt: 3})
		if err != nil {
			t.Fatal(err)
		}
	}
	if err := n.SetHead(Zone, a[Zone]); err != nil {
		t.Fatal(err)
	}
	if n.Nodes[Zone].Core.CurrentHeader().Hash() != a[Zone].Hash() {
		t.Fatal("head not A")
	}
	if err := n.Restart(Zone); err != nil {
		t.Fatal(err)
	}
	if n.Nodes[Zone].Core.CurrentHeader().Hash() != a[Zone].Hash() {
		t.Fatal("head not A after restart")
	}
	a, _, err = n.Mine(a, MineOpts{Order: 2, Salt: 2})
	if err != nil {
		t.Fatal("mine after restart:", err)
	}
	fmt.Println("ok total", time.Since(t0))
}
