//go:build verif

// Package sim hosts a real prime + region-0 + zone-0-0 go-quai hierarchy in one process
// (core.Core instances over harness-supplied databases, real blake3pow sealing at a tiny
// difficulty) and offers the driver operations used by the history-based checks
// (DESIGN.md §3.2). It contains no oracles.
package sim

import (
	"errors"
	"fmt"
	"io"
	"math/big"
	"os"
	"sync"
	"time"

	"github.com/dominant-strategies/go-quai/common"
	"github.com/dominant-strategies/go-quai/consensus"
	"github.com/dominant-strategies/go-quai/consensus/blake3pow"
	"github.com/dominant-strategies/go-quai/core"
	"github.com/dominant-strategies/go-quai/core/rawdb"
	"github.com/dominant-strategies/go-quai/core/types"
	"github.com/dominant-strategies/go-quai/core/vm"
	"github.com/dominant-strategies/go-quai/ethdb"
	"github.com/dominant-strategies/go-quai/ethdb/leveldb"
	"github.com/dominant-strategies/go-quai/ethdb/memorydb"
	"github.com/dominant-strategies/go-quai/ethdb/pebble"
	"github.com/dominant-strategies/go-quai/log"
	"github.com/dominant-strategies/go-quai/params"
	"github.com/sirupsen/logrus"
	orderedmap "github.com/wk8/go-ordered-map/v2"
	"google.golang.org/protobuf/proto"
)

const (
	Prime  = common.PRIME_CTX
	Region = common.REGION_CTX
	Zone   = common.ZONE_CTX
)

var (
	ZoneLoc   = common.Location{0, 0}
	RegionLoc = common.Location{0}
	PrimeLoc  = common.Location{}
	Locs      = [3]common.Location{PrimeLoc, RegionLoc, ZoneLoc}
	ChainID   = big.NewInt(1337)

	GenesisTime uint64 = 1700000000
)

// ExitPanic is the value a logger.Fatal panics with inside the simulator.
type ExitPanic struct{ Code int }

var quiet *log.Logger
var scaleOnce sync.Once

// Logger returns the shared silent logger whose Fatal panics instead of exiting.
func Logger() *log.Logger {
	if quiet == nil {
		l := logrus.New()
		l.SetOutput(io.Discard)
		l.SetLevel(logrus.PanicLevel)
		l.ExitFunc = func(code int) { panic(ExitPanic{code}) }
		quiet = l
	}
	return quiet
}

// Scaled protocol parameters (package-level variables in params/types): month-scale behaviour
// happens within tens of blocks. Only thresholds move; code paths are unchanged.
type Scale struct {
	TimeToStartTx, ConversionLockPeriod, ControllerKickInBlock uint64
	CoinbaseLockupPrecompileKickInHeight, CoinbaseEpochBlocks  uint64
	BlocksPerMonth                                             uint64
	LockupByteToBlockDepth                                     [4]uint64
}

var DefaultScale = Scale{
	TimeToStartTx: 5, ConversionLockPeriod: 4, ControllerKickInBlock: 3,
	CoinbaseLockupPrecompileKickInHeight: 2, CoinbaseEpochBlocks: 4,
	BlocksPerMonth: 2, LockupByteToBlockDepth: [4]uint64{4, 8, 12, 16},
}

// ApplyScale installs the scaled parameters once per process.
func ApplyScale() {
	scaleOnce.Do(func() {
		log.Global = Logger()
		s := DefaultScale
		params.TimeToStartTx = s.TimeToStartTx
		params.ConversionLockPeriod = s.ConversionLockPeriod
		params.ControllerKickInBlock = s.ControllerKickInBlock
		params.CoinbaseLockupPrecompileKickInHeight = s.CoinbaseLockupPrecompileKickInHeight
		params.CoinbaseEpochBlocks = s.CoinbaseEpochBlocks
		params.BlocksPerMonth = s.BlocksPerMonth
		for i, v := range s.LockupByteToBlockDepth {
			params.LockupByteToBlockDepth[uint8(i)] = v
		}
		// trimming of small unlocked denominations: weeks -> a handful of blocks
		for d := uint8(0); d <= types.MaxTrimDenomination; d++ {
			types.TrimDepths[d] = uint64(3 + d)
		}
	})
}

// LocDB makes any database report the node location (memorydb reports nil).
type LocDB struct {
	ethdb.Database
	Loc common.Location
}

func (d *LocDB) Location() common.Location { return d.Loc }

// kvLoc does the same for a bare key-value store.
type kvLoc struct {
	ethdb.KeyValueStore
	loc common.Location
}

func (d *kvLoc) Location() common.Location { return d.loc }

type Node struct {
	Core *core.Core
	DB   ethdb.Database
	Loc  common.Location
	Ctx  int
	opts NodeOpts

	started time.Time
}

type NodeOpts struct {
	Backend           string // "memory" (default), "leveldb", "pebble"
	Dir               string // directory for disk backends
	DB                ethdb.Database
	IndexAddressUtxos bool
	QuaiCoinbase      common.Address
	QiCoinbase        common.Address
	TxPool            *core.TxPoolConfig
	VMConfig          vm.Config
	SnapshotLimit     int
}

type Options struct {
	Nodes [3]NodeOpts
	// Backend applies to the zone node when Nodes[2].Backend is empty.
	ZoneBackend string
}

type backend struct {
	*core.Core
	net *Net
	ctx int
}

func (b backend) NewGenesisPendingHeader(ph *types.WorkObject, domTerminus common.Hash, hash common.Hash) error {
	return b.Core.NewGenesisPendigHeader(ph, domTerminus, hash)
}

// ReceiveMinedHeader keeps the dom-view block the dom constructs (in production it is
// broadcast and re-inserted).
func (b backend) ReceiveMinedHeader(h *types.WorkObject) error {
	blk, err := b.Core.ReceiveMinedHeader(h)
	if err == nil {
		b.net.mu.Lock()
		b.net.mined[b.ctx] = append(b.net.mined[b.ctx], blk)
		b.net.mu.Unlock()
	} else {
		b.net.mu.Lock()
		b.net.domErrs = append(b.net.domErrs, fmt.Errorf("ctx %d ReceiveMinedHeader: %w", b.ctx, err))
		b.net.mu.Unlock()
	}
	return err
}

type Net struct {
	// OnPending, when set, sees every block the worker assembled (full body) before it is sealed
	OnPending func(full *types.WorkObject)
	Nodes   [3]*Node
	mu      sync.Mutex
	mined   [3][]*types.WorkObject
	domErrs []error
	tmpDirs []string
	Genesis [3]*types.WorkObject
}

var (
	DefaultQuaiCoinbase = common.HexToAddress("0x0000000000000000000000000000000000000001", ZoneLoc)
	DefaultQiCoinbase   = common.HexToAddress("0x0080000000000000000000000000000000000001", ZoneLoc)
)

func openDB(loc common.Location, o *NodeOpts) (ethdb.Database, error) {
	if o.DB != nil {
		return o.DB, nil
	}
	switch o.Backend {
	case "", "memory":
		return &LocDB{rawdb.NewDatabase(&kvLoc{memorydb.New(Logger()), loc}), loc}, nil
	case "leveldb":
		d, err := leveldb.New(o.Dir, 16, 16, "", false, Logger(), loc)
		if err != nil {
			return nil, err
		}
		return rawdb.NewDatabase(d), nil
	case "pebble":
		d, err := pebble.New(o.Dir, 16, 16, "", false, Logger(), loc)
		if err != nil {
			return nil, err
		}
		return rawdb.NewDatabase(d), nil
	}
	return nil, fmt.Errorf("unknown backend %q", o.Backend)
}

func genesisSpec(loc common.Location) *core.Genesis {
	return &core.Genesis{
		Config:     &params.ChainConfig{ChainID: ChainID, ConsensusEngine: "blake3", Blake3Pow: new(params.Blake3powConfig), Location: loc},
		Nonce:      0,
		ExtraData:  []byte{},
		GasLimit:   12000000,
		Difficulty: big.NewInt(64),
		Timestamp:  GenesisTime,
	}
}

// FundedKeys is the number of deterministic Quai keys that receive a genesis allocation
// (unlocked in block 1 through the production genesis-unlock path).
const FundedKeys = 4

// GenesisAllocation is the amount each funded key receives.
var GenesisAllocation = new(big.Int).Mul(big.NewInt(100_000_000), big.NewInt(1e18))

func GenesisAllocs() []params.GenesisAccount {
	var out []params.GenesisAccount
	for _, k := range QuaiKeys(FundedKeys) {
		sched := orderedmap.New[uint64, *big.Int]()
		sched.Set(0, new(big.Int).Set(GenesisAllocation))
		out = append(out, params.GenesisAccount{Address: k.Addr, Award: new(big.Int).Set(GenesisAllocation), BalanceSchedule: sched})
	}
	return out
}

// StartNode opens (or re-opens) a node of the given location on db.
func StartNode(loc common.Location, db ethdb.Database, o NodeOpts) (n *Node, err error) {
	ApplyScale()
	defer func() {
		if r := recover(); r != nil {
			err = fmt.Errorf("panic starting node %v: %v", loc, r)
		}
	}()
	logger := Logger()
	gen := genesisSpec(loc)
	cfg, ghash, err := core.SetupGenesisBlockWithOverride(db, gen, 0, nil, loc, 0, logger)
	if err != nil {
		return nil, fmt.Errorf("genesis: %w", err)
	}
	chainCfg := &params.ChainConfig{ChainID: cfg.ChainID, ConsensusEngine: "blake3", Blake3Pow: cfg.Blake3Pow, Progpow: cfg.Progpow, Location: loc, DefaultGenesisHash: ghash, IndexAddressUtxos: o.IndexAddressUtxos}
	powCfg := params.PowConfig{PowMode: params.ModeNormal, DurationLimit: big.NewInt(5), GasCeil: 50000000, MinDifficulty: big.NewInt(16), NodeLocation: loc, GenAllocs: GenesisAllocs()}
	// engine[0] = Progpow slot, engine[1] = Kawpow slot (the address-index code indexes engine[Kawpow])
	b3 := blake3pow.New(powCfg, nil, false, logger)
	engine := []consensus.Engine{b3, b3}
	quaiCb, qiCb := o.QuaiCoinbase, o.QiCoinbase
	if quaiCb.Equal(common.Address{}) {
		quaiCb = DefaultQuaiCoinbase
	}
	if qiCb.Equal(common.Address{}) {
		qiCb = DefaultQiCoinbase
	}
	minerCfg := &core.Config{QuaiCoinbase: quaiCb, QiCoinbase: qiCb, GasCeil: 50000000, GasPrice: big.NewInt(1), Recommit: time.Hour, MinerPreference: 0}
	txCfg := core.DefaultTxPoolConfig
	if o.TxPool != nil {
		txCfg = *o.TxPool
	}
	txCfg.Journal = ""
	if o.TxPool == nil {
		txCfg.ReorgFrequency = 5 * time.Millisecond
	}
	var lim uint64
	c, err := core.NewCore(db, minerCfg, powCfg, &txCfg, &lim, chainCfg, []common.Location{ZoneLoc}, 0, nil, engine,
		&core.CacheConfig{TrieCleanLimit: 16, TrieDirtyLimit: 16, TrieTimeLimit: time.Minute, SnapshotLimit: o.SnapshotLimit}, o.VMConfig, gen, logger)
	if err != nil {
		return nil, fmt.Errorf("core %v: %w", loc, err)
	}
	return &Node{Core: c, DB: db, Loc: loc, Ctx: loc.Context(), opts: o, started: time.Now()}, nil
}

// NewNet brings up the three nodes and wires them bottom-up (prime last).
func NewNet(opt Options) (*Net, error) {
	ApplyScale()
	n := &Net{}
	for ctx := 0; ctx < 3; ctx++ {
		o := opt.Nodes[ctx]
		if ctx == Zone && o.Backend == "" {
			o.Backend = opt.ZoneBackend
		}
		if (o.Backend == "leveldb" || o.Backend == "pebble") && o.Dir == "" {
			d, err := os.MkdirTemp("", "simdb")
			if err != nil {
				return nil, err
			}
			n.tmpDirs = append(n.tmpDirs, d)
			o.Dir = d
		}
		db, err := openDB(Locs[ctx], &o)
		if err != nil {
			return nil, err
		}
		node, err := StartNode(Locs[ctx], db, o)
		if err != nil {
			return nil, err
		}
		n.Nodes[ctx] = node
	}
	n.wire()
	// prime's genesis goroutine propagates the genesis pending header once a sub client exists
	deadline := time.Now().Add(5 * time.Second)
	for {
		if n.Nodes[Zone].Core.Slice().ReadBestPh() != nil && n.Nodes[Region].Core.Slice().ReadBestPh() != nil && n.Nodes[Prime].Core.Slice().ReadBestPh() != nil {
			break
		}
		if time.Now().After(deadline) {
			return nil, errors.New("genesis pending header never arrived at the zone")
		}
		time.Sleep(2 * time.Millisecond)
	}
	for ctx := 0; ctx < 3; ctx++ {
		n.Genesis[ctx] = n.Nodes[ctx].Core.CurrentHeader()
	}
	return n, nil
}

func (n *Net) wire() {
	n.Nodes[Region].Core.SetDomInterface(backend{n.Nodes[Prime].Core, n, Prime})
	n.Nodes[Region].Core.SetSubInterface(backend{n.Nodes[Zone].Core, n, Zone}, ZoneLoc)
	n.Nodes[Zone].Core.SetDomInterface(backend{n.Nodes[Region].Core, n, Region})
	n.Nodes[Prime].Core.SetSubInterface(backend{n.Nodes[Region].Core, n, Region}, RegionLoc)
}

// AttachZoneReadOnly gives a separately started zone node (e.g. one reopened on a crashed
// database copy) the net's region node as its dominant interface, without making the region
// point at it: the node can resolve prime blocks and verify headers, the net is not disturbed.
func (n *Net) AttachZoneReadOnly(nd *Node) {
	nd.Core.SetDomInterface(backend{n.Nodes[Region].Core, n, Region})
}

// Close stops the nodes and removes temporary directories.
func (n *Net) Close() {
	for ctx := 2; ctx >= 0; ctx-- {
		if n.Nodes[ctx] != nil {
			n.Nodes[ctx].Stop()
			n.Nodes[ctx].DB.Close()
		}
	}
	for _, d := range n.tmpDirs {
		os.RemoveAll(d)
	}
}

// Stop stops a node; a node stopped right after start can panic in Slice.Stop because a
// background goroutine has not yet stored its subscription (shutdown race, not chain state),
// so the call is retried briefly.
func (nd *Node) Stop() {
	if d := time.Since(nd.started); d < 150*time.Millisecond {
		time.Sleep(150*time.Millisecond - d)
	}
	defer func() { recover() }()
	nd.Core.Stop()
}

// LockupContract is the zone's lockup precompile address.
func LockupContract() common.Address {
	return vm.LockupContractAddresses[[2]byte{ZoneLoc[0], ZoneLoc[1]}]
}

// Heads are the current tips (prime, region, zone views) a new block is mined on.
type Heads [3]*types.WorkObject

func (n *Net) GenesisHeads() Heads {
	return Heads{n.Genesis[0], n.Genesis[1], n.Genesis[2]}
}

type MineOpts struct {
	Coinbase  common.Address // zero => node default Quai coinbase
	Order     int            // wanted order: Prime/Region/Zone; -1 = whatever comes first
	Lock      uint8
	Data      []byte // woHeader data; nil => {Lock}
	TimeDelta uint64 // seconds after the latest parent time (default 1)
	Salt      uint64 // nonce search start (different salts => different blocks on the same parent)
	NoFill    bool   // do not pull transactions from the pool
}

// Block is what one mining step produced.
type Block struct {
	Parents Heads                // heads the block was mined on
	After   Heads                // heads after the block
	Views   [3]*types.WorkObject // nil above the block's order
	Order   int
	Etxs    types.Transactions // outbound ETXs returned by the append at the block's order
}

func (b *Block) Zone() *types.WorkObject { return b.Views[Zone] }

// Pending builds the full pending header on top of heads exactly like the miner RPC path:
// per-level GeneratePendingHeader (which makes each node adopt that head), combine, fetch,
// stamp coinbase/lock/data/time, register the body, proto round trip.
func (n *Net) Pending(heads Heads, o MineOpts) (*types.WorkObject, error) {
	ph, err := n.PendingFull(heads, o)
	if err != nil {
		return nil, err
	}
	return RoundTripPending(ph)
}

// PendingFull is Pending without the final wire round trip: the returned work object still
// carries the body the worker assembled (already registered with the node under its seal hash).
func (n *Net) PendingFull(heads Heads, o MineOpts) (*types.WorkObject, error) {
	var phs [3]*types.WorkObject
	for ctx := 0; ctx < 3; ctx++ {
		blk := n.Nodes[ctx].Core.GetBlockByHash(heads[ctx].Hash())
		if blk == nil {
			return nil, fmt.Errorf("head block %v not found at ctx %d", heads[ctx].Hash(), ctx)
		}
		ph, err := n.Nodes[ctx].Core.GeneratePendingHeader(blk, ctx == Zone && !o.NoFill)
		if err != nil {
			return nil, fmt.Errorf("GeneratePendingHeader ctx %d: %w", ctx, err)
		}
		phs[ctx] = ph
	}
	zone := n.Nodes[Zone]
	zone.Core.MakeFullPendingHeader(phs[0], phs[1], phs[2])
	cb := o.Coinbase
	if cb.Equal(common.Address{}) {
		cb = DefaultQuaiCoinbase
	}
	ph, err := zone.Core.GetPendingHeader(types.Progpow, cb)
	if err != nil {
		return nil, fmt.Errorf("GetPendingHeader: %w", err)
	}
	woh := ph.WorkObjectHeader()
	woh.SetLock(o.Lock)
	if o.Data != nil {
		woh.SetData(o.Data)
	} else {
		woh.SetData([]byte{o.Lock})
	}
	td := o.TimeDelta
	if td == 0 {
		td = 1
	}
	var maxT uint64
	for ctx := 0; ctx < 3; ctx++ {
		if t := heads[ctx].Time(); t > maxT {
			maxT = t
		}
	}
	woh.SetTime(maxT + td)
	zone.Core.Slice().VerifRegisterPendingBody(ph)
	if n.OnPending != nil {
		n.OnPending(ph)
	}
	return ph, nil
}

// RoundTripPending sends the pending header through the wire codec like the miner RPC does.
func RoundTripPending(ph *types.WorkObject) (*types.WorkObject, error) {
	forMining := ph.WithBody(ph.Header(), nil, nil, nil, nil, nil)
	pw, err := forMining.ProtoEncode(types.PEtxObject)
	if err != nil {
		return nil, err
	}
	raw, err := proto.Marshal(pw)
	if err != nil {
		return nil, err
	}
	pw2 := &types.ProtoWorkObject{}
	if err := proto.Unmarshal(raw, pw2); err != nil {
		return nil, err
	}
	out := &types.WorkObject{}
	if err := out.ProtoDecode(pw2, ZoneLoc, types.PEtxObject); err != nil {
		return nil, err
	}
	return out, nil
}

// Seal grinds the nonce until the seal is valid and the block has the wanted order.
func (n *Net) Seal(ph *types.WorkObject, wantOrder int, salt uint64) error {
	target := new(big.Int).Div(common.Big2e256, ph.Difficulty())
	zone := n.Nodes[Zone]
	for nonce, tries := salt<<32, 0; ; nonce, tries = nonce+1, tries+1 {
		if tries > 50_000_000 {
			return errors.New("seal: nonce search exhausted")
		}
		ph.WorkObjectHeader().SetNonce(types.EncodeNonce(nonce))
		if new(big.Int).SetBytes(ph.Hash().Bytes()).Cmp(target) > 0 {
			continue
		}
		if wantOrder < 0 {
			return nil
		}
		_, order, err := zone.Core.CalcOrder(ph)
		if err != nil {
			return fmt.Errorf("CalcOrder: %w", err)
		}
		if order == wantOrder {
			return nil
		}
	}
}

// Submit hands a sealed header to the zone (ReceiveMinedHeader builds the block and the dom
// views), stores the views and appends at the block's order, forwarding pending ETXs to the dom.
func (n *Net) Submit(ph *types.WorkObject) (*Block, error) {
	zone := n.Nodes[Zone]
	n.mu.Lock()
	n.domErrs = nil
	mark := [3]int{len(n.mined[0]), len(n.mined[1]), len(n.mined[2])}
	n.mu.Unlock()
	block, err := zone.Core.ReceiveMinedHeader(ph)
	if err != nil {
		return nil, fmt.Errorf("ReceiveMinedHeader: %w", err)
	}
	_, order, err := zone.Core.CalcOrder(block)
	if err != nil {
		return nil, fmt.Errorf("CalcOrder: %w", err)
	}
	b := &Block{Order: order}
	b.Views[Zone] = block
	n.mu.Lock()
	if len(n.domErrs) > 0 {
		e := n.domErrs[0]
		n.mu.Unlock()
		return nil, e
	}
	if order <= Region {
		if len(n.mined[Region]) <= mark[Region] {
			n.mu.Unlock()
			return nil, errors.New("region view not produced")
		}
		b.Views[Region] = n.mined[Region][len(n.mined[Region])-1]
	}
	if order == Prime {
		if len(n.mined[Prime]) <= mark[Prime] {
			n.mu.Unlock()
			return nil, errors.New("prime view not produced")
		}
		b.Views[Prime] = n.mined[Prime][len(n.mined[Prime])-1]
	}
	n.mined = [3][]*types.WorkObject{}
	n.mu.Unlock()
	if err := n.Insert(b); err != nil {
		return b, err
	}
	return b, nil
}

// Insert stores the block's views and appends it at its order on this net (used both for
// freshly mined blocks and for replaying another net's blocks).
func (n *Net) Insert(b *Block) error {
	for ctx := b.Order; ctx < 3; ctx++ {
		if b.Views[ctx] == nil {
			return fmt.Errorf("missing view ctx %d", ctx)
		}
		n.Nodes[ctx].Core.Slice().WriteBlock(types.CopyWorkObject(b.Views[ctx]))
	}
	etxs, err := n.Nodes[b.Order].Core.Slice().Append(types.CopyWorkObject(b.Views[b.Order]), common.Hash{}, false, nil)
	if err != nil {
		return fmt.Errorf("append at order %d: %w", b.Order, err)
	}
	b.Etxs = etxs
	if b.Order > Prime {
		pe := types.PendingEtxs{Header: b.Views[Zone].ConvertToPEtxView(), OutboundEtxs: etxs}
		if err := n.Nodes[b.Order].Core.SendPendingEtxsToDom(pe); err != nil {
			return fmt.Errorf("SendPendingEtxsToDom: %w", err)
		}
	}
	return nil
}

// Advance returns the heads after b was appended on top of heads.
func (h Heads) Advance(b *Block) Heads {
	out := h
	for ctx := b.Order; ctx < 3; ctx++ {
		out[ctx] = b.Views[ctx]
	}
	return out
}

// Mine = Pending + Seal + Submit.
func (n *Net) Mine(heads Heads, o MineOpts) (Heads, *Block, error) {
	ph, err := n.Pending(heads, o)
	if err != nil {
		return heads, nil, err
	}
	if err := n.Seal(ph, o.Order, o.Salt); err != nil {
		return heads, nil, err
	}
	b, err := n.Submit(ph)
	if err != nil {
		return heads, b, err
	}
	return heads.Advance(b), b, nil
}

// SetHead makes the node at ctx adopt block as its current head through the production path
// (GeneratePendingHeader -> SetCurrentHeader), executing state for zone blocks.
func (n *Net) SetHead(ctx int, block *types.WorkObject) error {
	blk := n.Nodes[ctx].Core.GetBlockByHash(block.Hash())
	if blk == nil {
		return fmt.Errorf("SetHead: block %v unknown at ctx %d", block.Hash(), ctx)
	}
	_, err := n.Nodes[ctx].Core.GeneratePendingHeader(blk, false)
	return err
}

// SetHeads adopts all three heads.
func (n *Net) SetHeads(h Heads) error {
	for ctx := 0; ctx < 3; ctx++ {
		if err := n.SetHead(ctx, h[ctx]); err != nil {
			return err
		}
	}
	return nil
}

// Restart stops the node at ctx and opens a new core on the same database, re-wiring the net.
func (n *Net) Restart(ctx int) error {
	old := n.Nodes[ctx]
	old.Stop()
	node, err := StartNode(old.Loc, old.DB, old.opts)
	if err != nil {
		return err
	}
	n.Nodes[ctx] = node
	n.wire()
	return nil
}
