//go:build verif

package sim

import (
	"sync"

	"github.com/dominant-strategies/go-quai/common"
	"github.com/dominant-strategies/go-quai/core/rawdb"
	"github.com/dominant-strategies/go-quai/ethdb"
	"github.com/dominant-strategies/go-quai/ethdb/memorydb"
)

// KVOp is one put or delete.
type KVOp struct {
	Del  bool
	K, V []byte
}

// LogEntry is one durable write: a direct put/delete, or a whole batch commit (atomic).
type LogEntry struct {
	Ops   []KVOp
	Batch bool
}

// OpLog records every durable write a database receives, in order. Replaying a prefix of the
// log into a fresh database reproduces the on-disk content at that crash point, assuming a
// batch commit is atomic and writes are durable in order (what the engines' WAL promises).
type OpLog struct {
	mu      sync.Mutex
	Entries []LogEntry
}

func (l *OpLog) Len() int {
	l.mu.Lock()
	defer l.mu.Unlock()
	return len(l.Entries)
}

func (l *OpLog) add(e LogEntry) {
	l.mu.Lock()
	l.Entries = append(l.Entries, e)
	l.mu.Unlock()
}

type logKV struct {
	*memorydb.Database
	loc common.Location
	l   *OpLog
}

func (d *logKV) Location() common.Location { return d.loc }
func (d *logKV) Put(k, v []byte) error {
	d.l.add(LogEntry{Ops: []KVOp{{false, common.CopyBytes(k), common.CopyBytes(v)}}})
	return d.Database.Put(k, v)
}
func (d *logKV) Delete(k []byte) error {
	d.l.add(LogEntry{Ops: []KVOp{{true, common.CopyBytes(k), nil}}})
	return d.Database.Delete(k)
}
func (d *logKV) NewBatch() ethdb.Batch { return &logBatch{Batch: d.Database.NewBatch(), d: d} }

type logBatch struct {
	ethdb.Batch
	d   *logKV
	ops []KVOp
}

func (b *logBatch) Put(k, v []byte) error {
	b.ops = append(b.ops, KVOp{false, common.CopyBytes(k), common.CopyBytes(v)})
	return b.Batch.Put(k, v)
}
func (b *logBatch) Delete(k []byte) error {
	b.ops = append(b.ops, KVOp{true, common.CopyBytes(k), nil})
	return b.Batch.Delete(k)
}
func (b *logBatch) Write() error {
	if len(b.ops) > 0 {
		b.d.l.add(LogEntry{Ops: append([]KVOp{}, b.ops...), Batch: true})
	}
	return b.Batch.Write()
}
func (b *logBatch) Reset() { b.ops = nil; b.Batch.Reset() }
func (b *logBatch) Replay(w ethdb.KeyValueWriter) error {
	for _, op := range b.ops {
		if op.Del {
			if err := w.Delete(op.K); err != nil {
				return err
			}
		} else if err := w.Put(op.K, op.V); err != nil {
			return err
		}
	}
	return nil
}

// NewLoggedDB returns an in-memory database for loc whose durable writes are recorded in l.
func NewLoggedDB(loc common.Location, l *OpLog) ethdb.Database {
	return &LocDB{rawdb.NewDatabase(&logKV{Database: memorydb.New(Logger()), loc: loc, l: l}), loc}
}

// Materialise builds the database content after the first k log entries.
func (l *OpLog) Materialise(k int, loc common.Location) ethdb.Database {
	m := memorydb.New(Logger())
	l.mu.Lock()
	for _, e := range l.Entries[:k] {
		for _, op := range e.Ops {
			if op.Del {
				m.Delete(op.K)
			} else {
				m.Put(op.K, op.V)
			}
		}
	}
	l.mu.Unlock()
	return &LocDB{rawdb.NewDatabase(&kvLoc{m, loc}), loc}
}
