//go:build verif

package sim

import (
	"errors"
	"fmt"
	"math/big"

	"github.com/dominant-strategies/go-quai/common"
	"github.com/dominant-strategies/go-quai/core/types"
	"github.com/dominant-strategies/go-quai/params"
	"pgregory.net/rapid"
)

// ErrPostForkShare: after the KawPoW fork a workshare needs an AuxPoW; the simulator's share miner
// only produces the pre-fork kind.
var ErrPostForkShare = errors.New("workshare: post-fork shares are not mined by the simulator")

// MineWorkShare builds a pending header on heads, grinds a nonce whose seal misses the block
// target but meets the workshare threshold (2^WorkSharesThresholdDiff times easier), and hands
// the sealed header to the zone worker the way the p2p layer does (Core.SendWorkShare). The
// worker then includes it as an uncle of one of the next blocks (inclusion depth permitting).
func (n *Net) MineWorkShare(heads Heads, o MineOpts) (*types.WorkObjectHeader, error) {
	o.NoFill = true
	ph, err := n.Pending(heads, o)
	if err != nil {
		return nil, err
	}
	woh := ph.WorkObjectHeader()
	if woh.PrimeTerminusNumber().Uint64() >= params.KawPowForkBlock {
		return nil, ErrPostForkShare
	}
	target := new(big.Int).Div(common.Big2e256, woh.Difficulty())
	shareTarget := new(big.Int).Lsh(target, uint(params.WorkSharesThresholdDiff))
	zone := n.Nodes[Zone]
	for nonce, tries := o.Salt<<32|1<<31, 0; ; nonce, tries = nonce+1, tries+1 {
		if tries > 1_000_000 {
			return nil, errors.New("workshare: nonce search exhausted")
		}
		woh.SetNonce(types.EncodeNonce(nonce))
		h := new(big.Int).SetBytes(woh.Hash().Bytes())
		if h.Cmp(target) <= 0 || h.Cmp(shareTarget) > 0 {
			continue
		}
		break
	}
	if v := zone.Core.UncleWorkShareClassification(woh); v != types.Valid {
		return nil, fmt.Errorf("workshare: ground share classified %v", v)
	}
	ws := types.CopyWorkObjectHeader(woh)
	if err := zone.Core.SendWorkShare(ws); err != nil {
		return nil, fmt.Errorf("SendWorkShare: %w", err)
	}
	return ws, nil
}

// WorkShare mines one workshare on the actor's current heads with a drawn coinbase (Quai or,
// once allowed, Qi), lock byte and nonce salt. Shares mined on a parent stay includable for
// the next NewWorkSharesInclusionDepth blocks.
func (a *Actor) WorkShare(t *rapid.T) (*types.WorkObjectHeader, error) {
	o := MineOpts{Salt: a.Salt<<8 | uint64(rapid.IntRange(0, 255).Draw(t, "wsSalt"))}
	o.TimeDelta = uint64(rapid.SampledFrom([]int{1, 2, 5}).Draw(t, "wsDt"))
	qiAllowed := a.PrimeNumber() >= params.ControllerKickInBlock+1
	if qiAllowed && rapid.IntRange(0, 3).Draw(t, "wsQi") == 0 {
		o.Coinbase = a.qi[rapid.IntRange(0, 3).Draw(t, "wsCbQi")].Addr
	} else {
		o.Coinbase = a.quai[rapid.IntRange(0, nQuaiKeys-1).Draw(t, "wsCbQuai")].Addr
	}
	if a.ZoneNumber()+1 >= 2*params.BlocksPerMonth {
		o.Lock = uint8(rapid.IntRange(0, 3).Draw(t, "wsLock"))
	}
	o.Data = []byte{o.Lock}
	if len(a.Contracts) > 0 && rapid.IntRange(0, 3).Draw(t, "wsLayout") == 0 {
		// half of the contract-layout shares pay the same "sticky" tranche as the sticky block
		// rewards of DrawMineOpts (same contract, miner, lock byte): a block that carries such a
		// share next to its own sticky reward credits one tranche several times
		if rapid.Bool().Draw(t, "wsSticky") {
			o.Coinbase = a.quai[5].Addr
			o.Lock = 0
			if a.ZoneNumber()+1 >= 2*params.BlocksPerMonth {
				o.Lock = 1
			}
			o.Data = []byte{o.Lock}
			a.label("ws_sticky_tranche")
		}
		o.Data = append(o.Data, a.Contracts[0].Bytes()...)
	}
	heads, back := a.Heads, 0
	// a quarter of the shares are stale: mined on the heads of one or two blocks ago
	if len(a.Blocks) > 4 && rapid.IntRange(0, 3).Draw(t, "wsStale") == 0 {
		back = rapid.IntRange(1, 2).Draw(t, "wsBack")
		heads = a.Blocks[len(a.Blocks)-1-back].After
		a.label("workshare_stale")
	}
	ws, err := a.Net.MineWorkShare(heads, o)
	if errors.Is(err, ErrPostForkShare) {
		a.label("workshare_skipped_postfork")
		return nil, nil
	}
	if err != nil {
		return nil, err
	}
	a.Shares = append(a.Shares, ws)
	a.label("workshare_mined")
	a.logf("workshare parent=#%d cb=%x lock=%d -> %x", a.ZoneNumber()-uint64(back), o.Coinbase.Bytes()[:3], o.Lock, ws.Hash().Bytes()[:4])
	return ws, nil
}

// MineBadUncles tries to get a block accepted whose uncle list breaks the share rules: an uncle
// repeated inside the list, an uncle already carried by an earlier block of the chain, a chain
// block itself, or a share mined long ago. The block is otherwise what an honest miner would
// build (custom miner: fees, roots and share rewards follow from executing the body). It returns
// the accepted block (the chain-level oracles judge it) or nil when the node refused it, in
// which case the actor's heads are unchanged.
func (a *Actor) MineBadUncles(t *rapid.T, o MineOpts) (*Block, string) {
	if o.Salt == 0 {
		o.Salt = a.Salt
	}
	if o.Coinbase.Equal(common.Address{}) {
		o.Coinbase = DefaultQuaiCoinbase
	}
	kind := rapid.SampledFrom([]string{"dup-in-list", "re-include", "re-include", "chain-block", "old-share"}).Draw(t, "badUncleKind")
	var extra *types.WorkObjectHeader
	switch kind {
	case "re-include":
		// an uncle carried by the block 1..6 back
		back := rapid.IntRange(1, 6).Draw(t, "badUncleBack")
		for i := len(a.Blocks) - back; i >= 0 && i < len(a.Blocks) && extra == nil; i-- {
			if us := a.Blocks[i].Zone().Uncles(); len(us) > 0 {
				extra = types.CopyWorkObjectHeader(us[rapid.IntRange(0, len(us)-1).Draw(t, "badUncleIdx")])
				kind = fmt.Sprintf("re-include(back=%d)", len(a.Blocks)-i)
			}
		}
	case "chain-block":
		back := rapid.IntRange(1, 4).Draw(t, "badUncleBack")
		if back <= len(a.Blocks) {
			extra = types.CopyWorkObjectHeader(a.Blocks[len(a.Blocks)-back].Zone().WorkObjectHeader())
			kind = fmt.Sprintf("chain-block(back=%d)", back)
		}
	case "old-share":
		if len(a.Shares) > 0 {
			extra = types.CopyWorkObjectHeader(a.Shares[rapid.IntRange(0, len(a.Shares)-1).Draw(t, "badUncleShare")])
		}
	}
	parents := a.Heads
	h, b, err := a.Net.MineCustomBody(a.Heads, o, nil, func(us []*types.WorkObjectHeader) []*types.WorkObjectHeader {
		if extra == nil && len(us) > 0 {
			kind = "dup-in-list"
			extra = types.CopyWorkObjectHeader(us[0])
		}
		if extra == nil {
			return us
		}
		if rapid.Bool().Draw(t, "badUncleFirst") {
			return append([]*types.WorkObjectHeader{extra}, us...)
		}
		return append(us, extra)
	})
	if extra == nil {
		kind = "none"
	}
	if err != nil {
		a.label("bad_uncles_refused")
		a.logf("bad uncles (%s) refused: %v", kind, err)
		_ = a.Adopt()
		return nil, kind
	}
	b.Parents, b.After = parents, h
	a.Heads = h
	a.Blocks = append(a.Blocks, b)
	a.logf("mine BAD-UNCLES (%s) accepted order=%d -> #%v uncles=%d", kind, b.Order, b.Zone().NumberArray(), len(b.Zone().Uncles()))
	a.label("bad_uncles_accepted")
	a.classify(b)
	return b, kind
}
