//go:build verif

package sim

import (
	"fmt"
	"testing"

	"pgregory.net/rapid"
)

func TestWorkShares(t *testing.T) {
	rapid.Check(t, func(t *rapid.T) {
		n, err := NewNet(Options{})
		if err != nil {
			t.Fatal(err)
		}
		defer n.Close()
		a := NewActor(n)
		if err := a.Prelude(); err != nil {
			t.Fatal(err)
		}
		steps := rapid.IntRange(5, 15).Draw(t, "steps")
		for i := 0; i < steps; i++ {
			a.Traffic(t)
			for k := rapid.IntRange(0, 3).Draw(t, "nshares"); k > 0; k-- {
				if _, err := a.WorkShare(t); err != nil {
					t.Fatalf("share: %v", err)
				}
			}
			b, err := a.MineRandom(t)
			if err != nil {
				t.Fatalf("step %d: %v\n%v", i, err, a.Log)
			}
			if err := a.Adopt(); err != nil {
				t.Fatalf("adopt: %v", err)
			}
			if fp, msg := CheckHeadCommitment(n.Nodes[Zone]); fp != "" {
				t.Fatalf("commitment %s %s", fp, msg)
			}
			_ = b
		}
		fmt.Println(a.Labels["workshare_mined"], a.Labels["blk_with_uncles"], a.Labels["blk_with_multiple_uncles"])
	})
}
