//go:build verif

package sim

import (
	"fmt"
	"math/big"
	"strings"

	"github.com/dominant-strategies/go-quai/common"
	"github.com/dominant-strategies/go-quai/core/types"
	"github.com/dominant-strategies/go-quai/params"
	"pgregory.net/rapid"

	"verifharness/stats"
)

// FpSpentAndTrimmed is the known finding that a Qi output spent in exactly the block in which
// it is due for trimming is removed from the UTXO commitment twice (C06). While it is listed as
// known the generator never spends such an output, so that the search continues behind it.
const FpSpentAndTrimmed = "C06/commitment/spent-and-trimmed-same-block"

// CheckHeadCommitment reports the finding as "spent-and-trimmed-same-block"; whichever
// property's check composes a fingerprint from that, it is the same finding.
func init() { stats.Alias("spent-and-trimmed-same-block", FpSpentAndTrimmed) }

// AtTrimEdge reports whether spending u in the next block coincides with its trimming.
func (a *Actor) AtTrimEdge(u UTXORec) bool {
	h, ok := a.created[types.OutPoint{TxHash: u.TxHash, Index: u.Index}]
	return ok && u.Entry.Denomination <= types.MaxTrimDenomination && u.Entry.Lock.Sign() == 0 &&
		h+types.TrimDepths[u.Entry.Denomination] == a.ZoneNumber()+1
}

// NearTrimEdge reports whether u is due for trimming in one of the next four blocks: a
// transaction submitted now is not always included in the very next block (a custom-mined
// block takes nothing from the pool), so the exclusion of the known finding keeps a margin.
func (a *Actor) NearTrimEdge(u UTXORec) bool {
	h, ok := a.created[types.OutPoint{TxHash: u.TxHash, Index: u.Index}]
	if !ok || u.Entry.Denomination > types.MaxTrimDenomination || u.Entry.Lock.Sign() != 0 {
		return false
	}
	due, next := h+types.TrimDepths[u.Entry.Denomination], a.ZoneNumber()+1
	return due >= next && due <= next+3
}

// TrimDue returns how many blocks from now the next trimming happens (0 = the very next block
// trims at least one stored output) among the zero-lock small-denomination outputs this actor's
// transactions created, and whether there is any such output.
func (a *Actor) TrimDue() (uint64, bool) {
	best, any := uint64(0), false
	for _, u := range ScanUTXOs(a.Net.Nodes[Zone].DB) {
		if u.Entry == nil || u.Entry.Denomination > types.MaxTrimDenomination || u.Entry.Lock.Sign() != 0 {
			continue
		}
		h, ok := a.created[types.OutPoint{TxHash: u.TxHash, Index: u.Index}]
		if !ok {
			continue
		}
		due := h + types.TrimDepths[u.Entry.Denomination]
		if due < a.ZoneNumber()+1 {
			continue
		}
		if d := due - (a.ZoneNumber() + 1); !any || d < best {
			best, any = d, true
		}
	}
	return best, any
}

// Actor drives one Net along a branch: it owns the heads it mines on, remembers nonces per
// branch and draws traffic and mining choices from rapid.
type Actor struct {
	Net    *Net
	Heads  Heads
	Blocks []*Block // blocks mined by this actor, in order
	Log    []string // human readable history (for replay dumps)
	Labels map[string]int

	quai   []*Key
	qi     []*Key
	qiNext int // next never-used Qi key index (outputs may not reuse addresses)
	Salt   uint64

	// contracts deployed by this actor (lockup forwarders)
	Contracts []common.Address
	// lab contracts (sim/lab.go): Store instances, the CREATE2 factory, a reserved prefunded creation
	Labs       []common.Address
	Factory    *common.Address
	Converter  *common.Address
	pendingLab *pendingDeploy
	NoLab      bool // Traffic submits no lab-contract transactions
	StickyPct  int  // percentage of mined blocks whose reward goes to the sticky lockup tranche (0 = the default mix)

	// workshares this actor mined and handed to the zone worker
	Shares []*types.WorkObjectHeader
	// when set, Qi->Quai conversions are addressed to these accounts only (accounts that nothing
	// else ever pays or charges, so that their balance is exactly the conversions credited)
	ConvRecipients []common.Address
	NoShares       bool // MineRandom mines no workshares

	// zone height at which each Qi-transaction output seen in this actor's blocks was created
	created map[types.OutPoint]uint64
}

const (
	nQuaiKeys = 6
	nQiKeys   = 48
)

func NewActor(n *Net) *Actor {
	return &Actor{Net: n, Heads: n.GenesisHeads(), Labels: map[string]int{}, quai: QuaiKeys(nQuaiKeys), qi: QiKeys(nQiKeys), qiNext: 4, Salt: 1, created: map[types.OutPoint]uint64{}}
}

// Fork returns an actor that continues from the same heads with independent bookkeeping.
func (a *Actor) Fork(salt uint64) *Actor {
	b := *a
	b.Blocks = append([]*Block{}, a.Blocks...)
	b.Log = append([]string{}, a.Log...)
	b.Labels = map[string]int{}
	for k, v := range a.Labels {
		b.Labels[k] = v
	}
	b.Contracts = append([]common.Address{}, a.Contracts...)
	b.Labs = append([]common.Address{}, a.Labs...)
	b.created = map[types.OutPoint]uint64{}
	for k, v := range a.created {
		b.created[k] = v
	}
	b.Salt = salt
	return &b
}

func (a *Actor) logf(format string, args ...any) {
	a.Log = append(a.Log, fmt.Sprintf(format, args...))
}

func (a *Actor) label(l string) { a.Labels[l]++ }

func (a *Actor) ZoneHead() *types.WorkObject { return a.Heads[Zone] }

func (a *Actor) ZoneNumber() uint64 {
	if a.Net.Nodes[Zone].Core.Slice().HeaderChain().IsGenesisHash(a.Heads[Zone].Hash()) {
		return 0
	}
	return a.Heads[Zone].NumberU64(Zone)
}

func (a *Actor) PrimeNumber() uint64 {
	if a.Net.Nodes[Prime].Core.Slice().HeaderChain().IsGenesisHash(a.Heads[Prime].Hash()) {
		return 0
	}
	return a.Heads[Prime].NumberU64(Prime)
}

// adopt makes the net's nodes follow this actor's heads (needed before reading head state or
// submitting transactions when several actors share a net).
func (a *Actor) Adopt() error { return a.Net.SetHeads(a.Heads) }

// MineOne mines one block with explicit options on the actor's heads.
func (a *Actor) MineOne(o MineOpts) (*Block, error) {
	if o.Salt == 0 {
		o.Salt = a.Salt
	}
	if o.Coinbase.Equal(common.Address{}) {
		o.Coinbase = DefaultQuaiCoinbase
	}
	parents := a.Heads
	h, b, err := a.Net.Mine(a.Heads, o)
	if err != nil {
		return b, err
	}
	b.Parents = parents
	b.After = h
	a.Heads = h
	a.Blocks = append(a.Blocks, b)
	a.logf("mine order=%d cb=%x lock=%d datalen=%d dt=%d -> #%v txs=%d etxs=%d", b.Order, o.Coinbase.Bytes()[:3], o.Lock, len(o.Data), o.TimeDelta, b.Zone().NumberArray(), len(b.Zone().Transactions()), len(b.Zone().OutboundEtxs()))
	a.classify(b)
	return b, nil
}

func (a *Actor) classify(b *Block) {
	if n := len(b.Zone().Uncles()); n > 0 {
		a.label("blk_with_uncles")
		if n > 1 {
			a.label("blk_with_multiple_uncles")
		}
	}
	for _, tx := range b.Zone().Transactions() {
		switch tx.Type() {
		case types.QuaiTxType:
			a.label("blk_quai_tx")
		case types.QiTxType:
			a.label("blk_qi_tx")
			for i := range tx.TxOut() {
				a.created[types.OutPoint{TxHash: tx.Hash(), Index: uint16(i)}] = b.Zone().NumberU64(Zone)
			}
		case types.ExternalTxType:
			a.label(fmt.Sprintf("blk_inbound_etx_type%d", tx.EtxType()))
		}
	}
	a.label(fmt.Sprintf("blk_order%d", b.Order))
}

// Prelude mines the fixed opening every history shares: prime blocks until the (scaled)
// controller has kicked in and transactions are allowed, so that conversions, Qi coinbases and
// lock bytes are available to the generated part.
func (a *Actor) Prelude() error {
	for i := 0; i < 5; i++ {
		if _, err := a.MineOne(MineOpts{Order: Prime, Coinbase: a.quai[4].Addr}); err != nil {
			return fmt.Errorf("prelude block %d: %w", i, err)
		}
	}
	for i := 0; i < 2; i++ {
		if _, err := a.MineOne(MineOpts{Order: Zone, Coinbase: a.quai[5].Addr}); err != nil {
			return fmt.Errorf("prelude block %d: %w", 5+i, err)
		}
	}
	// two early Quai->Qi conversions and a forwarder deployment so that Qi outputs and a lockup
	// owner contract exist when the generated part starts
	gp := a.gasPrice()
	var txs []*types.Transaction
	for i, qits := range []int64{1_300_000, 56_000} {
		to := a.qi[i].Addr
		tx, err := QuaiTx(a.quai[i], 0, &to, new(big.Int).Mul(big.NewInt(qits), big.NewInt(4e18)), 400000, gp, nil, nil)
		if err != nil {
			return err
		}
		txs = append(txs, tx)
	}
	dtx, caddr, err := DeployTx(a.quai[2], 0, ForwarderInitCode(), big.NewInt(0), 1_500_000, gp)
	if err != nil {
		return err
	}
	txs = append(txs, dtx)
	for i, e := range a.Net.SubmitTxs(txs...) {
		if e != nil {
			return fmt.Errorf("prelude tx %d: %w", i, e)
		}
	}
	a.Contracts = append(a.Contracts, caddr)
	cdata := append([]byte{0}, caddr.Bytes()...)
	for i, o := range []int{Zone, Prime, Zone, Prime, Zone, Zone} {
		cb := a.quai[5].Addr
		if i%2 == 1 {
			cb = a.qi[2].Addr
		}
		if _, err := a.MineOne(MineOpts{Order: o, Coinbase: cb, Data: cdata}); err != nil {
			return fmt.Errorf("prelude block %d: %w", 7+i, err)
		}
	}
	return nil
}

// ---- traffic ----------------------------------------------------------------------------------

var (
	foreignQuai = common.HexToAddress("0x0100000000000000000000000000000000000077", ZoneLoc) // external relative to the node
	foreignQi   = common.HexToAddress("0x0180000000000000000000000000000000000077", ZoneLoc)
)

func (a *Actor) gasPrice() *big.Int {
	bf := a.Net.Nodes[Zone].Core.CurrentHeader().BaseFee()
	if bf == nil || bf.Sign() == 0 {
		return big.NewInt(1)
	}
	return new(big.Int).Mul(bf, big.NewInt(2))
}

func (a *Actor) stateNonce(k *Key) uint64 {
	st, err := a.Net.HeadState()
	if err != nil {
		return 0
	}
	return st.GetNonce(k.Internal())
}

func (a *Actor) freshQi() *Key {
	if a.qiNext >= len(a.qi) {
		a.qi = QiKeys(len(a.qi) + 16)
	}
	k := a.qi[a.qiNext]
	a.qiNext++
	return k
}

// spendable lists outputs owned by any of the actor's Qi keys that are unlocked at the next block.
func (a *Actor) spendable() (out []UTXORec, owner []*Key) {
	byAddr := map[common.AddressBytes]*Key{}
	for _, k := range a.qi {
		byAddr[k.Addr.Bytes20()] = k
	}
	next := a.ZoneNumber() // the pool validates locks against the current head
	for _, u := range ScanUTXOs(a.Net.Nodes[Zone].DB) {
		if u.Entry == nil {
			continue
		}
		k := byAddr[common.AddressBytes(u.Entry.Address)]
		if k == nil {
			continue
		}
		if u.Entry.Lock != nil && u.Entry.Lock.Uint64() > next {
			continue
		}
		if a.NearTrimEdge(u) && stats.IsKnown(FpSpentAndTrimmed) {
			stats.Excluded(FpSpentAndTrimmed)
			continue
		}
		out = append(out, u)
		owner = append(owner, k)
	}
	return
}

// splitDenoms splits value (in qits) greedily into denominations strictly below maxDen, at most n outputs.
func splitDenoms(value int64, maxDen uint8, n int) []uint8 {
	var out []uint8
	for d := int(maxDen); d >= 0 && len(out) < n; d-- {
		v := types.Denominations[uint8(d)].Int64()
		for value >= v && len(out) < n {
			out = append(out, uint8(d))
			value -= v
		}
	}
	return out
}

// Traffic submits 0..3 generated transactions to the zone pool on the actor's current head.
// The actor's heads must be the net's heads (call Adopt first when sharing a net).
func (a *Actor) Traffic(t *rapid.T) {
	n := rapid.IntRange(0, 3).Draw(t, "ntx")
	for i := 0; i < n; i++ {
		kinds := []string{"transfer", "transfer", "quai2qi", "quai2qi", "xzone", "failing", "deploy"}
		if us, _ := a.spendable(); len(us) > 0 {
			kinds = append(kinds, "qispend", "qispend", "qispend", "qi2quai", "qi2quai", "qixzone", "qichain", "qichain")
		}
		if len(a.Contracts) > 0 {
			kinds = append(kinds, "claim", "claim")
		}
		kind := rapid.SampledFrom(kinds).Draw(t, "txkind")
		a.submit(t, kind)
	}
	a.LabTraffic(t)
}

// LabTraffic submits 0-2 lab-contract transactions (deployments, creation on a prefunded address,
// storage calls, self-destructs, CREATE2 re-creations; see lab.go).
func (a *Actor) LabTraffic(t *rapid.T) {
	if a.NoLab || a.ZoneNumber() < params.TimeToStartTx+1 {
		return
	}
	n := rapid.SampledFrom([]int{0, 0, 1, 1, 2}).Draw(t, "nlab")
	for i := 0; i < n; i++ {
		kinds := []string{"labdeploy", "labprefund", "labfactory"}
		if a.PrimeNumber() >= params.ControllerKickInBlock+1 {
			kinds = append(kinds, "labconverter")
			if a.Converter != nil {
				kinds = append(kinds, "labconvert", "labconvert")
			}
		}
		if a.pendingLab != nil {
			kinds = append(kinds, "labcreate", "labcreate", "labcreate")
		}
		if a.Factory != nil {
			kinds = append(kinds, "labspawn", "labspawn")
		}
		if len(a.labTargets()) > 0 {
			kinds = append(kinds, "labcall", "labcall", "labcall", "labkill")
		}
		a.submitLab(t, rapid.SampledFrom(kinds).Draw(t, "labkind"))
	}
}

func (a *Actor) submit(t *rapid.T, kind string) {
	if a.ZoneNumber() < params.TimeToStartTx+1 {
		return
	}
	gp := a.gasPrice()
	switch kind {
	case "transfer", "xzone", "quai2qi", "failing":
		from := a.quai[rapid.IntRange(0, FundedKeys-1).Draw(t, "from")]
		nonce := a.Net.Nodes[Zone].Core.TxPool().Nonce(from.Internal())
		var to common.Address
		gas := uint64(21000)
		value := big.NewInt(int64(rapid.IntRange(0, 1_000_000).Draw(t, "value")))
		var data []byte
		switch kind {
		case "transfer":
			to = a.quai[rapid.IntRange(0, nQuaiKeys-1).Draw(t, "to")].Addr
		case "xzone":
			to = foreignQuai
			gas = 100000
		case "quai2qi":
			to = a.qi[rapid.IntRange(0, 3).Draw(t, "toqi")].Addr
			gas = uint64(rapid.SampledFrom([]int{60000, 200000, 400000}).Draw(t, "convgas"))
			// value in "block rewards": 1 qit ~ 4e18 its in this configuration
			qits := rapid.SampledFrom([]int64{3, 40, 700, 12000, 150000}).Draw(t, "qits")
			value = new(big.Int).Mul(big.NewInt(qits), big.NewInt(4e18))
			if rapid.Bool().Draw(t, "slip") {
				slip := uint16(rapid.SampledFrom([]int{0, 1, 50, 500, 9000, 65535}).Draw(t, "slipv"))
				data = []byte{byte(slip >> 8), byte(slip)}
			}
		case "failing":
			to = a.quai[0].Addr
			gas = 21000
			value = new(big.Int).Mul(GenesisAllocation, big.NewInt(2)) // more than anyone owns: rejected by the pool
		}
		// the price varies between transactions so that blocks hold non-ETX transactions of
		// different prices (the order rule of block processing)
		txgp := new(big.Int).Mul(gp, big.NewInt(int64(rapid.SampledFrom([]int{1, 1, 1, 2, 3}).Draw(t, "pricemul"))))
		tx, err := QuaiTx(from, nonce, &to, value, gas, txgp, data, nil)
		if err != nil {
			return
		}
		errs := a.Net.SubmitTxs(tx)
		a.logf("tx %s from=%x nonce=%d value=%v gas=%d price=%v err=%v", kind, from.Addr.Bytes()[:3], nonce, value, gas, txgp, errs[0])
		if errs[0] == nil {
			a.label("tx_" + kind)
		}
	case "qispend", "qi2quai", "qixzone":
		us, owners := a.spendable()
		if len(us) == 0 {
			return
		}
		idx := rapid.IntRange(0, len(us)-1).Draw(t, "utxo")
		// bias: an unlocked small-denomination output that is due for trimming in the very next block
		if rapid.Bool().Draw(t, "preferTrimEdge") {
			for i, c := range us {
				if a.AtTrimEdge(c) {
					idx = i
					a.label("spend_at_trim_edge")
					break
				}
			}
		}
		u, k := us[idx], owners[idx]
		den := u.Entry.Denomination
		if den < 3 { // cannot pay the 5-qit minimum fee out of < 50 qits sensibly
			return
		}
		inVal := types.Denominations[den].Int64()
		fee := inVal / 5
		if fee < 10 {
			fee = 10
		}
		nOut := rapid.IntRange(1, 4).Draw(t, "nout")
		dens := splitDenoms(inVal-fee, den, nOut)
		if len(dens) == 0 {
			return
		}
		var outs []QiOut
		var data []byte
		switch kind {
		case "qispend":
			for _, d := range dens {
				outs = append(outs, QiOut{Denomination: d, To: a.freshQi().Addr})
			}
		case "qi2quai":
			// all conversion outputs go to one Quai address; data = 2-byte slip + Qi refund address
			to := a.quai[rapid.IntRange(0, nQuaiKeys-1).Draw(t, "toquai")].Addr
			if len(a.ConvRecipients) > 0 {
				to = a.ConvRecipients[rapid.IntRange(0, len(a.ConvRecipients)-1).Draw(t, "toconv")]
			}
			outs = append(outs, QiOut{Denomination: dens[0], To: to})
			for _, d := range dens[1:] {
				outs = append(outs, QiOut{Denomination: d, To: a.freshQi().Addr})
			}
			slip := uint16(rapid.SampledFrom([]int{0, 1, 50, 500, 9000}).Draw(t, "slipv"))
			data = append([]byte{byte(slip >> 8), byte(slip)}, a.freshQi().Addr.Bytes()...)
		case "qixzone":
			outs = append(outs, QiOut{Denomination: dens[0], To: foreignQi})
			for _, d := range dens[1:] {
				outs = append(outs, QiOut{Denomination: d, To: a.freshQi().Addr})
			}
		}
		tx, err := QiTx(k, []UTXORec{u}, outs, data)
		if err != nil {
			return
		}
		errs := a.Net.SubmitTxs(tx)
		a.logf("tx %s in=%s outs=%v err=%v", kind, u, dens, errs[0])
		if errs[0] == nil {
			a.label("tx_" + kind)
		}
	case "qidust":
		// one large output is split into change plus 1-4 small zero-lock outputs (denominations 0-5,
		// the ones the protocol trims TrimDepths blocks after their creation)
		us, owners := a.spendable()
		var cands []int
		for i, u := range us {
			if u.Entry.Denomination >= 6 && !a.AtTrimEdge(u) {
				cands = append(cands, i)
			}
		}
		if len(cands) == 0 {
			return
		}
		i := cands[rapid.IntRange(0, len(cands)-1).Draw(t, "dustUtxo")]
		u, k := us[i], owners[i]
		outs := []QiOut{{Denomination: u.Entry.Denomination - 1, To: a.freshQi().Addr}}
		var dens []uint8
		for j, nd := 0, rapid.IntRange(1, 4).Draw(t, "nDust"); j < nd; j++ {
			d := uint8(rapid.IntRange(0, 4).Draw(t, "dustDen"))
			dens = append(dens, d)
			outs = append(outs, QiOut{Denomination: d, To: a.freshQi().Addr})
		}
		tx, err := QiTx(k, []UTXORec{u}, outs, nil)
		if err != nil {
			return
		}
		errs := a.Net.SubmitTxs(tx)
		a.logf("tx qidust in=%s change=den%d dust=%v err=%v", u, u.Entry.Denomination-1, dens, errs[0])
		if errs[0] == nil {
			a.label("tx_qidust")
		}
	case "qichain":
		// two Qi transactions in one block, the second spending an output the first creates. The pool
		// validates inputs against the committed set only, so the second one is injected the way the
		// pool re-injects reorganised transactions; the worker processes both on its block batch.
		us, owners := a.spendable()
		if len(us) == 0 {
			return
		}
		idx := rapid.IntRange(0, len(us)-1).Draw(t, "utxo")
		u, k := us[idx], owners[idx]
		if u.Entry.Denomination < 6 {
			return
		}
		mid, end := a.freshQi(), a.freshQi()
		d1 := u.Entry.Denomination - 1
		tx1, err := QiTx(k, []UTXORec{u}, []QiOut{{Denomination: d1, To: mid.Addr}}, nil)
		if err != nil {
			return
		}
		out1 := UTXORec{TxHash: tx1.Hash(), Index: 0}
		d2 := d1 - 1
		tx2, err := QiTx(mid, []UTXORec{out1}, []QiOut{{Denomination: d2, To: end.Addr}}, nil)
		if err != nil {
			return
		}
		errs := a.Net.SubmitTxs(tx1)
		if errs[0] != nil {
			a.logf("tx qichain first rejected: %v", errs[0])
			return
		}
		fee2 := new(big.Int).Sub(types.Denominations[d1], types.Denominations[d2])
		err2 := a.Net.Nodes[Zone].Core.TxPool().VerifInjectQiTx(tx2, fee2)
		a.Net.Nodes[Zone].Core.Slice().VerifForcePendingRecompute()
		a.logf("tx qichain in=%s -> den %d -> den %d (second injected: %v)", u, d1, d2, err2)
		a.label("tx_qichain")
	case "claim":
		if len(a.Contracts) == 0 {
			return
		}
		var mine []LockupRec
		for _, l := range ScanLockups(a.Net.Nodes[Zone].DB, ZoneLoc) {
			for _, c := range a.Contracts {
				if l.Owner.Equal(c) {
					mine = append(mine, l)
				}
			}
		}
		if len(mine) == 0 {
			return
		}
		l := mine[rapid.IntRange(0, len(mine)-1).Draw(t, "lockup")]
		var to common.Address
		if l.Miner.IsInQiLedgerScope() {
			to = a.freshQi().Addr
		} else {
			to = a.quai[rapid.IntRange(0, nQuaiKeys-1).Draw(t, "claimto")].Addr
		}
		epoch := l.Epoch
		if rapid.IntRange(0, 5).Draw(t, "wrongEpoch") == 0 {
			epoch++
		}
		in := append([]byte{}, l.Miner.Bytes()...)
		in = append(in, to.Bytes()...)
		in = append(in, l.LockupByte)
		in = append(in, byte(epoch>>24), byte(epoch>>16), byte(epoch>>8), byte(epoch))
		etxGas := uint64(rapid.SampledFrom([]int{21000, 30000, 100000}).Draw(t, "etxgas"))
		in = append(in, 0, 0, 0, 0, byte(etxGas>>24), byte(etxGas>>16), byte(etxGas>>8), byte(etxGas))
		from := a.quai[rapid.IntRange(0, FundedKeys-1).Draw(t, "from")]
		nonce := a.Net.Nodes[Zone].Core.TxPool().Nonce(from.Internal())
		owner := l.Owner
		al := types.AccessList{{Address: owner}, {Address: LockupContract()}}
		tx, err := QuaiTx(from, nonce, &owner, big.NewInt(0), 400000, gp, in, al)
		if err != nil {
			return
		}
		errs := a.Net.SubmitTxs(tx)
		a.logf("tx claim owner=%x miner=%x byte=%d epoch=%d(rec %d) unlock=%d err=%v", owner.Bytes()[:4], l.Miner.Bytes()[:4], l.LockupByte, epoch, l.Epoch, l.UnlockHeight, errs[0])
		if errs[0] == nil {
			a.label("tx_claim")
		}
	case "deploy":
		if len(a.Contracts) >= 2 {
			return
		}
		from := a.quai[rapid.IntRange(0, FundedKeys-1).Draw(t, "from")]
		nonce := a.Net.Nodes[Zone].Core.TxPool().Nonce(from.Internal())
		tx, addr, err := DeployTx(from, nonce, ForwarderInitCode(), big.NewInt(0), 1_500_000, gp)
		if err != nil {
			return
		}
		errs := a.Net.SubmitTxs(tx)
		a.logf("tx deploy forwarder at %x nonce=%d err=%v", addr.Bytes()[:4], nonce, errs[0])
		if errs[0] == nil {
			a.Contracts = append(a.Contracts, addr)
			a.label("tx_deploy")
		}
	}
}

// ForwarderInitCode returns init code deploying a contract that forwards its calldata to the
// zone's lockup precompile with all gas and returns the call's status in the first return word:
//
//	CALLDATASIZE PUSH0.. CALLDATACOPY ; CALL(gas, lockup, 0, 0, calldatasize, 0, 0) ; MSTORE ; RETURN
func ForwarderInitCode() []byte {
	lock := LockupContract().Bytes()
	rt := []byte{
		0x36,       // CALLDATASIZE
		0x60, 0x00, // PUSH1 0
		0x60, 0x00, // PUSH1 0
		0x37,       // CALLDATACOPY(dest=0, off=0, size)
		0x60, 0x00, // retSize
		0x60, 0x00, // retOff
		0x36,       // argsSize
		0x60, 0x00, // argsOff
		0x60, 0x00, // value
		0x73, // PUSH20 lockup
	}
	rt = append(rt, lock...)
	rt = append(rt,
		0x5a,       // GAS
		0xf1,       // CALL
		0x60, 0x00, // PUSH1 0
		0x52,       // MSTORE
		0x60, 0x20, // PUSH1 32
		0x60, 0x00, // PUSH1 0
		0xf3, // RETURN
	)
	// init: CODECOPY(0, offset, len) ; RETURN(0, len)
	l := byte(len(rt))
	init := []byte{
		0x60, l, // PUSH1 len
		0x60, 0x0c, // PUSH1 offset (12 = length of this init prologue)
		0x60, 0x00, // PUSH1 0
		0x39,    // CODECOPY
		0x60, l, // PUSH1 len
		0x60, 0x00, // PUSH1 0
		0xf3, // RETURN
	}
	return append(init, rt...)
}

// MineRandom draws mining options (order, coinbase ledger and layout, lock byte, time delta)
// and mines one block.
func (a *Actor) MineRandom(t *rapid.T) (*Block, error) {
	return a.MineRandomOrder(t, -1)
}

// MineRandomOrder is MineRandom with the block order fixed when order >= 0.
func (a *Actor) MineRandomOrder(t *rapid.T, order int) (*Block, error) {
	o := a.DrawMineOpts(t, order)
	if !a.NoShares && a.ZoneNumber() >= 3 {
		for k := rapid.SampledFrom([]int{0, 0, 0, 0, 1, 1, 2, 3}).Draw(t, "nShares"); k > 0; k-- {
			if _, err := a.WorkShare(t); err != nil {
				return nil, err
			}
		}
	}
	if a.ZoneNumber() > params.TimeToStartTx+1 && rapid.IntRange(0, 3).Draw(t, "customMiner") == 0 {
		return a.MineChained(t, o)
	}
	return a.MineOne(o)
}

// DrawMineOpts draws mining options (order unless fixed, coinbase ledger and layout, lock byte,
// time delta).
func (a *Actor) DrawMineOpts(t *rapid.T, order int) MineOpts {
	if order < 0 {
		order = rapid.SampledFrom([]int{Zone, Zone, Zone, Zone, Region, Prime, Prime}).Draw(t, "order")
	}
	o := MineOpts{Order: order, Salt: a.Salt}
	o.TimeDelta = uint64(rapid.SampledFrom([]int{1, 1, 4, 5, 6, 30}).Draw(t, "dt"))
	qiAllowed := a.PrimeNumber() >= params.ControllerKickInBlock+1
	if qiAllowed && rapid.IntRange(0, 3).Draw(t, "qicb") == 0 {
		o.Coinbase = a.qi[rapid.IntRange(0, 3).Draw(t, "cbqi")].Addr
	} else {
		o.Coinbase = a.quai[rapid.IntRange(0, nQuaiKeys-1).Draw(t, "cbquai")].Addr
	}
	if a.ZoneNumber()+1 >= 2*params.BlocksPerMonth {
		o.Lock = uint8(rapid.IntRange(0, 3).Draw(t, "lock"))
	}
	// coinbase data layout: {lock} | {lock, contract} | {lock, contract, delegate}
	o.Data = []byte{o.Lock}
	if len(a.Contracts) > 0 && a.StickyPct > 0 && rapid.IntRange(0, 99).Draw(t, "stickyMode") < a.StickyPct {
		// lockup-heavy histories: most rewards go to the one sticky tranche, with changing delegates
		o.Coinbase = a.quai[5].Addr
		o.Lock = 0
		if a.ZoneNumber()+1 >= 2*params.BlocksPerMonth {
			o.Lock = 1
		}
		o.Data = append([]byte{o.Lock}, a.Contracts[0].Bytes()...)
		// the delegate rotates with the height (none / A / B), so that consecutive rewards of the
		// tranche differ in it (a drawn value is mostly the smallest one in rapid's early cases)
		switch (a.ZoneNumber() + a.Salt) % 3 {
		case 1:
			o.Data = append(o.Data, a.quai[0].Addr.Bytes()...)
		case 2:
			o.Data = append(o.Data, a.quai[1].Addr.Bytes()...)
		}
		a.label("cb_sticky_tranche")
		a.label("cb_contract_layout")
		return o
	}
	if len(a.Contracts) > 0 && rapid.IntRange(0, 2).Draw(t, "layout") == 0 {
		c := a.Contracts[rapid.IntRange(0, len(a.Contracts)-1).Draw(t, "contract")]
		o.Data = append(o.Data, c.Bytes()...)
		// half of the contract-layout rewards go to one "sticky" tranche (same contract, miner and
		// lock byte) so that a tranche accumulates several rewards per epoch, with a delegate that
		// changes between rewards (none / A / B)
		if rapid.Bool().Draw(t, "stickyTranche") {
			o.Coinbase = a.quai[5].Addr
			if a.ZoneNumber()+1 >= 2*params.BlocksPerMonth {
				o.Lock = 1
			}
			o.Data = append([]byte{o.Lock}, a.Contracts[0].Bytes()...)
			a.label("cb_sticky_tranche")
		}
		switch rapid.IntRange(0, 2).Draw(t, "delegate") {
		case 1:
			o.Data = append(o.Data, a.quai[0].Addr.Bytes()...)
		case 2:
			o.Data = append(o.Data, a.quai[1].Addr.Bytes()...)
		}
		a.label("cb_contract_layout")
	}
	return o
}

// SubmitSealed submits a pending header that was built with Net.Pending on the actor's heads
// and sealed by the caller, and advances the actor.
func (a *Actor) SubmitSealed(ph *types.WorkObject, o MineOpts) (*Block, error) {
	parents := a.Heads
	b, err := a.Net.Submit(ph)
	if err != nil {
		return b, err
	}
	b.Parents = parents
	b.After = parents.Advance(b)
	a.Heads = b.After
	a.Blocks = append(a.Blocks, b)
	a.logf("mine order=%d cb=%x lock=%d datalen=%d dt=%d -> #%v txs=%d etxs=%d", b.Order, o.Coinbase.Bytes()[:3], o.Lock, len(o.Data), o.TimeDelta, b.Zone().NumberArray(), len(b.Zone().Transactions()), len(b.Zone().OutboundEtxs()))
	a.classify(b)
	return b, nil
}

// MineChained mines one block through the custom miner: on top of what the worker assembled it
// appends 1-2 extra Qi transactions, the second spending an output the first creates (a block
// the stock worker never builds but block processing accepts). Falls back to a normal block when
// no spendable output exists.
func (a *Actor) MineChained(t *rapid.T, o MineOpts) (*Block, error) {
	us, owners := a.spendable()
	var cands []int
	for i, u := range us {
		if u.Entry.Denomination >= 6 {
			cands = append(cands, i)
		}
	}
	if len(cands) == 0 {
		return a.MineOne(o)
	}
	if o.Salt == 0 {
		o.Salt = a.Salt
	}
	if o.Coinbase.Equal(common.Address{}) {
		o.Coinbase = DefaultQuaiCoinbase
	}
	i := cands[rapid.IntRange(0, len(cands)-1).Draw(t, "chainUtxo")]
	u, k := us[i], owners[i]
	mid, end := a.freshQi(), a.freshQi()
	d1 := u.Entry.Denomination - 1
	tx1, err1 := QiTx(k, []UTXORec{u}, []QiOut{{Denomination: d1, To: mid.Addr}}, nil)
	if err1 != nil {
		return a.MineOne(o)
	}
	tx2, err2 := QiTx(mid, []UTXORec{{TxHash: tx1.Hash(), Index: 0}}, []QiOut{{Denomination: d1 - 1, To: end.Addr}}, nil)
	if err2 != nil {
		return a.MineOne(o)
	}
	parents := a.Heads
	h, b, err := a.Net.MineCustom(a.Heads, o, func(txs []*types.Transaction) []*types.Transaction {
		// keep the worker's own list, drop anything that spends the same output, and insert the
		// chain right after the inbound ETXs (its fee per gas is far above any pooled transaction's,
		// and block processing demands non-increasing prices)
		var out []*types.Transaction
		inserted := false
		for _, tx := range txs {
			if !inserted && tx.Type() != types.ExternalTxType {
				out = append(out, tx1, tx2)
				inserted = true
			}
			conflict := false
			if tx.Type() == types.QiTxType {
				for _, in := range tx.TxIn() {
					if in.PreviousOutPoint.TxHash == u.TxHash && in.PreviousOutPoint.Index == u.Index {
						conflict = true
					}
				}
			}
			if !conflict {
				out = append(out, tx)
			}
		}
		if !inserted {
			out = append(out, tx1, tx2)
		}
		return out
	})
	if err != nil {
		if strings.Contains(err.Error(), "refinalize") {
			// the edited body is not a valid block (e.g. price ordering against a pooled Qi
			// transaction): mine the worker's own block instead
			a.label("custom_block_not_valid")
			return a.MineOne(o)
		}
		return b, err
	}
	b.Parents, b.After = parents, h
	a.Heads = h
	a.Blocks = append(a.Blocks, b)
	a.logf("mine CUSTOM order=%d (chain %s -> den %d -> den %d appended) -> #%v txs=%d etxs=%d", b.Order, u, d1, d1-1, b.Zone().NumberArray(), len(b.Zone().Transactions()), len(b.Zone().OutboundEtxs()))
	a.label("blk_custom_chain")
	a.classify(b)
	return b, nil
}

// QiTraffic submits 0-4 Qi spends (local, chained on outputs created earlier, conversions).
func (a *Actor) QiTraffic(t *rapid.T) {
	if a.ZoneNumber() < params.TimeToStartTx+1 {
		return
	}
	n := rapid.IntRange(0, 4).Draw(t, "nqi")
	for i := 0; i < n; i++ {
		if us, _ := a.spendable(); len(us) == 0 {
			a.submit(t, "quai2qi")
			continue
		}
		a.submit(t, rapid.SampledFrom([]string{"qispend", "qispend", "qichain", "qichain", "qi2quai", "qixzone", "qidust", "qidust"}).Draw(t, "qikind"))
	}
}

// ConversionTraffic submits 0-4 conversions of both directions with generated amounts (from
// dust to far beyond the running average) and slip bounds.
func (a *Actor) ConversionTraffic(t *rapid.T) {
	if a.ZoneNumber() < params.TimeToStartTx+1 {
		return
	}
	n := rapid.IntRange(0, 4).Draw(t, "nconv")
	for i := 0; i < n; i++ {
		kinds := []string{"quai2qi", "quai2qi"}
		if us, _ := a.spendable(); len(us) > 0 {
			kinds = append(kinds, "qi2quai", "qi2quai")
		}
		a.submit(t, rapid.SampledFrom(kinds).Draw(t, "convkind"))
	}
}

// AdversarialTraffic feeds the pool transactions that a block must not contain or that compete
// with each other: underpriced, nonce-gapped, two Qi spends of one output, a reverting call.
func (a *Actor) AdversarialTraffic(t *rapid.T) {
	if a.ZoneNumber() < params.TimeToStartTx+1 {
		return
	}
	n := rapid.IntRange(0, 2).Draw(t, "nadv")
	for i := 0; i < n; i++ {
		kind := rapid.SampledFrom([]string{"underpriced", "noncegap", "qiconflict", "revertcall", "qidupinput", "qimerge"}).Draw(t, "advkind")
		gp := a.gasPrice()
		switch kind {
		case "underpriced", "noncegap", "revertcall":
			from := a.quai[rapid.IntRange(0, FundedKeys-1).Draw(t, "from")]
			nonce := a.Net.Nodes[Zone].Core.TxPool().Nonce(from.Internal())
			to := a.quai[5].Addr
			var data []byte
			var al types.AccessList
			gas := uint64(21000)
			switch kind {
			case "underpriced":
				gp = big.NewInt(1)
			case "noncegap":
				nonce += 2
			case "revertcall":
				if len(a.Contracts) == 0 {
					continue
				}
				to = a.Contracts[0]
				data = []byte{1, 2, 3} // the lockup precompile reverts on an unknown input length
				al = types.AccessList{{Address: to}, {Address: LockupContract()}}
				gas = 200000
			}
			tx, err := QuaiTx(from, nonce, &to, big.NewInt(1), gas, gp, data, al)
			if err != nil {
				continue
			}
			errs := a.Net.SubmitTxs(tx)
			a.logf("tx adversarial %s from=%x nonce=%d err=%v", kind, from.Addr.Bytes()[:3], nonce, errs[0])
			a.label("adv_" + kind)
		case "qidupinput", "qimerge":
			// a multi-input Qi transaction (MuSig2 over the listed keys): either two different outputs
			// merged (valid), or ONE output named twice with outputs worth more than it holds
			us, owners := a.spendable()
			if len(us) == 0 {
				continue
			}
			i := rapid.IntRange(0, len(us)-1).Draw(t, "utxo")
			j := i
			if kind == "qimerge" {
				if len(us) < 2 {
					continue
				}
				j = (i + 1 + rapid.IntRange(0, len(us)-2).Draw(t, "utxo2")) % len(us)
			}
			if us[i].Entry.Denomination < 4 || us[j].Entry.Denomination < 4 {
				continue
			}
			total := types.Denominations[us[i].Entry.Denomination].Int64() + types.Denominations[us[j].Entry.Denomination].Int64()
			fee := total / 5
			dens := splitDenoms(total-fee, types.MaxDenomination, rapid.IntRange(1, 3).Draw(t, "nout"))
			if len(dens) == 0 {
				continue
			}
			var outs []QiOut
			for _, d := range dens {
				outs = append(outs, QiOut{Denomination: d, To: a.freshQi().Addr})
			}
			tx, err := QiTxMulti([]*Key{owners[i], owners[j]}, []UTXORec{us[i], us[j]}, outs, nil)
			if err != nil {
				continue
			}
			errs := a.Net.SubmitTxs(tx)
			a.logf("tx adversarial %s ins=%s,%s outs=%v err=%v", kind, us[i], us[j], dens, errs[0])
			if errs[0] == nil {
				a.label("adv_" + kind)
			}
		case "qiconflict":
			us, owners := a.spendable()
			if len(us) == 0 {
				continue
			}
			idx := rapid.IntRange(0, len(us)-1).Draw(t, "utxo")
			u, k := us[idx], owners[idx]
			if u.Entry.Denomination < 4 {
				continue
			}
			tx1, err1 := QiTx(k, []UTXORec{u}, []QiOut{{Denomination: u.Entry.Denomination - 1, To: a.freshQi().Addr}}, nil)
			tx2, err2 := QiTx(k, []UTXORec{u}, []QiOut{{Denomination: u.Entry.Denomination - 2, To: a.freshQi().Addr}}, nil)
			if err1 != nil || err2 != nil {
				continue
			}
			errs := a.Net.SubmitTxs(tx1, tx2)
			a.logf("tx adversarial qiconflict on %s errs=%v", u, errs)
			a.label("adv_qiconflict")
		}
	}
}

// DupInputQiTx builds a correctly signed Qi transaction that names one spendable output of the
// actor twice (MuSig2 over the repeated key) and creates outputs worth more than that one output
// holds; nil when no suitable output exists. A block producer other than the stock worker could
// put it into a block: block validation must refuse that block.
func (a *Actor) DupInputQiTx(t *rapid.T) *types.Transaction {
	us, owners := a.spendable()
	var cands []int
	for i, u := range us {
		if u.Entry.Denomination >= 4 {
			cands = append(cands, i)
		}
	}
	if len(cands) == 0 {
		return nil
	}
	i := cands[rapid.IntRange(0, len(cands)-1).Draw(t, "dupUtxo")]
	total := 2 * types.Denominations[us[i].Entry.Denomination].Int64()
	dens := splitDenoms(total-total/5, types.MaxDenomination, rapid.IntRange(1, 3).Draw(t, "dupNout"))
	if len(dens) == 0 {
		return nil
	}
	var outs []QiOut
	for _, d := range dens {
		outs = append(outs, QiOut{Denomination: d, To: a.freshQi().Addr})
	}
	tx, err := QiTxMulti([]*Key{owners[i], owners[i]}, []UTXORec{us[i], us[i]}, outs, nil)
	if err != nil {
		return nil
	}
	return tx
}
