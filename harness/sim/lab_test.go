//go:build verif

package sim

import (
	"fmt"
	"math/big"
	"testing"

	"github.com/dominant-strategies/go-quai/common"
	"github.com/dominant-strategies/go-quai/core/rawdb"
	"github.com/dominant-strategies/go-quai/core/types"
)

// TestLabContracts: deterministic walk through the lab contracts on a real hierarchy - deploy,
// store, clear, kill, prefunded creation, factory spawn / kill / re-spawn in one block - checking
// receipts and storage, so that the generated lab traffic is known to do what it says.
func TestLabContracts(t *testing.T) {
	n, err := NewNet(Options{})
	if err != nil {
		t.Fatal(err)
	}
	defer n.Close()
	a := NewActor(n)
	if err := a.Prelude(); err != nil {
		t.Fatal(err)
	}
	if err := a.Adopt(); err != nil {
		t.Fatal(err)
	}
	qk := QuaiKeys(4)
	pool := n.Nodes[Zone].Core.TxPool()
	gp := a.gasPrice()
	mine := func() *Block {
		b, err := a.MineOne(MineOpts{Order: 2, Salt: a.Salt, Coinbase: qk[0].Addr})
		if err != nil {
			t.Fatalf("mine: %v", err)
		}
		a.Salt++
		if err := a.Adopt(); err != nil {
			t.Fatal(err)
		}
		return b
	}
	status := func(b *Block) []uint64 {
		var out []uint64
		rs := rawdb.ReadReceipts(n.Nodes[Zone].DB, b.Zone().Hash(), b.Zone().NumberU64(Zone), n.Nodes[Zone].Core.Config())
		for i, r := range rs {
			if b.Zone().Transactions()[i].Type() == types.QuaiTxType {
				out = append(out, r.Status)
			}
		}
		return out
	}
	slot := func(addr common.Address, k int64) uint64 {
		st, err := n.HeadState()
		if err != nil {
			t.Fatal(err)
		}
		in, _ := addr.InternalAndQuaiAddress()
		return st.GetState(in, common.BigToHash(big.NewInt(k))).Big().Uint64()
	}
	codeLen := func(addr common.Address) int {
		st, _ := n.HeadState()
		in, _ := addr.InternalAndQuaiAddress()
		return len(st.GetCode(in))
	}
	submit := func(tx *types.Transaction, err error) {
		if err != nil {
			t.Fatal(err)
		}
		if e := n.SubmitTxs(tx)[0]; e != nil {
			t.Fatalf("submit: %v", e)
		}
	}
	// 1. deploy a Store
	tx, store, err := DeployTx(qk[0], pool.Nonce(qk[0].Internal()), LabStoreInit(), big.NewInt(0), 2_000_000, gp)
	submit(tx, err)
	b := mine()
	fmt.Println("deploy status", status(b), "code", codeLen(store), "slot1", slot(store, 1), "slot2", slot(store, 2))
	if codeLen(store) == 0 || slot(store, 1) != 1 || slot(store, 2) != 2 {
		t.Fatalf("store not deployed as expected")
	}
	// 2. store 5:=9, 1:=0
	submit(QuaiTx(qk[0], pool.Nonce(qk[0].Internal()), &store, big.NewInt(0), 1_500_000, gp, []byte{5, 9, 1, 0}, types.AccessList{{Address: store}}))
	b = mine()
	fmt.Println("call status", status(b), "slot5", slot(store, 5), "slot1", slot(store, 1))
	if slot(store, 5) != 9 || slot(store, 1) != 0 {
		t.Fatalf("store call did not write")
	}
	// 3. revert after write
	submit(QuaiTx(qk[0], pool.Nonce(qk[0].Internal()), &store, big.NewInt(0), 1_500_000, gp, []byte{6, 9, 0xfe}, types.AccessList{{Address: store}}))
	b = mine()
	fmt.Println("revert status", status(b), "slot6", slot(store, 6))
	if slot(store, 6) != 0 || status(b)[0] != 0 {
		t.Fatalf("reverting call kept its write or succeeded")
	}
	// 4. prefund + create in one block (two senders)
	dtx, paddr, err := DeployTx(qk[1], pool.Nonce(qk[1].Internal()), LabStoreInit(), big.NewInt(0), 2_000_000, gp)
	if err != nil {
		t.Fatal(err)
	}
	submit(QuaiTx(qk[0], pool.Nonce(qk[0].Internal()), &paddr, big.NewInt(777), 400000, gp, nil, nil))
	b = mine()
	{
		st0, _ := n.HeadState()
		pin0, _ := paddr.InternalAndQuaiAddress()
		fmt.Println("prefund status", status(b), "balance", st0.GetBalance(pin0), "exists", st0.Exist(pin0))
	}
	submit(dtx, nil)
	b = mine()
	st, _ := n.HeadState()
	pin, _ := paddr.InternalAndQuaiAddress()
	fmt.Println("prefunded create status", status(b), "code", codeLen(paddr), "balance", st.GetBalance(pin), "slot1", slot(paddr, 1))
	if codeLen(paddr) == 0 || st.GetBalance(pin).Int64() != 777 || slot(paddr, 1) != 1 {
		t.Fatalf("creation on a prefunded address failed")
	}
	// 5. factory: spawn, kill and re-spawn in one block
	ftx, factory, err := DeployTx(qk[2], pool.Nonce(qk[2].Internal()), LabFactoryInit(), big.NewInt(0), 2_000_000, gp)
	submit(ftx, err)
	b = mine()
	salt, child := LabChild(factory, 0)
	al := types.AccessList{{Address: factory}, {Address: child}}
	submit(QuaiTx(qk[2], pool.Nonce(qk[2].Internal()), &factory, big.NewInt(0), 2_000_000, gp, salt[:], al))
	b = mine()
	fmt.Println("spawn status", status(b), "child code", codeLen(child), "slot2", slot(child, 2))
	if codeLen(child) == 0 || slot(child, 2) != 2 {
		t.Fatalf("factory child not created")
	}
	nn := pool.Nonce(qk[2].Internal())
	submit(QuaiTx(qk[2], nn, &child, big.NewInt(0), 1_500_000, gp, []byte{4, 4, 0xff}, types.AccessList{{Address: child}}))
	submit(QuaiTx(qk[2], nn+1, &factory, big.NewInt(0), 2_000_000, gp, salt[:], al))
	submit(QuaiTx(qk[2], nn+2, &child, big.NewInt(0), 1_500_000, gp, []byte{7, 1}, types.AccessList{{Address: child}}))
	b = mine()
	fmt.Println("kill+respawn+store status", status(b), "ntx", len(b.Zone().Transactions()), "child code", codeLen(child), "slot4", slot(child, 4), "slot2", slot(child, 2), "slot7", slot(child, 7))
	if len(status(b)) != 3 || codeLen(child) == 0 || slot(child, 4) != 0 || slot(child, 2) != 2 || slot(child, 7) != 1 {
		t.Fatalf("kill + re-creation in one block did not behave as expected")
	}
	// 6. converter: a conversion originating from a contract
	ctx, conv, err := DeployTx(qk[3], pool.Nonce(qk[3].Internal()), LabConverterInit(), big.NewInt(0), 2_000_000, gp)
	submit(ctx, err)
	b = mine()
	qi := QiKeys(2)[1].Addr
	val := new(big.Int).Mul(big.NewInt(700), big.NewInt(4e18))
	submit(QuaiTx(qk[3], pool.Nonce(qk[3].Internal()), &conv, val, 600_000, gp, qi.Bytes(), types.AccessList{{Address: conv}}))
	b = mine()
	nconv := 0
	for _, e := range b.Zone().OutboundEtxs() {
		if e.EtxType() == types.ConversionType && e.ETXSender().Equal(conv) {
			nconv++
			fmt.Println("contract conversion etx value", e.Value(), "to", e.To().Hex())
		}
	}
	fmt.Println("convert status", status(b), "conversion etxs from the contract", nconv)
	if nconv != 2 {
		t.Fatalf("converter did not emit its two conversions")
	}
	if fp, msg := CheckHeadCommitment(n.Nodes[Zone]); fp != "" {
		t.Fatalf("%s %s", fp, msg)
	}
}
