//go:build verif

package sim

import (
	"fmt"
	"sort"
	"testing"

	"pgregory.net/rapid"
)

func TestScenario(t *testing.T) {
	total := map[string]int{}
	rapid.Check(t, func(t *rapid.T) {
		n, err := NewNet(Options{})
		if err != nil {
			t.Fatal(err)
		}
		defer n.Close()
		a := NewActor(n)
		if err := a.Prelude(); err != nil {
			t.Fatal(err)
		}
		steps := rapid.IntRange(5, 30).Draw(t, "steps")
		for i := 0; i < steps; i++ {
			a.Traffic(t)
			if _, err := a.MineRandom(t); err != nil {
				t.Fatalf("step %d: %v\n%v", i, err, a.Log)
			}
			if err := a.Adopt(); err != nil {
				t.Fatalf("adopt: %v", err)
			}
			if fp, msg := CheckHeadCommitment(n.Nodes[Zone]); fp != "" {
				for _, l := range a.Log {
					fmt.Println(l)
				}
				t.Fatalf("commitment %s %s", fp, msg)
			}
		}
		for k, v := range a.Labels {
			total[k] += v
		}
	})
	var ks []string
	for k := range total {
		ks = append(ks, k)
	}
	sort.Strings(ks)
	for _, k := range ks {
		fmt.Println(k, total[k])
	}
}
