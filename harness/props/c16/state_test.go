package c16

// State side of C16: whatever sequence of StateDB mutations or EVM calls / creations is issued
// at a zone node, the account trie never contains an account outside the node's zone or in the
// Qi ledger, and contract creation yields an in-zone Quai address or fails.

import (
	"bytes"
	"encoding/binary"
	"fmt"
	"math/big"
	"sort"
	"strings"
	"sync"
	"testing"

	"github.com/dominant-strategies/go-quai/common"
	"github.com/dominant-strategies/go-quai/core"
	"github.com/dominant-strategies/go-quai/core/rawdb"
	"github.com/dominant-strategies/go-quai/core/state"
	"github.com/dominant-strategies/go-quai/core/types"
	"github.com/dominant-strategies/go-quai/core/vm"
	"github.com/dominant-strategies/go-quai/crypto"
	"github.com/dominant-strategies/go-quai/params"
	"github.com/dominant-strategies/go-quai/rlp"
	"github.com/dominant-strategies/go-quai/trie"
	"github.com/holiman/uint256"
	"pgregory.net/rapid"

	"verifharness/stats"
)

var (
	stateDBOnce sync.Once
	stateDB     state.Database
	precompInit = map[string]bool{}
)

func sharedStateDB() state.Database {
	stateDBOnce.Do(func() { stateDB = state.NewDatabase(rawdb.NewMemoryDatabase(logger)) })
	return stateDB
}

func initPrecompiles(loc common.Location) {
	if !precompInit[loc.Name()] {
		precompInit[loc.Name()] = true
		vm.InitializePrecompiles(loc)
	}
}

func newState(t *rapid.T, root common.Hash, loc common.Location) *state.StateDB {
	db := sharedStateDB()
	sdb, err := state.New(root, types.EmptyRootHash, big.NewInt(0), db, db, nil, loc, logger)
	if err != nil {
		t.Fatalf("HARNESS: state.New(%x): %v", root, err)
	}
	return sdb
}

// fpC12SuicideSize is a recorded finding of property C12 whose crash form this property's
// state histories can reach (see the Suicide action).
const fpC12SuicideSize = "C12/A/revert/acct.size/x=suicide"

func inScope(a []byte, loc common.Location) bool { return wantInternal(a, loc) && !wantQi(a) }

type acct struct {
	Nonce   uint64
	Balance string
	HasCode bool
}

// preimages remembers every address the harness has handed to the code under test, keyed by
// the hash under which the secure account trie would store it.
type preimages map[common.Hash][]byte

func (p preimages) add(a []byte) { p[crypto.Keccak256Hash(a)] = common.CopyBytes(a) }

var emptyCodeHash = crypto.Keccak256(nil)

// scanAccounts enumerates the accounts the state would contain if it were committed now: a
// copy of the state is committed (without deleting empty accounts) and the resulting account
// trie is walked leaf by leaf. The result does not go through StateDB.Dump, which itself skips
// out-of-scope accounts.
//
// The scan first closes the current transaction (Finalize without deleting empty accounts).
// Copy does not carry the journal, so a copy taken in the middle of a transaction forgets
// which objects are dirty: a self-destructed object would be written instead of deleted, and
// its storage size counter can be driven below zero, which the account encoder refuses with
// a panic. Every caller of Copy in the node copies at a transaction boundary.
func scanAccounts(t *rapid.T, sdb *state.StateDB, pre preimages) map[string]acct {
	sdb.Finalize(false)
	cp := sdb.Copy()
	root, err := cp.Commit(false)
	if err != nil {
		t.Fatalf("HARNESS: commit of a state copy: %v", err)
	}
	tr, err := trie.NewSecure(root, sdb.Database().TrieDB())
	if err != nil {
		t.Fatalf("HARNESS: open account trie %x: %v", root, err)
	}
	out := map[string]acct{}
	it := trie.NewIterator(tr.NodeIterator(nil))
	for it.Next() {
		addr := pre[common.BytesToHash(it.Key)]
		if addr == nil {
			addr = tr.GetKey(it.Key)
		}
		if len(addr) != 20 {
			t.Fatalf("HARNESS: account trie key %x has no known 20-byte preimage (%x)", it.Key, addr)
		}
		var data state.Account
		if err := rlp.DecodeBytes(it.Value, &data); err != nil {
			t.Fatalf("HARNESS: account rlp: %v", err)
		}
		out[string(addr)] = acct{data.Nonce, data.Balance.String(), !bytes.Equal(data.CodeHash, emptyCodeHash)}
	}
	if it.Err != nil {
		t.Fatalf("HARNESS: account trie iteration: %v", it.Err)
	}
	return out
}

// checkScan asserts the state-trie clause of the property on a scan.
func checkScan(fail func(fp, msg string), where string, accts map[string]acct, loc common.Location) {
	var keys []string
	for k := range accts {
		keys = append(keys, k)
	}
	sort.Strings(keys)
	for _, k := range keys {
		a := []byte(k)
		switch {
		case !wantInternal(a, loc):
			fail("C16/state-has-foreign-zone-account/"+where, fmt.Sprintf("%s: account %x (%+v) in the state of zone %v", where, a, accts[k], []byte(loc)))
		case wantQi(a):
			fail("C16/state-has-qi-ledger-account/"+where, fmt.Sprintf("%s: Qi-ledger account %x (%+v) in the account state of zone %v", where, a, accts[k], []byte(loc)))
		}
	}
}

// ---- address universe -------------------------------------------------------------------------

type uaddr struct {
	name string
	b    [20]byte
}

func mkAddr(b0, b1 byte, tag string) [20]byte {
	var a [20]byte
	copy(a[:], crypto.Keccak256([]byte("verif-c16-addr"), []byte(tag))[:20])
	a[0], a[1] = b0, b1
	return a
}

func universe(loc common.Location) []uaddr {
	p, _ := zonePrefix(loc)
	otherZone := p&0xf0 | (p+1)&0x0f
	otherRegion := (p+0x10)&0xf0 | p&0x0f
	u := []uaddr{
		{"inzone-quai-0", mkAddr(p, 0x00, "a")},
		{"inzone-quai-1", mkAddr(p, 0x7f, "b")},
		{"inzone-quai-2", mkAddr(p, 0x33, "c")},
		{"inzone-qi", mkAddr(p, 0x80, "d")},
		{"inzone-qi-ff", mkAddr(p, 0xff, "e")},
		{"otherzone-quai", mkAddr(otherZone, 0x00, "f")},
		{"otherregion-quai", mkAddr(otherRegion, 0x7f, "g")},
		{"otherzone-qi", mkAddr(otherZone, 0x80, "h")},
		{"all-zero", [20]byte{}},
		{"zone-zero", [20]byte{p}},
	}
	if p != 0 {
		u = append(u, uaddr{"zone00-quai", mkAddr(0x00, 0x11, "i")})
	} else {
		u = append(u, uaddr{"zoneff-quai", mkAddr(0xff, 0x11, "i")})
	}
	return u
}

// ---- StateDB state machine --------------------------------------------------------------------

func propStateDB(t *rapid.T) {
	const part = "statedb"
	loc := genZone(t, "loc")
	uni := universe(loc)
	pre := preimages{}
	for _, u := range uni {
		pre.add(u.b[:])
	}
	sdb := newState(t, types.EmptyRootHash, loc)
	lastRoot := types.EmptyRootHash
	var hist []string
	kinds := map[string]bool{}
	var outTouched, inTouched, commits, aborted, oneOffTouched int
	fail := func(fp, msg string) {
		stats.Violation(t, part, fp, msg, map[string]any{"location": fmt.Sprint([]byte(loc)), "history": hist})
	}
	pick := func(t *rapid.T) uaddr { return uni[rapid.IntRange(0, len(uni)-1).Draw(t, "addr")] }
	note := func(kind string, u uaddr, detail string) common.InternalAddress {
		kinds[kind] = true
		hist = append(hist, fmt.Sprintf("%s %s(%x) %s", kind, u.name, u.b, detail))
		if inScope(u.b[:], loc) {
			inTouched++
		} else {
			outTouched++
			if wantInternal(u.b[:], loc) != wantQi(u.b[:]) {
				oneOffTouched++
			}
		}
		return common.InternalAddress(u.b)
	}
	// no account may become observable at an out-of-scope address, at any moment
	live := func(where string) {
		for _, u := range uni {
			if inScope(u.b[:], loc) {
				continue
			}
			ia := common.InternalAddress(u.b)
			if sdb.Exist(ia) || sdb.GetNonce(ia) != 0 || sdb.GetBalance(ia).Sign() != 0 || sdb.GetCodeSize(ia) != 0 {
				fp := "C16/state-has-foreign-zone-account/live"
				if wantInternal(u.b[:], loc) {
					fp = "C16/state-has-qi-ledger-account/live"
				}
				fail(fp, fmt.Sprintf("after %s: out-of-scope %s %x is observable in the state of zone %v: exist=%v nonce=%d balance=%v codesize=%d",
					where, u.name, u.b, []byte(loc), sdb.Exist(ia), sdb.GetNonce(ia), sdb.GetBalance(ia), sdb.GetCodeSize(ia)))
			}
		}
	}
	amount := func(t *rapid.T) *big.Int {
		return big.NewInt(rapid.SampledFrom([]int64{0, 1, 1000, 1e15}).Draw(t, "amount"))
	}
	var snaps []int
	actions := map[string]func(*rapid.T){
		"AddBalance": func(t *rapid.T) {
			u, amt := pick(t), amount(t)
			ia := note("AddBalance", u, amt.String())
			sdb.AddBalance(ia, amt)
			if inScope(u.b[:], loc) && amt.Sign() > 0 && !sdb.Exist(ia) {
				t.Fatalf("HARNESS: in-scope account %x not created by AddBalance (the check would be vacuous)", u.b)
			}
		},
		"SubBalance": func(t *rapid.T) {
			u := pick(t)
			ia := note("SubBalance", u, "1")
			if inScope(u.b[:], loc) && sdb.GetBalance(ia).Sign() == 0 {
				return // would go negative: callers check CanTransfer first
			}
			sdb.SubBalance(ia, big.NewInt(1))
		},
		"SetBalance": func(t *rapid.T) {
			u, amt := pick(t), amount(t)
			sdb.SetBalance(note("SetBalance", u, amt.String()), amt)
		},
		"SetNonce": func(t *rapid.T) {
			u := pick(t)
			n := rapid.Uint64Range(0, 3).Draw(t, "nonce")
			sdb.SetNonce(note("SetNonce", u, fmt.Sprint(n)), n)
		},
		"SetCode": func(t *rapid.T) {
			u := pick(t)
			code := rapid.SliceOfN(rapid.Byte(), 0, 8).Draw(t, "code")
			sdb.SetCode(note("SetCode", u, fmt.Sprintf("%x", code)), code)
		},
		"SetState": func(t *rapid.T) {
			u := pick(t)
			k := common.BytesToHash([]byte{rapid.Byte().Draw(t, "slot")})
			v := common.BytesToHash([]byte{rapid.Byte().Draw(t, "val")})
			sdb.SetState(note("SetState", u, fmt.Sprintf("%x=%x", k[31:], v[31:])), k, v)
		},
		"CreateAccount": func(t *rapid.T) {
			u := pick(t)
			sdb.CreateAccount(note("CreateAccount", u, ""))
		},
		"Suicide": func(t *rapid.T) {
			u := pick(t)
			ia := note("Suicide", u, "")
			// Recorded finding of C12 (not of this property): Suicide zeroes the account's
			// storage-size counter without journalling it, so reverting across it leaves the
			// counter wrong, and a later slot deletion drives it below zero, which the account
			// encoder refuses with a panic. While that finding is listed, histories do not
			// revert across a Suicide of an account with a non-zero counter.
			if len(snaps) > 0 && sdb.GetSize(ia).Sign() != 0 && stats.IsKnown(fpC12SuicideSize) {
				stats.Excluded(fpC12SuicideSize)
				hist = append(hist, "(live snapshots dropped: C12 finding, Suicide does not journal the size counter)")
				snaps = nil
			}
			sdb.Suicide(ia)
		},
		"Snapshot": func(t *rapid.T) {
			kinds["Snapshot"] = true
			snaps = append(snaps, sdb.Snapshot())
			hist = append(hist, fmt.Sprintf("Snapshot -> %d", snaps[len(snaps)-1]))
		},
		"Revert": func(t *rapid.T) {
			if len(snaps) == 0 {
				t.Skip("no snapshot")
			}
			i := rapid.IntRange(0, len(snaps)-1).Draw(t, "snap")
			kinds["Revert"] = true
			hist = append(hist, fmt.Sprintf("RevertToSnapshot %d", snaps[i]))
			sdb.RevertToSnapshot(snaps[i])
			snaps = snaps[:i]
		},
		"Finalize": func(t *rapid.T) {
			del := rapid.Bool().Draw(t, "deleteEmpty")
			kinds["Finalize"] = true
			hist = append(hist, fmt.Sprintf("Finalize(%v)", del))
			sdb.Finalize(del)
			snaps = nil
		},
		"IntermediateRoot": func(t *rapid.T) {
			del := rapid.Bool().Draw(t, "deleteEmpty")
			kinds["IntermediateRoot"] = true
			hist = append(hist, fmt.Sprintf("IntermediateRoot(%v)", del))
			sdb.IntermediateRoot(del)
			snaps = nil
		},
		"Scan": func(t *rapid.T) {
			kinds["Scan"] = true
			hist = append(hist, "Finalize(false); Scan")
			snaps = nil // the scan is a transaction boundary (see scanAccounts)
			checkScan(fail, "scan", scanAccounts(t, sdb, pre), loc)
		},
		"Commit": func(t *rapid.T) {
			del := rapid.Bool().Draw(t, "deleteEmpty")
			kinds["Commit"] = true
			pending := sdb.Error()
			root, err := sdb.Commit(del)
			hist = append(hist, fmt.Sprintf("Commit(%v) -> %x err=%v (pending state error: %v)", del, root[:4], err, pending))
			snaps = nil
			if err != nil {
				// the block is refused (an out-of-scope write was attempted): continue from the last good state
				aborted++
				sdb = newState(t, lastRoot, loc)
				return
			}
			commits++
			lastRoot = root
			sdb = newState(t, root, loc)
			checkScan(fail, "commit", scanAccounts(t, sdb, pre), loc)
		},
	}
	t.Repeat(map[string]func(*rapid.T){
		"": func(t *rapid.T) { live("history") },
		"op": func(t *rapid.T) {
			names := []string{"AddBalance", "AddBalance", "SubBalance", "SetBalance", "SetNonce", "SetCode", "SetState", "CreateAccount", "Suicide",
				"Snapshot", "Revert", "Finalize", "IntermediateRoot", "Scan", "Commit"}
			n := rapid.SampledFrom(names).Draw(t, "op")
			actions[n](t)
			live(n)
		},
	})
	live("end")
	checkScan(fail, "end", scanAccounts(t, sdb, pre), loc)

	var ks []string
	for k := range kinds {
		ks = append(ks, k)
	}
	sort.Strings(ks)
	labels := []string{}
	if outTouched > 0 {
		labels = append(labels, "out_of_scope_write_attempted")
	}
	if oneOffTouched > 0 {
		labels = append(labels, "one_attribute_off_write_attempted")
	}
	if commits > 0 {
		labels = append(labels, "commit_ok")
	}
	if aborted > 0 {
		labels = append(labels, "commit_refused")
	}
	if !loc.Equal(common.Location{0, 0}) {
		labels = append(labels, "node_not_zone00")
	}
	nontrivial := oneOffTouched > 0 && inTouched > 0
	stats.Case(part, fmt.Sprintf("%v|%s", loc.Equal(common.Location{0, 0}), strings.Join(ks, ",")), nontrivial, labels...)
	if nontrivial && stats.WantSample(part) {
		stats.Sample(part, map[string]any{"location": fmt.Sprint([]byte(loc)), "history": hist})
	}
}

func TestC16_StateDB(t *testing.T) { rapid.Check(t, propStateDB) }

// ---- EVM: calls and contract creation ----------------------------------------------------------

func push(b ...byte) []byte {
	if len(b) == 0 {
		b = []byte{0}
	}
	return append([]byte{byte(0x60 + len(b) - 1)}, b...)
}

func pushU(n uint64) []byte {
	var buf [8]byte
	binary.BigEndian.PutUint64(buf[:], n)
	i := 0
	for i < 7 && buf[i] == 0 {
		i++
	}
	return push(buf[i:]...)
}

// returnCode is init code that returns `runtime` as the contract's code.
func returnCode(runtime []byte) []byte {
	// PUSH len, PUSH off, PUSH 0, CODECOPY, PUSH len, PUSH 0, RETURN, <runtime>
	head := func(off int) []byte {
		var c []byte
		c = append(c, pushU(uint64(len(runtime)))...)
		c = append(c, pushU(uint64(off))...)
		c = append(c, push(0)...)
		c = append(c, 0x39)
		c = append(c, pushU(uint64(len(runtime)))...)
		c = append(c, push(0)...)
		c = append(c, 0xf3)
		return c
	}
	h := head(0)
	h = head(len(h))
	if len(head(len(h))) != len(h) {
		h = head(len(h) + 1)
	}
	return append(h, runtime...)
}

// factory is code that copies `init` from its own code into memory and CREATEs / CREATE2s it.
func factory(init []byte, create2 bool, salt [32]byte, value uint64) []byte {
	build := func(off int) []byte {
		var c []byte
		c = append(c, pushU(uint64(len(init)))...)
		c = append(c, pushU(uint64(off))...)
		c = append(c, push(0)...)
		c = append(c, 0x39) // CODECOPY(0, off, len)
		if create2 {
			c = append(c, push(salt[:]...)...)
		}
		c = append(c, pushU(uint64(len(init)))...)
		c = append(c, push(0)...)
		c = append(c, pushU(value)...)
		if create2 {
			c = append(c, 0xf5)
		} else {
			c = append(c, 0xf0)
		}
		c = append(c, 0x50, 0x00) // POP, STOP
		return c
	}
	h := build(0)
	h = build(len(h))
	if len(build(len(h))) != len(h) {
		h = build(len(h) + 1)
	}
	return append(h, init...)
}

// callOut is code that CALLs `to` with `value` and no data.
func callOut(to [20]byte, value uint64) []byte {
	var c []byte
	c = append(c, push(0)...)    // retSize
	c = append(c, push(0)...)    // retOffset
	c = append(c, push(0)...)    // inSize
	c = append(c, push(0)...)    // inOffset
	c = append(c, pushU(value)...)
	c = append(c, push(to[:]...)...)
	c = append(c, pushU(200000)...)
	c = append(c, 0xf1, 0x50, 0x00)
	return c
}

type evmCase struct {
	loc  common.Location
	sdb  *state.StateDB
	evm  *vm.EVM
	pre  preimages
	hist []string
}

func genInit(t *rapid.T, c *evmCase, depth int) ([]byte, string) {
	kinds := []string{"returns-code", "returns-code", "empty", "returns-nothing", "revert", "invalid", "returns-ef", "big-code", "calls-out"}
	if depth == 0 {
		kinds = append(kinds, "nested-create", "nested-create2")
	}
	k := rapid.SampledFrom(kinds).Draw(t, "initKind")
	switch k {
	case "returns-code":
		return returnCode(rapid.SliceOfN(rapid.Byte(), 1, 24).Draw(t, "runtime")), k
	case "empty":
		return nil, k
	case "returns-nothing":
		return []byte{0x00}, k
	case "revert":
		return append(append(push(0), push(0)...), 0xfd), k
	case "invalid":
		return []byte{0xfe}, k
	case "returns-ef":
		return returnCode([]byte{0xef, 0x01}), k
	case "big-code": // code-store gas exceeds what a small gas budget leaves: ErrCodeStoreOutOfGas
		return returnCode(bytes.Repeat([]byte{0x5b}, 600)), k
	case "calls-out":
		u := universe(c.loc)
		to := u[rapid.IntRange(0, len(u)-1).Draw(t, "callTo")]
		return callOut(to.b, uint64(rapid.IntRange(0, 1).Draw(t, "callValue"))), k + "/" + to.name
	case "nested-create":
		inner, ik := genInit(t, c, depth+1)
		return factory(inner, false, [32]byte{}, 0), k + "(" + ik + ")"
	default:
		inner, ik := genInit(t, c, depth+1)
		var salt [32]byte
		copy(salt[:], rapid.SliceOfN(rapid.Byte(), 32, 32).Draw(t, "innerSalt"))
		return factory(inner, true, salt, 0), k + "(" + ik + ")"
	}
}

func propEVM(t *rapid.T) {
	const part = "evm"
	loc := genZone(t, "loc")
	initPrecompiles(loc)
	c := &evmCase{loc: loc, pre: preimages{}}
	uni := universe(loc)
	for _, u := range uni {
		c.pre.add(u.b[:])
	}
	c.sdb = newState(t, types.EmptyRootHash, loc)
	funded := common.InternalAddress(uni[0].b)
	c.sdb.AddBalance(funded, big.NewInt(1e18))
	c.sdb.SetNonce(funded, uint64(rapid.SampledFrom([]int{0, 1, 5}).Draw(t, "callerNonce")))
	accessChecks := rapid.IntRange(0, 5).Draw(t, "accessListChecks") == 0
	c.sdb.ConfigureAccessListChecks(accessChecks)
	blockNumber := rapid.SampledFrom([]int64{10, 60000, 1865000 - 1, 1865000, 3000000}).Draw(t, "blockNumber")
	ptn := rapid.SampledFrom([]uint64{10, params.ControllerKickInBlock + 10, params.KawPowForkBlock + params.KQuaiChangeHoldInterval + 5,
		params.ShaEquivalentDifficultyForkBlock + params.KQuaiChangeHoldInterval + 5}).Draw(t, "ptn")
	bctx := vm.BlockContext{CanTransfer: core.CanTransfer, Transfer: core.Transfer, GetHash: func(uint64) common.Hash { return common.Hash{} },
		CheckIfEtxEligible: func(common.Hash, common.Location) bool { return true },
		PrimaryCoinbase:    common.BytesToAddress(uni[1].b[:], loc), GasLimit: 12000000,
		BlockNumber: big.NewInt(blockNumber), Time: big.NewInt(1), Difficulty: big.NewInt(1), BaseFee: big.NewInt(1), QuaiStateSize: big.NewInt(0), PrimeTerminusNumber: ptn}
	cfg := &params.ChainConfig{ChainID: big.NewInt(1337), Location: loc}
	c.evm = vm.NewEVM(bctx, vm.TxContext{Origin: common.BytesToAddress(uni[0].b[:], loc), GasPrice: big.NewInt(1)}, c.sdb, cfg, vm.Config{}, nil)
	dump := func() map[string]any {
		return map[string]any{"location": fmt.Sprint([]byte(loc)), "block_number": blockNumber, "prime_terminus_number": ptn, "access_list_checks": accessChecks, "history": c.hist}
	}
	fail := func(fp, msg string) { stats.Violation(t, part, fp, msg, dump()) }

	// callers: an Address value is built the way some site of the node would build it; the
	// "wrongloc" classes use a location other than the node's, as a location-less decoder does
	callerClasses := []string{"funded", "funded", "funded", "funded", "funded", "funded", "unfunded-inzone", "inzone-qi", "otherzone", "wrongloc-foreign", "wrongloc-inzone"}
	mkCaller := func(t *rapid.T) (common.Address, string) {
		cl := rapid.SampledFrom(callerClasses).Draw(t, "callerClass")
		other := common.Location{loc[0], (loc[1] + 1) & 0x0f}
		switch cl {
		case "funded":
			return common.BytesToAddress(uni[0].b[:], loc), cl
		case "unfunded-inzone":
			return common.BytesToAddress(uni[2].b[:], loc), cl
		case "inzone-qi":
			return common.BytesToAddress(uni[3].b[:], loc), cl
		case "otherzone":
			return common.BytesToAddress(uni[5].b[:], loc), cl
		case "wrongloc-foreign": // a foreign address wrapped as "internal" by a site using the foreign location
			return common.BytesToAddress(uni[5].b[:], other), cl
		default: // the node's own funded address wrapped with a foreign location (classified external)
			return common.BytesToAddress(uni[0].b[:], other), cl
		}
	}
	labels := map[string]bool{}
	var created, failedCreates, outOfZoneAttempts int
	step := func(t *rapid.T) {
		before := scanAccounts(t, c.sdb, c.pre)
		op := rapid.SampledFrom([]string{"create", "create", "create2", "create2-ground", "create2-ground-foreign", "create2-ground-qi", "call"}).Draw(t, "op")
		caller, callerClass := mkCaller(t)
		gas := rapid.SampledFrom([]uint64{3000000, 3000000, 3000000, 100000, 40000, 26000, 1000}).Draw(t, "gas")
		value := big.NewInt(rapid.SampledFrom([]int64{0, 0, 1, 1e18 + 1}).Draw(t, "value"))
		var (
			err      error
			addr     common.Address
			desc     string
			isCreate = op != "call"
			want     []byte // the address the rules assign, when the harness can tell
		)
		switch op {
		case "create":
			init, ik := genInit(t, c, 0)
			desc = fmt.Sprintf("Create caller=%s gas=%d value=%v init=%s", callerClass, gas, value, ik)
			_, addr, _, _, err = c.evm.Create(vm.AccountRef(caller), init, gas, value)
		case "create2", "create2-ground", "create2-ground-foreign", "create2-ground-qi":
			init, ik := genInit(t, c, 0)
			var salt [32]byte
			copy(salt[:], rapid.SliceOfN(rapid.Byte(), 32, 32).Draw(t, "salt"))
			derive := func() []byte {
				return crypto.Keccak256([]byte{0xff}, caller.Bytes(), salt[:], crypto.Keccak256(init))[12:]
			}
			if op == "create2-ground" {
				// search, from the drawn salt, for one whose address is an in-zone Quai address
				for i := 0; !inScope(derive(), loc); i++ {
					binary.BigEndian.PutUint64(salt[24:], uint64(i))
				}
			}
			if op == "create2-ground-foreign" {
				// the adversarial twin: a salt whose address is a perfectly good Quai address of
				// another zone (zone 0-0 or the neighbouring zone)
				target := common.Location{0, 0}
				if loc.Equal(target) || rapid.Bool().Draw(t, "neighbour") {
					target = common.Location{loc[0], (loc[1] + 1) & 0x0f}
				}
				for i := 0; !inScope(derive(), target); i++ {
					binary.BigEndian.PutUint64(salt[24:], uint64(i))
				}
			}
			if op == "create2-ground-qi" {
				// and the other twin: an address of this very zone, but in the Qi ledger
				for i := 0; !(wantInternal(derive(), loc) && wantQi(derive())); i++ {
					binary.BigEndian.PutUint64(salt[24:], uint64(i))
				}
			}
			want = derive()
			c.pre.add(want)
			if !inScope(want, loc) {
				outOfZoneAttempts++
			}
			desc = fmt.Sprintf("Create2 caller=%s gas=%d value=%v salt=%x init=%s derived=%x(inScope=%v)", callerClass, gas, value, salt, ik, want, inScope(want, loc))
			_, addr, _, _, err = c.evm.Create2(vm.AccountRef(caller), init, gas, value, new(uint256.Int).SetBytes(salt[:]))
		default:
			to := uni[rapid.IntRange(0, len(uni)-1).Draw(t, "to")]
			toLoc := loc
			if rapid.IntRange(0, 4).Draw(t, "toWrongLoc") == 0 {
				toLoc = common.Location{loc[0], (loc[1] + 1) & 0x0f}
			}
			desc = fmt.Sprintf("Call caller=%s to=%s(%x, wrapped at %v) gas=%d value=%v", callerClass, to.name, to.b, []byte(toLoc), gas, value)
			_, _, _, err = c.evm.Call(vm.AccountRef(caller), common.BytesToAddress(to.b[:], toLoc), nil, gas, value)
		}
		c.hist = append(c.hist, fmt.Sprintf("%s -> addr=%x err=%v", desc, addr.Bytes(), err))
		labels["op_"+op] = true
		labels["caller_"+callerClass] = true
		if len(addr.Bytes()) == 20 {
			c.pre.add(addr.Bytes())
		}
		after := scanAccounts(t, c.sdb, c.pre)
		checkScan(fail, "evm-"+op, after, loc)
		if !isCreate {
			return
		}
		var fresh []string
		for k := range after {
			if _, ok := before[k]; !ok {
				fresh = append(fresh, k)
			}
		}
		sort.Strings(fresh)
		if err == nil {
			created++
			labels["create_ok"] = true
			ab := addr.Bytes()
			if len(ab) != 20 || !inScope(ab, loc) {
				fail("C16/create-yields-out-of-scope-address/"+op, fmt.Sprintf("%s succeeded with contract address %x, which is not an in-zone Quai address of %v", op, ab, []byte(loc)))
				return
			}
			if _, err := addr.InternalAndQuaiAddress(); err != nil {
				fail("C16/create-yields-out-of-scope-address/"+op, fmt.Sprintf("%s succeeded with an address value that is not internal+Quai: %v", op, err))
			}
			if want != nil && !bytes.Equal(want, ab) {
				fail("C16/create2-address", fmt.Sprintf("Create2 deployed at %x, the CREATE2 rule gives %x", ab, want))
			}
			if _, ok := after[string(ab)]; !ok {
				fail("C16/create-without-account/"+op, fmt.Sprintf("%s reported success at %x but the state has no such account", op, ab))
			}
			return
		}
		failedCreates++
		labels["create_failed"] = true
		if err == vm.ErrCodeStoreOutOfGas {
			labels["create_codestore_oog"] = true // legacy rule: the (in-scope) account stays without code; scope is checked by the scan
			return
		}
		// a failed creation leaves no account behind that did not exist, except that the caller's
		// own account may have come into being through the nonce bump that precedes every check
		for _, k := range fresh {
			if bytes.Equal([]byte(k), caller.Bytes()) {
				continue
			}
			fail("C16/failed-create-leaves-account/"+op, fmt.Sprintf("%s failed (%v) but account %x (%+v) exists afterwards and did not before", op, err, []byte(k), after[k]))
		}
		if want != nil && !inScope(want, loc) {
			labels["create2_out_of_scope_refused"] = true
		}
	}
	n := rapid.IntRange(1, 4).Draw(t, "steps")
	for i := 0; i < n; i++ {
		step(t)
	}
	var ls []string
	for l := range labels {
		ls = append(ls, l)
	}
	if !loc.Equal(common.Location{0, 0}) {
		ls = append(ls, "node_not_zone00")
	}
	if c.sdb.Error() != nil {
		ls = append(ls, "statedb_guard_hit")
	}
	sort.Strings(ls)
	nontrivial := created > 0 || outOfZoneAttempts > 0
	stats.Case(part, strings.Join(ls, ","), nontrivial, ls...)
	if nontrivial && stats.WantSample(part) {
		stats.Sample(part, dump())
	}
}

func TestC16_EVM(t *testing.T) { rapid.Check(t, propEVM) }
