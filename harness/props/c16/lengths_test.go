// C16 — constructors given a byte string that is not 20 bytes long.
//
// BytesToAddress, HexToAddress, Address.ProtoDecode (the wire decoder: the length of the field
// is the sender's choice) and the mixed-case string constructor accept any length: a longer
// input keeps its last 20 bytes, a shorter one is left-padded with zeros. The address they
// return is a 20-byte value like any other, so the property's rule applies to it: it is
// classified by ITS first byte and ITS second byte's top bit, identically to the same 20 bytes
// built from a 20-byte input.
package c16

import (
	"fmt"
	"testing"

	"github.com/dominant-strategies/go-quai/common"
	"google.golang.org/protobuf/proto"
	"pgregory.net/rapid"

	"verifharness/stats"
)

func propLengths(t *rapid.T) {
	const part = "lengths"
	loc := genNodeLocation(t)
	b, class := genAddrBytes(t, loc)
	p, isZone := zonePrefix(loc)
	var raw []byte
	shape := rapid.SampledFrom([]string{"long", "long", "long", "short", "empty"}).Draw(t, "shape")
	switch shape {
	case "long": // extra leading bytes; the first of them is what a classifier looking at raw[0] would see
		n := rapid.SampledFrom([]int{1, 1, 1, 2, 12, 13, 44}).Draw(t, "extra")
		lead := make([]byte, n)
		switch rapid.IntRange(0, 3).Draw(t, "lead") {
		case 0, 1:
			if isZone {
				lead[0] = p // looks in-zone from the front
			}
		case 2:
			lead[0] = p ^ 0x11
		default:
			lead[0] = rapid.Byte().Draw(t, "lead0")
		}
		for i := 1; i < n; i++ {
			lead[i] = rapid.SampledFrom([]byte{0x00, 0x80, 0xff, p}).Draw(t, "leadN")
		}
		raw = append(lead, b...)
	case "short": // the leading bytes are missing: the value is the input left-padded with zeros
		n := rapid.IntRange(1, 19).Draw(t, "keep")
		raw = append([]byte{}, b[20-n:]...)
		if isZone && rapid.Bool().Draw(t, "frontLooksInZone") {
			raw[0] = p
		}
		nb := make([]byte, 20)
		copy(nb[20-n:], raw)
		b = nb
	default:
		raw = []byte{}
		b = make([]byte, 20)
	}
	class = "external"
	if wantInternal(b, loc) {
		class = "internal"
	}
	frontSaysInternal := len(raw) > 0 && isZone && raw[0] == p
	dump := map[string]any{"location": fmt.Sprint([]byte(loc)), "input": fmt.Sprintf("%x", raw), "resulting_20_bytes": fmt.Sprintf("%x", b), "shape": shape,
		"first_input_byte_looks_in_zone": frontSaysInternal, "resulting_address_in_zone": wantInternal(b, loc)}
	fail := func(fp, msg string) { stats.Violation(t, part, fp, msg, dump) }

	var all []built
	add := func(path string, a common.Address) { all = append(all, built{path, a}) }
	add("BytesToAddress", common.BytesToAddress(raw, loc))
	if len(raw) > 0 {
		add("HexToAddress", common.HexToAddress(fmt.Sprintf("0x%x", raw), loc))
		if m, err := common.NewMixedcaseAddressFromString(fmt.Sprintf("0x%x", raw), loc); err == nil {
			add("MixedcaseFromString", m.Address())
		}
	}
	{
		var a common.Address
		if err := a.ProtoDecode(&common.ProtoAddress{Value: raw}, loc); err == nil {
			add("ProtoDecode", a)
		}
		enc, err := proto.Marshal(&common.ProtoAddress{Value: raw})
		if err != nil {
			t.Fatalf("HARNESS: proto marshal: %v", err)
		}
		var pa common.ProtoAddress
		if err := proto.Unmarshal(enc, &pa); err != nil {
			t.Fatalf("HARNESS: proto unmarshal: %v", err)
		}
		var a2 common.Address
		if pa.Value == nil {
			pa.Value = []byte{}
		}
		if err := a2.ProtoDecode(&pa, loc); err == nil {
			add("ProtoWire", a2)
		}
	}
	ref := common.BytesToAddress(b, loc) // the same 20 bytes, canonically framed
	for _, x := range all {
		path := x.path
		checkAddr(func(f, msg string) { fail(f+"/len="+shape, msg) }, path+"(non-20-byte input)", x.addr, b, loc)
		if !x.addr.Equal(ref) || !ref.Equal(x.addr) {
			fail("C16/equal/"+path+"/len="+shape, fmt.Sprintf("%s(%x) and BytesToAddress(%x) hold the same 20 bytes but are not Equal", path, raw, b))
		}
	}
	// non-trivial: a classifier that looks at the front of the input would answer differently
	nt := frontSaysInternal != wantInternal(b, loc)
	stats.Case(part, fmt.Sprintf("%v|%s|%d|front=%v|%s", []byte(loc), shape, len(raw), frontSaysInternal, class), nt, "shape:"+shape, class, fmt.Sprintf("front-disagrees:%v", nt))
	if nt && stats.WantSample(part) {
		stats.Sample(part, dump)
	}
}

func TestC16_Lengths(t *testing.T) { rapid.Check(t, propLengths) }
