package c16

// (senders) The address a signature recovers is an address like any other: whatever the history
// of calls on the transaction object (hashing with or without a location, sender queries by
// signers of other locations, message conversion), the sender returned for a signer of node
// location L is classified relative to L - internal exactly when its first byte is L's zone
// prefix - and carries the bytes of the signing key's address.

import (
	"crypto/ecdsa"
	"encoding/binary"
	"fmt"
	"math/big"
	"strings"
	"testing"

	"github.com/dominant-strategies/go-quai/common"
	"github.com/dominant-strategies/go-quai/core/types"
	"github.com/dominant-strategies/go-quai/crypto"
	"pgregory.net/rapid"

	"verifharness/stats"
)

// keyInZone grinds a deterministic key whose address lies in zone loc (Quai ledger).
func keyInZone(seed uint64, loc common.Location) (*ecdsa.PrivateKey, []byte) {
	p, _ := zonePrefix(loc)
	for ctr := uint64(0); ; ctr++ {
		var s [24]byte
		copy(s[:], "c16-send")
		binary.BigEndian.PutUint64(s[8:], seed)
		binary.BigEndian.PutUint64(s[16:], ctr)
		k, err := crypto.ToECDSA(crypto.Keccak256(s[:]))
		if err != nil {
			continue
		}
		a := crypto.PubkeyToAddress(k.PublicKey, loc).Bytes()
		if a[0] == p && a[1]&0x80 == 0 {
			return k, a
		}
	}
}

func TestC16_Senders(t *testing.T) {
	const part = "senders"
	rapid.Check(t, func(t *rapid.T) {
		home := genZone(t, "home") // the zone the signing key lives in
		key, want := keyInZone(uint64(rapid.IntRange(0, 40).Draw(t, "key")), home)
		chainID := big.NewInt(int64(rapid.SampledFrom([]int{1, 9, 1337, 15000}).Draw(t, "chain")))
		to := common.BytesToAddress(append([]byte{want[0], 0x10}, make([]byte, 18)...), home)
		inner := &types.QuaiTx{ChainID: chainID, Nonce: uint64(rapid.IntRange(0, 5).Draw(t, "nonce")), GasPrice: big.NewInt(1), Gas: 21000, To: &to, Value: big.NewInt(1)}
		tx, err := types.SignNewTx(key, types.NewSigner(chainID, home), inner)
		if err != nil {
			t.Fatalf("HARNESS: sign: %v", err)
		}
		// a freshly decoded object, as the node gets it from a peer or the database
		if rapid.Bool().Draw(t, "decoded") {
			ptx, err := tx.ProtoEncode()
			if err != nil {
				t.Fatalf("HARNESS: proto encode: %v", err)
			}
			d := new(types.Transaction)
			if err := d.ProtoDecode(ptx, home); err != nil {
				t.Fatalf("HARNESS: proto decode: %v", err)
			}
			tx = d
		}
		locs := []common.Location{home, {0, 0}, genZone(t, "other"), genZone(t, "other2")}
		var hist []string
		check := func(op string, loc common.Location, got common.Address, err error) bool {
			hist = append(hist, fmt.Sprintf("%s(loc=%v) -> %x err=%v", op, []byte(loc), got.Bytes(), err))
			if err != nil {
				stats.Violation(t, part, "C16/sender/refused", fmt.Sprintf("%s with a signer of location %v fails for a validly signed transaction: %v", op, []byte(loc), err), map[string]any{"home": []byte(home), "history": hist})
				return false
			}
			if string(got.Bytes()) != string(want) {
				stats.Violation(t, part, "C16/sender/bytes", fmt.Sprintf("%s returns %x, the signing key's address is %x", op, got.Bytes(), want), map[string]any{"home": []byte(home), "history": hist})
				return false
			}
			_, ierr := got.InternalAndQuaiAddress()
			if internal := ierr == nil; internal != wantInternal(want, loc) {
				stats.Violation(t, part, "C16/sender/classified-for-another-zone", fmt.Sprintf("%s with a signer of location %v returns %x classified internal=%v; relative to that location it is internal=%v (history of calls on the object: %s)",
					op, []byte(loc), got.Bytes(), internal, wantInternal(want, loc), strings.Join(hist, "; ")), map[string]any{"home": []byte(home), "history": hist})
				return false
			}
			if gl := got.Location(); gl == nil || !gl.Equal(home) {
				stats.Violation(t, part, "C16/sender/location", fmt.Sprintf("%s returns an address whose Location() is %v, its bytes put it in %v", op, gl, []byte(home)), map[string]any{"history": hist})
				return false
			}
			return true
		}
		n := rapid.IntRange(2, 7).Draw(t, "ncalls")
		kinds := map[string]bool{}
		for i := 0; i < n; i++ {
			loc := locs[rapid.IntRange(0, len(locs)-1).Draw(t, "loc")]
			switch op := rapid.SampledFrom([]string{"hash", "hashloc", "sender", "sender", "from", "asmessage"}).Draw(t, "op"); op {
			case "hash":
				tx.Hash()
				hist = append(hist, "Hash()")
			case "hashloc":
				tx.Hash(loc...)
				hist = append(hist, fmt.Sprintf("Hash(%v)", []byte(loc)))
			case "sender":
				got, err := types.Sender(types.NewSigner(chainID, loc), tx)
				if !check("Sender", loc, got, err) {
					return
				}
			case "from":
				got := tx.From(loc)
				if got == nil {
					hist = append(hist, fmt.Sprintf("From(%v) -> nil", []byte(loc)))
					break
				}
				if !check("From", loc, *got, nil) {
					return
				}
			case "asmessage":
				msg, err := tx.AsMessage(types.NewSigner(chainID, loc), big.NewInt(1))
				if !check("AsMessage.From", loc, msg.From(), err) {
					return
				}
			}
			if !loc.Equal(home) {
				kinds["foreign-signer"] = true
			}
		}
		// the node's own answer, last
		node := locs[rapid.IntRange(0, len(locs)-1).Draw(t, "node")]
		got, err := types.Sender(types.NewSigner(chainID, node), tx)
		if !check("Sender", node, got, err) {
			return
		}
		stats.Case(part, fmt.Sprintf("home00=%v node=home:%v n=%d", home.Equal(common.Location{0, 0}), node.Equal(home), n), !home.Equal(common.Location{0, 0}) || !node.Equal(home), "senders")
	})
}
