// C16 — every address has one zone and one ledger, respected by all state.
//
// This file: the pure classification part. A 20-byte value and a node location are drawn
// class-wise; every constructor and decoder of common.Address (and the derivations in package
// crypto) must classify the value identically: internal <=> the node is a zone chain and the
// first byte is the zone's prefix, ledger = top bit of the second byte, location = the two
// nibbles of the first byte.
package c16

import (
	"bytes"
	"crypto/ecdsa"
	"encoding/binary"
	"encoding/json"
	"fmt"
	"io"
	"strings"
	"testing"

	"github.com/dominant-strategies/go-quai/common"
	"github.com/dominant-strategies/go-quai/crypto"
	"github.com/dominant-strategies/go-quai/log"
	"github.com/dominant-strategies/go-quai/rlp"
	"github.com/sirupsen/logrus"
	"google.golang.org/protobuf/proto"
	"pgregory.net/rapid"

	"verifharness/stats"
)

func nullLogger() *log.Logger {
	l := logrus.New()
	l.SetOutput(io.Discard)
	l.SetLevel(logrus.PanicLevel)
	return l
}

var logger = func() *log.Logger {
	l := nullLogger()
	log.Global = l
	return l
}()

// fpDecoder: Address.DecodeRLP / UnmarshalText / UnmarshalJSON and MixedcaseAddress.UnmarshalJSON
// take no node location (they hard-code zone 0-0, resp. the empty location).
const fpDecoder = "C16/decoder-ignores-node-location"

// ---- the oracle, written from the property statement -----------------------------------------

func zonePrefix(loc common.Location) (byte, bool) {
	if len(loc) != 2 {
		return 0, false
	}
	return loc[0]<<4 | loc[1], true
}

func wantInternal(b []byte, loc common.Location) bool {
	p, isZone := zonePrefix(loc)
	return isZone && b[0] == p
}

func wantQi(b []byte) bool { return b[1]&0x80 != 0 }

// ---- generators -------------------------------------------------------------------------------

var nibbles = []byte{0, 0, 1, 1, 2, 3, 7, 8, 15}

func genZone(t *rapid.T, label string) common.Location {
	if rapid.IntRange(0, 3).Draw(t, label+"Zero") == 0 {
		return common.Location{0, 0}
	}
	return common.Location{rapid.SampledFrom(nibbles).Draw(t, label+"R"), rapid.SampledFrom(nibbles).Draw(t, label+"Z")}
}

// genNodeLocation: mostly zone chains, sometimes a region or the prime chain (which have no
// address space: everything is external there).
func genNodeLocation(t *rapid.T) common.Location {
	switch rapid.IntRange(0, 11).Draw(t, "locKind") {
	case 0:
		return common.Location{}
	case 1:
		return common.Location{rapid.SampledFrom(nibbles).Draw(t, "region")}
	}
	return genZone(t, "loc")
}

// genAddrBytes draws a 20-byte value relative to loc: zone class x ledger class x tail class.
func genAddrBytes(t *rapid.T, loc common.Location) ([]byte, string) {
	b := make([]byte, 20)
	p, isZone := zonePrefix(loc)
	zc := rapid.SampledFrom([]string{"same", "same", "sameRegion", "otherRegion", "zone00", "anyByte"}).Draw(t, "zoneClass")
	switch zc {
	case "same":
		if isZone {
			b[0] = p
		} else {
			b[0] = rapid.Byte().Draw(t, "b0")
		}
	case "sameRegion":
		b[0] = p&0xf0 | (p+1+byte(rapid.IntRange(0, 14).Draw(t, "dz")))&0x0f
	case "otherRegion":
		b[0] = (p&0xf0+0x10*byte(1+rapid.IntRange(0, 14).Draw(t, "dr")))&0xf0 | p&0x0f
	case "zone00":
		b[0] = 0
	default:
		b[0] = rapid.Byte().Draw(t, "b0")
	}
	b[1] = rapid.SampledFrom([]byte{0x00, 0x01, 0x7f, 0x80, 0x81, 0xff, 0x40, 0xc0}).Draw(t, "b1")
	switch rapid.IntRange(0, 5).Draw(t, "tail") {
	case 0: // zeros (with b1 = 0: the zone's zero address / the all-zero address)
	case 1:
		b[19] = rapid.SampledFrom([]byte{1, 2, 9, 10, 0xff}).Draw(t, "last") // precompile / lockup look-alikes
	default:
		copy(b[2:], rapid.SliceOfN(rapid.Byte(), 18, 18).Draw(t, "rest"))
	}
	if rapid.IntRange(0, 15).Draw(t, "allZero") == 0 {
		b = make([]byte, 20)
	}
	class := "external"
	if wantInternal(b, loc) {
		class = "internal"
	}
	if wantQi(b) {
		class += "+qi"
	} else {
		class += "+quai"
	}
	return b, class
}

func hexForms(t *rapid.T, b []byte) []string {
	lower := fmt.Sprintf("%x", b)
	var mixed strings.Builder
	for i, c := range lower {
		if rapid.Bool().Draw(t, fmt.Sprintf("up%d", i%4)) {
			mixed.WriteString(strings.ToUpper(string(c)))
		} else {
			mixed.WriteRune(c)
		}
	}
	var ab common.AddressBytes
	copy(ab[:], b)
	return []string{"0x" + lower, lower, "0X" + strings.ToUpper(lower), "0x" + mixed.String(), ab.Hex()}
}

// keyFromSeed derives a secp256k1 key deterministically from drawn bytes.
func keyFromSeed(seed uint64) *ecdsa.PrivateKey {
	for ctr := uint64(0); ; ctr++ {
		var s [16]byte
		binary.BigEndian.PutUint64(s[:8], seed)
		binary.BigEndian.PutUint64(s[8:], ctr)
		if k, err := crypto.ToECDSA(crypto.Keccak256([]byte("verif-c16-key"), s[:])); err == nil {
			return k
		}
	}
}

// ---- the check --------------------------------------------------------------------------------

type built struct {
	path string
	addr common.Address
}

// checkAddr applies the whole oracle to one constructed address.
func checkAddr(fail func(fp, msg string), path string, a common.Address, b []byte, loc common.Location) {
	if !bytes.Equal(a.Bytes(), b) {
		fail("C16/bytes/"+path, fmt.Sprintf("%s: address bytes %x, constructed from %x", path, a.Bytes(), b))
		return
	}
	wi, wq := wantInternal(b, loc), wantQi(b)
	_, errI := a.InternalAddress()
	if (errI == nil) != wi {
		fail("C16/internal-external/"+path, fmt.Sprintf("%s: %x at node location %v classified internal=%v (err %v), first byte / zone prefix say internal=%v", path, b, []byte(loc), errI == nil, errI, wi))
	}
	if a.IsInQiLedgerScope() != wq || a.IsInQuaiLedgerScope() == wq {
		fail("C16/ledger/"+path, fmt.Sprintf("%s: %x IsInQiLedgerScope=%v IsInQuaiLedgerScope=%v, top bit of byte 1 says qi=%v", path, b, a.IsInQiLedgerScope(), a.IsInQuaiLedgerScope(), wq))
	}
	ia, errQuai := a.InternalAndQuaiAddress()
	ib, errQi := a.InternalAndQiAddress()
	if (errQuai == nil) != (wi && !wq) {
		fail("C16/internal-and-quai/"+path, fmt.Sprintf("%s: %x at %v InternalAndQuaiAddress err=%v, want success=%v", path, b, []byte(loc), errQuai, wi && !wq))
	} else if errQuai == nil && !bytes.Equal(ia.Bytes(), b) {
		fail("C16/bytes/"+path, fmt.Sprintf("%s: InternalAndQuaiAddress returned %x for %x", path, ia.Bytes(), b))
	}
	if (errQi == nil) != (wi && wq) {
		fail("C16/internal-and-qi/"+path, fmt.Sprintf("%s: %x at %v InternalAndQiAddress err=%v, want success=%v", path, b, []byte(loc), errQi, wi && wq))
	} else if errQi == nil && !bytes.Equal(ib.Bytes(), b) {
		fail("C16/bytes/"+path, fmt.Sprintf("%s: InternalAndQiAddress returned %x for %x", path, ib.Bytes(), b))
	}
	if l := a.Location(); l == nil || len(*l) != 2 || (*l)[0] != b[0]>>4 || (*l)[1] != b[0]&0x0f {
		fail("C16/location/"+path, fmt.Sprintf("%s: %x Location() = %v, first byte says [%d %d]", path, b, l, b[0]>>4, b[0]&0x0f))
	}
}

func propClassify(t *rapid.T) {
	const part = "classify"
	loc := genNodeLocation(t)
	b, class := genAddrBytes(t, loc)
	var b20 [20]byte
	copy(b20[:], b)
	dump := map[string]any{"location": fmt.Sprint([]byte(loc)), "bytes": fmt.Sprintf("%x", b), "class": class}
	fail := func(fp, msg string) { stats.Violation(t, part, fp, msg, dump) }

	// scope predicates on raw bytes
	if got := common.IsInChainScope(b, loc); got != wantInternal(b, loc) {
		fail("C16/is-in-chain-scope", fmt.Sprintf("IsInChainScope(%x, %v) = %v", b, []byte(loc), got))
	}
	ab := common.AddressBytes(b20)
	if ab.IsInQiLedgerScope() != wantQi(b) || ab.IsInQuaiLedgerScope() == wantQi(b) {
		fail("C16/ledger/address-bytes", fmt.Sprintf("AddressBytes(%x) qi=%v quai=%v", b, ab.IsInQiLedgerScope(), ab.IsInQuaiLedgerScope()))
	}
	if l := ab.Location(); (*l)[0] != b[0]>>4 || (*l)[1] != b[0]&0x0f {
		fail("C16/location/address-bytes", fmt.Sprintf("AddressBytes(%x).Location() = %v", b, *l))
	}
	if err := common.CheckIfBytesAreInternalAndQiAddress(b, loc); (err == nil) != (wantInternal(b, loc) && wantQi(b)) {
		fail("C16/internal-and-qi/check-bytes", fmt.Sprintf("CheckIfBytesAreInternalAndQiAddress(%x, %v) = %v", b, []byte(loc), err))
	}
	if got := common.IsConversionOutput(b, loc); got != (wantInternal(b, loc) && !wantQi(b)) {
		fail("C16/is-conversion-output", fmt.Sprintf("IsConversionOutput(%x, %v) = %v", b, []byte(loc), got))
	}

	var all []built
	add := func(path string, a common.Address) { all = append(all, built{path, a}) }
	add("BytesToAddress", common.BytesToAddress(b, loc))
	add("Bytes20ToAddress", common.Bytes20ToAddress(b20, loc))
	for i, h := range hexForms(t, b) {
		add(fmt.Sprintf("HexToAddress/%d", i), common.HexToAddress(h, loc))
		if hb := common.HexToAddressBytes(h); hb != ab {
			fail("C16/bytes/HexToAddressBytes", fmt.Sprintf("HexToAddressBytes(%q) = %x", h, hb[:]))
		}
		if m, err := common.NewMixedcaseAddressFromString(h, loc); err != nil {
			fail("C16/decode-error/mixedcase-string", fmt.Sprintf("NewMixedcaseAddressFromString(%q): %v", h, err))
		} else {
			add(fmt.Sprintf("MixedcaseFromString/%d", i), m.Address())
		}
	}
	{
		var a common.Address
		if err := a.ProtoDecode(&common.ProtoAddress{Value: b}, loc); err != nil {
			fail("C16/decode-error/proto", err.Error())
		} else {
			add("ProtoDecode", a)
		}
		// through the wire form
		enc, err := proto.Marshal(common.BytesToAddress(b, loc).ProtoEncode())
		if err != nil {
			t.Fatalf("HARNESS: proto marshal: %v", err)
		}
		var pa common.ProtoAddress
		if err := proto.Unmarshal(enc, &pa); err != nil {
			t.Fatalf("HARNESS: proto unmarshal: %v", err)
		}
		var a2 common.Address
		if err := a2.ProtoDecode(&pa, loc); err != nil {
			fail("C16/decode-error/proto", err.Error())
		} else {
			add("ProtoWire", a2)
		}
	}
	{
		var a common.Address
		if err := a.Scan(b, loc); err != nil {
			fail("C16/decode-error/scan", err.Error())
		} else {
			add("Scan", a)
		}
	}
	// decoders without a location parameter
	if loc.Equal(common.Location{0, 0}) || !stats.IsKnown(fpDecoder) {
		ref := common.BytesToAddress(b, loc)
		var a1, a2, a3, a4 common.Address
		txt, _ := ref.MarshalText()
		if err := a1.UnmarshalText(txt); err != nil {
			fail("C16/decode-error/text", fmt.Sprintf("UnmarshalText(%q): %v", txt, err))
		} else {
			add("UnmarshalText", a1)
		}
		js, _ := json.Marshal(fmt.Sprintf("0x%x", b))
		if err := json.Unmarshal(js, &a2); err != nil {
			fail("C16/decode-error/json", fmt.Sprintf("json.Unmarshal(%s): %v", js, err))
		} else {
			add("UnmarshalJSON", a2)
		}
		enc, err := rlp.EncodeToBytes(ref)
		if err != nil {
			t.Fatalf("HARNESS: rlp encode: %v", err)
		}
		if err := rlp.DecodeBytes(enc, &a3); err != nil {
			fail("C16/decode-error/rlp", fmt.Sprintf("rlp decode of %x: %v", enc, err))
		} else {
			add("DecodeRLP", a3)
		}
		enc2, _ := rlp.EncodeToBytes(b)
		if err := rlp.DecodeBytes(enc2, &a4); err != nil {
			fail("C16/decode-error/rlp", fmt.Sprintf("rlp decode of %x: %v", enc2, err))
		} else {
			add("DecodeRLP/raw", a4)
		}
	} else {
		stats.Excluded(fpDecoder)
	}
	if !stats.IsKnown(fpDecoder) {
		var m common.MixedcaseAddress
		js, _ := json.Marshal(fmt.Sprintf("0x%x", b))
		if err := json.Unmarshal(js, &m); err != nil {
			fail("C16/decode-error/mixedcase-json", err.Error())
		} else {
			add("MixedcaseAddress.UnmarshalJSON", m.Address())
		}
	}

	for _, x := range all {
		path := x.path
		fp := func(f, msg string) {
			if strings.HasPrefix(f, "C16/internal") && (strings.HasPrefix(path, "Unmarshal") || strings.HasPrefix(path, "DecodeRLP") || strings.HasPrefix(path, "MixedcaseAddress.")) {
				f = fpDecoder
			}
			fail(f, msg)
		}
		checkAddr(fp, x.path, x.addr, b, loc)
		if !x.addr.Equal(all[0].addr) || !all[0].addr.Equal(x.addr) {
			fail("C16/equal/"+x.path, fmt.Sprintf("%s and BytesToAddress of the same bytes %x are not Equal", x.path, b))
		}
	}
	oneOff := wantInternal(b, loc) == wantQi(b) // exactly one attribute differs from an in-zone Quai account
	_, isZone := zonePrefix(loc)
	labels := []string{class}
	if !isZone {
		labels = append(labels, "non_zone_node")
	} else if !loc.Equal(common.Location{0, 0}) {
		labels = append(labels, "node_not_zone00")
	}
	if bytes.Equal(b, make([]byte, 20)) {
		labels = append(labels, "all_zero_address")
	}
	stats.Case(part, fmt.Sprintf("%v|%02x%02x|%s", []byte(loc), b[0], b[1], class), oneOff && isZone, labels...)
	if oneOff && isZone && stats.WantSample(part) {
		stats.Sample(part, dump)
	}
}

func TestC16_Classify(t *testing.T) { rapid.Check(t, propClassify) }

// propDerive: addresses derived from public keys and by the CREATE / CREATE2 rules are the last
// 20 bytes of the defining hash and are classified like any other 20 bytes.
func propDerive(t *rapid.T) {
	const part = "derive"
	loc := genNodeLocation(t)
	kind := rapid.SampledFrom([]string{"pubkey", "create", "create2"}).Draw(t, "kind")
	var b []byte
	var got []built
	dump := map[string]any{"location": fmt.Sprint([]byte(loc)), "kind": kind}
	switch kind {
	case "pubkey":
		seed := rapid.Uint64Range(0, 1<<20).Draw(t, "keySeed")
		k := keyFromSeed(seed)
		pub := crypto.FromECDSAPub(&k.PublicKey)
		b = crypto.Keccak256(pub[1:])[12:]
		if p, isZone := zonePrefix(loc); isZone && rapid.IntRange(0, 19).Draw(t, "grind") == 0 {
			for b[0] != p { // ~256 keys
				seed += 1 << 20
				k = keyFromSeed(seed)
				pub = crypto.FromECDSAPub(&k.PublicKey)
				b = crypto.Keccak256(pub[1:])[12:]
			}
		}
		got = append(got, built{"PubkeyToAddress", crypto.PubkeyToAddress(k.PublicKey, loc)},
			built{"PubkeyBytesToAddress", crypto.PubkeyBytesToAddress(pub, loc)})
		dump["pubkey"] = fmt.Sprintf("%x", pub)
	case "create":
		sb, _ := genAddrBytes(t, loc)
		sender := common.BytesToAddress(sb, loc)
		nonce := rapid.SampledFrom([]uint64{0, 1, 2, 127, 128, 1 << 32, ^uint64(0)}).Draw(t, "nonce")
		code := rapid.SliceOfN(rapid.Byte(), 0, 64).Draw(t, "code")
		var nb [8]byte
		binary.BigEndian.PutUint64(nb[:], nonce)
		b = crypto.Keccak256(sb, nb[:], code)[12:]
		if p, isZone := zonePrefix(loc); isZone && rapid.Bool().Draw(t, "grind") {
			// hashes rarely land in the node's zone: search the nonce for one that does
			for ; b[0] != p; nonce++ {
				binary.BigEndian.PutUint64(nb[:], nonce+1)
				b = crypto.Keccak256(sb, nb[:], code)[12:]
			}
		}
		got = append(got, built{"CreateAddress", crypto.CreateAddress(sender, nonce, code, loc)})
		dump["sender"], dump["nonce"], dump["code"] = fmt.Sprintf("%x", sb), nonce, fmt.Sprintf("%x", code)
	default:
		sb, _ := genAddrBytes(t, loc)
		sender := common.BytesToAddress(sb, loc)
		var salt [32]byte
		copy(salt[:], rapid.SliceOfN(rapid.Byte(), 32, 32).Draw(t, "salt"))
		initHash := crypto.Keccak256(rapid.SliceOfN(rapid.Byte(), 0, 64).Draw(t, "init"))
		b = crypto.Keccak256([]byte{0xff}, sb, salt[:], initHash)[12:]
		if p, isZone := zonePrefix(loc); isZone && rapid.Bool().Draw(t, "grind") {
			for i := uint64(0); b[0] != p; i++ {
				binary.BigEndian.PutUint64(salt[24:], i)
				b = crypto.Keccak256([]byte{0xff}, sb, salt[:], initHash)[12:]
			}
		}
		got = append(got, built{"CreateAddress2", crypto.CreateAddress2(sender, salt, initHash, loc)})
		dump["sender"], dump["salt"], dump["inithash"] = fmt.Sprintf("%x", sb), fmt.Sprintf("%x", salt), fmt.Sprintf("%x", initHash)
	}
	dump["bytes"] = fmt.Sprintf("%x", b)
	fail := func(fp, msg string) { stats.Violation(t, part, fp, msg, dump) }
	for _, x := range got {
		checkAddr(fail, x.path, x.addr, b, loc)
	}
	class := "external"
	if wantInternal(b, loc) {
		class = "internal"
	}
	if wantQi(b) {
		class += "+qi"
	} else {
		class += "+quai"
	}
	_, isZone := zonePrefix(loc)
	stats.Case(part, fmt.Sprintf("%s|%v|%s", kind, []byte(loc), class), isZone, "kind_"+kind, class)
	if stats.WantSample(part) {
		stats.Sample(part, dump)
	}
}

func TestC16_Derive(t *testing.T) { rapid.Check(t, propDerive) }

// TestC16_FirstBytes enumerates every (first byte, ledger bit) pair against every zone location
// and a few non-zone locations through the basic constructors: the partition by first byte is
// exact, not sampled.
func TestC16_FirstBytes(t *testing.T) {
	const part = "firstbytes"
	var locs []common.Location
	for r := 0; r < 16; r++ {
		for z := 0; z < 16; z++ {
			locs = append(locs, common.Location{byte(r), byte(z)})
		}
	}
	locs = append(locs, common.Location{}, common.Location{0}, common.Location{1}, common.Location{15})
	n := 0
	for li, loc := range locs {
		if li%stats.NShards() != stats.Shard() {
			continue
		}
		for b0 := 0; b0 < 256; b0++ {
			for _, b1 := range []byte{0x00, 0x7f, 0x80, 0xff} {
				for _, tail := range []byte{0x00, 0x01} {
					b := make([]byte, 20)
					b[0], b[1], b[19] = byte(b0), b1, tail
					var b20 [20]byte
					copy(b20[:], b)
					dump := map[string]any{"location": fmt.Sprint([]byte(loc)), "bytes": fmt.Sprintf("%x", b)}
					fail := func(fp, msg string) { stats.Violation(t, part, fp, msg, dump) }
					if got := common.IsInChainScope(b, loc); got != wantInternal(b, loc) {
						fail("C16/is-in-chain-scope", fmt.Sprintf("IsInChainScope(%x, %v) = %v", b, []byte(loc), got))
					}
					checkAddr(fail, "BytesToAddress", common.BytesToAddress(b, loc), b, loc)
					checkAddr(fail, "Bytes20ToAddress", common.Bytes20ToAddress(b20, loc), b, loc)
					checkAddr(fail, "HexToAddress", common.HexToAddress(fmt.Sprintf("0x%x", b), loc), b, loc)
					var a common.Address
					if err := a.ProtoDecode(&common.ProtoAddress{Value: b}, loc); err != nil {
						fail("C16/decode-error/proto", err.Error())
					} else {
						checkAddr(fail, "ProtoDecode", a, b, loc)
					}
					n++
				}
			}
		}
		_, isZone := zonePrefix(loc)
		stats.Case(part, fmt.Sprint([]byte(loc)), isZone, fmt.Sprintf("zone_node=%v", isZone))
	}
	stats.Exhaustive(part)
	stats.Note(fmt.Sprintf("firstbytes: %d (location, first byte, ledger byte, tail) combinations per shard, 260 locations x 256 x 4 x 2 in total", n))
}
