package c16

import (
	"encoding/json"
	"fmt"
	"testing"

	"github.com/dominant-strategies/go-quai/common"
	"github.com/dominant-strategies/go-quai/rlp"

	"verifharness/stats"
)

// TestC16_Regress_KnownFindings replays, once per run and without rapid, the minimal inputs of
// the findings this check has produced. Each goes through stats.Violation with the finding's
// fingerprint: listed as known it is counted (KNOWN-FINDING line), otherwise it fails the run.
func TestC16_Regress_KnownFindings(t *testing.T) {
	const part = "regress"
	// C16/decoder-ignores-node-location: at a zone 0-1 node the address 0x01.. is in-zone and
	// 0x00.. is foreign for every constructor that is told the node location; the decoders
	// without a location parameter answer the opposite (they assume zone 0-0), and
	// MixedcaseAddress.UnmarshalJSON (empty location) calls everything external.
	loc := common.Location{0, 1}
	inZone := make([]byte, 20)
	inZone[0], inZone[19] = 0x01, 0x42
	foreign := make([]byte, 20)
	foreign[19] = 0x42
	for _, c := range []struct {
		name string
		b    []byte
	}{{"in-zone", inZone}, {"zone-0-0", foreign}} {
		want := wantInternal(c.b, loc)
		ref := common.BytesToAddress(c.b, loc)
		if _, err := ref.InternalAddress(); (err == nil) != want {
			stats.Violation(t, part, "C16/internal-external/BytesToAddress", fmt.Sprintf("BytesToAddress(%x, %v) internal=%v", c.b, []byte(loc), err == nil), nil)
		}
		js, _ := json.Marshal(fmt.Sprintf("0x%x", c.b))
		enc, _ := rlp.EncodeToBytes(c.b)
		var viaJSON, viaText, viaRLP common.Address
		var mixed common.MixedcaseAddress
		if err := json.Unmarshal(js, &viaJSON); err != nil {
			t.Fatalf("HARNESS: %v", err)
		}
		if err := viaText.UnmarshalText([]byte(fmt.Sprintf("0x%x", c.b))); err != nil {
			t.Fatalf("HARNESS: %v", err)
		}
		if err := rlp.DecodeBytes(enc, &viaRLP); err != nil {
			t.Fatalf("HARNESS: %v", err)
		}
		if err := json.Unmarshal(js, &mixed); err != nil {
			t.Fatalf("HARNESS: %v", err)
		}
		for _, d := range []struct {
			path string
			a    common.Address
		}{{"UnmarshalJSON", viaJSON}, {"UnmarshalText", viaText}, {"DecodeRLP", viaRLP}, {"MixedcaseAddress.UnmarshalJSON", mixed.Address()}} {
			if _, err := d.a.InternalAddress(); (err == nil) != want {
				stats.Violation(t, part, fpDecoder, fmt.Sprintf("%s of the %s address %x at a zone-0-1 node: internal=%v, the node location says internal=%v", d.path, c.name, c.b, err == nil, want),
					map[string]any{"location": "[0 1]", "bytes": fmt.Sprintf("%x", c.b), "path": d.path})
			}
		}
		stats.Case(part, "decoder-ignores-node-location/"+c.name, true, "decoder_without_location")
	}
	// fixed: C16/internal-external/*(non-20-byte input): a 21-byte wire field whose first byte is
	// the node's prefix and whose last 20 bytes are a foreign address (and the converse) is
	// classified by the 20 bytes the address holds.
	{
		loc := common.Location{0, 0}
		foreignQi := make([]byte, 20)
		foreignQi[0], foreignQi[1], foreignQi[19] = 0x01, 0x80, 0x77
		own := make([]byte, 20)
		own[19] = 0x42
		for _, c := range []struct {
			name string
			raw  []byte
			b    []byte
		}{{"own-prefix+foreign", append([]byte{0x00}, foreignQi...), foreignQi}, {"foreign-prefix+own", append([]byte{0x11}, own...), own}, {"short", []byte{0x01, 0x02}, append(make([]byte, 18), 0x01, 0x02)}} {
			var viaProto common.Address
			if err := viaProto.ProtoDecode(&common.ProtoAddress{Value: c.raw}, loc); err != nil {
				t.Fatalf("HARNESS: %v", err)
			}
			for _, d := range []struct {
				path string
				a    common.Address
			}{{"BytesToAddress", common.BytesToAddress(c.raw, loc)}, {"ProtoDecode", viaProto}, {"HexToAddress", common.HexToAddress(fmt.Sprintf("0x%x", c.raw), loc)}} {
				checkAddr(func(f, msg string) {
					stats.Violation(t, part, f+"/len=regress", msg, map[string]any{"location": "[0 0]", "input": fmt.Sprintf("%x", c.raw)})
				}, d.path+"(non-20-byte input)", d.a, c.b, loc)
			}
			stats.Case(part, "non-20-byte-input/"+c.name, true, "fixed_regression")
		}
	}
}
