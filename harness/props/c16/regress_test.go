package c16

import (
	"encoding/json"
	"fmt"
	"testing"

	"github.com/dominant-strategies/go-quai/common"
	"github.com/dominant-strategies/go-quai/rlp"

	"verifharness/stats"
)

// TestC16_Regress_KnownFindings replays, once per run and without rapid, the minimal inputs of
// the findings this check has produced. Each goes through stats.Violation with the finding's
// fingerprint: listed as known it is counted (KNOWN-FINDING line), otherwise it fails the run.
func TestC16_Regress_KnownFindings(t *testing.T) {
	const part = "regress"
	// C16/decoder-ignores-node-location: at a zone 0-1 node the address 0x01.. is in-zone and
	// 0x00.. is foreign for every constructor that is told the node location; the decoders
	// without a location parameter answer the opposite (they assume zone 0-0), and
	// MixedcaseAddress.UnmarshalJSON (empty location) calls everything external.
	loc := common.Location{0, 1}
	inZone := make([]byte, 20)
	inZone[0], inZone[19] = 0x01, 0x42
	foreign := make([]byte, 20)
	foreign[19] = 0x42
	for _, c := range []struct {
		name string
		b    []byte
	}{{"in-zone", inZone}, {"zone-0-0", foreign}} {
		want := wantInternal(c.b, loc)
		ref := common.BytesToAddress(c.b, loc)
		if _, err := ref.InternalAddress(); (err == nil) != want {
			stats.Violation(t, part, "C16/internal-external/BytesToAddress", fmt.Sprintf("BytesToAddress(%x, %v) internal=%v", c.b, []byte(loc), err == nil), nil)
		}
		js, _ := json.Marshal(fmt.Sprintf("0x%x", c.b))
		enc, _ := rlp.EncodeToBytes(c.b)
		var viaJSON, viaText, viaRLP common.Address
		var mixed common.MixedcaseAddress
		if err := json.Unmarshal(js, &viaJSON); err != nil {
			t.Fatalf("HARNESS: %v", err)
		}
		if err := viaText.UnmarshalText([]byte(fmt.Sprintf("0x%x", c.b))); err != nil {
			t.Fatalf("HARNESS: %v", err)
		}
		if err := rlp.DecodeBytes(enc, &viaRLP); err != nil {
			t.Fatalf("HARNESS: %v", err)
		}
		if err := json.Unmarshal(js, &mixed); err != nil {
			t.Fatalf("HARNESS: %v", err)
		}
		for _, d := range []struct {
			path string
			a    common.Address
		}{{"UnmarshalJSON", viaJSON}, {"UnmarshalText", viaText}, {"DecodeRLP", viaRLP}, {"MixedcaseAddress.UnmarshalJSON", mixed.Address()}} {
			if _, err := d.a.InternalAddress(); (err == nil) != want {
				stats.Violation(t, part, fpDecoder, fmt.Sprintf("%s of the %s address %x at a zone-0-1 node: internal=%v, the node location says internal=%v", d.path, c.name, c.b, err == nil, want),
					map[string]any{"location": "[0 1]", "bytes": fmt.Sprintf("%x", c.b), "path": d.path})
			}
		}
		stats.Case(part, "decoder-ignores-node-location/"+c.name, true, "decoder_without_location")
	}
}
