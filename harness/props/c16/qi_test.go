package c16

// UTXO side of C16: core.ProcessQiTx never creates an unspent output for a Quai-ledger or
// foreign-zone address; a transaction naming such an output is refused, or the output leaves
// as an external transaction (cross-zone Qi payment, Qi->Quai conversion, wrapping).

import (
	"bytes"
	"fmt"
	"math/big"
	"sort"
	"strings"
	"testing"

	"github.com/dominant-strategies/go-quai/common"
	"github.com/dominant-strategies/go-quai/core"
	"github.com/dominant-strategies/go-quai/core/rawdb"
	"github.com/dominant-strategies/go-quai/core/types"
	"github.com/dominant-strategies/go-quai/log"
	"github.com/dominant-strategies/go-quai/params"
	"google.golang.org/protobuf/proto"
	"pgregory.net/rapid"

	"verifharness/qigen"
	"verifharness/stats"
)

// writeLog records what a batch would write.
type writeLog struct {
	puts map[string][]byte
	dels map[string]bool
}

func (w *writeLog) Put(k, v []byte) error {
	w.puts[string(k)] = common.CopyBytes(v)
	delete(w.dels, string(k))
	return nil
}
func (w *writeLog) Delete(k []byte) error {
	delete(w.puts, string(k))
	w.dels[string(k)] = true
	return nil
}
func (w *writeLog) Logger() *log.Logger { return logger }

// norm20 is how every reader of a stored output address interprets it
// (common.BytesToAddress: left-pad / keep the last 20 bytes).
func norm20(a []byte) []byte {
	out := make([]byte, 20)
	if len(a) > 20 {
		a = a[len(a)-20:]
	}
	copy(out[20-len(a):], a)
	return out
}

func addrClass(a []byte, loc common.Location) string {
	n := norm20(a)
	z, l := "foreign", "quai"
	if wantInternal(n, loc) {
		z = "inzone"
	}
	if wantQi(n) {
		l = "qi"
	}
	c := z + "-" + l
	if len(a) != 20 {
		c += fmt.Sprintf("-len%d", len(a))
	}
	return c
}

var qiLocs = []common.Location{{0, 0}, {0, 0}, {0, 1}, {1, 0}, {2, 2}}

func propQi(t *rapid.T) {
	const part = "qi"
	loc := rapid.SampledFrom(qiLocs).Draw(t, "loc")
	env := qigen.GenEnv(t, loc)
	uni := qigen.GenUniverse(t, env)
	db := rawdb.NewDatabase(rawdb.NewMemoryDatabase(logger))
	for _, it := range uni.Items() {
		if err := rawdb.CreateUTXO(db, it.OutPoint.TxHash, it.OutPoint.Index, it.Entry.ToUtxoEntry()); err != nil {
			t.Fatalf("HARNESS: seed utxo: %v", err)
		}
	}
	lb, _ := zonePrefix(loc)
	var hist []string
	fail := func(fp, msg string) {
		stats.Violation(t, part, fp, msg, map[string]any{"location": fmt.Sprint([]byte(loc)), "env": env.String(), "transactions": hist})
	}
	labels := map[string]bool{}
	var accepted, oneOffAccepted, oneOffSeen int
	nTx := rapid.IntRange(1, 3).Draw(t, "nTx")
	for txIdx := 0; txIdx < nTx; txIdx++ {
		fs := &qigen.BlockFeeState{Ordered: true}
		tc := qigen.GenTx(t, env, uni, 0, fs, rapid.SampledFrom([]int{0, 0, 30}).Draw(t, "mutationPct"))
		tx, checkSig := tc.Tx, tc.CheckSig
		mut := "none"
		if outs := tx.TxOut(); len(outs) > 0 && rapid.IntRange(0, 2).Draw(t, "retarget") != 0 {
			// retarget one output to an address of a drawn class (the signature no longer covers
			// it, so the signature check is switched off: output scoping is what is under test)
			j := rapid.IntRange(0, len(outs)-1).Draw(t, "outIdx")
			mut = rapid.SampledFrom([]string{"inzone-quai", "inzone-quai", "foreign-quai", "foreign-quai", "foreign-qi", "inzone-qi", "zero", "zone-zero", "len19", "len21", "len0"}).Draw(t, "outClass")
			n := uint32(7000 + 10*txIdx + j)
			fz := rapid.SampledFrom(qigen.DestZones).Draw(t, "foreignZone")
			if fz == lb {
				fz = lb ^ 0x10
			}
			var a []byte
			switch mut {
			case "inzone-quai":
				a = qigen.RawAddress(lb, false, n)
			case "foreign-quai":
				a = qigen.RawAddress(fz, false, n)
			case "foreign-qi":
				a = qigen.RawAddress(fz, true, n)
			case "inzone-qi":
				a = qigen.RawAddress(lb, true, n)
			case "zero":
				a = make([]byte, 20)
			case "zone-zero":
				a = make([]byte, 20)
				a[0] = lb
			case "len19": // pads to 0x00 || a: zone 0-0, ledger = top bit of a[0]
				a = qigen.RawAddress(rapid.SampledFrom([]byte{0x80, 0x00, lb}).Draw(t, "b19"), true, n)[:19]
			case "len21": // keeps the last 20 bytes
				a = append([]byte{rapid.SampledFrom([]byte{lb, fz, 0xaa}).Draw(t, "b21")}, qigen.RawAddress(rapid.SampledFrom([]byte{lb, fz}).Draw(t, "b21z"), rapid.Bool().Draw(t, "b21qi"), n)...)
			default:
				a = []byte{}
			}
			newOuts := make(types.TxOuts, len(outs))
			for i, o := range outs {
				newOuts[i] = types.TxOut{Denomination: o.Denomination, Address: common.CopyBytes(o.Address), Lock: o.Lock}
			}
			newOuts[j].Address = a
			data := tx.Data()
			if mut == "inzone-quai" {
				switch rapid.IntRange(0, 3).Draw(t, "dataKind") {
				case 0: // wrapping: data = owner contract (20 bytes)
					data = qigen.RawAddress(rapid.SampledFrom([]byte{lb, lb, lb ^ 1}).Draw(t, "ownerZone"), rapid.IntRange(0, 3).Draw(t, "ownerQi") == 0, n+1)
				case 1: // conversion: 2 bytes slip + 20 bytes Qi refund address
					data = append([]byte{0, 100}, qigen.RawAddress(lb, rapid.IntRange(0, 3).Draw(t, "refundQuai") != 0, n+2)...)
				case 2:
					data = nil
				}
			}
			tx = types.NewTx(&types.QiTx{ChainID: tx.ChainId(), TxIn: tx.TxIn(), TxOut: newOuts, Signature: tx.GetSchnorrSignature(), Data: data})
			checkSig = false
		}
		labels["retarget_"+mut] = true

		batch := db.NewBatch()
		batch.SetPending(true)
		gp := new(types.GasPool).AddGas(env.GasLimit)
		var usedGas uint64
		rLimit, pLimit := env.EtxLimits()
		ucd := new(core.UtxosCreatedDeleted)
		first := rapid.Bool().Draw(t, "isFirstQiTx")
		var (
			etxs     []*types.ExternalTx
			err      error
			panicked any
		)
		func() {
			defer func() { panicked = recover() }()
			_, etxs, _, err, _ = core.ProcessQiTx(tx, env.Chain, checkSig, first, env.Header, batch, db, gp, &usedGas, env.Signer, loc, *env.ChainID,
				env.QiScalingFactor, &rLimit, &pLimit, ucd, big.NewInt(0), big.NewInt(0), false)
		}()
		var oc []string
		oneOff := false
		for _, o := range tx.TxOut() {
			c := addrClass(o.Address, loc)
			oc = append(oc, c)
			if c == "inzone-quai" || c == "foreign-qi" {
				oneOff = true
			}
		}
		if oneOff {
			oneOffSeen++
		}
		hist = append(hist, fmt.Sprintf("tx %d: %s | retarget=%s data=%x outs=%v -> err=%v panic=%v etxs=%d", txIdx, tc.Shape(), mut, tx.Data(), oc, err, panicked, len(etxs)))
		if panicked != nil {
			// not this property's subject (C15), but never silently skipped
			labels["panic"] = true
			t.Fatalf("HARNESS: ProcessQiTx panicked: %v", panicked)
		}
		if err != nil {
			labels["rejected"] = true
			continue
		}
		accepted++
		labels["accepted"] = true
		if oneOff {
			oneOffAccepted++
		}
		wl := &writeLog{puts: map[string][]byte{}, dels: map[string]bool{}}
		if err := batch.Replay(wl); err != nil {
			t.Fatalf("HARNESS: batch replay: %v", err)
		}
		outs := tx.TxOut()
		legacyWrap := env.Regime.PTN < params.QiWrappingChangeBlock && len(tx.Data()) == common.AddressLength
		createdAt := map[int]bool{}
		var keys []string
		for k := range wl.puts {
			keys = append(keys, k)
		}
		sort.Strings(keys)
		for _, k := range keys {
			if !bytes.HasPrefix([]byte(k), rawdb.UtxoPrefix) || len(k) != rawdb.UtxoKeyLength {
				continue
			}
			h, idx, kerr := rawdb.ReverseUtxoKey([]byte(k))
			if kerr != nil {
				t.Fatalf("HARNESS: utxo key %x: %v", k, kerr)
			}
			p := new(types.ProtoTxOut)
			if uerr := proto.Unmarshal(wl.puts[k], p); uerr != nil {
				t.Fatalf("HARNESS: utxo value at %x: %v", k, uerr)
			}
			owner := p.GetAddress()
			n := norm20(owner)
			cls := addrClass(owner, loc)
			if h != tx.Hash() || int(idx) >= len(outs) || !bytes.Equal(outs[idx].Address, owner) {
				fail("C16/utxo-not-an-output-of-the-tx", fmt.Sprintf("tx %d wrote an unspent output at %x:%d owned by %x which is not output %d of the transaction", txIdx, h, idx, owner, idx))
				continue
			}
			createdAt[int(idx)] = true
			switch {
			case !wantInternal(n, loc):
				fail("C16/utxo-for-foreign-zone-address", fmt.Sprintf("tx %d output %d: unspent output created in zone %v for %s address %x", txIdx, idx, []byte(loc), cls, owner))
			case !wantQi(n) && legacyWrap:
				labels["legacy_wrapping_utxo"] = true // rule before QiWrappingChangeBlock, kept for replaying history
			case !wantQi(n):
				fail("C16/utxo-for-quai-ledger-address", fmt.Sprintf("tx %d output %d: unspent output created for Quai-ledger address %x (data %x, prime terminus %d)", txIdx, idx, owner, tx.Data(), env.Regime.PTN))
			default:
				labels["utxo_created"] = true
				if len(owner) != 20 {
					labels["utxo_created_odd_len_address"] = true
				}
			}
		}
		etxAt := map[int]*types.ExternalTx{}
		for _, e := range etxs {
			if e.To == nil {
				fail("C16/etx-without-destination", fmt.Sprintf("tx %d emitted an external transaction without destination", txIdx))
				continue
			}
			to := e.To.Bytes()
			switch e.EtxType {
			case types.DefaultType:
				etxAt[int(e.ETXIndex)] = e
				if wantInternal(to, loc) || !wantQi(to) {
					fail("C16/qi-etx-to-wrong-scope", fmt.Sprintf("tx %d: cross-zone Qi payment emitted to %s address %x", txIdx, addrClass(to, loc), to))
				}
				labels["etx_crosszone"] = true
			default: // conversion / wrapping: handed to the Quai side of this very zone
				if !wantInternal(to, loc) || wantQi(to) {
					fail("C16/conversion-etx-to-wrong-scope", fmt.Sprintf("tx %d: conversion/wrapping (type %d) emitted to %s address %x", txIdx, e.EtxType, addrClass(to, loc), to))
				}
				labels["etx_conversion_or_wrap"] = true
			}
		}
		// every output is accounted for by exactly the route its address class allows
		for j, o := range outs {
			n := norm20(o.Address)
			cls := addrClass(o.Address, loc)
			switch {
			case wantInternal(n, loc) && wantQi(n): // stays here
			case wantInternal(n, loc): // in-zone Quai: only as conversion (22-byte data) or wrapping (20-byte data)
				if l := len(tx.Data()); l != common.AddressLength && l != params.MaxQiTxDataLength {
					fail("C16/accepted-inzone-quai-output-without-conversion", fmt.Sprintf("tx %d accepted with output %d to in-zone Quai address %x and %d bytes of data", txIdx, j, o.Address, l))
				}
			case wantQi(n): // foreign Qi: must have left as an external transaction
				if e := etxAt[j]; e == nil || !bytes.Equal(e.To.Bytes(), n) {
					fail("C16/foreign-qi-output-without-etx", fmt.Sprintf("tx %d accepted with output %d to foreign-zone Qi address %x but no external transaction carries it", txIdx, j, o.Address))
				}
			default:
				fail("C16/accepted-foreign-quai-output", fmt.Sprintf("tx %d accepted with output %d to foreign-zone Quai-ledger address %x", txIdx, j, o.Address))
			}
			if createdAt[j] && !(wantInternal(n, loc) && (wantQi(n) || legacyWrap)) {
				fail("C16/utxo-for-out-of-scope-address", fmt.Sprintf("tx %d output %d (%s) became an unspent output", txIdx, j, cls))
			}
		}
	}
	var ls []string
	for l := range labels {
		ls = append(ls, l)
	}
	if !loc.Equal(common.Location{0, 0}) {
		ls = append(ls, "node_not_zone00")
	}
	ls = append(ls, "regime_"+env.Regime.Name)
	if oneOffAccepted > 0 {
		ls = append(ls, "one_attribute_off_accepted")
	}
	sort.Strings(ls)
	nontrivial := oneOffSeen > 0 && accepted > 0
	stats.Case(part, strings.Join(ls, ","), nontrivial, ls...)
	if nontrivial && stats.WantSample(part) {
		stats.Sample(part, map[string]any{"location": fmt.Sprint([]byte(loc)), "env": env.String(), "transactions": hist})
	}
}

func TestC16_QiOutputs(t *testing.T) { rapid.Check(t, propQi) }
