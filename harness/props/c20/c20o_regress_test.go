package c20

import (
	"math/big"
	"testing"

	"github.com/dominant-strategies/go-quai/common"
	"github.com/dominant-strategies/go-quai/core/types"
	"github.com/dominant-strategies/go-quai/core/vm"
	"github.com/dominant-strategies/go-quai/params"

	"verifharness/evmgen"
	"verifharness/stats"
)

const c20oRegressPart = "origin-debit-regress"

// c20oHand builds a deterministic case: EOA4 calls contract0 (code0, balance bal0); contract1 has
// code1 (may be nil).
func c20oHand(ptn uint64, bal0 *big.Int, code0, code1 func(a *evmgen.Asm)) *evmgen.Case {
	u := evmgen.U()
	asm := func(f func(a *evmgen.Asm)) *evmgen.Program {
		a := evmgen.NewAsm()
		f(a)
		p := a.Assemble()
		return &p
	}
	env := &evmgen.Env{BlockNumber: 120000, PrimeTerminusNumber: ptn, BaseFee: big.NewInt(7), GasLimit: 12_000_000, Time: 1_700_000_000,
		QuaiStateSize: big.NewInt(1_000_000), Eligible: evmgen.EligibleMask(common.Location{0, 1}, common.Location{1, 0}), Coinbase: u.EOAs[0].Addr}
	pre := &evmgen.PreState{Accounts: []evmgen.AccountSpec{
		{Addr: u.Contracts[0], Balance: bal0, Nonce: 1, Code: asm(code0)},
		{Addr: u.EOAs[1].Addr, Balance: big.NewInt(12345)},
		{Addr: u.EOAs[4].Addr, Balance: new(big.Int).Exp(big.NewInt(10), big.NewInt(24), nil)},
	}}
	if code1 != nil {
		pre.Accounts = append(pre.Accounts, evmgen.AccountSpec{Addr: u.Contracts[1], Balance: big.NewInt(0), Nonce: 1, Code: asm(code1)})
	}
	to := u.Contracts[0]
	return &evmgen.Case{Env: env, Pre: pre, Mode: evmgen.ModeTracedBypass, CleanFrom: true,
		Tx: evmgen.TxSpec{Kind: "quai", From: 4, To: &to, ToClass: "contract", Gas: 900000, GasClass: "hand", Price: big.NewInt(7), PriceClass: "basefee",
			Value: new(big.Int), ALClass: "empty"}}
}

func c20oConvertOp(a *evmgen.Asm, dest common.Address, value *big.Int, limit uint64) {
	a.Push(limit).PushBig(value).PushAddr(dest).Push(0).Op(vm.CONVERT)
}

// nested(op): contract0 <op>s contract1 with all gas and ignores the result, then stops
func c20oNested(op vm.OpCode) func(a *evmgen.Asm) {
	u := evmgen.U()
	return func(a *evmgen.Asm) {
		a.Push(0).Push(0).Push(0).Push(0)
		if op == vm.CALL || op == vm.CALLCODE {
			a.Push(0)
		}
		a.PushAddr(u.Contracts[1]).Op(vm.GAS, op, vm.POP, vm.STOP)
	}
}

type c20oHandCase struct {
	name  string
	fps   []string
	label string
	mk    func() *evmgen.Case
}

func c20oHandCases() []c20oHandCase {
	u := evmgen.U()
	open := uint64(0)
	for _, r := range evmgen.Regimes {
		if evmgen.ConversionOpen(r) && evmgen.PostArithFork(r) {
			open = r
		}
	}
	pre := params.SelfDestructRefundForkBlock - 1
	e21 := new(big.Int).Exp(big.NewInt(10), big.NewInt(21), nil)
	val := new(big.Int).Mul(big.NewInt(3), new(big.Int).Exp(big.NewInt(10), big.NewInt(20), nil))
	convThen := func(tail ...vm.OpCode) func(a *evmgen.Asm) {
		return func(a *evmgen.Asm) {
			c20oConvertOp(a, u.InZoneQi[0], val, 21000)
			a.Op(vm.POP)
			if len(tail) == 0 {
				a.Op(vm.STOP)
				return
			}
			if tail[0] == vm.REVERT {
				a.Push(0).Push(0)
			}
			a.Op(tail...)
		}
	}
	untraced := func(c *evmgen.Case) *evmgen.Case { c.Mode = evmgen.ModeUntraced; return c }
	cases := []c20oHandCase{
		// ---- known findings ---------------------------------------------------------------------
		{"LegacyWrapConvert", []string{c20oFpWrap}, "conversions:1", func() *evmgen.Case {
			value := new(big.Int).Sub(c20oTwo256, big.NewInt(147000-5))
			return c20oHand(pre, big.NewInt(5000), func(a *evmgen.Asm) {
				c20oConvertOp(a, u.InZoneQi[0], value, 21000)
				a.Op(vm.POP, vm.STOP)
			}, nil)
		}},
		{"CreateCodeStoreOOGAfterConvert", []string{c20oFpCreateOOG}, "tx-failed", func() *evmgen.Case {
			// creation transaction whose init code converts part of its endowment and then returns
			// 20000 bytes of code it cannot pay for
			c := c20oHand(open, big.NewInt(0), func(a *evmgen.Asm) { a.Op(vm.STOP) }, nil)
			a := evmgen.NewAsm()
			c20oConvertOp(a, u.InZoneQi[0], val, 21000)
			a.Op(vm.POP)
			a.Push(20000).Push(0).Op(vm.RETURN)
			c.Tx.To, c.Tx.ToClass = nil, "create"
			c.Tx.Data, c.Tx.DataNote = a.Assemble().Code, "init: CONVERT then RETURN 20000 zero bytes"
			c.Tx.Value, c.Tx.Gas = new(big.Int).Mul(val, big.NewInt(2)), 600000
			if addr, ok := evmgen.PredictCreateAddress(u.EOAs[4].Addr, 0, c.Tx.Data, c.Env.BlockNumber); ok {
				c.Tx.AccessList = types.AccessList{{Address: addr}}
				c.Tx.ALClass = "created"
			}
			return c
		}},
		// ---- clean anchors ----------------------------------------------------------------------
		{"ConvertTopFrame", nil, "conversions:1", func() *evmgen.Case { return c20oHand(open, e21, convThen(), nil) }},
		{"ConvertTopFrameUntraced", nil, "conversions:1", func() *evmgen.Case { return untraced(c20oHand(open, e21, convThen(), nil)) }},
		{"ConvertThenRevertTop", nil, "tx-failed", func() *evmgen.Case { return c20oHand(open, e21, convThen(vm.REVERT), nil) }},
	}
	// a conversion inside an inner frame of every kind that then fails; the caller ignores the failure
	for _, op := range []vm.OpCode{vm.CALL, vm.DELEGATECALL, vm.CALLCODE} {
		op := op
		for _, tail := range [][]vm.OpCode{{vm.REVERT}, {vm.OpCode(0xfe)}, {vm.POP, vm.POP, vm.POP, vm.POP, vm.POP, vm.POP}} {
			tail := tail
			cases = append(cases, c20oHandCase{"RolledBack/" + op.String() + "/" + tail[0].String(), nil, "conversions:0", func() *evmgen.Case {
				c := c20oHand(open, e21, c20oNested(op), convThen(tail...))
				if op == vm.CALL {
					// the callee converts its own balance
					c.Pre.Accounts[len(c.Pre.Accounts)-1].Balance = e21
				}
				return c
			}})
			cases = append(cases, c20oHandCase{"RolledBackUntraced/" + op.String() + "/" + tail[0].String(), nil, "conversions:0", func() *evmgen.Case {
				c := untraced(c20oHand(open, e21, c20oNested(op), convThen(tail...)))
				if op == vm.CALL {
					c.Pre.Accounts[len(c.Pre.Accounts)-1].Balance = e21
				}
				return c
			}})
		}
		cases = append(cases, c20oHandCase{"Kept/" + op.String(), nil, "conversions:1", func() *evmgen.Case {
			c := c20oHand(open, e21, c20oNested(op), convThen())
			if op == vm.CALL {
				c.Pre.Accounts[len(c.Pre.Accounts)-1].Balance = e21
			}
			return c
		}})
	}
	return cases
}

// TestC20O_Regress replays (a) one minimal input per known finding of part O through the oracle
// with the exclusion off, (b) hand-written executions the oracle must accept: a conversion in the
// top frame, and a conversion inside a CALL / DELEGATECALL / CALLCODE frame that fails afterwards
// and is swallowed (no ETX exported, nothing debited) or succeeds (exported, debited once).
func TestC20O_Regress(t *testing.T) {
	if stats.Shard() != 0 {
		t.Skip("deterministic cases run on shard 0 only")
	}
	for _, hw := range c20oHandCases() {
		hw := hw
		t.Run(hw.name, func(t *testing.T) {
			c := hw.mk()
			o, err := c.Run()
			if err != nil {
				t.Fatalf("HARNESS: %v", err)
			}
			if o.Res.Err != nil {
				t.Fatalf("HARNESS: hand-written transaction rejected: %v", o.Res.Err)
			}
			rp := c20oCheck(t, c20oRegressPart, c, o, true)
			stats.Case(c20oRegressPart, hw.name, true, append(rp.labels, "hand:"+hw.name)...)
			found := false
			for _, l := range rp.labels {
				found = found || l == hw.label
			}
			if !found {
				t.Fatalf("HARNESS: hand-written case %s did not reach %q (labels %v)", hw.name, hw.label, rp.labels)
			}
			seen := map[string]bool{}
			for _, fp := range rp.fps {
				seen[fp] = true
			}
			for _, fp := range hw.fps {
				if !seen[fp] && stats.IsKnown(fp) {
					t.Fatalf("HARNESS: finding %s is listed as known but its minimal input no longer reproduces it (observed %v); if the defect was repaired set its status to \"fixed\"", fp, rp.fps)
				}
			}
		})
	}
}
