package c20

// Part O (origin side, EVM level): "a conversion removes the converted amount from the origin
// ledger exactly once". Generated contract programs in which Quai->Qi conversions (the CONVERT
// opcode, value CALLs to in-zone Qi addresses, a plain transaction to an in-zone Qi address) are
// the ONLY way value can leave the Quai ledger run through core.ApplyTransaction on a real
// StateDB - nested through CALL / DELEGATECALL / CALLCODE / STATICCALL / CREATE frames that fail
// and are swallowed by their callers. The oracle is a ledger identity read from the account trie,
// independent of which frames the EVM believes it rolled back:
//
//	sum(balances before) - sum(balances after) - gasUsed*price
//	    == sum over the conversion ETXs the receipt exports of (value + prepaid destination fee)
//
// so a conversion ETX that is exported without its debit (amount removed zero times, Qi minted for
// free), a debit whose ETX is lost (removed, no outcome), and a double debit all break it.

import (
	"fmt"
	"math/big"
	"strings"
	"testing"

	"github.com/dominant-strategies/go-quai/core/types"
	"github.com/dominant-strategies/go-quai/params"
	"pgregory.net/rapid"

	"verifharness/evmgen"
	"verifharness/stats"
)

const (
	c20oPart = "origin-debit"
	// same root cause as C02/C05's legacy-arithmetic findings, seen from the conversion ledger
	c20oFpWrap = "C20/O/conversion-exported-without-full-debit/opConvert-legacy-arith-before-SelfDestructRefundFork"
	// a creation transaction that fails with code-store out of gas keeps the state changes of its
	// init code (C02/C05/C12 finding): conversions debited by the init code are not exported
	c20oFpCreateOOG = "C20/O/debit-kept-conversion-dropped/create-codestore-oog-not-reverted"
)

var c20oTwo256 = new(big.Int).Lsh(big.NewInt(1), 256)

func c20oExclusions() *evmgen.Exclusions {
	x := &evmgen.Exclusions{LegacyWrapConvert: stats.IsKnown(c20oFpWrap)}
	x.OnExcluded = func(class string) {
		if class == "legacy-wrap-convert" {
			stats.Excluded(c20oFpWrap)
		}
	}
	return x
}

type c20oReport struct {
	labels     []string
	nontrivial bool
	sig        string
	fps        []string
}

func c20oDump(c *evmgen.Case, o *evmgen.Outcome, extra map[string]any) map[string]any {
	m := map[string]any{"case": c.Dump()}
	if o.Tracer != nil {
		m["trace"] = o.Tracer.Dump()
	}
	if o.Res != nil && o.Res.Receipt != nil {
		ex := []string{}
		for _, e := range o.Res.Receipt.OutboundEtxs {
			ex = append(ex, fmt.Sprintf("type=%d to=%s value=%v gas=%d index=%d", e.EtxType(), e.To().Hex(), e.Value(), e.Gas(), e.ETXIndex()))
		}
		m["result"] = map[string]any{"status": o.Res.Receipt.Status, "gas_used": o.Res.Receipt.GasUsed, "outbound_etxs": ex}
	}
	if o.Before != nil && o.After != nil {
		diff := map[string]string{}
		for a, v := range o.Before.ByAddr {
			if w := o.After.Get(a); w.Cmp(v) != 0 {
				diff[a.Hex()] = v.String() + " -> " + w.String()
			}
		}
		for a, w := range o.After.ByAddr {
			if _, ok := o.Before.ByAddr[a]; !ok {
				diff[a.Hex()] = "(absent) -> " + w.String()
			}
		}
		m["balance_changes"] = diff
		m["sum_before"], m["sum_after"] = o.Before.Sum.String(), o.After.Sum.String()
	}
	for k, v := range extra {
		m[k] = v
	}
	return m
}

// c20oCheck applies the ledger identity. reportKnown: listed findings go through stats.Violation
// (regression inputs) instead of being counted as excluded.
func c20oCheck(t stats.TB, part string, c *evmgen.Case, o *evmgen.Outcome, reportKnown bool) *c20oReport {
	rp := &c20oReport{}
	lab := func(l string) { rp.labels = append(rp.labels, l) }
	viol := func(fp, msg string, extra map[string]any) {
		rp.fps = append(rp.fps, fp)
		stats.Violation(t, part, fp, msg, c20oDump(c, o, extra))
	}
	regime := evmgen.RegimeName(c.Env.PrimeTerminusNumber)
	lab("regime:" + regime)
	lab("mode:" + c.Mode)
	if o.Broken != "" {
		fp := "C20/O/post-state-unhashable"
		if evmgen.BrokenBySuicideSize(o.Broken) {
			fp = evmgen.FpSuicideSize
		}
		viol(fp, "the post-state cannot be hashed: "+o.Broken, nil)
		return rp
	}
	if o.Res.Err != nil {
		lab("tx-rejected")
		rp.sig = "rejected"
		return rp // not includable in a block: every caller discards the state
	}
	rcpt := o.Res.Receipt
	failed := rcpt.Status != types.ReceiptStatusSuccessful
	price := c.Tx.Price
	usedFee := new(big.Int).Mul(new(big.Int).SetUint64(rcpt.GasUsed), price)
	removed := new(big.Int).Sub(o.Before.Sum, o.After.Sum)
	removed.Sub(removed, usedFee) // what left the Quai ledger besides the gas charge

	// the conversion ETXs the block would commit for this transaction
	sumValue, sumTotalMax := new(big.Int), new(big.Int)
	exact := new(big.Int)
	exactKnown := true
	byHash := map[string]*evmgen.OpRec{}
	if o.Tracer != nil {
		for _, r := range o.Tracer.Ops {
			for _, e := range r.NewEtxs {
				byHash[e.Hash().Hex()] = r
			}
		}
	}
	nConv, nOther := 0, 0
	topQi := c.Tx.Kind == "quai" && c.Tx.To != nil && c.Tx.To.IsInQiLedgerScope()
	for i, e := range rcpt.OutboundEtxs {
		if e.EtxType() != types.ConversionType {
			nOther++
			continue
		}
		nConv++
		sumValue.Add(sumValue, e.Value())
		maxFee := new(big.Int).Mul(price, new(big.Int).SetUint64(e.Gas()))
		sumTotalMax.Add(sumTotalMax, new(big.Int).Add(e.Value(), maxFee))
		if r := byHash[e.Hash().Hex()]; r != nil && r.Kind == "CONVERT" {
			// prepaid destination fee = price x the gas-limit operand
			limit := r.Operands[3].ToBig()
			exact.Add(exact, new(big.Int).Add(e.Value(), new(big.Int).Mul(price, limit)))
		} else if r != nil && r.Kind == "CALL-EXT" {
			exact.Add(exact, e.Value()) // the destination gas is paid out of the call's gas
		} else if topQi && i == 0 && len(byHash) == 0 {
			exact.Add(exact, e.Value()) // plain transaction to a Qi address
		} else {
			exactKnown = false
		}
	}
	if nOther > 0 {
		// cannot happen with the conversion-only grammar unless a raw call hits the lockup contract
		// with a well-formed input; other export kinds are C05's subject
		lab("other-export-kinds")
		rp.sig = "other-exports"
		return rp
	}
	if o.Tracer == nil {
		exactKnown = false
	}
	if failed {
		lab("tx-failed")
		if o.Tracer != nil && len(o.Tracer.Frames) > 0 {
			e := o.Tracer.Frames[0].Err
			if len(e) > 24 {
				e = e[:24]
			}
			lab("fail:" + e)
		}
	} else {
		lab("tx-ok")
	}
	lab(fmt.Sprintf("conversions:%s", c20oBucket(nConv)))

	// attempted conversions inside frames (labels and the non-trivial rule only)
	attempted, rolled, viaDelegate := 0, 0, 0
	if o.Tracer != nil {
		maxCode := uint64(params.GetMaxCodeSize(c.Env.BlockNumber))
		for _, r := range o.Tracer.Ops {
			if (r.Kind == "CONVERT" || r.Kind == "CALL-EXT") && len(r.NewEtxs) > 0 {
				attempted++
				if rb, _ := o.Tracer.RolledBack(r.Frame, maxCode, failed); rb {
					rolled++
				}
				if r.Frame < len(o.Tracer.Frames) {
					k := o.Tracer.Frames[r.Frame].Kind
					if k == "DELEGATECALL" {
						viaDelegate++
					}
					if k == "CREATE2" {
						k = "CREATE"
					}
					lab("emitted-in-" + k + "-frame")
				}
			}
		}
		if attempted > 0 {
			lab("conversion-emitted")
		}
		if rolled > 0 {
			lab("conversion-rolled-back")
		}
		if rolled > 0 && !failed {
			lab("conversion-rolled-back-in-successful-tx")
		}
	}
	rp.nontrivial = nConv > 0 || attempted > 0
	rp.sig = fmt.Sprintf("%s|failed=%v|conv=%s|attempted=%s|rolled=%s|deleg=%v", regime, failed, c20oBucket(nConv), c20oBucket(attempted), c20oBucket(rolled), viaDelegate > 0)

	extra := map[string]any{"removed_besides_gas": removed.String(), "sum_conversion_values": sumValue.String(), "sum_value_plus_max_fee": sumTotalMax.String(), "conversion_etxs": nConv}
	post := evmgen.PostArithFork(c.Env.PrimeTerminusNumber)

	if failed {
		if nConv != 0 {
			viol("C20/O/failed-tx-exports-conversion", fmt.Sprintf("failed transaction exports %d conversion ETXs", nConv), extra)
		}
		if removed.Sign() != 0 {
			fp := "C20/O/failed-tx-changed-ledger"
			msg := fmt.Sprintf("failed transaction: the ledger lost %v besides the gas charge and exports nothing", removed)
			if c.Tx.ToClass == "create" {
				// the one known way a failed transaction keeps state
				fp = c20oFpCreateOOG
				if stats.IsKnown(fp) && !reportKnown {
					stats.Excluded(fp)
					lab("excluded:create-oog")
					return rp
				}
			}
			viol(fp, msg, extra)
		}
		return rp
	}
	// lower bound (always computable): the exported conversions' values left the ledger
	if removed.Cmp(sumValue) < 0 {
		fp := "C20/O/conversion-exported-without-debit"
		msg := fmt.Sprintf("the receipt exports %d conversion ETXs worth %v its, but only %v left the Quai ledger besides the gas charge: the converted amount was not removed from the origin ledger (Qi is minted for Quai that still exists)", nConv, sumValue, removed)
		if !post && c20oWrapped(o, price) {
			fp = c20oFpWrap
			msg += " [a CONVERT with value+price*limit >= 2^256 before SelfDestructRefundForkBlock debits the sum mod 2^256]"
			if stats.IsKnown(fp) && !reportKnown {
				stats.Excluded(fp)
				return rp
			}
		}
		viol(fp, msg, extra)
		return rp
	}
	if exactKnown {
		if removed.Cmp(exact) != 0 {
			extra["expected_exact"] = exact.String()
			fp := "C20/O/debit-differs-from-value-plus-prepaid-fee"
			if removed.Cmp(exact) > 0 {
				fp = "C20/O/debit-without-conversion"
			}
			viol(fp, fmt.Sprintf("%v left the Quai ledger besides the gas charge; the %d exported conversions state value + prepaid fee = %v: an amount was removed without a conversion outcome, removed twice, or not removed in full", removed, nConv, exact), extra)
		}
		return rp
	}
	// untraced: the prepaid fee is price x gas limit; the exported ETX carries the limit in full
	// from SelfDestructRefundForkBlock on (before it, only its low 64 bits)
	if post && removed.Cmp(sumTotalMax) > 0 {
		viol("C20/O/debit-without-conversion", fmt.Sprintf("%v left the Quai ledger besides the gas charge, but the %d exported conversion ETXs account for at most %v (value + prepaid fee): an amount was removed without a conversion outcome or removed twice", removed, nConv, sumTotalMax), extra)
	}
	if !post && nConv == 0 && removed.Sign() != 0 {
		viol("C20/O/debit-without-conversion", fmt.Sprintf("%v left the Quai ledger besides the gas charge and no conversion is exported", removed), extra)
	}
	return rp
}

// c20oWrapped: some executed CONVERT had value + price*limit >= 2^256 (legacy arithmetic).
func c20oWrapped(o *evmgen.Outcome, price *big.Int) bool {
	if o.Tracer == nil {
		return false
	}
	for _, r := range o.Tracer.Ops {
		if r.Kind == "CONVERT" && len(r.Operands) >= 4 {
			tot := new(big.Int).Add(r.Operands[2].ToBig(), new(big.Int).Mul(price, r.Operands[3].ToBig()))
			if tot.Cmp(c20oTwo256) >= 0 {
				return true
			}
		}
	}
	return false
}

func c20oBucket(n int) string {
	switch {
	case n == 0:
		return "0"
	case n == 1:
		return "1"
	case n <= 4:
		return "2-4"
	}
	return "5+"
}

func TestC20O_OriginDebit(t *testing.T) {
	excl := c20oExclusions()
	rapid.Check(t, func(rt *rapid.T) {
		cfg := evmgen.ConvCfg()
		cfg.Excl = excl
		// block processing runs untraced; the traced-enforced mode has the same semantics and lets
		// the exact prepaid fee be read off the operands; bypass reaches deeper nesting
		mode := []string{evmgen.ModeTracedEnforced, evmgen.ModeUntraced, evmgen.ModeTracedBypass, evmgen.ModeTracedEnforced, evmgen.ModeTracedBypass}[rapid.IntRange(0, 4).Draw(rt, "c20omode")]
		c := evmgen.GenCase(rt, evmgen.CaseOpts{Cfg: cfg, AllowETX: false, ForceMode: mode, ContractPct: 85, NoSuicideTx: true, PreferRegime: evmgen.ConversionOpen})
		o, err := c.Run()
		if err != nil {
			rt.Fatalf("HARNESS: %v", err)
		}
		rp := c20oCheck(rt, c20oPart, c, o, false)
		stats.Case(c20oPart, rp.sig, rp.nontrivial, rp.labels...)
		if rp.nontrivial && stats.WantSample(c20oPart) {
			stats.Sample(c20oPart, map[string]any{"tx": c.Dump()["tx"], "env": c.Dump()["env"], "signature": rp.sig, "kinds": strings.Join(c.Kinds, " ")})
		}
	})
}

// ---- structured frames -------------------------------------------------------------------------

// TestC20O_Frames: a chain of contracts 0 -> 1 -> 2 -> 3 (evmgen.GenFrames), each running a
// generated body of run-time-funded CONVERTs, storage writes and nested CALL / DELEGATECALL /
// CALLCODE / STATICCALL / CREATE / CREATE2 frames whose result is ignored; the transaction calls
// contract 0. Compared with the grammar-driven test this one is dense in the situation the ledger
// identity is about: a conversion emitted inside a nested frame of some kind that is rolled back
// (or not) while the transaction as a whole succeeds.
func TestC20O_Frames(t *testing.T) {
	rapid.Check(t, func(rt *rapid.T) {
		c := evmgen.GenFrames(rt, evmgen.FramesOpts{Effects: []string{"convert", "sstore"}, PreferRegime: evmgen.ConversionOpen})
		o, err := c.Run()
		if err != nil {
			rt.Fatalf("HARNESS: %v", err)
		}
		if o.Res.Err != nil {
			rt.Fatalf("HARNESS: structured transaction rejected: %v", o.Res.Err)
		}
		rp := c20oCheck(rt, "origin-frames", c, o, false)
		stats.Case("origin-frames", rp.sig+"|"+strings.Join(c.Kinds, ","), rp.nontrivial, rp.labels...)
		if rp.nontrivial && stats.WantSample("origin-frames") {
			stats.Sample("origin-frames", map[string]any{"regime": evmgen.RegimeName(c.Env.PrimeTerminusNumber), "mode": c.Mode, "program": strings.Join(c.Kinds, " "), "signature": rp.sig})
		}
	})
}
