package c20

// Part O (origin side, EVM level): "a conversion removes the converted amount from the origin
// ledger exactly once". Generated contract programs in which Quai->Qi conversions (the CONVERT
// opcode, value CALLs to in-zone Qi addresses, a plain transaction to an in-zone Qi address) are
// the ONLY way value can leave the Quai ledger run through core.ApplyTransaction on a real
// StateDB - nested through CALL / DELEGATECALL / CALLCODE / STATICCALL / CREATE frames that fail
// and are swallowed by their callers. The oracle is a ledger identity read from the account trie,
// independent of which frames the EVM believes it rolled back:
//
//	sum(balances before) - sum(balances after) - gasUsed*price
//	    == sum over the conversion ETXs the receipt exports of (value + prepaid destination fee)
//
// so a conversion ETX that is exported without its debit (amount removed zero times, Qi minted for
// free), a debit whose ETX is lost (removed, no outcome), and a double debit all break it.

import (
	"fmt"
	"math/big"
	"strings"
	"testing"

	"github.com/dominant-strategies/go-quai/common"
	"github.com/dominant-strategies/go-quai/core/types"
	"github.com/dominant-strategies/go-quai/core/vm"
	"github.com/dominant-strategies/go-quai/params"
	"pgregory.net/rapid"

	"verifharness/evmgen"
	"verifharness/stats"
)

const (
	c20oPart = "origin-debit"
	// same root cause as C02/C05's legacy-arithmetic findings, seen from the conversion ledger
	c20oFpWrap = "C20/O/conversion-exported-without-full-debit/opConvert-legacy-arith-before-SelfDestructRefundFork"
	// a creation transaction that fails with code-store out of gas keeps the state changes of its
	// init code (C02/C05/C12 finding): conversions debited by the init code are not exported
	c20oFpCreateOOG = "C20/O/debit-kept-conversion-dropped/create-codestore-oog-not-reverted"
)

var c20oTwo256 = new(big.Int).Lsh(big.NewInt(1), 256)

func c20oExclusions() *evmgen.Exclusions {
	x := &evmgen.Exclusions{LegacyWrapConvert: stats.IsKnown(c20oFpWrap)}
	x.OnExcluded = func(class string) {
		if class == "legacy-wrap-convert" {
			stats.Excluded(c20oFpWrap)
		}
	}
	return x
}

type c20oReport struct {
	labels     []string
	nontrivial bool
	sig        string
	fps        []string
}

func c20oDump(c *evmgen.Case, o *evmgen.Outcome, extra map[string]any) map[string]any {
	m := map[string]any{"case": c.Dump()}
	if o.Tracer != nil {
		m["trace"] = o.Tracer.Dump()
	}
	if o.Res != nil && o.Res.Receipt != nil {
		ex := []string{}
		for _, e := range o.Res.Receipt.OutboundEtxs {
			ex = append(ex, fmt.Sprintf("type=%d to=%s value=%v gas=%d index=%d", e.EtxType(), e.To().Hex(), e.Value(), e.Gas(), e.ETXIndex()))
		}
		m["result"] = map[string]any{"status": o.Res.Receipt.Status, "gas_used": o.Res.Receipt.GasUsed, "outbound_etxs": ex}
	}
	if o.Before != nil && o.After != nil {
		diff := map[string]string{}
		for a, v := range o.Before.ByAddr {
			if w := o.After.Get(a); w.Cmp(v) != 0 {
				diff[a.Hex()] = v.String() + " -> " + w.String()
			}
		}
		for a, w := range o.After.ByAddr {
			if _, ok := o.Before.ByAddr[a]; !ok {
				diff[a.Hex()] = "(absent) -> " + w.String()
			}
		}
		m["balance_changes"] = diff
		m["sum_before"], m["sum_after"] = o.Before.Sum.String(), o.After.Sum.String()
	}
	for k, v := range extra {
		m[k] = v
	}
	return m
}

// c20oCheck applies the ledger identity. reportKnown: listed findings go through stats.Violation
// (regression inputs) instead of being counted as excluded.
func c20oCheck(t stats.TB, part string, c *evmgen.Case, o *evmgen.Outcome, reportKnown bool) *c20oReport {
	rp := &c20oReport{}
	lab := func(l string) { rp.labels = append(rp.labels, l) }
	viol := func(fp, msg string, extra map[string]any) {
		rp.fps = append(rp.fps, fp)
		stats.Violation(t, part, fp, msg, c20oDump(c, o, extra))
	}
	regime := evmgen.RegimeName(c.Env.PrimeTerminusNumber)
	lab("regime:" + regime)
	lab("mode:" + c.Mode)
	if o.Broken != "" {
		viol("C20/O/post-state-unhashable", "the post-state cannot be hashed: "+o.Broken, nil)
		return rp
	}
	if o.Res.Err != nil {
		lab("tx-rejected")
		rp.sig = "rejected"
		return rp // not includable in a block: every caller discards the state
	}
	rcpt := o.Res.Receipt
	failed := rcpt.Status != types.ReceiptStatusSuccessful
	price := c.Tx.Price
	usedFee := new(big.Int).Mul(new(big.Int).SetUint64(rcpt.GasUsed), price)
	removed := new(big.Int).Sub(o.Before.Sum, o.After.Sum)
	removed.Sub(removed, usedFee) // what left the Quai ledger besides the gas charge

	// the conversion ETXs the block would commit for this transaction
	sumValue, sumTotalMax := new(big.Int), new(big.Int)
	exact := new(big.Int)
	exactKnown := true
	byHash := map[string]*evmgen.OpRec{}
	if o.Tracer != nil {
		for _, r := range o.Tracer.Ops {
			for _, e := range r.NewEtxs {
				byHash[e.Hash().Hex()] = r
			}
		}
	}
	nConv, nOther := 0, 0
	topQi := c.Tx.Kind == "quai" && c.Tx.To != nil && c.Tx.To.IsInQiLedgerScope()
	for i, e := range rcpt.OutboundEtxs {
		if e.EtxType() != types.ConversionType {
			nOther++
			continue
		}
		nConv++
		sumValue.Add(sumValue, e.Value())
		maxFee := new(big.Int).Mul(price, new(big.Int).SetUint64(e.Gas()))
		sumTotalMax.Add(sumTotalMax, new(big.Int).Add(e.Value(), maxFee))
		if r := byHash[e.Hash().Hex()]; r != nil && r.Kind == "CONVERT" {
			// prepaid destination fee = price x the gas-limit operand
			limit := r.Operands[3].ToBig()
			exact.Add(exact, new(big.Int).Add(e.Value(), new(big.Int).Mul(price, limit)))
		} else if r != nil && r.Kind == "CALL-EXT" {
			exact.Add(exact, e.Value()) // the destination gas is paid out of the call's gas
		} else if topQi && i == 0 && len(byHash) == 0 {
			exact.Add(exact, e.Value()) // plain transaction to a Qi address
		} else {
			exactKnown = false
		}
	}
	if nOther > 0 {
		// cannot happen with the conversion-only grammar unless a raw call hits the lockup contract
		// with a well-formed input; other export kinds are C05's subject
		lab("other-export-kinds")
		rp.sig = "other-exports"
		return rp
	}
	if o.Tracer == nil {
		exactKnown = false
	}
	if failed {
		lab("tx-failed")
		if o.Tracer != nil && len(o.Tracer.Frames) > 0 {
			e := o.Tracer.Frames[0].Err
			if len(e) > 24 {
				e = e[:24]
			}
			lab("fail:" + e)
		}
	} else {
		lab("tx-ok")
	}
	lab(fmt.Sprintf("conversions:%s", c20oBucket(nConv)))

	// attempted conversions inside frames (labels and the non-trivial rule only)
	attempted, rolled, viaDelegate := 0, 0, 0
	if o.Tracer != nil {
		maxCode := uint64(params.GetMaxCodeSize(c.Env.BlockNumber))
		for _, r := range o.Tracer.Ops {
			if (r.Kind == "CONVERT" || r.Kind == "CALL-EXT") && len(r.NewEtxs) > 0 {
				attempted++
				if rb, _ := o.Tracer.RolledBack(r.Frame, maxCode, failed); rb {
					rolled++
				}
				if r.Frame < len(o.Tracer.Frames) {
					k := o.Tracer.Frames[r.Frame].Kind
					if k == "DELEGATECALL" {
						viaDelegate++
					}
					if k == "CREATE2" {
						k = "CREATE"
					}
					lab("emitted-in-" + k + "-frame")
				}
			}
		}
		if attempted > 0 {
			lab("conversion-emitted")
		}
		if rolled > 0 {
			lab("conversion-rolled-back")
		}
		if rolled > 0 && !failed {
			lab("conversion-rolled-back-in-successful-tx")
		}
	}
	rp.nontrivial = nConv > 0 || attempted > 0
	rp.sig = fmt.Sprintf("%s|failed=%v|conv=%s|attempted=%s|rolled=%s|deleg=%v", regime, failed, c20oBucket(nConv), c20oBucket(attempted), c20oBucket(rolled), viaDelegate > 0)

	extra := map[string]any{"removed_besides_gas": removed.String(), "sum_conversion_values": sumValue.String(), "sum_value_plus_max_fee": sumTotalMax.String(), "conversion_etxs": nConv}
	post := evmgen.PostArithFork(c.Env.PrimeTerminusNumber)

	if failed {
		if nConv != 0 {
			viol("C20/O/failed-tx-exports-conversion", fmt.Sprintf("failed transaction exports %d conversion ETXs", nConv), extra)
		}
		if removed.Sign() != 0 {
			fp := "C20/O/failed-tx-changed-ledger"
			msg := fmt.Sprintf("failed transaction: the ledger lost %v besides the gas charge and exports nothing", removed)
			if c.Tx.ToClass == "create" {
				// the one known way a failed transaction keeps state
				fp = c20oFpCreateOOG
				if stats.IsKnown(fp) && !reportKnown {
					stats.Excluded(fp)
					lab("excluded:create-oog")
					return rp
				}
			}
			viol(fp, msg, extra)
		}
		return rp
	}
	// lower bound (always computable): the exported conversions' values left the ledger
	if removed.Cmp(sumValue) < 0 {
		fp := "C20/O/conversion-exported-without-debit"
		msg := fmt.Sprintf("the receipt exports %d conversion ETXs worth %v its, but only %v left the Quai ledger besides the gas charge: the converted amount was not removed from the origin ledger (Qi is minted for Quai that still exists)", nConv, sumValue, removed)
		if !post && c20oWrapped(o, price) {
			fp = c20oFpWrap
			msg += " [a CONVERT with value+price*limit >= 2^256 before SelfDestructRefundForkBlock debits the sum mod 2^256]"
			if stats.IsKnown(fp) && !reportKnown {
				stats.Excluded(fp)
				return rp
			}
		}
		viol(fp, msg, extra)
		return rp
	}
	if exactKnown {
		if removed.Cmp(exact) != 0 {
			extra["expected_exact"] = exact.String()
			fp := "C20/O/debit-differs-from-value-plus-prepaid-fee"
			if removed.Cmp(exact) > 0 {
				fp = "C20/O/debit-without-conversion"
			}
			viol(fp, fmt.Sprintf("%v left the Quai ledger besides the gas charge; the %d exported conversions state value + prepaid fee = %v: an amount was removed without a conversion outcome, removed twice, or not removed in full", removed, nConv, exact), extra)
		}
		return rp
	}
	// untraced: the prepaid fee is price x gas limit; the exported ETX carries the limit in full
	// from SelfDestructRefundForkBlock on (before it, only its low 64 bits)
	if post && removed.Cmp(sumTotalMax) > 0 {
		viol("C20/O/debit-without-conversion", fmt.Sprintf("%v left the Quai ledger besides the gas charge, but the %d exported conversion ETXs account for at most %v (value + prepaid fee): an amount was removed without a conversion outcome or removed twice", removed, nConv, sumTotalMax), extra)
	}
	if !post && nConv == 0 && removed.Sign() != 0 {
		viol("C20/O/debit-without-conversion", fmt.Sprintf("%v left the Quai ledger besides the gas charge and no conversion is exported", removed), extra)
	}
	return rp
}

// c20oWrapped: some executed CONVERT had value + price*limit >= 2^256 (legacy arithmetic).
func c20oWrapped(o *evmgen.Outcome, price *big.Int) bool {
	if o.Tracer == nil {
		return false
	}
	for _, r := range o.Tracer.Ops {
		if r.Kind == "CONVERT" && len(r.Operands) >= 4 {
			tot := new(big.Int).Add(r.Operands[2].ToBig(), new(big.Int).Mul(price, r.Operands[3].ToBig()))
			if tot.Cmp(c20oTwo256) >= 0 {
				return true
			}
		}
	}
	return false
}

func c20oBucket(n int) string {
	switch {
	case n == 0:
		return "0"
	case n == 1:
		return "1"
	case n <= 4:
		return "2-4"
	}
	return "5+"
}

func TestC20O_OriginDebit(t *testing.T) {
	excl := c20oExclusions()
	rapid.Check(t, func(rt *rapid.T) {
		cfg := evmgen.ConvCfg()
		cfg.Excl = excl
		// block processing runs untraced; the traced-enforced mode has the same semantics and lets
		// the exact prepaid fee be read off the operands; bypass reaches deeper nesting
		mode := []string{evmgen.ModeTracedEnforced, evmgen.ModeUntraced, evmgen.ModeTracedBypass, evmgen.ModeTracedEnforced, evmgen.ModeTracedBypass}[rapid.IntRange(0, 4).Draw(rt, "c20omode")]
		c := evmgen.GenCase(rt, evmgen.CaseOpts{Cfg: cfg, AllowETX: false, ForceMode: mode, ContractPct: 85, NoSuicideTx: true, PreferRegime: evmgen.ConversionOpen})
		o, err := c.Run()
		if err != nil {
			rt.Fatalf("HARNESS: %v", err)
		}
		rp := c20oCheck(rt, c20oPart, c, o, false)
		stats.Case(c20oPart, rp.sig, rp.nontrivial, rp.labels...)
		if rp.nontrivial && stats.WantSample(c20oPart) {
			stats.Sample(c20oPart, map[string]any{"tx": c.Dump()["tx"], "env": c.Dump()["env"], "signature": rp.sig, "kinds": strings.Join(c.Kinds, " ")})
		}
	})
}

// ---- structured frames -------------------------------------------------------------------------

// c20oBody writes 1-3 steps of a frame body into a: a fundable CONVERT of a run-time fraction of
// the executing account's balance, a nested frame (CALL / DELEGATECALL / CALLCODE / STATICCALL
// into the next contract of the chain, or a CREATE whose init code is again such a body), or a
// storage write; then ends the frame successfully or with one of the failure kinds. Every nested
// result is ignored by the caller (POP), so failures are swallowed.
func c20oBody(rt *rapid.T, a *evmgen.Asm, level, maxLevel int, failPct int, kinds *[]string, tag string) {
	u := evmgen.U()
	n := rapid.IntRange(1, 3).Draw(rt, tag+"steps")
	for i := 0; i < n; i++ {
		lbl := fmt.Sprintf("%s.%d", tag, i)
		choice := rapid.IntRange(0, 9).Draw(rt, lbl+"kind")
		switch {
		case choice < 4:
			k := uint64(rapid.IntRange(2, 9).Draw(rt, lbl+"k"))
			lim := []uint64{params.TxGas, params.TxGas, 100000, params.TxGas - 1}[rapid.IntRange(0, 3).Draw(rt, lbl+"lim")]
			dest := u.InZoneQi[rapid.IntRange(0, len(u.InZoneQi)-1).Draw(rt, lbl+"dest")]
			*kinds = append(*kinds, fmt.Sprintf("L%d:CONVERT", level))
			a.Push(lim).Push(k).Op(vm.ADDRESS, vm.BALANCE, vm.DIV).PushAddr(dest).Push(0).Op(vm.CONVERT, vm.POP)
		case choice < 8 && level < maxLevel:
			ops := []vm.OpCode{vm.CALL, vm.DELEGATECALL, vm.CALLCODE, vm.STATICCALL, vm.CREATE, vm.DELEGATECALL, vm.CALL}
			op := ops[rapid.IntRange(0, len(ops)-1).Draw(rt, lbl+"op")]
			*kinds = append(*kinds, fmt.Sprintf("L%d:%s", level, op))
			if op == vm.CREATE {
				init := evmgen.NewAsm()
				c20oBody(rt, init, level+1, maxLevel, failPct, kinds, lbl+"i")
				code := init.Assemble().Code
				a.DataToMem(a.Data(code, "init"), 0)
				// CREATE(value = balance/3, offset 0, size)
				a.Push(uint64(len(code))).Push(0).Push(3).Op(vm.ADDRESS, vm.BALANCE, vm.DIV, vm.CREATE, vm.POP)
				continue
			}
			a.Push(0).Push(0).Push(0).Push(0)
			if op == vm.CALL || op == vm.CALLCODE {
				if rapid.Bool().Draw(rt, lbl+"val") {
					a.Push(4).Op(vm.ADDRESS, vm.BALANCE, vm.DIV) // fund the callee
				} else {
					a.Push(0)
				}
			}
			a.PushAddr(u.Contracts[level+1])
			if rapid.IntRange(0, 4).Draw(rt, lbl+"gas") == 0 {
				a.Push(uint64(rapid.SampledFrom([]int{0, 2300, 30000, 60000}).Draw(rt, lbl+"gasv")))
			} else {
				a.Op(vm.GAS)
			}
			a.Op(op, vm.POP)
		default:
			*kinds = append(*kinds, fmt.Sprintf("L%d:SSTORE", level))
			a.Push(uint64(rapid.IntRange(1, 9).Draw(rt, lbl+"sv"))).Push(uint64(rapid.IntRange(0, 3).Draw(rt, lbl+"sk"))).Op(vm.SSTORE)
		}
	}
	if rapid.IntRange(0, 99).Draw(rt, tag+"fail") < failPct {
		switch rapid.IntRange(0, 4).Draw(rt, tag+"failkind") {
		case 0, 1:
			*kinds = append(*kinds, fmt.Sprintf("L%d:end=REVERT", level))
			a.Push(0).Push(0).Op(vm.REVERT)
		case 2:
			*kinds = append(*kinds, fmt.Sprintf("L%d:end=INVALID", level))
			a.Op(vm.OpCode(0xfe))
		case 3:
			*kinds = append(*kinds, fmt.Sprintf("L%d:end=UNDERFLOW", level))
			a.Op(vm.POP, vm.POP, vm.POP, vm.POP, vm.POP, vm.POP, vm.POP, vm.POP)
		default:
			*kinds = append(*kinds, fmt.Sprintf("L%d:end=OOG", level))
			a.Push(1 << 30).Op(vm.MLOAD)
		}
		return
	}
	*kinds = append(*kinds, fmt.Sprintf("L%d:end=STOP", level))
	a.Op(vm.STOP)
}

// TestC20O_Frames: a chain of contracts 0 -> 1 -> 2 -> 3, each running a generated body; the
// transaction calls contract 0. Compared with the grammar-driven test this one is dense in the
// situation the ledger identity is about: a conversion emitted inside a nested frame of some kind
// that is rolled back (or not) while the transaction as a whole succeeds.
func TestC20O_Frames(t *testing.T) {
	u := evmgen.U()
	rapid.Check(t, func(rt *rapid.T) {
		ptn := evmgen.Regimes[rapid.IntRange(0, len(evmgen.Regimes)-1).Draw(rt, "regime")]
		if rapid.IntRange(0, 3).Draw(rt, "open") > 0 {
			var ok []uint64
			for _, r := range evmgen.Regimes {
				if evmgen.ConversionOpen(r) {
					ok = append(ok, r)
				}
			}
			ptn = ok[rapid.IntRange(0, len(ok)-1).Draw(rt, "regime2")]
		}
		price := []*big.Int{big.NewInt(1), big.NewInt(7), big.NewInt(1_000_000_000)}[rapid.IntRange(0, 2).Draw(rt, "price")]
		env := &evmgen.Env{BlockNumber: []uint64{120000, params.MaxCodeSizeForkHeight + 10, 4000000}[rapid.IntRange(0, 2).Draw(rt, "bn")], PrimeTerminusNumber: ptn, BaseFee: new(big.Int).Set(price),
			GasLimit: 12_000_000, Time: 1_700_000_000, QuaiStateSize: big.NewInt(1_000_000), Eligible: evmgen.EligibleMask(common.Location{0, 1}), Coinbase: u.EOAs[0].Addr}
		maxLevel := rapid.IntRange(1, 3).Draw(rt, "depth")
		var kinds []string
		pre := &evmgen.PreState{}
		e21 := new(big.Int).Exp(big.NewInt(10), big.NewInt(21), nil)
		for lvl := 0; lvl <= maxLevel; lvl++ {
			a := evmgen.NewAsm()
			fail := 45
			if lvl == 0 {
				fail = 8
			}
			c20oBody(rt, a, lvl, maxLevel, fail, &kinds, fmt.Sprintf("c%d", lvl))
			p := a.Assemble()
			bal := []*big.Int{e21, e21, new(big.Int).Mul(e21, big.NewInt(1000)), big.NewInt(0), new(big.Int).Lsh(big.NewInt(1), 64)}[rapid.IntRange(0, 4).Draw(rt, fmt.Sprintf("bal%d", lvl))]
			pre.Accounts = append(pre.Accounts, evmgen.AccountSpec{Addr: u.Contracts[lvl], Balance: bal, Nonce: 1, Code: &p})
		}
		pre.Accounts = append(pre.Accounts, evmgen.AccountSpec{Addr: u.EOAs[4].Addr, Balance: new(big.Int).Exp(big.NewInt(10), big.NewInt(26), nil)})
		to := u.Contracts[0]
		mode := []string{evmgen.ModeTracedEnforced, evmgen.ModeUntraced, evmgen.ModeTracedBypass}[rapid.IntRange(0, 2).Draw(rt, "mode")]
		c := &evmgen.Case{Env: env, Pre: pre, Mode: mode, CleanFrom: true, Kinds: kinds,
			Tx: evmgen.TxSpec{Kind: "quai", From: 4, To: &to, ToClass: "contract", Gas: uint64(rapid.SampledFrom([]int{300000, 2000000, 4900000}).Draw(rt, "gas")), GasClass: "frames", Price: price, PriceClass: "basefee",
				Value: new(big.Int), ALClass: "complete"}}
		// access lists are enforced in block processing: name every contract of the chain with its slots
		keys := []common.Hash{common.BigToHash(big.NewInt(0)), common.BigToHash(big.NewInt(1)), common.BigToHash(big.NewInt(2)), common.BigToHash(big.NewInt(3))}
		for lvl := 0; lvl <= maxLevel; lvl++ {
			c.Tx.AccessList = append(c.Tx.AccessList, types.AccessTuple{Address: u.Contracts[lvl], StorageKeys: keys})
		}
		o, err := c.Run()
		if err != nil {
			rt.Fatalf("HARNESS: %v", err)
		}
		if o.Res.Err != nil {
			rt.Fatalf("HARNESS: structured transaction rejected: %v", o.Res.Err)
		}
		rp := c20oCheck(rt, "origin-frames", c, o, false)
		stats.Case("origin-frames", rp.sig+"|"+strings.Join(kinds, ","), rp.nontrivial, rp.labels...)
		if rp.nontrivial && stats.WantSample("origin-frames") {
			stats.Sample("origin-frames", map[string]any{"regime": evmgen.RegimeName(ptn), "mode": mode, "program": strings.Join(kinds, " "), "signature": rp.sig})
		}
	})
}
