package c20

import (
	"fmt"
	"math/big"
	"testing"

	"github.com/dominant-strategies/go-quai/common"
	"github.com/dominant-strategies/go-quai/consensus/misc"
	"github.com/dominant-strategies/go-quai/core/types"
	"github.com/dominant-strategies/go-quai/params"
	"pgregory.net/rapid"

	"verifharness/stats"
)

// ---- QiToQuai / QuaiToQi -----------------------------------------------------------------------

const c20fUnitsPart = "unit-conversion"

// TestC20F_UnitConversion: at a fixed header, rate and difficulty
//   - QiToQuai(QuaiToQi(x)) <= x and QuaiToQi(QiToQuai(y)) <= y ("converting back and forth never
//     yields more than was started with"),
//   - both directions are monotone in the amount, map 0 to 0 and never return a negative amount,
//   - both are the quotient of the same two per-block rewards (>= 1 each), so that the two
//     directions price with one rate,
//   - ComputeConversionAmountInQuai adds value for Quai->Qi conversions, QiToQuai(value) (header
//     rate, header miner difficulty) for Qi->Quai conversions, and nothing for anything else.
func TestC20F_UnitConversion(t *testing.T) {
	rapid.Check(t, func(t *rapid.T) {
		env := c20fGenEnv(t)
		x1, x2 := c20fGenAmount(t, "x1"), c20fGenAmount(t, "x2")
		if x1.Cmp(x2) > 0 {
			x1, x2 = x2, x1
		}
		// the helpers must price with the rate they are handed, whatever the header records
		headerRate := env.Rate
		if rapid.Bool().Draw(t, "headerRateDiffers") {
			env.HeaderRate = c20fMul(new(big.Int).Add(env.Rate, big.NewInt(3)), 7)
			headerRate = env.HeaderRate
		}
		h := env.header()
		dump := env.dump()
		dump["x1"], dump["x2"] = x1.String(), x2.String()
		fail := func(fp, msg string) { stats.Violation(t, c20fUnitsPart, fp+"/"+env.regime, msg, dump) }

		qr := misc.CalculateQuaiReward(h.WorkObjectHeader(), env.Difficulty, env.Rate)
		ir := misc.CalculateQiReward(h.WorkObjectHeader(), env.Difficulty)
		if qr.Sign() <= 0 || ir.Sign() <= 0 {
			fail("C20/F/reward-not-positive", fmt.Sprintf("quai reward %v, qi reward %v", qr, ir))
		}
		toQi := func(v *big.Int) *big.Int {
			in := new(big.Int).Set(v)
			out := misc.QuaiToQi(h, env.Rate, env.Difficulty, in)
			if in.Cmp(v) != 0 {
				fail("C20/F/argument-mutated", "QuaiToQi changed its amount argument")
			}
			return out
		}
		toQuai := func(v *big.Int) *big.Int {
			in := new(big.Int).Set(v)
			out := misc.QiToQuai(h, env.Rate, env.Difficulty, in)
			if in.Cmp(v) != 0 {
				fail("C20/F/argument-mutated", "QiToQuai changed its amount argument")
			}
			return out
		}
		labels := []string{"regime_" + env.regime}
		for _, x := range []*big.Int{x1, x2} {
			y := toQi(x)
			back := toQuai(y)
			if y.Sign() < 0 || back.Sign() < 0 {
				fail("C20/F/negative-amount", fmt.Sprintf("QuaiToQi(%v)=%v, back %v", x, y, back))
			}
			if back.Cmp(x) > 0 {
				fail("C20/F/roundtrip-gains/quai-qi-quai", fmt.Sprintf("QiToQuai(QuaiToQi(%v)=%v) = %v > %v", x, y, back, x))
			}
			q := toQuai(x)
			back2 := toQi(q)
			if q.Sign() < 0 || back2.Sign() < 0 {
				fail("C20/F/negative-amount", fmt.Sprintf("QiToQuai(%v)=%v, back %v", x, q, back2))
			}
			if back2.Cmp(x) > 0 {
				fail("C20/F/roundtrip-gains/qi-quai-qi", fmt.Sprintf("QuaiToQi(QiToQuai(%v)=%v) = %v > %v", x, q, back2, x))
			}
			// one rate for both directions: floor(ir*x/qr) and floor(qr*x/ir)
			if want := new(big.Int).Quo(new(big.Int).Mul(ir, x), qr); y.Cmp(want) != 0 {
				fail("C20/F/quai-to-qi-not-reward-ratio", fmt.Sprintf("QuaiToQi(%v)=%v, qiReward*x/quaiReward=%v", x, y, want))
			}
			if want := new(big.Int).Quo(new(big.Int).Mul(qr, x), ir); q.Cmp(want) != 0 {
				fail("C20/F/qi-to-quai-not-reward-ratio", fmt.Sprintf("QiToQuai(%v)=%v, quaiReward*x/qiReward=%v", x, q, want))
			}
			if y.Sign() == 0 && x.Sign() > 0 {
				labels = append(labels, "quai_amount_floors_to_zero_qi")
			}
			if q.Sign() == 0 && x.Sign() > 0 {
				labels = append(labels, "qi_amount_floors_to_zero_quai")
			}
			if back.Cmp(x) < 0 || back2.Cmp(x) < 0 {
				labels = append(labels, "roundtrip_loses")
			}
		}
		if toQi(x1).Cmp(toQi(x2)) > 0 {
			fail("C20/F/not-monotone/quai-to-qi", fmt.Sprintf("QuaiToQi(%v) > QuaiToQi(%v)", x1, x2))
		}
		if toQuai(x1).Cmp(toQuai(x2)) > 0 {
			fail("C20/F/not-monotone/qi-to-quai", fmt.Sprintf("QiToQuai(%v) > QiToQuai(%v)", x1, x2))
		}
		if toQi(new(big.Int)).Sign() != 0 || toQuai(new(big.Int)).Sign() != 0 {
			fail("C20/F/zero-not-zero", "a zero amount converts to a non-zero amount")
		}
		if qr.Cmp(common.Big1) == 0 {
			labels = append(labels, "quai_reward_clamped_to_1")
		}
		if ir.Cmp(common.Big1) == 0 {
			labels = append(labels, "qi_reward_clamped_to_1")
		}
		if env.Rate.Sign() == 0 {
			labels = append(labels, "rate_zero")
		}
		if env.HeaderRate != nil {
			labels = append(labels, "header_rate_differs_from_argument")
		}

		// ComputeConversionAmountInQuai over a small inbound set
		un := c20fAddrs()
		n := rapid.IntRange(0, 5).Draw(t, "nEtx")
		var etxs types.Transactions
		want := new(big.Int)
		for i := 0; i < n; i++ {
			v := c20fGenAmount(t, "etxValue")
			kind := rapid.IntRange(0, 5).Draw(t, "etxKind")
			switch kind {
			case 0, 1: // Quai -> Qi
				etxs = append(etxs, c20fETX(types.ConversionType, un.qi, un.quai, v, uint16(i), nil))
				want.Add(want, v)
			case 2, 3: // Qi -> Quai
				etxs = append(etxs, c20fETX(types.ConversionType, un.quai, un.qi, v, uint16(i), nil))
				if v.Sign() != 0 {
					want.Add(want, new(big.Int).Quo(new(big.Int).Mul(misc.CalculateQuaiReward(h.WorkObjectHeader(), env.Difficulty, headerRate), v), ir))
				}
			case 4:
				etxs = append(etxs, c20fETX(types.DefaultType, un.quai, un.quai2, v, uint16(i), nil))
			default:
				etxs = append(etxs, c20fETX(types.ConversionRevertType, un.qi, un.quai, v, uint16(i), nil))
			}
		}
		if got := misc.ComputeConversionAmountInQuai(h, etxs); got.Cmp(want) != 0 {
			dump["etx_count"] = n
			fail("C20/F/conversion-volume", fmt.Sprintf("ComputeConversionAmountInQuai = %v, sum of the conversions' Quai amounts = %v", got, want))
		}
		if n >= 2 {
			labels = append(labels, "volume_of_several_etxs")
		}
		labels = c20fDedupe(labels)
		nontrivial := x2.Sign() > 0 && toQi(x2).Sign() > 0 && toQuai(x2).Sign() > 0
		stats.Case(c20fUnitsPart, fmt.Sprintf("%s/%s/%s/d%s/r%s/z%d", env.regime, c20fBitClass(x1), c20fBitClass(x2), c20fBitClass(env.Difficulty), c20fBitClass(env.Rate), env.ZoneNumber), nontrivial, labels...)
		if nontrivial && stats.WantSample(c20fUnitsPart) {
			stats.Sample(c20fUnitsPart, dump)
		}
	})
}

type c20fAddrSet struct{ quai, quai2, qi common.Address }

func c20fAddrs() c20fAddrSet {
	loc := common.Location{0, 0}
	return c20fAddrSet{
		quai:  common.HexToAddress("0x0011111111111111111111111111111111111111", loc),
		quai2: common.HexToAddress("0x0022222222222222222222222222222222222222", loc),
		qi:    common.HexToAddress("0x0090000000000000000000000000000000000001", loc),
	}
}

func c20fETX(etxType int, to, sender common.Address, value *big.Int, index uint16, data []byte) *types.Transaction {
	var h common.Hash
	h[0], h[31] = 0x20, byte(index)
	toCopy := to
	return types.NewTx(&types.ExternalTx{Value: new(big.Int).Set(value), To: &toCopy, Sender: sender, EtxType: uint64(etxType), OriginatingTxHash: h, ETXIndex: index, Gas: 21000, Data: data})
}

// ---- FindMinDenominations ----------------------------------------------------------------------

const c20fDenomPart = "denominations"

// The largest amount whose count of the largest denomination still fits the uint64 the result map
// uses; beyond it FindMinDenominations cannot represent the split (see the assumptions).
var c20fDenomMax = new(big.Int).Sub(new(big.Int).Mul(c20fPow2(64), types.Denominations[types.MaxDenomination]), big.NewInt(1))

// TestC20F_Denominations: sum(denomination * count) <= amount, and the shortfall is less than the
// smallest denomination (the protocol's dust rule; the smallest denomination is 1 qit, so the
// split is exact); only existing denominations with non-zero counts are named; the argument is
// not changed.
func TestC20F_Denominations(t *testing.T) {
	smallest := types.Denominations[0]
	for i := 1; i <= types.MaxDenomination; i++ {
		if types.Denominations[uint8(i)].Cmp(smallest) < 0 {
			smallest = types.Denominations[uint8(i)]
		}
	}
	rapid.Check(t, func(t *rapid.T) {
		x := c20fGenAmount(t, "x")
		in := new(big.Int).Set(x)
		got := misc.FindMinDenominations(in)
		dump := map[string]any{"amount": x.String(), "result": fmt.Sprint(got)}
		fail := func(fp, msg string) { stats.Violation(t, c20fDenomPart, fp, msg, dump) }
		if in.Cmp(x) != 0 {
			fail("C20/F/denominations/argument-mutated", "FindMinDenominations changed its argument")
		}
		sum := new(big.Int)
		outputs := uint64(0)
		for d, c := range got {
			den, ok := types.Denominations[d]
			if !ok {
				fail("C20/F/denominations/unknown-denomination", fmt.Sprintf("denomination %d", d))
				continue
			}
			if c == 0 {
				fail("C20/F/denominations/zero-count-entry", fmt.Sprintf("denomination %d listed with count 0", d))
			}
			sum.Add(sum, new(big.Int).Mul(den, new(big.Int).SetUint64(c)))
			outputs += c
		}
		labels := []string{}
		if sum.Cmp(x) > 0 {
			fail("C20/F/denominations/sum-exceeds-amount", fmt.Sprintf("denominations sum to %v > %v", sum, x))
		}
		if x.Cmp(c20fDenomMax) <= 0 {
			if short := new(big.Int).Sub(x, sum); short.Cmp(smallest) >= 0 {
				fail("C20/F/denominations/shortfall-above-dust", fmt.Sprintf("amount %v, denominations sum to %v: %v lost, smallest denomination is %v", x, sum, short, smallest))
			}
			// each denomination below the largest is used fewer times than fit into the next one
			// that divides evenly (a consequence of taking the largest first)
			for d := 0; d < types.MaxDenomination; d++ {
				next, den := types.Denominations[uint8(d+1)], types.Denominations[uint8(d)]
				if new(big.Int).Mul(den, new(big.Int).SetUint64(got[uint8(d)])).Cmp(next) >= 0 {
					fail("C20/F/denominations/not-largest-first", fmt.Sprintf("%d x denomination %d reaches the next denomination", got[uint8(d)], d))
				}
			}
		} else {
			labels = append(labels, "beyond_uint64_count")
		}
		if len(got) >= 3 {
			labels = append(labels, "three_or_more_denominations")
		}
		if outputs > types.MaxOutputIndex {
			labels = append(labels, "more_outputs_than_one_tx_can_mint")
		}
		stats.Case(c20fDenomPart, fmt.Sprintf("%s/%d", c20fBitClass(x), len(got)), x.Sign() > 0 && len(got) >= 2, labels...)
		if len(got) >= 3 && stats.WantSample(c20fDenomPart) {
			stats.Sample(c20fDenomPart, dump)
		}
	})
}

// ---- ApplyCubicDiscount ------------------------------------------------------------------------

const c20fCubicPart = "cubic-discount"

// TestC20F_CubicDiscount. Documentation of misc.ApplyCubicDiscount: discounted = (1 -
// (value/(10*average))^3) * value; "every transaction takes a 20 basis point slip"; "always add 10
// basis point discount to make the function continuous"; a value above ten times the average
// yields 0. Laws: 0 <= result <= value (a discount only ever reduces); result <= 99.8 % of value;
// value <= average: exactly 99.8 %; value > 10 x average: 0; in between: the documented cubic,
// whose discount ratio grows with the value.
func TestC20F_CubicDiscount(t *testing.T) {
	rapid.Check(t, func(t *rapid.T) {
		mean := c20fGenFlow(t, "mean")
		var v1, v2 *big.Int
		switch rapid.IntRange(0, 3).Draw(t, "valueKind") {
		case 0:
			v1, v2 = c20fGenAmount(t, "v1"), c20fGenAmount(t, "v2")
		default:
			// relative to the running average: below, at, x1..x10, at and beyond ten times
			rel := func(label string) *big.Int {
				num := rapid.SampledFrom([]int64{1, 50, 99, 100, 101, 150, 300, 500, 900, 990, 999, 1000, 1001, 1100, 5000}).Draw(t, label)
				v := new(big.Int).Div(new(big.Int).Mul(mean, big.NewInt(num)), big.NewInt(100))
				return v.Add(v, big.NewInt(int64(rapid.IntRange(-1, 1).Draw(t, label+"Off"))))
			}
			v1, v2 = rel("v1Rel"), rel("v2Rel")
		}
		if v1.Sign() < 0 {
			v1 = new(big.Int)
		}
		if v2.Sign() < 0 {
			v2 = new(big.Int)
		}
		if v1.Cmp(v2) > 0 {
			v1, v2 = v2, v1
		}
		dump := map[string]any{"mean": mean.String(), "v1": v1.String(), "v2": v2.String()}
		fail := func(fp, msg string) { stats.Violation(t, c20fCubicPart, fp, msg, dump) }
		ten := c20fMul(mean, 10)
		eval := func(v *big.Int) (*big.Int, string) {
			inV, inM := new(big.Int).Set(v), new(big.Int).Set(mean)
			f := misc.ApplyCubicDiscount(inV, inM)
			if inV.Cmp(v) != 0 || inM.Cmp(mean) != 0 {
				fail("C20/F/cubic/argument-mutated", "ApplyCubicDiscount changed an argument")
			}
			if f.IsInf() || f.Sign() < 0 {
				fail("C20/F/cubic/negative-or-infinite", fmt.Sprintf("ApplyCubicDiscount(%v, %v) = %v", v, mean, f))
			}
			r, _ := f.Int(nil) // the caller truncates the same way
			if r.Cmp(v) > 0 {
				fail("C20/F/cubic/result-above-input", fmt.Sprintf("ApplyCubicDiscount(%v, %v) = %v > value", v, mean, r))
			}
			// at least the 20 basis points
			capV := new(big.Int).Mul(v, new(big.Int).SetUint64(params.MinCubicDiscountDivisor-params.MinCubicDiscountBasisPoint))
			capV.Div(capV, new(big.Int).SetUint64(params.MinCubicDiscountDivisor))
			// big.Float works at max(64, bit length) bits of mantissa: relative error ~2^-50 at worst
			slack := new(big.Int).Add(new(big.Int).Rsh(v, 48), big.NewInt(1))
			if r.Cmp(new(big.Int).Add(capV, slack)) > 0 {
				fail("C20/F/cubic/less-than-minimum-discount", fmt.Sprintf("ApplyCubicDiscount(%v, %v) = %v > 99.8%% of the value (%v)", v, mean, r, capV))
			}
			branch := "cubic"
			switch {
			case v.Cmp(mean) <= 0:
				branch = "at_or_below_average"
				if new(big.Int).Sub(capV, r).Cmp(slack) > 0 {
					fail("C20/F/cubic/below-average-not-minimum-discount", fmt.Sprintf("ApplyCubicDiscount(%v, %v) = %v, 99.8%% of the value is %v", v, mean, r, capV))
				}
			case v.Cmp(ten) > 0:
				branch = "beyond_ten_times_average"
				if r.Sign() != 0 {
					fail("C20/F/cubic/beyond-ten-times-not-zero", fmt.Sprintf("ApplyCubicDiscount(%v, %v) = %v", v, mean, r))
				}
			default:
				// exact rational value of the documented formula: v * (1 - v^3/(1000 m^3) - 1/1000)
				v3 := new(big.Int).Exp(v, big.NewInt(3), nil)
				m3k := new(big.Int).Mul(new(big.Int).Exp(mean, big.NewInt(3), nil), big.NewInt(1000))
				ratio := new(big.Rat).Sub(big.NewRat(999, 1000), new(big.Rat).SetFrac(v3, m3k))
				exact := new(big.Rat).Mul(ratio, new(big.Rat).SetInt(v))
				if exact.Sign() < 0 {
					exact = new(big.Rat)
				}
				// tolerance: float rounding of a handful of operations at >= 64 bits of mantissa
				tol := new(big.Rat).Add(new(big.Rat).Quo(new(big.Rat).SetInt(v), new(big.Rat).SetInt(c20fPow2(48))), big.NewRat(1, 1))
				diff := new(big.Rat).Sub(new(big.Rat).SetInt(r), exact)
				if diff.Abs(diff).Cmp(tol) > 0 {
					fail("C20/F/cubic/not-the-documented-cubic", fmt.Sprintf("ApplyCubicDiscount(%v, %v) = %v, documented formula gives %v", v, mean, r, exact.FloatString(3)))
				}
			}
			return r, branch
		}
		r1, b1 := eval(v1)
		r2, b2 := eval(v2)
		// the discount ratio never shrinks when the value grows: r1/v1 >= r2/v2 (cross-multiplied,
		// one unit of truncation slack on each side)
		if v1.Sign() > 0 {
			lhs := new(big.Int).Mul(new(big.Int).Add(r1, big.NewInt(1)), v2)
			rhs := new(big.Int).Mul(r2, v1)
			slack := new(big.Int).Rsh(rhs, 48)
			if lhs.Cmp(new(big.Int).Sub(rhs, slack)) < 0 {
				fail("C20/F/cubic/discount-ratio-shrinks-with-value", fmt.Sprintf("value %v keeps %v, larger value %v keeps %v (mean %v)", v1, r1, v2, r2, mean))
			}
		}
		stats.Case(c20fCubicPart, fmt.Sprintf("%s/%s/%s/%s", b1, b2, c20fBitClass(mean), c20fBitClass(v2)), b2 == "cubic" || b1 == "cubic", c20fDedupe([]string{b1, b2})...)
		if b2 == "cubic" && stats.WantSample(c20fCubicPart) {
			stats.Sample(c20fCubicPart, dump)
		}
	})
}

// c20fGenFlow draws a running-average conversion flow amount (the protocol keeps it >=
// MinConversionFlowAmount; smaller positive values are generated too).
func c20fGenFlow(t *rapid.T, label string) *big.Int {
	flows := []*big.Int{params.MinConversionFlowAmount, params.StartingConversionFlowAmount, c20fMul(params.StartingConversionFlowAmount, 1000), c20fBig("123456789012345678901"),
		big.NewInt(1), big.NewInt(7), big.NewInt(1000), c20fPow2(64), c20fPow2(120)}
	if rapid.IntRange(0, 3).Draw(t, label+"Kind") == 0 {
		return new(big.Int).SetUint64(rapid.Uint64Range(1, 1<<63).Draw(t, label+"Any"))
	}
	return new(big.Int).Set(rapid.SampledFrom(flows).Draw(t, label))
}

// ---- CalculateKQuai ----------------------------------------------------------------------------

const c20fKQuaiPart = "kquai-controller"

// TestC20F_KQuai. Documentation of misc.CalculateKQuai: k += alpha * (x_b*/x_d - 1) * k with
// alpha = 1/OneOverAlpha and x_d = D/log2(D); increases are divided by three between
// KQuaiChangeBlock and the KawPow fork. Laws: the rate moves in the direction of x_b* - x_d; a
// decrease is at most k/OneOverAlpha (+1 for truncation); monotone in x_b*; x_b* = x_d leaves
// the rate (within truncation); the slowed increase is a third of the unslowed one.
func TestC20F_KQuai(t *testing.T) {
	rapid.Check(t, func(t *rapid.T) {
		k := new(big.Int).Set(rapid.SampledFrom([]*big.Int{params.ExchangeRate, params.ExchangeRateResetValueAfterKawpowFork, params.ExchangeRateAfterShaEquivalentDifficultyFork,
			big.NewInt(1), big.NewInt(999), big.NewInt(1000), big.NewInt(1001), c20fBig("1000000000000"), c20fPow2(100)}).Draw(t, "k"))
		d := new(big.Int).Set(rapid.SampledFrom([]*big.Int{big.NewInt(2), big.NewInt(64), big.NewInt(100000), c20fBig("300000000000"), c20fBig("10000000000000000"), c20fPow2(80)}).Draw(t, "d"))
		if rapid.Bool().Draw(t, "dAny") {
			d = new(big.Int).SetUint64(rapid.Uint64Range(2, 1<<62).Draw(t, "dU64"))
		}
		block := rapid.SampledFrom([]uint64{10, params.KQuaiChangeBlock - 1, params.KQuaiChangeBlock, params.KQuaiChangeBlock + 1, params.KawPowForkBlock - 1, params.KawPowForkBlock, params.KawPowForkBlock + 1}).Draw(t, "block")
		d1 := new(big.Int).Mul(common.Big2e64, d)
		d2 := common.LogBig(d)
		// x_d in the function's fixed point: x_b* = beta such that beta*log(D) = 2^64*D
		xd := new(big.Int).Quo(d1, d2)
		pct := rapid.SampledFrom([]int64{0, 1, 50, 99, 100, 101, 200, 1000, 100000}).Draw(t, "xbPercent")
		xb1 := new(big.Int).Div(new(big.Int).Mul(xd, big.NewInt(pct)), big.NewInt(100))
		xb2 := new(big.Int).Add(xb1, new(big.Int).SetUint64(rapid.Uint64Range(0, 1<<40).Draw(t, "xbDelta")))
		dump := map[string]any{"k": k.String(), "difficulty": d.String(), "block": block, "xb1": xb1.String(), "xb2": xb2.String(), "xd": xd.String()}
		fail := func(fp, msg string) { stats.Violation(t, c20fKQuaiPart, fp, msg, dump) }
		call := func(xb *big.Int, blk uint64) *big.Int {
			ik, id, ix := new(big.Int).Set(k), new(big.Int).Set(d), new(big.Int).Set(xb)
			out := misc.CalculateKQuai(ik, id, blk, ix)
			if ik.Cmp(k) != 0 || id.Cmp(d) != 0 || ix.Cmp(xb) != 0 {
				fail("C20/F/kquai/argument-mutated", "CalculateKQuai changed an argument")
			}
			return out
		}
		labels := []string{}
		for _, xb := range []*big.Int{xb1, xb2} {
			out := call(xb, block)
			num := new(big.Int).Sub(new(big.Int).Mul(xb, d2), d1)
			switch num.Sign() {
			case 1:
				labels = append(labels, "increase")
				if out.Cmp(k) < 0 {
					fail("C20/F/kquai/wrong-direction", fmt.Sprintf("x_b* above x_d but the rate fell %v -> %v", k, out))
				}
			case -1:
				labels = append(labels, "decrease")
				if out.Cmp(k) > 0 {
					fail("C20/F/kquai/wrong-direction", fmt.Sprintf("x_b* below x_d but the rate rose %v -> %v", k, out))
				}
				maxDrop := new(big.Int).Add(new(big.Int).Quo(k, params.OneOverAlpha), big.NewInt(1))
				if new(big.Int).Sub(k, out).Cmp(maxDrop) > 0 {
					fail("C20/F/kquai/decrease-beyond-alpha", fmt.Sprintf("rate fell %v -> %v, more than k/%v", k, out, params.OneOverAlpha))
				}
			default:
				if out.Cmp(k) != 0 {
					fail("C20/F/kquai/moves-at-equilibrium", fmt.Sprintf("x_b* = x_d but the rate moved %v -> %v", k, out))
				}
			}
			if out.Sign() < 0 {
				fail("C20/F/kquai/negative", fmt.Sprintf("rate %v", out))
			}
			// the block number matters only inside the slow-down window
			if !(num.Sign() > 0 && block > params.KQuaiChangeBlock && block < params.KawPowForkBlock) {
				if ref := call(xb, 10); ref.Cmp(out) != 0 {
					fail("C20/F/kquai/block-number-matters-outside-slowdown-window", fmt.Sprintf("block %d gives %v, block 10 gives %v", block, out, ref))
				}
			}
			// slowed increase
			if num.Sign() > 0 && block > params.KQuaiChangeBlock && block < params.KawPowForkBlock {
				labels = append(labels, "slowed_increase")
				fast := new(big.Int).Sub(call(xb, 10), k)
				slow := new(big.Int).Sub(out, k)
				third := new(big.Int).Quo(fast, big.NewInt(3))
				// truncating the numerator to a third loses up to k/denominator per unit
				tol := new(big.Int).Add(new(big.Int).Quo(k, new(big.Int).Mul(d1, params.OneOverAlpha)), big.NewInt(2))
				if new(big.Int).Sub(slow, third).CmpAbs(tol) > 0 {
					fail("C20/F/kquai/slowdown-not-a-third", fmt.Sprintf("unslowed increase %v, slowed %v", fast, slow))
				}
			}
		}
		if call(xb1, block).Cmp(call(xb2, block)) > 0 {
			fail("C20/F/kquai/not-monotone-in-xbstar", fmt.Sprintf("x_b* %v -> %v, larger x_b* %v -> %v", xb1, call(xb1, block), xb2, call(xb2, block)))
		}
		labels = c20fDedupe(labels)
		stats.Case(c20fKQuaiPart, fmt.Sprintf("%v/%d/%s/%s/%d", labels, block, c20fBitClass(k), c20fBitClass(d), pct), len(labels) > 0 && k.Cmp(params.OneOverAlpha) >= 0, labels...)
	})
}

func c20fDedupe(in []string) []string {
	seen := map[string]bool{}
	var out []string
	for _, l := range in {
		if !seen[l] {
			seen[l] = true
			out = append(out, l)
		}
	}
	return out
}
