package c20

// Part F (k-Quai discount): HeaderChain.ComputeKQuaiDiscount, the smoothed discount Slice.Append
// applies to conversions that follow the exchange-rate movement, on a real prime chain (the
// function reads the header MinerDifficultyWindow prime blocks back; the window is scaled down to
// 3 for this test's process so that a short simulated chain is past it). For generated exchange
// rate trajectories (falling, flat, rising by a little, by almost 2x, by 2x and beyond), feeding
// each result back as the next header's discount:
//   - "discounts ... only ever reduce": 0 <= discount <= KQuaiDiscountMultiplier, so that the
//     factor (multiplier - discount)/multiplier Append applies lies in [0, 1];
//   - the value equals the documented moving average of the clamped relative rate change.

import (
	"fmt"
	"math/big"
	"testing"

	"github.com/dominant-strategies/go-quai/common"
	"github.com/dominant-strategies/go-quai/core/types"
	"github.com/dominant-strategies/go-quai/params"
	"pgregory.net/rapid"

	"verifharness/sim"
	"verifharness/stats"
)

func TestC20F_KQuaiDiscount(t *testing.T) {
	const part = "kquai-discount"
	const window = 3
	params.MinerDifficultyWindow = window
	n, err := sim.NewNet(sim.Options{})
	if err != nil {
		t.Fatalf("HARNESS: net: %v", err)
	}
	defer n.Close()
	a := sim.NewActor(n)
	if err := a.Prelude(); err != nil {
		t.Fatalf("HARNESS: prelude: %v", err)
	}
	for a.PrimeNumber() < params.ControllerKickInBlock+window+3 {
		if _, err := a.MineOne(sim.MineOpts{Order: sim.Prime, Salt: a.Salt, Coinbase: sim.DefaultQuaiCoinbase}); err != nil {
			t.Fatalf("HARNESS: mine: %v", err)
		}
	}
	if err := a.Adopt(); err != nil {
		t.Fatalf("HARNESS: adopt: %v", err)
	}
	prime := n.Nodes[sim.Prime]
	hc := prime.Core.Slice().HeaderChain()
	head := prime.Core.GetBlockByHash(prime.Core.CurrentHeader().Hash())
	if head == nil || head.NumberU64(common.PRIME_CTX) <= window || head.NumberU64(common.PRIME_CTX) <= params.ControllerKickInBlock {
		t.Fatalf("HARNESS: prime head too low")
	}
	prev := hc.GetBlockByNumber(head.NumberU64(common.PRIME_CTX) - window)
	if prev == nil {
		t.Fatalf("HARNESS: no block a window back")
	}
	old := prev.ExchangeRate()
	M := big.NewInt(params.KQuaiDiscountMultiplier)
	W := big.NewInt(window)
	// rate = old * num / 1000
	ratios := []int64{1, 100, 500, 900, 990, 999, 1000, 1001, 1010, 1100, 1500, 1990, 1999, 2000, 2001, 2010, 5000, 1000000}
	rapid.Check(t, func(rt *rapid.T) {
		cur := types.CopyWorkObject(head)
		start := []int64{0, 100, params.KQuaiDiscountMultiplier / 2, params.KQuaiDiscountMultiplier}[rapid.IntRange(0, 3).Draw(rt, "start")]
		cur.Header().SetKQuaiDiscount(big.NewInt(start))
		steps := rapid.IntRange(1, 60).Draw(rt, "steps")
		sticky := rapid.IntRange(0, len(ratios)-1).Draw(rt, "stickyRatio")
		var hist []string
		rising, falling := 0, 0
		for i := 0; i < steps; i++ {
			ri := sticky
			if rapid.IntRange(0, 3).Draw(rt, "vary") == 0 {
				ri = rapid.IntRange(0, len(ratios)-1).Draw(rt, "ratio")
			}
			rate := new(big.Int).Div(new(big.Int).Mul(old, big.NewInt(ratios[ri])), big.NewInt(1000))
			if rate.Cmp(old) > 0 {
				rising++
			} else if rate.Cmp(old) < 0 {
				falling++
			}
			before := new(big.Int).Set(cur.Header().KQuaiDiscount())
			got := hc.ComputeKQuaiDiscount(cur, rate)
			hist = append(hist, fmt.Sprintf("discount %v, rate = %d/1000 of the rate a window back -> %v", before, ratios[ri], got))
			dump := map[string]any{"rate_a_window_back": old.String(), "window": window, "trajectory": hist}
			if got == nil || got.Sign() < 0 || got.Cmp(M) > 0 {
				stats.Violation(rt, part, "C20/F/kquai-discount/outside-0-multiplier", fmt.Sprintf("after %d steps ComputeKQuaiDiscount returns %v: the factor (multiplier-discount)/multiplier applied to conversions is outside [0,1] (a negative discount credits more than the conversion is worth)", i+1, got), dump)
				return
			}
			// reference: sample = clamp(|old-rate| * M / old, 0, M); new = (before*(W-1) + sample) / W
			sample := new(big.Int).Sub(old, rate)
			sample.Mul(sample, M).Quo(sample, old)
			sample.Abs(sample)
			if sample.Cmp(M) > 0 {
				sample.Set(M)
			}
			want := new(big.Int).Mul(before, new(big.Int).Sub(W, big.NewInt(1)))
			want.Add(want, sample).Quo(want, W)
			if got.Cmp(want) != 0 {
				stats.Violation(rt, part, "C20/F/kquai-discount/not-the-moving-average", fmt.Sprintf("step %d: ComputeKQuaiDiscount returns %v, the moving average of the clamped relative change is %v", i+1, got, want), dump)
				return
			}
			cur.Header().SetKQuaiDiscount(got)
		}
		stats.Case(part, fmt.Sprintf("start=%d rising=%v falling=%v steps=%d", start, rising > 0, falling > 0, steps/10), rising > 0 || falling > 0, fmt.Sprintf("rising=%v", rising > 0), fmt.Sprintf("falling=%v", falling > 0))
		if stats.WantSample(part) {
			stats.Sample(part, map[string]any{"start": start, "trajectory_tail": hist[max(0, len(hist)-4):]})
		}
	})
}
