package c20

import (
	"fmt"
	"math/big"
	"sort"
	"testing"

	"github.com/dominant-strategies/go-quai/common"
	"github.com/dominant-strategies/go-quai/consensus/misc"
	"github.com/dominant-strategies/go-quai/core/types"
	"github.com/dominant-strategies/go-quai/params"
	"pgregory.net/rapid"

	"verifharness/stats"
)

// ---- reference of the prime-level repricing of conversions --------------------------------------
//
// c20fReprice(in) is a transcription of the conversion section of Slice.Append (core/slice.go,
// prime branch: "sort the newInboundEtxs based on the decreasing order of the max slips" ...
// "Apply the new exchange rate on all the transactions") as a pure function of plain data. It
// calls the real helpers (misc.ApplyCubicDiscount, misc.QiToQuai, misc.QuaiToQi); only the control
// flow around them is re-stated. It is shared with the history-level half of C20 (c20h_*), which
// feeds it the values of a real prime block and compares the outcome with the ETXs Append hands
// down.
//
// Input (c20fBlock):
//   Header                 the block; only what misc.QiToQuai/QuaiToQi read is used
//                          (WorkObjectHeader: PrimeTerminusNumber, Number, Sha/ScryptDiffAndCount).
//                          c20fEnv.header() builds one from plain numbers.
//   PrimeNumber            header.NumberU64(PRIME_CTX) (ConversionSlipChangeBlock switch)
//   HeaderRate             header.ExchangeRate()       (passes 1 and 2)
//   MinerDifficulty        header.MinerDifficulty()    (all passes)
//   KQuaiDiscount          header.KQuaiDiscount()
//   FlowAmount             header.ConversionFlowAmount()
//   ExchangeRateIncreasing header.ExchangeRate() > ExchangeRate() of the block MinerDifficultyWindow
//                          prime blocks earlier (false when the block number is <= the window)
//   NewRate                the exchange rate Append applies in the last pass
//   Etxs                   newInboundEtxs in their order BEFORE the slip sort: per ETX Conversion
//                          (EtxType == ConversionType), ToQi (recipient in the Qi ledger), Value
//                          (original value), Data (ETX data; first two bytes = slip when len > 1)
// Output: one c20fOutcome per input ETX (same indexing as Etxs): Order = position after the
// stable sort, Reverted (ETX becomes ConversionRevert), Final (value the ETX carries afterwards:
// destination units, or the original amount when reverted), BeforeRate (origin-ledger value after
// the discounts of the second pass), plus the intermediate quantities. divByZero reports that
// Append itself would divide by zero (accepted conversion volume of 0 Quai); outcomes is then nil.

type c20fConv struct {
	Conversion bool     // EtxType == ConversionType; other ETXs only take part in the sort
	ToQi       bool     // Quai -> Qi (recipient in the Qi ledger); otherwise Qi -> Quai
	Value      *big.Int // original value, units of the origin ledger
	Data       []byte   // ETX data; the first two bytes are the sender's slip bound when len > 1
}

type c20fBlock struct {
	Header                 *types.WorkObject
	PrimeNumber            uint64
	HeaderRate             *big.Int
	MinerDifficulty        *big.Int
	KQuaiDiscount          *big.Int
	FlowAmount             *big.Int
	ExchangeRateIncreasing bool
	NewRate                *big.Int
	Etxs                   []c20fConv
}

type c20fOutcome struct {
	Order        int      // position after the stable sort by decreasing slip
	Touched      bool     // a conversion with a positive value (everything else is left as it is)
	Slip         *big.Int // clamped slip bound in 1/SlipAmountRange
	Bound        *big.Int // original * (range - slip) / range
	TenPercent   *big.Int // original * 10 / 100
	Pass1Value   *big.Int // value after the discounts of the filtering pass (origin units)
	MarkedPass1  bool     // the filtering pass set the value to zero
	BeforeRate   *big.Int // value after the discounts of the second pass (origin units); nil when marked in pass 1
	AtHeaderRate *big.Int // BeforeRate converted at the header's rate (second pass); nil when marked in pass 1
	Reverted     bool     // the ETX ends as ConversionRevert
	Final        *big.Int // value the ETX carries after Append
}

// c20fSlipOf is the slip of a conversion as Append reads it (90 % when absent, clamped to
// [MinSlip, MaxSlip]).
func c20fSlipOf(data []byte) *big.Int {
	slip := new(big.Int).Set(params.MaxSlip)
	if len(data) > 1 {
		slip = new(big.Int).SetBytes(data[:2])
		if slip.Cmp(params.MaxSlip) > 0 {
			slip = new(big.Int).Set(params.MaxSlip)
		}
		if slip.Cmp(params.MinSlip) < 0 {
			slip = new(big.Int).Set(params.MinSlip)
		}
	}
	return slip
}

func c20fReprice(b *c20fBlock) (outcomes []c20fOutcome, divByZero bool) {
	h, rate, diff, in := b.Header, b.HeaderRate, b.MinerDifficulty, b.Etxs
	sortKey := func(c c20fConv) *big.Int {
		if c.Conversion {
			return c20fSlipOf(c.Data)
		}
		return new(big.Int)
	}
	order := make([]int, len(in))
	for i := range order {
		order[i] = i
	}
	sort.SliceStable(order, func(i, j int) bool { return sortKey(in[order[i]]).Cmp(sortKey(in[order[j]])) > 0 })
	out := make([]c20fOutcome, len(in))
	for pos, idx := range order {
		out[idx].Order = pos
	}
	cubic := func(volume *big.Int) *big.Int {
		d := misc.ApplyCubicDiscount(b.FlowAmount, volume)
		if b.PrimeNumber > params.ConversionSlipChangeBlock {
			d = misc.ApplyCubicDiscount(volume, b.FlowAmount)
		}
		i, _ := d.Int(nil)
		return i
	}
	kMul := big.NewInt(params.KQuaiDiscountMultiplier)
	afterK := func(discounted *big.Int) *big.Int {
		v := new(big.Int).Mul(discounted, new(big.Int).Sub(kMul, b.KQuaiDiscount))
		return v.Div(v, kMul)
	}
	// the k-Quai discount applies to conversions in the direction of the controller's adjustment
	kApplies := func(c c20fConv) bool { return c.ToQi == b.ExchangeRateIncreasing }
	inQuai := func(c c20fConv) *big.Int {
		if c.ToQi {
			return new(big.Int).Set(c.Value)
		}
		return misc.QiToQuai(h, rate, diff, c.Value)
	}
	// first pass (sorted order): filter by the slip bound against the cumulative volume
	actual := new(big.Int)
	live := make([]bool, len(in))
	for _, idx := range order {
		c := in[idx]
		o := &out[idx]
		if !c.Conversion || c.Value.Sign() <= 0 {
			continue
		}
		o.Touched = true
		original := c.Value
		temp := new(big.Int).Add(actual, inQuai(c))
		o.Slip = c20fSlipOf(c.Data)
		discounted := cubic(temp)
		if temp.Sign() == 0 {
			return nil, true
		}
		value := new(big.Int).Mul(original, discounted)
		value.Div(value, temp)
		o.TenPercent = new(big.Int).Div(new(big.Int).Mul(original, common.Big10), common.Big100)
		o.Bound = new(big.Int).Div(new(big.Int).Mul(original, new(big.Int).Sub(params.SlipAmountRange, o.Slip)), params.SlipAmountRange)
		if kApplies(c) && discounted.Sign() != 0 {
			value.Mul(value, afterK(discounted))
			value.Div(value, discounted)
		}
		if value.Cmp(o.TenPercent) < 0 {
			value = new(big.Int).Set(o.TenPercent)
		}
		o.Pass1Value = value
		if value.Cmp(o.Bound) < 0 {
			o.MarkedPass1 = true
		} else {
			actual = temp
			live[idx] = true
		}
	}
	// second pass: one discount for the whole accepted volume (ComputeConversionAmountInQuai over
	// the conversions whose value is still positive)
	total := new(big.Int)
	for idx, c := range in {
		if live[idx] {
			total.Add(total, inQuai(c))
		}
	}
	discounted := cubic(total)
	for idx, c := range in {
		if !live[idx] {
			continue
		}
		o := &out[idx]
		if total.Sign() == 0 {
			return nil, true
		}
		value := new(big.Int).Mul(c.Value, discounted)
		value.Div(value, total)
		if kApplies(c) && discounted.Sign() != 0 {
			value.Mul(value, afterK(discounted))
			value.Div(value, discounted)
		}
		if value.Cmp(o.TenPercent) < 0 {
			value = new(big.Int).Set(o.TenPercent)
		}
		o.BeforeRate = value
		if c.ToQi {
			o.AtHeaderRate = misc.QuaiToQi(h, rate, diff, value)
		} else {
			o.AtHeaderRate = misc.QiToQuai(h, rate, diff, value)
		}
	}
	// third pass: a zero value means "revert"; everything else is converted at the new rate
	for idx, c := range in {
		o := &out[idx]
		switch {
		case !c.Conversion:
			o.Final = c.Value
		case c.Value.Sign() < 0:
			o.Final = new(big.Int)
		case c.Value.Sign() == 0:
			// Append turns a zero-valued conversion into a revert whose value is the (unset)
			// original; no producer emits such an ETX
			o.Reverted = true
			o.Final = nil
		case !live[idx] || o.AtHeaderRate.Sign() == 0:
			o.Reverted = true
			o.Final = new(big.Int).Set(c.Value)
		case c.ToQi:
			o.Final = misc.QuaiToQi(h, b.NewRate, diff, o.BeforeRate)
		default:
			o.Final = misc.QiToQuai(h, b.NewRate, diff, o.BeforeRate)
		}
	}
	return out, false
}

// ---- invariants of the repricing ---------------------------------------------------------------

const c20fRepricePart = "reprice"

// Known finding of this part (confirmed on the real Append by the history-level half).
const c20fFpSwapped = "C20/F/reprice/credited-above-original/cubic-discount-arguments-swapped-before-ConversionSlipChangeBlock"

func c20fGenSlip(t *rapid.T) []byte {
	switch rapid.IntRange(0, 5).Draw(t, "slipKind") {
	case 0:
		return nil
	case 1:
		return []byte{0x07} // one byte: treated as absent
	default:
		v := rapid.SampledFrom([]uint16{0, 1, 29, 30, 31, 50, 100, 500, 1000, 5000, 8999, 9000, 9001, 10000, 65535}).Draw(t, "slip")
		data := []byte{byte(v >> 8), byte(v)}
		if rapid.Bool().Draw(t, "slipWithAddress") {
			data = append(data, make([]byte, 20)...)
		}
		return data
	}
}

// TestC20F_Reprice: for generated prime blocks (both sides of ConversionSlipChangeBlock and of the
// reward forks, 1-8 conversions of both directions, slips absent/min/mid/max, amounts from dust
// to beyond ten times the running average) every conversion has exactly one outcome:
//   - reverted: the ETX carries exactly the original amount;
//   - otherwise: credited (destination units at the applied rate) <= the amount the applied rate
//     implies for the original amount; the value before the rate is <= the original and >= 10 % of it;
//   - reverted <=> the discounted value of the filtering pass is below original*(range-slip)/range,
//     or the credit rounds to zero destination units at the header's rate.
//
// A conversion that passed the filtering pass but ends below the sender's bound after the second
// pass is only labelled (credited_below_pass1_bound).
func TestC20F_Reprice(t *testing.T) {
	rapid.Check(t, func(t *rapid.T) {
		env := c20fGenEnv(t)
		// rates of zero make every amount convert through the clamped rewards; keep a share of them
		b := &c20fBlock{Header: env.header(), HeaderRate: env.Rate, MinerDifficulty: env.Difficulty}
		b.PrimeNumber = rapid.SampledFrom([]uint64{params.ControllerKickInBlock + 1, params.ConversionSlipChangeBlock - 1, params.ConversionSlipChangeBlock, params.ConversionSlipChangeBlock + 1,
			params.KQuaiChangeBlock + 5, params.KawPowForkBlock + 5, params.ShaEquivalentDifficultyForkBlock + 5}).Draw(t, "primeNumber")
		b.KQuaiDiscount = big.NewInt(int64(rapid.SampledFrom([]int{0, 1, 100, 500, 5000, 50000, 99999, 100000}).Draw(t, "kQuaiDiscount")))
		b.FlowAmount = c20fGenFlow(t, "flow")
		b.ExchangeRateIncreasing = rapid.Bool().Draw(t, "rateIncreasing")
		switch rapid.IntRange(0, 3).Draw(t, "newRateKind") {
		case 0:
			b.NewRate = new(big.Int).Set(env.Rate)
		case 1:
			b.NewRate = new(big.Int).Div(new(big.Int).Mul(env.Rate, big.NewInt(999)), big.NewInt(1000))
		case 2:
			b.NewRate = new(big.Int).Div(new(big.Int).Mul(env.Rate, big.NewInt(1001)), big.NewInt(1000))
		default:
			b.NewRate = c20fMul(env.Rate, 30)
		}
		h := env.header()
		n := rapid.IntRange(1, 8).Draw(t, "nConversions")
		convs := make([]c20fConv, n)
		for i := range convs {
			c := c20fConv{Conversion: true, ToQi: rapid.Bool().Draw(t, "toQi"), Data: c20fGenSlip(t)}
			switch rapid.IntRange(0, 5).Draw(t, "valueKind") {
			case 0:
				c.Value = c20fGenAmount(t, "value")
			default:
				// relative to the running average (in Quai), expressed in the origin ledger
				pct := rapid.SampledFrom([]int64{1, 10, 50, 100, 101, 200, 500, 999, 1000, 1001, 3000}).Draw(t, "valueRel")
				q := new(big.Int).Div(new(big.Int).Mul(b.FlowAmount, big.NewInt(pct)), big.NewInt(100))
				if c.ToQi {
					c.Value = q
				} else {
					c.Value = misc.QuaiToQi(h, env.Rate, env.Difficulty, q)
				}
			}
			if c.Value.Sign() <= 0 {
				c.Value = big.NewInt(1) // no producer emits a zero-valued conversion
			}
			convs[i] = c
		}
		if rapid.IntRange(0, 5).Draw(t, "tightPair") == 0 {
			// two conversions with the same tight slip: the first is accepted on its own volume,
			// the second (sorted after it: the sort is stable) raises the block's volume
			slip := rapid.SampledFrom([][]byte{{0, 0}, {0, 30}, {0, 40}, {0, 120}}).Draw(t, "tightSlip")
			mk := func(toQi bool, pct int64) c20fConv {
				q := new(big.Int).Div(new(big.Int).Mul(b.FlowAmount, big.NewInt(pct)), big.NewInt(100))
				if !toQi {
					q = misc.QuaiToQi(h, env.Rate, env.Difficulty, q)
				}
				if q.Sign() <= 0 {
					q = big.NewInt(1)
				}
				return c20fConv{Conversion: true, ToQi: toQi, Value: q, Data: slip}
			}
			convs = []c20fConv{mk(rapid.Bool().Draw(t, "tightDir0"), rapid.SampledFrom([]int64{20, 100}).Draw(t, "tightPct0")),
				mk(rapid.Bool().Draw(t, "tightDir1"), rapid.SampledFrom([]int64{100, 150, 250, 400}).Draw(t, "tightPct1"))}
			n = 2
		}
		dump := env.dump()
		dump["prime_number"], dump["kquai_discount"], dump["flow_amount"], dump["rate_increasing"], dump["new_rate"] = b.PrimeNumber, b.KQuaiDiscount.String(), b.FlowAmount.String(), b.ExchangeRateIncreasing, b.NewRate.String()
		var cl []string
		for _, c := range convs {
			cl = append(cl, fmt.Sprintf("toQi=%v value=%v data=%x", c.ToQi, c.Value, c.Data))
		}
		dump["conversions"] = cl
		fail := func(fp, msg string) bool { return stats.Violation(t, c20fRepricePart, fp, msg, dump) }

		b.Etxs = convs
		outs, divZero := c20fReprice(b)
		preFork := b.PrimeNumber <= params.ConversionSlipChangeBlock
		labels := map[string]bool{}
		if preFork {
			labels["before_slip_change_fork"] = true
		} else {
			labels["after_slip_change_fork"] = true
		}
		if divZero {
			// Append would divide by zero: a conversion whose Quai amount floors to zero at the
			// header's rate while nothing else was accepted. Not an arithmetic law of this part.
			stats.Case(c20fRepricePart, "div-by-zero", false, "conversion_volume_zero")
			return
		}
		reverts, credits, both := 0, 0, map[bool]bool{}
		for i, o := range outs {
			c := convs[i]
			if !o.Touched {
				continue
			}
			both[c.ToQi] = true
			who := fmt.Sprintf("conversion %d (toQi=%v value=%v slip=%v)", i, c.ToQi, c.Value, o.Slip)
			wantRevert := o.Pass1Value.Cmp(o.Bound) < 0 || (o.AtHeaderRate != nil && o.AtHeaderRate.Sign() == 0)
			if o.Reverted != wantRevert {
				fail("C20/F/reprice/revert-decision", fmt.Sprintf("%s: reverted=%v, pass-1 value %v, bound %v", who, o.Reverted, o.Pass1Value, o.Bound))
			}
			if o.Reverted {
				reverts++
				if o.Final.Cmp(c.Value) != 0 {
					fail("C20/F/reprice/revert-not-original-amount", fmt.Sprintf("%s: reverted ETX carries %v", who, o.Final))
				}
				if o.MarkedPass1 {
					labels["revert_by_slip_bound"] = true
				} else {
					labels["revert_by_zero_credit"] = true
				}
				continue
			}
			credits++
			var implied *big.Int
			if c.ToQi {
				implied = misc.QuaiToQi(h, b.NewRate, env.Difficulty, c.Value)
			} else {
				implied = misc.QiToQuai(h, b.NewRate, env.Difficulty, c.Value)
			}
			if o.BeforeRate.Cmp(c.Value) > 0 || o.Final.Cmp(implied) > 0 {
				fp := "C20/F/reprice/credited-above-rate-implied"
				if preFork {
					fp = c20fFpSwapped
					labels["legacy_swapped_discount_overcredit"] = true
				}
				if fp == c20fFpSwapped && stats.IsKnown(fp) {
					stats.Excluded(fp)
				} else {
					fail(fp, fmt.Sprintf("%s: value before the rate %v > original, credited %v, rate-implied %v (flow %v)", who, o.BeforeRate, o.Final, implied, b.FlowAmount))
				}
			}
			if o.BeforeRate.Cmp(o.TenPercent) < 0 {
				fail("C20/F/reprice/below-ten-percent-floor", fmt.Sprintf("%s: value before the rate %v < 10%% of the original (%v)", who, o.BeforeRate, o.TenPercent))
			}
			if o.BeforeRate.Cmp(o.TenPercent) == 0 {
				labels["floored_at_ten_percent"] = true
			}
			if o.BeforeRate.Cmp(o.Bound) < 0 {
				// accepted by the filtering pass, re-discounted below the sender's bound by the
				// second pass (which re-checks only the 10 % floor). Not decided here: see the
				// assumptions in verif.json; the history-level half carries the real-code law.
				labels["credited_below_pass1_bound"] = true
			}
			if o.Slip.Cmp(params.MaxSlip) == 0 {
				labels["max_slip"] = true
			}
			if o.Slip.Cmp(params.MinSlip) == 0 {
				labels["min_slip"] = true
			}
		}
		if reverts > 0 {
			labels["has_revert"] = true
		}
		if credits > 0 {
			labels["has_credit"] = true
		}
		if reverts > 0 && credits > 0 {
			labels["revert_and_credit_in_one_block"] = true
		}
		if both[true] && both[false] {
			labels["both_directions"] = true
		}
		var ls []string
		for l := range labels {
			ls = append(ls, l)
		}
		sort.Strings(ls)
		nontrivial := credits+reverts >= 2 && (reverts > 0 || (both[true] && both[false]))
		stats.Case(c20fRepricePart, fmt.Sprintf("%v/%s/n%d", ls, env.regime, n), nontrivial, ls...)
		if nontrivial && stats.WantSample(c20fRepricePart) {
			stats.Sample(c20fRepricePart, dump)
		}
	})
}
