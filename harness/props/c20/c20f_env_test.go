// C20 part F — laws of the unit-conversion helpers (DESIGN.md §4 C20 (F)).
// This file: the generated block header (only the fields the helpers consult), exchange rates,
// difficulties and boundary-biased amounts.
package c20

import (
	"fmt"
	"math/big"

	"github.com/dominant-strategies/go-quai/common"
	"github.com/dominant-strategies/go-quai/core/types"
	"github.com/dominant-strategies/go-quai/params"
	"pgregory.net/rapid"
)

// c20fEnv is what misc.QiToQuai / QuaiToQi / CalculateQuaiReward / CalculateQiReward read:
//   - WorkObjectHeader.PrimeTerminusNumber: KawPowForkBlock (= KQuaiResetAfterKawPowForkBlock) and
//     ShaEquivalentDifficultyForkBlock select the difficulty the rewards are computed from;
//   - WorkObjectHeader.Number (zone height): params.OneOverKqi (QiActivationBlock, doubling periods);
//   - WorkObjectHeader.ShaDiffAndCount / ScryptDiffAndCount: the multi-algorithm adjustment;
//   - the difficulty and exchange-rate arguments (Append passes header.MinerDifficulty() and
//     header.ExchangeRate() or the new rate).
type c20fEnv struct {
	PrimeTerminus uint64
	ZoneNumber    uint64
	ShaCount      *big.Int
	ScryptCount   *big.Int
	ShaDiff       *big.Int
	Difficulty    *big.Int
	Rate          *big.Int // the exchange-rate argument handed to the helpers
	HeaderRate    *big.Int // header.ExchangeRate(); nil = same as Rate (Append passes the header's rate in its first passes and the new rate in the last)
	regime        string
	wo            *types.WorkObject
}

func (e *c20fEnv) dump() map[string]any {
	return map[string]any{"prime_terminus_number": e.PrimeTerminus, "regime": e.regime, "zone_number": e.ZoneNumber, "sha_count": e.ShaCount.String(),
		"scrypt_count": e.ScryptCount.String(), "sha_difficulty": e.ShaDiff.String(), "difficulty": e.Difficulty.String(), "exchange_rate": e.Rate.String(), "header_exchange_rate": fmt.Sprint(e.HeaderRate)}
}

func (e *c20fEnv) header() *types.WorkObject {
	if e.wo != nil {
		return e.wo
	}
	wo := types.EmptyZoneWorkObject()
	wo.WorkObjectHeader().SetPrimeTerminusNumber(new(big.Int).SetUint64(e.PrimeTerminus))
	wo.WorkObjectHeader().SetNumber(new(big.Int).SetUint64(e.ZoneNumber))
	wo.WorkObjectHeader().SetShaDiffAndCount(types.NewPowShareDiffAndCount(new(big.Int).Set(e.ShaDiff), new(big.Int).Set(e.ShaCount), big.NewInt(0)))
	wo.WorkObjectHeader().SetScryptDiffAndCount(types.NewPowShareDiffAndCount(big.NewInt(0), new(big.Int).Set(e.ScryptCount), big.NewInt(0)))
	hr := e.Rate
	if e.HeaderRate != nil {
		hr = e.HeaderRate
	}
	wo.Header().SetExchangeRate(new(big.Int).Set(hr))
	wo.Header().SetMinerDifficulty(new(big.Int).Set(e.Difficulty))
	e.wo = wo
	return wo
}

func c20fBig(s string) *big.Int {
	v, ok := new(big.Int).SetString(s, 10)
	if !ok {
		panic("bad literal " + s)
	}
	return v
}

func c20fPow2(n uint) *big.Int { return new(big.Int).Lsh(big.NewInt(1), n) }

func c20fMul(a *big.Int, k int64) *big.Int { return new(big.Int).Mul(a, big.NewInt(k)) }

// c20fGenEnv draws a header on either side of every fork the reward functions consult.
func c20fGenEnv(t *rapid.T) *c20fEnv {
	e := &c20fEnv{}
	kaw, sha := params.KawPowForkBlock, params.ShaEquivalentDifficultyForkBlock
	e.PrimeTerminus = rapid.SampledFrom([]uint64{0, params.ControllerKickInBlock + 1, params.ConversionSlipChangeBlock + 1, kaw - 1, kaw, kaw + 1, (kaw + sha) / 2,
		sha - 1, sha, sha + 1, params.ConversionStabilityForkBlock + 10, sha + 5_000_000}).Draw(t, "primeTerminus")
	switch {
	case e.PrimeTerminus < kaw:
		e.regime = "pre-kawpow"
	case e.PrimeTerminus < sha:
		e.regime = "kawpow-equivalent"
	default:
		e.regime = "sha-anchored"
	}
	dbl := (365 * params.BlocksPerDay * 269) / 100
	e.ZoneNumber = rapid.SampledFrom([]uint64{1, params.QiActivationBlock - 1, params.QiActivationBlock, params.QiActivationBlock + 1, 3_000_000, dbl - 1, dbl, dbl + 1,
		2*dbl - 1, 2 * dbl, 2*dbl + 1, 5 * dbl}).Draw(t, "zoneNumber")
	unit := common.Big2e32
	expected := int64(params.ExpectedWorksharesPerBlock + 1)
	counts := []*big.Int{big.NewInt(0), big.NewInt(1), new(big.Int).Set(unit), c20fMul(unit, 3), c20fMul(unit, expected-1), new(big.Int).Sub(c20fMul(unit, expected-1), big.NewInt(1)),
		c20fMul(unit, expected), c20fMul(unit, 40)}
	e.ShaCount = rapid.SampledFrom(counts).Draw(t, "shaCount")
	e.ScryptCount = rapid.SampledFrom(counts).Draw(t, "scryptCount")
	minSha := new(big.Int).Mul(params.MinDifficultyForShaEquivalentDifficulty, params.InitialShaDiffMultiple)
	e.ShaDiff = rapid.SampledFrom([]*big.Int{big.NewInt(0), big.NewInt(1), new(big.Int).Sub(minSha, big.NewInt(1)), minSha, new(big.Int).Add(minSha, params.InitialShaDiffMultiple),
		c20fMul(minSha, 1000), c20fPow2(100)}).Draw(t, "shaDiff")
	// the difficulty argument: any positive difficulty before the KawPow fork; from the fork on
	// params.KQuaiDifficultyDivisor is "the minimum difficulty for the reward calculation"
	div := new(big.Int).SetUint64(params.KQuaiDifficultyDivisor)
	diffs := []*big.Int{div, new(big.Int).Add(div, big.NewInt(1)), c20fMul(div, 2), c20fBig("1000000000000000"), c20fBig("1000000000000000000"), c20fPow2(80), c20fPow2(128)}
	if e.regime == "pre-kawpow" {
		diffs = append(diffs, big.NewInt(2), big.NewInt(64), big.NewInt(1000), big.NewInt(25_999_999), big.NewInt(26_000_000), c20fBig("8000000000"), new(big.Int).Sub(div, big.NewInt(1)))
	}
	if rapid.IntRange(0, 3).Draw(t, "diffKind") == 0 {
		lo := uint64(2)
		if e.regime != "pre-kawpow" {
			lo = params.KQuaiDifficultyDivisor
		}
		e.Difficulty = new(big.Int).SetUint64(rapid.Uint64Range(lo, 1<<62).Draw(t, "diffAny"))
	} else {
		e.Difficulty = rapid.SampledFrom(diffs).Draw(t, "difficulty")
	}
	base := params.ExchangeRate
	rates := []*big.Int{base, params.ExchangeRateResetValueAfterKawpowFork, params.ExchangeRateAfterShaEquivalentDifficultyFork, big.NewInt(0), big.NewInt(1), big.NewInt(1000),
		c20fBig("1000000000000"), new(big.Int).Div(base, big.NewInt(7)), c20fMul(base, 1000), c20fPow2(100), c20fPow2(160)}
	if rapid.IntRange(0, 4).Draw(t, "rateKind") == 0 {
		e.Rate = new(big.Int).SetUint64(rapid.Uint64().Draw(t, "rateAny"))
	} else {
		e.Rate = rapid.SampledFrom(rates).Draw(t, "rate")
	}
	return e
}

// c20fAmountAnchors: 0, 1, dust, every denomination +-1, the minimum Quai conversion +-1, 2^64+-1, 2^128.
func c20fAmountAnchors() []*big.Int {
	var out []*big.Int
	add := func(v *big.Int) {
		for _, d := range []int64{-1, 0, 1} {
			w := new(big.Int).Add(v, big.NewInt(d))
			if w.Sign() >= 0 {
				out = append(out, w)
			}
		}
	}
	out = append(out, big.NewInt(0), big.NewInt(1), big.NewInt(2), big.NewInt(3), big.NewInt(4))
	for i := 0; i <= types.MaxDenomination; i++ {
		add(types.Denominations[uint8(i)])
	}
	add(params.MinQuaiConversionAmount)
	add(c20fPow2(64))
	add(c20fPow2(128))
	add(c20fBig("1000000000000000000"))       // 1 Quai
	add(c20fBig("1000000000000000000000000")) // 1e6 Quai
	return out
}

var c20fAnchors = c20fAmountAnchors()

func c20fGenAmount(t *rapid.T, label string) *big.Int {
	switch rapid.IntRange(0, 4).Draw(t, label+"Kind") {
	case 0, 1:
		return new(big.Int).Set(rapid.SampledFrom(c20fAnchors).Draw(t, label+"Anchor"))
	case 2:
		return new(big.Int).SetUint64(rapid.Uint64().Draw(t, label+"U64"))
	case 3:
		// sums of few denominations +- dust
		v := new(big.Int)
		for i, n := 0, rapid.IntRange(1, 4).Draw(t, label+"Terms"); i < n; i++ {
			d := types.Denominations[uint8(rapid.IntRange(0, types.MaxDenomination).Draw(t, label+"Denom"))]
			v.Add(v, new(big.Int).Mul(d, big.NewInt(int64(rapid.IntRange(1, 9).Draw(t, label+"Count")))))
		}
		return v
	default:
		return new(big.Int).SetBytes(rapid.SliceOfN(rapid.Byte(), 1, 24).Draw(t, label+"Bytes"))
	}
}

func c20fBitClass(v *big.Int) string { return fmt.Sprintf("b%d", (v.BitLen()+15)/16) }
