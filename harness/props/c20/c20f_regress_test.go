package c20

import (
	"fmt"
	"math/big"
	"testing"

	"github.com/dominant-strategies/go-quai/consensus/misc"
	"github.com/dominant-strategies/go-quai/params"

	"verifharness/stats"
)

const c20fRegressPart = "reprice-regress"

// TestC20F_Regress_KnownFindings replays, through the transcription of Slice.Append's conversion
// section (real helper functions): (A) the known pre-fork over-credit, (B) the block shape in
// which a conversion accepted by the filtering pass ends below its sender's bound (label only).
func TestC20F_Regress_KnownFindings(t *testing.T) {
	if stats.Shard() != 0 {
		t.Skip("single-shard enumeration")
	}
	quai := func(n int64) *big.Int { return new(big.Int).Mul(big.NewInt(n), c20fBig("1000000000000000000")) }
	env := &c20fEnv{PrimeTerminus: params.ControllerKickInBlock + 100, ZoneNumber: 3_000_000, ShaCount: big.NewInt(0), ScryptCount: big.NewInt(0), ShaDiff: big.NewInt(0),
		Difficulty: c20fBig("1000000000000000"), Rate: new(big.Int).Set(params.ExchangeRate), regime: "pre-kawpow"}
	h := env.header()

	// (A) cubic-discount arguments swapped up to and including ConversionSlipChangeBlock
	for _, pn := range []uint64{params.ConversionSlipChangeBlock, params.ConversionSlipChangeBlock + 1} {
		b := &c20fBlock{Header: h, HeaderRate: env.Rate, MinerDifficulty: env.Difficulty, PrimeNumber: pn, KQuaiDiscount: big.NewInt(100), FlowAmount: quai(10000), ExchangeRateIncreasing: false, NewRate: env.Rate,
			Etxs: []c20fConv{{Conversion: true, ToQi: true, Value: quai(5000)}}}
		outs, _ := c20fReprice(b)
		o := outs[0]
		implied := misc.QuaiToQi(h, env.Rate, env.Difficulty, quai(5000))
		dump := map[string]any{"prime_number": pn, "flow": quai(10000).String(), "conversion": "Quai->Qi 5000 Quai, no slip data", "value_before_rate": o.BeforeRate.String(), "credited_qits": o.Final.String(), "rate_implied_qits": implied.String()}
		over := !o.Reverted && (o.BeforeRate.Cmp(quai(5000)) > 0 || o.Final.Cmp(implied) > 0)
		stats.Case(c20fRegressPart, fmt.Sprintf("swapped/%d", pn), true, fmt.Sprintf("prime_%d_overcredit=%v", pn, over))
		if over {
			stats.Violation(t, c20fRegressPart, c20fFpSwapped, fmt.Sprintf("prime block %d, flow 10000 Quai: a conversion of 5000 Quai is valued %v its before the rate and credited %v qits; the rate implies %v qits", pn, o.BeforeRate, o.Final, implied), dump)
		}
	}

	// (B) accepted in the filtering pass, credited below the sender's bound after the second pass
	{
		b := &c20fBlock{Header: h, HeaderRate: env.Rate, MinerDifficulty: env.Difficulty, PrimeNumber: params.ConversionSlipChangeBlock + 1000, KQuaiDiscount: big.NewInt(5000), FlowAmount: quai(10000), ExchangeRateIncreasing: true, NewRate: env.Rate}
		b.Etxs = []c20fConv{
			{Conversion: true, ToQi: true, Value: quai(100), Data: []byte{0x02, 0x12}},                                                // slip 530 = 5.3 %
			{Conversion: true, ToQi: false, Value: misc.QuaiToQi(h, env.Rate, env.Difficulty, quai(15000)), Data: []byte{0x00, 0x64}}, // slip 100 = 1 %
		}
		outs, _ := c20fReprice(b)
		o := outs[0]
		dump := map[string]any{"prime_number": b.PrimeNumber, "flow": quai(10000).String(), "kquai_discount": 5000, "rate_increasing": true,
			"conversions": []string{"Quai->Qi 100 Quai slip 530", "Qi->Quai worth 15000 Quai slip 100"},
			"etx0_bound":  o.Bound.String(), "etx0_pass1": o.Pass1Value.String(), "etx0_reverted": o.Reverted, "etx0_value_before_rate": fmt.Sprint(o.BeforeRate)}
		below := !o.Reverted && o.BeforeRate.Cmp(o.Bound) < 0
		// labelled only (not reachable on the real code in simulator histories; see verif.json)
		stats.Case(c20fRegressPart, "below-bound", true, fmt.Sprintf("credited_below_pass1_bound=%v", below))
		if below && stats.WantSample(c20fRegressPart) {
			stats.Sample(c20fRegressPart, dump)
		}
	}
}
