// C20 part H — conversions on a real prime+region+zone hierarchy. After every step, for each
// canonical prime block P that confirmed conversions and already has a canonical prime successor
// P' (whose header records the exchange rate the protocol applied to P's conversions):
//
//	L1 a refused conversion (ConversionRevert) carries exactly the original amount;
//	L2 a confirmed conversion credits no more than the original amount converted at that rate;
//	L3 and no less than the protocol floor (10 % of the original, converted at that rate);
//	D1 the real outcome of every conversion (credited value / revert) equals what the
//	   transcription of the repricing section (c20fReprice, part F) predicts from the inputs
//	   recorded by the prime node — this ties the function-level laws of part F to the real code;
//	L5 the Qi outputs minted for a Quai->Qi conversion are worth at most the credited value and
//	   are locked until inclusion + ConversionLockPeriod;
//	L6 a reverted Qi->Quai conversion returns Qi outputs worth exactly the original amount to
//	   the refund address.
//
// (Quai credits of Qi->Quai conversions at exactly the lock period are checked by C13 part H.)
package c20

import (
	"fmt"
	"math/big"
	"strings"
	"testing"

	"github.com/dominant-strategies/go-quai/common"
	"github.com/dominant-strategies/go-quai/consensus/misc"
	"github.com/dominant-strategies/go-quai/core/rawdb"
	"github.com/dominant-strategies/go-quai/core/types"
	"github.com/dominant-strategies/go-quai/params"
	"pgregory.net/rapid"

	"verifharness/sim"
	"verifharness/stats"
)

const partH = "history"

// reportKnown makes checkConversions report known findings instead of skipping them (set by the
// deterministic regress test only).
var reportKnown bool

type oid struct {
	h common.Hash
	i uint16
}

type convStats struct {
	primesWithConv, confirmed, reverted, bothDirections, multi, knownAbove int
	regimes                                                                map[string]bool
}

func canonicalChain(nd *sim.Node, ctx int) ([]*types.WorkObject, error) {
	head := nd.Core.CurrentHeader()
	hc := nd.Core.Slice().HeaderChain()
	var rev []*types.WorkObject
	cur := nd.Core.GetBlockByHash(head.Hash())
	for cur != nil && !hc.IsGenesisHash(cur.Hash()) {
		rev = append(rev, cur)
		cur = nd.Core.GetBlockByHash(cur.ParentHash(ctx))
	}
	if cur == nil {
		return nil, fmt.Errorf("canonical chain broken at ctx %d", ctx)
	}
	out := make([]*types.WorkObject, len(rev))
	for i := range rev {
		out[len(rev)-1-i] = rev[i]
	}
	return out, nil
}

func checkConversions(n *sim.Net) (fp, msg string, cs convStats) {
	cs.regimes = map[string]bool{}
	zone, prime := n.Nodes[sim.Zone], n.Nodes[sim.Prime]
	zchain, err := canonicalChain(zone, sim.Zone)
	if err != nil {
		return "chain-broken", err.Error(), cs
	}
	pchain, err := canonicalChain(prime, sim.Prime)
	if err != nil {
		return "chain-broken", err.Error(), cs
	}
	zoneByHash := map[common.Hash]int{}
	for i, b := range zchain {
		zoneByHash[b.Hash()] = i
	}
	// where each delivered ETX was executed in the zone (block index), by hash
	execAt := map[common.Hash]int{}
	for i, b := range zchain {
		for _, tx := range b.Transactions() {
			if tx.Type() == types.ExternalTxType {
				execAt[tx.Hash()] = i
			}
		}
	}
	for pi := 0; pi+1 < len(pchain); pi++ {
		P, Pn := pchain[pi], pchain[pi+1]
		if _, ok := zoneByHash[P.Hash()]; !ok {
			continue // the zone follows another branch at the moment
		}
		if P.NumberU64(sim.Prime) <= params.ControllerKickInBlock {
			continue
		}
		in := rawdb.ReadInboundEtxs(prime.DB, P.Hash())
		out := rawdb.ReadInboundEtxs(zone.DB, P.Hash())
		outByID := map[oid]*types.Transaction{}
		for _, d := range out {
			outByID[oid{d.OriginatingTxHash(), d.ETXIndex()}] = d
		}
		var convIn []*types.Transaction
		var convs []c20fConv
		for _, e := range in {
			if e.EtxType() == types.ConversionType && e.To().Location().Equal(sim.ZoneLoc) {
				convIn = append(convIn, e)
				convs = append(convs, c20fConv{Conversion: true, ToQi: e.To().IsInQiLedgerScope(), Value: e.Value(), Data: e.Data()})
			}
		}
		if len(convIn) == 0 {
			continue
		}
		cs.primesWithConv++
		if len(convIn) > 1 {
			cs.multi++
		}
		regime := "after-slip-change"
		if P.NumberU64(sim.Prime) <= params.ConversionSlipChangeBlock {
			regime = "before-slip-change"
		}
		cs.regimes[regime] = true
		newRate := Pn.ExchangeRate()
		blk := &c20fBlock{
			Header:          P,
			PrimeNumber:     P.NumberU64(sim.Prime),
			HeaderRate:      P.ExchangeRate(),
			MinerDifficulty: P.MinerDifficulty(),
			KQuaiDiscount:   P.KQuaiDiscount(),
			FlowAmount:      P.ConversionFlowAmount(),
			NewRate:         newRate,
			Etxs:            convs,
		}
		if P.NumberU64(sim.Prime) > params.MinerDifficultyWindow {
			prev := prime.Core.GetBlockByNumber(P.NumberU64(sim.Prime) - params.MinerDifficultyWindow)
			if prev != nil && P.ExchangeRate().Cmp(prev.ExchangeRate()) > 0 {
				blk.ExchangeRateIncreasing = true
			}
		}
		pred, divZero := c20fReprice(blk)
		toQi, toQuai := false, false
		for i, e := range convIn {
			id := oid{e.OriginatingTxHash(), e.ETXIndex()}
			d := outByID[id]
			where := fmt.Sprintf("prime #%d (%s), conversion %x:%d of %v (toQi=%v slip=%x)", P.NumberU64(sim.Prime), regime, id.h[:5], id.i, e.Value(), convs[i].ToQi, e.Data())
			if d == nil {
				return "conversion-not-handed-down", where + ": recorded by the prime node but absent from the list the zone received", cs
			}
			if convs[i].ToQi {
				toQi = true
			} else {
				toQuai = true
			}
			orig := e.Value()
			convert := func(v *big.Int) *big.Int {
				if convs[i].ToQi {
					return misc.QuaiToQi(P, newRate, P.MinerDifficulty(), v)
				}
				return misc.QiToQuai(P, newRate, P.MinerDifficulty(), v)
			}
			switch d.EtxType() {
			case types.ConversionRevertType:
				cs.reverted++
				if d.Value().Cmp(orig) != 0 {
					return "revert-amount", fmt.Sprintf("%s: refused but carries %v", where, d.Value()), cs
				}
			case types.ConversionType:
				cs.confirmed++
				if bound := convert(orig); d.Value().Cmp(bound) > 0 {
					if regime == "before-slip-change" && stats.IsKnown("C20/H/credited-above-rate/before-slip-change") && !reportKnown {
						stats.Excluded("C20/H/credited-above-rate/before-slip-change")
						cs.knownAbove++
						goto afterBound
					}
					return "credited-above-rate/" + regime, fmt.Sprintf("%s: credited %v, the original amount at the applied rate %v is worth %v", where, d.Value(), newRate, bound), cs
				}
			afterBound:
				floor := convert(new(big.Int).Div(new(big.Int).Mul(orig, common.Big10), common.Big100))
				if d.Value().Cmp(floor) < 0 {
					return "credited-below-floor", fmt.Sprintf("%s: credited %v, below the 10%% floor %v", where, d.Value(), floor), cs
				}
				// L7: a confirmed conversion is worth at least the sender's slip bound (else it must be refused)
				slip := c20fSlipOf(e.Data())
				sb := new(big.Int).Div(new(big.Int).Mul(orig, new(big.Int).Sub(params.SlipAmountRange, slip)), params.SlipAmountRange)
				if d.Value().Cmp(convert(sb)) < 0 && stats.IsKnown("C20/H/credited-below-slip-bound") && !reportKnown {
					stats.Excluded("C20/H/credited-below-slip-bound")
				} else if d.Value().Cmp(convert(sb)) < 0 {
					return "credited-below-slip-bound", fmt.Sprintf("%s: credited %v although the sender's bound (slip %v) is worth %v at the applied rate", where, d.Value(), slip, convert(sb)), cs
				}
			default:
				return "conversion-type-changed", fmt.Sprintf("%s: became type %d", where, d.EtxType()), cs
			}
			// D1: real outcome == transcription
			if !divZero && pred != nil && pred[i].Touched {
				p := pred[i]
				if p.Reverted != (d.EtxType() == types.ConversionRevertType) || p.Final.Cmp(d.Value()) != 0 {
					return "replica-disagrees", fmt.Sprintf("%s: real outcome reverted=%v value=%v, transcription predicts reverted=%v value=%v", where, d.EtxType() == types.ConversionRevertType, d.Value(), p.Reverted, p.Final), cs
				}
			}
			// L5 / L6: what the zone minted when it executed the ETX
			xi, executed := execAt[d.Hash()]
			if !executed {
				continue
			}
			xnum := zchain[xi].NumberU64(sim.Zone)
			minted := new(big.Int)
			var locks []uint64
			for idx := uint16(0); ; idx++ {
				u := rawdb.GetUTXO(zone.DB, d.Hash(), idx)
				if u == nil {
					break
				}
				minted.Add(minted, types.Denominations[u.Denomination])
				locks = append(locks, u.Lock.Uint64())
			}
			if convs[i].ToQi && d.EtxType() == types.ConversionType {
				if minted.Cmp(d.Value()) > 0 {
					return "minted-above-credit", fmt.Sprintf("%s: executed in #%d, live outputs worth %v exceed the credited %v", where, xnum, minted, d.Value()), cs
				}
				for _, l := range locks {
					if l != xnum+params.ConversionLockPeriod {
						return "conversion-output-lock", fmt.Sprintf("%s: executed in #%d, output locked until %d, want %d", where, xnum, l, xnum+params.ConversionLockPeriod), cs
					}
				}
			}
			if !convs[i].ToQi && d.EtxType() == types.ConversionRevertType && xi == len(zchain)-1 {
				// judged only while nothing can have spent or trimmed the refund yet (executed in the head block)
				if minted.Cmp(orig) != 0 && stats.IsKnown("C20/H/qi-refund-not-exact") && minted.Cmp(orig) < 0 && !reportKnown {
					stats.Excluded("C20/H/qi-refund-not-exact")
				} else if minted.Cmp(orig) != 0 {
					return "qi-refund-not-exact", fmt.Sprintf("%s: refused Qi->Quai conversion executed in #%d returned outputs worth %v qits, the original amount is %v", where, xnum, minted, orig), cs
				}
			}
		}
		if toQi && toQuai {
			cs.bothDirections++
		}
	}
	return "", "", cs
}

// checkCredits is the outcome ledger of Qi->Quai conversions paid to conversion-only accounts: at
// every head, the balance of such an account is exactly the sum of the conversion ETXs addressed
// to it that were executed ConversionLockPeriod or more blocks ago (less the account-creation fee
// the first time; nothing if the amount cannot cover that fee) - credited once, never early,
// never again at a later look-back depth.
func checkCredits(n *sim.Net, recipients []common.Address) (fp, msg string, due, deep int) {
	zone := n.Nodes[sim.Zone]
	zchain, err := canonicalChain(zone, sim.Zone)
	if err != nil {
		return "chain-broken", err.Error(), 0, 0
	}
	if len(zchain) == 0 {
		return "", "", 0, 0
	}
	head := zchain[len(zchain)-1]
	headNum := head.NumberU64(sim.Zone)
	want := map[common.AddressBytes]*big.Int{}
	exists := map[common.AddressBytes]bool{}
	isRcpt := map[common.AddressBytes]bool{}
	for _, r := range recipients {
		isRcpt[r.Bytes20()] = true
		want[r.Bytes20()] = new(big.Int)
	}
	byNumber := map[uint64]*types.WorkObject{}
	for _, b := range zchain {
		byNumber[b.NumberU64(sim.Zone)] = b
	}
	for _, b := range zchain {
		num := b.NumberU64(sim.Zone)
		if num+params.ConversionLockPeriod > headNum {
			break
		}
		// credited by block num+ConversionLockPeriod, on the state of that block's parent
		payer := byNumber[num+params.ConversionLockPeriod]
		payerParent := byNumber[num+params.ConversionLockPeriod-1]
		if payer == nil || payerParent == nil {
			return "chain-broken", "canonical chain has a gap", 0, 0
		}
		fee := new(big.Int).Mul(new(big.Int).SetUint64(params.CallNewAccountGas(payerParent.QuaiStateSize())), big.NewInt(params.InitialBaseFee))
		for _, etx := range b.Transactions() {
			if etx.Type() != types.ExternalTxType || etx.EtxType() != types.ConversionType || !etx.To().IsInQuaiLedgerScope() || !isRcpt[etx.To().Bytes20()] {
				continue
			}
			due++
			if num+2*params.ConversionLockPeriod <= headNum {
				deep++
			}
			amt := new(big.Int).Set(etx.Value())
			k := etx.To().Bytes20()
			if !exists[k] {
				if amt.Cmp(fee) < 0 {
					continue
				}
				amt.Sub(amt, fee)
			}
			exists[k] = true
			want[k].Add(want[k], amt)
		}
	}
	st, err := zone.Core.Processor().StateAt(head.EVMRoot(), head.EtxSetRoot(), head.QuaiStateSize())
	if err != nil {
		return "state", err.Error(), due, deep
	}
	for _, r := range recipients {
		ia, err := r.InternalAddress()
		if err != nil {
			continue
		}
		if got := st.GetBalance(ia); got.Cmp(want[r.Bytes20()]) != 0 {
			return "conversion-credit-ledger", fmt.Sprintf("at zone block #%d conversion-only account %x holds %v; the Qi->Quai conversions addressed to it and executed %d or more blocks ago sum to %v", headNum, r.Bytes()[:4], got, params.ConversionLockPeriod, want[r.Bytes20()]), due, deep
		}
	}
	return "", "", due, deep
}

func TestC20H_History(t *testing.T) {
	rapid.Check(t, func(t *rapid.T) {
		// both sides of the conversion slip fork (a package variable): always-old, switch inside the history, always-new
		params.ConversionSlipChangeBlock = rapid.SampledFrom([]uint64{1 << 40, 9, 0, 0}).Draw(t, "slipChangeBlock")
		defer func() { params.ConversionSlipChangeBlock = 285000 }()
		n, err := sim.NewNet(sim.Options{})
		if err != nil {
			t.Fatalf("HARNESS: net: %v", err)
		}
		defer n.Close()
		a := sim.NewActor(n)
		for _, k := range sim.QuaiKeys(10)[7:10] {
			a.ConvRecipients = append(a.ConvRecipients, k.Addr)
		}
		if err := a.Prelude(); err != nil {
			t.Fatalf("HARNESS: prelude: %v", err)
		}
		creditsDue, creditsDeep := 0, 0
		dump := func() any {
			return map[string]any{"history": a.Log, "conversion_slip_change_block": params.ConversionSlipChangeBlock}
		}
		var agg convStats
		agg.regimes = map[string]bool{}
		check := func(what string) bool {
			fp, msg, cs := checkConversions(n)
			if fp != "" {
				stats.Violation(t, partH, "C20/H/"+fp, what+": "+msg, dump())
				return false
			}
			fp, msg, due, deep := checkCredits(n, a.ConvRecipients)
			if fp != "" {
				stats.Violation(t, partH, "C20/H/"+fp, what+": "+msg, dump())
				return false
			}
			creditsDue, creditsDeep = max(creditsDue, due), max(creditsDeep, deep)
			if cs.primesWithConv >= agg.primesWithConv {
				r := agg.regimes
				agg = cs
				for k := range r {
					agg.regimes[k] = true
				}
			}
			return true
		}
		steps := rapid.IntRange(8, 22).Draw(t, "steps")
		forkLog := 0
		for i := 0; i < steps; i++ {
			if err := a.Adopt(); err != nil {
				t.Fatalf("HARNESS: adopt: %v", err)
			}
			a.ConversionTraffic(t)
			if rapid.IntRange(0, 2).Draw(t, "other") == 0 {
				a.Traffic(t)
			} else {
				a.LabTraffic(t) // among others: conversions whose origin is a contract (CONVERT opcode)
			}
			// conversions are confirmed by prime blocks: mine those often
			order := rapid.SampledFrom([]int{sim.Prime, sim.Prime, sim.Zone, sim.Zone, sim.Region}).Draw(t, "order")
			// a prime-level fork: two sibling prime blocks confirm the same conversions; the node first
			// appends (and follows) block A, then block B, and the history continues on B. Whatever
			// the first append did to the conversions it read must not change what the second credits.
			var sibling *sim.Actor
			if order == sim.Prime && rapid.IntRange(0, 2).Draw(t, "primeFork") == 0 {
				sibling = a.Fork(a.Salt + 5000 + uint64(i))
				forkLog = len(a.Log)
			}
			blkA, err := a.MineRandomOrder(t, order)
			if err != nil {
				t.Fatalf("HARNESS: mine: %v\n%s", err, strings.Join(a.Log, "\n"))
			}
			if sibling != nil {
				if err := a.Adopt(); err != nil {
					t.Fatalf("HARNESS: adopt: %v", err)
				}
				if !check(fmt.Sprintf("step %d (prime block A of a fork)", i)) {
					return
				}
				if err := sibling.Adopt(); err != nil {
					t.Fatalf("HARNESS: adopt sibling: %v", err)
				}
				blkB, err := sibling.MineRandomOrder(t, sim.Prime)
				if err != nil {
					t.Fatalf("HARNESS: mine sibling: %v\n%s", err, strings.Join(sibling.Log, "\n"))
				}
				// the two siblings were built on the same parents with nothing in between: every
				// conversion both of them confirm enters the repricing with the same (origin) amount
				if blkA.Views[sim.Prime] != nil && blkB.Views[sim.Prime] != nil {
					prime := n.Nodes[sim.Prime]
					inA := map[oid]*types.Transaction{}
					for _, e := range rawdb.ReadInboundEtxs(prime.DB, blkA.Views[sim.Prime].Hash()) {
						if e.EtxType() == types.ConversionType || e.EtxType() == types.ConversionRevertType {
							inA[oid{e.OriginatingTxHash(), e.ETXIndex()}] = e
						}
					}
					for _, e := range rawdb.ReadInboundEtxs(prime.DB, blkB.Views[sim.Prime].Hash()) {
						x, ok := inA[oid{e.OriginatingTxHash(), e.ETXIndex()}]
						if !ok {
							continue
						}
						stats.Label(partH, "conversion_confirmed_by_both_prime_siblings")
						if x.Value().Cmp(e.Value()) != 0 || x.EtxType() != e.EtxType() {
							stats.Violation(t, partH, "C20/H/prime-siblings-read-different-amounts", fmt.Sprintf("conversion %x:%d enters the repricing of prime block A (%x) with %v (type %d) and of its sibling B (%x), appended afterwards, with %v (type %d): the amount taken from the origin ledger is converted again",
								e.OriginatingTxHash().Bytes()[:6], e.ETXIndex(), blkA.Views[sim.Prime].Hash().Bytes()[:4], x.Value(), x.EtxType(), blkB.Views[sim.Prime].Hash().Bytes()[:4], e.Value(), e.EtxType()), dump())
							return
						}
					}
				}
				own := append([]string{}, sibling.Log[forkLog:]...)
				sibling.Log = append(append(append([]string{}, a.Log...), "-- prime fork: the entries since the fork above are block A; the node now appends and follows sibling block B:"), own...)
				a = sibling
				stats.Label(partH, "prime_fork")
			}
			if err := a.Adopt(); err != nil {
				t.Fatalf("HARNESS: adopt: %v", err)
			}
			if !check(fmt.Sprintf("step %d", i)) {
				return
			}
		}
		var labels []string
		add := func(c bool, l string) {
			if c {
				labels = append(labels, l)
			}
		}
		add(agg.confirmed > 0, "confirmed")
		add(agg.reverted > 0, "reverted")
		add(agg.bothDirections > 0, "both_directions_in_one_prime_block")
		add(agg.multi > 0, "two_or_more_conversions_in_one_prime_block")
		add(a.Labels["tx_labconvert"] > 0, "contract_originated_conversion_submitted")
		add(creditsDue > 0, "qi2quai_credit_due")
		add(creditsDeep > 0, "qi2quai_credit_past_second_lookback_depth")
		for r := range agg.regimes {
			labels = append(labels, "regime_"+r)
		}
		nontrivial := agg.multi > 0 && (agg.reverted > 0 || agg.bothDirections > 0)
		stats.Case(partH, strings.Join(labels, ","), nontrivial, labels...)
		if nontrivial && stats.WantSample(partH) {
			stats.Sample(partH, map[string]any{"prime_blocks_with_conversions": agg.primesWithConv, "confirmed": agg.confirmed, "reverted": agg.reverted, "tail_of_history": a.Log[max(0, len(a.Log)-10):]})
		}
	})
}
