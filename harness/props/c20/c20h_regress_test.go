package c20

import (
	"fmt"
	"math/big"
	"strings"
	"testing"

	"github.com/dominant-strategies/go-quai/common"
	"github.com/dominant-strategies/go-quai/core/types"
	"github.com/dominant-strategies/go-quai/params"

	"verifharness/sim"
	"verifharness/stats"
)

// TestC20H_Regress_KnownFindings replays, without rapid, one minimal history per recorded
// history-level finding of C20 on the real hierarchy and reports what it observes.
func TestC20H_Regress_KnownFindings(t *testing.T) {
	type scenario struct {
		name       string
		slipChange uint64
		want       string
		txs        func(n *sim.Net, a *sim.Actor) []*types.Transaction
	}
	quai, qi := sim.QuaiKeys(6), sim.QiKeys(40)
	gp := func(n *sim.Net) *big.Int {
		return new(big.Int).Mul(n.Nodes[sim.Zone].Core.CurrentHeader().BaseFee(), big.NewInt(2))
	}
	findUTXO := func(n *sim.Net, k *sim.Key, den uint8, skip int) *sim.UTXORec {
		head := n.Nodes[sim.Zone].Core.CurrentHeader().NumberU64(sim.Zone)
		for _, u := range n.OwnedUTXOs(k.Addr) {
			u := u
			if u.Entry.Denomination == den && u.Entry.Lock.Uint64() <= head {
				if skip == 0 {
					return &u
				}
				skip--
			}
		}
		return nil
	}
	qi2quai := func(n *sim.Net, owner *sim.Key, inDen, outDen uint8, skip int, to common.Address, slip uint16, refund common.Address) *types.Transaction {
		u := findUTXO(n, owner, inDen, skip)
		if u == nil {
			return nil
		}
		data := append([]byte{byte(slip >> 8), byte(slip)}, refund.Bytes()...)
		tx, err := sim.QiTx(owner, []sim.UTXORec{*u}, []sim.QiOut{{Denomination: outDen, To: to}}, data)
		if err != nil {
			return nil
		}
		return tx
	}
	scenarios := []scenario{
		{"credited-above-rate/before-slip-change", 1 << 40, "credited-above-rate/before-slip-change", func(n *sim.Net, a *sim.Actor) []*types.Transaction {
			// block volume 2.8e21 + 1.2e19 its lies in [flow/10, flow): with the swapped cubic-discount arguments each conversion is scaled up
			to1, to2 := qi[2].Addr, qi[3].Addr
			t1, _ := sim.QuaiTx(quai[2], n.Nodes[sim.Zone].Core.TxPool().Nonce(quai[2].Internal()), &to1, new(big.Int).Mul(big.NewInt(700), big.NewInt(4e18)), 400000, gp(n), nil, nil)
			t2, _ := sim.QuaiTx(quai[3], n.Nodes[sim.Zone].Core.TxPool().Nonce(quai[3].Internal()), &to2, new(big.Int).Mul(big.NewInt(3), big.NewInt(4e18)), 400000, gp(n), []byte{0, 1}, nil)
			return []*types.Transaction{t1, t2}
		}},
		{"qi-refund-not-exact", 1 << 40, "qi-refund-not-exact", func(n *sim.Net, a *sim.Actor) []*types.Transaction {
			// 50 qits is far below a tenth of the flow average: discount 0 -> floor -> below the 0.3 % slip bound -> refused; the refund mints nothing below 1000 qits
			return []*types.Transaction{qi2quai(n, qi[1], 6, 3, 0, quai[4].Addr, 1, qi[30].Addr)}
		}},
		{"credited-below-slip-bound", 0, "credited-below-slip-bound", func(n *sim.Net, a *sim.Actor) []*types.Transaction {
			// two equal-slip Qi->Quai conversions: the first passes its bound on its own volume, the second raises the block volume afterwards
			return []*types.Transaction{qi2quai(n, qi[1], 9, 7, 0, quai[4].Addr, 0, qi[31].Addr), qi2quai(n, qi[1], 9, 7, 1, quai[5].Addr, 0, qi[32].Addr)}
		}},
	}
	defer func() { params.ConversionSlipChangeBlock = 285000; reportKnown = false }()
	reportKnown = true
	for _, sc := range scenarios {
		params.ConversionSlipChangeBlock = sc.slipChange
		n, err := sim.NewNet(sim.Options{})
		if err != nil {
			t.Fatalf("HARNESS: net: %v", err)
		}
		a := sim.NewActor(n)
		if err := a.Prelude(); err != nil {
			t.Fatalf("HARNESS: prelude: %v", err)
		}
		mine := func(order int) {
			if _, err := a.MineOne(sim.MineOpts{Order: order}); err != nil {
				t.Fatalf("HARNESS: mine: %v\n%s", err, strings.Join(a.Log, "\n"))
			}
			if err := a.Adopt(); err != nil {
				t.Fatalf("HARNESS: adopt: %v", err)
			}
		}
		// let the prelude's conversion outputs unlock
		for i := 0; i < 4; i++ {
			mine(sim.Zone)
		}
		txs := sc.txs(n, a)
		ok := true
		for _, tx := range txs {
			if tx == nil {
				ok = false
			}
		}
		observed := ""
		if ok {
			errs := n.SubmitTxs(txs...)
			a.Log = append(a.Log, fmt.Sprintf("submitted %d conversions: %v", len(txs), errs))
			for _, o := range []int{sim.Zone, sim.Prime, sim.Prime, sim.Prime, sim.Prime} {
				mine(o)
				if fp, msg, _ := checkConversions(n); fp != "" {
					observed = fp
					stats.Case("regress", sc.name, true)
					stats.Violation(t, "regress", "C20/H/"+fp, sc.name+": "+msg, map[string]any{"history": a.Log})
					break
				}
			}
		}
		if observed == "" {
			stats.Case("regress", sc.name+"/not-reproduced", false)
			stats.Note("C20H regress scenario " + sc.name + " did not reproduce its finding in this run")
		}
		n.Close()
	}
}
