package c20

import (
	"testing"

	"verifharness/stats"
)

func TestMain(m *testing.M) { stats.Main(m) }
