// C13 part H — mining rewards and lockups pay out exactly once, no earlier, no more, on a real
// prime+region+zone hierarchy with forks and head switches. After every step everything is
// recomputed from the canonical zone chain:
//
//	H1 each block emits exactly one coinbase ETX per rewarded share of the block three levels
//	   back, to that share's coinbase, with the formula amount (block reward + fee capacitor +
//	   half the fees, converted for Qi coinbases);
//	H2 the credits the node reports for a block (unlock events) are exactly the plain Quai
//	   coinbase rewards and Qi->Quai conversions included depth(lock byte) / ConversionLockPeriod
//	   blocks earlier, with the lockup-adjusted amount less the account-creation fee for a new
//	   account, and the balances of reward-only accounts move by exactly those amounts;
//	H3 a Qi coinbase creates outputs locked until inclusion + depth whose value does not exceed
//	   the lockup-adjusted reward;
//	H4 contract-held lockups are conserved: stored tranche balances + claimed amounts equal the
//	   accepted contract-layout rewards, per ledger, and every claim ETX pays out a whole tranche.
package c13

import (
	"fmt"
	"math/big"
	"sort"
	"strings"
	"sync"
	"testing"
	"time"

	"github.com/dominant-strategies/go-quai/common"
	"github.com/dominant-strategies/go-quai/consensus/misc"
	"github.com/dominant-strategies/go-quai/core"
	"github.com/dominant-strategies/go-quai/core/rawdb"
	"github.com/dominant-strategies/go-quai/core/types"
	"github.com/dominant-strategies/go-quai/params"
	"pgregory.net/rapid"

	"verifharness/sim"
	"verifharness/stats"
)

const partH = "history"

type unlockLog struct {
	mu sync.Mutex
	m  map[common.Hash][]common.Unlock
}

func watchUnlocks(nd *sim.Node) (*unlockLog, func()) {
	ul := &unlockLog{m: map[common.Hash][]common.Unlock{}}
	ch := make(chan core.UnlocksEvent, 256)
	sub := nd.Core.Slice().HeaderChain().SubscribeUnlocksEvent(ch)
	done := make(chan struct{})
	go func() {
		for {
			select {
			case ev := <-ch:
				ul.mu.Lock()
				ul.m[ev.Hash] = ev.Unlocks
				ul.mu.Unlock()
			case <-done:
				return
			}
		}
	}()
	return ul, func() { sub.Unsubscribe(); close(done) }
}

func canonical(nd *sim.Node) ([]*types.WorkObject, error) {
	head := nd.Core.CurrentHeader()
	hc := nd.Core.Slice().HeaderChain()
	var rev []*types.WorkObject
	cur := nd.Core.GetBlockByHash(head.Hash())
	for cur != nil && !hc.IsGenesisHash(cur.Hash()) {
		rev = append(rev, cur)
		cur = nd.Core.GetBlockByHash(cur.ParentHash(sim.Zone))
	}
	if cur == nil {
		return nil, fmt.Errorf("canonical chain broken")
	}
	out := make([]*types.WorkObject, len(rev))
	for i := range rev {
		out[len(rev)-1-i] = rev[i]
	}
	return out, nil
}

type hStats struct {
	credits, qiCoinbases, lockupRewards, claims, convCredits, multiShare, uncles int
}

func checkRewards(n *sim.Net, ul *unlockLog, rewardOnly map[common.AddressBytes]bool) (fp, msg string, hs hStats) {
	zone := n.Nodes[sim.Zone]
	chain, err := canonical(zone)
	if err != nil {
		return "chain-broken", err.Error(), hs
	}
	hc := zone.Core.Slice().HeaderChain()
	byNumber := map[uint64]*types.WorkObject{}
	for _, b := range chain {
		byNumber[b.NumberU64(sim.Zone)] = b
	}
	// ---- H0: a workshare is included at most once on the chain, is not itself a chain block, and
	// sits within the inclusion depth of its carrier
	includedIn := map[common.Hash]uint64{}
	canonicalHash := map[common.Hash]bool{}
	for _, b := range chain {
		canonicalHash[b.Hash()] = true
	}
	for _, b := range chain {
		num := b.NumberU64(sim.Zone)
		for _, u := range b.Uncles() {
			hs.uncles++
			if prev, dup := includedIn[u.Hash()]; dup {
				return "workshare-included-twice", fmt.Sprintf("workshare %x is an uncle of block #%d and of block #%d", u.Hash().Bytes()[:4], prev, num), hs
			}
			includedIn[u.Hash()] = num
			if canonicalHash[u.Hash()] {
				return "workshare-is-chain-block", fmt.Sprintf("block #%d carries canonical block %x as an uncle", num, u.Hash().Bytes()[:4]), hs
			}
			if u.NumberU64() > num || u.NumberU64()+uint64(params.WorkSharesInclusionDepth) < num {
				return "workshare-outside-depth", fmt.Sprintf("block #%d carries an uncle of height %d", num, u.NumberU64()), hs
			}
		}
	}
	lockupAccepted := map[bool]*big.Int{false: new(big.Int), true: new(big.Int)} // key: miner in Qi ledger
	lockupClaimed := map[bool]*big.Int{false: new(big.Int), true: new(big.Int)}
	for _, b := range chain {
		num := b.NumberU64(sim.Zone)
		parent := byNumber[num-1]
		// ---- H1: coinbase emission -----------------------------------------------------------
		var coinbases []*types.Transaction
		for _, e := range b.OutboundEtxs() {
			if e.EtxType() == types.CoinbaseType {
				coinbases = append(coinbases, e)
			}
		}
		if num > uint64(params.WorkSharesInclusionDepth) {
			depth := uint64(params.WorkSharesInclusionDepth)
			target := byNumber[num-depth]
			// the rewarded shares, in the order the protocol pays them: the target block itself, then the
			// uncles at the target's height carried by the parent, grandparent, ..., target block, then
			// by this block
			shares := []*types.WorkObjectHeader{target.WorkObjectHeader()}
			for i := uint64(1); i <= depth+1; i++ {
				carrier := b
				if i <= depth {
					carrier = byNumber[num-i]
				}
				for _, u := range carrier.Uncles() {
					if u.NumberU64() == target.NumberU64(sim.Zone) {
						shares = append(shares, u)
					}
				}
			}
			if len(shares) > 1 {
				hs.multiShare++
			}
			if len(coinbases) != len(shares) {
				return "coinbase-count", fmt.Sprintf("block #%d emits %d coinbase ETXs for %d rewarded shares of block #%d", num, len(coinbases), len(shares), target.NumberU64(sim.Zone)), hs
			}
			pt := hc.GetHeaderByHash(b.PrimeTerminusHash())
			if pt == nil {
				return "prime-terminus-missing", "prime terminus of a canonical block unknown to the zone", hs
			}
			rate := pt.ExchangeRate()
			blockReward := misc.CalculateQuaiReward(target.WorkObjectHeader(), target.Difficulty(), rate)
			blockReward = new(big.Int).Add(blockReward, target.AvgTxFees())
			blockReward = new(big.Int).Add(blockReward, new(big.Int).Div(target.TotalFees(), common.Big2))
			// pre-fork split: proportional to each share's intrinsic entropy (an uncle that is a full
			// block counts with the entropy of its target)
			ent := make([]*big.Int, len(shares))
			total := new(big.Int)
			for i, sh := range shares {
				h := sh.Hash()
				blockTarget := new(big.Int).Div(common.Big2e256, sh.Difficulty())
				if i > 0 && new(big.Int).SetBytes(h.Bytes()).Cmp(blockTarget) <= 0 {
					h = common.BytesToHash(blockTarget.Bytes())
				}
				ent[i] = common.IntrinsicLogEntropy(h)
				total.Add(total, ent[i])
			}
			paid := new(big.Int)
			for i, sh := range shares {
				want := new(big.Int).Div(new(big.Int).Mul(blockReward, ent[i]), total)
				paid.Add(paid, want)
				cb := coinbases[i]
				tcb := sh.PrimaryCoinbase()
				if tcb.IsInQiLedgerScope() {
					want = misc.QuaiToQi(target, rate, target.Difficulty(), want)
				}
				if want.Sign() == 0 {
					want = big.NewInt(1)
				}
				if !cb.To().Equal(tcb) {
					return "coinbase-recipient", fmt.Sprintf("block #%d coinbase %d rewards %x but share %d of block #%d was mined by %x", num, i, cb.To().Bytes(), i, target.NumberU64(sim.Zone), tcb.Bytes()), hs
				}
				if cb.Value().Cmp(want) != 0 {
					return "coinbase-amount", fmt.Sprintf("block #%d pays %v for share %d/%d of block #%d, formula gives %v", num, cb.Value(), i, len(shares), target.NumberU64(sim.Zone), want), hs
				}
				wantData := append(append([]byte{}, sh.Data()...), sh.Hash().Bytes()...)
				if string(cb.Data()) != string(wantData) {
					return "coinbase-data", fmt.Sprintf("block #%d coinbase ETX %d data does not carry the rewarded header's lock data and hash", num, i), hs
				}
			}
			if paid.Cmp(blockReward) > 0 {
				return "coinbase-overpaid", fmt.Sprintf("block #%d pays %v in total for block #%d whose reward is %v", num, paid, target.NumberU64(sim.Zone), blockReward), hs
			}
		} else if len(coinbases) != 0 {
			return "coinbase-early", fmt.Sprintf("block #%d emits a coinbase ETX although no block is %d levels back", num, params.WorkSharesInclusionDepth), hs
		}
		// ---- H2: credits at exactly the unlock height -----------------------------------------
		if parent != nil {
			pst, err := zone.Core.Processor().StateAt(parent.EVMRoot(), parent.EtxSetRoot(), parent.QuaiStateSize())
			if err != nil {
				return "parent-state", err.Error(), hs
			}
			exists := map[common.InternalAddress]bool{}
			existsAt := func(a common.InternalAddress) bool {
				if v, ok := exists[a]; ok {
					return v
				}
				return pst.Exist(a)
			}
			var want []common.Unlock
			fee := new(big.Int).Mul(new(big.Int).SetUint64(params.CallNewAccountGas(parent.QuaiStateSize())), big.NewInt(params.InitialBaseFee))
			for _, depth := range params.LockupByteToBlockDepth {
				if num <= depth {
					continue
				}
				tb := byNumber[num-depth]
				for _, etx := range tb.Transactions() {
					if etx.Type() != types.ExternalTxType {
						continue
					}
					var amt *big.Int
					if etx.EtxType() == types.CoinbaseType && etx.To().IsInQuaiLedgerScope() && len(etx.Data()) == 1+common.HashLength &&
						params.LockupByteToBlockDepth[etx.Data()[0]] == depth {
						amt = params.CalculateCoinbaseValueWithLockup(etx.Value(), etx.Data()[0], num)
					} else if etx.EtxType() == types.ConversionType && etx.To().IsInQuaiLedgerScope() && depth == params.ConversionLockPeriod {
						amt = new(big.Int).Set(etx.Value())
						hs.convCredits++
					} else {
						continue
					}
					ia, err := etx.To().InternalAddress()
					if err != nil {
						continue
					}
					if !existsAt(ia) {
						if amt.Cmp(fee) < 0 {
							continue // cannot cover the account-creation fee: nothing is credited
						}
						amt = new(big.Int).Sub(amt, fee)
					}
					exists[ia] = true
					want = append(want, common.Unlock{Addr: ia, Amt: amt})
				}
			}
			ul.mu.Lock()
			got, seen := ul.m[b.Hash()]
			ul.mu.Unlock()
			// the node publishes the credits of a block on an event feed consumed by a goroutine of
			// this harness: give the event time to arrive before judging its absence
			for w := 0; !seen && len(want) > 0 && w < 1500; w++ {
				time.Sleep(2 * time.Millisecond)
				ul.mu.Lock()
				got, seen = ul.m[b.Hash()]
				ul.mu.Unlock()
			}
			if seen || len(want) > 0 {
				ws, gs := renderUnlocks(want), renderUnlocks(got)
				if ws != gs {
					return "credits-differ", fmt.Sprintf("block #%d: the node credited %s; rewards/conversions unlocking at this height: %s", num, gs, ws), hs
				}
			}
			hs.credits += len(want)
			// balances of reward-only accounts move by exactly the credits
			st, err := zone.Core.Processor().StateAt(b.EVMRoot(), b.EtxSetRoot(), b.QuaiStateSize())
			if err != nil {
				return "state", err.Error(), hs
			}
			sum := map[common.InternalAddress]*big.Int{}
			for _, u := range want {
				if sum[u.Addr] == nil {
					sum[u.Addr] = new(big.Int)
				}
				sum[u.Addr].Add(sum[u.Addr], u.Amt)
			}
			for ab := range rewardOnly {
				ia := common.InternalAddress(ab)
				delta := new(big.Int).Sub(st.GetBalance(ia), pst.GetBalance(ia))
				w := sum[ia]
				if w == nil {
					w = new(big.Int)
				}
				if delta.Cmp(w) != 0 {
					return "reward-only-balance", fmt.Sprintf("block #%d: reward-only account %x balance moved by %v, credits due at this height sum to %v", num, ia.Bytes()[:4], delta, w), hs
				}
			}
		}
		// ---- H3 / H4: Qi coinbases and contract lockups as executed in this block ---------------
		receipts := zone.Core.Processor().GetReceiptsByHash(b.Hash())
		ri := 0
		for _, tx := range b.Transactions() {
			var rc *types.Receipt
			if ri < len(receipts) {
				rc = receipts[ri]
			}
			ri++
			if tx.Type() != types.ExternalTxType || tx.EtxType() != types.CoinbaseType || len(tx.Data()) == 0 {
				continue
			}
			lb := tx.Data()[0]
			if int(lb) >= len(params.LockupByteToBlockDepth) {
				continue
			}
			adj := params.CalculateCoinbaseValueWithLockup(tx.Value(), lb, num)
			switch len(tx.Data()) {
			case 1 + common.HashLength:
				if tx.To().IsInQiLedgerScope() && rc != nil && rc.Status != types.ReceiptStatusFailed {
					hs.qiCoinbases++
					total := new(big.Int)
					for idx := uint16(0); ; idx++ {
						u := rawdb.GetUTXO(zone.DB, tx.Hash(), idx)
						if u == nil {
							break
						}
						total.Add(total, types.Denominations[u.Denomination])
						if u.Lock == nil || u.Lock.Uint64() != num+params.LockupByteToBlockDepth[lb] {
							// the output may already have been spent/trimmed later on; only live ones are checked
							return "qi-coinbase-lock", fmt.Sprintf("Qi coinbase %x output %d is locked until %v, want inclusion %d + depth %d", tx.Hash().Bytes()[:6], idx, u.Lock, num, params.LockupByteToBlockDepth[lb]), hs
						}
					}
					if total.Cmp(adj) > 0 {
						return "qi-coinbase-amount", fmt.Sprintf("Qi coinbase %x created %v qits, lockup-adjusted reward is %v", tx.Hash().Bytes()[:6], total, adj), hs
					}
				}
			case 1 + common.AddressLength + common.HashLength, 1 + 2*common.AddressLength + common.HashLength:
				if rc != nil && rc.Status != types.ReceiptStatusFailed {
					hs.lockupRewards++
					k := tx.To().IsInQiLedgerScope()
					lockupAccepted[k].Add(lockupAccepted[k], adj)
				}
			}
		}
		for _, e := range b.OutboundEtxs() {
			if e.EtxType() == types.CoinbaseLockupType {
				hs.claims++
				k := e.To().IsInQiLedgerScope()
				lockupClaimed[k].Add(lockupClaimed[k], e.Value())
			}
		}
	}
	// H4 conservation at the head
	stored := map[bool]*big.Int{false: new(big.Int), true: new(big.Int)}
	for _, l := range sim.ScanLockups(zone.DB, sim.ZoneLoc) {
		if l.Balance == nil {
			return "lockup-record-undecodable", fmt.Sprintf("%x", l.Key), hs
		}
		k := l.Miner.IsInQiLedgerScope()
		stored[k].Add(stored[k], l.Balance)
		if l.Elements == 0 || l.UnlockHeight == 0 {
			return "lockup-record-empty", l.String(), hs
		}
	}
	for _, k := range []bool{false, true} {
		lhs := new(big.Int).Add(stored[k], lockupClaimed[k])
		if lhs.Cmp(lockupAccepted[k]) != 0 {
			return "lockup-conservation", fmt.Sprintf("ledger qi=%v: stored tranches %v + claimed %v != accepted contract rewards %v", k, stored[k], lockupClaimed[k], lockupAccepted[k]), hs
		}
	}
	return "", "", hs
}

func renderUnlocks(l []common.Unlock) string {
	var s []string
	for _, u := range l {
		s = append(s, fmt.Sprintf("%x:%v", u.Addr.Bytes()[:4], u.Amt))
	}
	sort.Strings(s)
	return "[" + strings.Join(s, " ") + "]"
}

func TestC13H_History(t *testing.T) {
	rapid.Check(t, func(t *rapid.T) {
		n, err := sim.NewNet(sim.Options{})
		if err != nil {
			t.Fatalf("HARNESS: net: %v", err)
		}
		defer n.Close()
		ul, stop := watchUnlocks(n.Nodes[sim.Zone])
		defer stop()
		trunk := sim.NewActor(n)
		if rapid.IntRange(0, 3).Draw(t, "lockupHeavy") == 0 {
			trunk.StickyPct = 70 // most block rewards go to one contract-held lockup tranche
			stats.Label(partH, "lockup_heavy")
		}
		// reward-only accounts: never send or receive transactions
		ro := sim.QuaiKeys(10)[7:10]
		rewardOnly := map[common.AddressBytes]bool{}
		for _, k := range ro {
			rewardOnly[k.Addr.Bytes20()] = true
		}
		if err := trunk.Prelude(); err != nil {
			t.Fatalf("HARNESS: prelude: %v", err)
		}
		var events []string
		log := &trunk.Log
		dump := func() any { return map[string]any{"history": *log, "events": events} }
		var agg hStats
		badAccepted, badRefused := 0, 0
		check := func(what string) bool {
			fp, msg, hs := checkRewards(n, ul, rewardOnly)
			if fp != "" {
				stats.Violation(t, partH, "C13/H/"+fp, what+": "+msg, dump())
				return false
			}
			if hs.credits > agg.credits || hs.multiShare > agg.multiShare {
				agg = hs
			}
			return true
		}
		step := func(a *sim.Actor, what string) bool {
			if err := a.Adopt(); err != nil {
				t.Fatalf("HARNESS: adopt: %v", err)
			}
			a.Traffic(t)
			if a.ZoneNumber() >= 3 {
				for k := rapid.SampledFrom([]int{0, 0, 0, 1, 1, 2, 3}).Draw(t, "nShares"); k > 0; k-- {
					if _, err := a.WorkShare(t); err != nil {
						t.Fatalf("HARNESS: workshare: %v", err)
					}
				}
			}
			o := a.DrawMineOpts(t, -1)
			if rapid.Bool().Draw(t, "rewardOnlyCoinbase") && o.Coinbase.IsInQuaiLedgerScope() {
				o.Coinbase = ro[rapid.IntRange(0, len(ro)-1).Draw(t, "ro")].Addr
			}
			if a.ZoneNumber() >= 5 && rapid.IntRange(0, 4).Draw(t, "badUncles") == 0 {
				// a block whose uncle list breaks the share rules: refused, or judged by the chain oracle
				if b, kind := a.MineBadUncles(t, o); b != nil {
					events = append(events, fmt.Sprintf("block #%d with bad uncle list (%s) accepted", b.Zone().NumberU64(sim.Zone), kind))
					badAccepted++
				} else {
					badRefused++
				}
				if err := a.Adopt(); err != nil {
					t.Fatalf("HARNESS: adopt: %v", err)
				}
				if !check(what + " (bad uncles)") {
					return false
				}
			}
			if _, err := a.MineOne(o); err != nil {
				t.Fatalf("HARNESS: mine %s: %v\n%s", what, err, strings.Join(a.Log, "\n"))
			}
			if err := a.Adopt(); err != nil {
				t.Fatalf("HARNESS: adopt: %v", err)
			}
			return check(what)
		}
		if !check("after prelude") {
			return
		}
		for i, k := 0, rapid.IntRange(6, 18).Draw(t, "trunk"); i < k; i++ {
			if !step(trunk, "trunk") {
				return
			}
		}
		forked := false
		if rapid.Bool().Draw(t, "fork") {
			forked = true
			A, B := trunk.Fork(2), trunk.Fork(3)
			log = &A.Log
			for i, k := 0, rapid.IntRange(1, 6).Draw(t, "depthA"); i < k; i++ {
				if !step(A, "branch A") {
					return
				}
			}
			log = &B.Log
			for i, k := 0, rapid.IntRange(1, 6).Draw(t, "depthB"); i < k; i++ {
				if !step(B, "branch B") {
					return
				}
			}
			for s, k := 0, rapid.IntRange(1, 3).Draw(t, "switches"); s < k; s++ {
				to, name := A, "A"
				if s%2 == 1 {
					to, name = B, "B"
				}
				events = append(events, "switch to tip of "+name)
				if err := to.Adopt(); err != nil {
					t.Fatalf("HARNESS: switch: %v", err)
				}
				log = &to.Log
				if !check("after switching to " + name) {
					return
				}
			}
		}
		labels := []string{}
		add := func(c bool, l string) {
			if c {
				labels = append(labels, l)
			}
		}
		add(agg.credits > 0, "reward_unlocked")
		add(agg.convCredits > 0, "conversion_credited")
		add(agg.qiCoinbases > 0, "qi_coinbase")
		add(agg.lockupRewards > 0, "contract_lockup_reward")
		add(agg.claims > 0, "lockup_claimed")
		add(agg.multiShare > 0, "multi_share_reward")
		add(agg.uncles > 0, "uncles_included")
		add(badRefused > 0, "bad_uncle_list_refused")
		add(badAccepted > 0, "bad_uncle_list_accepted")
		add(forked, "reorg")
		stats.Case(partH, strings.Join(labels, ","), agg.credits > 0, labels...)
		if agg.credits > 0 && stats.WantSample(partH) {
			stats.Sample(partH, map[string]any{"credits": agg.credits, "conversion_credits": agg.convCredits, "qi_coinbases": agg.qiCoinbases, "contract_rewards": agg.lockupRewards, "claims": agg.claims, "events": events, "tail_of_history": (*log)[max(0, len(*log)-8):]})
		}
	})
}
