// C13 part L (continued) — the lockup-adjusted amount: params.CalculateCoinbaseValueWithLockup is
// the amount every locked reward is credited with (plain and contract-held). Laws taken from its
// documentation in params/protocol_params.go ("the first value represents the multiplier ... for
// the first year, the second value represents the terminal rate, divided by 100,000"; "a linear
// discount based on the block number").
package c13

import (
	"fmt"
	"math/big"
	"testing"

	"github.com/dominant-strategies/go-quai/params"
	"pgregory.net/rapid"

	"verifharness/stats"
)

const c13lValuePart = "lockup-adjusted-amount"

func c13lGenAmount(t *rapid.T, label string) *big.Int {
	switch rapid.IntRange(0, 5).Draw(t, label+"Kind") {
	case 0:
		return big.NewInt(int64(rapid.SampledFrom([]int{0, 1, 2, 3, 99999, 100000, 100001}).Draw(t, label+"Small")))
	case 1:
		return new(big.Int).SetUint64(rapid.Uint64().Draw(t, label+"U64"))
	case 2:
		// around typical rewards: 1e15 .. 1e22
		e := rapid.IntRange(15, 22).Draw(t, label+"Exp")
		v := new(big.Int).Exp(big.NewInt(10), big.NewInt(int64(e)), nil)
		return v.Add(v, big.NewInt(int64(rapid.IntRange(-3, 3).Draw(t, label+"Off"))))
	case 3:
		sh := rapid.SampledFrom([]uint{64, 96, 128, 200, 255}).Draw(t, label+"Shift")
		v := new(big.Int).Lsh(big.NewInt(1), sh)
		return v.Add(v, big.NewInt(int64(rapid.IntRange(-2, 2).Draw(t, label+"Off2"))))
	default:
		return new(big.Int).SetBytes(rapid.SliceOfN(rapid.Byte(), 1, 20).Draw(t, label+"Bytes"))
	}
}

func c13lGenBlock(t *rapid.T, label string) uint64 {
	y, m := params.BlocksPerYear, params.BlocksPerMonth
	anchors := []uint64{0, 1, 2*m - 1, 2 * m, 2*m + 1, y - 1, y, y + 1, 2 * y, 3*y + y/2, 4*y - 1, 4 * y, 5*y - 1, 5 * y, 5*y + 1, 9 * y, 1 << 40}
	if rapid.IntRange(0, 2).Draw(t, label+"Kind") == 0 {
		return rapid.Uint64Range(0, 8*y).Draw(t, label+"Any")
	}
	return rapid.SampledFrom(anchors).Draw(t, label+"Anchor")
}

func TestC13L_LockupValue(t *testing.T) {
	den := big.NewInt(100000)
	rapid.Check(t, func(t *rapid.T) {
		v1 := c13lGenAmount(t, "v1")
		v2 := c13lGenAmount(t, "v2")
		if v1.Cmp(v2) > 0 {
			v1, v2 = v2, v1
		}
		n1, n2 := c13lGenBlock(t, "n1"), c13lGenBlock(t, "n2")
		if n1 > n2 {
			n1, n2 = n2, n1
		}
		lb := uint8(rapid.IntRange(0, params.MaxLockupByte).Draw(t, "lb"))
		dump := map[string]any{"v1": v1.String(), "v2": v2.String(), "n1": n1, "n2": n2, "lockup_byte": lb}
		fail := func(fp, msg string) { stats.Violation(t, c13lValuePart, fp, msg, dump) }
		f := func(v *big.Int, b uint8, n uint64) *big.Int {
			in := new(big.Int).Set(v)
			out := params.CalculateCoinbaseValueWithLockup(in, b, n)
			if in.Cmp(v) != 0 {
				fail("C13/L/lockup-value/mutates-argument", fmt.Sprintf("value %v became %v", v, in))
			}
			return new(big.Int).Set(out)
		}
		labels := []string{fmt.Sprintf("lockup_byte_%d", lb)}
		early := 2 * params.BlocksPerMonth
		for _, n := range []uint64{n1, n2} {
			got := f(v2, lb, n)
			if lb == 0 || n < early {
				if got.Cmp(v2) != 0 {
					fail("C13/L/lockup-value/unadjusted-case-changed", fmt.Sprintf("lockup byte %d at block %d: %v -> %v", lb, n, v2, got))
				}
				continue
			}
			first, term := new(big.Int).SetUint64(params.LockupByteToRewardsMultiple[lb][0]), new(big.Int).SetUint64(params.LockupByteToRewardsMultiple[lb][1])
			hi := new(big.Int).Div(new(big.Int).Mul(v2, first), den)
			lo := new(big.Int).Div(new(big.Int).Mul(v2, term), den)
			if got.Cmp(hi) > 0 {
				fail("C13/L/lockup-value/above-first-year-rate", fmt.Sprintf("lockup byte %d at block %d: %v -> %v > %v", lb, n, v2, got, hi))
			}
			if got.Cmp(lo) < 0 || got.Cmp(v2) < 0 {
				fail("C13/L/lockup-value/below-terminal-rate", fmt.Sprintf("lockup byte %d at block %d: %v -> %v < %v", lb, n, v2, got, lo))
			}
			switch year := n / params.BlocksPerYear; {
			case year == 0:
				labels = append(labels, "first_year")
				if got.Cmp(hi) != 0 {
					fail("C13/L/lockup-value/first-year-rate", fmt.Sprintf("lockup byte %d at block %d: %v -> %v, first-year rate gives %v", lb, n, v2, got, hi))
				}
			case year > 4:
				labels = append(labels, "terminal")
				if got.Cmp(lo) != 0 {
					fail("C13/L/lockup-value/terminal-rate", fmt.Sprintf("lockup byte %d at block %d: %v -> %v, terminal rate gives %v", lb, n, v2, got, lo))
				}
			default:
				labels = append(labels, "interpolated")
			}
		}
		// monotone in the amount
		if a, b := f(v1, lb, n1), f(v2, lb, n1); a.Cmp(b) > 0 {
			fail("C13/L/lockup-value/not-monotone-in-amount", fmt.Sprintf("lockup byte %d block %d: f(%v)=%v > f(%v)=%v", lb, n1, v1, a, v2, b))
		}
		// the rate only decays with the block number (once the adjustment applies at all)
		if n1 >= early {
			if a, b := f(v2, lb, n1), f(v2, lb, n2); a.Cmp(b) < 0 {
				fail("C13/L/lockup-value/rate-grows-with-height", fmt.Sprintf("lockup byte %d value %v: block %d -> %v < block %d -> %v", lb, v2, n1, a, n2, b))
			}
		}
		// a longer lockup never pays less
		if lb < uint8(params.MaxLockupByte) {
			if a, b := f(v2, lb, n2), f(v2, lb+1, n2); a.Cmp(b) > 0 {
				fail("C13/L/lockup-value/longer-lockup-pays-less", fmt.Sprintf("value %v block %d: byte %d -> %v > byte %d -> %v", v2, n2, lb, a, lb+1, b))
			}
		}
		nontrivial := lb != 0 && n2 >= early && v2.Sign() > 0
		if n1 < early && n2 >= early {
			labels = append(labels, "straddles_two_months")
		}
		stats.Case(c13lValuePart, fmt.Sprintf("%v/bits%d/y%d-%d", labels, v2.BitLen()/16, min(n1/params.BlocksPerYear, 9), min(n2/params.BlocksPerYear, 9)), nontrivial, labels...)
		if nontrivial && stats.WantSample(c13lValuePart) {
			stats.Sample(c13lValuePart, dump)
		}
	})
}
