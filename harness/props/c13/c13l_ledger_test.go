// C13 part L — contract-held coinbase lockups: accumulate per (contract, miner, lockup byte,
// epoch); claimable only by the owning contract, only after the tranche unlock height, only once,
// for exactly the accumulated balance (DESIGN.md §4 C13 (L)).
//
// Function-level state machine over vm.AddNewLock (called the way core/state_processor.go calls
// it), vm.ClaimCoinbaseLockup / vm.RunLockupContract / evm.Call(lockup contract) and
// rawdb.ReadCoinbaseLockup on a real state.StateDB and block batch, against a reference ledger.
package c13

import (
	"bytes"
	"encoding/binary"
	"fmt"
	"math/big"
	"sort"
	"strings"
	"testing"

	"github.com/dominant-strategies/go-quai/common"
	"github.com/dominant-strategies/go-quai/core/rawdb"
	"github.com/dominant-strategies/go-quai/core/state"
	"github.com/dominant-strategies/go-quai/core/types"
	"github.com/dominant-strategies/go-quai/core/vm"
	"github.com/dominant-strategies/go-quai/ethdb"
	"github.com/dominant-strategies/go-quai/params"
	"pgregory.net/rapid"

	"verifharness/evmgen"
	"verifharness/stats"
)

const c13lPart = "lockup-ledger"

// Fingerprint of the finding recorded while building this check (see the regress test).
const c13lFpUndoDelegate = "C13/L/AddNewLock/undo-data-carries-new-delegate"

// ---- protocol parameter regimes ----------------------------------------------------------------

// The epoch length and the lockup depths are package variables of params. With the main-net
// values every tranche unlocks after its epoch has rotated, so the "epoch < current epoch" rule
// and the "unlock height reached" rule can only be told apart with other (smaller) values; the
// property is stated for all reward schedules, so both kinds of regime are generated.
type c13lRegime struct {
	name   string
	epoch  uint64
	depth  [4]uint64
	kickIn uint64
}

// captured before any init() of this package can rescale the variables
var c13lMainnet = c13lRegime{"mainnet", params.CoinbaseEpochBlocks, params.LockupByteToBlockDepth, params.CoinbaseLockupPrecompileKickInHeight}

// The scaled regimes start at or after the first epoch boundary: a tranche unlock height of 0 is
// the "no record" sentinel of the record encoding and cannot occur with the main-net values
// (every depth exceeds the epoch length).
var c13lScaled = []c13lRegime{
	{"scaled-500", 500, [4]uint64{40, 300, 600, 1200}, 500},
	{"scaled-64", 64, [4]uint64{64, 100, 128, 1000}, 64},
}

func (r c13lRegime) install() (restore func()) {
	oe, od, ok, oc := params.CoinbaseEpochBlocks, params.LockupByteToBlockDepth, params.CoinbaseLockupPrecompileKickInHeight, params.ConversionLockPeriod
	params.CoinbaseEpochBlocks, params.LockupByteToBlockDepth, params.CoinbaseLockupPrecompileKickInHeight = r.epoch, r.depth, r.kickIn
	params.ConversionLockPeriod = r.depth[0]
	return func() {
		params.CoinbaseEpochBlocks, params.LockupByteToBlockDepth, params.CoinbaseLockupPrecompileKickInHeight, params.ConversionLockPeriod = oe, od, ok, oc
	}
}

// ---- addresses ---------------------------------------------------------------------------------

type c13lAddr struct {
	name string
	b    [20]byte
}

func c13lA(name string, a common.Address) c13lAddr { return c13lAddr{name, a.Bytes20()} }

func (a c13lAddr) addr() common.Address { return common.Bytes20ToAddress(a.b, evmgen.Loc) }
func (a c13lAddr) internal() bool       { return common.IsInChainScope(a.b[:], evmgen.Loc) }
func (a c13lAddr) qi() bool             { return a.b[1] > 127 }

type c13lUniverse struct {
	contracts  []c13lAddr // in-zone Quai addresses that carry code
	badOwners  []c13lAddr // not an in-zone Quai address
	miners     []c13lAddr // in-zone, Quai and Qi ledger
	badMiners  []c13lAddr // other zones
	delegates  []c13lAddr // first is "none"
	bystanders []c13lAddr // callers that never own a record (EOA, miner, delegate)
	tosQuai    []c13lAddr
	tosQi      []c13lAddr
}

func c13lUni() *c13lUniverse {
	u := evmgen.U()
	un := &c13lUniverse{}
	for i := 0; i < 3; i++ {
		un.contracts = append(un.contracts, c13lA(fmt.Sprintf("contract%d", i), u.Contracts[i]))
	}
	un.badOwners = []c13lAddr{c13lA("qiOwner", u.InZoneQi[0]), c13lA("foreignOwner", u.ForeignQuai[0])}
	un.miners = []c13lAddr{c13lA("minerQuai", u.Miners[0]), c13lA("minerQi", u.Miners[1]), c13lA("minerQi2", u.InZoneQi[1])}
	un.badMiners = []c13lAddr{c13lA("foreignMiner", u.ForeignQuai[1]), c13lA("foreignQiMiner", u.ForeignQi[0])}
	un.delegates = []c13lAddr{{"none", [20]byte{}}, c13lA("delegA", u.Contracts[3]), c13lA("delegB", u.EOAs[1].Addr), c13lA("delegForeign", u.ForeignQuai[2])}
	un.bystanders = []c13lAddr{c13lA("eoa", u.EOAs[0].Addr), c13lA("minerQuai", u.Miners[0]), c13lA("delegA", u.Contracts[3]), c13lA("contract4", u.Contracts[4])}
	un.tosQuai = []c13lAddr{c13lA("toQuai", u.EOAs[2].Addr), c13lA("toQuaiForeign", u.ForeignQuai[0]), c13lA("toMinerQuai", u.Miners[0])}
	un.tosQi = []c13lAddr{c13lA("toQi", u.InZoneQi[0]), c13lA("toQiForeign", u.ForeignQi[1]), c13lA("toMinerQi", u.Miners[1])}
	return un
}

// ---- reference ledger --------------------------------------------------------------------------

type c13lKey struct {
	owner, miner [20]byte
	lb           byte
	epoch        uint32
}

type c13lRec struct {
	bal      *big.Int
	unlock   uint32
	elems    int
	delegate [20]byte
	hash     common.Hash // commitment hash handed out when the record was last written
	rewards  int         // bookkeeping for labels
	blocks   int
	lastBlk  uint64
}

func (r *c13lRec) clone() *c13lRec {
	c := *r
	c.bal = new(big.Int).Set(r.bal)
	return &c
}

type c13lLedger struct {
	recs     map[c13lKey]*c13lRec
	credited *big.Int // sum of accepted rewards
	claimed  *big.Int // sum of claim ETX values
	spent    map[c13lKey]bool
}

func newC13lLedger() *c13lLedger {
	return &c13lLedger{recs: map[c13lKey]*c13lRec{}, credited: new(big.Int), claimed: new(big.Int), spent: map[c13lKey]bool{}}
}

func (l *c13lLedger) clone() *c13lLedger {
	c := newC13lLedger()
	for k, r := range l.recs {
		c.recs[k] = r.clone()
	}
	for k := range l.spent {
		c.spent[k] = true
	}
	c.credited.Set(l.credited)
	c.claimed.Set(l.claimed)
	return c
}

func (l *c13lLedger) liveKeys() []c13lKey {
	ks := make([]c13lKey, 0, len(l.recs))
	for k := range l.recs {
		ks = append(ks, k)
	}
	sort.Slice(ks, func(i, j int) bool { return c13lKeyLess(ks[i], ks[j]) })
	return ks
}

func c13lKeyLess(a, b c13lKey) bool {
	if c := bytes.Compare(a.owner[:], b.owner[:]); c != 0 {
		return c < 0
	}
	if c := bytes.Compare(a.miner[:], b.miner[:]); c != 0 {
		return c < 0
	}
	if a.lb != b.lb {
		return a.lb < b.lb
	}
	return a.epoch < b.epoch
}

// ---- the system under test ---------------------------------------------------------------------

type c13lSim struct {
	tb      stats.TB
	part    string
	quiet   bool // skip the full comparison after each step (long deterministic runs)
	un      *c13lUniverse
	kv      ethdb.Database
	sdb     *state.StateDB
	batch   ethdb.Batch
	evm     *vm.EVM
	txNo    uint64
	height  uint64
	ptn     uint64
	led     *c13lLedger
	ledAtBl *c13lLedger // ledger at the start of the block under construction
	touched map[c13lKey]bool
	hist    []string
	labels  map[string]bool
}

func (s *c13lSim) logf(f string, a ...any) {
	if !s.quiet {
		s.hist = append(s.hist, fmt.Sprintf(f, a...))
	}
}
func (s *c13lSim) label(l string) { s.labels[l] = true }

func (s *c13lSim) dump() map[string]any {
	return map[string]any{"history": s.hist, "height": s.height, "epoch_blocks": params.CoinbaseEpochBlocks, "depths": params.LockupByteToBlockDepth}
}

func (s *c13lSim) viol(fp, msg string) {
	stats.Violation(s.tb, s.part, fp, msg, s.dump())
}

func (s *c13lSim) name(b [20]byte) string {
	for _, l := range [][]c13lAddr{s.un.contracts, s.un.badOwners, s.un.miners, s.un.badMiners, s.un.delegates, s.un.bystanders, s.un.tosQuai, s.un.tosQi} {
		for _, a := range l {
			if a.b == b {
				return a.name
			}
		}
	}
	return fmt.Sprintf("%x", b)
}

func (s *c13lSim) keyStr(k c13lKey) string {
	return fmt.Sprintf("(%s,%s,lb%d,ep%d)", s.name(k.owner), s.name(k.miner), k.lb, k.epoch)
}

func (s *c13lSim) curEpoch() uint32 { return uint32(s.height/params.CoinbaseEpochBlocks + 1) }

func (s *c13lSim) newBatch() {
	s.batch = s.kv.NewBatch()
	s.batch.SetPending(true) // StateProcessor.Process / worker do this for the block batch
	s.evm = nil
}

// newTx gives a fresh EVM, as ApplyTransaction creates one per transaction.
func (s *c13lSim) newTx() {
	s.txNo++
	var h common.Hash
	binary.BigEndian.PutUint64(h[24:], s.txNo)
	h[0] = 0x13
	bctx := vm.BlockContext{
		CanTransfer:         func(vm.StateDB, common.Address, *big.Int) bool { return true },
		Transfer:            func(vm.StateDB, common.Address, common.Address, *big.Int) error { return nil },
		GetHash:             func(uint64) common.Hash { return common.Hash{} },
		CheckIfEtxEligible:  func(common.Hash, common.Location) bool { return true },
		PrimaryCoinbase:     s.un.bystanders[0].addr(),
		GasLimit:            12_000_000,
		BlockNumber:         new(big.Int).SetUint64(s.height),
		Time:                big.NewInt(1_700_000_000),
		Difficulty:          big.NewInt(1000),
		BaseFee:             big.NewInt(1),
		QuaiStateSize:       big.NewInt(0),
		PrimeTerminusNumber: s.ptn,
	}
	s.evm = vm.NewEVM(bctx, vm.TxContext{Origin: s.un.bystanders[0].addr(), GasPrice: big.NewInt(1), Hash: h}, s.sdb, evmgen.ChainConfig(), vm.Config{}, s.batch)
}

type c13lView struct {
	bal      *big.Int
	unlock   uint32
	elems    uint16
	delegate [20]byte
}

func (s *c13lSim) read(k c13lKey) c13lView {
	bal, unlock, elems, del := rawdb.ReadCoinbaseLockup(s.kv, s.batch, common.Bytes20ToAddress(k.owner, evmgen.Loc), common.Bytes20ToAddress(k.miner, evmgen.Loc), k.lb, k.epoch)
	return c13lView{bal, unlock, elems, del.Bytes20()}
}

func c13lViewOf(r *c13lRec) c13lView {
	if r == nil {
		return c13lView{bal: new(big.Int)}
	}
	return c13lView{new(big.Int).Set(r.bal), r.unlock, uint16(r.elems), r.delegate}
}

func (v c13lView) eq(o c13lView) bool {
	return v.bal.Cmp(o.bal) == 0 && v.unlock == o.unlock && v.elems == o.elems && v.delegate == o.delegate
}

func (v c13lView) String() string {
	return fmt.Sprintf("{bal %v unlock %d elems %d delegate %x}", v.bal, v.unlock, v.elems, v.delegate)
}

// compareAll: every key this history ever touched reads exactly as the reference ledger says,
// and value is conserved: accepted rewards = claimed + still recorded.
func (s *c13lSim) compareAll(where string) {
	if s.quiet {
		return
	}
	live := new(big.Int)
	for k := range s.touched {
		got, want := s.read(k), c13lViewOf(s.led.recs[k])
		if !got.eq(want) {
			s.viol("C13/L/record-differs-from-ledger/after="+strings.SplitN(where, " ", 2)[0], fmt.Sprintf("after %s: record %s reads %v, reference ledger has %v", where, s.keyStr(k), got, want))
		}
		live.Add(live, got.bal)
	}
	if new(big.Int).Add(live, s.led.claimed).Cmp(s.led.credited) != 0 {
		s.viol("C13/L/value-not-conserved", fmt.Sprintf("after %s: accepted rewards %v != claimed %v + recorded %v", where, s.led.credited, s.led.claimed, live))
	}
}

func c13lDecodeRecord(data []byte) (c13lView, bool) {
	if len(data) != 38 && len(data) != 58 {
		return c13lView{bal: new(big.Int)}, false
	}
	v := c13lView{bal: new(big.Int).SetBytes(data[:32]), unlock: binary.BigEndian.Uint32(data[32:36]), elems: binary.BigEndian.Uint16(data[36:38])}
	if len(data) == 58 {
		copy(v.delegate[:], data[38:])
	}
	return v, true
}

// reward mirrors the contract-lockup branch of StateProcessor.Process for one coinbase ETX of the
// block under construction: lockup byte <= 3, recipient in-zone, contract with code, height past
// the precompile kick-in are checked by the caller; then AddNewLock(statedb, batch, contract,
// miner, delegate, OneInternal, byte, height+depth, height/epochBlocks+1, adjusted value).
func (s *c13lSim) reward(owner, miner, delegate c13lAddr, lb byte, raw *big.Int, wellFormed bool) (rejected bool) {
	unlockHeight := params.LockupByteToBlockDepth[lb] + s.height
	epoch := s.curEpoch()
	value := params.CalculateCoinbaseValueWithLockup(raw, lb, s.height)
	k := c13lKey{owner.b, miner.b, lb, epoch}
	s.touched[k] = true
	prev := s.led.recs[k]
	prevView := c13lViewOf(prev)
	valueBefore := new(big.Int).Set(value)
	deleted, oldData, key, oldHash, newHash, err := vm.AddNewLock(s.sdb, s.batch, owner.addr(), miner.addr(), delegate.addr(), common.OneInternal(evmgen.Loc), lb, unlockHeight, epoch, value, evmgen.Loc, evmgen.Logger, common.Hash{}, true)
	s.logf("h=%d reward %s delegate=%s raw=%v value=%v -> err=%v", s.height, s.keyStr(k), delegate.name, raw, value, err)
	if value.Cmp(valueBefore) != 0 {
		s.viol("C13/L/AddNewLock/mutates-value-argument", fmt.Sprintf("value argument changed from %v to %v", valueBefore, value))
	}
	if err != nil {
		if wellFormed {
			s.viol("C13/L/AddNewLock/valid-reward-refused", fmt.Sprintf("reward for %s value %v refused: %v", s.keyStr(k), value, err))
		}
		s.label("reward_rejected")
		s.compareAll("rejected-reward " + s.keyStr(k))
		return true
	}
	// the reference update: first reward of the tranche fixes the unlock height (unlock height of
	// that reward rounded down to an epoch boundary); every reward adds its value and one element
	// and installs the delegate it names
	var rec *c13lRec
	if prev == nil {
		rec = &c13lRec{bal: new(big.Int), unlock: uint32(unlockHeight - unlockHeight%params.CoinbaseEpochBlocks)}
		s.led.recs[k] = rec
	} else {
		rec = prev
		if rec.delegate != delegate.b {
			s.label("delegate_changed")
		}
	}
	rec.bal.Add(rec.bal, value)
	rec.elems++
	rec.delegate = delegate.b
	rec.rewards++
	if rec.blocks == 0 || rec.lastBlk != s.height {
		rec.blocks++
		rec.lastBlk = s.height
	}
	s.led.credited.Add(s.led.credited, value)
	if rec.rewards >= 2 {
		if rec.blocks >= 2 {
			s.label("accumulate_across_blocks")
		}
		if rec.rewards > rec.blocks {
			s.label("accumulate_same_block")
		}
	}
	if delegate.b != ([20]byte{}) {
		s.label("with_delegate")
	}
	for o := range s.led.recs {
		if o.owner == k.owner && o.miner == k.miner && o.lb == k.lb && o.epoch != k.epoch {
			s.label("same_miner_two_epochs_live")
		}
	}
	// bookkeeping the block processor relies on: created/deleted flag, undo data, commitment hashes
	if !bytes.Equal(key, rawdb.CoinbaseLockupKey(owner.addr(), miner.addr(), lb, epoch)) {
		s.viol("C13/L/AddNewLock/returned-key", fmt.Sprintf("returned key %x is not the record key of %s", key, s.keyStr(k)))
	}
	if deleted != (prev != nil) {
		s.viol("C13/L/AddNewLock/deleted-flag", fmt.Sprintf("%s: deleted=%v but a previous record existed=%v", s.keyStr(k), deleted, prev != nil))
	}
	if prev != nil {
		if oldHash != rec.hash {
			s.viol("C13/L/commitment/removed-hash-was-never-added", fmt.Sprintf("%s: AddNewLock removes commitment %x, the record was committed as %x", s.keyStr(k), oldHash, rec.hash))
		}
		undo, ok := c13lDecodeRecord(oldData)
		if !ok {
			s.viol("C13/L/AddNewLock/undo-data-malformed", fmt.Sprintf("%s: undo data %x", s.keyStr(k), oldData))
		} else if !undo.eq(prevView) {
			onlyDelegate := undo.bal.Cmp(prevView.bal) == 0 && undo.unlock == prevView.unlock && undo.elems == prevView.elems && undo.delegate == delegate.b
			if onlyDelegate {
				s.label("undo_data_delegate_mismatch")
				if stats.IsKnown(c13lFpUndoDelegate) {
					stats.Excluded(c13lFpUndoDelegate)
				} else {
					s.viol(c13lFpUndoDelegate, fmt.Sprintf("%s: the undo data returned for the block's rollback is %v but the record before this reward was %v (delegate of the new reward instead of the stored one)", s.keyStr(k), undo, prevView))
				}
			} else {
				s.viol("C13/L/AddNewLock/undo-data-mismatch", fmt.Sprintf("%s: undo data %v, record before the reward %v", s.keyStr(k), undo, prevView))
			}
		}
	} else if oldHash != (common.Hash{}) {
		s.viol("C13/L/commitment/removed-hash-was-never-added", fmt.Sprintf("%s: new tranche but AddNewLock reports removed commitment %x", s.keyStr(k), oldHash))
	}
	if want := types.CoinbaseLockupHash(owner.addr(), miner.addr(), delegate.addr(), lb, epoch, rec.bal, rec.unlock, uint16(rec.elems)); newHash != want {
		s.viol("C13/L/commitment/new-hash-not-of-record", fmt.Sprintf("%s: AddNewLock commits %x, hash of the stored record is %x", s.keyStr(k), newHash, want))
	}
	rec.hash = newHash
	s.compareAll("reward " + s.keyStr(k))
	return false
}

type c13lClaim struct {
	caller, miner, to c13lAddr
	lb                byte
	epoch             uint32
	etxGas, gas       uint64
	entry             int // 0 ClaimCoinbaseLockup, 1 RunLockupContract, 2 evm.Call
}

func (c *c13lClaim) input() []byte {
	in := make([]byte, 53)
	copy(in[0:20], c.miner.b[:])
	copy(in[20:40], c.to.b[:])
	in[40] = c.lb
	binary.BigEndian.PutUint32(in[41:45], c.epoch)
	binary.BigEndian.PutUint64(in[45:53], c.etxGas)
	return in
}

func (s *c13lSim) cacheHashes() []common.Hash {
	hs := make([]common.Hash, len(s.evm.ETXCache))
	for i, e := range s.evm.ETXCache {
		hs[i] = e.Hash()
	}
	return hs
}

func (s *c13lSim) claim(c *c13lClaim) (ok bool) {
	if s.evm == nil {
		s.newTx()
	}
	k := c13lKey{c.caller.b, c.miner.b, c.lb, c.epoch}
	s.touched[k] = true
	rec := s.led.recs[k]
	cur := s.curEpoch()
	// what the property allows
	reason := ""
	switch {
	case rec == nil:
		reason = "no-record-for-caller"
		for o := range s.led.recs {
			if o.miner == k.miner && o.lb == k.lb && o.epoch == k.epoch {
				reason = "caller-is-not-the-owning-contract"
				s.label("claim_by_non_owner")
			}
		}
		if s.led.spent[k] {
			reason = "already-claimed"
			s.label("claim_repeated")
		}
	case rec.elems <= 0:
		reason = "no-elements"
	case c.epoch >= cur:
		reason = "epoch-not-rotated"
	case uint64(rec.unlock) > s.height:
		reason = "before-unlock-height"
	}
	allowed := reason == ""
	// caller-side preconditions of the precompile under which an allowed claim must go through
	sameLedger := c.miner.qi() == c.to.qi()
	pre := c.gas >= c.etxGas && sameLedger && c.caller.internal() && !c.caller.qi() && c.miner.internal()
	if rec != nil {
		switch {
		case c.epoch >= cur && uint64(rec.unlock) <= s.height:
			s.label("claim_in_current_epoch_after_unlock")
		case c.epoch < cur && uint64(rec.unlock) == s.height+1:
			s.label("claim_one_block_before_unlock")
		case c.epoch < cur && uint64(rec.unlock) > s.height:
			s.label("claim_before_unlock")
		}
		if !sameLedger {
			s.label("claim_wrong_ledger")
		}
	}
	if c.lb > 3 {
		s.label("claim_invalid_lockup_byte")
	}

	before := s.cacheHashes()
	delHashesBefore := len(s.evm.CoinbaseDeletedHashes)
	gas := c.gas
	var err error
	switch c.entry {
	case 0:
		err = vm.ClaimCoinbaseLockup(s.evm, c.caller.addr(), &gas, c.input())
	case 1:
		var ret []byte
		ret, err = vm.RunLockupContract(s.evm, c.caller.addr(), &gas, c.input())
		if err == nil && !bytes.Equal(ret, []byte{1}) {
			s.viol("C13/L/claim/return-data", fmt.Sprintf("successful claim returned %x", ret))
		}
	default:
		_, gas, _, err = s.evm.Call(vm.AccountRef(c.caller.addr()), evmgen.U().Lockup, c.input(), c.gas, new(big.Int))
	}
	s.logf("h=%d claim caller=%s %s to=%s etxGas=%d gas=%d entry=%d -> err=%v (ledger says: %s)", s.height, c.caller.name, s.keyStr(k), c.to.name, c.etxGas, c.gas, c.entry, err, map[bool]string{true: "claimable", false: reason}[allowed])
	after := s.cacheHashes()
	for i := range before {
		if i >= len(after) || after[i] != before[i] {
			s.viol("C13/L/claim/earlier-etx-disturbed", fmt.Sprintf("ETX cache entry %d changed by a claim", i))
			break
		}
	}
	if err != nil {
		if allowed && pre {
			fp := "C13/L/claim-refused/claimable-tranche"
			if rec.elems > 0 && uint16(rec.elems) == 0 {
				fp = c13lFpElementsWrap
			}
			s.viol(fp, fmt.Sprintf("claim of %s by its owner at height %d (epoch %d, unlock %d, %d elements, balance %v) refused: %v", s.keyStr(k), s.height, cur, rec.unlock, rec.elems, rec.bal, err))
		}
		if len(after) != len(before) {
			s.viol("C13/L/claim-refused/etx-emitted", fmt.Sprintf("refused claim (%v) left %d new ETX(s)", err, len(after)-len(before)))
		}
		s.compareAll("refused-claim " + s.keyStr(k))
		return false
	}
	// success
	if !allowed {
		s.viol("C13/L/claim-accepted/"+reason, fmt.Sprintf("claim caller=%s %s at height %d (current epoch %d) succeeded although: %s; ledger record: %v", c.caller.name, s.keyStr(k), s.height, cur, reason, c13lViewOf(rec)))
		// keep the reference usable for the rest of the dump
		if rec == nil {
			return true
		}
	}
	if len(after) != len(before)+1 {
		s.viol(fmt.Sprintf("C13/L/claim-accepted/etx-count=%d", len(after)-len(before)), fmt.Sprintf("successful claim of %s emitted %d ETXs", s.keyStr(k), len(after)-len(before)))
		return true
	}
	etx := s.evm.ETXCache[len(after)-1]
	if etx.Type() != types.ExternalTxType || etx.EtxType() != uint64(types.CoinbaseLockupType) {
		s.viol("C13/L/claim-accepted/etx-type", fmt.Sprintf("claim ETX has type %d/%d", etx.Type(), etx.EtxType()))
	}
	if etx.Value().Cmp(rec.bal) != 0 {
		s.viol("C13/L/claim-accepted/etx-value-not-accumulated-balance", fmt.Sprintf("claim of %s emitted an ETX for %v, accumulated balance is %v", s.keyStr(k), etx.Value(), rec.bal))
	}
	if etx.To() == nil || etx.To().Bytes20() != c.to.b {
		s.viol("C13/L/claim-accepted/etx-recipient", fmt.Sprintf("claim ETX goes to %v, requested %x", etx.To(), c.to.b))
	}
	if etx.ETXSender().Bytes20() != c.caller.b {
		s.viol("C13/L/claim-accepted/etx-sender", fmt.Sprintf("claim ETX sender %x, owning contract %x", etx.ETXSender().Bytes20(), c.caller.b))
	}
	for i := range before {
		if before[i] == after[len(after)-1] {
			s.viol("C13/L/claim-accepted/etx-identity-reused", fmt.Sprintf("claim ETX %x has the same hash as cache entry %d", after[len(after)-1], i))
		}
	}
	if len(before) > 0 {
		s.label("two_etxs_in_one_tx")
	}
	// commitment and undo bookkeeping handed to the block processor
	if len(s.evm.CoinbaseDeletedHashes) != delHashesBefore+1 {
		s.viol("C13/L/commitment/claim-removed-count", fmt.Sprintf("claim appended %d removed commitments", len(s.evm.CoinbaseDeletedHashes)-delHashesBefore))
	} else if h := *s.evm.CoinbaseDeletedHashes[delHashesBefore]; h != rec.hash {
		s.viol("C13/L/commitment/removed-hash-was-never-added", fmt.Sprintf("claim of %s removes commitment %x, the record was committed as %x", s.keyStr(k), h, rec.hash))
	}
	var kk [rawdb.CoinbaseLockupKeyLength]byte
	copy(kk[:], rawdb.CoinbaseLockupKey(c.caller.addr(), c.miner.addr(), c.lb, c.epoch))
	if undo, ok := c13lDecodeRecord(s.evm.CoinbasesDeleted[kk]); !ok || !undo.eq(c13lViewOf(rec)) {
		s.viol("C13/L/claim-accepted/undo-data-mismatch", fmt.Sprintf("claim of %s stored undo data %v, record was %v", s.keyStr(k), undo, c13lViewOf(rec)))
	}
	if uint64(rec.unlock) == s.height {
		s.label("claim_exactly_at_unlock")
	} else if uint64(c.epoch)*params.CoinbaseEpochBlocks == s.height {
		s.label("claim_exactly_at_epoch_rotation")
	} else {
		s.label("claim_after_unlock")
	}
	if rec.rewards >= 2 {
		s.label("accumulate_then_claim")
	}
	s.label("claim_ok")
	s.led.claimed.Add(s.led.claimed, etx.Value())
	delete(s.led.recs, k)
	s.led.spent[k] = true
	s.compareAll("claim " + s.keyStr(k))
	return true
}

// query: the two read functions of the precompile and the raw accessor agree with the ledger.
func (s *c13lSim) query(caller, miner c13lAddr, lb byte, epoch uint32, latest bool) {
	if s.evm == nil {
		s.newTx()
	}
	var in []byte
	in = append(in, miner.b[:]...)
	in = append(in, lb)
	if latest {
		epoch = s.curEpoch()
	} else {
		in = binary.BigEndian.AppendUint32(in, epoch)
	}
	k := c13lKey{caller.b, miner.b, lb, epoch}
	s.touched[k] = true
	gas := uint64(100000)
	ret, err := vm.RunLockupContract(s.evm, caller.addr(), &gas, in)
	s.logf("h=%d query caller=%s %s latest=%v -> err=%v", s.height, caller.name, s.keyStr(k), latest, err)
	s.label("query")
	if err != nil {
		// the 25-byte form refuses callers / miners that cannot hold a record
		if latest || (caller.internal() && !caller.qi() && miner.internal()) {
			s.viol("C13/L/query-refused", fmt.Sprintf("query %s refused: %v", s.keyStr(k), err))
		}
		return
	}
	want := c13lViewOf(s.led.recs[k])
	if len(ret) != 128 {
		s.viol("C13/L/query-result", fmt.Sprintf("query returned %d bytes", len(ret)))
		return
	}
	got := c13lView{bal: new(big.Int).SetBytes(ret[32:64]), unlock: binary.BigEndian.Uint32(ret[28:32]), elems: binary.BigEndian.Uint16(ret[94:96])}
	copy(got.delegate[:], ret[108:128])
	if !got.eq(want) || !bytes.Equal(ret[0:28], make([]byte, 28)) || !bytes.Equal(ret[64:94], make([]byte, 30)) || !bytes.Equal(ret[96:108], make([]byte, 12)) {
		s.viol("C13/L/query-result", fmt.Sprintf("query %s returned %v (%x), ledger has %v", s.keyStr(k), got, ret, want))
	}
	if s.led.recs[k] != nil {
		s.label("query_live_record")
	}
}

func (s *c13lSim) commitBlock(next uint64) {
	if err := s.batch.Write(); err != nil {
		s.tb.Fatalf("HARNESS: batch write: %v", err)
	}
	s.newBatch()
	s.compareAll("commit block")
	s.logf("h=%d block committed; next height %d (epoch %d -> %d)", s.height, next, s.curEpoch(), uint32(next/params.CoinbaseEpochBlocks+1))
	if uint32(next/params.CoinbaseEpochBlocks+1) != s.curEpoch() {
		s.label("epoch_rotated")
	}
	s.height = next
	s.ledAtBl = s.led.clone()
}

// dropBlock: the block under construction is rejected; its batch is discarded.
func (s *c13lSim) dropBlock() {
	s.newBatch()
	s.led = s.ledAtBl.clone()
	s.logf("h=%d block dropped (batch discarded)", s.height)
	s.label("block_dropped")
	s.compareAll("drop block")
}

// ---- generator ---------------------------------------------------------------------------------

var c13lValues = []*big.Int{
	big.NewInt(1), big.NewInt(2), big.NewInt(99999), big.NewInt(1_000_000_007),
	new(big.Int).Exp(big.NewInt(10), big.NewInt(18), nil), new(big.Int).Mul(big.NewInt(7), new(big.Int).Exp(big.NewInt(10), big.NewInt(18), nil)),
	new(big.Int).Exp(big.NewInt(10), big.NewInt(21), nil), new(big.Int).Lsh(big.NewInt(1), 64), new(big.Int).Sub(new(big.Int).Lsh(big.NewInt(1), 96), big.NewInt(1)),
}

// c13lDrawN draws an (almost) uniform integer in [0,n): rapid's integer generators favour small
// values, which would distort the operation weights below.
func c13lDrawN(t *rapid.T, label string, n int) int {
	v := 0
	for _, b := range rapid.SliceOfN(rapid.Bool(), 10, 10).Draw(t, label) {
		v <<= 1
		if b {
			v |= 1
		}
	}
	return v * n / 1024
}

func c13lPick[T any](t *rapid.T, label string, xs []T) T {
	return xs[rapid.IntRange(0, len(xs)-1).Draw(t, label)]
}

func (s *c13lSim) genStartHeight(t *rapid.T) uint64 {
	e := params.CoinbaseEpochBlocks
	k := params.CoinbaseLockupPrecompileKickInHeight
	year := params.BlocksPerYear
	cands := []uint64{k, k + 1, (k/e+1)*e - 2, (k/e + 1) * e, (k/e+3)*e + e/2}
	if e == c13lMainnet.epoch {
		cands = append(cands, 2*params.BlocksPerMonth-1, 2*params.BlocksPerMonth+7, year-1, year+e, 3*year+11, 5*year-1, 5*year+3)
	}
	return c13lPick(t, "start", cands)
}

// nextHeight draws the height of the next block: mostly +1, otherwise a target around an epoch
// boundary or around the unlock height of a live tranche.
func (s *c13lSim) nextHeight(t *rapid.T) uint64 {
	e := params.CoinbaseEpochBlocks
	var cands []uint64
	add := func(h uint64) {
		if h > s.height {
			cands = append(cands, h)
		}
	}
	boundary := (s.height/e + 1) * e
	switch c13lDrawN(t, "jump", 10) {
	case 0, 1, 2:
		return s.height + 1
	case 4:
		add(boundary - 1)
		add(boundary)
		add(boundary + 1)
	case 5:
		add(s.height + params.LockupByteToBlockDepth[rapid.IntRange(0, 3).Draw(t, "depthOf")])
		add(s.height + 2)
	default:
		for _, k := range s.led.liveKeys() {
			r := s.led.recs[k]
			u := uint64(r.unlock)
			rot := uint64(k.epoch) * e // first height at which the epoch has rotated
			first := u
			if rot > first {
				first = rot
			}
			add(u - 1)
			add(u)
			add(u + 1)
			add(first - 1)
			add(first)
			add(first + 3)
		}
	}
	if len(cands) == 0 {
		return s.height + 1
	}
	return c13lPick(t, "target", cands)
}

func (s *c13lSim) genReward(t *rapid.T) {
	un := s.un
	live := s.led.liveKeys()
	cur := s.curEpoch()
	var owner, miner c13lAddr
	var lb byte
	// bias: keep feeding tranches of the current epoch so that they accumulate
	var curKeys []c13lKey
	for _, k := range live {
		if k.epoch == cur {
			curKeys = append(curKeys, k)
		}
	}
	if len(curKeys) > 0 && c13lDrawN(t, "again", 10) < 6 {
		k := c13lPick(t, "againKey", curKeys)
		owner, miner, lb = c13lAddr{s.name(k.owner), k.owner}, c13lAddr{s.name(k.miner), k.miner}, k.lb
	} else {
		owner, miner, lb = c13lPick(t, "owner", un.contracts), c13lPick(t, "miner", un.miners), byte(rapid.IntRange(0, 3).Draw(t, "lb"))
	}
	delegate := un.delegates[0]
	if c13lDrawN(t, "hasDelegate", 10) < 4 {
		delegate = c13lPick(t, "delegate", un.delegates)
	}
	raw := c13lPick(t, "value", c13lValues)
	wellFormed := true
	switch c13lDrawN(t, "malformed", 150) {
	case 0:
		raw, wellFormed = new(big.Int), false
	case 1:
		owner, wellFormed = c13lPick(t, "badOwner", un.badOwners), false
	case 2:
		miner, wellFormed = c13lPick(t, "badMiner", un.badMiners), false
	}
	if s.reward(owner, miner, delegate, lb, raw, wellFormed) {
		// StateProcessor.Process returns the error: the block is invalid and its batch is dropped
		s.dropBlock()
	}
}

func (s *c13lSim) genClaim(t *rapid.T) {
	un := s.un
	live := s.led.liveKeys()
	c := &c13lClaim{}
	targeted := false
	ripe := s.ripeKeys()
	mode := c13lDrawN(t, "claimTarget", 20)
	switch {
	case len(ripe) > 0 && mode < 10, len(live) > 0 && mode < 14:
		// prefer tranches that are claimable right now, then any live one
		pool := live
		if len(ripe) > 0 && mode < 10 {
			pool = ripe
		}
		k := c13lPick(t, "liveKey", pool)
		c.caller, c.miner, c.lb, c.epoch = c13lAddr{s.name(k.owner), k.owner}, c13lAddr{s.name(k.miner), k.miner}, k.lb, k.epoch
		targeted = true
	case len(s.led.spent) > 0 && mode < 17:
		k := c13lPick(t, "spentKey", s.spentKeys())
		c.caller, c.miner, c.lb, c.epoch = c13lAddr{s.name(k.owner), k.owner}, c13lAddr{s.name(k.miner), k.miner}, k.lb, k.epoch
		targeted = true
	default:
		c.caller, c.miner = c13lPick(t, "caller", un.contracts), c13lPick(t, "miner", un.miners)
		c.lb = byte(rapid.IntRange(0, 3).Draw(t, "lb"))
		c.epoch = uint32(int64(s.curEpoch()) - int64(rapid.IntRange(0, 3).Draw(t, "epochBack")))
	}
	c.etxGas = c13lPick(t, "etxGas", []uint64{0, 21000, 100000})
	c.gas = c.etxGas + c13lPick(t, "gasExtra", []uint64{0, 1, 50000, 1_000_000})
	wrongLedger := false
	if targeted {
		switch c13lDrawN(t, "perturb", 25) {
		case 0, 1:
			c.caller = c13lPick(t, "otherCaller", append(append([]c13lAddr{}, un.contracts...), un.bystanders...))
		case 2:
			c.caller = c13lAddr{s.name(c.miner.b), c.miner.b} // the miner itself
		case 3:
			c.epoch = s.curEpoch()
		case 4:
			c.epoch = uint32(int64(c.epoch) + int64(c13lPick(t, "epochOff", []int{-1, 1})))
		case 5:
			c.lb = c13lPick(t, "otherLb", []byte{0, 1, 2, 3, 4, 255})
		case 6:
			c.miner = c13lPick(t, "otherMiner", append(append([]c13lAddr{}, un.miners...), un.badMiners...))
		case 7:
			wrongLedger = true
		case 8:
			if c.etxGas > 0 {
				c.gas = c.etxGas - 1
			}
		case 9:
			c.caller = c13lPick(t, "badCaller", un.badOwners)
		}
	}
	if c.miner.qi() != wrongLedger {
		c.to = c13lPick(t, "toQi", un.tosQi)
	} else {
		c.to = c13lPick(t, "toQuai", un.tosQuai)
	}
	c.entry = rapid.IntRange(0, 2).Draw(t, "entry")
	if c13lDrawN(t, "freshTx", 3) == 0 {
		s.evm = nil
	}
	if !s.claim(c) {
		return
	}
	// follow-ups of a successful claim: the same claim again (same transaction, next transaction
	// or next block), or another ripe tranche inside the same transaction
	switch c13lDrawN(t, "followUp", 6) {
	case 0:
		s.claim(c)
	case 1:
		s.evm = nil
		c.entry = rapid.IntRange(0, 2).Draw(t, "entry2")
		s.claim(c)
	case 2:
		s.commitBlock(s.height + 1)
		s.claim(c)
	case 3:
		if ripe := s.ripeKeys(); len(ripe) > 0 {
			k := c13lPick(t, "nextRipe", ripe)
			c2 := *c
			c2.caller, c2.miner, c2.lb, c2.epoch = c13lAddr{s.name(k.owner), k.owner}, c13lAddr{s.name(k.miner), k.miner}, k.lb, k.epoch
			if c2.miner.qi() {
				c2.to = c13lPick(t, "toQi2", un.tosQi)
			} else {
				c2.to = c13lPick(t, "toQuai2", un.tosQuai)
			}
			s.claim(&c2)
		}
	}
}

func (s *c13lSim) ripeKeys() []c13lKey {
	var ripe []c13lKey
	for _, k := range s.led.liveKeys() {
		if k.epoch < s.curEpoch() && uint64(s.led.recs[k].unlock) <= s.height {
			ripe = append(ripe, k)
		}
	}
	return ripe
}

func (s *c13lSim) spentKeys() []c13lKey {
	ks := make([]c13lKey, 0, len(s.led.spent))
	for k := range s.led.spent {
		ks = append(ks, k)
	}
	sort.Slice(ks, func(i, j int) bool { return c13lKeyLess(ks[i], ks[j]) })
	return ks
}

func (s *c13lSim) genQuery(t *rapid.T) {
	un := s.un
	live := s.led.liveKeys()
	if len(live) > 0 && rapid.IntRange(0, 3).Draw(t, "qLive") > 0 {
		k := c13lPick(t, "qKey", live)
		s.query(c13lAddr{s.name(k.owner), k.owner}, c13lAddr{s.name(k.miner), k.miner}, k.lb, k.epoch, k.epoch == s.curEpoch() && rapid.Bool().Draw(t, "latest"))
		return
	}
	s.query(c13lPick(t, "qCaller", append(append([]c13lAddr{}, un.contracts...), un.bystanders...)), c13lPick(t, "qMiner", un.miners),
		c13lPick(t, "qLb", []byte{0, 1, 2, 3, 4}), uint32(int64(s.curEpoch())-int64(rapid.IntRange(0, 2).Draw(t, "qBack"))), rapid.Bool().Draw(t, "latest"))
}

// genBadLength: any input length the precompile does not define is refused without effect
// (lengths 20 and 60 are the wrapped-Qi functions, outside this property).
func (s *c13lSim) genBadLength(t *rapid.T) {
	if s.evm == nil {
		s.newTx()
	}
	n := c13lPick(t, "len", []int{0, 1, 19, 22, 24, 26, 52, 54, 59, 61, 106})
	in := rapid.SliceOfN(rapid.Byte(), n, n).Draw(t, "junk")
	gas := uint64(1_000_000)
	before := len(s.evm.ETXCache)
	_, err := vm.RunLockupContract(s.evm, c13lPick(t, "junkCaller", s.un.contracts).addr(), &gas, in)
	s.logf("h=%d junk input len=%d -> err=%v", s.height, n, err)
	s.label("undefined_input_length")
	if err == nil {
		s.viol("C13/L/undefined-input-length-accepted", fmt.Sprintf("lockup precompile accepted a %d-byte input", n))
	}
	if len(s.evm.ETXCache) != before {
		s.viol("C13/L/claim-refused/etx-emitted", fmt.Sprintf("refused %d-byte input left an ETX", n))
	}
	s.compareAll("junk-input")
}

func TestC13L_Ledger(t *testing.T) {
	un := c13lUni()
	rapid.Check(t, func(t *rapid.T) {
		regime := c13lMainnet
		if c13lDrawN(t, "regime", 10) < 6 {
			regime = c13lPick(t, "scaled", c13lScaled)
		}
		defer regime.install()()

		kv := evmgen.NewKV()
		db := state.NewDatabase(kv)
		sdb, err := state.New(types.EmptyRootHash, types.EmptyRootHash, big.NewInt(0), db, db, nil, evmgen.Loc, evmgen.Logger)
		if err != nil {
			t.Fatalf("HARNESS: state.New: %v", err)
		}
		for _, c := range un.contracts {
			in, err := c.addr().InternalAndQuaiAddress()
			if err != nil {
				t.Fatalf("HARNESS: contract address: %v", err)
			}
			sdb.CreateAccount(in)
			sdb.SetCode(in, []byte{0x00})
		}
		s := &c13lSim{tb: t, part: c13lPart, un: un, kv: kv, sdb: sdb, led: newC13lLedger(), touched: map[c13lKey]bool{}, labels: map[string]bool{}}
		s.ptn = c13lPick(t, "ptn", []uint64{params.ShaEquivalentDifficultyForkBlock - 1, params.ShaEquivalentDifficultyForkBlock + 5, params.SelfDestructRefundForkBlock + 10})
		s.height = s.genStartHeight(t)
		s.label("regime_" + regime.name)
		s.newBatch()
		s.ledAtBl = s.led.clone()
		s.logf("regime %s start height %d", regime.name, s.height)

		steps := 6 + c13lDrawN(t, "steps", 45)
		for i := 0; i < steps; i++ {
			op := c13lDrawN(t, "op", 100)
			// adaptive weights: feed tranches while none is live, move time while some wait for
			// their unlock, claim while some are ripe
			wReward, wClaim, wBlock := 34, 22, 30
			if len(s.ripeKeys()) > 0 {
				wReward, wClaim, wBlock = 20, 46, 20
			} else if len(s.led.recs) > 0 {
				wReward, wClaim, wBlock = 30, 16, 40
			}
			switch {
			case op < wReward:
				s.genReward(t)
			case op < wReward+wClaim:
				s.genClaim(t)
			case op < wReward+wClaim+wBlock:
				s.commitBlock(s.nextHeight(t))
			case op < 88:
				s.dropBlock()
			case op < 96:
				s.genQuery(t)
			default:
				s.genBadLength(t)
			}
		}
		s.commitBlock(s.height + 1)

		var ls []string
		for l := range s.labels {
			ls = append(ls, l)
		}
		sort.Strings(ls)
		nontrivial := s.labels["accumulate_then_claim"]
		stats.Case(c13lPart, strings.Join(ls, ","), nontrivial, ls...)
		if nontrivial && stats.WantSample(c13lPart) {
			stats.Sample(c13lPart, s.hist)
		}
	})
}
