package c13

import (
	"fmt"
	"math/big"
	"testing"

	"github.com/dominant-strategies/go-quai/core/state"
	"github.com/dominant-strategies/go-quai/core/types"
	"github.com/dominant-strategies/go-quai/params"

	"verifharness/evmgen"
	"verifharness/stats"
)

const c13lRegressPart = "lockup-ledger-regress"

// Fingerprint: the element counter of a tranche is a uint16 that AddNewLock increments without a
// bound; the 65536th reward of one (contract, miner, lockup byte, epoch) makes it 0 and the claim
// then answers "no lockup to claim" although the balance is recorded.
const c13lFpElementsWrap = "C13/L/claim-refused/elements-counter-wrapped-to-zero"

func c13lDetSim(t *testing.T, regime c13lRegime, height uint64) (*c13lSim, func()) {
	restore := regime.install()
	un := c13lUni()
	kv := evmgen.NewKV()
	db := state.NewDatabase(kv)
	sdb, err := state.New(types.EmptyRootHash, types.EmptyRootHash, big.NewInt(0), db, db, nil, evmgen.Loc, evmgen.Logger)
	if err != nil {
		t.Fatalf("HARNESS: state.New: %v", err)
	}
	s := &c13lSim{tb: t, un: un, kv: kv, sdb: sdb, led: newC13lLedger(), touched: map[c13lKey]bool{}, labels: map[string]bool{}, part: c13lRegressPart}
	s.ptn = params.SelfDestructRefundForkBlock + 10
	s.height = height
	s.newBatch()
	s.ledAtBl = s.led.clone()
	return s, restore
}

// TestC13L_Regress_KnownFindings replays, deterministically, the inputs of the findings this part
// produced: (1) [fixed in /repo] the rollback data of an updated tranche must carry the stored
// delegate; (2) the 65536th reward of a tranche.
func TestC13L_Regress_KnownFindings(t *testing.T) {
	if stats.Shard() != 0 {
		t.Skip("single-shard enumeration")
	}
	// (1) two rewards for one tranche, the second naming a delegate; then two more changing it
	{
		s, restore := c13lDetSim(t, c13lMainnet, c13lMainnet.kickIn+17)
		un := s.un
		s.reward(un.contracts[0], un.miners[0], un.delegates[0], 0, big.NewInt(1), true)
		s.reward(un.contracts[0], un.miners[0], un.delegates[1], 0, big.NewInt(1), true)
		s.commitBlock(s.height + 1)
		s.reward(un.contracts[0], un.miners[0], un.delegates[2], 0, big.NewInt(1), true)
		s.reward(un.contracts[0], un.miners[0], un.delegates[0], 0, big.NewInt(1), true)
		s.commitBlock(s.height + 1)
		stats.Case(c13lRegressPart, "undo-delegate", true, "undo_data_delegate_change")
		restore()
	}
	// (2) 65535 rewards: claimable; one more: the property still demands that the accumulated
	// balance can be claimed once
	for _, n := range []int{65535, 65536} {
		s, restore := c13lDetSim(t, c13lMainnet, c13lMainnet.kickIn+17)
		un := s.un
		quiet := s.quiet
		s.quiet = true // compare only at the end: 65536 full comparisons are not needed
		for i := 0; i < n; i++ {
			s.reward(un.contracts[1], un.miners[1], un.delegates[0], 1, big.NewInt(1000), true)
		}
		s.quiet = quiet
		k := c13lKey{un.contracts[1].b, un.miners[1].b, 1, s.curEpoch()}
		rec := s.led.recs[k]
		first := uint64(rec.unlock)
		if rot := uint64(k.epoch) * params.CoinbaseEpochBlocks; rot > first {
			first = rot
		}
		s.commitBlock(first)
		s.hist = []string{fmt.Sprintf("%d rewards of 1000 for %s at height %d, then block %d", n, s.keyStr(k), c13lMainnet.kickIn+17, first)}
		c := &c13lClaim{caller: un.contracts[1], miner: un.miners[1], to: un.tosQi[0], lb: 1, epoch: k.epoch, etxGas: 21000, gas: 100000, entry: 2}
		ok := s.claim(c)
		stats.Case(c13lRegressPart, fmt.Sprintf("elements-%d", n), true, fmt.Sprintf("tranche_with_%d_rewards_claimed=%v", n, ok))
		if ok {
			s.claim(c) // and only once
		}
		s.commitBlock(s.height + 1)
		restore()
	}
}
