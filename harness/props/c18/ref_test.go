// C18 — a trie's root depends only on its contents, and proofs prove exactly them.
//
// This file: shared helpers — null logger, an independent reference Merkle-Patricia root
// (written from the yellow-paper definition, sharing only the rlp encoder and keccak with the
// code under test), content-addressed proof sets, key/value generators.
package c18

import (
	"bytes"
	"fmt"
	"io"
	"sort"

	"github.com/dominant-strategies/go-quai/common"
	"github.com/dominant-strategies/go-quai/crypto"
	"github.com/dominant-strategies/go-quai/ethdb"
	"github.com/dominant-strategies/go-quai/ethdb/memorydb"
	"github.com/dominant-strategies/go-quai/log"
	"github.com/dominant-strategies/go-quai/rlp"
	"github.com/dominant-strategies/go-quai/trie"
	"github.com/sirupsen/logrus"
	"pgregory.net/rapid"
)

func nullLogger() *log.Logger {
	l := logrus.New()
	l.SetOutput(io.Discard)
	l.SetLevel(logrus.PanicLevel)
	return l
}

var logger = func() *log.Logger {
	l := nullLogger()
	log.Global = l // SecureTrie and DeriveSha log through the global logger
	return l
}()

// fuzzMode is set by the native fuzz targets: smaller cases (see fuzz_test.go).
var fuzzMode bool

var emptyRoot = common.HexToHash("56e81f171bcc55a6ff8345e692c0f86e5b48e01b996cadc001622fb5e363b421")

// ---- reference root -------------------------------------------------------------------------

type kv struct {
	k []byte // trie key (bytes)
	v []byte
}

type shape struct {
	branch, ext, leaf int
	embedded          int // nodes whose encoding is < 32 bytes (stored inline in the parent)
	branchVal         int // branch nodes that carry a value in slot 16 (a key is a prefix of another)
	depth             int
}

func (s shape) class() string {
	b := func(n int) string {
		switch {
		case n == 0:
			return "0"
		case n == 1:
			return "1"
		case n <= 3:
			return "2-3"
		case n <= 8:
			return "4-8"
		case n <= 32:
			return "9-32"
		}
		return "33+"
	}
	return fmt.Sprintf("b%s.e%s.l%s.emb%s.bv%s.d%d", b(s.branch), b(s.ext), b(s.leaf), b(s.embedded), b(s.branchVal), s.depth)
}

func toNibbles(k []byte) []byte {
	n := make([]byte, 2*len(k))
	for i, b := range k {
		n[2*i], n[2*i+1] = b>>4, b&0x0f
	}
	return n
}

func compactEnc(nib []byte, term bool) []byte {
	flag := byte(0)
	if term {
		flag = 2
	}
	out := make([]byte, len(nib)/2+1)
	if len(nib)%2 == 1 {
		out[0] = (flag|1)<<4 | nib[0]
		nib = nib[1:]
	} else {
		out[0] = flag << 4
	}
	for i := 0; i < len(nib); i += 2 {
		out[1+i/2] = nib[i]<<4 | nib[i+1]
	}
	return out
}

type refPair struct {
	nib []byte
	v   []byte
}

func mustRLP(x interface{}) []byte {
	b, err := rlp.EncodeToBytes(x)
	if err != nil {
		panic("HARNESS: rlp: " + err.Error())
	}
	return b
}

// childRef is what a parent stores for a child node: the encoding itself when shorter than 32
// bytes, its hash otherwise.
func childRef(enc []byte, sh *shape) interface{} {
	if len(enc) < 32 {
		sh.embedded++
		return rlp.RawValue(enc)
	}
	return crypto.Keccak256(enc)
}

func refNode(p []refPair, depth, level int, sh *shape) []byte {
	if level > sh.depth {
		sh.depth = level
	}
	if len(p) == 1 {
		sh.leaf++
		return mustRLP([]interface{}{compactEnc(p[0].nib[depth:], true), p[0].v})
	}
	// longest common prefix of all paths from depth (sorted, so first vs last suffices)
	a, b := p[0].nib[depth:], p[len(p)-1].nib[depth:]
	l := 0
	for l < len(a) && l < len(b) && a[l] == b[l] {
		l++
	}
	if l > 0 {
		sh.ext++
		child := refNode(p, depth+l, level+1, sh)
		return mustRLP([]interface{}{compactEnc(a[:l], false), childRef(child, sh)})
	}
	sh.branch++
	var items [17]interface{}
	for i := range items {
		items[i] = []byte{}
	}
	i := 0
	if len(p[0].nib) == depth { // a key that ends here: value slot
		items[16] = p[0].v
		sh.branchVal++
		i = 1
	}
	for i < len(p) {
		nb := p[i].nib[depth]
		j := i
		for j < len(p) && p[j].nib[depth] == nb {
			j++
		}
		items[nb] = childRef(refNode(p[i:j], depth+1, level+1, sh), sh)
		i = j
	}
	return mustRLP(items[:])
}

// refRoot computes the Merkle-Patricia root of a content map keyed by trie key.
func refRoot(content map[string][]byte) (common.Hash, shape) {
	var sh shape
	if len(content) == 0 {
		return emptyRoot, sh
	}
	p := make([]refPair, 0, len(content))
	for k, v := range content {
		p = append(p, refPair{toNibbles([]byte(k)), v})
	}
	sort.Slice(p, func(i, j int) bool { return bytes.Compare(p[i].nib, p[j].nib) < 0 })
	enc := refNode(p, 0, 1, &sh)
	return crypto.Keccak256Hash(enc), sh
}

func sortedKVs(content map[string][]byte) []kv {
	out := make([]kv, 0, len(content))
	for k, v := range content {
		out = append(out, kv{[]byte(k), v})
	}
	sort.Slice(out, func(i, j int) bool { return bytes.Compare(out[i].k, out[j].k) < 0 })
	return out
}

// ---- proof containers -----------------------------------------------------------------------

// blobList collects the node encodings Prove emits (what statedb.GetProof returns to a peer).
type blobList struct {
	keys  [][]byte
	blobs [][]byte
}

func (l *blobList) Put(k, v []byte) error {
	l.keys = append(l.keys, common.CopyBytes(k))
	l.blobs = append(l.blobs, common.CopyBytes(v))
	return nil
}
func (l *blobList) Delete([]byte) error { panic("HARNESS: delete on proof list") }
func (l *blobList) Logger() *log.Logger { return logger }

// proofSet is the receiver side: a set of node encodings addressed by their own keccak hash.
type proofSet map[string][]byte

func newProofSet(blobs ...[]byte) proofSet {
	s := proofSet{}
	for _, b := range blobs {
		s[string(crypto.Keccak256(b))] = b
	}
	return s
}
func (s proofSet) Has(k []byte) (bool, error) { _, ok := s[string(k)]; return ok, nil }
func (s proofSet) Get(k []byte) ([]byte, error) {
	if v, ok := s[string(k)]; ok {
		return v, nil
	}
	return nil, fmt.Errorf("not found")
}
func (s proofSet) Location() common.Location { return nil }
func (s proofSet) Logger() *log.Logger       { return logger }

// ---- trie handles ---------------------------------------------------------------------------

// anyTrie is the part of Trie / SecureTrie the checks use. For the secure trie Prove takes
// the already hashed key (see statedb.GetProof), every other method the raw key.
type anyTrie interface {
	TryGet(key []byte) ([]byte, error)
	TryUpdate(key, value []byte) error
	TryDelete(key []byte) error
	Hash() common.Hash
	Commit(onleaf trie.LeafCallback) (common.Hash, error)
	NodeIterator(start []byte) trie.NodeIterator
	Prove(key []byte, fromLevel uint, proofDb ethdb.KeyValueWriter) error
}

func openTrie(secure bool, root common.Hash, db *trie.Database) (anyTrie, error) {
	if secure {
		t, err := trie.NewSecure(root, db)
		if err != nil {
			return nil, err
		}
		return t, nil
	}
	t, err := trie.New(root, db)
	if err != nil {
		return nil, err
	}
	return t, nil
}

func newTrieDB() (*memorydb.Database, *trie.Database) {
	disk := memorydb.New(logger)
	return disk, trie.NewDatabase(disk)
}

// leaves enumerates the (trie key, value) pairs reachable from the trie's root.
func leaves(t anyTrie) (map[string][]byte, int, error) {
	out := map[string][]byte{}
	n := 0
	it := trie.NewIterator(t.NodeIterator(nil))
	for it.Next() {
		out[string(it.Key)] = common.CopyBytes(it.Value)
		n++
	}
	return out, n, it.Err
}

func sameContent(a, b map[string][]byte) bool {
	if len(a) != len(b) {
		return false
	}
	for k, v := range a {
		w, ok := b[k]
		if !ok || !bytes.Equal(v, w) {
			return false
		}
	}
	return true
}

// ---- generators -----------------------------------------------------------------------------

var denseBytes = []byte{0x00, 0x01, 0x10, 0x11, 0x1f, 0xf0, 0xf1, 0xff}

func genDenseKey(t *rapid.T, minLen, maxLen int, label string) []byte {
	n := rapid.IntRange(minLen, maxLen).Draw(t, label+"len")
	return rapid.SliceOfN(rapid.SampledFrom(denseBytes), n, n).Draw(t, label)
}

// genKeyPool builds a pool of distinct raw keys according to a scheme. For the plain trie the
// raw key is the trie key; for the secure trie it is hashed by the trie.
func genKeyPool(t *rapid.T, scheme string, n int) [][]byte {
	seen := map[string]bool{}
	var pool [][]byte
	add := func(k []byte) {
		if !seen[string(k)] {
			seen[string(k)] = true
			pool = append(pool, k)
		}
	}
	var prefix []byte
	if scheme == "long" {
		prefix = rapid.SliceOfN(rapid.Byte(), 0, 40).Draw(t, "prefix")
	}
	for tries := 0; len(pool) < n && tries < 4*n+8; tries++ {
		switch scheme {
		case "dense": // 1–6 bytes over a tiny alphabet: shared prefixes and keys that are prefixes of others
			add(genDenseKey(t, 1, 6, "k"))
		case "long": // 1–64 bytes sharing a long prefix
			sfx := rapid.SliceOfN(rapid.Byte(), 1, 64-len(prefix)).Draw(t, "sfx")
			if rapid.IntRange(0, 3).Draw(t, "noPrefix") == 0 {
				add(sfx)
			} else {
				add(append(append([]byte{}, prefix...), sfx...))
			}
		case "fixed32": // hashed-key lookalikes: dense head, dense or zero tail
			k := make([]byte, 32)
			copy(k, genDenseKey(t, 1, 3, "head"))
			if rapid.Bool().Draw(t, "tail") {
				k[31] = rapid.SampledFrom(denseBytes).Draw(t, "last")
			}
			add(k)
		case "fixed2":
			add(genDenseKey(t, 2, 2, "k"))
		case "fixed4":
			add(genDenseKey(t, 4, 4, "k"))
		case "etx": // ETX-trie raw keys: big-endian index bytes (0 = empty key) and 32-byte marker keys
			switch rapid.IntRange(0, 3).Draw(t, "etxKind") {
			case 0:
				idx := rapid.SampledFrom([]uint64{0, 1, 2, 127, 128, 255, 256, 257, 65535, 65536}).Draw(t, "idx")
				var b []byte
				for x := idx; x > 0; x >>= 8 {
					b = append([]byte{byte(x)}, b...)
				}
				add(b)
			case 1:
				add(crypto.Keccak256([]byte{rapid.SampledFrom([]byte{'n', 'o', 'k', 'u'}).Draw(t, "marker")}))
			default:
				idx := rapid.Uint64Range(0, 400).Draw(t, "idx")
				var b []byte
				for x := idx; x > 0; x >>= 8 {
					b = append([]byte{byte(x)}, b...)
				}
				add(b)
			}
		default:
			panic("HARNESS: unknown scheme " + scheme)
		}
	}
	if len(pool) == 0 {
		pool = append(pool, []byte{0x01})
	}
	return pool
}

var valLens = []int{1, 1, 2, 8, 20, 31, 32, 33, 64, 100}

func genValue(t *rapid.T) []byte {
	n := rapid.SampledFrom(valLens).Draw(t, "vlen")
	return rapid.SliceOfN(rapid.Byte(), n, n).Draw(t, "v")
}

func hex(b []byte) string { return fmt.Sprintf("%x", b) }
