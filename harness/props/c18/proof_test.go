package c18

import (
	"bytes"
	"fmt"
	"sort"
	"testing"

	"github.com/dominant-strategies/go-quai/common"
	"github.com/dominant-strategies/go-quai/crypto"
	"github.com/dominant-strategies/go-quai/ethdb"
	"github.com/dominant-strategies/go-quai/log"
	"github.com/dominant-strategies/go-quai/ethdb/memorydb"
	"github.com/dominant-strategies/go-quai/trie"
	"pgregory.net/rapid"

	"verifharness/stats"
)

// builtTrie is a trie with known content, produced by a short generated history.
type builtTrie struct {
	secure  bool
	scheme  string
	tr      anyTrie
	tdb     *trie.Database
	root    common.Hash
	content map[string][]byte // trie key -> value
	pool    [][]byte          // raw keys
	reopen  string
	hist    []string
}

func buildTrie(t *rapid.T, secure bool, scheme string, minPool, maxPool int) *builtTrie {
	b := &builtTrie{secure: secure, scheme: scheme, content: map[string][]byte{}}
	if fuzzMode && maxPool > 5 {
		maxPool = 5
	}
	b.pool = genKeyPool(t, scheme, rapid.IntRange(minPool, maxPool).Draw(t, "poolSize"))
	disk, tdb := newTrieDB()
	b.tdb = tdb
	tr, err := openTrie(secure, common.Hash{}, tdb)
	if err != nil {
		t.Fatalf("HARNESS: %v", err)
	}
	for _, k := range b.pool {
		if rapid.IntRange(0, 5).Draw(t, "skip") == 0 {
			continue // stays absent
		}
		v := genValue(t)
		if err := tr.TryUpdate(k, v); err != nil {
			t.Fatalf("HARNESS: update: %v", err)
		}
		b.content[string(trieKey(secure, k))] = v
		b.hist = append(b.hist, fmt.Sprintf("update %x=%x", k, v))
	}
	nDel := rapid.IntRange(0, len(b.pool)/3).Draw(t, "nDel")
	for i := 0; i < nDel; i++ {
		k := b.pool[rapid.IntRange(0, len(b.pool)-1).Draw(t, "del")]
		if err := tr.TryDelete(k); err != nil {
			t.Fatalf("HARNESS: delete: %v", err)
		}
		delete(b.content, string(trieKey(secure, k)))
		b.hist = append(b.hist, fmt.Sprintf("delete %x", k))
	}
	if len(b.content) == 0 {
		// an empty trie has no root node, so there is nothing a proof could consist of
		// (Prove emits nothing and every verifier special-cases the empty root): keep one entry
		k, v := b.pool[0], genValue(t)
		if err := tr.TryUpdate(k, v); err != nil {
			t.Fatalf("HARNESS: update: %v", err)
		}
		b.content[string(trieKey(secure, k))] = v
		b.hist = append(b.hist, fmt.Sprintf("update %x=%x", k, v))
	}
	b.root = tr.Hash()
	b.reopen = rapid.SampledFrom([]string{"live", "committed", "reopened", "reopened-fresh-db"}).Draw(t, "reopen")
	if b.reopen != "live" {
		root, err := tr.Commit(nil)
		if err != nil || root != b.root {
			t.Fatalf("HARNESS: commit: %v root %x want %x", err, root, b.root)
		}
		if b.reopen == "reopened-fresh-db" {
			if err := tdb.Commit(root, false, nil); err != nil {
				t.Fatalf("HARNESS: db commit: %v", err)
			}
			b.tdb = trie.NewDatabase(disk)
		}
		if b.reopen != "committed" {
			if tr, err = openTrie(secure, root, b.tdb); err != nil {
				t.Fatalf("HARNESS: reopen: %v", err)
			}
		}
	}
	b.tr = tr
	b.hist = append(b.hist, "state "+b.reopen)
	return b
}

type probe struct {
	key   []byte // trie key
	class string
}

// absentProbes derives keys that are not in the content but are close to it.
func (b *builtTrie) probes(t *rapid.T) []probe {
	var out []probe
	seen := map[string]bool{}
	add := func(k []byte, class string) {
		if seen[string(k)] {
			return
		}
		seen[string(k)] = true
		if _, ok := b.content[string(k)]; ok {
			class = "present"
		}
		out = append(out, probe{k, class})
	}
	for _, raw := range b.pool {
		k := trieKey(b.secure, raw)
		if _, ok := b.content[string(k)]; ok {
			add(k, "present")
		} else {
			add(k, "absent_pool_key")
		}
	}
	keys := sortedKVs(b.content)
	for i, e := range keys {
		if i >= 12 || (fuzzMode && i >= 2) {
			break
		}
		k := e.k
		if len(k) > 0 {
			m := common.CopyBytes(k)
			m[len(m)-1] ^= 0x01 // differs in the last nibble
			add(m, "absent_last_nibble")
			m = common.CopyBytes(k)
			m[len(m)-1] ^= 0x10
			add(m, "absent_high_nibble")
			m = common.CopyBytes(k)
			m[0] ^= 0x80 // differs in the first nibble
			add(m, "absent_first_nibble")
			mid := common.CopyBytes(k)
			mid[len(mid)/2] ^= 0x04
			add(mid, "absent_mid")
		}
		if !b.secure && len(k) > 1 {
			add(common.CopyBytes(k[:len(k)-1]), "absent_proper_prefix")
		}
		if !b.secure {
			add(append(common.CopyBytes(k), 0x00), "absent_extension")
		}
	}
	n := 32
	if !b.secure && b.scheme != "fixed32" {
		n = rapid.IntRange(1, 8).Draw(t, "rndLen")
	}
	add(rapid.SliceOfN(rapid.Byte(), n, n).Draw(t, "rnd"), "absent_random")
	return out
}

func proveBlobs(tr anyTrie, key []byte) (*blobList, error) {
	l := &blobList{}
	err := tr.Prove(key, 0, l)
	return l, err
}

func propProof(t *rapid.T) {
	const part = "proof"
	secure := rapid.Bool().Draw(t, "secure")
	scheme := "dense"
	if secure {
		scheme = rapid.SampledFrom([]string{"dense", "etx"}).Draw(t, "scheme")
	} else {
		scheme = rapid.SampledFrom([]string{"dense", "dense", "long", "fixed32", "fixed4"}).Draw(t, "scheme")
	}
	b := buildTrie(t, secure, scheme, 1, 20)
	kindName := "plain"
	if secure {
		kindName = "secure"
	}
	var cur string
	fail := func(fp, msg string) {
		stats.Violation(t, part, fp, msg, map[string]any{"secure": secure, "scheme": scheme, "history": b.hist, "probe": cur})
	}
	if want, _ := refRoot(b.content); want != b.root {
		fail("C18/root-vs-reference/"+kindName, fmt.Sprintf("root %x, reference %x", b.root, want))
	}
	// a sibling trie that differs from the real one in every value: its nodes are the
	// natural material for an adversary who wants a proof to verify for another value
	_, sibDB := newTrieDB()
	sib, _ := openTrie(false, common.Hash{}, sibDB)
	for k, v := range b.content {
		w := common.CopyBytes(v)
		w[len(w)-1] ^= 0x01
		sib.TryUpdate([]byte(k), w)
	}
	sib.Hash()

	probes := b.probes(t)
	classes := map[string]bool{}
	var flips, drops, swaps, absents, corruptChecks int
	verify := func(ps ethdb.KeyValueReader, key []byte) ([]byte, error) {
		return trie.VerifyProof(b.root, key, ps)
	}
	// truth-or-error: whatever collection of node encodings a verifier is handed, a verdict
	// without error must be the stored value (or nil when the key is absent)
	sound := func(how string, ps ethdb.KeyValueReader, key, want []byte) {
		corruptChecks++
		got, err := verify(ps, key)
		if err == nil && !bytes.Equal(got, want) {
			fp := "C18/proof-accepts-wrong-value/" + how
			if want != nil && got == nil {
				fp = "C18/proof-accepts-false-absence/" + how
			}
			fail(fp, fmt.Sprintf("%s: VerifyProof(root, %x) = %x without error, stored value is %x", how, key, got, want))
		}
	}
	// probes that get the exhaustive single-bit sweep: the first present one, the first absent
	// one and two drawn ones
	fullSweep := map[int]bool{}
	for _, wantPresent := range []bool{true, false} {
		if fuzzMode && !wantPresent {
			break // one exhaustive sweep per fuzz input (see fuzz_test.go)
		}
		for i, p := range probes {
			if (b.content[string(p.key)] != nil) == wantPresent {
				fullSweep[i] = true
				break
			}
		}
	}
	for n := 0; n < 2 && !fuzzMode; n++ {
		fullSweep[rapid.IntRange(0, len(probes)-1).Draw(t, "sweep")] = true
	}
	for pi, p := range probes {
		cur = fmt.Sprintf("%s %x", p.class, p.key)
		classes[p.class] = true
		want := b.content[string(p.key)]
		if want == nil {
			absents++
		}
		// 1. proof written straight into a key-value store (the in-process usage)
		direct := memorydb.New(logger)
		if err := b.tr.Prove(p.key, 0, direct); err != nil {
			fail("C18/prove-error/"+kindName, fmt.Sprintf("Prove(%x): %v", p.key, err))
			continue
		}
		got, err := trie.VerifyProof(b.root, p.key, direct)
		if err != nil {
			fail("C18/proof-rejected/"+p.class, fmt.Sprintf("VerifyProof(root, %x, Prove(%x)) error: %v", p.key, p.key, err))
		} else if !bytes.Equal(got, want) {
			fail("C18/proof-wrong-value/"+p.class, fmt.Sprintf("VerifyProof(root, %x, Prove(%x)) = %x, stored value %x", p.key, p.key, got, want))
		}
		// 2. proof as a list of node encodings, re-addressed by the receiver
		bl, err := proveBlobs(b.tr, p.key)
		if err != nil {
			fail("C18/prove-error/"+kindName, fmt.Sprintf("Prove(%x): %v", p.key, err))
			continue
		}
		if len(bl.blobs) == 0 {
			fail("C18/proof-empty/"+p.class, fmt.Sprintf("Prove(%x) emitted no node (the root node is always part of a proof)", p.key))
			continue
		}
		for i := range bl.blobs {
			if h := newProofSet(bl.blobs[i]); len(h) != 1 || h[string(bl.keys[i])] == nil {
				fail("C18/proof-node-key/"+kindName, fmt.Sprintf("Prove(%x) stored node %d under %x which is not the hash of its encoding", p.key, i, bl.keys[i]))
			}
		}
		got, err = verify(newProofSet(bl.blobs...), p.key)
		if err != nil || !bytes.Equal(got, want) {
			fail("C18/proof-list-rejected/"+p.class, fmt.Sprintf("re-addressed proof of %x verifies to (%x, %v), stored value %x", p.key, got, err, want))
		}
		// the proof of one key says nothing wrong about any other probe key
		for _, q := range probes {
			if !bytes.Equal(q.key, p.key) {
				sound("foreign-key", newProofSet(bl.blobs...), q.key, b.content[string(q.key)])
			}
		}
		// 3. every single-bit corruption of every node (for the probes selected for the full
		// sweep; a strided sample of about 48 flips for the others)
		base := newProofSet(bl.blobs...)
		for i, blob := range bl.blobs {
			tryFlip := func(bit int) {
				mut := common.CopyBytes(blob)
				mut[bit/8] ^= 1 << (bit % 8)
				sound("bit-flip", &overlay{base: base, removed: string(bl.keys[i]), addK: string(crypto.Keccak256(mut)), addV: mut}, p.key, want)
				flips++
			}
			if fullSweep[pi] {
				for bit := 0; bit < 8*len(blob); bit++ {
					tryFlip(bit)
				}
			} else {
				// a strided sample from a drawn phase (one draw per node, not one per flip)
				stride := 8*len(blob)/(48/len(bl.blobs)+1) + 1
				for bit := rapid.IntRange(0, stride-1).Draw(t, "phase"); bit < 8*len(blob); bit += stride {
					tryFlip(bit)
				}
			}
		}
		// 4. node drops, truncations, duplications
		for i := range bl.blobs {
			rest := append(append([][]byte{}, bl.blobs[:i]...), bl.blobs[i+1:]...)
			sound("node-drop", newProofSet(rest...), p.key, want)
			drops++
			if i == 0 || (want != nil && i == len(bl.blobs)-1) {
				// without the root node, or without the node holding a present value, nothing verifies
				if _, err := verify(newProofSet(rest...), p.key); err == nil {
					if i == 0 {
						fail("C18/proof-verifies-without-root-node", fmt.Sprintf("proof of %x minus its root node still verifies", p.key))
					} else {
						fail("C18/proof-verifies-without-value-node", fmt.Sprintf("proof of present key %x minus its last node still verifies", p.key))
					}
				}
			}
			for _, cut := range []int{1, len(bl.blobs[i]) / 2} {
				if cut < len(bl.blobs[i]) {
					tr := append(append([][]byte{}, rest...), bl.blobs[i][:len(bl.blobs[i])-cut])
					sound("node-truncate", newProofSet(tr...), p.key, want)
				}
			}
		}
		// 5. node swaps: replace node i by a node of the sibling trie's proof for the same key
		// (same shape, different values), and by nodes of another probe's proof
		sl := &blobList{}
		sib.Prove(p.key, 0, sl)
		for i := range bl.blobs {
			for j := range sl.blobs {
				mixed := append([][]byte{}, bl.blobs...)
				mixed[i] = sl.blobs[j]
				sound("node-swap-sibling", newProofSet(mixed...), p.key, want)
				swaps++
			}
		}
		sound("sibling-proof", newProofSet(sl.blobs...), p.key, want)
		sound("union-with-sibling", newProofSet(append(append([][]byte{}, bl.blobs...), sl.blobs...)...), p.key, want)
	}

	var cl []string
	for c := range classes {
		cl = append(cl, c)
	}
	sort.Strings(cl)
	_, sh := refRoot(b.content)
	labels := append([]string{kindName, "scheme_" + scheme, "state_" + b.reopen}, cl...)
	if sh.embedded > 0 {
		labels = append(labels, "embedded_node")
	}
	if sh.branchVal > 0 {
		labels = append(labels, "key_is_prefix_of_key")
	}
	if len(b.content) == 0 {
		labels = append(labels, "empty_trie")
	}
	nontrivial := absents > 0 && len(b.content) > 0
	sig := fmt.Sprintf("%s|%s|%s|%s|%v", kindName, scheme, b.reopen, sh.class(), cl)
	stats.Case(part, sig, nontrivial, labels...)
	addVolume(part, flips, drops, swaps, corruptChecks)
	if nontrivial && stats.WantSample(part) {
		stats.Sample(part, map[string]any{"secure": secure, "scheme": scheme, "history": b.hist, "probes": len(probes), "bit_flips": flips, "corrupt_checks": corruptChecks})
	}
}

// overlay is a proof set with one node replaced.
type overlay struct {
	base    proofSet
	removed string
	addK    string
	addV    []byte
}

func (o *overlay) Has(k []byte) (bool, error) { v, _ := o.Get(k); return v != nil, nil }
func (o *overlay) Get(k []byte) ([]byte, error) {
	if string(k) == o.addK {
		return o.addV, nil
	}
	if string(k) == o.removed {
		return nil, fmt.Errorf("not found")
	}
	return o.base.Get(k)
}
func (o *overlay) Location() common.Location { return nil }
func (o *overlay) Logger() *log.Logger       { return logger }

// addVolume records how many corrupted proofs were evaluated: one label per 1000 (carry kept
// between cases), so the evidence histogram shows the volume without being a case count.
var volCarry = map[string]int{}

func addVolume(part string, flips, drops, swaps, checks int) {
	for _, e := range []struct {
		n    int
		name string
	}{{flips, "k_bit_flips"}, {drops, "k_node_drops"}, {swaps, "k_node_swaps"}, {checks, "k_corrupt_proof_verdicts"}} {
		volCarry[e.name] += e.n
		for volCarry[e.name] >= 1000 {
			volCarry[e.name] -= 1000
			stats.Label(part, e.name)
		}
	}
}

func TestC18_Proof(t *testing.T) { rapid.Check(t, propProof) }
