package c18

import (
	"fmt"
	"testing"

	"github.com/dominant-strategies/go-quai/common"
	"github.com/dominant-strategies/go-quai/ethdb/memorydb"
	"github.com/dominant-strategies/go-quai/trie"

	"verifharness/stats"
)

// TestC18_Regress_KnownFindings replays, once per run and without rapid, the minimal inputs of
// the findings this check has produced. Each goes through stats.Violation with the finding's
// fingerprint: listed as known it is counted (KNOWN-FINDING line), otherwise it fails the run.
func TestC18_Regress_KnownFindings(t *testing.T) {
	const part = "regress"
	// C18/range-last-edge-beyond-last-element: a valid whole-trie range whose two edge keys
	// are both non-existent. VerifyRangeProof documents this as supported; it calls
	// hasRightElement on the node tree it held before re-inserting the leaves, whose path to
	// the last element was never resolved (proof.go, last line of VerifyRangeProof).
	{
		_, tdb := newTrieDB()
		tr, err := trie.New(common.Hash{}, tdb)
		if err != nil {
			t.Fatalf("HARNESS: %v", err)
		}
		keys := [][]byte{{0x10, 0x00}, {0x11, 0x00}}
		vals := [][]byte{make([]byte, 64), make([]byte, 31)}
		for i := range keys {
			if err := tr.TryUpdate(keys[i], vals[i]); err != nil {
				t.Fatalf("HARNESS: %v", err)
			}
		}
		first, last := []byte{0x0f, 0xff}, []byte{0xff, 0xff}
		proof := memorydb.New(logger)
		if err := tr.Prove(first, 0, proof); err != nil {
			t.Fatalf("HARNESS: %v", err)
		}
		if err := tr.Prove(last, 0, proof); err != nil {
			t.Fatalf("HARNESS: %v", err)
		}
		dump := map[string]any{"entries": []string{"1000=00*64", "1100=00*31"}, "first": "0fff", "last": "ffff"}
		func() {
			defer func() {
				if r := recover(); r != nil {
					stats.Violation(t, part, fpLastEdge, fmt.Sprintf("VerifyRangeProof panicked on a valid range with non-existent edge keys: %v", r), dump)
				}
			}()
			more, err := trie.VerifyRangeProof(tr.Hash(), first, last, keys, vals, proof)
			if err != nil {
				stats.Violation(t, part, "C18/range-rejects-true-window/nonexistent-nonexistent", fmt.Sprintf("valid range rejected: %v", err), dump)
			} else if more {
				stats.Violation(t, part, fpLastEdge, "valid range covering the whole trie accepted with more=true", dump)
			}
		}()
		stats.Case(part, "range-last-edge-beyond-last-element", true, "range_last_edge_nonexistent")
	}
}
