package c18

import (
	"bytes"
	"fmt"
	"sort"
	"testing"

	"github.com/dominant-strategies/go-quai/common"
	"github.com/dominant-strategies/go-quai/ethdb/memorydb"
	"github.com/dominant-strategies/go-quai/trie"
	"pgregory.net/rapid"

	"verifharness/stats"
)

// incKey / decKey treat a fixed-length key as a big-endian integer. ok=false on wrap-around.
func incKey(k []byte) ([]byte, bool) {
	o := common.CopyBytes(k)
	for i := len(o) - 1; i >= 0; i-- {
		o[i]++
		if o[i] != 0 {
			return o, true
		}
	}
	return nil, false
}

func decKey(k []byte) ([]byte, bool) {
	o := common.CopyBytes(k)
	for i := len(o) - 1; i >= 0; i-- {
		o[i]--
		if o[i] != 0xff {
			return o, true
		}
	}
	return nil, false
}

// fpLastEdge: VerifyRangeProof with a last edge key beyond the last element (allowed by its
// documentation, used by no caller in the repository).
var errKnownPanic = fmt.Errorf("known panic")

const fpLastEdge = "C18/range-last-edge-beyond-last-element"

// propRange: VerifyRangeProof accepts every true window of the sorted content (with existent
// or non-existent edge keys) and rejects the window once one element is altered.
func propRange(t *rapid.T) {
	const part = "range"
	scheme := rapid.SampledFrom([]string{"fixed2", "fixed4", "fixed32", "fixed32"}).Draw(t, "scheme")
	b := buildTrie(t, false, scheme, 1, 40)
	ents := sortedKVs(b.content)
	n := len(ents)
	var desc string
	fail := func(fp, msg string) {
		stats.Violation(t, part, fp, msg, map[string]any{"scheme": scheme, "history": b.hist, "window": desc})
	}
	inContent := func(k []byte) bool { _, ok := b.content[string(k)]; return ok }
	labels := []string{"scheme_" + scheme, "state_" + b.reopen}

	// ---- whole trie, no edge proofs -------------------------------------------------------
	{
		desc = "all elements, nil proof"
		keys, vals := make([][]byte, n), make([][]byte, n)
		for i, e := range ents {
			keys[i], vals[i] = e.k, e.v
		}
		more, err := trie.VerifyRangeProof(b.root, keys[0], keys[n-1], keys, vals, nil)
		if err != nil || more {
			fail("C18/range-rejects-true-window/all-nil-proof", fmt.Sprintf("whole content with nil proof: more=%v err=%v", more, err))
		}
		if n > 1 {
			m := rapid.IntRange(0, n-1).Draw(t, "allDrop")
			k2 := append(append([][]byte{}, keys[:m]...), keys[m+1:]...)
			v2 := append(append([][]byte{}, vals[:m]...), vals[m+1:]...)
			if _, err := trie.VerifyRangeProof(b.root, k2[0], k2[len(k2)-1], k2, v2, nil); err == nil {
				fail("C18/range-accepts-altered-window/all-nil-proof-drop", fmt.Sprintf("content minus element %d accepted as the whole trie", m))
			}
		}
	}

	// ---- a window with two edge proofs -------------------------------------------------------
	i := rapid.IntRange(0, n-1).Draw(t, "i")
	j := rapid.IntRange(i, n-1).Draw(t, "j")
	first, last := ents[i].k, ents[j].k
	firstKind, lastKind := "existent", "existent"
	if rapid.Bool().Draw(t, "firstNonExistent") {
		if d, ok := decKey(first); ok && !inContent(d) && (i == 0 || bytes.Compare(d, ents[i-1].k) > 0) {
			first, firstKind = d, "nonexistent"
			if rapid.Bool().Draw(t, "firstFar") && i == 0 {
				z := make([]byte, len(d)) // the lowest possible key
				if !inContent(z) {
					first = z
				}
			}
		}
	}
	// Known-finding protocol: with a last edge key that lies beyond the last element,
	// VerifyRangeProof evaluates hasRightElement on the stale pre-rebuild node tree (panic on
	// an unresolved hash node / "more" reported for a range that ends the trie). While that is
	// listed as known the class is excluded by construction so that the search continues.
	if rapid.Bool().Draw(t, "lastNonExistent") {
		if stats.IsKnown(fpLastEdge) {
			stats.Excluded(fpLastEdge)
		} else if u, ok := incKey(last); ok && !inContent(u) && (j == n-1 || bytes.Compare(u, ents[j+1].k) < 0) {
			last, lastKind = u, "nonexistent"
			if rapid.Bool().Draw(t, "lastFar") && j == n-1 {
				f := bytes.Repeat([]byte{0xff}, len(u))
				if !inContent(f) {
					last = f
				}
			}
		}
	}
	if bytes.Equal(first, last) && i != j {
		t.Fatalf("HARNESS: degenerate edges")
	}
	proof := memorydb.New(logger)
	if err := b.tr.Prove(first, 0, proof); err != nil {
		fail("C18/prove-error/plain", err.Error())
	}
	if err := b.tr.Prove(last, 0, proof); err != nil {
		fail("C18/prove-error/plain", err.Error())
	}
	keys, vals := [][]byte{}, [][]byte{}
	for _, e := range ents[i : j+1] {
		keys, vals = append(keys, e.k), append(vals, e.v)
	}
	desc = fmt.Sprintf("entries %d..%d of %d, first=%x(%s) last=%x(%s)", i, j, n, first, firstKind, last, lastKind)
	wantMore := j < n-1
	verdict := func(k, v [][]byte) (more bool, err error) {
		defer func() {
			if r := recover(); r != nil {
				if lastKind == "nonexistent" {
					fail(fpLastEdge, fmt.Sprintf("VerifyRangeProof panicked: %v", r))
					err = errKnownPanic // only reached while the finding is listed as known
					return
				}
				fail("C18/range-panic/"+firstKind+"-"+lastKind, fmt.Sprintf("VerifyRangeProof panicked: %v", r))
			}
		}()
		return trie.VerifyRangeProof(b.root, first, last, k, v, proof)
	}
	single := i == j && bytes.Equal(first, last)
	more, err := verdict(keys, vals)
	if err == errKnownPanic {
		// counted as a known hit, nothing more to compare
	} else if err != nil {
		fail("C18/range-rejects-true-window/"+firstKind+"-"+lastKind, fmt.Sprintf("true window rejected: %v", err))
	} else if more != wantMore && lastKind == "nonexistent" {
		fail(fpLastEdge, fmt.Sprintf("true window accepted with more=%v, but %d entries lie to the right of the last element", more, n-1-j))
	} else if more != wantMore {
		fail("C18/range-more-flag", fmt.Sprintf("true window accepted with more=%v, but %d entries lie to the right", more, n-1-j))
	}
	labels = append(labels, "first_"+firstKind, "last_"+lastKind)
	if single {
		labels = append(labels, "single_element_same_edges")
	}
	if i == 0 && j == n-1 {
		labels = append(labels, "window_is_everything")
	}

	// ---- alterations of that window: each must be rejected --------------------------------------
	reject := func(kind string, k, v [][]byte) {
		labels = append(labels, "alt_"+kind)
		if _, err := verdict(k, v); err == nil {
			fail("C18/range-accepts-altered-window/"+kind, fmt.Sprintf("window altered by %q accepted", kind))
		}
	}
	cp := func(x [][]byte) [][]byte { return append([][]byte{}, x...) }
	m := rapid.IntRange(0, len(keys)-1).Draw(t, "m")
	{ // a value changed
		v2 := cp(vals)
		v2[m] = common.CopyBytes(vals[m])
		v2[m][rapid.IntRange(0, len(v2[m])-1).Draw(t, "vbyte")] ^= 1 << rapid.IntRange(0, 7).Draw(t, "vbit")
		reject("value-bit", keys, v2)
		v3 := cp(vals)
		v3[m] = append(common.CopyBytes(vals[m]), 0x00)
		reject("value-extended", keys, v3)
	}
	if len(keys) >= 2 { // an element removed (an interior one leaves a gap, an edge one contradicts the edge proof)
		k2 := append(cp(keys[:m]), keys[m+1:]...)
		v2 := append(cp(vals[:m]), vals[m+1:]...)
		where := "interior"
		if m == 0 {
			where = "first"
		} else if m == len(keys)-1 {
			where = "last"
		}
		reject("drop-"+where, k2, v2)
	}
	{ // a key replaced by a neighbouring key that is not in the trie (order and bounds preserved)
		for _, f := range []func([]byte) ([]byte, bool){incKey, decKey} {
			nk, ok := f(keys[m])
			if !ok || inContent(nk) || bytes.Compare(nk, first) < 0 || bytes.Compare(nk, last) > 0 {
				continue
			}
			if m > 0 && bytes.Compare(nk, keys[m-1]) <= 0 || m < len(keys)-1 && bytes.Compare(nk, keys[m+1]) >= 0 {
				continue
			}
			k2 := cp(keys)
			k2[m] = nk
			reject("key-moved", k2, vals)
			break
		}
	}
	{ // an extra element that is not in the trie, placed in order inside the window bounds
		if nk, ok := incKey(keys[m]); ok && !inContent(nk) && bytes.Compare(nk, last) <= 0 &&
			(m == len(keys)-1 || bytes.Compare(nk, keys[m+1]) < 0) {
			k2 := append(append(cp(keys[:m+1]), nk), keys[m+1:]...)
			v2 := append(append(cp(vals[:m+1]), genValue(t)), vals[m+1:]...)
			reject("insert-extra", k2, v2)
		}
	}
	if len(keys) >= 2 { // two values exchanged
		o := rapid.IntRange(0, len(keys)-1).Draw(t, "o")
		if !bytes.Equal(vals[o], vals[m]) {
			v2 := cp(vals)
			v2[o], v2[m] = vals[m], vals[o]
			reject("values-swapped", keys, v2)
		}
	}

	// ---- zero-element claims --------------------------------------------------------------------
	{
		// a key beyond the last entry: "nothing from here on" is true
		if u, ok := incKey(ents[n-1].k); ok {
			p := memorydb.New(logger)
			b.tr.Prove(u, 0, p)
			desc = fmt.Sprintf("zero elements from %x (beyond the last entry)", u)
			more, err := trie.VerifyRangeProof(b.root, u, u, nil, nil, p)
			if err != nil || more {
				fail("C18/range-rejects-true-window/zero-elements", fmt.Sprintf("empty range after the last key: more=%v err=%v", more, err))
			}
			labels = append(labels, "zero_elements_true")
		}
		// a key at or before an existing entry: claiming "nothing from here on" is false
		z := rapid.IntRange(0, n-1).Draw(t, "z")
		from := ents[z].k
		if d, ok := decKey(from); ok && rapid.Bool().Draw(t, "zeroBefore") && (z == 0 || bytes.Compare(d, ents[z-1].k) > 0) {
			from = d
		}
		p := memorydb.New(logger)
		b.tr.Prove(from, 0, p)
		desc = fmt.Sprintf("zero elements from %x although entry %d follows", from, z)
		if _, err := trie.VerifyRangeProof(b.root, from, from, nil, nil, p); err == nil {
			fail("C18/range-accepts-altered-window/zero-elements-hides-entries", "an empty range was accepted although entries exist at or after the start key")
		}
		labels = append(labels, "zero_elements_false")
	}

	sort.Strings(labels)
	_, sh := refRoot(b.content)
	sig := fmt.Sprintf("%s|%s|%s|%s-%s|w%d/%d|%v", scheme, b.reopen, sh.class(), firstKind, lastKind, bucket(j-i+1), bucket(n), single)
	nontrivial := n >= 3 && !(i == 0 && j == n-1)
	stats.Case(part, sig, nontrivial, labels...)
	if nontrivial && stats.WantSample(part) {
		stats.Sample(part, map[string]any{"scheme": scheme, "entries": n, "window": desc, "first": firstKind, "last": lastKind, "history_len": len(b.hist)})
	}
}

func bucket(n int) int {
	switch {
	case n <= 3:
		return n
	case n <= 8:
		return 8
	case n <= 16:
		return 16
	}
	return 40
}

func TestC18_Range(t *testing.T) { rapid.Check(t, propRange) }
