package c18

import (
	"bytes"
	"fmt"
	"math/big"
	"sort"
	"testing"

	"github.com/dominant-strategies/go-quai/common"
	"github.com/dominant-strategies/go-quai/core/types"
	"github.com/dominant-strategies/go-quai/rlp"
	"github.com/dominant-strategies/go-quai/trie"
	"pgregory.net/rapid"

	"verifharness/stats"
)

// rawList is a DerivableList of arbitrary non-empty byte items.
type rawList [][]byte

func (l rawList) Len() int                           { return len(l) }
func (l rawList) EncodeIndex(i int, w *bytes.Buffer) { w.Write(l[i]) }

var listLens = []int{0, 1, 2, 3, 15, 16, 17, 126, 127, 128, 129, 130, 255, 256, 257, 300}

func genListLen(t *rapid.T) int {
	if rapid.Bool().Draw(t, "edgeLen") {
		return rapid.SampledFrom(listLens).Draw(t, "n")
	}
	return rapid.IntRange(0, 300).Draw(t, "n")
}

func genHash(t *rapid.T, label string) common.Hash {
	var h common.Hash
	copy(h[:], rapid.SliceOfN(rapid.Byte(), 32, 32).Draw(t, label))
	return h
}

func genTx(t *rapid.T, loc common.Location) *types.Transaction {
	var to *common.Address
	if rapid.IntRange(0, 4).Draw(t, "create") != 0 {
		a := common.BytesToAddress(rapid.SliceOfN(rapid.Byte(), 20, 20).Draw(t, "to"), loc)
		to = &a
	}
	bigN := func(label string) *big.Int {
		return new(big.Int).SetBytes(rapid.SliceOfN(rapid.Byte(), 0, 32).Draw(t, label))
	}
	return types.NewTx(&types.QuaiTx{
		ChainID:  big.NewInt(int64(rapid.IntRange(1, 20000).Draw(t, "chainid"))),
		Nonce:    rapid.Uint64().Draw(t, "nonce"),
		GasPrice: bigN("gasPrice"),
		Gas:      rapid.Uint64().Draw(t, "gas"),
		To:       to,
		Value:    bigN("value"),
		Data:     rapid.SliceOfN(rapid.Byte(), 0, 80).Draw(t, "data"),
		V:        big.NewInt(int64(rapid.IntRange(0, 1).Draw(t, "v"))),
		R:        bigN("r"),
		S:        bigN("s"),
	})
}

func genReceipt(t *rapid.T, loc common.Location) *types.Receipt {
	r := &types.Receipt{
		Type:              rapid.SampledFrom([]uint8{types.QuaiTxType, types.ExternalTxType, types.QiTxType}).Draw(t, "rtype"),
		Status:            uint64(rapid.IntRange(0, 1).Draw(t, "status")),
		CumulativeGasUsed: rapid.Uint64().Draw(t, "cgu"),
	}
	nLogs := rapid.IntRange(0, 3).Draw(t, "nLogs")
	for i := 0; i < nLogs; i++ {
		l := &types.Log{
			Address: common.BytesToAddress(rapid.SliceOfN(rapid.Byte(), 20, 20).Draw(t, "logAddr"), loc),
			Data:    rapid.SliceOfN(rapid.Byte(), 0, 64).Draw(t, "logData"),
		}
		nTopics := rapid.IntRange(0, 4).Draw(t, "nTopics")
		for j := 0; j < nTopics; j++ {
			l.Topics = append(l.Topics, genHash(t, "topic"))
		}
		r.Logs = append(r.Logs, l)
	}
	r.Bloom = types.CreateBloom(types.Receipts{r})
	return r
}

// propDerive: the streaming hasher (StackTrie) used for transaction / receipt / ETX / manifest
// roots agrees with the full trie and with the reference root on arbitrary lists.
func propDerive(t *rapid.T) {
	const part = "derive"
	loc := common.Location{0, 0}
	kind := rapid.SampledFrom([]string{"raw-short", "raw-mixed", "raw-long", "hashes", "manifest", "receipts", "transactions"}).Draw(t, "kind")
	n := genListLen(t)
	if fuzzMode && n > 140 {
		n = 100 + n%41
	}
	if (kind == "receipts" || kind == "transactions") && n > 140 {
		n = 100 + n%41 // keeps the 0x7f/0x80 index boundary, bounds the drawing cost
	}
	var list types.DerivableList
	switch kind {
	case "hashes", "manifest":
		hs := make([]common.Hash, n)
		for i := range hs {
			hs[i] = genHash(t, "h")
		}
		if kind == "hashes" {
			list = common.Hashes(hs)
		} else {
			list = types.BlockManifest(hs)
		}
	case "receipts":
		rs := make(types.Receipts, n)
		for i := range rs {
			rs[i] = genReceipt(t, loc)
		}
		list = rs
	case "transactions":
		txs := make(types.Transactions, n)
		for i := range txs {
			txs[i] = genTx(t, loc)
		}
		list = txs
	default:
		lo, hi := 1, 8 // short items: leaves embedded in their parents
		if kind == "raw-mixed" {
			hi = 70
		} else if kind == "raw-long" {
			lo, hi = 33, 120
		}
		rl := make(rawList, n)
		for i := range rl {
			rl[i] = rapid.SliceOfN(rapid.Byte(), lo, hi).Draw(t, "item")
		}
		list = rl
	}
	fail := func(fp, msg string) {
		items := []string{}
		var buf bytes.Buffer
		for i := 0; i < list.Len() && i < 300; i++ {
			buf.Reset()
			list.EncodeIndex(i, &buf)
			items = append(items, hex(buf.Bytes()))
		}
		stats.Violation(t, part, fp, msg, map[string]any{"kind": kind, "n": n, "encoded_items": items})
	}
	// content of the index trie
	content := map[string][]byte{}
	var buf bytes.Buffer
	for i := 0; i < list.Len(); i++ {
		buf.Reset()
		list.EncodeIndex(i, &buf)
		if buf.Len() == 0 {
			t.Fatalf("HARNESS: item %d of a %s list encodes to nothing", i, kind)
		}
		content[string(rlp.AppendUint64(nil, uint64(i)))] = common.CopyBytes(buf.Bytes())
	}
	want, sh := refRoot(content)
	stack := types.DeriveSha(list, trie.NewStackTrie(nil))
	_, tdb := newTrieDB()
	full, err := trie.New(common.Hash{}, tdb)
	if err != nil {
		t.Fatalf("HARNESS: %v", err)
	}
	fullRoot := types.DeriveSha(list, full)
	if stack != fullRoot {
		fail("C18/derivesha-stack-vs-trie/"+kind, fmt.Sprintf("DeriveSha over %d %s items: StackTrie %x, Trie %x", n, kind, stack, fullRoot))
	}
	if stack != want {
		fail("C18/derivesha-stack-vs-reference/"+kind, fmt.Sprintf("DeriveSha over %d %s items: StackTrie %x, reference root %x", n, kind, stack, want))
	}
	// a reused hasher (Reset by DeriveSha) gives the same answer again
	st := trie.NewStackTrie(nil)
	types.DeriveSha(list, st)
	if again := types.DeriveSha(list, st); again != stack {
		fail("C18/derivesha-reuse/"+kind, fmt.Sprintf("second DeriveSha on the same StackTrie gives %x, first %x", again, stack))
	}
	labels := []string{"kind_" + kind}
	switch {
	case n == 0:
		labels = append(labels, "len_0")
	case n == 1:
		labels = append(labels, "len_1")
	case n <= 0x7f:
		labels = append(labels, "len_2..127")
	case n == 0x80:
		labels = append(labels, "len_128")
	default:
		labels = append(labels, "len_129+")
	}
	if sh.embedded > 0 {
		labels = append(labels, "embedded_node")
	}
	stats.Case(part, fmt.Sprintf("%s|%d|%s", kind, n, sh.class()), n >= 2, labels...)
	if n >= 2 && stats.WantSample(part) {
		stats.Sample(part, map[string]any{"kind": kind, "n": n, "root": stack.Hex(), "shape": sh.class()})
	}
}

func TestC18_DeriveSha(t *testing.T) { rapid.Check(t, propDerive) }

// propStack: a StackTrie fed an arbitrary prefix-free key set in ascending order produces the
// root of the full trie / the reference, and what it commits can be reopened as a Trie with
// exactly that content.
func propStack(t *rapid.T) {
	const part = "stack"
	scheme := rapid.SampledFrom([]string{"fixed2", "fixed4", "fixed32", "rlp-index", "fixedN"}).Draw(t, "scheme")
	n := rapid.IntRange(1, 60).Draw(t, "n")
	content := map[string][]byte{}
	switch scheme {
	case "rlp-index":
		start := rapid.Uint64Range(0, 70000).Draw(t, "start")
		for i := 0; i < n; i++ {
			content[string(rlp.AppendUint64(nil, start+uint64(i)*uint64(rapid.IntRange(1, 3).Draw(t, "step"))))] = genValue(t)
		}
	case "fixedN":
		l := rapid.IntRange(1, 40).Draw(t, "keyLen")
		for i := 0; i < n; i++ {
			content[string(genDenseKey(t, l, l, "k"))] = genValue(t)
		}
	default:
		for _, k := range genKeyPool(t, scheme, n) {
			content[string(k)] = genValue(t)
		}
	}
	ents := sortedKVs(content)
	fail := func(fp, msg string) {
		var d []string
		for _, e := range ents {
			d = append(d, fmt.Sprintf("%x=%x", e.k, e.v))
		}
		stats.Violation(t, part, fp, msg, map[string]any{"scheme": scheme, "entries": d})
	}
	want, sh := refRoot(content)
	disk, _ := newTrieDB()
	st := trie.NewStackTrie(disk)
	for _, e := range ents {
		if err := st.TryUpdate(e.k, e.v); err != nil {
			fail("C18/stacktrie-update-error", err.Error())
		}
	}
	withCommit := rapid.Bool().Draw(t, "commit")
	var root common.Hash
	if withCommit {
		var err error
		if root, err = st.Commit(); err != nil {
			fail("C18/stacktrie-commit-error", err.Error())
		}
	} else {
		root = st.Hash()
	}
	if root != want {
		fail("C18/stacktrie-vs-reference", fmt.Sprintf("StackTrie root %x, reference %x over %d entries", root, want, len(ents)))
	}
	order := make([]kv, len(ents))
	copy(order, ents)
	if r, err := rebuild(false, rapid.Permutation(order).Draw(t, "perm")); err != nil || r != root {
		fail("C18/stacktrie-vs-trie", fmt.Sprintf("StackTrie root %x, Trie root %x (%v)", root, r, err))
	}
	if withCommit {
		tr, err := openTrie(false, root, trie.NewDatabase(disk))
		if err != nil {
			fail("C18/stacktrie-commit-reload", fmt.Sprintf("cannot open the committed StackTrie root %x: %v", root, err))
		} else {
			got, cnt, err := leaves(tr)
			if err != nil || cnt != len(content) || !sameContent(got, content) {
				fail("C18/stacktrie-commit-content", fmt.Sprintf("trie reopened from the StackTrie commit enumerates %d leaves (err %v), content has %d", cnt, err, len(content)))
			}
		}
	}
	labels := []string{"scheme_" + scheme}
	if withCommit {
		labels = append(labels, "commit_reload")
	}
	if sh.embedded > 0 {
		labels = append(labels, "embedded_node")
	}
	sort.Strings(labels)
	stats.Case(part, fmt.Sprintf("%s|%s|%v", scheme, sh.class(), withCommit), len(ents) >= 2, labels...)
	if len(ents) >= 2 && stats.WantSample(part) {
		stats.Sample(part, map[string]any{"scheme": scheme, "entries": len(ents), "shape": sh.class(), "commit": withCommit})
	}
}

func TestC18_Stack(t *testing.T) { rapid.Check(t, propStack) }
