package c18

import (
	"bytes"
	"fmt"
	"sort"
	"strings"
	"testing"

	"github.com/dominant-strategies/go-quai/common"
	"github.com/dominant-strategies/go-quai/crypto"
	"github.com/dominant-strategies/go-quai/ethdb"
	"github.com/dominant-strategies/go-quai/ethdb/memorydb"
	"github.com/dominant-strategies/go-quai/trie"
	"pgregory.net/rapid"

	"verifharness/stats"
)

// trieKey maps a raw key to the key under which the trie stores it.
func trieKey(secure bool, raw []byte) []byte {
	if secure {
		return crypto.Keccak256(raw)
	}
	return raw
}

type histCase struct {
	secure  bool
	scheme  string
	disk    *memorydb.Database
	tdb     *trie.Database
	tr      anyTrie
	content map[string][]byte // trie key -> value
	raw     map[string][]byte // trie key -> raw key
	hist    []string
	kinds   map[string]bool
	// generator measurements
	collapses, deletesHit, reloads, freshReloads, commits, bulk int
	flushedRoot                                                 *common.Hash
	// a copy of the handle taken earlier and what it held then
	frozen        anyTrie
	frozenContent map[string][]byte
	frozenRaw     map[string][]byte
	copies        int
}

// copyTrie copies a trie handle the way core/state does (SecureTrie.Copy; a plain Trie is copied
// by value): the copy shares the node objects with the original.
func copyTrie(t anyTrie) (anyTrie, bool) {
	switch x := t.(type) {
	case *trie.SecureTrie:
		return x.Copy(), true
	case *trie.Trie:
		cp := *x
		return &cp, true
	}
	return nil, false
}

func (c *histCase) log(kind, detail string) {
	c.kinds[kind] = true
	if len(c.hist) < 400 {
		c.hist = append(c.hist, kind+" "+detail)
	}
}

func (c *histCase) dump() map[string]any {
	return map[string]any{"secure": c.secure, "scheme": c.scheme, "history": c.hist}
}

// rebuild builds a fresh trie from (raw key, value) pairs in the given order and returns its root.
func rebuild(secure bool, order []kv) (common.Hash, error) {
	_, tdb := newTrieDB()
	t, err := openTrie(secure, common.Hash{}, tdb)
	if err != nil {
		return common.Hash{}, err
	}
	for _, e := range order {
		if err := t.TryUpdate(e.k, e.v); err != nil {
			return common.Hash{}, err
		}
	}
	return t.Hash(), nil
}

var histCaseNo int

func propHistory(t *rapid.T) {
	const part = "history"
	// the node database flushes its write batch early once it holds more than
	// ethdb.IdealBatchSize (100 KiB; a variable under the verif build tag): two cases out of three
	// lower it so that Commit and Cap of these small tries cross the threshold several times
	histCaseNo++
	flushAt := []int{100 * 1024, 48, 400}[histCaseNo%3]
	defer func(v int) { ethdb.IdealBatchSize = v }(ethdb.IdealBatchSize)
	ethdb.IdealBatchSize = flushAt
	c := &histCase{content: map[string][]byte{}, raw: map[string][]byte{}, kinds: map[string]bool{}}
	c.secure = rapid.Bool().Draw(t, "secure")
	if c.secure {
		c.scheme = rapid.SampledFrom([]string{"dense", "etx", "etx", "long"}).Draw(t, "scheme")
	} else {
		c.scheme = rapid.SampledFrom([]string{"dense", "dense", "long", "fixed32", "fixed4"}).Draw(t, "scheme")
	}
	big := rapid.IntRange(0, 11).Draw(t, "big") == 0 && !fuzzMode
	poolSize := rapid.IntRange(2, 24).Draw(t, "poolSize")
	if big {
		poolSize = rapid.IntRange(110, 200).Draw(t, "bigPool")
	}
	pool := genKeyPool(t, c.scheme, poolSize)
	c.disk, c.tdb = newTrieDB()
	var err error
	if c.tr, err = openTrie(c.secure, common.Hash{}, c.tdb); err != nil {
		t.Fatalf("HARNESS: open empty trie: %v", err)
	}
	fail := func(fp, msg string) {
		stats.Violation(t, part, fp, msg, c.dump())
	}
	kindName := "plain"
	if c.secure {
		kindName = "secure"
	}
	pick := func() []byte { return pool[rapid.IntRange(0, len(pool)-1).Draw(t, "key")] }

	branches := func() int { _, sh := refRoot(c.content); return sh.branch }
	doUpdate := func(raw, v []byte) {
		tk := string(trieKey(c.secure, raw))
		before := -1
		_, had := c.content[tk]
		if len(v) == 0 && had {
			before = branches()
		}
		if err := c.tr.TryUpdate(raw, v); err != nil {
			fail("C18/update-error/"+kindName, fmt.Sprintf("TryUpdate(%x, %x): %v", raw, v, err))
		}
		if len(v) == 0 {
			delete(c.content, tk)
			delete(c.raw, tk)
		} else {
			c.content[tk] = v
			c.raw[tk] = raw
		}
		if before >= 0 {
			c.deletesHit++
			if branches() < before {
				c.collapses++
			}
		}
	}
	doDelete := func(raw []byte) {
		tk := string(trieKey(c.secure, raw))
		before := -1
		if _, had := c.content[tk]; had {
			before = branches()
		}
		if err := c.tr.TryDelete(raw); err != nil {
			fail("C18/delete-error/"+kindName, fmt.Sprintf("TryDelete(%x): %v", raw, err))
		}
		delete(c.content, tk)
		delete(c.raw, tk)
		if before >= 0 {
			c.deletesHit++
			if branches() < before {
				c.collapses++
			}
		}
	}
	checkGet := func(raw []byte) {
		got, err := c.tr.TryGet(raw)
		want := c.content[string(trieKey(c.secure, raw))]
		if err != nil {
			fail("C18/get-error/"+kindName, fmt.Sprintf("TryGet(%x): %v", raw, err))
		} else if !bytes.Equal(got, want) {
			fail("C18/get/"+kindName, fmt.Sprintf("TryGet(%x) = %x, content has %x", raw, got, want))
		}
	}
	checkRoot := func(where string) common.Hash {
		got := c.tr.Hash()
		want, _ := refRoot(c.content)
		if got != want {
			fail("C18/root-vs-reference/"+kindName, fmt.Sprintf("%s: Hash() = %x, reference root of the %d-entry content = %x", where, got, len(c.content), want))
		}
		return got
	}
	checkLeaves := func(where string) {
		got, n, err := leaves(c.tr)
		if err != nil {
			fail("C18/iterate-error/"+kindName, fmt.Sprintf("%s: iterator error %v", where, err))
			return
		}
		if n != len(got) || !sameContent(got, c.content) {
			fail("C18/content-after-"+where+"/"+kindName, fmt.Sprintf("%s: trie enumerates %d leaves (%d distinct), content has %d entries, equal=%v", where, n, len(got), len(c.content), sameContent(got, c.content)))
		}
	}
	doCommit := func(flush bool) common.Hash {
		pre := checkRoot("before commit")
		root, err := c.tr.Commit(nil)
		if err != nil {
			fail("C18/commit-error/"+kindName, err.Error())
		}
		if root != pre {
			fail("C18/commit-root/"+kindName, fmt.Sprintf("Commit() = %x but Hash() before it = %x", root, pre))
		}
		c.commits++
		if flush && root != emptyRoot {
			if err := c.tdb.Commit(root, false, nil); err != nil {
				fail("C18/db-commit-error/"+kindName, err.Error())
			}
			r := root
			c.flushedRoot = &r
		} else if flush {
			r := root
			c.flushedRoot = &r
		}
		if h := c.tr.Hash(); h != root {
			fail("C18/hash-after-commit/"+kindName, fmt.Sprintf("Hash() after Commit = %x, Commit returned %x", h, root))
		}
		return root
	}

	checkFrozen := func() {
		if c.frozen == nil {
			return
		}
		for tk, want := range c.frozenContent {
			got, err := c.frozen.TryGet(c.frozenRaw[tk])
			if err != nil || !bytes.Equal(got, want) {
				fail("C18/copy-disturbed/get/"+kindName, fmt.Sprintf("a copy of the trie taken earlier returns %x (err %v) for key %x, it held %x when it was copied; operations since went through the other handle", got, err, c.frozenRaw[tk], want))
				return
			}
		}
		want, _ := refRoot(c.frozenContent)
		if got := c.frozen.Hash(); got != want {
			fail("C18/copy-disturbed/root/"+kindName, fmt.Sprintf("a copy of the trie taken earlier hashes to %x, the reference root of the %d entries it held is %x", got, len(c.frozenContent), want))
			return
		}
		if got, n, err := leaves(c.frozen); err != nil || n != len(got) || !sameContent(got, c.frozenContent) {
			fail("C18/copy-disturbed/content/"+kindName, fmt.Sprintf("a copy of the trie taken earlier enumerates %d leaves (err %v), it held %d entries", n, err, len(c.frozenContent)))
		}
	}
	if big {
		// bulk load: more than 100 unhashed updates exercises the parallel hasher
		c.log("bulk", fmt.Sprint(len(pool)))
		c.bulk = len(pool)
		for _, k := range pool {
			doUpdate(k, genValue(t))
		}
		checkRoot("after bulk load")
	}

	actions := map[string]func(*rapid.T){
		"update": func(t *rapid.T) {
			k, v := pick(), genValue(t)
			c.log("update", fmt.Sprintf("%x=%x", k, v))
			doUpdate(k, v)
			checkGet(k)
		},
		"updateEmpty": func(t *rapid.T) {
			k := pick()
			c.log("updateEmpty", hex(k))
			doUpdate(k, nil)
			checkGet(k)
		},
		"delete": func(t *rapid.T) {
			k := pick()
			c.log("delete", hex(k))
			doDelete(k)
			checkGet(k)
		},
		"get": func(t *rapid.T) {
			k := pick()
			c.log("get", hex(k))
			checkGet(k)
		},
		"hash": func(t *rapid.T) {
			c.log("hash", "")
			checkRoot("hash op")
		},
		"commit": func(t *rapid.T) {
			flush := rapid.Bool().Draw(t, "flush")
			c.log("commit", fmt.Sprintf("flush=%v", flush))
			doCommit(flush)
		},
		// the node database is told to shed memory (the node does this between blocks): dirty nodes
		// go to disk oldest first, in batches of the flush threshold; content and root are unaffected
		"cap": func(t *rapid.T) {
			limit := rapid.SampledFrom([]int{0, 0, 64, 600}).Draw(t, "capLimit")
			c.log("cap", fmt.Sprint(limit))
			doCommit(false)
			if err := c.tdb.Cap(common.StorageSize(limit)); err != nil {
				fail("C18/db-cap-error/"+kindName, err.Error())
			}
			c.kinds["cap"] = true
			checkRoot("after cap")
			checkLeaves("cap")
		},
		"reload": func(t *rapid.T) {
			// reopen at the committed root from the same node database
			c.log("reload", "same-db")
			root := doCommit(false)
			nt, err := openTrie(c.secure, root, c.tdb)
			if err != nil {
				fail("C18/reload-error/"+kindName, fmt.Sprintf("open at committed root %x: %v", root, err))
				return
			}
			c.tr = nt
			c.reloads++
			if h := c.tr.Hash(); h != root {
				fail("C18/reload-root/"+kindName, fmt.Sprintf("reloaded trie hashes to %x, committed root %x", h, root))
			}
			checkLeaves("reload")
		},
		"reloadFresh": func(t *rapid.T) {
			// flush to the key-value store and reopen through a brand-new node database
			c.log("reloadFresh", "")
			root := doCommit(true)
			c.tdb = trie.NewDatabase(c.disk)
			nt, err := openTrie(c.secure, root, c.tdb)
			if err != nil {
				fail("C18/reload-error/"+kindName, fmt.Sprintf("open at flushed root %x through a fresh database: %v", root, err))
				return
			}
			c.tr = nt
			c.reloads++
			c.freshReloads++
			if h := c.tr.Hash(); h != root {
				fail("C18/reload-root/"+kindName, fmt.Sprintf("reloaded trie hashes to %x, committed root %x", h, root))
			}
			checkLeaves("reload")
		},
		// a copy of the trie handle (StateDB.Copy / Database.CopyTrie share the node objects with the
		// original): whatever is done through one handle afterwards, the other keeps its content
		"copy": func(t *rapid.T) {
			cp, ok := copyTrie(c.tr)
			if !ok {
				return // not a skip: under the byte-driven fuzz entry an exhausted input keeps choosing the same action
			}
			frozenContent := map[string][]byte{}
			for k, v := range c.content {
				frozenContent[k] = v
			}
			frozenRaw := map[string][]byte{}
			for k, v := range c.raw {
				frozenRaw[k] = v
			}
			c.log("copy", fmt.Sprintf("(%d entries)", len(c.content)))
			// continue on either side, the other side is frozen
			if rapid.Bool().Draw(t, "continueOnCopy") {
				c.frozen, c.tr = c.tr, cp
			} else {
				c.frozen = cp
			}
			c.frozenContent, c.frozenRaw = frozenContent, frozenRaw
			c.copies++
		},
		"checkCopy": func(t *rapid.T) {
			if c.frozen == nil {
				return // nothing to check yet (not a skip, see "copy")
			}
			c.log("checkCopy", "")
			checkFrozen()
		},
		"": func(t *rapid.T) {},
	}
	// weight the mutating ops
	actions["update2"], actions["update3"], actions["delete2"] = actions["update"], actions["update"], actions["delete"]
	t.Repeat(actions)

	// ---- final oracles --------------------------------------------------------------------
	checkFrozen()
	final := checkRoot("end of history")
	for _, k := range pool {
		if len(pool) <= 40 || rapid.IntRange(0, 7).Draw(t, "probe") == 0 {
			checkGet(k)
		}
	}
	checkLeaves("history")
	// rebuild from the final content: sorted, reverse-sorted and a drawn permutation
	ents := sortedKVs(c.content)
	order := make([]kv, len(ents))
	for i, e := range ents {
		order[i] = kv{c.raw[string(e.k)], e.v}
	}
	sort.Slice(order, func(i, j int) bool { return bytes.Compare(order[i].k, order[j].k) < 0 })
	check := func(name string, o []kv) {
		r, err := rebuild(c.secure, o)
		if err != nil {
			fail("C18/rebuild-error/"+kindName, err.Error())
		} else if r != final {
			fail("C18/history-dependence/"+kindName, fmt.Sprintf("root after history %x != root %x of a trie built from the final %d-entry content in %s order", final, r, len(o), name))
		}
	}
	check("sorted", order)
	if len(order) > 1 {
		rev := make([]kv, len(order))
		for i := range order {
			rev[len(order)-1-i] = order[i]
		}
		check("reverse", rev)
		check("shuffled", rapid.Permutation(order).Draw(t, "perm"))
	}

	// ---- bookkeeping ----------------------------------------------------------------------
	_, sh := refRoot(c.content)
	var ks []string
	for k := range c.kinds {
		ks = append(ks, k)
	}
	sort.Strings(ks)
	labels := []string{kindName, "scheme_" + c.scheme}
	if c.collapses > 0 {
		labels = append(labels, "branch_collapse")
	}
	if c.deletesHit > 0 {
		labels = append(labels, "delete_existing")
	}
	if c.reloads > 0 {
		labels = append(labels, "reload")
	}
	if c.freshReloads > 0 {
		labels = append(labels, "reload_fresh_db")
	}
	if c.commits > 0 {
		labels = append(labels, "commit")
	}
	if c.kinds["cap"] {
		labels = append(labels, "cap")
	}
	labels = append(labels, fmt.Sprintf("flush_threshold:%d", flushAt))
	if c.bulk > 0 {
		labels = append(labels, "bulk_parallel_hasher")
	}
	if sh.branchVal > 0 {
		labels = append(labels, "key_is_prefix_of_key")
	}
	if sh.embedded > 0 {
		labels = append(labels, "embedded_node")
	}
	if len(c.content) == 0 {
		labels = append(labels, "final_empty")
	}
	sig := kindName + "|" + c.scheme + "|" + sh.class() + "|" + strings.Join(ks, ",")
	nontrivial := c.collapses > 0
	stats.Case(part, sig, nontrivial, labels...)
	if nontrivial && stats.WantSample(part) {
		stats.Sample(part, c.dump())
	}
}

func TestC18_History(t *testing.T) { rapid.Check(t, propHistory) }
