package c18

import (
	"testing"

	"pgregory.net/rapid"
)

// Native fuzz targets (thorough tier): the same properties driven by the Go fuzzer's byte
// stream through rapid.MakeFuzz, so that coverage-guided mutation explores the generators.

// seed adds a fixed corpus of long pseudo-random byte strings (xorshift, constant seeds) so
// that mutation starts from inputs long enough to drive a whole generated case; the empty
// corpus would mostly produce inputs that run out of bytes after a few draws.
func seed(f *testing.F) {
	for _, s := range []uint64{0x9e3779b97f4a7c15, 0xbf58476d1ce4e5b9, 0x94d049bb133111eb, 0x2545f4914f6cdd1d, 1, 2, 3, 4} {
		b := make([]byte, 8192)
		x := s
		for i := range b {
			x ^= x << 13
			x ^= x >> 7
			x ^= x << 17
			b[i] = byte(x >> 32)
		}
		f.Add(b)
	}
}

// The Go fuzz worker kills itself ("deadlocked!", exit status 2) when one input runs longer
// than 10 s, and the driver reports any worker death as a crasher. fuzzMode therefore caps the
// generated sizes so that one input costs a few milliseconds even on a heavily loaded machine.
func FuzzC18_History(f *testing.F) { fuzzMode = true; seed(f); f.Fuzz(rapid.MakeFuzz(propHistory)) }
func FuzzC18_Proof(f *testing.F)   { fuzzMode = true; seed(f); f.Fuzz(rapid.MakeFuzz(propProof)) }
func FuzzC18_Range(f *testing.F)   { fuzzMode = true; seed(f); f.Fuzz(rapid.MakeFuzz(propRange)) }
func FuzzC18_Stack(f *testing.F) {
	fuzzMode = true
	seed(f)
	f.Fuzz(rapid.MakeFuzz(func(t *rapid.T) {
		if rapid.Bool().Draw(t, "which") {
			propStack(t)
		} else {
			propDerive(t)
		}
	}))
}
