// C11 — a crash at any point leaves a database the node can restart and continue from.
// The zone node of a real hierarchy runs on a database whose durable writes are logged; for a
// generated window of block appends and a reorganisation EVERY prefix of the write log is
// materialised as the on-disk state after a crash, a node is started on it, its head is checked
// against the stored UTXO/lockup records and state roots, and the interrupted work is resumed
// and compared with the uninterrupted run (DESIGN.md §4 C11).
package c11

import (
	"errors"
	"fmt"
	"runtime/debug"
	"strings"
	"testing"
	"time"

	"github.com/dominant-strategies/go-quai/common"
	"github.com/dominant-strategies/go-quai/core"
	"github.com/dominant-strategies/go-quai/core/rawdb"
	"github.com/dominant-strategies/go-quai/core/types"
	"github.com/dominant-strategies/go-quai/ethdb"
	"pgregory.net/rapid"

	"verifharness/sim"
	"verifharness/stats"
)

const part = "crash"

type outcome struct {
	fp, msg string
}

// crashAt starts a zone node on the database content after k log entries and evaluates the
// property's clauses. window = the zone-order blocks whose writes lie in the explored log range.
func crashAt(n *sim.Net, l *sim.OpLog, k int, window []*sim.Block, finalTip *types.WorkObject, want *sim.ChainState, nodeOpts sim.NodeOpts) (out outcome) {
	db := l.Materialise(k, sim.ZoneLoc)
	var nd *sim.Node
	defer func() {
		if r := recover(); r != nil {
			out = outcome{"restart-panic", fmt.Sprintf("crash point %d: panic/fatal while restarting or resuming: %v\n%s", k, r, trimStack(string(debug.Stack())))}
		}
		if nd != nil {
			go func(n *sim.Node) { time.Sleep(300 * time.Millisecond); n.Stop() }(nd)
		}
	}()
	var err error
	nd, err = sim.StartNode(sim.ZoneLoc, db, nodeOpts)
	if err != nil {
		return outcome{"restart-error", fmt.Sprintf("crash point %d: node does not open: %v", k, err)}
	}
	n.AttachZoneReadOnly(nd) // the dominant chains did not crash; header verification needs them for prime blocks
	head := nd.Core.CurrentHeader()
	if head == nil {
		return outcome{"no-head", fmt.Sprintf("crash point %d: no head after restart", k)}
	}
	if fp, msg := sim.CheckHeadCommitment(nd); fp != "" {
		return outcome{"head-inconsistent/" + fp, fmt.Sprintf("crash point %d: after restart the reported head #%d %x does not describe the stored state: %s", k, head.NumberU64(sim.Zone), head.Hash().Bytes()[:6], msg)}
	}
	// resume: feed every block of the window again (known ones are skipped by the node) and adopt the final tip
	for i, b := range window {
		blk := types.CopyWorkObject(b.Zone())
		nd.Core.Slice().WriteBlock(blk)
		if _, err := nd.Core.Slice().Append(types.CopyWorkObject(b.Zone()), common.Hash{}, false, nil); err != nil && !errors.Is(err, core.ErrKnownBlock) && err.Error() != core.ErrKnownBlock.Error() {
			return outcome{"resume-append", fmt.Sprintf("crash point %d: cannot append window block %d (#%d) after restart: %v", k, i, b.Zone().NumberU64(sim.Zone), err)}
		}
	}
	tip := nd.Core.GetBlockByHash(finalTip.Hash())
	if tip == nil {
		return outcome{"resume-tip-missing", fmt.Sprintf("crash point %d: final tip unknown after re-feeding the window", k)}
	}
	if err := nd.Core.Slice().HeaderChain().SetCurrentHeader(tip); err != nil {
		return outcome{"resume-sethead", fmt.Sprintf("crash point %d: cannot adopt the final tip after restart: %v", k, err)}
	}
	if nd.Core.CurrentHeader().Hash() != finalTip.Hash() {
		return outcome{"resume-head", fmt.Sprintf("crash point %d: head after resume is #%d %x, want the final tip", k, nd.Core.CurrentHeader().NumberU64(sim.Zone), nd.Core.CurrentHeader().Hash().Bytes()[:6])}
	}
	if fp, msg := sim.CheckHeadCommitment(nd); fp != "" {
		return outcome{"resumed-inconsistent/" + fp, fmt.Sprintf("crash point %d: after resuming to the final tip: %s", k, msg)}
	}
	got := sim.CaptureChainState(nd)
	// the property speaks about the head and the state it commits to: compare the canonical map up
	// to the head only (an entry above the head left by the interrupted append is overwritten as
	// soon as the chain grows and is not demanded to be absent)
	got.Canonical = got.Canonical[:got.HeadNumber+1]
	w2 := *want
	w2.Canonical = w2.Canonical[:w2.HeadNumber+1]
	if d := w2.Diff(got); d != "" {
		return outcome{"resumed-differs", fmt.Sprintf("crash point %d: state after crash+resume differs from the uninterrupted run: %s", k, d)}
	}
	return outcome{}
}

// crashNow evaluates the head clauses of the property at the current end of the write log: a
// crash at this very moment. It is used when a step of the live history fails: if the database
// as it is on disk does not describe its own head (say, because an attempt to append a block
// failed after part of its effects had been flushed), that is a violation at a real crash
// point of a real history; otherwise the failure is the harness's and stays inconclusive.
func crashNow(n *sim.Net, l *sim.OpLog, nodeOpts sim.NodeOpts) (out outcome) {
	k := l.Len()
	db := l.Materialise(k, sim.ZoneLoc)
	var nd *sim.Node
	defer func() {
		if r := recover(); r != nil {
			out = outcome{"restart-panic", fmt.Sprintf("crash point %d (end of the log, after a failed step): panic/fatal while restarting: %v\n%s", k, r, trimStack(string(debug.Stack())))}
		}
		if nd != nil {
			go func(n *sim.Node) { time.Sleep(300 * time.Millisecond); n.Stop() }(nd)
		}
	}()
	var err error
	nd, err = sim.StartNode(sim.ZoneLoc, db, nodeOpts)
	if err != nil {
		return outcome{"restart-error", fmt.Sprintf("crash point %d (end of the log, after a failed step): node does not open: %v", k, err)}
	}
	n.AttachZoneReadOnly(nd)
	head := nd.Core.CurrentHeader()
	if head == nil {
		return outcome{"no-head", fmt.Sprintf("crash point %d: no head after restart", k)}
	}
	if fp, msg := sim.CheckHeadCommitment(nd); fp != "" {
		return outcome{"head-inconsistent/" + fp, fmt.Sprintf("crash point %d (end of the log, after a failed step of the live history): the reported head #%d %x does not describe the stored state: %s", k, head.NumberU64(sim.Zone), head.Hash().Bytes()[:6], msg)}
	}
	return outcome{}
}

func TestC11_CrashPoints(t *testing.T) {
	caseNo := 0
	rapid.Check(t, func(t *rapid.T) {
		caseNo++
		// The node flushes a write batch early once it holds more than ethdb.IdealBatchSize
		// (100 KiB); the simulator's blocks and state changes are far smaller, so those
		// size-triggered flushes (trie database, index writers) would never happen and the
		// crash points between them would never be explored. Two cases out of three lower
		// the threshold (a variable under the verif build tag) so that they do.
		batchSize := []int{100 * 1024, 2048, 256}[(caseNo+stats.Shard())%3]
		defer func(v int) { ethdb.IdealBatchSize = v }(ethdb.IdealBatchSize)
		ethdb.IdealBatchSize = batchSize
		index := rapid.Bool().Draw(t, "indexAddressUtxos")
		l := &sim.OpLog{}
		opt := sim.Options{}
		opt.Nodes[sim.Zone].DB = sim.NewLoggedDB(sim.ZoneLoc, l)
		opt.Nodes[sim.Zone].IndexAddressUtxos = index
		n, err := sim.NewNet(opt)
		if err != nil {
			t.Fatalf("HARNESS: net: %v", err)
		}
		defer n.Close()
		a := sim.NewActor(n)
		if err := a.Prelude(); err != nil {
			t.Fatalf("HARNESS: prelude: %v", err)
		}
		// a failing step of the live history: first ask whether the database, as it is on disk
		// at this moment, still describes its head (see crashNow); only then blame the harness
		liveFail := func(what string, act *sim.Actor, err error) {
			if o := crashNow(n, l, sim.NodeOpts{IndexAddressUtxos: index}); o.fp != "" {
				stats.Violation(t, part, "C11/"+o.fp, fmt.Sprintf("live step failed (%s: %v) with flush threshold %d; %s", what, err, batchSize, o.msg),
					map[string]any{"history": act.Log, "failed_step": what, "error": err.Error(), "flush_threshold": batchSize, "log_around_crash_point": describeLog(l, l.Len()-4, l.Len())})
				t.SkipNow()
			}
			t.Fatalf("HARNESS: %s: %v\n%s", what, err, strings.Join(act.Log, "\n"))
		}
		step := func(act *sim.Actor, order int) *sim.Block {
			if err := act.Adopt(); err != nil {
				liveFail("adopt", act, err)
			}
			act.Traffic(t)
			b, err := act.MineRandomOrder(t, order)
			if err != nil {
				liveFail("mine", act, err)
			}
			return b
		}
		// half of the histories aim the window at a block that trims stored outputs: the warm-up then
		// carries Qi traffic that leaves small zero-lock outputs behind and runs until the next block
		// is the one that trims the oldest of them
		trimMode := rapid.Bool().Draw(t, "trimWindow")
		for i, k := 0, rapid.IntRange(0, 8).Draw(t, "warmup"); i < k; i++ {
			if trimMode {
				if err := a.Adopt(); err != nil {
					liveFail("adopt", a, err)
				}
				a.QiTraffic(t)
			}
			step(a, -1)
		}
		if trimMode {
			for i := 0; i < 14; i++ {
				if err := a.Adopt(); err != nil {
					liveFail("adopt", a, err)
				}
				due, any := a.TrimDue()
				if any && due == 0 {
					break
				}
				if !any {
					a.QiTraffic(t)
				}
				step(a, -1)
			}
		}
		if err := a.Adopt(); err != nil {
			liveFail("adopt", a, err)
		}
		// ---- explored window: zone-order blocks only (a standalone zone node can resume them) ----
		lo := l.Len()
		var marks []int
		var window []*sim.Block
		nA := rapid.IntRange(1, 3).Draw(t, "windowBlocks")
		forkActor := a.Fork(7)
		for i := 0; i < nA; i++ {
			marks = append(marks, l.Len())
			window = append(window, step(a, sim.Zone))
		}
		if err := a.Adopt(); err != nil {
			liveFail("adopt", a, err)
		}
		marks = append(marks, l.Len())
		final := a
		reorg := rapid.Bool().Draw(t, "reorg")
		if reorg {
			nB := rapid.IntRange(1, 3).Draw(t, "branchBlocks")
			for i := 0; i < nB; i++ {
				marks = append(marks, l.Len())
				window = append(window, step(forkActor, sim.Zone))
			}
			if err := forkActor.Adopt(); err != nil {
				liveFail("adopt", forkActor, err)
			}
			final = forkActor
			marks = append(marks, l.Len())
		}
		hi := l.Len()
		want := n.ZoneChainState()
		finalTip := final.Heads[sim.Zone]
		dump := func(k int) any {
			l2 := append([]string{}, a.Log...)
			if reorg {
				l2 = append(l2, "--- branch B (from the window start) ---")
				l2 = append(l2, forkActor.Log[len(a.Log)-nA:]...)
			}
			return map[string]any{"history": l2, "window_log_range": []int{lo, hi}, "crash_point": k, "step_marks": marks, "log_around_crash_point": describeLog(l, k-3, k+2)}
		}
		isMark := map[int]bool{}
		for _, m := range marks {
			isMark[m] = true
		}
		inside := 0
		for k := lo; k <= hi; k++ {
			o := crashAt(n, l, k, window, finalTip, want, sim.NodeOpts{IndexAddressUtxos: index})
			if !isMark[k] {
				inside++
			}
			if o.fp != "" {
				if stats.Violation(t, part, "C11/"+o.fp, o.msg, dump(k)) {
					continue
				}
				return
			}
		}
		labels := []string{fmt.Sprintf("flush_threshold:%d", batchSize), fmt.Sprintf("address_index:%v", index)}
		if reorg {
			labels = append(labels, "reorg_in_window")
		}
		trims, qitx, uncles := false, false, false
		for _, b := range window {
			if tr, _ := rawdb.ReadTrimmedUTXOs(n.Nodes[sim.Zone].DB, b.Zone().Hash()); len(tr) > 0 {
				trims = true
			}
			for _, tx := range b.Zone().Transactions() {
				if tx.Type() == types.QiTxType {
					qitx = true
				}
			}
			if len(b.Zone().Uncles()) > 0 {
				uncles = true
			}
		}
		if trims {
			labels = append(labels, "window_trims_outputs")
		}
		if qitx {
			labels = append(labels, "window_has_qi_tx")
		}
		if uncles {
			labels = append(labels, "window_has_uncles")
		}
		stats.Label(part, "crash_points")
		for i := lo; i < hi; i++ {
			stats.Label(part, "crash_point")
		}
		stats.Case(part, fmt.Sprintf("nA=%d reorg=%v points=%d", nA, reorg, hi-lo+1), inside > 0, labels...)
		if stats.WantSample(part) {
			stats.Sample(part, map[string]any{"window_blocks": nA, "reorg": reorg, "crash_points_explored": hi - lo + 1, "inside_points": inside, "tail_of_history": tail(final.Log, 8)})
		}
	})
}

// describeLog renders log entries [from,to) as key-prefix summaries; entry k-1 is the last
// write that reached the disk before the crash, entry k the first one lost.
func describeLog(l *sim.OpLog, from, to int) []string {
	var out []string
	for i := from; i < to; i++ {
		if i < 0 || i >= len(l.Entries) {
			continue
		}
		e := l.Entries[i]
		kinds := map[string]int{}
		for _, op := range e.Ops {
			p := "raw32"
			if len(op.K) != 32 {
				n := 2
				if len(op.K) < n {
					n = len(op.K)
				}
				p = fmt.Sprintf("%q", op.K[:n])
				if string(op.K) == "LastBlock" || string(op.K) == "LastHeader" || len(op.K) > 4 && string(op.K[:4]) == "Last" {
					p = string(op.K)
				}
			}
			if op.Del {
				p = "del " + p
			}
			kinds[p]++
		}
		what := "put/delete"
		if e.Batch {
			what = "batch"
		}
		out = append(out, fmt.Sprintf("entry %d: %s %v", i, what, kinds))
	}
	return out
}

func trimStack(s string) string {
	lines := strings.Split(s, "\n")
	var out []string
	for _, l := range lines {
		if strings.Contains(l, "/repo/") || strings.Contains(l, "verifharness") {
			out = append(out, strings.TrimSpace(l))
		}
	}
	if len(out) > 14 {
		out = out[:14]
	}
	return strings.Join(out, " <- ")
}

func tail(l []string, n int) []string {
	if len(l) > n {
		return l[len(l)-n:]
	}
	return l
}
