package c14

import (
	"bytes"
	"encoding/json"
	"fmt"
	"strings"
	"testing"

	"github.com/dominant-strategies/go-quai/common"
	"github.com/dominant-strategies/go-quai/core/types"
	"github.com/dominant-strategies/go-quai/p2p/pb"
	"google.golang.org/protobuf/proto"
	"pgregory.net/rapid"

	"verifharness/gen"
	"verifharness/stats"
)

func encodeHeader(c *ctx, h *types.Header) []byte {
	p, err := h.ProtoEncode()
	if err != nil {
		c.fail("C14/header/proto/encode-error", "Header.ProtoEncode failed: %v", err)
		return nil
	}
	return mustMarshal(c, p)
}

func TestC14_Header(t *testing.T) {
	decodeLocs := gen.DecodeLocations()
	rapid.Check(t, func(t *rapid.T) {
		c := newCtx(t, "header")
		defer codePanic(c)
		g := &gen.Tags{}
		h := gen.Header(t, g)
		loc := rapid.SampledFrom(decodeLocs).Draw(t, "dloc")
		hashFirst := rapid.Bool().Draw(t, "hashFirst")
		var h0 common.Hash
		if hashFirst {
			h0 = h.Hash()
		}
		b1 := encodeHeader(c, h)
		c.note("proto", hx(b1))
		c.note("tags", g.List())
		if !hashFirst {
			h0 = h.Hash()
		}
		if b1b := encodeHeader(c, h); !bytes.Equal(b1, b1b) {
			c.fail("C14/header/proto/nondeterministic", "two encodings differ")
		}
		p2 := new(types.ProtoHeader)
		if err := proto.Unmarshal(b1, p2); err != nil {
			c.fail("C14/header/proto/unmarshal-error", "%v", err)
		}
		y := new(types.Header)
		if err := y.ProtoDecode(p2, loc); err != nil {
			c.fail("C14/header/proto/decode-error", "Header.ProtoDecode of produced bytes failed: %v", err)
		} else {
			d := &diff{}
			diffHeader(d, "", h, y)
			if !d.ok() {
				c.fail("C14/header/proto/accessors", "decode(encode(h)) differs: %s", d)
			}
			if b2 := encodeHeader(c, y); !bytes.Equal(b1, b2) {
				c.fail("C14/header/proto/reencode", "encode(decode(b)) != b: %x vs %x", b2, b1)
			}
			if y.Hash() != h0 || h.Hash() != h0 {
				c.fail("C14/header/proto/hash", "hash changed: %x -> %x (original now %x)", h0, y.Hash(), h.Hash())
			}
		}
		// CopyHeader is how every consumer takes a header out of a work object
		if cp := types.CopyHeader(h); cp.Hash() != h0 {
			c.fail("C14/header/copy-hash", "CopyHeader changes the hash %x -> %x", h0, cp.Hash())
		}

		// JSON: the RPC server marshals with RPCMarshalHeader, the client decodes with UnmarshalJSON
		if jb, err := json.Marshal(h.RPCMarshalHeader()); err != nil {
			c.fail("C14/header/json/rpc-encode-error", "%v", err)
		} else {
			z := new(types.Header)
			if err := z.UnmarshalJSON(jb); err != nil {
				c.fail("C14/header/json/rpc-decode-error", "UnmarshalJSON(RPCMarshalHeader) failed: %v (json %s)", err, jb)
			} else {
				d := &diff{}
				diffHeader(d, "", h, z)
				if !d.ok() {
					c.fail("C14/header/json/rpc-accessors", "JSON-RPC round trip differs: %s", d)
				}
				if jb2, _ := json.Marshal(z.RPCMarshalHeader()); !bytes.Equal(jb, jb2) {
					c.fail("C14/header/json/rpc-reencode", "JSON-RPC re-encoding differs: %s vs %s", jb2, jb)
				}
			}
		}
		// the type's own MarshalJSON / UnmarshalJSON pair
		if known(fpHeaderMarshalJSON) {
			g.Add("marshaljson_pair_excluded")
		} else if jb, err := h.MarshalJSON(); err != nil {
			c.fail("C14/header/json/encode-error", "%v", err)
		} else {
			z := new(types.Header)
			if err := z.UnmarshalJSON(jb); err != nil {
				c.fail(fpHeaderMarshalJSON, "Header.UnmarshalJSON(Header.MarshalJSON()) failed: %v", err)
			} else {
				d := &diff{}
				diffHeader(d, "", h, z)
				if !d.ok() {
					c.fail("C14/header/json/accessors", "MarshalJSON round trip differs: %s", d)
				}
			}
		}

		// injectivity: every field is part of the hash
		for _, m := range gen.HeaderMutations(h) {
			if m.Header.Hash() == h0 {
				c.fail("C14/header/injectivity/"+m.Field, "changing %s leaves the header hash unchanged", m.Field)
			}
			if bytes.Equal(encodeHeader(c, m.Header), b1) {
				c.fail("C14/header/injectivity-bytes/"+m.Field, "changing %s leaves the encoding unchanged", m.Field)
			}
		}
		tags := g.List()
		zm := zeroMask(h.QuaiStateSize(), h.UncledEntropy(), h.BaseFee(), h.ExchangeRate(), h.AvgTxFees(), h.TotalFees(), h.KQuaiDiscount(), h.ConversionFlowAmount(),
			h.MinerDifficulty(), h.GasLimit(), h.GasUsed(), h.StateLimit(), h.StateUsed(), h.EfficiencyScore(), h.ThresholdCount(), h.ExpansionNumber(),
			h.Number(0), h.Number(1), h.ParentEntropy(0), h.ParentEntropy(1), h.ParentEntropy(2))
		// a header has no optional fields: non-trivial = some integer zero (empty on the wire) and some not, or max width
		stats.Case("header", zm+"|"+g.Sig(), (strings.Contains(zm, "0") && strings.Contains(zm, "1")) || g.Has("maxwidth"), tags...)
		if stats.WantSample("header") {
			stats.Sample("header", map[string]any{"tags": tags, "proto": hx(b1), "hash": h0.Hex()})
		}
	})
}

func encodeWoh(c *ctx, wh *types.WorkObjectHeader) []byte {
	p, err := wh.ProtoEncode()
	if err != nil {
		c.fail("C14/woheader/proto/encode-error", "WorkObjectHeader.ProtoEncode failed: %v", err)
		return nil
	}
	return mustMarshal(c, p)
}

func decodeWoh(b []byte, loc common.Location) (*types.WorkObjectHeader, error) {
	p := new(types.ProtoWorkObjectHeader)
	if err := proto.Unmarshal(b, p); err != nil {
		return nil, err
	}
	y := new(types.WorkObjectHeader)
	if err := y.ProtoDecode(p, loc); err != nil {
		return nil, err
	}
	return y, nil
}

func TestC14_WorkObjectHeader(t *testing.T) {
	rapid.Check(t, func(t *rapid.T) {
		c := newCtx(t, "woheader")
		defer codePanic(c)
		g := &gen.Tags{}
		loc := gen.Location(t, "loc")
		wh := gen.WorkObjectHeader(t, "wh", loc, gen.WoOpts{Regime: gen.AnyRegime, AuxPow: -1, NilInnerCoinbase: !known(fpNilCoinbase)}, g)
		forkFields := !g.Has("woh:prefork_forkfields")
		nilCoinbase := g.Has("woh:coinbase_nil_inner")
		hashFirst := rapid.Bool().Draw(t, "hashFirst")
		var h0, s0 common.Hash
		if hashFirst {
			h0, s0 = wh.Hash(), wh.SealHash()
		}
		b1 := encodeWoh(c, wh)
		c.note("proto", hx(b1))
		c.note("tags", g.List())
		c.note("decodeLocation", fmt.Sprint([]byte(loc)))
		if !hashFirst {
			h0, s0 = wh.Hash(), wh.SealHash()
		}
		if b1b := encodeWoh(c, wh); !bytes.Equal(b1, b1b) {
			c.fail("C14/woheader/proto/nondeterministic", "two encodings differ")
		}
		y, err := decodeWoh(b1, loc)
		if err != nil {
			c.fail("C14/woheader/proto/decode-error", "ProtoDecode of produced bytes failed: %v (%x)", err, b1)
		} else {
			d := &diff{}
			diffWoh(d, "", wh, y, forkFields)
			b2 := encodeWoh(c, y)
			switch {
			case nilCoinbase && (!d.ok() || !bytes.Equal(b1, b2)):
				// common.Address{} (types.EmptyWorkObject) is encoded as zero bytes and decoded as 0x00..00
				c.fail(fpNilCoinbase, "header with the zero-value coinbase changes over a round trip: %s; bytes equal=%v", d, bytes.Equal(b1, b2))
			case !d.ok():
				c.fail("C14/woheader/proto/accessors", "decode(encode(wh)) differs: %s", d)
			case !bytes.Equal(b1, b2):
				c.fail("C14/woheader/proto/reencode", "encode(decode(b)) != b: %x vs %x", b2, b1)
			}
			if wh.Hash() != h0 || wh.SealHash() != s0 {
				c.fail("C14/woheader/hash-unstable", "hash of the original changed after encoding")
			}
			addressTyping(c, "woheader.coinbase", y.PrimaryCoinbase(), loc)
		}
		nilAux := auxNilBytes(wh.AuxPow())
		if nilAux && known(fpAuxCopyNil) {
			g.Add("copy_hash_excluded")
		} else if cp := types.CopyWorkObjectHeader(wh); cp.Hash() != h0 || cp.SealHash() != s0 {
			fp := "C14/woheader/copy-hash"
			if nilAux {
				fp = fpAuxCopyNil // see TestC14_AuxPow
			}
			c.fail(fp, "CopyWorkObjectHeader changes the hash %x -> %x", h0, cp.Hash())
		}

		// JSON-RPC: RPCMarshalWorkObjectHeader("v2") -> UnmarshalJSON
		if !nilCoinbase {
			if jb, err := json.Marshal(wh.RPCMarshalWorkObjectHeader("v2")); err != nil {
				c.fail("C14/woheader/json/rpc-encode-error", "%v", err)
			} else {
				z := new(types.WorkObjectHeader)
				if err := z.UnmarshalJSON(jb); err != nil {
					c.fail("C14/woheader/json/rpc-decode-error", "UnmarshalJSON(RPCMarshalWorkObjectHeader) failed: %v (json %s)", err, jb)
				} else {
					d := &diff{}
					// JSON keeps the fork-only fields whenever they are set
					diffWoh(d, "", wh, z, true)
					if nilAux && known(fpAuxJSONNil) {
						d.dropDerived() // exactly the known class: only Hash() moves, the accessors are still compared
					}
					if !d.ok() {
						fp := "C14/woheader/json/rpc-accessors"
						if nilAux && d.fields() == "" {
							// absent auxpow2/signature come back as present-and-empty: only the hash moves
							fp = fpAuxJSONNil
						}
						c.fail(fp, "JSON-RPC round trip differs: %s (json %s)", d, jb)
					}
				}
			}
			if known(fpWohMarshalJSON) {
				g.Add("marshaljson_pair_excluded")
			} else if jb, err := wh.MarshalJSON(); err != nil {
				c.fail("C14/woheader/json/encode-error", "%v", err)
			} else {
				z := new(types.WorkObjectHeader)
				if err := z.UnmarshalJSON(jb); err != nil {
					// MarshalJSON never emits parentHash and writes AuxPow / the share counters as "{}"
					c.fail(fpWohMarshalJSON, "UnmarshalJSON(MarshalJSON(wh)) failed: %v", err)
				} else {
					d := &diff{}
					diffWoh(d, "", wh, z, true)
					if !d.ok() {
						c.fail(fpWohMarshalJSON, "MarshalJSON round trip differs: %s", d)
					}
				}
			}
		}

		// injectivity
		progpow := !wh.KawpowActivationHappened() || wh.IsTransitionProgPowBlock()
		custom := !progpow && wh.AuxPow() != nil
		for _, m := range gen.WohMutations(wh, loc) {
			mh, ms := m.Header.Hash(), m.Header.SealHash()
			if m.Sealed && ms == s0 {
				c.fail("C14/woheader/injectivity/seal/"+m.Field, "changing %s leaves SealHash unchanged", m.Field)
			}
			if (m.Sealed || m.Pow) && progpow && mh == h0 {
				c.fail("C14/woheader/injectivity/hash/"+m.Field, "changing %s leaves the (ProgPoW) hash unchanged", m.Field)
			}
			if m.Aux && custom && mh == h0 {
				c.fail("C14/woheader/injectivity/hash/"+m.Field, "changing %s leaves the (AuxPoW) hash unchanged", m.Field)
			}
			if !m.Sealed && !m.Pow && !m.Aux {
				continue
			}
			if m.Aux && wh.AuxPow() == nil {
				continue
			}
			if bytes.Equal(encodeWoh(c, m.Header), b1) {
				c.fail("C14/woheader/injectivity-bytes/"+m.Field, "changing %s leaves the encoding unchanged", m.Field)
			}
		}
		if progpow {
			g.Add("hash:progpow")
		} else if custom {
			g.Add("hash:auxpow")
		} else {
			g.Add("hash:postfork_without_auxpow")
		}
		tags := g.List()
		zm := zeroMask(wh.Number(), wh.Difficulty(), wh.PrimeTerminusNumber(), wh.Time(), wh.Lock(), wh.NonceU64(), wh.Data(), wh.MixHash(), wh.HeaderHash())
		stats.Case("woheader", zm+"|"+g.Sig(), nontrivial(tags), tags...)
		if stats.WantSample("woheader") {
			stats.Sample("woheader", map[string]any{"tags": tags, "proto": hx(b1), "hash": h0.Hex()})
		}
	})
}

func TestC14_AuxPow(t *testing.T) {
	rapid.Check(t, func(t *rapid.T) {
		c := newCtx(t, "auxpow")
		defer codePanic(c)
		g := &gen.Tags{}
		auxShape := ""
		if rapid.Bool().Draw(t, "template") {
			at := gen.AuxTemplate(t, "at", g)
			auxShape = fmt.Sprintf("t%d/%s/%d", at.PowID(), zeroMask(at.AuxPow2(), at.CoinbaseOut(), at.Sigs(), int(at.Version()), int(at.Height())), len(at.MerkleBranch()))
			b1 := mustMarshal(c, at.ProtoEncode())
			c.note("proto", hx(b1))
			h0 := at.Hash()
			// the gossip path: pb.ConvertAndMarshal / pb.UnmarshalAndConvert
			gb, err := pb.ConvertAndMarshal(at)
			if err != nil || !bytes.Equal(gb, b1) {
				c.fail("C14/auxtemplate/gossip-encode", "ConvertAndMarshal: %v, equal=%v", err, bytes.Equal(gb, b1))
			}
			var out interface{}
			if err := pb.UnmarshalAndConvert(gb, common.Location{0, 0}, &out, &types.AuxTemplate{}); err != nil {
				c.fail("C14/auxtemplate/gossip-decode", "UnmarshalAndConvert failed: %v", err)
			} else {
				y := out.(*types.AuxTemplate)
				d := &diff{}
				d.eq("powID", at.PowID(), y.PowID())
				d.eq("prevHash", at.PrevHash(), y.PrevHash())
				d.bytes("auxPow2", at.AuxPow2(), y.AuxPow2())
				d.eq("version", at.Version(), y.Version())
				d.eq("bits", at.Bits(), y.Bits())
				d.eq("signatureTime", at.SignatureTime(), y.SignatureTime())
				d.eq("height", at.Height(), y.Height())
				d.bytes("coinbaseOut", at.CoinbaseOut(), y.CoinbaseOut())
				d.byteLists("merkleBranch", at.MerkleBranch(), y.MerkleBranch())
				d.bytes("sigs", at.Sigs(), y.Sigs())
				if !d.ok() {
					c.fail("C14/auxtemplate/accessors", "decode(encode(at)) differs: %s", d)
				}
				if at.Sigs() == nil && known(fpTemplateNilSigs) {
					g.Add("reencode_excluded")
				} else if b2 := mustMarshal(c, y.ProtoEncode()); !bytes.Equal(b1, b2) {
					fp := "C14/auxtemplate/reencode"
					if at.Sigs() == nil {
						fp = fpTemplateNilSigs // absent sigs come back as present-and-empty
					}
					c.fail(fp, "re-encoding differs: %x vs %x", b2, b1)
				}
				if y.Hash() != h0 {
					c.fail("C14/auxtemplate/hash", "signing hash changed over the wire: %x -> %x (template %x)", h0, y.Hash(), b1)
				}
			}
		} else {
			ap := gen.AuxPow(t, "ap", g)
			auxShape = fmt.Sprintf("p/%s/%d/%v%v", zeroMask(ap.AuxPow2(), ap.Signature()), len(ap.MerkleBranch()), ap.AuxPow2() == nil, ap.Signature() == nil)
			b1 := mustMarshal(c, ap.ProtoEncode())
			c.note("proto", hx(b1))
			p := new(types.ProtoAuxPow)
			if err := proto.Unmarshal(b1, p); err != nil {
				c.fail("C14/auxpow/unmarshal-error", "%v", err)
			}
			y := new(types.AuxPow)
			if err := y.ProtoDecode(p); err != nil {
				c.fail("C14/auxpow/decode-error", "AuxPow.ProtoDecode of produced bytes failed: %v", err)
			} else {
				d := &diff{}
				diffAuxPow(d, "", ap, y)
				if !d.ok() {
					c.fail("C14/auxpow/accessors", "decode(encode(ap)) differs: %s", d)
				}
				if b2 := mustMarshal(c, y.ProtoEncode()); !bytes.Equal(b1, b2) {
					c.fail("C14/auxpow/reencode", "re-encoding differs: %x vs %x", b2, b1)
				}
				ta, tb := ap.ConvertToTemplate(), y.ConvertToTemplate()
				if ta.Hash() != tb.Hash() {
					c.fail("C14/auxpow/template-hash", "ConvertToTemplate().Hash() differs after the round trip")
				}
			}
			if auxNilBytes(ap) && known(fpAuxCopyNil) {
				g.Add("copy_excluded")
			} else if cp := types.CopyAuxPow(ap); !bytes.Equal(mustMarshal(c, cp.ProtoEncode()), b1) {
				if auxNilBytes(ap) {
					// CopyAuxPow turns a nil auxPow2 into an empty slice, which the proto
					// encoding distinguishes (optional bytes): the AuxPoW block hash changes.
					c.fail(fpAuxCopyNil, "CopyAuxPow changes the encoding (nil auxPow2/signature become empty): %x vs %x", mustMarshal(c, cp.ProtoEncode()), b1)
				} else {
					c.fail("C14/auxpow/copy", "CopyAuxPow changes the encoding")
				}
			}
			// JSON-RPC
			if jb, err := json.Marshal(ap.RPCMarshal()); err != nil {
				c.fail("C14/auxpow/json/encode-error", "%v", err)
			} else {
				z := new(types.AuxPow)
				if err := z.UnmarshalJSON(jb); err != nil {
					c.fail("C14/auxpow/json/decode-error", "UnmarshalJSON(RPCMarshal) failed: %v (%s)", err, jb)
				} else {
					d := &diff{}
					diffAuxPow(d, "", ap, z)
					if !d.ok() {
						c.fail("C14/auxpow/json/accessors", "JSON round trip differs: %s", d)
					}
				}
			}
		}
		tags := g.List()
		stats.Case("auxpow", g.Sig()+"|"+auxShape, true, tags...)
	})
}

func decodeHeaderBytes(b []byte, loc common.Location) (*types.Header, error) {
	p := new(types.ProtoHeader)
	if err := proto.Unmarshal(b, p); err != nil {
		return nil, err
	}
	y := new(types.Header)
	if err := y.ProtoDecode(p, loc); err != nil {
		return nil, err
	}
	return y, nil
}

func decodeTemplateBytes(b []byte) (*types.AuxTemplate, error) {
	p := new(types.ProtoAuxTemplate)
	if err := proto.Unmarshal(b, p); err != nil {
		return nil, err
	}
	y := types.NewAuxTemplate()
	if err := y.ProtoDecode(p); err != nil {
		return nil, err
	}
	return y, nil
}
