package c14

import (
	"bytes"
	"fmt"
	"testing"

	"github.com/dominant-strategies/go-quai/common"
	"github.com/dominant-strategies/go-quai/core/types"

	"verifharness/gen"
	"verifharness/stats"
)

// TestC14_Constructors enumerates the objects the repository's zero-argument constructors
// return (EmptyWorkObject per context, EmptyZoneWorkObject, EmptyHeader, NewEmptyQuaiTx,
// EmptyTermini, the default AuxTemplates) against every decode location. Not a rapid test.
func TestC14_Constructors(t *testing.T) {
	if stats.Shard() != 0 {
		return
	}
	stats.Exhaustive("constructors")
	for _, loc := range gen.DecodeLocations() {
		constructorsAt(t, loc)
	}
}

func constructorsAt(t stats.TB, loc common.Location) {
	lname := fmt.Sprint([]byte(loc))
	// work objects
	wos := map[string]*types.WorkObject{
		"EmptyWorkObject(prime)":  types.EmptyWorkObject(common.PRIME_CTX),
		"EmptyWorkObject(region)": types.EmptyWorkObject(common.REGION_CTX),
		"EmptyWorkObject(zone)":   types.EmptyWorkObject(common.ZONE_CTX),
		"EmptyZoneWorkObject":     types.EmptyZoneWorkObject(),
	}
	for _, name := range []string{"EmptyWorkObject(prime)", "EmptyWorkObject(region)", "EmptyWorkObject(zone)", "EmptyZoneWorkObject"} {
		x := wos[name]
		c := newCtx(t, "constructors")
		c.note("constructor", name)
		c.note("decodeLocation", lname)
		h0, s0 := x.Hash(), x.SealHash()
		b1 := encodeWo(c, x, types.BlockObject)
		y, err := decodeWo(b1, loc, types.BlockObject)
		labels := []string{name}
		if err != nil {
			c.fail("C14/constructors/decode-error", "%s does not decode: %v", name, err)
		} else {
			nilCoinbase := len(x.PrimaryCoinbase().Bytes()) == 0
			if nilCoinbase && known(fpNilCoinbase) {
				labels = append(labels, "nil_coinbase_hash_excluded")
			} else if y.Hash() != h0 || y.SealHash() != s0 {
				fp := "C14/constructors/hash"
				if nilCoinbase {
					fp = fpNilCoinbase
				}
				c.fail(fp, "%s: hash %x / seal %x become %x / %x after a proto round trip", name, h0, s0, y.Hash(), y.SealHash())
			}
			d := &diff{}
			diffBody(d, "woBody.", x.Body(), y.Body(), fullBody)
			if !d.ok() {
				c.fail("C14/constructors/body", "%s: body differs: %s", name, d)
			}
			// the attached transaction is types.NewEmptyQuaiTx(): To and the access-list address are
			// zero-value common.Address{} values, which encode as zero bytes and decode as 0x00..00
			if known(fpNilTxAddress) {
				labels = append(labels, "empty_tx_excluded")
			} else {
				dt := &diff{}
				diffTx(dt, "tx.", x.Tx(), y.Tx(), false)
				b2 := encodeWo(c, y, types.BlockObject)
				if !dt.ok() || (!bytes.Equal(b1, b2) && !nilCoinbase) {
					c.fail(fpNilTxAddress, "%s: the attached empty transaction changes over a round trip: %s", name, dt)
				}
			}
		}
		stats.Case("constructors", name+"@"+lname, true, labels...)
	}
	// the empty transaction on its own: its hash is not stable over the wire
	{
		c := newCtx(t, "constructors")
		x := types.NewEmptyQuaiTx()
		c.note("constructor", "NewEmptyQuaiTx")
		h0 := x.Hash()
		if known(fpNilTxAddress) {
			// excluded: see TestC14_Regress_KnownFindings
		} else if _, y := protoRoundTx(c, x, loc); y != nil && y.Hash() != h0 {
			c.fail(fpNilTxAddress, "NewEmptyQuaiTx(): hash %x becomes %x after a proto round trip", h0, y.Hash())
		}
		stats.Case("constructors", "NewEmptyQuaiTx@"+lname, true, "NewEmptyQuaiTx")
	}
	{
		c := newCtx(t, "constructors")
		h := types.EmptyHeader()
		b1 := encodeHeader(c, h)
		c.note("constructor", "EmptyHeader")
		y, err := decodeHeaderBytes(b1, loc)
		if err != nil {
			c.fail("C14/constructors/decode-error", "EmptyHeader does not decode: %v", err)
		} else {
			d := &diff{}
			diffHeader(d, "", h, y)
			if !d.ok() || !bytes.Equal(b1, encodeHeader(c, y)) {
				c.fail("C14/constructors/header", "EmptyHeader changes over a round trip: %s", d)
			}
		}
		stats.Case("constructors", "EmptyHeader@"+lname, true, "EmptyHeader")
	}
	for i, at := range []*types.AuxTemplate{types.DefaultKawpowAuxTemplate(), types.DefaultShaBchAuxTemplate(), types.DefaultScryptAuxTemplate()} {
		c := newCtx(t, "constructors")
		b1 := mustMarshal(c, at.ProtoEncode())
		y, err := decodeTemplateBytes(b1)
		if err != nil || y.Hash() != at.Hash() || !bytes.Equal(b1, mustMarshal(c, y.ProtoEncode())) || y.VerifySignature() != at.VerifySignature() {
			c.fail("C14/constructors/auxtemplate", "default AuxTemplate %d changes over a round trip (%v)", i, err)
		}
		stats.Case("constructors", fmt.Sprintf("DefaultAuxTemplate%d@%s", i, lname), true, "DefaultAuxTemplate")
	}
}
