package c14

import (
	"bytes"
	"encoding/json"
	"fmt"
	"math/big"
	"testing"

	"github.com/dominant-strategies/go-quai/common"
	"github.com/dominant-strategies/go-quai/core/rawdb"
	"github.com/dominant-strategies/go-quai/core/types"
	"github.com/dominant-strategies/go-quai/p2p/pb"
	"github.com/dominant-strategies/go-quai/trie"
	"google.golang.org/protobuf/proto"
	"pgregory.net/rapid"

	"verifharness/gen"
	"verifharness/stats"
)

func encodeWo(c *ctx, wo *types.WorkObject, view types.WorkObjectView) []byte {
	p, err := wo.ProtoEncode(view)
	if err != nil {
		c.fail("C14/wo/proto/encode-error", "WorkObject.ProtoEncode(view %d) failed: %v", view, err)
		return nil
	}
	return mustMarshal(c, p)
}

func decodeWo(b []byte, loc common.Location, view types.WorkObjectView) (*types.WorkObject, error) {
	p := new(types.ProtoWorkObject)
	if err := proto.Unmarshal(b, p); err != nil {
		return nil, err
	}
	y := new(types.WorkObject)
	if err := y.ProtoDecode(p, loc, view); err != nil {
		return nil, err
	}
	return y, nil
}

// derived identities of a body: the roots the header commits to must not move over a round trip
type roots struct{ tx, etx, manifest, uncle common.Hash }

func bodyRoots(wo *types.WorkObject) roots {
	st := func() types.TrieHasher { return trie.NewStackTrie(nil) }
	return roots{
		tx:       types.DeriveSha(types.Transactions(wo.Body().Transactions()), st()),
		etx:      types.DeriveSha(types.Transactions(wo.Body().OutboundEtxs()), st()),
		manifest: types.DeriveSha(wo.Body().Manifest(), st()),
		uncle:    types.CalcUncleHash(wo.Body().Uncles()),
	}
}

var viewNames = map[types.WorkObjectView]string{types.BlockObject: "block", types.HeaderObject: "header", types.PEtxObject: "petx", types.WorkShareTxObject: "sharetx"}

// checkView round-trips v (already in the shape the view constructor produces) through the
// proto codec for the given view and compares the parts the view carries.
func checkView(c *ctx, v *types.WorkObject, view types.WorkObjectView, loc common.Location, parts bodyParts, withTx bool) {
	name := viewNames[view]
	h0, s0 := v.Hash(), v.SealHash()
	b1 := encodeWo(c, v, view)
	if b1 == nil {
		return
	}
	c.note("proto/"+name, hx(b1))
	if !bytes.Equal(b1, encodeWo(c, v, view)) {
		c.fail("C14/wo/proto/nondeterministic/"+name, "two encodings differ")
	}
	y, err := decodeWo(b1, loc, view)
	if err != nil {
		c.fail("C14/wo/proto/decode-error/"+name, "ProtoDecode of produced bytes failed: %v", err)
		return
	}
	d := &diff{}
	diffWo(d, "", v, y, parts, withTx)
	if !d.ok() {
		c.fail("C14/wo/proto/accessors/"+name, "decode(encode(wo)) differs in view %s: %s", name, d)
	}
	if b2 := encodeWo(c, y, view); !bytes.Equal(b1, b2) {
		c.fail("C14/wo/proto/reencode/"+name, "encode(decode(b)) != b in view %s", name)
	}
	if y.Hash() != h0 || y.SealHash() != s0 || v.Hash() != h0 {
		c.fail("C14/wo/proto/hash/"+name, "hash changed over the wire in view %s: %x -> %x", name, h0, y.Hash())
	}
	if parts.txs && parts.etxs && parts.uncles && parts.manifest {
		if ra, rb := bodyRoots(v), bodyRoots(y); ra != rb {
			c.fail("C14/wo/proto/roots/"+name, "derived roots changed: %+v -> %+v", ra, rb)
		}
	}
	for i, tx := range y.Body().Transactions() {
		if tx.Hash() != v.Body().Transactions()[i].Hash() {
			c.fail("C14/wo/proto/txhash/"+name, "hash of transaction %d changed", i)
		}
	}
	addressTyping(c, "wo.coinbase", y.PrimaryCoinbase(), loc)
}

func nodeCtxOf(loc common.Location) int { return loc.Context() }

func TestC14_WorkObject(t *testing.T) {
	rapid.Check(t, func(t *rapid.T) {
		c := newCtx(t, "workobject")
		defer codePanic(c)
		g := &gen.Tags{}
		loc := gen.Location(t, "loc")
		x := gen.WorkObject(t, loc, gen.WoOpts{Regime: gen.AnyRegime, AuxPow: -1, NonZeroNumber: true}, g)
		c.note("tags", g.List())
		c.note("nodeLocation", fmt.Sprint([]byte(loc)))

		// ---- the four wire views ---------------------------------------------------------
		checkView(c, x, types.BlockObject, loc, fullBody, true)
		checkView(c, x.ConvertToHeaderView().WorkObject, types.HeaderObject, loc, fullBody, true)
		checkView(c, x.ConvertToPEtxView(), types.PEtxObject, loc, bodyParts{header: true}, false)
		shareTxs := x.Transactions()
		if rapid.Bool().Draw(t, "share_empty") {
			shareTxs = types.Transactions{}
		}
		checkView(c, x.ConvertToWorkObjectShareView(shareTxs).WorkObject, types.WorkShareTxObject, loc, bodyParts{header: true, txs: true}, true)

		// ---- gossip: pb.ConvertAndMarshal / pb.UnmarshalAndConvert -----------------------
		gossip := func(name string, data interface{}, want *types.WorkObject, parts bodyParts) {
			gb, err := pb.ConvertAndMarshal(data)
			if err != nil {
				c.fail("C14/gossip/encode-error/"+name, "%v", err)
				return
			}
			var out interface{}
			if err := pb.UnmarshalAndConvert(gb, loc, &out, data); err != nil {
				c.fail("C14/gossip/decode-error/"+name, "UnmarshalAndConvert of produced bytes failed: %v", err)
				return
			}
			var got *types.WorkObject
			switch v := out.(type) {
			case types.WorkObjectBlockView:
				got = v.WorkObject
			case types.WorkObjectHeaderView:
				got = v.WorkObject
			case types.WorkObjectShareView:
				got = v.WorkObject
			}
			d := &diff{}
			diffWo(d, "", want, got, parts, true)
			if !d.ok() {
				c.fail("C14/gossip/accessors/"+name, "gossip round trip differs: %s", d)
			}
			var gb2 []byte
			switch v := out.(type) {
			case types.WorkObjectBlockView:
				gb2, _ = pb.ConvertAndMarshal(&v)
			case types.WorkObjectHeaderView:
				gb2, _ = pb.ConvertAndMarshal(&v)
			case types.WorkObjectShareView:
				gb2, _ = pb.ConvertAndMarshal(&v)
			}
			if !bytes.Equal(gb, gb2) {
				c.fail("C14/gossip/reencode/"+name, "gossip re-encoding differs")
			}
		}
		gossip("block", x.ConvertToBlockView(), x, fullBody)
		hv := x.ConvertToHeaderView()
		gossip("header", hv, hv.WorkObject, fullBody)
		sv := x.ConvertToWorkObjectShareView(shareTxs)
		gossip("share", sv, sv.WorkObject, bodyParts{header: true, txs: true})

		// ---- JSON-RPC (newHeads subscription): RPCMarshalWorkObject -> WorkObject.UnmarshalJSON
		jsonWo(c, g, x)

		// ---- rawdb ------------------------------------------------------------------------
		dbWo(c, g, x, loc)

		tags := g.List()
		stats.Case("workobject", g.Sig(), nontrivial(tags), tags...)
		if stats.WantSample("workobject") {
			stats.Sample("workobject", map[string]any{"tags": tags, "hash": x.Hash().Hex(), "txs": len(x.Transactions()), "uncles": len(x.Uncles())})
		}
	})
}

func jsonWo(c *ctx, g *gen.Tags, x *types.WorkObject) {
	// a work object embeds transactions: the known transaction-JSON classes are excluded exactly
	all := append(append(types.Transactions{}, x.Transactions()...), x.OutboundEtxs()...)
	if x.Tx() != nil {
		all = append(all, x.Tx())
	}
	for _, tx := range all {
		if (quaiNonZeroWorkNonce(tx) && known(fpQuaiJsonWorkNonce)) || (qiWithWorkField(tx) && known(fpQiJsonWorkDropped)) {
			g.Add("json_excluded")
			return
		}
	}
	jb, err := json.Marshal(x.RPCMarshalWorkObject("v2"))
	if err != nil {
		c.fail("C14/wo/json/rpc-encode-error", "%v", err)
		return
	}
	z := new(types.WorkObject)
	if err := z.UnmarshalJSON(jb); err != nil {
		c.fail("C14/wo/json/rpc-decode-error", "WorkObject.UnmarshalJSON(RPCMarshalWorkObject) failed: %v", err)
		return
	}
	g.Add("json_decoded")
	d := &diff{}
	diffWoh(d, "woHeader.", x.WorkObjectHeader(), z.WorkObjectHeader(), true)
	diffBody(d, "woBody.", x.Body(), z.Body(), fullBody)
	diffTx(d, "tx.", x.Tx(), z.Tx(), false)
	anyNil := auxNilBytes(x.WorkObjectHeader().AuxPow())
	for _, u := range x.Uncles() {
		anyNil = anyNil || auxNilBytes(u.AuxPow())
	}
	if anyNil && known(fpAuxJSONNil) {
		d.dropDerived()
	}
	if !d.ok() {
		fp := "C14/wo/json/rpc-accessors"
		if anyNil && d.fields() == "" {
			fp = fpAuxJSONNil
		}
		c.fail(fp, "JSON-RPC round trip of a work object differs: %s", d)
	}
}

func dbWo(c *ctx, g *gen.Tags, x *types.WorkObject, loc common.Location) {
	db := newDB(loc)
	nodeCtx := nodeCtxOf(loc)
	hash := x.Hash()
	number := x.NumberU64(nodeCtx)
	defer dbFatal(c)
	rawdb.WriteWorkObject(db, hash, x, types.BlockObject, nodeCtx)
	if n := rawdb.ReadHeaderNumber(db, hash); n == nil || *n != number {
		c.fail("C14/db/header-number", "ReadHeaderNumber after WriteWorkObject: %v want %d", n, number)
	}
	y := rawdb.ReadWorkObject(db, number, hash, types.BlockObject)
	if y == nil {
		c.fail("C14/db/wo/missing", "ReadWorkObject returns nil for a block just written")
		return
	}
	d := &diff{}
	diffWo(d, "", x, y, fullBody, false) // the work object's tx is not stored
	if !d.ok() {
		c.fail("C14/db/wo/accessors", "WriteWorkObject/ReadWorkObject differs: %s", d)
	}
	if y.Hash() != hash {
		c.fail("C14/db/wo/hash", "hash changed through the database: %x -> %x", hash, y.Hash())
	}
	// the readers must type addresses for the database's node location
	addressTyping(c, "db.coinbase", y.PrimaryCoinbase(), loc)
	for _, tx := range append(append(types.Transactions{}, y.Transactions()...), y.OutboundEtxs()...) {
		if tx.Type() != types.QiTxType && tx.To() != nil {
			addressTyping(c, "db.tx.to", *tx.To(), loc)
		}
	}
	if ra, rb := bodyRoots(x), bodyRoots(y); ra != rb {
		c.fail("C14/db/wo/roots", "derived roots changed through the database")
	}
	ho := rawdb.ReadWorkObjectHeaderOnly(db, number, hash, types.BlockObject)
	if ho == nil {
		c.fail("C14/db/headeronly/missing", "ReadWorkObjectHeaderOnly returns nil")
	} else {
		d := &diff{}
		diffWo(d, "", x, ho, bodyParts{header: true}, false)
		if !d.ok() {
			c.fail("C14/db/headeronly/accessors", "ReadWorkObjectHeaderOnly differs: %s", d)
		}
	}
	ws := rawdb.ReadWorkObjectWithWorkShares(db, number, hash)
	if ws == nil {
		c.fail("C14/db/workshares/missing", "ReadWorkObjectWithWorkShares returns nil")
	} else {
		d := &diff{}
		diffWo(d, "", x, ws, bodyParts{header: true, uncles: true}, false)
		if !d.ok() {
			c.fail("C14/db/workshares/accessors", "ReadWorkObjectWithWorkShares differs: %s", d)
		}
	}
	if hd := rawdb.ReadHeader(db, number, hash); hd == nil || hd.Hash() != hash {
		c.fail("C14/db/readheader", "ReadHeader does not return the block written")
	}
	// pending header body cache and best pending header (both store the block view incl. tx)
	rawdb.WritePbCacheBody(db, hash, x)
	if pbb := rawdb.ReadPbCacheBody(db, hash); pbb == nil {
		c.fail("C14/db/pbcache/missing", "ReadPbCacheBody returns nil")
	} else {
		d := &diff{}
		diffWo(d, "", x, pbb, fullBody, true)
		if !d.ok() {
			c.fail("C14/db/pbcache/accessors", "pb cache body differs: %s", d)
		}
	}
	rawdb.WriteBestPendingHeader(db, x)
	if ph := rawdb.ReadBestPendingHeader(db); ph == nil {
		c.fail("C14/db/bestph/missing", "ReadBestPendingHeader returns nil")
	} else {
		d := &diff{}
		diffWo(d, "", x, ph, fullBody, true)
		if !d.ok() {
			c.fail("C14/db/bestph/accessors", "best pending header differs: %s", d)
		}
	}
	rawdb.WriteManifest(db, hash, x.Manifest())
	d = &diff{}
	d.hashes("manifest", x.Manifest(), rawdb.ReadManifest(db, hash))
	rawdb.WriteInterlinkHashes(db, hash, x.InterlinkHashes())
	d.hashes("interlinkHashes", x.InterlinkHashes(), rawdb.ReadInterlinkHashes(db, hash))
	rawdb.WriteInboundEtxs(db, hash, x.OutboundEtxs())
	diffTxs(d, "inboundEtxs", x.OutboundEtxs(), rawdb.ReadInboundEtxs(db, hash))
	if !d.ok() {
		c.fail("C14/db/lists", "manifest / interlink / inbound ETX lists differ through the database: %s", d)
	}
	g.Add("db_roundtrip")
}

func TestC14_Pending(t *testing.T) {
	rapid.Check(t, func(t *rapid.T) {
		c := newCtx(t, "pending")
		defer codePanic(c)
		g := &gen.Tags{}
		loc := gen.Location(t, "loc")
		db := newDB(loc)
		defer dbFatal(c)
		switch rapid.IntRange(0, 3).Draw(t, "what") {
		case 0:
			g.Add("pendingEtxs")
			x := gen.PendingEtxs(t, loc, g)
			p, err := x.ProtoEncode()
			if err != nil {
				c.fail("C14/pendingetxs/encode-error", "%v", err)
				return
			}
			b1 := mustMarshal(c, p)
			c.note("proto", hx(b1))
			p2 := new(types.ProtoPendingEtxs)
			proto.Unmarshal(b1, p2)
			y := new(types.PendingEtxs)
			if err := y.ProtoDecode(p2, loc); err != nil {
				c.fail("C14/pendingetxs/decode-error", "%v", err)
				return
			}
			d := &diff{}
			diffWo(d, "header.", x.Header, y.Header, bodyParts{header: true}, false)
			diffTxs(d, "outboundEtxs", x.OutboundEtxs, y.OutboundEtxs)
			if !d.ok() {
				c.fail("C14/pendingetxs/accessors", "PendingEtxs round trip differs: %s", d)
			}
			p3, _ := y.ProtoEncode()
			if !bytes.Equal(b1, mustMarshal(c, p3)) {
				c.fail("C14/pendingetxs/reencode", "re-encoding differs")
			}
			st := trie.NewStackTrie(nil)
			if x.IsValid(st) != y.IsValid(trie.NewStackTrie(nil)) {
				c.fail("C14/pendingetxs/isvalid", "IsValid changed over the round trip")
			}
			rawdb.WritePendingEtxs(db, x)
			z := rawdb.ReadPendingEtxs(db, x.Header.Hash())
			if z == nil {
				c.fail("C14/db/pendingetxs/missing", "ReadPendingEtxs returns nil")
				return
			}
			d = &diff{}
			diffWo(d, "header.", x.Header, z.Header, bodyParts{header: true}, false)
			diffTxs(d, "outboundEtxs", x.OutboundEtxs, z.OutboundEtxs)
			if !d.ok() {
				c.fail("C14/db/pendingetxs/accessors", "PendingEtxs differ through the database: %s", d)
			}
		case 1:
			g.Add("pendingEtxsRollup")
			x := gen.PendingEtxsRollup(t, loc, g)
			p, err := x.ProtoEncode()
			if err != nil {
				c.fail("C14/rollup/encode-error", "%v", err)
				return
			}
			b1 := mustMarshal(c, p)
			c.note("proto", hx(b1))
			p2 := new(types.ProtoPendingEtxsRollup)
			proto.Unmarshal(b1, p2)
			y := new(types.PendingEtxsRollup)
			if err := y.ProtoDecode(p2, loc); err != nil {
				c.fail("C14/rollup/decode-error", "%v", err)
				return
			}
			d := &diff{}
			diffWo(d, "header.", x.Header, y.Header, bodyParts{header: true}, false)
			diffTxs(d, "etxsRollup", x.EtxsRollup, y.EtxsRollup)
			if !d.ok() {
				c.fail("C14/rollup/accessors", "PendingEtxsRollup round trip differs: %s", d)
			}
			p3, _ := y.ProtoEncode()
			if !bytes.Equal(b1, mustMarshal(c, p3)) {
				c.fail("C14/rollup/reencode", "re-encoding differs")
			}
			rawdb.WritePendingEtxsRollup(db, x)
			z := rawdb.ReadPendingEtxsRollup(db, x.Header.Hash())
			if z == nil {
				c.fail("C14/db/rollup/missing", "ReadPendingEtxsRollup returns nil")
				return
			}
			d = &diff{}
			diffWo(d, "header.", x.Header, z.Header, bodyParts{header: true}, false)
			diffTxs(d, "etxsRollup", x.EtxsRollup, z.EtxsRollup)
			if !d.ok() {
				c.fail("C14/db/rollup/accessors", "PendingEtxsRollup differ through the database: %s", d)
			}
		case 2:
			g.Add("pendingHeader")
			x := gen.PendingHeader(t, loc, g)
			p, err := x.ProtoEncode()
			if err != nil {
				c.fail("C14/pendingheader/encode-error", "%v", err)
				return
			}
			b1 := mustMarshal(c, p)
			c.note("proto", hx(b1))
			p2 := new(types.ProtoPendingHeader)
			proto.Unmarshal(b1, p2)
			y := new(types.PendingHeader)
			if err := y.ProtoDecode(p2, loc); err != nil {
				c.fail("C14/pendingheader/decode-error", "%v", err)
				return
			}
			d := &diff{}
			diffWo(d, "wo.", x.WorkObject(), y.WorkObject(), fullBody, true)
			diffTermini(d, "termini.", x.Termini(), y.Termini())
			if !d.ok() {
				c.fail("C14/pendingheader/accessors", "PendingHeader round trip differs: %s", d)
			}
			p3, _ := y.ProtoEncode()
			if !bytes.Equal(b1, mustMarshal(c, p3)) {
				c.fail("C14/pendingheader/reencode", "re-encoding differs")
			}
		default:
			g.Add("termini")
			x := gen.Termini(t, "termini")
			b1 := mustMarshal(c, x.ProtoEncode())
			p2 := new(types.ProtoTermini)
			proto.Unmarshal(b1, p2)
			y := new(types.Termini)
			if err := y.ProtoDecode(p2); err != nil {
				c.fail("C14/termini/decode-error", "%v", err)
				return
			}
			d := &diff{}
			diffTermini(d, "", x, *y)
			if !y.IsValid() {
				d.addf("IsValid", "decoded termini are not valid")
			}
			if !d.ok() {
				c.fail("C14/termini/accessors", "Termini round trip differs: %s", d)
			}
			if !bytes.Equal(b1, mustMarshal(c, y.ProtoEncode())) {
				c.fail("C14/termini/reencode", "re-encoding differs")
			}
			key := gen.Hash(t, "key")
			rawdb.WriteTermini(db, key, x)
			z := rawdb.ReadTermini(db, key)
			if z == nil {
				c.fail("C14/db/termini/missing", "ReadTermini returns nil")
				return
			}
			d = &diff{}
			diffTermini(d, "", x, *z)
			if !d.ok() {
				c.fail("C14/db/termini/accessors", "Termini differ through the database: %s", d)
			}
			// JSON: RPCMarshalTermini -> UnmarshalJSON and the type's own MarshalJSON
			if jb, err := json.Marshal(x.RPCMarshalTermini()); err == nil {
				var jt types.Termini
				if err := jt.UnmarshalJSON(jb); err != nil {
					c.fail("C14/termini/json/rpc-decode-error", "UnmarshalJSON(RPCMarshalTermini) failed: %v", err)
				} else {
					d := &diff{}
					diffTermini(d, "", x, jt)
					if !d.ok() {
						c.fail("C14/termini/json/rpc-accessors", "JSON-RPC round trip differs: %s", d)
					}
				}
			}
			if known(fpTerminiMarshalJSON) {
				g.Add("marshaljson_pair_excluded")
			} else if jb, err := x.MarshalJSON(); err == nil {
				var jt types.Termini
				if err := jt.UnmarshalJSON(jb); err != nil {
					c.fail(fpTerminiMarshalJSON, "Termini.UnmarshalJSON(Termini.MarshalJSON()) failed: %v (json %s)", err, jb)
				} else {
					d := &diff{}
					diffTermini(d, "", x, jt)
					if !d.ok() {
						c.fail("C14/termini/json/accessors", "MarshalJSON round trip differs: %s", d)
					}
				}
			}
		}
		tags := g.List()
		stats.Case("pending", g.Sig(), nontrivial(tags), tags...)
	})
}

func TestC14_P2P(t *testing.T) {
	rapid.Check(t, func(t *rapid.T) {
		c := newCtx(t, "p2p")
		defer codePanic(c)
		g := &gen.Tags{}
		if rapid.Bool().Draw(t, "request") {
			r := gen.Request(t, g)
			b, err := pb.EncodeQuaiRequest(r.ID, r.Loc, r.Data, r.RespType)
			if err != nil {
				c.fail("C14/p2p/request/encode-error", "%v", err)
				return
			}
			c.note("bytes", hx(b))
			b2, _ := pb.EncodeQuaiRequest(r.ID, r.Loc, r.Data, r.RespType)
			if !bytes.Equal(b, b2) {
				c.fail("C14/p2p/request/nondeterministic", "two encodings differ")
			}
			msg, err := pb.DecodeQuaiMessage(b)
			if err != nil || msg.GetRequest() == nil {
				c.fail("C14/p2p/request/decode-error", "DecodeQuaiMessage: %v", err)
				return
			}
			id, typ, loc, data, err := pb.DecodeQuaiRequest(msg.GetRequest())
			if err != nil {
				c.fail("C14/p2p/request/decode-error", "DecodeQuaiRequest: %v", err)
				return
			}
			d := &diff{}
			d.eq("id", id, r.ID)
			d.bytes("location", loc, r.Loc)
			switch want := r.Data.(type) {
			case common.Hash:
				got, ok := data.(*common.Hash)
				if !ok || *got != want {
					d.addf("data", "%v != %v", data, want)
				}
			case *big.Int:
				got, ok := data.(*big.Int)
				if !ok || got.Cmp(want) != 0 {
					d.addf("data", "%v != %v", data, want)
				}
			}
			wantType := fmt.Sprintf("%T", r.RespType)
			if _, isHash := r.RespType.(common.Hash); isHash {
				wantType = "*common.Hash"
			}
			if fmt.Sprintf("%T", typ) != wantType {
				d.addf("type", "%T != %s", typ, wantType)
			}
			if !d.ok() {
				c.fail("C14/p2p/request/accessors", "request round trip differs: %s", d)
			}
			if rb, err := proto.Marshal(msg); err != nil || !bytes.Equal(rb, b) {
				c.fail("C14/p2p/request/reencode", "re-marshalling the decoded message differs")
			}
		} else {
			r := gen.Response(t, g)
			b, err := pb.EncodeQuaiResponse(r.ID, r.Loc, r.RespType, r.Data)
			if err != nil {
				c.fail("C14/p2p/response/encode-error", "%v", err)
				return
			}
			msg, err := pb.DecodeQuaiMessage(b)
			if err != nil || msg.GetResponse() == nil {
				c.fail("C14/p2p/response/decode-error", "DecodeQuaiMessage: %v", err)
				return
			}
			id, data, err := pb.DecodeQuaiResponse(msg.GetResponse())
			if err != nil {
				c.fail("C14/p2p/response/decode-error", "DecodeQuaiResponse of produced bytes: %v", err)
				return
			}
			d := &diff{}
			d.eq("id", id, r.ID)
			var reenc interface{}
			switch want := r.Data.(type) {
			case *types.WorkObjectBlockView:
				got, ok := data.(*types.WorkObjectBlockView)
				if !ok {
					d.addf("type", "%T", data)
					break
				}
				diffWo(d, "", want.WorkObject, got.WorkObject, fullBody, true)
				reenc = got
			case *types.WorkObjectHeaderView:
				got, ok := data.(*types.WorkObjectHeaderView)
				if !ok {
					d.addf("type", "%T", data)
					break
				}
				diffWo(d, "", want.WorkObject, got.WorkObject, fullBody, true)
				reenc = got
			case []*types.WorkObjectBlockView:
				got, ok := data.([]*types.WorkObjectBlockView)
				if !ok || len(got) != len(want) {
					d.addf("type", "%T len", data)
					break
				}
				for i := range want {
					diffWo(d, fmt.Sprintf("[%d].", i), want[i].WorkObject, got[i].WorkObject, fullBody, true)
				}
				reenc = got
			case common.Hash:
				got, ok := data.(common.Hash)
				if !ok || got != want {
					d.addf("hash", "%v != %v", data, want)
				}
				reenc = got
			}
			if !d.ok() {
				c.fail("C14/p2p/response/accessors/"+r.Kind, "response round trip differs: %s", d)
			} else if b2, err := pb.EncodeQuaiResponse(id, r.Loc, r.RespType, reenc); err != nil || !bytes.Equal(b, b2) {
				c.fail("C14/p2p/response/reencode/"+r.Kind, "re-encoding the decoded response differs (%v)", err)
			}
		}
		tags := g.List()
		stats.Case("p2p", g.Sig(), true, tags...)
	})
}
