package c14

import (
	"fmt"
	"testing"

	"github.com/dominant-strategies/go-quai/core/types"
	"github.com/dominant-strategies/go-quai/p2p/pb"
	"google.golang.org/protobuf/proto"
	"google.golang.org/protobuf/reflect/protoreflect"
	"pgregory.net/rapid"

	"verifharness/gen"
	"verifharness/stats"
)

// Structure-aware companion of the native fuzz targets: a generated valid proto tree gets 1..3
// field-level mutations (byte strings resized, integers moved to extremes, optional messages
// dropped or emptied, list elements dropped / duplicated) and is then judged by the same
// fixed-point oracle: whatever the decoder still accepts must re-encode to something that decodes
// to a fixed point with the same hash.

type slot struct {
	m  protoreflect.Message
	fd protoreflect.FieldDescriptor
}

func collectSlots(m protoreflect.Message, depth int, out *[]slot) {
	fds := m.Descriptor().Fields()
	for i := 0; i < fds.Len(); i++ {
		fd := fds.Get(i)
		*out = append(*out, slot{m, fd})
		if depth >= 6 || !m.Has(fd) {
			continue
		}
		switch {
		case fd.IsList() && fd.Kind() == protoreflect.MessageKind:
			l := m.Get(fd).List()
			for j := 0; j < l.Len() && j < 3; j++ {
				collectSlots(l.Get(j).Message(), depth+1, out)
			}
		case fd.IsMap():
		case fd.Kind() == protoreflect.MessageKind:
			collectSlots(m.Get(fd).Message(), depth+1, out)
		}
	}
}

var byteLens = []int{0, 1, 8, 19, 20, 21, 31, 32, 33, 64, 65, 80, 120, 200}
var uintVals = []uint64{0, 1, 2, 14, 15, 255, 256, 65535, 65536, 1<<32 - 1, 1 << 32, 1<<63 - 1, ^uint64(0)}

func mutateSlot(t *rapid.T, s slot, what *[]string) {
	m, fd := s.m, s.fd
	name := string(fd.FullName())
	switch {
	case fd.IsMap():
		return
	case fd.IsList():
		l := m.Mutable(fd).List()
		switch op := rapid.IntRange(0, 3).Draw(t, "listop"); {
		case op == 0 && l.Len() > 0:
			l.Truncate(l.Len() - 1)
			*what = append(*what, name+":drop")
		case op == 1 && l.Len() > 0:
			l.Append(l.Get(l.Len() - 1))
			*what = append(*what, name+":dup")
		case op == 2:
			m.Clear(fd)
			*what = append(*what, name+":clear")
		default:
			switch fd.Kind() {
			case protoreflect.MessageKind:
				l.Append(l.NewElement())
			case protoreflect.BytesKind:
				l.Append(protoreflect.ValueOfBytes(gen.Blob(t, "elem", rapid.SampledFrom(byteLens).Draw(t, "elemlen"))))
			default:
				return
			}
			*what = append(*what, name+":append")
		}
	case fd.Kind() == protoreflect.MessageKind:
		if m.Has(fd) && rapid.Bool().Draw(t, "clearmsg") {
			m.Clear(fd)
			*what = append(*what, name+":absent")
		} else {
			m.Set(fd, protoreflect.ValueOfMessage(m.NewField(fd).Message()))
			*what = append(*what, name+":empty")
		}
	case fd.Kind() == protoreflect.BytesKind:
		if m.Has(fd) && fd.HasPresence() && rapid.IntRange(0, 4).Draw(t, "clearbytes") == 0 {
			m.Clear(fd)
			*what = append(*what, name+":absent")
			return
		}
		n := rapid.SampledFrom(byteLens).Draw(t, "len")
		if cur := len(m.Get(fd).Bytes()); cur > 0 && rapid.Bool().Draw(t, "rel") {
			n = cur + rapid.SampledFrom([]int{-1, 1}).Draw(t, "delta")
		}
		m.Set(fd, protoreflect.ValueOfBytes(gen.Blob(t, "bytes", n)))
		*what = append(*what, fmt.Sprintf("%s:len%d", name, n))
	case fd.Kind() == protoreflect.Uint64Kind:
		if m.Has(fd) && fd.HasPresence() && rapid.IntRange(0, 4).Draw(t, "clearint") == 0 {
			m.Clear(fd)
			*what = append(*what, name+":absent")
			return
		}
		m.Set(fd, protoreflect.ValueOfUint64(rapid.SampledFrom(uintVals).Draw(t, "u64")))
		*what = append(*what, name+":value")
	case fd.Kind() == protoreflect.Uint32Kind:
		if m.Has(fd) && fd.HasPresence() && rapid.IntRange(0, 4).Draw(t, "clearint") == 0 {
			m.Clear(fd)
			*what = append(*what, name+":absent")
			return
		}
		m.Set(fd, protoreflect.ValueOfUint32(uint32(rapid.SampledFrom(uintVals).Draw(t, "u32"))))
		*what = append(*what, name+":value")
	}
}

func mutateProto(t *rapid.T, msg proto.Message) []string {
	var what []string
	n := rapid.IntRange(1, 3).Draw(t, "nmut")
	for i := 0; i < n; i++ {
		var slots []slot
		collectSlots(msg.ProtoReflect(), 0, &slots)
		if len(slots) == 0 {
			break
		}
		mutateSlot(t, slots[rapid.IntRange(0, len(slots)-1).Draw(t, "slot")], &what)
	}
	return what
}

func TestC14_Mutated(t *testing.T) {
	woCodecs := map[types.WorkObjectView]codec[*types.WorkObject]{}
	for _, v := range fuzzViews {
		woCodecs[v] = woCodec(v)
	}
	rapid.Check(t, func(t *rapid.T) {
		var (
			msg    proto.Message
			judge  func(b []byte) bool
			target string
		)
		wo := func() *types.WorkObject {
			return gen.WorkObject(t, fuzzLoc, gen.WoOpts{Regime: gen.AnyRegime, AuxPow: -1}, nil)
		}
		switch rapid.IntRange(0, 9).Draw(t, "target") {
		case 0, 1:
			msg, _ = gen.Tx(t, fuzzLoc, -1, nil).ProtoEncode()
			target, judge = "txproto", func(b []byte) bool { return fixedPoint(t, codecTxProto, b) }
		case 2:
			msg, _ = gen.Header(t, nil).ProtoEncode()
			target, judge = "header", func(b []byte) bool { return fixedPoint(t, codecHeader, b) }
		case 3, 4:
			msg, _ = gen.WorkObjectHeader(t, "wh", fuzzLoc, gen.WoOpts{Regime: gen.AnyRegime, AuxPow: -1}, nil).ProtoEncode()
			target, judge = "woheader", func(b []byte) bool { return fixedPoint(t, codecWoh, b) }
		case 5:
			v := rapid.SampledFrom(fuzzViews).Draw(t, "view")
			x := wo()
			switch v {
			case types.HeaderObject:
				x = x.ConvertToHeaderView().WorkObject
			case types.PEtxObject:
				x = x.ConvertToPEtxView()
			case types.WorkShareTxObject:
				x = x.ConvertToWorkObjectShareView(x.Transactions()).WorkObject
			}
			msg, _ = x.ProtoEncode(v)
			k := woCodecs[v]
			target, judge = k.target, func(b []byte) bool { return fixedPoint(t, k, b) }
		case 6:
			x := gen.PendingEtxs(t, fuzzLoc, nil)
			msg, _ = x.ProtoEncode()
			target, judge = "pendingetxs", func(b []byte) bool { return fixedPoint(t, codecPendingEtxs, b) }
		case 7:
			p := new(types.ProtoReceiptsForStorage)
			proto.Unmarshal(gen.Receipts(t, fuzzLoc, false, nil).Bytes(logger), p)
			msg = p
			target, judge = "receipts", func(b []byte) bool { return fixedPoint(t, codecReceipts, b) }
		case 8:
			if rapid.Bool().Draw(t, "termini") {
				msg = gen.Termini(t, "t").ProtoEncode()
				target, judge = "termini", func(b []byte) bool { return fixedPoint(t, codecTermini, b) }
			} else {
				msg = gen.AuxTemplate(t, "at", nil).ProtoEncode()
				target, judge = "auxtemplate", func(b []byte) bool { return fixedPoint(t, codecTemplate, b) }
			}
		default:
			r := gen.Response(t, nil)
			b, _ := pb.EncodeQuaiResponse(r.ID, r.Loc, r.RespType, r.Data)
			qm := new(pb.QuaiMessage)
			proto.Unmarshal(b, qm)
			msg = qm
			target, judge = "quaimessage", func(b []byte) bool { return fixedPoint(t, codecQuaiMessage, b) }
		}
		what := mutateProto(t, msg)
		b, err := proto.Marshal(msg)
		if err != nil {
			t.Fatalf("HARNESS: marshal of a mutated tree: %v", err)
		}
		judged := judge(b)
		labels := []string{"target:" + target}
		if judged {
			labels = append(labels, "decoded")
		} else {
			labels = append(labels, "rejected_or_panicked")
		}
		sig := target + "|" + fmt.Sprint(what)
		stats.Case("mutated", sig, judged, labels...)
		if judged && stats.WantSample("mutated") {
			stats.Sample("mutated", map[string]any{"target": target, "mutations": what, "bytes": hx(b)})
		}
	})
}
