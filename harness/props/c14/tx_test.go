package c14

import (
	"bytes"
	"fmt"
	"math/big"
	"sync"
	"testing"

	"github.com/dominant-strategies/go-quai/common"
	"github.com/dominant-strategies/go-quai/core/types"
	"github.com/dominant-strategies/go-quai/rlp"
	"github.com/dominant-strategies/go-quai/trie"
	"google.golang.org/protobuf/proto"
	"pgregory.net/rapid"

	"verifharness/gen"
	"verifharness/stats"
)

// protoRoundTx: ProtoEncode -> Marshal -> Unmarshal -> ProtoDecode(loc).
func protoRoundTx(c *ctx, x *types.Transaction, loc common.Location) ([]byte, *types.Transaction) {
	p, err := x.ProtoEncode()
	if err != nil {
		c.fail("C14/tx/proto/encode-error", "ProtoEncode of a well-formed transaction failed: %v", err)
		return nil, nil
	}
	b := mustMarshal(c, p)
	p2 := new(types.ProtoTransaction)
	if err := proto.Unmarshal(b, p2); err != nil {
		c.fail("C14/tx/proto/unmarshal-error", "proto.Unmarshal of produced bytes failed: %v", err)
		return b, nil
	}
	y := new(types.Transaction)
	if err := y.ProtoDecode(p2, loc); err != nil {
		c.fail("C14/tx/proto/decode-error", "ProtoDecode of produced bytes failed: %v (bytes %x)", err, b)
		return b, nil
	}
	return b, y
}

func encodeTx(c *ctx, x *types.Transaction) []byte {
	p, err := x.ProtoEncode()
	if err != nil {
		c.fail("C14/tx/proto/encode-error", "ProtoEncode failed: %v", err)
		return nil
	}
	return mustMarshal(c, p)
}

func txKindName(tx *types.Transaction) string {
	return [...]string{"quai", "etx", "qi"}[tx.Type()]
}

// senderLocation returns the location bytes Hash() derives from the recovered sender.
func senderLocation(tx *types.Transaction) ([]byte, bool) {
	from, err := types.Sender(types.NewSigner(tx.ChainId(), common.Location{0, 0}), types.NewTx(tx.Inner()))
	if err != nil {
		return nil, false
	}
	l := *from.Location()
	return []byte{l[0], l[1]}, true
}

func TestC14_Tx(t *testing.T) {
	decodeLocs := gen.DecodeLocations()
	rapid.Check(t, func(t *rapid.T) {
		c := newCtx(t, "tx")
		defer codePanic(c)
		g := &gen.Tags{}
		loc := gen.Location(t, "loc")
		var x *types.Transaction
		compressed := false
		switch k := rapid.IntRange(0, 9).Draw(t, "kind"); {
		case k <= 2:
			x = gen.QuaiTx(t, loc, g)
		case k <= 5:
			x = gen.ExternalTx(t, loc, rapid.IntRange(0, 7).Draw(t, "etxtype"), g)
		case k <= 8:
			x = gen.QiTx(t, loc, false, true, g)
		default:
			compressed = true
			x = gen.QiTx(t, loc, true, true, g)
		}
		kind := txKindName(x)
		hashFirst := rapid.Bool().Draw(t, "hashFirst")
		dloc := loc
		if rapid.Bool().Draw(t, "otherDecodeLoc") {
			dloc = rapid.SampledFrom(decodeLocs).Draw(t, "dloc")
			g.Add("decode_other_location")
		}
		c.note("kind", kind)
		c.note("tags", g.List())
		c.note("nodeLocation", fmt.Sprint([]byte(loc)))
		c.note("decodeLocation", fmt.Sprint([]byte(dloc)))

		var hx0 common.Hash
		if hashFirst {
			hx0 = x.Hash()
		}

		// ---- protobuf -------------------------------------------------------------------
		b1, y := protoRoundTx(c, x, dloc)
		if b1 != nil {
			c.note("proto", hx(b1))
		}
		if !hashFirst {
			hx0 = x.Hash()
		}
		if y != nil {
			if b1b := encodeTx(c, x); !bytes.Equal(b1, b1b) {
				c.fail("C14/tx/proto/nondeterministic", "encoding the same %s tx twice gave %x and %x", kind, b1, b1b)
			}
			d := &diff{}
			diffTx(d, "", x, y, compressed)
			if !d.ok() {
				c.fail("C14/tx/proto/accessors/"+kind, "decode(encode(x)) differs from x: %s", d)
			}
			if b2 := encodeTx(c, y); !bytes.Equal(b1, b2) {
				c.fail("C14/tx/proto/reencode/"+kind, "encode(decode(b)) != b: %x vs %x", b2, b1)
			}
			if hy := y.Hash(); hy != hx0 {
				c.fail("C14/tx/proto/hash/"+kind, "hash changed over the wire: %x -> %x", hx0, hy)
			}
			if x.Hash() != hx0 {
				c.fail("C14/tx/hash-unstable/"+kind, "x.Hash() changed after encoding: %x -> %x", hx0, x.Hash())
			}
			if sx, sy := x.Size(), y.Size(); sx != sy && !compressed {
				c.fail("C14/tx/proto/size/"+kind, "Size() %v != %v after the proto round trip", sx, sy)
			}
			switch x.Type() {
			case types.QuaiTxType:
				if y.To() != nil {
					addressTyping(c, "quai.to", *y.To(), dloc)
				}
			case types.ExternalTxType:
				addressTyping(c, "etx.to", *y.To(), dloc)
				addressTyping(c, "etx.sender", y.ETXSender(), dloc)
			}
			for i, tp := range yAccessList(y) {
				addressTyping(c, fmt.Sprintf("accessList[%d]", i), tp.Address, dloc)
			}
		}

		// ---- hash cache order (Quai: Hash() recovers the sender, Hash(loc...) trusts the caller)
		if x.Type() == types.QuaiTxType {
			if sl, ok := senderLocation(x); ok {
				g.Add("quai:sender_recoverable")
				xa, xb := types.NewTx(x.Inner()), types.NewTx(x.Inner())
				ha1 := xa.Hash(sl...)
				ha2 := xa.Hash()
				hb1 := xb.Hash()
				hb2 := xb.Hash(sl...)
				if ha1 != hb1 || ha2 != hb1 || hb2 != hb1 || hb1 != hx0 {
					c.fail("C14/tx/hash-cache-order", "Hash(loc)=%x then Hash()=%x; Hash()=%x then Hash(loc)=%x; original %x (sender location %v)", ha1, ha2, hb1, hb2, hx0, sl)
				}
			}
		}

		// ---- RLP typed envelope (consensus encoding of the tx trie; ETX queue in the state) ----
		rlpPath(c, g, x, y, kind, compressed, hx0, dloc)

		// ---- JSON -----------------------------------------------------------------------
		if g.Has("qi:lock_nil") {
			g.Add("json_skipped_nil_lock") // Transaction.MarshalJSON dereferences TxOut.Lock
		} else {
			jsonPathTx(c, g, x, kind, compressed, hx0)
		}

		// ---- injectivity ----------------------------------------------------------------
		for _, m := range gen.TxMutations(x, loc) {
			if mh := m.Tx.Hash(); mh == hx0 {
				c.fail("C14/tx/injectivity/"+kind+"/"+m.Field, "changing %s leaves the hash %x unchanged", m.Field, hx0)
			}
			mb := encodeTx(c, m.Tx)
			if bytes.Equal(mb, b1) {
				c.fail("C14/tx/injectivity-bytes/"+kind+"/"+m.Field, "changing %s leaves the encoding unchanged", m.Field)
			}
		}

		tags := g.List()
		var zm string
		switch x.Type() {
		case types.QuaiTxType:
			zm = zeroMask(x.ChainId(), x.Nonce(), x.GasPrice(), x.Gas(), x.Value())
		case types.ExternalTxType:
			zm = zeroMask(x.ETXIndex(), x.Gas(), x.Value(), x.OriginatingTxHash())
		default:
			zm = zeroMask(x.ChainId()) + fmt.Sprintf("/%din%dout", len(x.TxIn()), len(x.TxOut()))
		}
		stats.Case("tx", kind+"|"+zm+"|"+g.Sig(), nontrivial(tags), tags...)
		if stats.WantSample("tx") {
			stats.Sample("tx", map[string]any{"kind": kind, "tags": tags, "proto": hx(b1), "hash": hx0.Hex()})
		}
	})
}

func yAccessList(y *types.Transaction) types.AccessList {
	if y.Type() == types.QiTxType {
		return nil
	}
	return y.AccessList()
}

func rlpPath(c *ctx, g *gen.Tags, x, y *types.Transaction, kind string, compressed bool, hx0 common.Hash, dloc common.Location) {
	rb1, err := x.MarshalBinary()
	if err != nil {
		c.fail("C14/tx/rlp/encode-error/"+kind, "MarshalBinary failed: %v", err)
		return
	}
	c.note("rlp", hx(rb1))
	// the returned bytes belong to the caller: later encodings of other objects (which share the
	// package's buffer pool) must not change them
	if keep := append([]byte(nil), rb1...); true {
		disturbEncoders()
		if !bytes.Equal(rb1, keep) {
			c.fail("C14/tx/rlp/encoding-not-stable/MarshalBinary", "the bytes returned by MarshalBinary changed while other objects were encoded: %x -> %x", keep, rb1)
			rb1 = keep
		}
	}
	if rb1b, _ := x.MarshalBinary(); !bytes.Equal(rb1, rb1b) {
		c.fail("C14/tx/rlp/nondeterministic", "MarshalBinary twice: %x vs %x", rb1, rb1b)
	}
	// the tx trie hashes this encoding: it must survive the wire
	if y != nil && !compressed {
		if rby, err := y.MarshalBinary(); err != nil || !bytes.Equal(rby, rb1) {
			c.fail("C14/tx/rlp-after-proto/"+kind, "typed RLP encoding changed over the proto round trip: %x -> %x (%v)", rb1, rby, err)
		}
	}
	// known input classes of the decode direction are excluded exactly (see findings_test.go)
	switch {
	case quaiNilWorkField(x) && known(fpQuaiRlpNilWork):
		g.Add("rlp_decode_excluded")
	case qiWithWorkField(x) && known(fpQiRlpWorkDropped):
		g.Add("rlp_decode_excluded")
	default:
		z := new(types.Transaction)
		if err := z.UnmarshalBinary(rb1); err != nil {
			fp := "C14/tx/rlp/decode-error/" + kind
			if quaiNilWorkField(x) {
				fp = fpQuaiRlpNilWork
			}
			c.fail(fp, "UnmarshalBinary(MarshalBinary(x)) failed: %v (rlp %x)", err, rb1)
			break
		}
		g.Add("rlp_decoded")
		d := &diff{}
		diffTx(d, "", x, z, false)
		hz := z.Hash()
		if !d.ok() || hz != hx0 {
			fp := "C14/tx/rlp/accessors/" + kind
			if qiWithWorkField(x) {
				fp = fpQiRlpWorkDropped
			} else if d.ok() {
				fp = "C14/tx/rlp/hash/" + kind
			}
			c.fail(fp, "RLP decode(encode(x)) differs from x: %s; hash %x -> %x", d, hx0, hz)
		}
		if rb2, _ := z.MarshalBinary(); !bytes.Equal(rb1, rb2) {
			c.fail("C14/tx/rlp/reencode/"+kind, "RLP re-encoding differs: %x vs %x", rb2, rb1)
		}
	}
	// rlp.EncodeToBytes / DecodeBytes as the state's ETX queue does (PushETX / PopETX)
	if x.Type() == types.ExternalTxType {
		enc, err := rlp.EncodeToBytes(x)
		if err != nil {
			c.fail("C14/tx/rlp/etx-queue-encode", "rlp.EncodeToBytes(etx): %v", err)
			return
		}
		if keep := append([]byte(nil), enc...); true {
			disturbEncoders()
			if !bytes.Equal(enc, keep) {
				c.fail("C14/tx/rlp/encoding-not-stable/EncodeRLP", "the bytes returned by rlp.EncodeToBytes(tx) changed while other objects were encoded: %x -> %x", keep, enc)
				enc = keep
			}
		}
		q := new(types.Transaction)
		if err := rlp.DecodeBytes(enc, q); err != nil {
			c.fail("C14/tx/rlp/etx-queue-decode", "rlp.DecodeBytes(etx): %v", err)
			return
		}
		q.SetTo(common.BytesToAddress(q.To().Bytes(), dloc))
		if q.Hash() != hx0 {
			c.fail("C14/tx/rlp/etx-queue-hash", "ETX hash changed through the state's ETX queue encoding: %x -> %x", hx0, q.Hash())
		}
		d := &diff{}
		diffTx(d, "", x, q, false)
		if !d.ok() {
			c.fail("C14/tx/rlp/etx-queue-accessors", "ETX differs after the queue round trip: %s", d)
		}
		addressTyping(c, "etx-queue.to", *q.To(), dloc)
		if !known(fpRlpSizeCache) {
			if sx, sq := x.Size(), q.Size(); sx != sq {
				c.fail(fpRlpSizeCache, "Size() of an RLP-decoded tx is %v, of the original %v", sq, sx)
			}
		}
	}
}

func jsonPathTx(c *ctx, g *gen.Tags, x *types.Transaction, kind string, compressed bool, hx0 common.Hash) {
	if (quaiNonZeroWorkNonce(x) && known(fpQuaiJsonWorkNonce)) || (qiWithWorkField(x) && known(fpQiJsonWorkDropped)) {
		g.Add("json_excluded")
		return
	}
	jb, err := x.MarshalJSON()
	if err != nil {
		c.fail("C14/tx/json/encode-error/"+kind, "MarshalJSON failed: %v", err)
		return
	}
	c.note("json", string(jb))
	if jb2, _ := types.NewTx(x.Inner()).MarshalJSON(); !bytes.Equal(jb, jb2) {
		c.fail("C14/tx/json/nondeterministic", "MarshalJSON twice: %s vs %s", jb, jb2)
	}
	z := new(types.Transaction)
	if err := z.UnmarshalJSON(jb); err != nil {
		fp := "C14/tx/json/decode-error/" + kind
		switch {
		case quaiNonZeroWorkNonce(x):
			fp = fpQuaiJsonWorkNonce
		case qiWithWorkField(x):
			fp = fpQiJsonWorkDropped
		}
		c.fail(fp, "UnmarshalJSON(MarshalJSON(x)) failed: %v (json %s)", err, jb)
		return
	}
	g.Add("json_decoded")
	d := &diff{}
	diffTx(d, "", x, z, compressed)
	if !d.ok() {
		c.fail("C14/tx/json/accessors/"+kind, "JSON decode(encode(x)) differs from x: %s", d)
	}
	if hz := z.Hash(); hz != hx0 {
		c.fail("C14/tx/json/hash/"+kind, "hash changed over the JSON round trip: %x -> %x", hx0, hz)
	}
	if jb3, err := z.MarshalJSON(); err != nil || !bytes.Equal(jb, jb3) {
		c.fail("C14/tx/json/reencode/"+kind, "JSON re-encoding differs: %s vs %s (%v)", jb3, jb, err)
	}
}

var (
	decoyOnce sync.Once
	decoyTxs  types.Transactions
	decoyRcs  types.Receipts
)

// disturbEncoders encodes a few fixed, unrelated objects through every encoder that draws on the
// shared buffer pool of core/types (typed transaction and receipt encodings, trie hashing of
// lists) - what a node does all the time between producing an encoding and using it.
func disturbEncoders() {
	decoyOnce.Do(func() {
		loc := common.Location{0, 0}
		for i := 0; i < 3; i++ {
			to := common.BytesToAddress([]byte{0, byte(0x10 + i), 3, 4, 5, 6, 7, 8, 9, 10, 11, 12, 13, 14, 15, 16, 17, 18, 19, byte(i)}, loc)
			decoyTxs = append(decoyTxs, types.NewTx(&types.ExternalTx{OriginatingTxHash: common.BytesToHash([]byte{0xde, 0xc0, byte(i)}), ETXIndex: uint16(900 + i), Gas: 77000 + uint64(i), To: &to,
				Value: big.NewInt(int64(0x5eed0000 + i)), Data: bytes.Repeat([]byte{0xd0 + byte(i)}, 40+i), Sender: to, EtxType: 0}))
			decoyRcs = append(decoyRcs, &types.Receipt{Type: types.ExternalTxType, Status: 1, CumulativeGasUsed: 21000 * uint64(i+1), Logs: []*types.Log{}})
		}
	})
	for _, d := range decoyTxs {
		d.MarshalBinary()
		rlp.EncodeToBytes(d)
	}
	for _, r := range decoyRcs {
		rlp.EncodeToBytes(r)
	}
	types.DeriveSha(decoyTxs, trie.NewStackTrie(nil))
	types.DeriveSha(decoyRcs, trie.NewStackTrie(nil))
}
