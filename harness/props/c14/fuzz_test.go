package c14

import (
	"bytes"
	"errors"
	"fmt"
	"strings"
	"testing"

	"github.com/dominant-strategies/go-quai/common"
	"github.com/dominant-strategies/go-quai/core/types"
	"github.com/dominant-strategies/go-quai/crypto"
	"github.com/dominant-strategies/go-quai/p2p/pb"
	"google.golang.org/protobuf/proto"
	"pgregory.net/rapid"

	"verifharness/gen"
	"verifharness/stats"
)

// Native fuzz targets (thorough tier). Oracle on arbitrary bytes b: if decode(b) succeeds (and
// the object passes the type's own validity predicate where one exists) then
// b2 = encode(decode(b)) can be produced, decode(b2) succeeds, encode(decode(b2)) == b2 and the
// object's hash is the same on both sides. Seeds are generated valid encodings.
//
// A panic of the code under test ends the case silently: crashes on malformed input are the
// subject of property C15 (whose decoder campaign reuses the generators); the C14 targets only
// judge objects on which decode, encode and hash all return.

var fuzzLoc = common.Location{0, 0}

const nSeeds = 48

func seeds(mk func(t *rapid.T) []byte, add func(b []byte)) {
	g := rapid.Custom(mk)
	for i := 0; i < nSeeds; i++ {
		add(g.Example(i))
	}
}

type codec[T any] struct {
	target string
	dec    func([]byte) (T, error)
	enc    func(T) ([]byte, error)
	hash   func(T) string        // optional
	valid  func(T) bool          // optional: the repository's own well-formedness predicate
	fp     func(T, error) string // optional: names a recognisable root cause ("" = generic)
}

func safely[R any](f func() (R, error)) (r R, err error, panicked bool) {
	defer func() {
		if x := recover(); x != nil {
			panicked = true
		}
	}()
	r, err = f()
	return
}

// badQiPubKey reports whether one of txs is a Qi transaction with an input key that is not a curve
// point (TxIn.ProtoDecode passes a 65-byte key through unchecked, TxIn.ProtoEncode refuses it):
// the recorded finding fpFuzzQiBadPubKey, whatever object carries the transaction.
func badQiPubKey(txs []*types.Transaction) bool {
	for _, tx := range txs {
		if tx == nil || tx.Type() != types.QiTxType {
			continue
		}
		for _, in := range tx.TxIn() {
			if _, err := crypto.UnmarshalPubkey(in.PubKey); err != nil {
				return true
			}
		}
	}
	return false
}

func woTxs(y *types.WorkObject) []*types.Transaction {
	if y == nil || y.Body() == nil {
		return nil
	}
	out := append([]*types.Transaction{}, y.Body().Transactions()...)
	if y.Tx() != nil {
		out = append(out, y.Tx())
	}
	return out
}

// redecodeFP names the root cause of an undecodable re-encoding where it is recognisable.
func redecodeFP(err error) string {
	if err != nil && strings.Contains(err.Error(), "diff and count is nil") {
		// WorkObjectHeader.ProtoDecode accepts a share counter with a missing member, which
		// PowShareDiffAndCount.ProtoEncode then drops entirely
		return "C14/fuzz/partial-share-counter-not-redecodable"
	}
	return ""
}

// fixedPoint applies the oracle and reports whether decode(b) succeeded (the case was judged).
func fixedPoint[T any](t stats.TB, k codec[T], b []byte) (judged bool) {
	fail := func(y T, err error, generic, format string, a ...any) {
		fp := ""
		if k.fp != nil {
			fp = k.fp(y, err)
		}
		if fp == "" {
			fp = redecodeFP(err)
		}
		if fp == "" {
			fp = "C14/fuzz/" + k.target + "/" + generic
		}
		if known(fp) {
			return // listed finding: reproduced once per run by TestC14_Regress_KnownFindings
		}
		stats.Violation(t, "fuzz", fp, fmt.Sprintf(format, a...), map[string]any{"target": k.target, "input": hx(b)})
	}
	y, err, p := safely(func() (T, error) { return k.dec(b) })
	if err != nil || p {
		return
	}
	if k.valid != nil {
		ok, _, p := safely(func() (bool, error) { return k.valid(y), nil })
		if !ok || p {
			return
		}
	}
	judged = true
	b2, err, p := safely(func() ([]byte, error) { return k.enc(y) })
	if p {
		return
	}
	if err != nil {
		fail(y, err, "reencode-error", "encoding a decoded object failed: %v", err)
		return
	}
	y2, err, p := safely(func() (T, error) { return k.dec(b2) })
	if p {
		return
	}
	if err != nil {
		fail(y, err, "not-redecodable", "encode(decode(b)) does not decode: %v (b2=%x)", err, b2)
		return
	}
	b3, err, p := safely(func() ([]byte, error) { return k.enc(y2) })
	if p {
		return
	}
	if err != nil || !bytes.Equal(b2, b3) {
		fail(y, err, "not-fixed-point", "encode(decode(b2)) != b2: %x vs %x (%v)", b3, b2, err)
		return
	}
	if k.hash != nil {
		h1, _, p1 := safely(func() (string, error) { return k.hash(y), nil })
		h2, _, p2 := safely(func() (string, error) { return k.hash(y2), nil })
		if !p1 && !p2 && h1 != h2 {
			fail(y, nil, "hash", "hash differs between decode(b) and decode(encode(decode(b))): %s vs %s", h1, h2)
		}
	}
	return
}

func decTxProto(b []byte) (*types.Transaction, error) {
	p := new(types.ProtoTransaction)
	if err := proto.Unmarshal(b, p); err != nil {
		return nil, err
	}
	y := new(types.Transaction)
	if err := y.ProtoDecode(p, fuzzLoc); err != nil {
		return nil, err
	}
	return y, nil
}

func encTxProto(y *types.Transaction) ([]byte, error) {
	p, err := y.ProtoEncode()
	if err != nil {
		return nil, err
	}
	return proto.Marshal(p)
}

var codecTxProto = codec[*types.Transaction]{target: "txproto", dec: decTxProto, enc: encTxProto, hash: func(y *types.Transaction) string { return y.Hash().Hex() },
	fp: func(y *types.Transaction, err error) string {
		if err != nil && y.Type() == types.QiTxType && strings.Contains(err.Error(), "invalid secp256k1 public key") {
			// TxIn.ProtoDecode passes a 65-byte key through unchecked, TxIn.ProtoEncode (and with it Hash()) needs a curve point
			return fpFuzzQiBadPubKey
		}
		return ""
	}}

func FuzzC14_TxProto(f *testing.F) {
	seeds(func(t *rapid.T) []byte {
		b, _ := encTxProto(gen.Tx(t, fuzzLoc, -1, nil))
		return b
	}, func(b []byte) { f.Add(b) })
	f.Fuzz(func(t *testing.T, b []byte) { fixedPoint(t, codecTxProto, b) })
}

func FuzzC14_TxRLP(f *testing.F) {
	seeds(func(t *rapid.T) []byte {
		b, _ := gen.Tx(t, fuzzLoc, -1, nil).MarshalBinary()
		return b
	}, func(b []byte) { f.Add(b) })
	k := codec[*types.Transaction]{target: "txrlp",
		dec: func(b []byte) (*types.Transaction, error) {
			y := new(types.Transaction)
			return y, y.UnmarshalBinary(b)
		},
		enc:  func(y *types.Transaction) ([]byte, error) { return y.MarshalBinary() },
		hash: func(y *types.Transaction) string { return y.Hash().Hex() },
		fp: func(y *types.Transaction, err error) string {
			if err != nil && y.Type() == types.QuaiTxType && strings.Contains(err.Error(), "input string too short") {
				return "C14/tx/rlp/decode-error/quai/nil-work-field" // same root cause as in TestC14_Tx
			}
			return ""
		}}
	f.Fuzz(func(t *testing.T, b []byte) { fixedPoint(t, k, b) })
}

func FuzzC14_TxJSON(f *testing.F) {
	seeds(func(t *rapid.T) []byte {
		b, _ := gen.Tx(t, fuzzLoc, -1, nil).MarshalJSON()
		return b
	}, func(b []byte) { f.Add(b) })
	k := codec[*types.Transaction]{target: "txjson",
		dec: func(b []byte) (*types.Transaction, error) {
			y := new(types.Transaction)
			return y, y.UnmarshalJSON(b)
		},
		enc:  func(y *types.Transaction) ([]byte, error) { return y.MarshalJSON() },
		hash: func(y *types.Transaction) string { return y.Hash().Hex() }}
	f.Fuzz(func(t *testing.T, b []byte) { fixedPoint(t, k, b) })
}

var fuzzViews = []types.WorkObjectView{types.BlockObject, types.HeaderObject, types.PEtxObject, types.WorkShareTxObject}

func woCodec(view types.WorkObjectView) codec[*types.WorkObject] {
	return codec[*types.WorkObject]{target: "workobject/" + viewNames[view],
		dec: func(b []byte) (*types.WorkObject, error) { return decodeWo(b, fuzzLoc, view) },
		enc: func(y *types.WorkObject) ([]byte, error) {
			p, err := y.ProtoEncode(view)
			if err != nil {
				return nil, err
			}
			return proto.Marshal(p)
		},
		hash: func(y *types.WorkObject) string { return y.Hash().Hex() + y.SealHash().Hex() },
		fp: func(y *types.WorkObject, err error) string {
			if err != nil && y.Body() != nil && y.Body().Header() == nil && strings.Contains(err.Error(), "header to be proto encoded is nil") {
				// the decoder treats the body header as optional, the encoder does not
				return "C14/fuzz/headerless-body-not-reencodable"
			}
			if err != nil && strings.Contains(err.Error(), "invalid secp256k1 public key") && badQiPubKey(woTxs(y)) {
				return fpFuzzQiBadPubKey // the same transaction-level finding, carried inside a work object
			}
			return ""
		}}
}

func FuzzC14_WorkObject(f *testing.F) {
	seeds(func(t *rapid.T) []byte {
		wo := gen.WorkObject(t, fuzzLoc, gen.WoOpts{Regime: gen.AnyRegime, AuxPow: -1}, nil)
		v := rapid.IntRange(0, 3).Draw(t, "view")
		var p *types.ProtoWorkObject
		switch v {
		case 0:
			p, _ = wo.ProtoEncode(types.BlockObject)
		case 1:
			p, _ = wo.ConvertToHeaderView().WorkObject.ProtoEncode(types.HeaderObject)
		case 2:
			p, _ = wo.ConvertToPEtxView().ProtoEncode(types.PEtxObject)
		default:
			p, _ = wo.ConvertToWorkObjectShareView(wo.Transactions()).WorkObject.ProtoEncode(types.WorkShareTxObject)
		}
		b, _ := proto.Marshal(p)
		return append([]byte{byte(v)}, b...)
	}, func(b []byte) { f.Add(b[0], b[1:]) })
	var ks []codec[*types.WorkObject]
	for _, v := range fuzzViews {
		ks = append(ks, woCodec(v))
	}
	f.Fuzz(func(t *testing.T, v uint8, b []byte) { fixedPoint(t, ks[int(v)%len(ks)], b) })
}

var codecHeader = codec[*types.Header]{target: "header",
	dec: func(b []byte) (*types.Header, error) { return decodeHeaderBytes(b, fuzzLoc) },
	enc: func(y *types.Header) ([]byte, error) {
		p, err := y.ProtoEncode()
		if err != nil {
			return nil, err
		}
		return proto.Marshal(p)
	},
	hash: func(y *types.Header) string { return y.Hash().Hex() }}
var codecWoh = codec[*types.WorkObjectHeader]{target: "woheader",
	dec: func(b []byte) (*types.WorkObjectHeader, error) { return decodeWoh(b, fuzzLoc) },
	enc: func(y *types.WorkObjectHeader) ([]byte, error) {
		p, err := y.ProtoEncode()
		if err != nil {
			return nil, err
		}
		return proto.Marshal(p)
	},
	hash: func(y *types.WorkObjectHeader) string { return y.Hash().Hex() + y.SealHash().Hex() }}

func FuzzC14_Header(f *testing.F) {
	seeds(func(t *rapid.T) []byte {
		if rapid.Bool().Draw(t, "woh") {
			p, _ := gen.WorkObjectHeader(t, "wh", fuzzLoc, gen.WoOpts{Regime: gen.AnyRegime, AuxPow: -1}, nil).ProtoEncode()
			b, _ := proto.Marshal(p)
			return append([]byte{1}, b...)
		}
		p, _ := gen.Header(t, nil).ProtoEncode()
		b, _ := proto.Marshal(p)
		return append([]byte{0}, b...)
	}, func(b []byte) { f.Add(b[0], b[1:]) })
	f.Fuzz(func(t *testing.T, kind uint8, b []byte) {
		if kind%2 == 0 {
			fixedPoint(t, codecHeader, b)
		} else {
			fixedPoint(t, codecWoh, b)
		}
	})
}

// decoded p2p response in re-encodable form
type p2pResp struct {
	id   uint32
	loc  common.Location
	typ  interface{}
	data interface{}
}

var errSkip = errors.New("not a response with a payload")
var codecQuaiMessage = codec[*p2pResp]{target: "quaimessage",
	dec: func(b []byte) (*p2pResp, error) {
		msg, err := pb.DecodeQuaiMessage(b)
		if err != nil {
			return nil, err
		}
		if req := msg.GetRequest(); req != nil {
			pb.DecodeQuaiRequest(req) // must return; nothing to re-encode without the caller's types
			return nil, errSkip
		}
		resp := msg.GetResponse()
		if resp == nil {
			return nil, errSkip
		}
		id, data, err := pb.DecodeQuaiResponse(resp)
		if err != nil {
			return nil, err
		}
		r := &p2pResp{id: id, data: data}
		r.loc.ProtoDecode(resp.Location)
		switch d := data.(type) {
		case *types.WorkObjectBlockView:
			r.typ = &types.WorkObjectBlockView{}
		case *types.WorkObjectHeaderView:
			r.typ = &types.WorkObjectHeaderView{}
		case []*types.WorkObjectBlockView:
			if len(d) == 0 {
				return nil, errSkip // re-encodes as an empty list, which decodes as EmptyResponse by design
			}
			r.typ = []*types.WorkObjectBlockView{}
		case common.Hash:
			r.typ = &common.Hash{}
		default:
			return nil, errSkip
		}
		return r, nil
	},
	enc: func(r *p2pResp) ([]byte, error) { return pb.EncodeQuaiResponse(r.id, r.loc, r.typ, r.data) },
	fp: func(r *p2pResp, err error) string {
		if err != nil && strings.Contains(err.Error(), "header to be proto encoded is nil") {
			return "C14/fuzz/headerless-body-not-reencodable"
		}
		if err != nil && strings.Contains(err.Error(), "invalid secp256k1 public key") {
			var txs []*types.Transaction
			switch d := r.data.(type) {
			case *types.WorkObjectBlockView:
				txs = woTxs(d.WorkObject)
			case *types.WorkObjectHeaderView:
				txs = woTxs(d.WorkObject)
			case []*types.WorkObjectBlockView:
				for _, b := range d {
					if b != nil {
						txs = append(txs, woTxs(b.WorkObject)...)
					}
				}
			}
			if badQiPubKey(txs) {
				return fpFuzzQiBadPubKey
			}
		}
		return ""
	}}

func FuzzC14_QuaiMessage(f *testing.F) {
	seeds(func(t *rapid.T) []byte {
		if rapid.Bool().Draw(t, "req") {
			r := gen.Request(t, nil)
			b, _ := pb.EncodeQuaiRequest(r.ID, r.Loc, r.Data, r.RespType)
			return b
		}
		r := gen.Response(t, nil)
		b, _ := pb.EncodeQuaiResponse(r.ID, r.Loc, r.RespType, r.Data)
		return b
	}, func(b []byte) { f.Add(b) })
	f.Fuzz(func(t *testing.T, b []byte) { fixedPoint(t, codecQuaiMessage, b) })
}

var codecReceipts = codec[types.Receipts]{target: "receipts",
	dec: func(b []byte) (types.Receipts, error) {
		p := new(types.ProtoReceiptsForStorage)
		if err := proto.Unmarshal(b, p); err != nil {
			return nil, err
		}
		var rs types.ReceiptsForStorage
		if err := rs.ProtoDecode(p, fuzzLoc); err != nil {
			return nil, err
		}
		out := make(types.Receipts, len(rs))
		for i := range rs {
			out[i] = (*types.Receipt)(rs[i])
		}
		return out, nil
	},
	enc: func(rs types.Receipts) ([]byte, error) { return rs.Bytes(logger), nil }}
var codecPendingEtxs = codec[*types.PendingEtxs]{target: "pendingetxs",
	dec: func(b []byte) (*types.PendingEtxs, error) {
		p := new(types.ProtoPendingEtxs)
		if err := proto.Unmarshal(b, p); err != nil {
			return nil, err
		}
		y := new(types.PendingEtxs)
		return y, y.ProtoDecode(p, fuzzLoc)
	},
	enc: func(y *types.PendingEtxs) ([]byte, error) {
		p, err := y.ProtoEncode()
		if err != nil {
			return nil, err
		}
		return proto.Marshal(p)
	},
	hash: func(y *types.PendingEtxs) string { return y.Header.Hash().Hex() }}
var codecTermini = codec[*types.Termini]{target: "termini",
	dec: func(b []byte) (*types.Termini, error) {
		p := new(types.ProtoTermini)
		if err := proto.Unmarshal(b, p); err != nil {
			return nil, err
		}
		y := new(types.Termini)
		return y, y.ProtoDecode(p)
	},
	enc:   func(y *types.Termini) ([]byte, error) { return proto.Marshal(y.ProtoEncode()) },
	valid: func(y *types.Termini) bool { return y.IsValid() }}
var codecTemplate = codec[*types.AuxTemplate]{target: "auxtemplate",
	dec:  decodeTemplateBytes,
	enc:  func(y *types.AuxTemplate) ([]byte, error) { return proto.Marshal(y.ProtoEncode()) },
	hash: func(y *types.AuxTemplate) string { h := y.Hash(); return hx(h[:]) }}

func FuzzC14_Stored(f *testing.F) {
	seeds(func(t *rapid.T) []byte {
		switch k := rapid.IntRange(0, 3).Draw(t, "kind"); k {
		case 0:
			return append([]byte{0}, gen.Receipts(t, fuzzLoc, false, nil).Bytes(logger)...)
		case 1:
			x := gen.PendingEtxs(t, fuzzLoc, nil)
			p, _ := x.ProtoEncode()
			b, _ := proto.Marshal(p)
			return append([]byte{1}, b...)
		case 2:
			b, _ := proto.Marshal(gen.Termini(t, "t").ProtoEncode())
			return append([]byte{2}, b...)
		default:
			b, _ := proto.Marshal(gen.AuxTemplate(t, "at", nil).ProtoEncode())
			return append([]byte{3}, b...)
		}
	}, func(b []byte) { f.Add(b[0], b[1:]) })
	f.Fuzz(func(t *testing.T, kind uint8, b []byte) {
		switch kind % 4 {
		case 0:
			fixedPoint(t, codecReceipts, b)
		case 1:
			fixedPoint(t, codecPendingEtxs, b)
		case 2:
			fixedPoint(t, codecTermini, b)
		default:
			fixedPoint(t, codecTemplate, b)
		}
	})
}
