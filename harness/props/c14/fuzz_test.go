package c14

import (
	"bytes"
	"encoding/json"
	"fmt"
	"strings"
	"testing"

	"github.com/dominant-strategies/go-quai/common"
	"github.com/dominant-strategies/go-quai/core/types"
	"github.com/dominant-strategies/go-quai/p2p/pb"
	"google.golang.org/protobuf/proto"
	"pgregory.net/rapid"

	"verifharness/gen"
	"verifharness/stats"
)

// Native fuzz targets (thorough tier). Oracle on arbitrary bytes b: if decode(b) succeeds then
// b2 = encode(decode(b)) can be produced, decode(b2) succeeds, encode(decode(b2)) == b2 and the
// object's hash is the same on both sides. Seeds are generated valid encodings.

var fuzzLoc = common.Location{0, 0}

const nSeeds = 48

func seeds(f *testing.F, mk func(t *rapid.T) []byte, add func(b []byte)) {
	g := rapid.Custom(mk)
	for i := 0; i < nSeeds; i++ {
		add(g.Example(i))
	}
}

type fuzzCtx struct {
	t        *testing.T
	target   string
	in       []byte
	panicked bool
}

func (c *fuzzCtx) fail(fp, format string, a ...any) {
	if c.panicked {
		return
	}
	if !strings.HasPrefix(fp, "C14/") {
		fp = "C14/fuzz/" + c.target + "/" + fp
	}
	stats.Violation(c.t, "fuzz", fp, fmt.Sprintf(format, a...), map[string]any{"target": c.target, "input": hx(c.in)})
}

// guard (deferred) swallows a panic of the code under test: crashes on malformed input are the
// subject of property C15 (its decoder campaign reuses these generators); the C14 targets only
// judge objects on which decode, encode and hash all return.
func (c *fuzzCtx) guard(stage string) {
	if r := recover(); r != nil {
		c.panicked = true
	}
}

// redecodeFP names the root cause of an undecodable re-encoding where it is recognisable.
func redecodeFP(err error) string {
	if err != nil && strings.Contains(err.Error(), "diff and count is nil") {
		// WorkObjectHeader.ProtoDecode accepts a share counter with a missing member, which
		// PowShareDiffAndCount.ProtoEncode then drops entirely
		return "C14/fuzz/partial-share-counter-not-redecodable"
	}
	return ""
}

func FuzzC14_TxProto(f *testing.F) {
	seeds(f, func(t *rapid.T) []byte {
		p, _ := gen.Tx(t, fuzzLoc, -1, nil).ProtoEncode()
		b, _ := proto.Marshal(p)
		return b
	}, func(b []byte) { f.Add(b) })
	f.Fuzz(func(t *testing.T, b []byte) {
		c := &fuzzCtx{t: t, target: "txproto", in: b}
		dec := func(b []byte) *types.Transaction {
			p := new(types.ProtoTransaction)
			if proto.Unmarshal(b, p) != nil {
				return nil
			}
			y := new(types.Transaction)
			if y.ProtoDecode(p, fuzzLoc) != nil {
				return nil
			}
			return y
		}
		enc := func(y *types.Transaction) (out []byte) {
			defer c.guard("encode")
			p, err := y.ProtoEncode()
			if err != nil {
				c.fail("reencode-error", "ProtoEncode of a decoded tx failed: %v", err)
				return nil
			}
			out, _ = proto.Marshal(p)
			return out
		}
		y := dec(b)
		if y == nil {
			return
		}
		b2 := enc(y)
		if b2 == nil {
			return
		}
		y2 := dec(b2)
		if y2 == nil {
			c.fail("not-redecodable", "encode(decode(b)) does not decode: %x", b2)
			return
		}
		if b3 := enc(y2); !bytes.Equal(b2, b3) {
			c.fail("not-fixed-point", "encode(decode(b2)) != b2: %x vs %x", b3, b2)
		}
		func() {
			defer c.guard("hash")
			if y.Hash() != y2.Hash() {
				c.fail("hash", "hash differs between decode(b) and decode(encode(decode(b)))")
			}
		}()
	})
}

func FuzzC14_TxRLP(f *testing.F) {
	seeds(f, func(t *rapid.T) []byte {
		b, _ := gen.Tx(t, fuzzLoc, -1, nil).MarshalBinary()
		return b
	}, func(b []byte) { f.Add(b) })
	f.Fuzz(func(t *testing.T, b []byte) {
		c := &fuzzCtx{t: t, target: "txrlp", in: b}
		y := new(types.Transaction)
		if y.UnmarshalBinary(b) != nil {
			return
		}
		var b2 []byte
		var err error
		func() {
			defer c.guard("encode")
			b2, err = y.MarshalBinary()
		}()
		if err != nil || b2 == nil {
			if err != nil {
				c.fail("reencode-error", "MarshalBinary of a decoded tx failed: %v", err)
			}
			return
		}
		y2 := new(types.Transaction)
		if err := y2.UnmarshalBinary(b2); err != nil {
			fp := "not-redecodable"
			if y.Type() == types.QuaiTxType && (y.ParentHash() == nil || y.MixHash() == nil || y.WorkNonce() == nil) {
				fp = "quai-nil-work-field" // same root cause as C14/tx/rlp/decode-error/quai/nil-work-field
			}
			c.fail(fp, "MarshalBinary(UnmarshalBinary(b)) does not decode: %v (%x)", err, b2)
			return
		}
		if b3, _ := y2.MarshalBinary(); !bytes.Equal(b2, b3) {
			c.fail("not-fixed-point", "re-encoding is not a fixed point: %x vs %x", b3, b2)
		}
		func() {
			defer c.guard("hash")
			if y.Hash() != y2.Hash() {
				c.fail("hash", "hash differs between decode(b) and decode(encode(decode(b)))")
			}
		}()
	})
}

func FuzzC14_TxJSON(f *testing.F) {
	seeds(f, func(t *rapid.T) []byte {
		b, _ := gen.Tx(t, fuzzLoc, -1, nil).MarshalJSON()
		return b
	}, func(b []byte) { f.Add(b) })
	f.Fuzz(func(t *testing.T, b []byte) {
		c := &fuzzCtx{t: t, target: "txjson", in: b}
		y := new(types.Transaction)
		if y.UnmarshalJSON(b) != nil {
			return
		}
		var b2 []byte
		var err error
		func() {
			defer c.guard("encode")
			b2, err = y.MarshalJSON()
		}()
		if b2 == nil {
			if err != nil {
				c.fail("reencode-error", "MarshalJSON of a decoded tx failed: %v", err)
			}
			return
		}
		y2 := new(types.Transaction)
		if err := y2.UnmarshalJSON(b2); err != nil {
			c.fail("not-redecodable", "MarshalJSON(UnmarshalJSON(b)) does not decode: %v (%s)", err, b2)
			return
		}
		if b3, _ := y2.MarshalJSON(); !bytes.Equal(b2, b3) {
			c.fail("not-fixed-point", "re-encoding is not a fixed point: %s vs %s", b3, b2)
		}
		if y.Hash() != y2.Hash() {
			c.fail("hash", "hash differs")
		}
	})
}

var fuzzViews = []types.WorkObjectView{types.BlockObject, types.HeaderObject, types.PEtxObject, types.WorkShareTxObject, types.WorkShareObject, types.BlockObjects}

func FuzzC14_WorkObject(f *testing.F) {
	seeds(f, func(t *rapid.T) []byte {
		wo := gen.WorkObject(t, fuzzLoc, gen.WoOpts{Regime: gen.AnyRegime, AuxPow: -1}, nil)
		v := rapid.IntRange(0, 3).Draw(t, "view")
		var p *types.ProtoWorkObject
		switch v {
		case 0:
			p, _ = wo.ProtoEncode(types.BlockObject)
		case 1:
			p, _ = wo.ConvertToHeaderView().WorkObject.ProtoEncode(types.HeaderObject)
		case 2:
			p, _ = wo.ConvertToPEtxView().ProtoEncode(types.PEtxObject)
		default:
			p, _ = wo.ConvertToWorkObjectShareView(wo.Transactions()).WorkObject.ProtoEncode(types.WorkShareTxObject)
		}
		b, _ := proto.Marshal(p)
		return append([]byte{byte(v)}, b...)
	}, func(b []byte) { f.Add(b[0], b[1:]) })
	f.Fuzz(func(t *testing.T, v uint8, b []byte) {
		view := fuzzViews[int(v)%4] // the four views that have an encoder of their own
		c := &fuzzCtx{t: t, target: "workobject/" + viewNames[view], in: b}
		y, err := decodeWo(b, fuzzLoc, view)
		if err != nil {
			return
		}
		enc := func(y *types.WorkObject) (out []byte) {
			defer c.guard("encode")
			p, err := y.ProtoEncode(view)
			if err != nil {
				fp := "reencode-error"
				if y.Body() != nil && y.Body().Header() == nil {
					fp = "headerless-body-not-reencodable" // the decoder treats the body header as optional, the encoder does not
				}
				c.fail(fp, "ProtoEncode of a decoded work object failed: %v", err)
				return nil
			}
			out, _ = proto.Marshal(p)
			return out
		}
		b2 := enc(y)
		if b2 == nil {
			return
		}
		y2, err := decodeWo(b2, fuzzLoc, view)
		if err != nil {
			c.fail("not-redecodable", "encode(decode(b)) does not decode: %v", err)
			return
		}
		if b3 := enc(y2); !bytes.Equal(b2, b3) {
			c.fail("not-fixed-point", "encode(decode(b2)) != b2")
		}
		func() {
			defer c.guard("hash")
			if y.Hash() != y2.Hash() || y.SealHash() != y2.SealHash() {
				c.fail("hash", "hash differs between decode(b) and decode(encode(decode(b)))")
			}
		}()
	})
}

func FuzzC14_Header(f *testing.F) {
	seeds(f, func(t *rapid.T) []byte {
		if rapid.Bool().Draw(t, "woh") {
			p, _ := gen.WorkObjectHeader(t, "wh", fuzzLoc, gen.WoOpts{Regime: gen.AnyRegime, AuxPow: -1}, nil).ProtoEncode()
			b, _ := proto.Marshal(p)
			return append([]byte{1}, b...)
		}
		p, _ := gen.Header(t, nil).ProtoEncode()
		b, _ := proto.Marshal(p)
		return append([]byte{0}, b...)
	}, func(b []byte) { f.Add(b[0], b[1:]) })
	f.Fuzz(func(t *testing.T, kind uint8, b []byte) {
		if kind%2 == 0 {
			c := &fuzzCtx{t: t, target: "header", in: b}
			y, err := decodeHeaderBytes(b, fuzzLoc)
			if err != nil {
				return
			}
			var b2 []byte
			func() {
				defer c.guard("encode")
				p, err := y.ProtoEncode()
				if err != nil {
					c.fail("reencode-error", "%v", err)
					return
				}
				b2, _ = proto.Marshal(p)
			}()
			if b2 == nil {
				return
			}
			y2, err := decodeHeaderBytes(b2, fuzzLoc)
			if err != nil {
				c.fail("not-redecodable", "encode(decode(b)) does not decode: %v", err)
				return
			}
			p3, _ := y2.ProtoEncode()
			if b3, _ := proto.Marshal(p3); !bytes.Equal(b2, b3) {
				c.fail("not-fixed-point", "encode(decode(b2)) != b2")
			}
			if y.Hash() != y2.Hash() {
				c.fail("hash", "hash differs")
			}
			return
		}
		c := &fuzzCtx{t: t, target: "woheader", in: b}
		y, err := decodeWoh(b, fuzzLoc)
		if err != nil {
			return
		}
		enc := func(y *types.WorkObjectHeader) (out []byte) {
			defer c.guard("encode")
			p, err := y.ProtoEncode()
			if err != nil {
				c.fail("reencode-error", "%v", err)
				return nil
			}
			out, _ = proto.Marshal(p)
			return out
		}
		b2 := enc(y)
		if b2 == nil {
			return
		}
		y2, err := decodeWoh(b2, fuzzLoc)
		if err != nil {
			fp := "not-redecodable"
			if y.KawpowActivationHappened() && (y.ShaDiffAndCount().Difficulty() == nil || y.ShaDiffAndCount().Count() == nil || y.ShaDiffAndCount().Uncled() == nil ||
				y.ScryptDiffAndCount().Difficulty() == nil || y.ScryptDiffAndCount().Count() == nil || y.ScryptDiffAndCount().Uncled() == nil) {
				fp = "partial-share-counter-not-redecodable"
			}
			c.fail(fp, "encode(decode(b)) does not decode: %v", err)
			return
		}
		if b3 := enc(y2); !bytes.Equal(b2, b3) {
			c.fail("not-fixed-point", "encode(decode(b2)) != b2")
		}
		func() {
			defer c.guard("hash")
			if y.Hash() != y2.Hash() || y.SealHash() != y2.SealHash() {
				c.fail("hash", "hash differs between decode(b) and decode(encode(decode(b)))")
			}
		}()
	})
}

func FuzzC14_QuaiMessage(f *testing.F) {
	seeds(f, func(t *rapid.T) []byte {
		if rapid.Bool().Draw(t, "req") {
			r := gen.Request(t, nil)
			b, _ := pb.EncodeQuaiRequest(r.ID, r.Loc, r.Data, r.RespType)
			return b
		}
		r := gen.Response(t, nil)
		b, _ := pb.EncodeQuaiResponse(r.ID, r.Loc, r.RespType, r.Data)
		return b
	}, func(b []byte) { f.Add(b) })
	f.Fuzz(func(t *testing.T, b []byte) {
		c := &fuzzCtx{t: t, target: "quaimessage", in: b}
		msg, err := pb.DecodeQuaiMessage(b)
		if err != nil {
			return
		}
		if resp := msg.GetResponse(); resp != nil {
			var id uint32
			var data interface{}
			func() {
				defer c.guard("decode")
				id, data, err = pb.DecodeQuaiResponse(resp)
			}()
			if err != nil || data == nil {
				return
			}
			loc := common.Location{}
			loc.ProtoDecode(resp.Location)
			var typ interface{}
			switch data.(type) {
			case *types.WorkObjectBlockView:
				typ = &types.WorkObjectBlockView{}
			case *types.WorkObjectHeaderView:
				typ = &types.WorkObjectHeaderView{}
			case []*types.WorkObjectBlockView:
				typ = []*types.WorkObjectBlockView{}
			case common.Hash:
				typ = &common.Hash{}
			}
			var b2 []byte
			func() {
				defer c.guard("encode")
				b2, err = pb.EncodeQuaiResponse(id, loc, typ, data)
			}()
			if b2 == nil {
				if err != nil {
					c.fail("reencode-error", "EncodeQuaiResponse of a decoded response failed: %v", err)
				}
				return
			}
			msg2, err := pb.DecodeQuaiMessage(b2)
			if err != nil || msg2.GetResponse() == nil {
				c.fail("not-redecodable", "re-encoded response does not decode: %v", err)
				return
			}
			id2, data2, err := pb.DecodeQuaiResponse(msg2.GetResponse())
			if err != nil || id2 != id {
				if err == pb.EmptyResponse {
					return // an empty block list is reported as EmptyResponse by design
				}
				c.fail("not-redecodable", "re-encoded response does not decode: %v", err)
				return
			}
			b3, _ := pb.EncodeQuaiResponse(id2, loc, typ, data2)
			if !bytes.Equal(b2, b3) {
				c.fail("not-fixed-point", "response re-encoding is not a fixed point")
			}
		}
		if req := msg.GetRequest(); req != nil {
			func() {
				defer c.guard("decode")
				pb.DecodeQuaiRequest(req)
			}()
		}
	})
}

func FuzzC14_Stored(f *testing.F) {
	seeds(f, func(t *rapid.T) []byte {
		switch k := rapid.IntRange(0, 3).Draw(t, "kind"); k {
		case 0:
			return append([]byte{0}, gen.Receipts(t, fuzzLoc, false, nil).Bytes(logger)...)
		case 1:
			x := gen.PendingEtxs(t, fuzzLoc, nil)
			p, _ := x.ProtoEncode()
			b, _ := proto.Marshal(p)
			return append([]byte{1}, b...)
		case 2:
			b, _ := proto.Marshal(gen.Termini(t, "t").ProtoEncode())
			return append([]byte{2}, b...)
		default:
			b, _ := proto.Marshal(gen.AuxTemplate(t, "at", nil).ProtoEncode())
			return append([]byte{3}, b...)
		}
	}, func(b []byte) { f.Add(b[0], b[1:]) })
	f.Fuzz(func(t *testing.T, kind uint8, b []byte) {
		switch kind % 4 {
		case 0:
			c := &fuzzCtx{t: t, target: "receipts", in: b}
			dec := func(b []byte) (types.Receipts, bool) {
				p := new(types.ProtoReceiptsForStorage)
				if proto.Unmarshal(b, p) != nil {
					return nil, false
				}
				var rs types.ReceiptsForStorage
				ok := true
				func() {
					defer c.guard("decode")
					ok = rs.ProtoDecode(p, fuzzLoc) == nil
				}()
				if !ok {
					return nil, false
				}
				out := make(types.Receipts, len(rs))
				for i := range rs {
					out[i] = (*types.Receipt)(rs[i])
				}
				return out, true
			}
			rs, ok := dec(b)
			if !ok {
				return
			}
			var b2 []byte
			func() {
				defer c.guard("encode")
				b2 = rs.Bytes(logger)
			}()
			rs2, ok := dec(b2)
			if !ok {
				c.fail("not-redecodable", "re-encoded receipts do not decode")
				return
			}
			if b3 := rs2.Bytes(logger); !bytes.Equal(b2, b3) {
				c.fail("not-fixed-point", "receipt re-encoding is not a fixed point")
			}
		case 1:
			c := &fuzzCtx{t: t, target: "pendingetxs", in: b}
			dec := func(b []byte) *types.PendingEtxs {
				p := new(types.ProtoPendingEtxs)
				if proto.Unmarshal(b, p) != nil {
					return nil
				}
				y := new(types.PendingEtxs)
				if y.ProtoDecode(p, fuzzLoc) != nil {
					return nil
				}
				return y
			}
			enc := func(y *types.PendingEtxs) (out []byte) {
				defer c.guard("encode")
				p, err := y.ProtoEncode()
				if err != nil {
					c.fail("reencode-error", "%v", err)
					return nil
				}
				out, _ = proto.Marshal(p)
				return out
			}
			y := dec(b)
			if y == nil {
				return
			}
			b2 := enc(y)
			if b2 == nil {
				return
			}
			y2 := dec(b2)
			if y2 == nil {
				c.fail("not-redecodable", "re-encoded pending ETXs do not decode")
				return
			}
			if !bytes.Equal(b2, enc(y2)) {
				c.fail("not-fixed-point", "pending ETX re-encoding is not a fixed point")
			}
		case 2:
			c := &fuzzCtx{t: t, target: "termini", in: b}
			p := new(types.ProtoTermini)
			if proto.Unmarshal(b, p) != nil {
				return
			}
			y := new(types.Termini)
			if y.ProtoDecode(p) != nil {
				return
			}
			var b2 []byte
			func() {
				defer c.guard("encode")
				b2, _ = proto.Marshal(y.ProtoEncode())
			}()
			if b2 == nil {
				return
			}
			p2 := new(types.ProtoTermini)
			proto.Unmarshal(b2, p2)
			y2 := new(types.Termini)
			if err := y2.ProtoDecode(p2); err != nil {
				c.fail("not-redecodable", "%v", err)
				return
			}
			if b3, _ := proto.Marshal(y2.ProtoEncode()); !bytes.Equal(b2, b3) {
				c.fail("not-fixed-point", "termini re-encoding is not a fixed point")
			}
		default:
			c := &fuzzCtx{t: t, target: "auxtemplate", in: b}
			y, err := decodeTemplateBytes(b)
			if err != nil {
				return
			}
			b2, _ := proto.Marshal(y.ProtoEncode())
			y2, err := decodeTemplateBytes(b2)
			if err != nil {
				c.fail("not-redecodable", "%v", err)
				return
			}
			if b3, _ := proto.Marshal(y2.ProtoEncode()); !bytes.Equal(b2, b3) {
				c.fail("not-fixed-point", "template re-encoding is not a fixed point")
			}
			if y.Hash() != y2.Hash() {
				c.fail("hash", "template signing hash differs")
			}
		}
	})
}

var _ = json.Marshal
