package c14

import (
	"bytes"
	"encoding/json"
	"fmt"
	"math/big"
	"testing"

	"github.com/dominant-strategies/go-quai/common"
	"github.com/dominant-strategies/go-quai/core/rawdb"
	"github.com/dominant-strategies/go-quai/core/types"
	"github.com/dominant-strategies/go-quai/params"
	"github.com/dominant-strategies/go-quai/rlp"
	"google.golang.org/protobuf/proto"

	"verifharness/gen"
	"verifharness/stats"
)

// Fingerprints of the round-trip defects found on the unchanged tree (KNOWN_FINDINGS.json).
// While an entry is listed as "known" the random tests exclude exactly its input class
// (known(fp) -> stats.Excluded) and TestC14_Regress_KnownFindings reproduces it once per run.
const (
	fpQuaiRlpNilWork     = "C14/tx/rlp/decode-error/quai/nil-work-field"
	fpQiRlpWorkDropped   = "C14/tx/rlp/qi-work-fields-dropped"
	fpRlpSizeCache       = "C14/tx/rlp/size-cache"
	fpQuaiJsonWorkNonce  = "C14/tx/json/quai-work-nonce-truncated"
	fpQiJsonWorkDropped  = "C14/tx/json/qi-work-fields-dropped"
	fpNilTxAddress       = "C14/tx/nil-inner-address-normalised"
	fpNilCoinbase        = "C14/woheader/nil-inner-coinbase-normalised"
	fpAuxCopyNil         = "C14/auxpow/copy-nil-bytes-become-empty"
	fpAuxJSONNil         = "C14/woheader/json/rpc-auxpow-nil-bytes-become-empty"
	fpTemplateNilSigs    = "C14/auxtemplate/nil-sigs-normalised"
	fpHeaderMarshalJSON  = "C14/header/json/marshaljson-drops-manifesthash"
	fpWohMarshalJSON     = "C14/woheader/json/marshaljson-lossy"
	fpTerminiMarshalJSON = "C14/termini/json/marshaljson-empty"
	fpReceiptLocked      = "C14/receipt/status-locked-stored-as-successful"
	fpReceiptRlpEtxs     = "C14/receipt/rlp/outbound-etxs-dropped"
	fpReceiptStorageRlp  = "C14/receiptforstorage/rlp/implementation-fields-dropped"
	fpFuzzShareCounter   = "C14/fuzz/partial-share-counter-not-redecodable"
	fpFuzzHeaderlessBody = "C14/fuzz/headerless-body-not-reencodable"
	fpFuzzQiBadPubKey    = "C14/fuzz/qi-invalid-uncompressed-pubkey-not-reencodable"
)

// ---- the input classes -------------------------------------------------------------------------

func hasWorkField(tx *types.Transaction) bool {
	return tx.ParentHash() != nil || tx.MixHash() != nil || tx.WorkNonce() != nil
}
func quaiNilWorkField(tx *types.Transaction) bool {
	return tx.Type() == types.QuaiTxType && (tx.ParentHash() == nil || tx.MixHash() == nil || tx.WorkNonce() == nil)
}
func qiWithWorkField(tx *types.Transaction) bool {
	return tx.Type() == types.QiTxType && hasWorkField(tx)
}
func quaiNonZeroWorkNonce(tx *types.Transaction) bool {
	return tx.Type() == types.QuaiTxType && tx.WorkNonce() != nil && tx.WorkNonce().Uint64() != 0
}
func auxNilBytes(ap *types.AuxPow) bool {
	return ap != nil && (ap.AuxPow2() == nil || ap.Signature() == nil)
}

// ---- deterministic reproducers -----------------------------------------------------------------

var regressLoc = common.Location{0, 0}

func regressAddr(b byte) common.Address {
	return common.BytesToAddress([]byte{0x00, 0x01, b}, regressLoc)
}

func regressQiTx(withWork bool) *types.Transaction {
	in := &types.QiTx{ChainID: big.NewInt(1), Signature: nil, Data: nil,
		TxIn:  types.TxIns{{PreviousOutPoint: types.OutPoint{TxHash: common.Hash{1}, Index: 1}, PubKey: gen.PubKey(0)}},
		TxOut: types.TxOuts{{Denomination: 3, Address: regressAddr(9).Bytes(), Lock: big.NewInt(0)}}}
	if withWork {
		h := common.Hash{7}
		in.ParentHash = &h
	}
	return types.NewTx(in)
}

func regressPostForkHeader(ap *types.AuxPow, coinbase common.Address) *types.WorkObjectHeader {
	one := big.NewInt(1)
	ptn := new(big.Int).SetUint64(params.KawPowForkBlock + params.KawPowTransitionPeriod + 1)
	return types.NewWorkObjectHeader(common.Hash{1}, common.Hash{2}, big.NewInt(7), big.NewInt(8), ptn, common.Hash{3}, types.EncodeNonce(4), 0, 9, regressLoc, coinbase, nil,
		ap, types.NewPowShareDiffAndCount(one, one, one), types.NewPowShareDiffAndCount(one, one, one), one, one, one)
}

func regressAuxPow(auxPow2 []byte) *types.AuxPow {
	hdr := types.NewAuxPowHeader(types.NewRavencoinBlockHeader(1, [32]byte{1}, [32]byte{2}, 3, 4, 5))
	return types.NewAuxPow(types.Kawpow, hdr, auxPow2, make([]byte, 64), nil, []byte{1, 2, 3})
}

// TestC14_Regress_KnownFindings reproduces every listed finding on a fixed minimal input. A
// reproducer that no longer observes its defect reports nothing (the entry can then be closed).
func TestC14_Regress_KnownFindings(t *testing.T) {
	if stats.Shard() != 0 {
		return
	}
	stats.Exhaustive("regress")
	type repro struct {
		fp  string
		run func() (observed bool, msg string, dump map[string]any)
	}
	pbytes := func(m proto.Message) []byte { b, _ := proto.Marshal(m); return b }
	list := []repro{
		{fpQuaiRlpNilWork, func() (bool, string, map[string]any) {
			tx := types.NewTx(&types.QuaiTx{ChainID: big.NewInt(1)})
			b, _ := tx.MarshalBinary()
			err := new(types.Transaction).UnmarshalBinary(b)
			return err != nil, fmt.Sprintf("UnmarshalBinary(MarshalBinary(plain Quai tx)) = %v", err), map[string]any{"rlp": hx(b)}
		}},
		{fpQiRlpWorkDropped, func() (bool, string, map[string]any) {
			tx := regressQiTx(true)
			b, _ := tx.MarshalBinary()
			z := new(types.Transaction)
			if err := z.UnmarshalBinary(b); err != nil {
				return false, "", nil
			}
			return z.Hash() != tx.Hash() || z.ParentHash() != nil != (tx.ParentHash() != nil), fmt.Sprintf("Qi tx with ParentHash: hash %x -> %x over MarshalBinary/UnmarshalBinary, parentHash kept=%v", tx.Hash(), z.Hash(), z.ParentHash() != nil), map[string]any{"rlp": hx(b)}
		}},
		{fpRlpSizeCache, func() (bool, string, map[string]any) {
			to := regressAddr(2)
			tx := types.NewTx(&types.ExternalTx{To: &to, Sender: regressAddr(3), Value: big.NewInt(1)})
			b, _ := rlp.EncodeToBytes(tx)
			z := new(types.Transaction)
			if err := rlp.DecodeBytes(b, z); err != nil {
				return false, "", nil
			}
			return z.Size() != tx.Size(), fmt.Sprintf("ETX Size() %v, after rlp round trip %v", tx.Size(), z.Size()), map[string]any{"rlp": hx(b)}
		}},
		{fpQuaiJsonWorkNonce, func() (bool, string, map[string]any) {
			n := types.EncodeNonce(0x0102)
			tx := types.NewTx(&types.QuaiTx{ChainID: big.NewInt(1), WorkNonce: &n})
			jb, _ := tx.MarshalJSON()
			err := new(types.Transaction).UnmarshalJSON(jb)
			return err != nil, fmt.Sprintf("UnmarshalJSON(MarshalJSON(Quai tx with WorkNonce 0x0102)) = %v", err), map[string]any{"json": string(jb)}
		}},
		{fpQiJsonWorkDropped, func() (bool, string, map[string]any) {
			tx := regressQiTx(true)
			jb, _ := tx.MarshalJSON()
			err := new(types.Transaction).UnmarshalJSON(jb)
			return err != nil, fmt.Sprintf("UnmarshalJSON(MarshalJSON(Qi tx with ParentHash)) = %v", err), map[string]any{"json": string(jb)}
		}},
		{fpNilTxAddress, func() (bool, string, map[string]any) {
			tx := types.NewEmptyQuaiTx()
			b, _ := encTxProto(tx)
			y, err := decTxProto(b)
			if err != nil {
				return false, "", nil
			}
			b2, _ := encTxProto(y)
			return y.Hash() != tx.Hash() || !bytes.Equal(b, b2), fmt.Sprintf("NewEmptyQuaiTx(): hash %x -> %x, re-encoding equal=%v", tx.Hash(), y.Hash(), bytes.Equal(b, b2)), map[string]any{"proto": hx(b), "reencoded": hx(b2)}
		}},
		{fpNilCoinbase, func() (bool, string, map[string]any) {
			wo := types.EmptyWorkObject(common.ZONE_CTX)
			p, _ := wo.WorkObjectHeader().ProtoEncode()
			b := pbytes(p)
			y, err := decodeWoh(b, regressLoc)
			if err != nil {
				return false, "", nil
			}
			return y.SealHash() != wo.SealHash() || y.Hash() != wo.Hash(), fmt.Sprintf("EmptyWorkObject(zone) header: hash %x -> %x, seal %x -> %x", wo.Hash(), y.Hash(), wo.SealHash(), y.SealHash()), map[string]any{"proto": hx(b)}
		}},
		{fpAuxCopyNil, func() (bool, string, map[string]any) {
			wh := regressPostForkHeader(regressAuxPow(nil), regressAddr(1))
			p, _ := wh.ProtoEncode()
			b := pbytes(p)
			y, err := decodeWoh(b, regressLoc)
			if err != nil {
				return false, "", nil
			}
			cp := types.CopyWorkObjectHeader(y)
			return cp.Hash() != y.Hash(), fmt.Sprintf("decoded post-fork header without auxpow2: Hash() %x, CopyWorkObjectHeader().Hash() %x", y.Hash(), cp.Hash()), map[string]any{"proto": hx(b)}
		}},
		{fpAuxJSONNil, func() (bool, string, map[string]any) {
			wh := regressPostForkHeader(regressAuxPow(nil), regressAddr(1))
			jb, _ := json.Marshal(wh.RPCMarshalWorkObjectHeader("v2"))
			z := new(types.WorkObjectHeader)
			if err := z.UnmarshalJSON(jb); err != nil {
				return false, "", nil
			}
			return z.Hash() != wh.Hash(), fmt.Sprintf("v2 header without auxpow2: server hash %x, client-side hash after UnmarshalJSON %x", wh.Hash(), z.Hash()), map[string]any{"json": string(jb)}
		}},
		{fpTemplateNilSigs, func() (bool, string, map[string]any) {
			at := types.NewAuxTemplate()
			at.SetPowID(types.Kawpow)
			b := pbytes(at.ProtoEncode())
			y, err := decodeTemplateBytes(b)
			if err != nil {
				return false, "", nil
			}
			b2 := pbytes(y.ProtoEncode())
			return !bytes.Equal(b, b2), fmt.Sprintf("AuxTemplate without sigs: %x re-encodes as %x", b, b2), map[string]any{"proto": hx(b)}
		}},
		{fpHeaderMarshalJSON, func() (bool, string, map[string]any) {
			jb, _ := types.EmptyHeader().MarshalJSON()
			err := new(types.Header).UnmarshalJSON(jb)
			return err != nil, fmt.Sprintf("Header.UnmarshalJSON(EmptyHeader().MarshalJSON()) = %v", err), map[string]any{"json": string(jb)}
		}},
		{fpWohMarshalJSON, func() (bool, string, map[string]any) {
			wh := types.EmptyZoneWorkObject().WorkObjectHeader()
			jb, _ := wh.MarshalJSON()
			z := new(types.WorkObjectHeader)
			if err := z.UnmarshalJSON(jb); err != nil {
				return true, fmt.Sprintf("WorkObjectHeader.UnmarshalJSON(MarshalJSON()) = %v", err), map[string]any{"json": string(jb)}
			}
			return z.ParentHash() != wh.ParentHash(), fmt.Sprintf("EmptyZoneWorkObject header parentHash %x comes back as %x through MarshalJSON/UnmarshalJSON", wh.ParentHash(), z.ParentHash()), map[string]any{"json": string(jb)}
		}},
		{fpTerminiMarshalJSON, func() (bool, string, map[string]any) {
			jb, _ := types.EmptyTermini().MarshalJSON()
			var z types.Termini
			err := z.UnmarshalJSON(jb)
			return err != nil, fmt.Sprintf("Termini.UnmarshalJSON(EmptyTermini().MarshalJSON()) = %v", err), map[string]any{"json": string(jb)}
		}},
		{fpReceiptLocked, func() (bool, string, map[string]any) {
			db := newDB(regressLoc)
			r := &types.Receipt{Type: types.ExternalTxType, Status: types.ReceiptStatusLocked, GasUsed: 21000, TxHash: common.Hash{5}}
			rawdb.WriteReceipts(db, common.Hash{1}, 1, types.Receipts{r})
			got := rawdb.ReadRawReceipts(db, common.Hash{1}, 1)
			if len(got) != 1 {
				return false, "", nil
			}
			return got[0].Status != r.Status, fmt.Sprintf("receipt written with Status %d is read back with Status %d", r.Status, got[0].Status), nil
		}},
		{fpReceiptRlpEtxs, func() (bool, string, map[string]any) {
			to := regressAddr(2)
			etx := types.NewTx(&types.ExternalTx{To: &to, Sender: regressAddr(3), Value: big.NewInt(1)})
			r := &types.Receipt{Type: types.QuaiTxType, Status: types.ReceiptStatusSuccessful, OutboundEtxs: types.Transactions{etx}}
			b, _ := rlp.EncodeToBytes(r)
			var z types.Receipt
			if err := rlp.DecodeBytes(b, &z); err != nil {
				return false, "", nil
			}
			b2, _ := rlp.EncodeToBytes(&z)
			return !bytes.Equal(b, b2), fmt.Sprintf("receipt with 1 outbound ETX: decoded has %d, re-encoding equal=%v", len(z.OutboundEtxs), bytes.Equal(b, b2)), map[string]any{"rlp": hx(b)}
		}},
		{fpReceiptStorageRlp, func() (bool, string, map[string]any) {
			r := &types.Receipt{Status: types.ReceiptStatusSuccessful, GasUsed: 21000, TxHash: common.Hash{5}, ContractAddress: regressAddr(4)}
			b, _ := rlp.EncodeToBytes((*types.ReceiptForStorage)(r))
			var z types.ReceiptForStorage
			if err := rlp.DecodeBytes(b, &z); err != nil {
				return false, "", nil
			}
			return z.GasUsed != r.GasUsed || z.TxHash != r.TxHash, fmt.Sprintf("ReceiptForStorage RLP: gasUsed %d -> %d, txHash %x -> %x", r.GasUsed, z.GasUsed, r.TxHash, z.TxHash), map[string]any{"rlp": hx(b)}
		}},
		{fpFuzzShareCounter, func() (bool, string, map[string]any) {
			wh := regressPostForkHeader(nil, regressAddr(1))
			p, _ := wh.ProtoEncode()
			p.ShaDiffAndCount.Uncled = nil
			b := pbytes(p)
			y, err := decodeWoh(b, regressLoc)
			if err != nil {
				return false, "", nil
			}
			p2, _ := y.ProtoEncode()
			_, err = decodeWoh(pbytes(p2), regressLoc)
			return err != nil, fmt.Sprintf("header with sha counter lacking `uncled` decodes, its re-encoding does not: %v", err), map[string]any{"proto": hx(b)}
		}},
		{fpFuzzHeaderlessBody, func() (bool, string, map[string]any) {
			wo := types.EmptyZoneWorkObject()
			p, _ := wo.ProtoEncode(types.BlockObject)
			p.WoBody.Header = nil
			b := pbytes(p)
			y, err := decodeWo(b, regressLoc, types.BlockObject)
			if err != nil {
				return false, "", nil
			}
			_, err = y.ProtoEncode(types.BlockObject)
			return err != nil, fmt.Sprintf("block-view work object without body header decodes, re-encoding fails: %v", err), map[string]any{"proto": hx(b)}
		}},
		{fpFuzzQiBadPubKey, func() (bool, string, map[string]any) {
			mk := func(denom uint32, h byte) []byte {
				p, _ := regressQiTx(false).ProtoEncode()
				p.TxIns.TxIns[0].PubKey = append([]byte{4}, make([]byte, 64)...) // 65 bytes, not a curve point
				p.TxOuts.TxOuts[0].Denomination = &denom
				p.TxIns.TxIns[0].PreviousOutPoint.Hash = common.Hash{1, 2, 3, h}.ProtoEncode()
				return pbytes(p)
			}
			b1, b2 := mk(1, 9), mk(7, 200)
			y1, err1 := decTxProto(b1)
			y2, err2 := decTxProto(b2)
			if err1 != nil || err2 != nil {
				return false, "", nil
			}
			_, encErr := y1.ProtoEncode()
			return encErr != nil, fmt.Sprintf("Qi tx with a 65-byte non-curve-point key decodes, re-encoding fails (%v); two such transactions differing in outpoint and denomination share the hash: %x / %x", encErr, y1.Hash(), y2.Hash()), map[string]any{"proto1": hx(b1), "proto2": hx(b2)}
		}},
	}
	for _, r := range list {
		observed, msg, dump := r.run()
		labels := []string{r.fp}
		if observed {
			labels = append(labels, "observed")
			stats.Violation(t, "regress", r.fp, msg, dump)
		} else {
			labels = append(labels, "not_observed")
			t.Logf("finding %s is no longer reproduced", r.fp)
		}
		stats.Case("regress", r.fp, true, labels...)
	}
}
