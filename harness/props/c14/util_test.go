// C14 - encode/decode round trips preserve objects, bytes and identity (DESIGN.md §4 C14).
// Shared oracle helpers: accessor-wise comparison, proto helpers, rawdb wrapper.
package c14

import (
	"bytes"
	"encoding/hex"
	"fmt"
	"io"
	"math/big"
	"runtime"
	"sort"
	"strings"

	"github.com/dominant-strategies/go-quai/common"
	"github.com/dominant-strategies/go-quai/core/rawdb"
	"github.com/dominant-strategies/go-quai/core/types"
	"github.com/dominant-strategies/go-quai/crypto"
	"github.com/dominant-strategies/go-quai/ethdb"
	"github.com/dominant-strategies/go-quai/log"
	"github.com/dominant-strategies/go-quai/trie"
	"github.com/sirupsen/logrus"
	"google.golang.org/protobuf/proto"

	"verifharness/gen"
	"verifharness/stats"
)

func nullLogger() *log.Logger {
	l := logrus.New()
	l.SetOutput(io.Discard)
	l.SetLevel(logrus.PanicLevel)
	// rawdb accessors call Logger().Fatal on undecodable values; never let that exit the process
	l.ExitFunc = func(code int) { panic(fmt.Sprintf("logger.Fatal (exit %d)", code)) }
	return l
}

var logger = nullLogger()

// locDB is a memory database that reports the node location (memorydb returns nil).
type locDB struct {
	ethdb.Database
	loc common.Location
}

func (d locDB) Location() common.Location { return d.loc }

func newDB(loc common.Location) locDB { return locDB{rawdb.NewMemoryDatabase(logger), loc} }

// ---- reporting ---------------------------------------------------------------------------------

type ctx struct {
	t    stats.TB
	part string
	dump map[string]any
}

func newCtx(t stats.TB, part string) *ctx { return &ctx{t: t, part: part, dump: map[string]any{}} }

func (c *ctx) note(k string, v any) { c.dump[k] = v }

// fail reports a violation; returns true when the fingerprint is a listed known finding.
func (c *ctx) fail(fp, format string, a ...any) bool {
	return stats.Violation(c.t, c.part, fp, fmt.Sprintf(format, a...), c.dump)
}

// known reports (and counts) that the input class behind fp is excluded by construction.
func known(fp string) bool {
	if stats.IsKnown(fp) {
		stats.Excluded(fp)
		return true
	}
	return false
}

// dbFatal (deferred) turns a logger.Fatal raised inside a rawdb accessor into a violation and
// lets every other panic (rapid's own control flow included) pass.
func dbFatal(c *ctx) {
	if r := recover(); r != nil {
		if s, ok := r.(string); ok && strings.HasPrefix(s, "logger.Fatal") {
			c.fail("C14/db/fatal", "rawdb accessor aborted on a value it wrote itself: %v", r)
			return
		}
		panic(r)
	}
}

// codePanic (deferred at the top of every case) reports a Go runtime panic raised by the code
// under test - or by an accessor applied to an object a decoder returned - as a violation;
// rapid's own control-flow panics pass through.
func codePanic(c *ctx) {
	if r := recover(); r != nil {
		if re, ok := r.(runtime.Error); ok {
			c.fail("C14/"+c.part+"/runtime-panic", "runtime panic while encoding/decoding/inspecting a well-formed object: %v", re)
			return
		}
		panic(r)
	}
}

func hx(b []byte) string { return hex.EncodeToString(b) }

// ---- non-trivial rule --------------------------------------------------------------------------

var absentMarks = []string{"_nil", "_absent", "_empty", ":unsigned", ":no_", "_zero", ":tx_nil", ":empty", "prefork"}

// nontrivial: at least one optional field absent and one present, or a max-width integer.
func nontrivial(tags []string) bool {
	abs, pres := false, false
	for _, s := range tags {
		if s == "maxwidth" {
			return true
		}
		a := false
		for _, m := range absentMarks {
			if strings.Contains(s, m) {
				a = true
			}
		}
		if a {
			abs = true
		} else {
			pres = true
		}
	}
	return abs && pres
}

// zeroMask renders which of the given integers are zero (zero integers are encoded as present but
// empty byte strings - the "zero/empty vs absent" axis of the domain); part of the signatures.
func zeroMask(vals ...any) string {
	var sb strings.Builder
	for _, v := range vals {
		z := false
		switch x := v.(type) {
		case *big.Int:
			z = x == nil || x.Sign() == 0
		case uint64:
			z = x == 0
		case uint16:
			z = x == 0
		case uint8:
			z = x == 0
		case int:
			z = x == 0
		case []byte:
			z = len(x) == 0
		case common.Hash:
			z = x == common.Hash{}
		}
		if z {
			sb.WriteByte('0')
		} else {
			sb.WriteByte('1')
		}
	}
	return sb.String()
}

// ---- comparison --------------------------------------------------------------------------------

type diff struct{ l []string }

func (d *diff) addf(field, format string, a ...any) {
	d.l = append(d.l, field+": "+fmt.Sprintf(format, a...))
}
func (d *diff) eq(field string, a, b any) {
	if a != b {
		d.addf(field, "%v != %v", a, b)
	}
}
func (d *diff) bytes(field string, a, b []byte) { // nil and empty are the same value
	if !bytes.Equal(a, b) {
		d.addf(field, "%x != %x", a, b)
	}
}
func (d *diff) big(field string, a, b *big.Int) { // nil and zero are the same value
	if a == nil {
		a = new(big.Int)
	}
	if b == nil {
		b = new(big.Int)
	}
	if a.Cmp(b) != 0 {
		d.addf(field, "%v != %v", a, b)
	}
}
func (d *diff) bigStrict(field string, a, b *big.Int) {
	if (a == nil) != (b == nil) {
		d.addf(field, "presence %v != %v", a, b)
		return
	}
	d.big(field, a, b)
}
func (d *diff) addr(field string, a, b common.Address) { d.bytes(field, a.Bytes(), b.Bytes()) }
func (d *diff) addrPtr(field string, a, b *common.Address) {
	if (a == nil) != (b == nil) {
		d.addf(field, "presence %v != %v", a != nil, b != nil)
		return
	}
	if a != nil {
		d.addr(field, *a, *b)
	}
}
func (d *diff) hashPtr(field string, a, b *common.Hash) {
	if (a == nil) != (b == nil) {
		d.addf(field, "presence %v != %v", a != nil, b != nil)
		return
	}
	if a != nil && *a != *b {
		d.addf(field, "%x != %x", *a, *b)
	}
}
func (d *diff) hashes(field string, a, b []common.Hash) {
	if len(a) != len(b) {
		d.addf(field, "len %d != %d", len(a), len(b))
		return
	}
	for i := range a {
		if a[i] != b[i] {
			d.addf(fmt.Sprintf("%s[%d]", field, i), "%x != %x", a[i], b[i])
		}
	}
}
func (d *diff) byteLists(field string, a, b [][]byte) {
	if len(a) != len(b) {
		d.addf(field, "len %d != %d", len(a), len(b))
		return
	}
	for i := range a {
		d.bytes(fmt.Sprintf("%s[%d]", field, i), a[i], b[i])
	}
}
func (d *diff) String() string { return strings.Join(d.l, "; ") }

// fields lists the distinct field paths that differ (indices and derived hashes removed).
func (d *diff) fields() string {
	seen := map[string]bool{}
	for _, s := range d.l {
		f := s[:strings.Index(s, ":")]
		if strings.HasSuffix(f, "()") {
			continue
		}
		for {
			i := strings.Index(f, "[")
			j := strings.Index(f, "]")
			if i < 0 || j < i {
				break
			}
			f = f[:i] + f[j+1:]
		}
		seen[f] = true
	}
	return strings.Join(sortedKeys(seen), "+")
}
func (d *diff) ok() bool { return len(d.l) == 0 }

// dropDerived removes the derived-hash entries ("...Hash()"), keeping the field differences.
func (d *diff) dropDerived() {
	var keep []string
	for _, s := range d.l {
		if !strings.HasSuffix(s[:strings.Index(s, ":")], "()") {
			keep = append(keep, s)
		}
	}
	d.l = keep
}

// dropFields removes the entries of the named field paths (as rendered by fields()).
func (d *diff) dropFields(names ...string) {
	var keep []string
	for _, s := range d.l {
		f := s[:strings.Index(s, ":")]
		drop := false
		for _, n := range names {
			if f == n || strings.HasSuffix(f, "."+n) || strings.HasSuffix(f, "]"+n) {
				drop = true
			}
		}
		if !drop {
			keep = append(keep, s)
		}
	}
	d.l = keep
}

func (d *diff) accessList(field string, a, b types.AccessList) {
	if len(a) != len(b) {
		d.addf(field, "len %d != %d", len(a), len(b))
		return
	}
	for i := range a {
		d.addr(fmt.Sprintf("%s[%d].address", field, i), a[i].Address, b[i].Address)
		d.hashes(fmt.Sprintf("%s[%d].keys", field, i), a[i].StorageKeys, b[i].StorageKeys)
	}
}

func compressKey(pk []byte) []byte {
	if len(pk) == 65 {
		if p, err := crypto.UnmarshalPubkey(pk); err == nil {
			return crypto.CompressPubkey(p)
		}
	}
	return pk
}

// diffTx compares every accessor of two transactions. keysModuloCompression accepts a 33-byte
// and a 65-byte encoding of the same public key as equal (the proto codec canonicalises them).
func diffTx(d *diff, pfx string, a, b *types.Transaction, keysModuloCompression bool) {
	if (a == nil) != (b == nil) {
		d.addf(pfx, "presence %v != %v", a != nil, b != nil)
		return
	}
	if a == nil {
		return
	}
	if a.Type() != b.Type() {
		d.addf(pfx+"type", "%d != %d", a.Type(), b.Type())
		return
	}
	workFields := func() {
		d.hashPtr(pfx+"parentHash", a.ParentHash(), b.ParentHash())
		d.hashPtr(pfx+"mixHash", a.MixHash(), b.MixHash())
		an, bn := a.WorkNonce(), b.WorkNonce()
		if (an == nil) != (bn == nil) {
			d.addf(pfx+"workNonce", "presence %v != %v", an != nil, bn != nil)
		} else if an != nil && *an != *bn {
			d.addf(pfx+"workNonce", "%x != %x", *an, *bn)
		}
	}
	switch a.Type() {
	case types.QuaiTxType:
		d.big(pfx+"chainId", a.ChainId(), b.ChainId())
		d.eq(pfx+"nonce", a.Nonce(), b.Nonce())
		d.big(pfx+"gasPrice", a.GasPrice(), b.GasPrice())
		d.eq(pfx+"gas", a.Gas(), b.Gas())
		d.addrPtr(pfx+"to", a.To(), b.To())
		d.big(pfx+"value", a.Value(), b.Value())
		d.bytes(pfx+"data", a.Data(), b.Data())
		d.accessList(pfx+"accessList", a.AccessList(), b.AccessList())
		av, ar, as := a.GetEcdsaSignatureValues()
		bv, br, bs := b.GetEcdsaSignatureValues()
		d.big(pfx+"v", av, bv)
		d.big(pfx+"r", ar, br)
		d.big(pfx+"s", as, bs)
		workFields()
	case types.ExternalTxType:
		d.eq(pfx+"originatingTxHash", a.OriginatingTxHash(), b.OriginatingTxHash())
		d.eq(pfx+"etxIndex", a.ETXIndex(), b.ETXIndex())
		d.eq(pfx+"gas", a.Gas(), b.Gas())
		d.addrPtr(pfx+"to", a.To(), b.To())
		d.big(pfx+"value", a.Value(), b.Value())
		d.bytes(pfx+"data", a.Data(), b.Data())
		d.accessList(pfx+"accessList", a.AccessList(), b.AccessList())
		d.addr(pfx+"sender", a.ETXSender(), b.ETXSender())
		d.eq(pfx+"etxType", a.EtxType(), b.EtxType())
	case types.QiTxType:
		d.big(pfx+"chainId", a.ChainId(), b.ChainId())
		ai, bi := a.TxIn(), b.TxIn()
		if len(ai) != len(bi) {
			d.addf(pfx+"txIn", "len %d != %d", len(ai), len(bi))
		} else {
			for i := range ai {
				d.eq(fmt.Sprintf("%stxIn[%d].outpoint", pfx, i), ai[i].PreviousOutPoint, bi[i].PreviousOutPoint)
				if keysModuloCompression {
					d.bytes(fmt.Sprintf("%stxIn[%d].pubKey(compressed)", pfx, i), compressKey(ai[i].PubKey), compressKey(bi[i].PubKey))
				} else {
					d.bytes(fmt.Sprintf("%stxIn[%d].pubKey", pfx, i), ai[i].PubKey, bi[i].PubKey)
				}
			}
		}
		ao, bo := a.TxOut(), b.TxOut()
		if len(ao) != len(bo) {
			d.addf(pfx+"txOut", "len %d != %d", len(ao), len(bo))
		} else {
			for i := range ao {
				d.eq(fmt.Sprintf("%stxOut[%d].denomination", pfx, i), ao[i].Denomination, bo[i].Denomination)
				d.bytes(fmt.Sprintf("%stxOut[%d].address", pfx, i), ao[i].Address, bo[i].Address)
				d.big(fmt.Sprintf("%stxOut[%d].lock", pfx, i), ao[i].Lock, bo[i].Lock)
			}
		}
		d.bytes(pfx+"signature", a.GetSchnorrSignature().Serialize(), b.GetSchnorrSignature().Serialize())
		d.bytes(pfx+"data", a.Data(), b.Data())
		workFields()
	}
}

func diffTxs(d *diff, pfx string, a, b types.Transactions) {
	if len(a) != len(b) {
		d.addf(pfx, "len %d != %d", len(a), len(b))
		return
	}
	for i := range a {
		diffTx(d, fmt.Sprintf("%s[%d].", pfx, i), a[i], b[i], false)
	}
}

func diffHeader(d *diff, pfx string, a, b *types.Header) {
	if (a == nil) != (b == nil) {
		d.addf(pfx, "presence %v != %v", a != nil, b != nil)
		return
	}
	if a == nil {
		return
	}
	for i := 0; i < common.HierarchyDepth; i++ {
		d.eq(fmt.Sprintf("%smanifestHash[%d]", pfx, i), a.ManifestHash(i), b.ManifestHash(i))
		d.big(fmt.Sprintf("%sparentEntropy[%d]", pfx, i), a.ParentEntropy(i), b.ParentEntropy(i))
		d.big(fmt.Sprintf("%sparentDeltaEntropy[%d]", pfx, i), a.ParentDeltaEntropy(i), b.ParentDeltaEntropy(i))
		d.big(fmt.Sprintf("%sparentUncledDeltaEntropy[%d]", pfx, i), a.ParentUncledDeltaEntropy(i), b.ParentUncledDeltaEntropy(i))
	}
	for i := 0; i < common.HierarchyDepth-1; i++ {
		d.eq(fmt.Sprintf("%sparentHash[%d]", pfx, i), a.ParentHash(i), b.ParentHash(i))
		d.big(fmt.Sprintf("%snumber[%d]", pfx, i), a.Number(i), b.Number(i))
	}
	d.eq(pfx+"uncleHash", a.UncleHash(), b.UncleHash())
	d.eq(pfx+"evmRoot", a.EVMRoot(), b.EVMRoot())
	d.eq(pfx+"utxoRoot", a.UTXORoot(), b.UTXORoot())
	d.eq(pfx+"txHash", a.TxHash(), b.TxHash())
	d.eq(pfx+"outboundEtxHash", a.OutboundEtxHash(), b.OutboundEtxHash())
	d.eq(pfx+"etxSetRoot", a.EtxSetRoot(), b.EtxSetRoot())
	d.eq(pfx+"etxRollupHash", a.EtxRollupHash(), b.EtxRollupHash())
	d.eq(pfx+"receiptHash", a.ReceiptHash(), b.ReceiptHash())
	d.eq(pfx+"primeTerminusHash", a.PrimeTerminusHash(), b.PrimeTerminusHash())
	d.eq(pfx+"interlinkRootHash", a.InterlinkRootHash(), b.InterlinkRootHash())
	d.eq(pfx+"etxEligibleSlices", a.EtxEligibleSlices(), b.EtxEligibleSlices())
	d.eq(pfx+"primeStateRoot", a.PrimeStateRoot(), b.PrimeStateRoot())
	d.eq(pfx+"regionStateRoot", a.RegionStateRoot(), b.RegionStateRoot())
	d.big(pfx+"quaiStateSize", a.QuaiStateSize(), b.QuaiStateSize())
	d.big(pfx+"uncledEntropy", a.UncledEntropy(), b.UncledEntropy())
	d.big(pfx+"baseFee", a.BaseFee(), b.BaseFee())
	d.big(pfx+"exchangeRate", a.ExchangeRate(), b.ExchangeRate())
	d.big(pfx+"avgTxFees", a.AvgTxFees(), b.AvgTxFees())
	d.big(pfx+"totalFees", a.TotalFees(), b.TotalFees())
	d.big(pfx+"kQuaiDiscount", a.KQuaiDiscount(), b.KQuaiDiscount())
	d.big(pfx+"conversionFlowAmount", a.ConversionFlowAmount(), b.ConversionFlowAmount())
	d.big(pfx+"minerDifficulty", a.MinerDifficulty(), b.MinerDifficulty())
	d.eq(pfx+"gasLimit", a.GasLimit(), b.GasLimit())
	d.eq(pfx+"gasUsed", a.GasUsed(), b.GasUsed())
	d.eq(pfx+"stateLimit", a.StateLimit(), b.StateLimit())
	d.eq(pfx+"stateUsed", a.StateUsed(), b.StateUsed())
	d.eq(pfx+"efficiencyScore", a.EfficiencyScore(), b.EfficiencyScore())
	d.eq(pfx+"thresholdCount", a.ThresholdCount(), b.ThresholdCount())
	d.eq(pfx+"expansionNumber", a.ExpansionNumber(), b.ExpansionNumber())
	d.bytes(pfx+"extra", a.Extra(), b.Extra())
	d.eq(pfx+"Hash()", a.Hash(), b.Hash())
}

func diffAuxPow(d *diff, pfx string, a, b *types.AuxPow) {
	if (a == nil) != (b == nil) {
		d.addf(pfx, "presence %v != %v", a != nil, b != nil)
		return
	}
	if a == nil {
		return
	}
	d.eq(pfx+"powID", a.PowID(), b.PowID())
	d.bytes(pfx+"auxPow2", a.AuxPow2(), b.AuxPow2())
	d.bytes(pfx+"signature", a.Signature(), b.Signature())
	d.byteLists(pfx+"merkleBranch", a.MerkleBranch(), b.MerkleBranch())
	d.bytes(pfx+"transaction", a.Transaction(), b.Transaction())
	ah, bh := a.Header(), b.Header()
	if (ah == nil) != (bh == nil) {
		d.addf(pfx+"header", "presence %v != %v", ah != nil, bh != nil)
		return
	}
	if ah == nil {
		return
	}
	d.bytes(pfx+"header.bytes", ah.Bytes(), bh.Bytes())
	d.eq(pfx+"header.version", ah.Version(), bh.Version())
	d.eq(pfx+"header.prevBlock", ah.PrevBlock(), bh.PrevBlock())
	d.eq(pfx+"header.merkleRoot", ah.MerkleRoot(), bh.MerkleRoot())
	d.eq(pfx+"header.timestamp", ah.Timestamp(), bh.Timestamp())
	d.eq(pfx+"header.bits", ah.Bits(), bh.Bits())
	d.eq(pfx+"header.nonce", ah.Nonce(), bh.Nonce())
	d.eq(pfx+"header.nonce64", ah.Nonce64(), bh.Nonce64())
	d.eq(pfx+"header.height", ah.Height(), bh.Height())
	d.eq(pfx+"header.mixHash", ah.MixHash(), bh.MixHash())
	d.eq(pfx+"header.sealHash", ah.SealHash(), bh.SealHash())
	d.eq(pfx+"header.blockHash", ah.BlockHash(), bh.BlockHash())
	d.eq(pfx+"header.powHash", ah.PowHash(), bh.PowHash())
}

func diffDC(d *diff, pfx string, a, b *types.PowShareDiffAndCount) {
	d.bigStrict(pfx+".difficulty", a.Difficulty(), b.Difficulty())
	d.bigStrict(pfx+".count", a.Count(), b.Count())
	d.bigStrict(pfx+".uncled", a.Uncled(), b.Uncled())
}

// diffWoh compares work object headers. forkFields=false skips the fork-only fields (they are
// not part of the pre-fork encoding).
func diffWoh(d *diff, pfx string, a, b *types.WorkObjectHeader, forkFields bool) {
	if (a == nil) != (b == nil) {
		d.addf(pfx, "presence %v != %v", a != nil, b != nil)
		return
	}
	if a == nil {
		return
	}
	d.eq(pfx+"headerHash", a.HeaderHash(), b.HeaderHash())
	d.eq(pfx+"parentHash", a.ParentHash(), b.ParentHash())
	d.big(pfx+"number", a.Number(), b.Number())
	d.big(pfx+"difficulty", a.Difficulty(), b.Difficulty())
	d.big(pfx+"primeTerminusNumber", a.PrimeTerminusNumber(), b.PrimeTerminusNumber())
	d.eq(pfx+"txHash", a.TxHash(), b.TxHash())
	d.addr(pfx+"primaryCoinbase", a.PrimaryCoinbase(), b.PrimaryCoinbase())
	d.bytes(pfx+"location", a.Location(), b.Location())
	d.eq(pfx+"mixHash", a.MixHash(), b.MixHash())
	d.eq(pfx+"time", a.Time(), b.Time())
	d.eq(pfx+"nonce", a.Nonce(), b.Nonce())
	d.bytes(pfx+"data", a.Data(), b.Data())
	d.eq(pfx+"lock", a.Lock(), b.Lock())
	if forkFields {
		diffAuxPow(d, pfx+"auxPow.", a.AuxPow(), b.AuxPow())
		diffDC(d, pfx+"scryptDiffAndCount", a.ScryptDiffAndCount(), b.ScryptDiffAndCount())
		diffDC(d, pfx+"shaDiffAndCount", a.ShaDiffAndCount(), b.ShaDiffAndCount())
		d.bigStrict(pfx+"shaShareTarget", a.ShaShareTarget(), b.ShaShareTarget())
		d.bigStrict(pfx+"scryptShareTarget", a.ScryptShareTarget(), b.ScryptShareTarget())
		d.bigStrict(pfx+"kawpowDifficulty", a.KawpowDifficulty(), b.KawpowDifficulty())
	}
	d.eq(pfx+"SealHash()", a.SealHash(), b.SealHash())
	d.eq(pfx+"Hash()", a.Hash(), b.Hash())
}

func preforkWithForkFields(wh *types.WorkObjectHeader) bool {
	return !wh.KawpowActivationHappened() && (wh.ShaShareTarget() != nil || wh.KawpowDifficulty() != nil || wh.ShaDiffAndCount().Difficulty() != nil)
}

func diffUncles(d *diff, pfx string, a, b []*types.WorkObjectHeader) {
	if len(a) != len(b) {
		d.addf(pfx, "len %d != %d", len(a), len(b))
		return
	}
	for i := range a {
		diffWoh(d, fmt.Sprintf("%s[%d].", pfx, i), a[i], b[i], !preforkWithForkFields(a[i]))
	}
}

type bodyParts struct{ header, txs, etxs, uncles, manifest, interlink bool }

var fullBody = bodyParts{true, true, true, true, true, true}

func diffBody(d *diff, pfx string, a, b *types.WorkObjectBody, p bodyParts) {
	if p.header {
		diffHeader(d, pfx+"header.", a.Header(), b.Header())
	}
	if p.txs {
		diffTxs(d, pfx+"transactions", a.Transactions(), b.Transactions())
	}
	if p.etxs {
		diffTxs(d, pfx+"outboundEtxs", a.OutboundEtxs(), b.OutboundEtxs())
	}
	if p.uncles {
		diffUncles(d, pfx+"uncles", a.Uncles(), b.Uncles())
	}
	if p.manifest {
		d.hashes(pfx+"manifest", a.Manifest(), b.Manifest())
	}
	if p.interlink {
		d.hashes(pfx+"interlinkHashes", a.InterlinkHashes(), b.InterlinkHashes())
	}
}

func diffWo(d *diff, pfx string, a, b *types.WorkObject, p bodyParts, withTx bool) {
	diffWoh(d, pfx+"woHeader.", a.WorkObjectHeader(), b.WorkObjectHeader(), !preforkWithForkFields(a.WorkObjectHeader()))
	diffBody(d, pfx+"woBody.", a.Body(), b.Body(), p)
	if withTx {
		diffTx(d, pfx+"tx.", a.Tx(), b.Tx(), false)
	}
}

func diffTermini(d *diff, pfx string, a, b types.Termini) {
	d.hashes(pfx+"domTermini", a.DomTermini(), b.DomTermini())
	d.hashes(pfx+"subTermini", a.SubTermini(), b.SubTermini())
}

// ---- derived identities --------------------------------------------------------------------------

func txRoot(txs types.Transactions) common.Hash { return types.DeriveSha(txs, trie.NewStackTrie(nil)) }

// addressTyping checks the location dependent part of address decoding: an address decoded for
// node location loc is internal exactly when its bytes are in the scope of loc.
func addressTyping(c *ctx, what string, a common.Address, loc common.Location) {
	if len(a.Bytes()) == 0 {
		return
	}
	_, err := a.InternalAddress()
	if (err == nil) != common.IsInChainScope(a.Bytes(), loc) {
		c.fail("C14/address-typing/"+what, "%s %x decoded for location %v: internal=%v but in scope=%v", what, a.Bytes(), loc, err == nil, common.IsInChainScope(a.Bytes(), loc))
	}
}

func mustMarshal(c *ctx, m proto.Message) []byte {
	b, err := proto.Marshal(m)
	if err != nil {
		c.t.Fatalf("HARNESS: proto.Marshal: %v", err)
	}
	return b
}

func sortedKeys(m map[string]bool) []string {
	var l []string
	for k := range m {
		l = append(l, k)
	}
	sort.Strings(l)
	return l
}

var _ = gen.NumKeys
