package c14

import (
	"bytes"
	"encoding/json"
	"fmt"
	"math/big"
	"strings"
	"testing"

	"github.com/dominant-strategies/go-quai/common"
	"github.com/dominant-strategies/go-quai/core/rawdb"
	"github.com/dominant-strategies/go-quai/core/types"
	"github.com/dominant-strategies/go-quai/crypto"
	"github.com/dominant-strategies/go-quai/params"
	"github.com/dominant-strategies/go-quai/rlp"
	"github.com/dominant-strategies/go-quai/trie"
	"google.golang.org/protobuf/proto"
	"pgregory.net/rapid"

	"verifharness/gen"
	"verifharness/stats"
)

func diffLog(d *diff, pfx string, a, b *types.Log) {
	d.addr(pfx+"address", a.Address, b.Address)
	d.hashes(pfx+"topics", a.Topics, b.Topics)
	d.bytes(pfx+"data", a.Data, b.Data)
}

// diffReceipt compares the stored fields of a receipt (consensus + implementation fields).
func diffReceipt(d *diff, pfx string, a, b *types.Receipt) {
	d.eq(pfx+"status", a.Status, b.Status)
	d.bytes(pfx+"postState", a.PostState, b.PostState)
	d.eq(pfx+"cumulativeGasUsed", a.CumulativeGasUsed, b.CumulativeGasUsed)
	d.eq(pfx+"bloom", a.Bloom, b.Bloom)
	d.eq(pfx+"txHash", a.TxHash, b.TxHash)
	d.addr(pfx+"contractAddress", a.ContractAddress, b.ContractAddress)
	d.eq(pfx+"gasUsed", a.GasUsed, b.GasUsed)
	if len(a.Logs) != len(b.Logs) {
		d.addf(pfx+"logs", "len %d != %d", len(a.Logs), len(b.Logs))
	} else {
		for i := range a.Logs {
			diffLog(d, fmt.Sprintf("%slogs[%d].", pfx, i), a.Logs[i], b.Logs[i])
		}
	}
	diffTxs(d, pfx+"outboundEtxs", a.OutboundEtxs, b.OutboundEtxs)
}

func receiptRoot(rs types.Receipts) common.Hash { return types.DeriveSha(rs, trie.NewStackTrie(nil)) }

func diffUtxo(d *diff, pfx string, a, b *types.UtxoEntry) {
	if (a == nil) != (b == nil) {
		d.addf(pfx, "presence %v != %v", a != nil, b != nil)
		return
	}
	d.eq(pfx+"denomination", a.Denomination, b.Denomination)
	d.bytes(pfx+"address", a.Address, b.Address)
	d.big(pfx+"lock", a.Lock, b.Lock)
}

func TestC14_Storage(t *testing.T) {
	rapid.Check(t, func(t *rapid.T) {
		c := newCtx(t, "storage")
		defer codePanic(c)
		g := &gen.Tags{}
		loc := gen.Location(t, "loc")
		db := newDB(loc)
		defer dbFatal(c)
		switch rapid.IntRange(0, 6).Draw(t, "what") {
		case 0, 1: // receipts: storage proto, consensus RLP, JSON
			g.Add("receipts")
			rs := gen.Receipts(t, loc, true, g)
			root0 := receiptRoot(rs)
			b1 := rs.Bytes(logger)
			c.note("proto", hx(b1))
			if !bytes.Equal(b1, rs.Bytes(logger)) {
				c.fail("C14/receipts/nondeterministic", "two storage encodings differ")
			}
			hash, number := gen.Hash(t, "blockhash"), gen.U64(t, "blocknumber")
			rawdb.WriteReceipts(db, hash, number, rs)
			got := rawdb.ReadRawReceipts(db, hash, number)
			if got == nil || len(got) != len(rs) {
				c.fail("C14/db/receipts/missing", "ReadRawReceipts returned %d receipts, wrote %d", len(got), len(rs))
				break
			}
			for i := range rs {
				d := &diff{}
				diffReceipt(d, fmt.Sprintf("[%d].", i), rs[i], got[i])
				locked := rs[i].Status == types.ReceiptStatusLocked
				if locked && known(fpReceiptLocked) {
					d.dropFields("status") // exactly the known class: the other stored fields are still compared
				}
				if !d.ok() {
					fp := "C14/db/receipts/accessors"
					if locked && d.fields() == ".status" {
						fp = fpReceiptLocked
					}
					c.fail(fp, "receipt differs through the database: %s", d)
				}
				addressTyping(c, "receipt.contract", got[i].ContractAddress, loc)
			}
			receiptsWithBody(c, g, t, loc)
			for i := range got {
				got[i].Type = rs[i].Type // not stored: DeriveFields restores it from the block's transactions
			}
			if root := receiptRoot(got); root != root0 {
				c.fail("C14/db/receipts/root", "receipt root changed through the database: %x -> %x", root0, root)
			}
			if b2 := got.Bytes(logger); !bytes.Equal(b1, b2) {
				c.fail("C14/db/receipts/reencode", "re-encoding stored receipts differs")
			}
			// consensus RLP of a single receipt (what DeriveSha hashes): decode must restore the consensus fields
			r := rs[0]
			enc, err := rlp.EncodeToBytes(r)
			if err != nil {
				c.fail("C14/receipt/rlp/encode-error", "%v", err)
				break
			}
			if keep := append([]byte(nil), enc...); true {
				disturbEncoders()
				if !bytes.Equal(enc, keep) {
					c.fail("C14/receipt/rlp/encoding-not-stable", "the bytes returned by rlp.EncodeToBytes(receipt) changed while other objects were encoded: %x -> %x", keep, enc)
					enc = keep
				}
			}
			var rr types.Receipt
			if err := rlp.DecodeBytes(enc, &rr); err != nil {
				c.fail("C14/receipt/rlp/decode-error", "rlp decode of an encoded receipt failed: %v", err)
				break
			}
			d := &diff{}
			d.eq("type", r.Type, rr.Type)
			d.eq("cumulativeGasUsed", r.CumulativeGasUsed, rr.CumulativeGasUsed)
			d.eq("bloom", r.Bloom, rr.Bloom)
			d.eq("status", r.Status, rr.Status)
			if r.Status == types.ReceiptStatusLocked && known(fpReceiptLocked) {
				d.dropFields("status")
			}
			if len(r.Logs) != len(rr.Logs) {
				d.addf("logs", "len %d != %d", len(r.Logs), len(rr.Logs))
			} else {
				for i := range r.Logs {
					diffLog(d, fmt.Sprintf("logs[%d].", i), r.Logs[i], rr.Logs[i])
				}
			}
			if !d.ok() {
				fp := "C14/receipt/rlp/accessors"
				if r.Status == types.ReceiptStatusLocked && d.fields() == "status" {
					fp = fpReceiptLocked
				}
				c.fail(fp, "consensus RLP round trip of a receipt differs: %s", d)
			}
			if len(r.OutboundEtxs) > 0 && known(fpReceiptRlpEtxs) {
				g.Add("receipt:rlp_reencode_excluded")
			} else if len(r.OutboundEtxs) > 0 && len(rr.OutboundEtxs) != len(r.OutboundEtxs) {
				c.fail(fpReceiptRlpEtxs, "Receipt.DecodeRLP drops the %d outbound ETXs that EncodeRLP wrote", len(r.OutboundEtxs))
			} else if enc2, _ := rlp.EncodeToBytes(&rr); !bytes.Equal(enc, enc2) {
				c.fail("C14/receipt/rlp/reencode", "consensus RLP re-encoding differs")
			}
			jsonReceipt(c, g, r)
			// legacy storage RLP (ReceiptForStorage.EncodeRLP / DecodeRLP)
			if senc, err := rlp.EncodeToBytes((*types.ReceiptForStorage)(r)); err != nil {
				c.fail("C14/receiptforstorage/rlp/encode-error", "%v", err)
			} else {
				var sr types.ReceiptForStorage
				if err := rlp.DecodeBytes(senc, &sr); err != nil {
					c.fail("C14/receiptforstorage/rlp/decode-error", "%v", err)
				} else {
					d := &diff{}
					diffReceipt(d, "", r, (*types.Receipt)(&sr))
					if r.Status == types.ReceiptStatusLocked {
						d.dropFields("status") // same status collapse as on the proto path (fpReceiptLocked)
					}
					if known(fpReceiptStorageRlp) {
						d.dropFields("txHash", "contractAddress", "gasUsed") // the known class; the rest is still compared
					}
					if f := d.fields(); f != "" {
						fp := "C14/receiptforstorage/rlp/accessors"
						if rest := strings.Trim(strings.NewReplacer("txHash", "", "contractAddress", "", "gasUsed", "").Replace(f), "+"); rest == "" {
							// EncodeRLP never fills TxHash, ContractAddress and GasUsed of the stored form
							fp = fpReceiptStorageRlp
						}
						c.fail(fp, "storage RLP round trip of a receipt differs: %s", d)
					}
				}
			}
		case 2: // logs
			g.Add("log")
			l := gen.Log(t, "log", loc)
			enc, err := rlp.EncodeToBytes(l)
			if err != nil {
				c.fail("C14/log/rlp/encode-error", "%v", err)
				break
			}
			var ll types.Log
			if err := rlp.DecodeBytes(enc, &ll); err != nil {
				c.fail("C14/log/rlp/decode-error", "%v", err)
				break
			}
			d := &diff{}
			diffLog(d, "", l, &ll)
			if !d.ok() {
				c.fail("C14/log/rlp/accessors", "log RLP round trip differs: %s", d)
			}
			if enc2, _ := rlp.EncodeToBytes(&ll); !bytes.Equal(enc, enc2) {
				c.fail("C14/log/rlp/reencode", "log RLP re-encoding differs")
			}
			l.BlockNumber, l.TxHash, l.TxIndex, l.BlockHash, l.Index = gen.U64(t, "bn"), gen.Hash(t, "th"), uint(gen.U32(t, "ti")), gen.Hash(t, "bh"), uint(gen.U32(t, "li"))
			l.Removed = rapid.Bool().Draw(t, "removed")
			jb, err := l.MarshalJSON()
			if err != nil {
				c.fail("C14/log/json/encode-error", "%v", err)
				break
			}
			var jl types.Log
			if err := jl.UnmarshalJSON(jb); err != nil {
				c.fail("C14/log/json/decode-error", "Log.UnmarshalJSON(MarshalJSON) failed: %v (%s)", err, jb)
				break
			}
			d = &diff{}
			diffLog(d, "", l, &jl)
			d.eq("blockNumber", l.BlockNumber, jl.BlockNumber)
			d.eq("txHash", l.TxHash, jl.TxHash)
			d.eq("txIndex", l.TxIndex, jl.TxIndex)
			d.eq("blockHash", l.BlockHash, jl.BlockHash)
			d.eq("index", l.Index, jl.Index)
			d.eq("removed", l.Removed, jl.Removed)
			if !d.ok() {
				c.fail("C14/log/json/accessors", "log JSON round trip differs: %s", d)
			}
			if jb2, _ := jl.MarshalJSON(); !bytes.Equal(jb, jb2) {
				c.fail("C14/log/json/reencode", "log JSON re-encoding differs")
			}
		case 3: // UTXO entries
			g.Add("utxo")
			e := gen.UtxoEntry(t, "utxo", loc, g)
			txh, idx := gen.Hash(t, "txhash"), gen.U16(t, "idx")
			h0 := types.UTXOHash(txh, idx, e)
			if err := rawdb.CreateUTXO(db, txh, idx, e); err != nil {
				c.fail("C14/db/utxo/write-error", "%v", err)
				break
			}
			got := rawdb.GetUTXO(db, txh, idx)
			d := &diff{}
			diffUtxo(d, "", e, got)
			if !d.ok() {
				c.fail("C14/db/utxo/accessors", "UTXO entry differs through the database: %s", d)
			} else if h1 := types.UTXOHash(txh, idx, got); h1 != h0 {
				c.fail("C14/db/utxo/hash", "UTXOHash changed through the database: %x -> %x", h0, h1)
			}
			// the same output seen as a TxOut (block body) and as a UtxoEntry (set) must hash alike
			o := types.TxOut{Denomination: e.Denomination, Address: e.Address, Lock: e.Lock}
			po, _ := o.ProtoEncode()
			ob := mustMarshal(c, po)
			p2 := new(types.ProtoTxOut)
			proto.Unmarshal(ob, p2)
			var o2 types.TxOut
			if err := o2.ProtoDecode(p2); err != nil {
				c.fail("C14/txout/decode-error", "%v", err)
			} else if h2 := types.UTXOHash(txh, idx, types.NewUtxoEntry(&o2)); h2 != h0 {
				c.fail("C14/txout/utxohash", "UTXOHash of a decoded TxOut differs: %x -> %x", h0, h2)
			}
			// spent UTXO journal
			n := rapid.IntRange(0, 3).Draw(t, "nspent")
			var spent []*types.SpentUtxoEntry
			for i := 0; i < n; i++ {
				spent = append(spent, gen.SpentUtxoEntry(t, fmt.Sprintf("spent%d", i), loc, g))
			}
			bh := gen.Hash(t, "blockhash")
			if err := rawdb.WriteSpentUTXOs(db, bh, spent); err != nil {
				c.fail("C14/db/spent/write-error", "%v", err)
				break
			}
			gs, err := rawdb.ReadSpentUTXOs(db, bh)
			if err != nil || len(gs) != len(spent) {
				c.fail("C14/db/spent/read", "ReadSpentUTXOs: %v, %d entries want %d", err, len(gs), len(spent))
				break
			}
			d = &diff{}
			for i := range spent {
				d.eq(fmt.Sprintf("spent[%d].outpoint", i), spent[i].OutPoint, gs[i].OutPoint)
				diffUtxo(d, fmt.Sprintf("spent[%d].", i), spent[i].UtxoEntry, gs[i].UtxoEntry)
			}
			if !d.ok() {
				c.fail("C14/db/spent/accessors", "spent UTXOs differ through the database: %s", d)
			}
		case 4: // address outpoint index
			g.Add("outpoints")
			n := rapid.IntRange(1, 4).Draw(t, "nout")
			var ops []*types.OutpointAndDenomination
			for i := 0; i < n; i++ {
				ops = append(ops, gen.OutpointAndDenomination(t, fmt.Sprintf("op%d", i), g))
			}
			addr := gen.AddressBytes(t, "addr", loc)
			if err := rawdb.WriteAddressUTXOs(db, db, map[[20]byte][]*types.OutpointAndDenomination{addr: ops}); err != nil {
				c.fail("C14/db/outpoints/write-error", "%v", err)
				break
			}
			got, err := rawdb.ReadAddressUTXOs(db, addr)
			if err != nil || len(got) != len(ops) {
				c.fail("C14/db/outpoints/read", "ReadAddressUTXOs: %v, %d entries want %d", err, len(got), len(ops))
				break
			}
			d := &diff{}
			for i := range ops {
				d.eq(fmt.Sprintf("[%d].txHash", i), ops[i].TxHash, got[i].TxHash)
				d.eq(fmt.Sprintf("[%d].index", i), ops[i].Index, got[i].Index)
				d.eq(fmt.Sprintf("[%d].denomination", i), ops[i].Denomination, got[i].Denomination)
				d.big(fmt.Sprintf("[%d].lock", i), ops[i].Lock, got[i].Lock)
			}
			if !d.ok() {
				c.fail("C14/db/outpoints/accessors", "address outpoints differ through the database: %s", d)
			}
			// JSON of a single outpoint (RPC)
			if jb, err := json.Marshal(struct {
				TxHash       common.Hash `json:"txHash"`
				Index        string      `json:"index"`
				Denomination string      `json:"denomination"`
				Lock         string      `json:"lock"`
			}{ops[0].TxHash, fmt.Sprintf("0x%x", ops[0].Index), fmt.Sprintf("0x%x", ops[0].Denomination), "0x" + bigHex(ops[0])}); err == nil {
				var jo types.OutpointAndDenomination
				if err := jo.UnmarshalJSON(jb); err != nil {
					c.fail("C14/outpoint/json/decode-error", "%v (%s)", err, jb)
				} else if jo.TxHash != ops[0].TxHash || jo.Index != ops[0].Index || jo.Denomination != ops[0].Denomination {
					c.fail("C14/outpoint/json/accessors", "outpoint JSON decode differs")
				}
			}
		case 5: // token choice set (types.Betas has no producer or consumer in the repository and is left out)
			g.Add("tokenchoices")
			s := gen.TokenChoiceSet(t, "tcs")
			bh := gen.Hash(t, "blockhash")
			if err := rawdb.WriteTokenChoicesSet(db, bh, s); err != nil {
				c.fail("C14/db/tokenchoices/write-error", "%v", err)
				break
			}
			got := rawdb.ReadTokenChoicesSet(db, bh)
			if got == nil {
				c.fail("C14/db/tokenchoices/missing", "ReadTokenChoicesSet returns nil")
				break
			}
			for i := range s {
				if s[i].Quai != got[i].Quai || s[i].Qi != got[i].Qi || s[i].Diff.Cmp(got[i].Diff) != 0 {
					c.fail("C14/db/tokenchoices/accessors", "token choice %d differs: %+v vs %+v", i, s[i], got[i])
					break
				}
			}
			p1, _ := s.ProtoEncode()
			p2, _ := got.ProtoEncode()
			if !bytes.Equal(mustMarshal(c, p1), mustMarshal(c, p2)) {
				c.fail("C14/db/tokenchoices/reencode", "re-encoding differs")
			}
		default: // hash lists, bloom, etx set
			g.Add("lists")
			hs := common.Hashes(gen.Hashes(t, "hashes", 5))
			d := &diff{}
			rawdb.WriteHeadsHashes(db, hs)
			d.hashes("headsHashes", hs, rawdb.ReadHeadsHashes(db))
			rawdb.WriteBadHashesList(db, hs)
			d.hashes("badHashes", hs, rawdb.ReadBadHashesList(db))
			rawdb.WriteGenesisHashes(db, hs)
			d.hashes("genesisHashes", hs, rawdb.ReadGenesisHashes(db))
			rawdb.WritePbBodyKeys(db, hs)
			d.hashes("pbBodyKeys", hs, rawdb.ReadPbBodyKeys(db))
			var bloom types.Bloom
			copy(bloom[:], gen.Blob(t, "bloom", len(bloom)))
			bh := gen.Hash(t, "blockhash")
			rawdb.WriteBloom(db, bh, bloom)
			if gb := rawdb.ReadBloom(db, bh); gb == nil || *gb != bloom {
				d.addf("bloom", "differs")
			}
			set := types.NewEtxSet()
			set.ETXHashes = gen.Blob(t, "etxset", 32*rapid.IntRange(0, 3).Draw(t, "netx"))
			eb := mustMarshal(c, set.ProtoEncode())
			pe := new(types.ProtoEtxSet)
			proto.Unmarshal(eb, pe)
			set2 := types.NewEtxSet()
			set2.ProtoDecode(pe)
			if set.Hash() != set2.Hash() || set.Len() != set2.Len() {
				d.addf("etxSet", "hash/len differ")
			}
			if !d.ok() {
				c.fail("C14/db/lists", "lists differ through the database: %s", d)
			}
		}
		tags := g.List()
		stats.Case("storage", g.Sig(), nontrivial(tags) || len(tags) > 1, tags...)
	})
}

func bigHex(o *types.OutpointAndDenomination) string {
	if o.Lock == nil {
		return "0"
	}
	return o.Lock.Text(16)
}

func jsonReceipt(c *ctx, g *gen.Tags, r *types.Receipt) {
	// The gencodec pair is only defined for receipts with a contract address and a non-nil
	// log list: json.Marshal rejects the zero-value common.Address (its MarshalJSON returns no
	// bytes) and UnmarshalJSON requires "logs". The RPC server does not use MarshalJSON.
	if len(r.ContractAddress.Bytes()) == 0 || r.Logs == nil {
		g.Add("receipt:json_undefined")
		return
	}
	rc := *r
	jb, err := rc.MarshalJSON()
	if err != nil {
		c.fail("C14/receipt/json/encode-error", "Receipt.MarshalJSON failed: %v", err)
		return
	}
	var jr types.Receipt
	if err := jr.UnmarshalJSON(jb); err != nil {
		c.fail("C14/receipt/json/decode-error", "Receipt.UnmarshalJSON(MarshalJSON) failed: %v (%s)", err, jb)
		return
	}
	d := &diff{}
	diffReceipt(d, "", &rc, &jr)
	d.eq("type", rc.Type, jr.Type)
	if !d.ok() {
		c.fail("C14/receipt/json/accessors", "receipt JSON round trip differs: %s", d)
	}
	g.Add("receipt:json")
}

// receiptsWithBody: the full read path (rawdb.ReadReceipts = stored receipts + fields derived from
// the block body). A block with 1-3 validly signed Quai transactions, at least one of them a
// contract creation, is written with its receipts; what is read back must carry every stored
// field unchanged - in particular the contract address the state processor recorded (which is
// the ground, in-zone address, not necessarily the plain CREATE derivation) - and the derived
// fields must describe the block's transactions.
func receiptsWithBody(c *ctx, g *gen.Tags, t *rapid.T, loc common.Location) {
	if len(loc) != 2 {
		return // receipts exist on zone chains
	}
	chainID := big.NewInt(int64(rapid.SampledFrom([]int{1, 9, 1337, 15000}).Draw(t, "rb_chain")))
	signer := types.NewSigner(chainID, loc)
	n := rapid.IntRange(1, 3).Draw(t, "rb_ntx")
	createAt := rapid.IntRange(0, n-1).Draw(t, "rb_create")
	var txs types.Transactions
	var rs types.Receipts
	cum := uint64(0)
	for i := 0; i < n; i++ {
		inner := &types.QuaiTx{ChainID: chainID, Nonce: uint64(rapid.IntRange(0, 9).Draw(t, "rb_nonce")), GasPrice: big.NewInt(7), Gas: 100000, Value: big.NewInt(int64(i)),
			Data: rapid.SliceOfN(rapid.Byte(), 0, 40).Draw(t, "rb_data")}
		if i != createAt {
			to := gen.Address(t, "rb_to", loc)
			inner.To = &to
		}
		tx, err := types.SignTx(types.NewTx(inner), signer, gen.Key(gen.KeyIndex(t, "rb_key")))
		if err != nil {
			t.Fatalf("HARNESS: SignTx: %v", err)
		}
		txs = append(txs, tx)
		cum += 21000 + uint64(i)
		r := &types.Receipt{Type: types.QuaiTxType, Status: types.ReceiptStatusSuccessful, CumulativeGasUsed: cum, GasUsed: 21000 + uint64(i), TxHash: tx.Hash(), Logs: []*types.Log{}}
		if i == createAt && rapid.IntRange(0, 2).Draw(t, "rb_stored") > 0 {
			// the address the EVM deployed to (ground into the zone when the plain derivation is not)
			zb := make([]byte, 20)
			copy(zb, rapid.SliceOfN(rapid.Byte(), 20, 20).Draw(t, "rb_ca"))
			zb[0], zb[1] = loc[0]<<4|loc[1], zb[1]&0x7f
			r.ContractAddress = common.BytesToAddress(zb, loc)
			g.Add("receipts_body:stored_contract_address")
		}
		r.Bloom = types.CreateBloom(types.Receipts{r})
		rs = append(rs, r)
	}
	wo := gen.WorkObject(t, loc, gen.WoOpts{Regime: gen.AnyRegime, AuxPow: 0, NonZeroNumber: true}, nil)
	wo.Body().SetTransactions(txs)
	db := newDB(loc)
	hash, number := wo.Hash(), wo.NumberU64(common.ZONE_CTX)
	rawdb.WriteWorkObject(db, hash, wo, types.BlockObject, common.ZONE_CTX)
	rawdb.WriteReceipts(db, hash, number, rs)
	got := rawdb.ReadReceipts(db, hash, number, &params.ChainConfig{ChainID: chainID, Location: loc})
	g.Add("receipts_body")
	if got == nil || len(got) != len(rs) {
		c.fail("C14/db/receipts-with-body/missing", "ReadReceipts returned %d receipts for a block written with %d", len(got), len(rs))
		return
	}
	for i := range rs {
		if got[i].Status != rs[i].Status || got[i].CumulativeGasUsed != rs[i].CumulativeGasUsed {
			c.fail("C14/db/receipts-with-body/consensus-fields", "receipt %d: status/cumulative gas changed through the database", i)
		}
		if got[i].TxHash != txs[i].Hash() || got[i].BlockHash != hash || got[i].TransactionIndex != uint(i) {
			c.fail("C14/db/receipts-with-body/derived-fields", "receipt %d: derived tx hash / block hash / index do not describe the block", i)
		}
		want := rs[i].ContractAddress
		if i == createAt && want.Equal(common.Address{}) {
			from, _ := types.Sender(signer, txs[i])
			want = crypto.CreateAddress(from, txs[i].Nonce(), txs[i].Data(), loc) // nothing stored: derived from the transaction
		}
		if !bytes.Equal(got[i].ContractAddress.Bytes(), want.Bytes()) && !(want.Equal(common.Address{}) && got[i].ContractAddress.Equal(common.Address{})) {
			c.fail("C14/db/receipts-with-body/contract-address", "receipt %d: contract address %x was stored, ReadReceipts returns %x", i, want.Bytes(), got[i].ContractAddress.Bytes())
		}
	}
}
