package c12

import (
	"encoding/binary"
	"fmt"
	"math/big"
	"sort"
	"strings"
	"testing"

	"github.com/dominant-strategies/go-quai/common"
	"github.com/dominant-strategies/go-quai/core/types"
	"github.com/dominant-strategies/go-quai/core/vm"
	"github.com/dominant-strategies/go-quai/crypto"
	"github.com/dominant-strategies/go-quai/params"
	"pgregory.net/rapid"

	"verifharness/evmgen"
	"verifharness/stats"
)

const (
	c12bFpSuicideSize = "C12/A/revert/acct.size/x=suicide" // same root cause as part A: Suicide zeroes Size, the journal does not restore it
	c12bFpClaim       = "C12/B/failed-frame/lockup.record/x=ClaimCoinbaseLockup"
	c12bFpCreateOOG   = "C12/B/failed-create/codestore-oog-not-reverted"
)

type c12bOutcome struct {
	tr      *c12bTracer
	view    *c12bWorldView
	res     *evmgen.TxResult
	txDiffs []c12bDiff
	failed  bool
}

// c12bRun executes a case under the deep-dump tracer.
func c12bRun(c *evmgen.Case) (*c12bOutcome, error) {
	u := evmgen.U()
	w, err := c.Pre.Build()
	if err != nil {
		return nil, err
	}
	tx, err := c.BuildTx()
	if err != nil {
		return nil, err
	}
	lockupIn, _ := u.Lockup.InternalAndQuaiAddress()
	v := &c12bWorldView{sdb: w.SDB, world: w, thash: tx.Hash(), addrSet: map[common.InternalAddress]bool{}, tainted: map[common.InternalAddress]bool{}, lockupIn: lockupIn, recs: c.Pre.Lockups}
	tr := c12bNewTracer(v, c.Env, c.Mode == evmgen.ModeTracedEnforced)
	for _, l := range [][]common.Address{u.Contracts, u.NonExistent, u.Precompiles, {u.Zero, u.Lockup}} {
		for _, a := range l {
			tr.mention(a)
		}
	}
	owners := append([]common.Address{}, u.Contracts...)
	for _, e := range u.EOAs {
		tr.mention(e.Addr)
		owners = append(owners, e.Addr)
	}
	for _, o := range owners {
		v.lockupKeys = append(v.lockupKeys, evmgen.WrappedQiSlot(o))
	}
	for _, d := range c.Pre.QiDeposits {
		v.lockupKeys = append(v.lockupKeys, evmgen.QiDepositSlot(d.Owner, d.QuaiOwner))
	}
	if c.Tx.To != nil {
		tr.mention(*c.Tx.To)
	}
	if c.Tx.ToClass == "create" && c.Tx.Kind == "quai" {
		if a, ok := evmgen.PredictCreateAddress(u.EOAs[c.Tx.From].Addr, c.Tx.Nonce, c.Tx.Data, c.Env.BlockNumber); ok {
			tr.mention(a)
		}
	}
	if c.Tx.ToClass == "create" && c.Tx.Kind == "etx" {
		// an inbound creation ETX creates from the zero address
		zin, _ := u.Zero.InternalAndQuaiAddress()
		if a, ok := evmgen.PredictCreateAddress(u.Zero, w.SDB.GetNonce(zin), c.Tx.Data, c.Env.BlockNumber); ok {
			tr.mention(a)
		}
	}
	if c.Tx.Suicide && len(c.Tx.Data) == 27 {
		tr.mention(common.BytesToAddress(c.Tx.Data[7:], evmgen.Loc))
	}
	w.SDB.Prepare(tx.Hash(), 0) // the dump reads access-list membership and transient storage of this transaction
	start := v.dump(nil)
	tr.live = []*c12bDump{start}
	res := c.Env.ApplyTx(w, tx, 0, vm.Config{Debug: true, Tracer: tr})
	out := &c12bOutcome{tr: tr, view: v, res: res}
	if res.Err != nil {
		return out, nil
	}
	out.failed = res.Receipt.Status != types.ReceiptStatusSuccessful
	if out.failed {
		end := v.dump(nil)
		// the fee payer pays for gas and its nonce moves; an inbound ETX "pays" from the zero address
		skip := map[common.InternalAddress]bool{}
		if c.Tx.Kind == "quai" {
			in, _ := u.EOAs[c.Tx.From].Addr.InternalAndQuaiAddress()
			skip[in] = true
		} else {
			in, _ := u.Zero.InternalAndQuaiAddress()
			skip[in] = true
		}
		for _, d := range v.compare(start, end, nil, skip) {
			// access-list membership and transient storage belong to the transaction, not to the state
			if strings.HasPrefix(d.kind, "accesslist") || d.kind == "refund" {
				continue
			}
			out.txDiffs = append(out.txDiffs, d)
		}
	}
	return out, nil
}

type c12bReport struct {
	labels     []string
	nontrivial bool
	sig        []string
	fps        []string
}

// c12bReportKnown makes dynamically classified known findings go through stats.Violation instead
// of being counted as excluded (hand-written regression inputs).
var c12bReportKnown = false

func c12bDumpCase(c *evmgen.Case, o *c12bOutcome, extra map[string]any) map[string]any {
	m := map[string]any{"case": c.Dump()}
	if o != nil && o.tr != nil {
		m["trace"] = o.tr.Tracer.Dump()
	}
	for k, v := range extra {
		m[k] = v
	}
	return m
}

func c12bKinds(diffs []c12bDiff) []string {
	m := map[string]bool{}
	for _, d := range diffs {
		m[d.kind] = true
	}
	var out []string
	for k := range m {
		out = append(out, k)
	}
	sort.Strings(out)
	return out
}

func c12bDiffStrings(diffs []c12bDiff) []string {
	var out []string
	for _, d := range diffs {
		out = append(out, d.String())
	}
	return out
}

// c12bJudge applies Oracle B to everything the tracer collected.
func c12bJudge(t stats.TB, part string, c *evmgen.Case, o *c12bOutcome) *c12bReport {
	rp := &c12bReport{}
	rp.labels = append(rp.labels, "mode:"+c.Mode, "regime:"+evmgen.RegimeName(c.Env.PrimeTerminusNumber), "tx:"+c.Tx.Kind)
	if o.res.Err != nil {
		rp.labels = append(rp.labels, "tx-rejected")
		rp.sig = []string{"rejected"}
		return rp
	}
	report := func(fp, msg string, known bool, extra map[string]any) {
		rp.fps = append(rp.fps, fp)
		if known && stats.IsKnown(fp) && !c12bReportKnown {
			stats.Excluded(fp)
			return
		}
		stats.Violation(t, part, fp, msg, c12bDumpCase(c, o, extra))
	}
	if o.tr.mispredict > 0 {
		rp.labels = append(rp.labels, "create-address-mispredicted")
	}
	var sigParts []string
	for _, fc := range o.tr.checks {
		kind := "noframe"
		if fc.hadFrame {
			kind = "frame"
		}
		lab := fmt.Sprintf("failed:%s:%s", fc.op, kind)
		rp.labels = append(rp.labels, lab)
		if fc.hadFrame {
			rp.labels = append(rp.labels, "failed-frame")
			rp.labels = append(rp.labels, "failkind:"+c12bErrClass(fc.frameErr, fc.createRej))
		}
		if fc.muts > 0 {
			rp.nontrivial = true
			rp.labels = append(rp.labels, "failed-frame-with-effects")
			for _, k := range fc.kinds {
				rp.labels = append(rp.labels, "undone:"+k)
			}
		}
		sigParts = append(sigParts, fmt.Sprintf("%s/%s/%s/%s", fc.op, kind, c12bErrClass(fc.frameErr, fc.createRej), strings.Join(fc.kinds, "+")))
		if len(fc.diffs) == 0 {
			continue
		}
		// ---- classify the differences by root cause -------------------------------------------
		rest := fc.diffs
		var sizeOnly, claim []c12bDiff
		var other []c12bDiff
		for _, d := range rest {
			switch {
			case d.kind == "acct.size" && c12bNameSuicided(d.where, fc.suicided):
				sizeOnly = append(sizeOnly, d)
			case d.kind == "lockup.record":
				claim = append(claim, d)
			default:
				other = append(other, d)
			}
		}
		where := fmt.Sprintf("%s at pc=%d depth=%d in %s failed (%s) but the state is not what it was before the call", fc.op, fc.pc, fc.depth, fc.self, c12bErrClass(fc.frameErr, fc.createRej))
		if fc.createRej == "codestore-oog" && len(other) > 0 {
			report(c12bFpCreateOOG, where+": evm.create does not revert when storing the returned code runs out of gas; left behind: "+strings.Join(c12bDiffStrings(other), "; "), true, nil)
			other = nil
		}
		if len(sizeOnly) > 0 {
			report(c12bFpSuicideSize, where+": the storage-size counter of an account that self-destructed inside the failed call is not restored: "+strings.Join(c12bDiffStrings(sizeOnly), "; "), true, nil)
		}
		if len(claim) > 0 {
			report(c12bFpClaim, where+": a lockup record claimed inside the failed call stays deleted in the block batch: "+strings.Join(c12bDiffStrings(claim), "; "), true, nil)
		}
		if len(other) > 0 {
			fp := "C12/B/failed-frame/" + strings.Join(c12bKinds(other), "+")
			if len(fc.kinds) > 0 {
				fp += "/x=" + strings.Join(fc.kinds, "+")
			}
			report(fp, where+": "+strings.Join(c12bDiffStrings(other), "; "), false, nil)
		}
	}
	// ---- whole-transaction failure -------------------------------------------------------------
	if o.failed {
		rp.labels = append(rp.labels, "tx-failed")
		if len(o.tr.Tracer.Frames) > 0 || c.Tx.Value.Sign() > 0 {
			rp.nontrivial = rp.nontrivial || o.tr.Tracer.Steps > 3
		}
		if len(o.txDiffs) > 0 {
			var claim, size, other []c12bDiff
			top := (*evmgen.Frame)(nil)
			if len(o.tr.Tracer.Frames) > 0 {
				top = o.tr.Tracer.Frames[0]
			}
			suic := map[common.InternalAddress]bool{}
			for _, s := range o.tr.Tracer.Suicides {
				if in, e := s.Addr.InternalAndQuaiAddress(); e == nil {
					suic[in] = true
				}
			}
			for _, d := range o.txDiffs {
				switch {
				case d.kind == "lockup.record":
					claim = append(claim, d)
				case d.kind == "acct.size" && c12bNameSuicided(d.where, suic):
					size = append(size, d)
				default:
					other = append(other, d)
				}
			}
			where := "the transaction failed but the state is not the pre-state (fee payer excepted)"
			if len(other) > 0 && c.Tx.ToClass == "create" && top != nil && !top.Failed && top.CreateRejected(uint64(params.GetMaxCodeSize(c.Env.BlockNumber))) == "codestore-oog" {
				report(c12bFpCreateOOG, where+": creation failed with code-store out of gas, which evm.create does not revert; left behind: "+strings.Join(c12bDiffStrings(other), "; "), true, nil)
				other = nil
			}
			if len(size) > 0 {
				report(c12bFpSuicideSize, where+": "+strings.Join(c12bDiffStrings(size), "; "), true, nil)
			}
			if len(claim) > 0 {
				report(c12bFpClaim, where+": a lockup record claimed by the failed transaction stays deleted in the block batch (UndoCoinbasesDeleted has nothing to restore after revertToSnapshot replaced the map): "+strings.Join(c12bDiffStrings(claim), "; "), true, nil)
			}
			if len(other) > 0 {
				report("C12/B/failed-tx/"+strings.Join(c12bKinds(other), "+"), where+": "+strings.Join(c12bDiffStrings(other), "; "), false, nil)
			}
		}
	} else {
		rp.labels = append(rp.labels, "tx-ok")
	}
	// recursion repeats the same failed call many times: keep the distinct ones, in order
	{
		seen := map[string]bool{}
		var uniq []string
		for _, sp := range sigParts {
			if !seen[sp] {
				seen[sp] = true
				uniq = append(uniq, sp)
			}
		}
		sigParts = uniq
	}
	if len(sigParts) > 8 {
		sigParts = sigParts[:8]
	}
	rp.sig = append(sigParts, fmt.Sprintf("failed=%v", o.failed))
	return rp
}

func c12bNameSuicided(name string, set map[common.InternalAddress]bool) bool {
	for a := range set {
		if evmgen.U().Name(common.Bytes20ToAddress(a, evmgen.Loc)) == name {
			return true
		}
	}
	return false
}

func c12bErrClass(err, createRej string) string {
	switch {
	case createRej != "":
		return "create-" + createRej
	case err == "":
		return "no-frame"
	case strings.Contains(err, "reverted"):
		return "revert"
	case strings.Contains(err, "out of gas"):
		return "oog"
	case strings.Contains(err, "invalid opcode"):
		return "invalid-opcode"
	case strings.Contains(err, "invalid jump"):
		return "bad-jump"
	case strings.Contains(err, "stack"):
		return "stack"
	case strings.Contains(err, "access list") || strings.Contains(err, "AccessList"):
		return "access-list"
	case strings.Contains(err, "write protection"):
		return "write-protection"
	case strings.Contains(err, "return data"):
		return "returndata"
	case strings.Contains(err, "gas uint64 overflow"):
		return "gas-overflow"
	}
	if len(err) > 24 {
		err = err[:24]
	}
	return err
}

// TestC12B_FailedFrames is the generated search.
func TestC12B_FailedFrames(t *testing.T) {
	rapid.Check(t, func(rt *rapid.T) {
		cfg := evmgen.FailCfg()
		mode := []string{evmgen.ModeTracedEnforced, evmgen.ModeTracedBypass, evmgen.ModeTracedEnforced, evmgen.ModeTracedBypass, evmgen.ModeTracedEnforced}[rapid.IntRange(0, 4).Draw(rt, "c12bmode")]
		c := evmgen.GenCase(rt, evmgen.CaseOpts{Cfg: cfg, AllowETX: true, ForceMode: mode, ContractPct: 75})
		o, err := c12bRun(c)
		if err != nil {
			rt.Fatalf("HARNESS: %v", err)
		}
		rp := c12bJudge(rt, "frames", c, o)
		stats.Case("frames", strings.Join(rp.sig, ","), rp.nontrivial, rp.labels...)
		if rp.nontrivial && stats.WantSample("frames") {
			d := c.Dump()
			var fc []string
			for _, x := range o.tr.checks {
				fc = append(fc, fmt.Sprintf("%s pc=%d depth=%d %s effects=%v diffs=%d", x.op, x.pc, x.depth, c12bErrClass(x.frameErr, x.createRej), x.kinds, len(x.diffs)))
			}
			stats.Sample("frames", map[string]any{"tx": d["tx"], "failed_calls": fc, "tx_failed": o.failed, "kinds": d["kinds"]})
		}
	})
}

// TestC12B_StructuredFrames: the same before/after comparison around every failed call, on
// structured cases (evmgen.GenFrames): chains of contracts whose bodies write storage, move value,
// emit ETXs / conversions, log, and end in SELFDESTRUCT, inside nested frames of every kind that
// fail or succeed independently - dense in effects of a successful inner frame (including a
// self-destruct) that an enclosing frame rolls back.
func TestC12B_StructuredFrames(t *testing.T) {
	rapid.Check(t, func(rt *rapid.T) {
		c := evmgen.GenFrames(rt, evmgen.FramesOpts{Effects: []string{"convert", "etx", "transfer", "sstore", "log", "tstore", "selfdestruct"}, FailPctTop: 25, FailPctInner: 40,
			Modes: []string{evmgen.ModeTracedEnforced, evmgen.ModeTracedBypass}})
		o, err := c12bRun(c)
		if err != nil {
			rt.Fatalf("HARNESS: %v", err)
		}
		rp := c12bJudge(rt, "sframes", c, o)
		stats.Case("sframes", strings.Join(rp.sig, ",")+"|"+strings.Join(c.Kinds, ","), rp.nontrivial, rp.labels...)
		if rp.nontrivial && stats.WantSample("sframes") {
			var fc []string
			for _, x := range o.tr.checks {
				fc = append(fc, fmt.Sprintf("%s pc=%d depth=%d %s effects=%v diffs=%d", x.op, x.pc, x.depth, c12bErrClass(x.frameErr, x.createRej), x.kinds, len(x.diffs)))
			}
			stats.Sample("sframes", map[string]any{"program": strings.Join(c.Kinds, " "), "failed_calls": fc, "tx_failed": o.failed})
		}
	})
}

// ---------------------------------------------------------------------------------------------
// hand-written inputs

func c12bHand(ptn uint64, contractBal *big.Int, code func(a *evmgen.Asm), inner func(a *evmgen.Asm)) *evmgen.Case {
	u := evmgen.U()
	a := evmgen.NewAsm()
	code(a)
	p := a.Assemble()
	env := &evmgen.Env{BlockNumber: 3_500_000, PrimeTerminusNumber: ptn, BaseFee: big.NewInt(7), GasLimit: 12_000_000, Time: 1_700_000_000,
		QuaiStateSize: big.NewInt(1_000_000), Eligible: evmgen.EligibleMask(*u.ForeignQuai[0].Location()), Coinbase: u.EOAs[0].Addr}
	pre := &evmgen.PreState{Accounts: []evmgen.AccountSpec{
		{Addr: u.Contracts[0], Balance: contractBal, Nonce: 1, Code: &p},
		{Addr: u.EOAs[4].Addr, Balance: new(big.Int).Exp(big.NewInt(10), big.NewInt(24), nil)},
	}}
	if inner != nil {
		b := evmgen.NewAsm()
		inner(b)
		q := b.Assemble()
		pre.Accounts = append(pre.Accounts, evmgen.AccountSpec{Addr: u.Contracts[1], Balance: big.NewInt(1_000_000), Nonce: 1, Code: &q,
			Storage: map[common.Hash]common.Hash{common.BigToHash(big.NewInt(2)): common.BigToHash(big.NewInt(7))}})
	}
	to := u.Contracts[0]
	return &evmgen.Case{Env: env, Pre: pre, Mode: evmgen.ModeTracedBypass, CleanFrom: true,
		Tx: evmgen.TxSpec{Kind: "quai", From: 4, To: &to, ToClass: "contract", Gas: 1_000_000, GasClass: "hand", Price: big.NewInt(7), PriceClass: "basefee", Value: new(big.Int), ALClass: "empty"}}
}

// callInner: CALL contract1 with all gas, drop the flag.
func c12bCallInner(a *evmgen.Asm, op vm.OpCode, value uint64) {
	a.Push(0).Push(0).Push(0).Push(0)
	if op == vm.CALL || op == vm.CALLCODE {
		a.Push(value)
	}
	a.PushAddr(evmgen.U().Contracts[1]).Op(vm.GAS, op, vm.POP)
}

func c12bClaimInput() []byte {
	u := evmgen.U()
	in := make([]byte, 53)
	copy(in, u.Miners[0].Bytes())
	copy(in[20:], u.ForeignQuai[0].Bytes())
	in[40] = 1
	binary.BigEndian.PutUint32(in[41:], 1)
	binary.BigEndian.PutUint64(in[45:], 21000)
	return in
}

func c12bLockupCall(a *evmgen.Asm, in []byte) {
	a.DataToMem(a.Data(in, "lockup input"), 0)
	a.Push(0x40).Push(0x200).Push(uint64(len(in))).Push(0).Push(0).PushAddr(evmgen.U().Lockup).Push(100000).Op(vm.CALL, vm.POP)
}

// TestC12B_Handwritten: minimal inputs of the root causes found on the unchanged tree (reported
// through stats.Violation: KNOWN-FINDING when listed) and clean anchors in which an inner frame
// produces every kind of effect and then fails — the oracle must see the failure and accept it.
func TestC12B_Handwritten(t *testing.T) {
	if stats.Shard() != 0 {
		t.Skip("deterministic cases run on shard 0 only")
	}
	u := evmgen.U()
	post := params.SelfDestructRefundForkBlock + 10
	e18 := new(big.Int).Exp(big.NewInt(10), big.NewInt(18), nil)
	effects := func(b *evmgen.Asm) {
		// storage, transient storage, log, value transfer, ETX, nested creation
		b.Push(9).Push(0).Op(vm.SSTORE)
		b.Push(0).Push(2).Op(vm.SSTORE)
		b.Push(5).Push(1).Op(vm.TSTORE)
		b.Push(0xA0).Push(32).Push(0).Op(vm.LOG1)
		b.Push(0).Push(0).Push(0).Push(0).Push(777).PushAddr(u.EOAs[1].Addr).Op(vm.GAS, vm.CALL, vm.POP)
		b.Push(0).Push(0).Push(0).Push(0).Push(0).Push(0).Push(21000).Push(1000).PushAddr(u.ForeignQuai[0]).Push(0).Op(vm.ETX, vm.POP)
		b.Push(0).Push(0).Push(5).Op(vm.CREATE, vm.POP)
	}
	type hw struct {
		name  string
		fps   []string
		label string
		mk    func() *evmgen.Case
	}
	claimRec := []evmgen.LockupRec{{Owner: u.Contracts[1], Miner: u.Miners[0], LockupByte: 1, Epoch: 1, Balance: big.NewInt(777), Unlock: 100, Elements: 2, Delegate: common.Zero}}
	cases := []hw{
		{"ClaimInRevertedFrame", []string{c12bFpClaim}, "failed-frame-with-effects", func() *evmgen.Case {
			c := c12bHand(post, e18, func(a *evmgen.Asm) { c12bCallInner(a, vm.CALL, 0); a.Op(vm.STOP) }, func(b *evmgen.Asm) {
				c12bLockupCall(b, c12bClaimInput())
				b.Push(0).Push(0).Op(vm.REVERT)
			})
			c.Pre.Lockups = claimRec
			return c
		}},
		{"ClaimInFailedTx", []string{c12bFpClaim}, "tx-failed", func() *evmgen.Case {
			c := c12bHand(post, e18, func(a *evmgen.Asm) {
				c12bLockupCall(a, c12bClaimInput())
				a.Push(0).Push(0).Op(vm.REVERT)
			}, nil)
			c.Pre.Lockups = []evmgen.LockupRec{{Owner: u.Contracts[0], Miner: u.Miners[0], LockupByte: 1, Epoch: 1, Balance: big.NewInt(777), Unlock: 100, Elements: 2, Delegate: common.Zero}}
			return c
		}},
		{"InnerCreateCodeStoreOOG", []string{c12bFpCreateOOG}, "failkind:create-codestore-oog", func() *evmgen.Case {
			// init code stores, sends value away and returns 20000 bytes that 400k gas cannot pay for
			init := evmgen.NewAsm()
			init.Push(9).Push(0).Op(vm.SSTORE)
			init.Push(20000).Push(0).Op(vm.RETURN)
			code := init.Assemble().Code
			c := c12bHand(post, e18, func(a *evmgen.Asm) {
				a.DataToMem(a.Data(code, "init"), 0)
				a.Push(uint64(len(code))).Push(0).Push(5000).Op(vm.CREATE, vm.POP, vm.STOP)
			}, nil)
			c.Tx.Gas = 400_000
			return c
		}},
		{"SuicideSizeInRevertedFrame", []string{c12bFpSuicideSize}, "failed-frame-with-effects", func() *evmgen.Case {
			// contract1 has one storage slot (size counter 1), self-destructs, then the caller reverts it
			return c12bHand(post, e18, func(a *evmgen.Asm) {
				// call a trampoline in our own code: contract0 -> contract0(inner mode) -> contract1 selfdestruct, then inner mode reverts
				inner := a.NewLabel("inner")
				a.Op(vm.CALLDATASIZE).PushLabel(inner).Op(vm.JUMPI)
				a.Push(0).Push(0).Push(1).Push(0).Push(0).Op(vm.ADDRESS, vm.GAS, vm.CALL, vm.POP, vm.STOP)
				a.Label(inner)
				c12bCallInner(a, vm.CALL, 0)
				a.Push(0).Push(0).Op(vm.REVERT)
			}, func(b *evmgen.Asm) { b.PushAddr(u.EOAs[1].Addr).Op(vm.SELFDESTRUCT) })
		}},
		// ---- clean anchors ----------------------------------------------------------------------
		{"EffectsThenRevert", nil, "failed-frame-with-effects", func() *evmgen.Case {
			return c12bHand(post, e18, func(a *evmgen.Asm) { c12bCallInner(a, vm.CALL, 5); a.Op(vm.STOP) }, func(b *evmgen.Asm) {
				effects(b)
				b.Push(0).Push(0).Op(vm.REVERT)
			})
		}},
		{"EffectsThenInvalid", nil, "failkind:invalid-opcode", func() *evmgen.Case {
			return c12bHand(post, e18, func(a *evmgen.Asm) { c12bCallInner(a, vm.CALL, 0); a.Op(vm.STOP) }, func(b *evmgen.Asm) {
				effects(b)
				b.Op(vm.OpCode(0xfe))
			})
		}},
		{"EffectsThenOutOfGas", nil, "failkind:oog", func() *evmgen.Case {
			return c12bHand(post, e18, func(a *evmgen.Asm) { c12bCallInner(a, vm.CALL, 0); a.Op(vm.STOP) }, func(b *evmgen.Asm) {
				effects(b)
				b.Push(1 << 30).Op(vm.MLOAD)
			})
		}},
		{"DelegateEffectsThenRevert", nil, "failed:DELEGATECALL:frame", func() *evmgen.Case {
			return c12bHand(post, e18, func(a *evmgen.Asm) { c12bCallInner(a, vm.DELEGATECALL, 0); a.Op(vm.STOP) }, func(b *evmgen.Asm) {
				effects(b)
				b.Push(0).Push(0).Op(vm.REVERT)
			})
		}},
		{"CallCodeEffectsThenRevert", nil, "failed:CALLCODE:frame", func() *evmgen.Case {
			return c12bHand(post, e18, func(a *evmgen.Asm) { c12bCallInner(a, vm.CALLCODE, 0); a.Op(vm.STOP) }, func(b *evmgen.Asm) {
				effects(b)
				b.Push(0).Push(0).Op(vm.REVERT)
			})
		}},
		{"StaticCallWriteProtection", nil, "failkind:write-protection", func() *evmgen.Case {
			return c12bHand(post, e18, func(a *evmgen.Asm) { c12bCallInner(a, vm.STATICCALL, 0); a.Op(vm.STOP) }, func(b *evmgen.Asm) {
				b.Push(9).Push(0).Op(vm.SSTORE)
			})
		}},
		{"CreateInitReverts", nil, "failed:CREATE:frame", func() *evmgen.Case {
			init := evmgen.NewAsm()
			init.Push(9).Push(0).Op(vm.SSTORE)
			init.Push(0).Push(0).Op(vm.REVERT)
			code := init.Assemble().Code
			return c12bHand(post, e18, func(a *evmgen.Asm) {
				a.DataToMem(a.Data(code, "init"), 0)
				a.Push(uint64(len(code))).Push(0).Push(5000).Op(vm.CREATE, vm.POP, vm.STOP)
			}, nil)
		}},
		{"Create2Returns0xEF", nil, "failkind:create-0xEF", func() *evmgen.Case {
			init := evmgen.NewAsm()
			init.Push(9).Push(0).Op(vm.SSTORE)
			init.Push(0xEF).Push(0).Op(vm.MSTORE8).Push(1).Push(0).Op(vm.RETURN)
			code := init.Assemble().Code
			return c12bHand(post, e18, func(a *evmgen.Asm) {
				a.DataToMem(a.Data(code, "init"), 0)
				// salt 0 gives an address outside the zone most of the time; grind one
				a.Push(uint64(c12bGrindSalt(u.Contracts[0], code))).Push(uint64(len(code))).Push(0).Push(5000).Op(vm.CREATE2, vm.POP, vm.STOP)
			}, nil)
		}},
		{"CreateOversizeCode", nil, "failkind:create-size", func() *evmgen.Case {
			init := evmgen.NewAsm()
			init.Push(9).Push(0).Op(vm.SSTORE)
			init.Push(params.NewMaxCodeSize + 1).Push(0).Op(vm.RETURN)
			code := init.Assemble().Code
			c := c12bHand(post, e18, func(a *evmgen.Asm) {
				a.DataToMem(a.Data(code, "init"), 0)
				a.Push(uint64(len(code))).Push(0).Push(5000).Op(vm.CREATE, vm.POP, vm.STOP)
			}, nil)
			c.Tx.Gas = 4_000_000
			return c
		}},
		{"UnwrapThenRevert", nil, "failed-frame-with-effects", func() *evmgen.Case {
			in := make([]byte, 60)
			copy(in, u.InZoneQi[0].Bytes())
			big.NewInt(400).FillBytes(in[20:52])
			binary.BigEndian.PutUint64(in[52:], 21000)
			c := c12bHand(post, e18, func(a *evmgen.Asm) { c12bCallInner(a, vm.CALL, 0); a.Op(vm.STOP) }, func(b *evmgen.Asm) {
				c12bLockupCall(b, in)
				b.Push(0).Push(0).Op(vm.REVERT)
			})
			c.Pre.WrappedQi = []evmgen.WrappedQi{{Owner: u.Contracts[1], Balance: big.NewInt(1000)}}
			return c
		}},
		{"WholeTxFailsAfterEffects", nil, "tx-failed", func() *evmgen.Case {
			return c12bHand(post, e18, func(a *evmgen.Asm) {
				effects(a)
				a.Push(0).Push(0).Op(vm.REVERT)
			}, nil)
		}},
	}
	for _, tc := range cases {
		tc := tc
		t.Run(tc.name, func(t *testing.T) {
			c := tc.mk()
			o, err := c12bRun(c)
			if err != nil {
				t.Fatalf("HARNESS: %v", err)
			}
			if o.res.Err != nil {
				t.Fatalf("HARNESS: transaction rejected: %v", o.res.Err)
			}
			c12bReportKnown = true
			rp := c12bJudge(t, "handwritten", c, o)
			c12bReportKnown = false
			stats.Case("handwritten", tc.name, true, append(rp.labels, "hand:"+tc.name)...)
			found := false
			for _, l := range rp.labels {
				found = found || l == tc.label
			}
			if !found {
				t.Fatalf("HARNESS: hand-written case %s did not reach %q (labels %v)", tc.name, tc.label, rp.labels)
			}
			seen := map[string]bool{}
			for _, fp := range rp.fps {
				seen[fp] = true
			}
			for _, fp := range tc.fps {
				if !seen[fp] && stats.IsKnown(fp) {
					t.Fatalf("HARNESS: finding %s is listed as known but its minimal input no longer reproduces it (observed %v); if the defect was repaired set its status to \"fixed\"", fp, rp.fps)
				}
				if !seen[fp] {
					t.Logf("input %s did not raise %s (observed %v)", tc.name, fp, rp.fps)
				}
			}
			if len(tc.fps) == 0 && len(rp.fps) > 0 {
				t.Logf("oracle failures on a clean anchor: %v", rp.fps)
			}
		})
	}
}

func c12bGrindSalt(self common.Address, code []byte) int64 {
	for i := int64(0); i < 100000; i++ {
		var s [32]byte
		big.NewInt(i).FillBytes(s[:])
		a := cryptoCreate2(self, s, code)
		if _, err := a.InternalAndQuaiAddress(); err == nil {
			return i
		}
	}
	return 0
}

func cryptoCreate2(self common.Address, salt [32]byte, code []byte) common.Address {
	return crypto.CreateAddress2(self, salt, crypto.Keccak256(code), evmgen.Loc)
}
