package c12

import (
	"fmt"
	"math/big"
	"sort"
	"strings"
	"testing"

	"github.com/dominant-strategies/go-quai/common"
	"github.com/dominant-strategies/go-quai/core/state"
	"github.com/dominant-strategies/go-quai/core/types"
	"pgregory.net/rapid"

	"verifharness/stats"
)

const (
	c12aMaxOps   = 60
	c12aMaxDepth = 6
)

// kind weights of the random generator (a kind is offered only when the caller contract allows it)
var c12aWeights = []struct {
	k c12aOpKind
	w int
}{
	{c12aOpSnapshot, 5}, {c12aOpRevert, 5},
	{c12aOpCreate, 2}, {c12aOpAddBal, 2}, {c12aOpSubBal, 2}, {c12aOpSetBal, 1}, {c12aOpSetNonce, 2}, {c12aOpSetCode, 2}, {c12aOpSetState, 4},
	{c12aOpSetTransient, 2}, {c12aOpSuicide, 2}, {c12aOpAddLog, 1}, {c12aOpAddRefund, 1}, {c12aOpSubRefund, 1}, {c12aOpALAddr, 1}, {c12aOpALSlot, 1},
	{c12aOpPreimage, 1}, {c12aOpFinalise, 2}, {c12aOpPrepare, 2}, {c12aOpIRoot, 1}, {c12aOpCommitReopen, 1},
}

// revertable = number of youngest live snapshots a revert may target. With the known finding
// listed, snapshots older than a poisoned Suicide are not offered (counted as excluded).
func (r *c12aRunner) revertable() (n int, restricted bool) {
	n = len(r.live)
	if !r.exclude {
		return n, false
	}
	for i := len(r.live) - 1; i >= 0; i-- {
		if r.live[i].poisoned {
			return len(r.live) - 1 - i, true
		}
	}
	return n, false
}

// genOp draws the next op so that structural and state-dependent preconditions hold by
// construction (no rejection).
func c12aGenOp(t *rapid.T, r *c12aRunner, rooted bool) c12aOp {
	var kinds []c12aOpKind
	nrev, restricted := r.revertable()
	for _, kw := range c12aWeights {
		o := c12aOp{k: kw.k}
		if kw.k == c12aOpRevert {
			if nrev == 0 {
				if restricted {
					stats.Excluded(c12aFpSuicideSize)
				}
				continue
			}
		} else if !c12aStructOK(o, len(r.live), rooted, c12aMaxDepth) {
			continue
		}
		for i := 0; i < kw.w; i++ {
			kinds = append(kinds, kw.k)
		}
	}
	k := rapid.SampledFrom(kinds).Draw(t, "kind")
	o := c12aOp{k: k}
	addr := func() int { // R (precompile) is only funded, created by a call, or listed
		if k == c12aOpAddBal || k == c12aOpALAddr {
			return rapid.IntRange(0, c12aNAddr-1).Draw(t, "addr")
		}
		return rapid.IntRange(0, c12aNAddr-2).Draw(t, "addr")
	}
	slot := func() int { return rapid.IntRange(0, c12aNSlot-1).Draw(t, "slot") }
	switch k {
	case c12aOpCreate:
		var ok []c12aOp
		for a := 0; a < c12aNAddr; a++ {
			for _, c := range []c12aOp{{k: c12aOpCreate, a: a, s: 0, v: 0}, {k: c12aOpCreate, a: a, s: 0, v: 1}, {k: c12aOpCreate, a: a, s: 1, v: 0}, {k: c12aOpCreate, a: a, s: 1, v: 1}} {
				if r.precond(c) {
					ok = append(ok, c)
				}
			}
		}
		if len(ok) == 0 { // every universe address is a contract already: fund one instead
			return c12aOp{k: c12aOpAddBal, a: addr(), v: 1}
		}
		return ok[rapid.IntRange(0, len(ok)-1).Draw(t, "create")]
	case c12aOpAddBal:
		o.a, o.v = addr(), rapid.IntRange(0, 2).Draw(t, "amount")
	case c12aOpSubBal:
		o.a = addr()
		max := 2
		if b := r.s.GetBalance(c12aAddr[o.a]); b.IsInt64() && b.Int64() < 2 {
			max = int(b.Int64())
			if max < 0 {
				max = 0
			}
		}
		o.v = rapid.IntRange(0, max).Draw(t, "amount")
	case c12aOpSetBal:
		o.a, o.v = addr(), rapid.SampledFrom([]int{0, 1, 5}).Draw(t, "amount")
	case c12aOpSetNonce:
		o.a = addr()
		o.v = int(r.s.GetNonce(c12aAddr[o.a])) + rapid.IntRange(0, 1).Draw(t, "bump") // callers set nonce+1 (or re-set)
	case c12aOpSetCode:
		o.a, o.v = addr(), rapid.IntRange(0, len(c12aCode)-1).Draw(t, "code")
	case c12aOpSetState, c12aOpSetTransient:
		o.a, o.s, o.v = addr(), slot(), rapid.IntRange(0, len(c12aVal)-1).Draw(t, "val")
	case c12aOpSuicide, c12aOpALAddr:
		o.a = addr()
	case c12aOpALSlot:
		o.a, o.s = addr(), slot()
	case c12aOpAddLog:
		o.a, o.v = addr(), rapid.IntRange(0, 3).Draw(t, "n")
	case c12aOpAddRefund:
		o.v = rapid.IntRange(0, 3).Draw(t, "gas")
	case c12aOpSubRefund:
		max := 3
		if rf := r.s.GetRefund(); rf < 3 {
			max = int(rf)
		}
		o.v = rapid.IntRange(0, max).Draw(t, "gas")
	case c12aOpPreimage:
		o.v = rapid.IntRange(0, len(c12aPre)-1).Draw(t, "pre")
	case c12aOpRevert:
		o.v = rapid.IntRange(0, nrev-1).Draw(t, "depth")
	}
	return o
}

// shadowChecked is the shadow oracle for a history that was already executed successfully.
func c12aShadowChecked(t *rapid.T, env *c12aEnv, ini *c12aInitState, seq []c12aOp, spans []c12aSpan, shadow []c12aOp) *c12aViolationInfo {
	viol, bad, _ := c12aShadowOracle(env, ini, c12aNAddr, seq, spans, shadow, true, nil, false)
	if bad >= 0 {
		panic(fmt.Sprintf("HARNESS: history valid when observed but op %d (%v) not applicable unobserved: %v", bad, seq[bad], c12aOpsStrings(seq)))
	}
	return viol
}

// safeStep is runner.step with a panic inside the repository turned into a violation.
func c12aSafeStep(r *c12aRunner, i int, o c12aOp, seq []c12aOp) (ok bool, viol *c12aViolationInfo) {
	ok = true
	defer c12aRecoverRepoPanic(&viol)
	return r.step(i, o, seq)
}

// TestC12A_Random: random histories of up to 60 ops over {A, B, R} x {s0, s1} x {0, v1, v2} with
// snapshot nesting up to 6 and several transactions / blocks per history. Revert oracle at
// every RevertToSnapshot; shadow oracle at the end of the history and at every revert point.
func TestC12A_Random(t *testing.T) {
	env := c12aGetEnv(t)
	exclude := stats.IsKnown(c12aFpSuicideSize)
	const part = "random"
	rapid.Check(t, func(t *rapid.T) {
		ini := &c12aInits[rapid.IntRange(0, len(c12aInits)-1).Draw(t, "init")]
		nops := rapid.IntRange(3, c12aMaxOps).Draw(t, "nops")
		var (
			seq      []c12aOp
			viol     *c12aViolationInfo
			maxDepth int
			effect   bool
		)
		main, err := c12aNewRunner(env, ini, c12aNAddr, true)
		if err != nil {
			t.Fatalf("HARNESS: %v", err)
		}
		main.exclude = exclude
		rooted := false
		for len(seq) < nops && viol == nil {
			o := c12aGenOp(t, main, rooted) // rapid draws stay outside of any recover()
			seq = append(seq, o)
			ok, v := c12aSafeStep(main, len(seq)-1, o, seq)
			if !ok {
				t.Fatalf("HARNESS: generated op %v not applicable (history %v)", o, c12aOpsStrings(seq))
			}
			viol = v
			rooted = c12aNextRooted(o, rooted)
			if len(main.live) > maxDepth {
				maxDepth = len(main.live)
			}
		}
		effect = main.effective
		if viol == nil {
			if err := main.s.Error(); err != nil {
				viol = &c12aViolationInfo{fp: "C12/A/dberr", msg: "StateDB.Error() set by a contract-respecting history: " + err.Error()}
			}
		}
		spans, shadow := c12aAnalyse(seq)
		if viol == nil {
			func() {
				defer c12aRecoverRepoPanic(&viol)
				// commitment after every revert point, then of the whole history
				for i, o := range seq {
					if o.k != c12aOpRevert || i == len(seq)-1 {
						continue
					}
					psp, psh := c12aAnalyse(seq[:i+1])
					if viol = c12aShadowChecked(t, env, ini, seq[:i+1], psp, psh); viol != nil {
						viol.msg = fmt.Sprintf("[history cut after op %d] ", i) + viol.msg
						return
					}
				}
				viol = c12aShadowChecked(t, env, ini, seq, spans, shadow)
			}()
		}

		sigKinds, nt, labels := c12aLabelsFor(ini, seq, spans)
		_ = sigKinds
		crossed := []string{}
		for _, l := range labels {
			if strings.HasPrefix(l, "x:") {
				crossed = append(crossed, l[2:])
			}
		}
		sort.Strings(crossed)
		labels = append(labels, fmt.Sprintf("depth:%d", maxDepth))
		if len(seq) >= 30 {
			labels = append(labels, "len>=30")
		}
		if effect {
			labels = append(labels, "revert_undid_observable_change")
		}
		nb := 0
		for _, o := range seq {
			if o.k.isBoundary() {
				nb++
			}
		}
		if nb > 0 && len(spans) > 0 {
			labels = append(labels, "multi_tx_with_revert")
		}
		stats.Case(part, fmt.Sprintf("%s|d%d|%s", ini.name, maxDepth, strings.Join(crossed, ",")), nt, labels...)
		if nt && stats.WantSample(part) {
			stats.Sample(part, map[string]any{"init": ini.name, "ops": c12aOpsStrings(seq)})
		}
		if viol != nil {
			c12aReportViolation(t, part, ini, seq, shadow, viol)
		}
	})
}

// TestC12A_Regress_KnownFindings replays, once per run and without rapid, the minimal history of
// every confirmed StateDB-level finding through stats.Violation, so that the driver prints its
// KNOWN-FINDING line (or a VIOLATION if the finding is not listed).
func TestC12A_Regress_KnownFindings(t *testing.T) {
	env := c12aGetEnv(t)
	const part = "regress"
	cases := []struct {
		fp  string
		ini int
		seq []c12aOp
	}{
		// contract A has one committed storage slot (size counter 1); SELFDESTRUCT inside a frame
		// that is reverted leaves the counter at 0.
		{c12aFpSuicideSize, 1, []c12aOp{{k: c12aOpSnapshot}, {k: c12aOpSuicide, a: 0}, {k: c12aOpRevert, v: 0}}},
	}
	for _, c := range cases {
		ini := &c12aInits[c.ini]
		spans, shadow := c12aAnalyse(c.seq)
		res := c12aRunCase(env, ini, 2, false, c.seq, spans, shadow, true, nil, true)
		sig, _, labels := c12aLabelsFor(ini, c.seq, spans)
		stats.Case(part, sig, true, append(labels, "known:"+c.fp)...)
		stats.Sample(part, map[string]any{"init": ini.name, "ops": c12aOpsStrings(c.seq), "expect": c.fp})
		switch {
		case res.invalidAt >= 0:
			t.Fatalf("HARNESS: regression history not applicable at op %d", res.invalidAt)
		case res.viol == nil:
			stats.Note("known finding " + c.fp + " no longer reproduces on this tree")
			t.Logf("known finding %s no longer reproduces", c.fp)
		default:
			if res.viol.fp != c.fp {
				t.Logf("regression history of %s now reports %s", c.fp, res.viol.fp)
			}
			c12aReportViolation(t, part, ini, c.seq, shadow, res.viol)
		}
	}
	c12aRegressSuicideSizeCrashForm(t)
}

// c12aRegressSuicideSizeCrashForm (run by TestC12A_Regress_KnownFindings) replays the crash form of the same finding: the slot
// committed with the pre-state is cleared, a Suicide of the contract is reverted (the counter
// stays at 0 instead of 1), and the next root computation deletes the slot, drives the counter
// to -1 and panics in the account encoder. Reported under the finding's fingerprint: one root
// cause, one repair.
func c12aRegressSuicideSizeCrashForm(t *testing.T) {
	env := c12aGetEnv(t)
	const part = "regress"
	s, err := state.New(env.richRoot, types.EmptyRootHash, new(big.Int).Set(env.richSize), env.db, env.db, nil, c12aLoc, env.logger)
	if err != nil {
		t.Fatalf("HARNESS: open rich pre-state: %v", err)
	}
	a := c12aAddr[0]
	hist := []string{"SetState(A, slot0, 0)", "Snapshot", "Suicide(A)", "RevertToSnapshot", "IntermediateRoot(true)"}
	s.SetState(a, c12aSlot[0], common.Hash{})
	id := s.Snapshot()
	s.Suicide(a)
	s.RevertToSnapshot(id)
	sizeAfterRevert := s.GetSize(a).String()
	var crashed any
	func() {
		defer func() { crashed = recover() }()
		s.IntermediateRoot(true)
	}()
	stats.Case(part, "suicide-size-crash-form", true, "known:"+c12aFpSuicideSize, "crash-form")
	stats.Sample(part, map[string]any{"history": hist, "size_after_revert": sizeAfterRevert, "panic": fmt.Sprint(crashed)})
	if crashed == nil && sizeAfterRevert == "1" {
		stats.Note("known finding " + c12aFpSuicideSize + " (crash form) no longer reproduces on this tree")
		return
	}
	stats.Violation(t, part, c12aFpSuicideSize, fmt.Sprintf("after a reverted Suicide the storage-size counter of A is %s (1 at the snapshot); IntermediateRoot then: %v", sizeAfterRevert, crashed),
		map[string]any{"history": hist})
}
