package c12

import (
	"fmt"
	"sort"
	"strings"
	"testing"

	"pgregory.net/rapid"

	"verifharness/stats"
)

const (
	c12aMaxOps   = 60
	c12aMaxDepth = 6
)

// kind weights of the random generator (a kind is offered only when the caller contract allows it)
var c12aWeights = []struct {
	k opKind
	w int
}{
	{opSnapshot, 5}, {opRevert, 5},
	{opCreate, 2}, {opAddBal, 2}, {opSubBal, 2}, {opSetBal, 1}, {opSetNonce, 2}, {opSetCode, 2}, {opSetState, 4},
	{opSetTransient, 2}, {opSuicide, 2}, {opAddLog, 1}, {opAddRefund, 1}, {opSubRefund, 1}, {opALAddr, 1}, {opALSlot, 1},
	{opPreimage, 1}, {opFinalise, 2}, {opPrepare, 2}, {opIRoot, 1}, {opCommitReopen, 1},
}

// revertable = number of youngest live snapshots a revert may target. With the known finding
// listed, snapshots older than a poisoned Suicide are not offered (counted as excluded).
func (r *runner) revertable() (n int, restricted bool) {
	n = len(r.live)
	if !r.exclude {
		return n, false
	}
	for i := len(r.live) - 1; i >= 0; i-- {
		if r.live[i].poisoned {
			return len(r.live) - 1 - i, true
		}
	}
	return n, false
}

// genOp draws the next op so that structural and state-dependent preconditions hold by
// construction (no rejection).
func genOp(t *rapid.T, r *runner, rooted bool) op {
	var kinds []opKind
	nrev, restricted := r.revertable()
	for _, kw := range c12aWeights {
		o := op{k: kw.k}
		if kw.k == opRevert {
			if nrev == 0 {
				if restricted {
					stats.Excluded(fpSuicideSize)
				}
				continue
			}
		} else if !structOK(o, len(r.live), rooted, c12aMaxDepth) {
			continue
		}
		for i := 0; i < kw.w; i++ {
			kinds = append(kinds, kw.k)
		}
	}
	k := rapid.SampledFrom(kinds).Draw(t, "kind")
	o := op{k: k}
	addr := func() int { // R (precompile) is only funded, created by a call, or listed
		if k == opAddBal || k == opALAddr {
			return rapid.IntRange(0, c12aNAddr-1).Draw(t, "addr")
		}
		return rapid.IntRange(0, c12aNAddr-2).Draw(t, "addr")
	}
	slot := func() int { return rapid.IntRange(0, c12aNSlot-1).Draw(t, "slot") }
	switch k {
	case opCreate:
		var ok []op
		for a := 0; a < c12aNAddr; a++ {
			for _, c := range []op{{k: opCreate, a: a, s: 0, v: 0}, {k: opCreate, a: a, s: 0, v: 1}, {k: opCreate, a: a, s: 1, v: 0}, {k: opCreate, a: a, s: 1, v: 1}} {
				if r.precond(c) {
					ok = append(ok, c)
				}
			}
		}
		if len(ok) == 0 { // every universe address is a contract already: fund one instead
			return op{k: opAddBal, a: addr(), v: 1}
		}
		return ok[rapid.IntRange(0, len(ok)-1).Draw(t, "create")]
	case opAddBal:
		o.a, o.v = addr(), rapid.IntRange(0, 2).Draw(t, "amount")
	case opSubBal:
		o.a = addr()
		max := 2
		if b := r.s.GetBalance(c12aAddr[o.a]); b.IsInt64() && b.Int64() < 2 {
			max = int(b.Int64())
			if max < 0 {
				max = 0
			}
		}
		o.v = rapid.IntRange(0, max).Draw(t, "amount")
	case opSetBal:
		o.a, o.v = addr(), rapid.SampledFrom([]int{0, 1, 5}).Draw(t, "amount")
	case opSetNonce:
		o.a = addr()
		o.v = int(r.s.GetNonce(c12aAddr[o.a])) + rapid.IntRange(0, 1).Draw(t, "bump") // callers set nonce+1 (or re-set)
	case opSetCode:
		o.a, o.v = addr(), rapid.IntRange(0, len(c12aCode)-1).Draw(t, "code")
	case opSetState, opSetTransient:
		o.a, o.s, o.v = addr(), slot(), rapid.IntRange(0, len(c12aVal)-1).Draw(t, "val")
	case opSuicide, opALAddr:
		o.a = addr()
	case opALSlot:
		o.a, o.s = addr(), slot()
	case opAddLog:
		o.a, o.v = addr(), rapid.IntRange(0, 3).Draw(t, "n")
	case opAddRefund:
		o.v = rapid.IntRange(0, 3).Draw(t, "gas")
	case opSubRefund:
		max := 3
		if rf := r.s.GetRefund(); rf < 3 {
			max = int(rf)
		}
		o.v = rapid.IntRange(0, max).Draw(t, "gas")
	case opPreimage:
		o.v = rapid.IntRange(0, len(c12aPre)-1).Draw(t, "pre")
	case opRevert:
		o.v = rapid.IntRange(0, nrev-1).Draw(t, "depth")
	}
	return o
}

// shadowChecked is the shadow oracle for a history that was already executed successfully.
func shadowChecked(t *rapid.T, env *c12aEnv, ini *initState, seq []op, spans []span, shadow []op) *violationInfo {
	viol, bad, _ := shadowOracle(env, ini, c12aNAddr, seq, spans, shadow, true, nil, false)
	if bad >= 0 {
		panic(fmt.Sprintf("HARNESS: history valid when observed but op %d (%v) not applicable unobserved: %v", bad, seq[bad], opsStrings(seq)))
	}
	return viol
}

// safeStep is runner.step with a panic inside the repository turned into a violation.
func safeStep(r *runner, i int, o op, seq []op) (ok bool, viol *violationInfo) {
	ok = true
	defer recoverRepoPanic(&viol)
	return r.step(i, o, seq)
}

// TestC12A_Random: random histories of up to 60 ops over {A, B, R} x {s0, s1} x {0, v1, v2} with
// snapshot nesting up to 6 and several transactions / blocks per history. Revert oracle at
// every RevertToSnapshot; shadow oracle at the end of the history and at every revert point.
func TestC12A_Random(t *testing.T) {
	env := c12aGetEnv(t)
	exclude := stats.IsKnown(fpSuicideSize)
	const part = "random"
	rapid.Check(t, func(t *rapid.T) {
		ini := &c12aInits[rapid.IntRange(0, len(c12aInits)-1).Draw(t, "init")]
		nops := rapid.IntRange(3, c12aMaxOps).Draw(t, "nops")
		var (
			seq      []op
			viol     *violationInfo
			maxDepth int
			effect   bool
		)
		main, err := newRunner(env, ini, c12aNAddr, true)
		if err != nil {
			t.Fatalf("HARNESS: %v", err)
		}
		main.exclude = exclude
		rooted := false
		for len(seq) < nops && viol == nil {
			o := genOp(t, main, rooted) // rapid draws stay outside of any recover()
			seq = append(seq, o)
			ok, v := safeStep(main, len(seq)-1, o, seq)
			if !ok {
				t.Fatalf("HARNESS: generated op %v not applicable (history %v)", o, opsStrings(seq))
			}
			viol = v
			rooted = nextRooted(o, rooted)
			if len(main.live) > maxDepth {
				maxDepth = len(main.live)
			}
		}
		effect = main.effective
		if viol == nil {
			if err := main.s.Error(); err != nil {
				viol = &violationInfo{fp: "C12/A/dberr", msg: "StateDB.Error() set by a contract-respecting history: " + err.Error()}
			}
		}
		spans, shadow := analyse(seq)
		if viol == nil {
			func() {
				defer recoverRepoPanic(&viol)
				// commitment after every revert point, then of the whole history
				for i, o := range seq {
					if o.k != opRevert || i == len(seq)-1 {
						continue
					}
					psp, psh := analyse(seq[:i+1])
					if viol = shadowChecked(t, env, ini, seq[:i+1], psp, psh); viol != nil {
						viol.msg = fmt.Sprintf("[history cut after op %d] ", i) + viol.msg
						return
					}
				}
				viol = shadowChecked(t, env, ini, seq, spans, shadow)
			}()
		}

		sigKinds, nt, labels := labelsFor(ini, seq, spans)
		_ = sigKinds
		crossed := []string{}
		for _, l := range labels {
			if strings.HasPrefix(l, "x:") {
				crossed = append(crossed, l[2:])
			}
		}
		sort.Strings(crossed)
		labels = append(labels, fmt.Sprintf("depth:%d", maxDepth))
		if len(seq) >= 30 {
			labels = append(labels, "len>=30")
		}
		if effect {
			labels = append(labels, "revert_undid_observable_change")
		}
		nb := 0
		for _, o := range seq {
			if o.k.isBoundary() {
				nb++
			}
		}
		if nb > 0 && len(spans) > 0 {
			labels = append(labels, "multi_tx_with_revert")
		}
		stats.Case(part, fmt.Sprintf("%s|d%d|%s", ini.name, maxDepth, strings.Join(crossed, ",")), nt, labels...)
		if nt && stats.WantSample(part) {
			stats.Sample(part, map[string]any{"init": ini.name, "ops": opsStrings(seq)})
		}
		if viol != nil {
			reportViolation(t, part, ini, seq, shadow, viol)
		}
	})
}

// TestC12A_Regress_KnownFindings replays, once per run and without rapid, the minimal history of
// every confirmed StateDB-level finding through stats.Violation, so that the driver prints its
// KNOWN-FINDING line (or a VIOLATION if the finding is not listed).
func TestC12A_Regress_KnownFindings(t *testing.T) {
	env := c12aGetEnv(t)
	const part = "regress"
	cases := []struct {
		fp  string
		ini int
		seq []op
	}{
		// contract A has one committed storage slot (size counter 1); SELFDESTRUCT inside a frame
		// that is reverted leaves the counter at 0.
		{fpSuicideSize, 1, []op{{k: opSnapshot}, {k: opSuicide, a: 0}, {k: opRevert, v: 0}}},
	}
	for _, c := range cases {
		ini := &c12aInits[c.ini]
		spans, shadow := analyse(c.seq)
		res := runCase(env, ini, 2, false, c.seq, spans, shadow, true, nil, true)
		sig, _, labels := labelsFor(ini, c.seq, spans)
		stats.Case(part, sig, true, append(labels, "known:"+c.fp)...)
		stats.Sample(part, map[string]any{"init": ini.name, "ops": opsStrings(c.seq), "expect": c.fp})
		switch {
		case res.invalidAt >= 0:
			t.Fatalf("HARNESS: regression history not applicable at op %d", res.invalidAt)
		case res.viol == nil:
			stats.Note("known finding " + c.fp + " no longer reproduces on this tree")
			t.Logf("known finding %s no longer reproduces", c.fp)
		default:
			if res.viol.fp != c.fp {
				t.Logf("regression history of %s now reports %s", c.fp, res.viol.fp)
			}
			reportViolation(t, part, ini, c.seq, shadow, res.viol)
		}
	}
}
