// C12 part B — a failed or reverted frame leaves no trace, at the EVM level (DESIGN.md §4 C12,
// Domain B / Oracle B).
//
// This file holds the deep dump D' and the tracer that takes it at every call-like opcode and
// compares it once the call is known to have failed.
package c12

import (
	"fmt"
	"math/big"
	"sort"
	"strings"
	"time"

	"github.com/dominant-strategies/go-quai/common"
	"github.com/dominant-strategies/go-quai/core/rawdb"
	"github.com/dominant-strategies/go-quai/core/state"
	"github.com/dominant-strategies/go-quai/core/vm"
	"github.com/dominant-strategies/go-quai/crypto"
	"github.com/dominant-strategies/go-quai/params"

	"verifharness/evmgen"
)

const c12bSlots = 4

// c12bAcct is everything observable about one account through the exported getters. An account
// that does not exist and an existing empty one (no balance, nonce, code, storage size) are the
// same thing for every consumer (Finalise deletes the latter), so they are normalised.
type c12bAcct struct {
	present   bool
	balance   string
	nonce     uint64
	codeHash  common.Hash
	codeSize  int
	suicided  bool
	size      string
	cur       [c12bSlots]common.Hash
	committed [c12bSlots]common.Hash
	transient [c12bSlots]common.Hash
	alAddr    bool
	alSlot    [c12bSlots]bool
}

type c12bDump struct {
	accts       map[common.InternalAddress]*c12bAcct
	lockupSlots map[common.Hash]common.Hash
	lockupRecs  map[string]string
	refund      uint64
	logs        string
	// only when taken inside an execution
	haveEVM   bool
	etx       []common.Hash
	cbHashes  []common.Hash
	cbDeleted map[string]string
}

func c12bSlotKey(i int) common.Hash { return common.BigToHash(big.NewInt(int64(i))) }

type c12bWorldView struct {
	sdb        *state.StateDB
	world      *evmgen.World
	thash      common.Hash
	addrs      []common.InternalAddress
	addrSet    map[common.InternalAddress]bool
	tainted    map[common.InternalAddress]bool
	lockupKeys []common.Hash
	recs       []evmgen.LockupRec
	lockupIn   common.InternalAddress
}

func (v *c12bWorldView) readAcct(a common.InternalAddress) *c12bAcct {
	s := v.sdb
	r := &c12bAcct{}
	if !s.Exist(a) || s.Empty(a) && !s.HasSuicided(a) {
		// transient storage and access-list membership are independent of existence
		for i := 0; i < c12bSlots; i++ {
			r.transient[i] = s.GetTransientState(a, c12bSlotKey(i))
			_, r.alSlot[i] = s.SlotInAccessList(a.Bytes20(), c12bSlotKey(i))
		}
		r.alAddr = s.AddressInAccessList(a.Bytes20())
		return r
	}
	r.present = true
	r.balance = s.GetBalance(a).String()
	r.nonce = s.GetNonce(a)
	r.codeHash = s.GetCodeHash(a)
	r.codeSize = s.GetCodeSize(a)
	r.suicided = s.HasSuicided(a)
	r.size = s.GetSize(a).String()
	r.alAddr = s.AddressInAccessList(a.Bytes20())
	for i := 0; i < c12bSlots; i++ {
		k := c12bSlotKey(i)
		r.cur[i] = s.GetState(a, k)
		r.committed[i] = s.GetCommittedState(a, k)
		r.transient[i] = s.GetTransientState(a, k)
		_, r.alSlot[i] = s.SlotInAccessList(a.Bytes20(), k)
	}
	return r
}

func (v *c12bWorldView) recKey(r evmgen.LockupRec) string {
	return fmt.Sprintf("%s/%s/%d/%d", evmgen.U().Name(r.Owner), r.Miner.Hex(), r.LockupByte, r.Epoch)
}

func (v *c12bWorldView) dump(env *vm.EVM) *c12bDump {
	d := &c12bDump{accts: map[common.InternalAddress]*c12bAcct{}, lockupSlots: map[common.Hash]common.Hash{}, lockupRecs: map[string]string{}}
	for _, a := range v.addrs {
		d.accts[a] = v.readAcct(a)
	}
	for _, k := range v.lockupKeys {
		d.lockupSlots[k] = v.sdb.GetState(v.lockupIn, k)
	}
	for _, r := range v.recs {
		bal, unlock, elems, del := rawdb.ReadCoinbaseLockup(v.world.KV, v.world.Batch, r.Owner, r.Miner, r.LockupByte, r.Epoch)
		d.lockupRecs[v.recKey(r)] = fmt.Sprintf("balance=%v unlock=%d elements=%d delegate=%x", bal, unlock, elems, del.Bytes())
	}
	d.refund = v.sdb.GetRefund()
	var sb strings.Builder
	for _, l := range v.sdb.GetLogs(v.thash, common.Hash{}) {
		fmt.Fprintf(&sb, "%x:%d:%x;", l.Address.Bytes(), len(l.Topics), crypto.Keccak256(l.Data)[:4])
	}
	d.logs = sb.String()
	if env != nil {
		d.haveEVM = true
		for _, e := range env.ETXCache {
			d.etx = append(d.etx, e.Hash())
		}
		for _, h := range env.CoinbaseDeletedHashes {
			d.cbHashes = append(d.cbHashes, *h)
		}
		d.cbDeleted = map[string]string{}
		for k, val := range env.CoinbasesDeleted {
			d.cbDeleted[fmt.Sprintf("%x", k[:])] = fmt.Sprintf("%x", val)
		}
	}
	return d
}

type c12bDiff struct{ kind, where, before, after string }

func (d c12bDiff) String() string {
	return fmt.Sprintf("%s %s: %s -> %s", d.kind, d.where, d.before, d.after)
}

// c12bCompare lists the differences between two dumps. nonceFree names an account whose nonce may
// have grown by one (the creator of a failed CREATE: evm.create bumps it before its snapshot).
func (v *c12bWorldView) compare(a, b *c12bDump, nonceFree *common.InternalAddress, skip map[common.InternalAddress]bool) []c12bDiff {
	var out []c12bDiff
	u := evmgen.U()
	add := func(kind, where string, x, y any) {
		out = append(out, c12bDiff{kind, where, fmt.Sprint(x), fmt.Sprint(y)})
	}
	addrs := make([]common.InternalAddress, 0, len(b.accts))
	for k := range b.accts {
		addrs = append(addrs, k)
	}
	sort.Slice(addrs, func(i, j int) bool { return addrs[i].Cmp(addrs[j]) < 0 })
	for _, ad := range addrs {
		if v.tainted[ad] || skip[ad] {
			continue
		}
		x, ok := a.accts[ad]
		y := b.accts[ad]
		if !ok {
			continue // never happens: new addresses are back-filled into live dumps
		}
		name := u.Name(common.Bytes20ToAddress(ad, evmgen.Loc))
		if x.present != y.present {
			add("acct.exists", name, x.present, y.present)
		}
		if x.balance != y.balance {
			add("acct.balance", name, x.balance, y.balance)
		}
		if x.nonce != y.nonce {
			if !(nonceFree != nil && *nonceFree == ad && y.nonce == x.nonce+1) {
				add("acct.nonce", name, x.nonce, y.nonce)
			}
		}
		if x.codeHash != y.codeHash || x.codeSize != y.codeSize {
			add("acct.code", name, fmt.Sprintf("%x/%d", x.codeHash[:4], x.codeSize), fmt.Sprintf("%x/%d", y.codeHash[:4], y.codeSize))
		}
		if x.suicided != y.suicided {
			add("acct.suicided", name, x.suicided, y.suicided)
		}
		if x.size != y.size {
			add("acct.size", name, x.size, y.size)
		}
		if x.alAddr != y.alAddr {
			add("accesslist.addr", name, x.alAddr, y.alAddr)
		}
		for i := 0; i < c12bSlots; i++ {
			if x.cur[i] != y.cur[i] {
				add("acct.storage", fmt.Sprintf("%s[%d]", name, i), x.cur[i].Hex(), y.cur[i].Hex())
			}
			if x.committed[i] != y.committed[i] {
				add("acct.committed", fmt.Sprintf("%s[%d]", name, i), x.committed[i].Hex(), y.committed[i].Hex())
			}
			if x.transient[i] != y.transient[i] {
				add("acct.transient", fmt.Sprintf("%s[%d]", name, i), x.transient[i].Hex(), y.transient[i].Hex())
			}
			if x.alSlot[i] != y.alSlot[i] {
				add("accesslist.slot", fmt.Sprintf("%s[%d]", name, i), x.alSlot[i], y.alSlot[i])
			}
		}
	}
	for _, k := range v.lockupKeys {
		if a.lockupSlots[k] != b.lockupSlots[k] {
			add("lockup.slot", k.Hex(), a.lockupSlots[k].Hex(), b.lockupSlots[k].Hex())
		}
	}
	for _, r := range v.recs {
		k := v.recKey(r)
		if a.lockupRecs[k] != b.lockupRecs[k] {
			add("lockup.record", k, a.lockupRecs[k], b.lockupRecs[k])
		}
	}
	if a.refund != b.refund {
		add("refund", "", a.refund, b.refund)
	}
	if a.logs != b.logs {
		add("logs", "", a.logs, b.logs)
	}
	if a.haveEVM && b.haveEVM {
		if fmt.Sprint(a.etx) != fmt.Sprint(b.etx) {
			add("etxcache", "", len(a.etx), len(b.etx))
		}
		if fmt.Sprint(a.cbHashes) != fmt.Sprint(b.cbHashes) {
			add("coinbase.deletedhashes", "", len(a.cbHashes), len(b.cbHashes))
		}
		if fmt.Sprint(a.cbDeleted) != fmt.Sprint(b.cbDeleted) {
			add("coinbase.deleted", "", len(a.cbDeleted), len(b.cbDeleted))
		}
	}
	return out
}

// ---------------------------------------------------------------------------------------------

type c12bPending struct {
	op      vm.OpCode
	depth   int
	pc      uint64
	self    common.InternalAddress
	d0      *c12bDump
	childID int // id the child frame gets if one is opened
	muts    int // mutating opcodes executed below this call
	kinds   map[string]bool
	created *common.InternalAddress
}

// c12bFrameCheck is the verdict for one failed call.
type c12bFrameCheck struct {
	op        vm.OpCode
	depth     int
	pc        uint64
	self      string
	hadFrame  bool
	frameErr  string
	createRej string // for CREATE/CREATE2 whose init code ran to completion
	muts      int
	kinds     []string
	diffs     []c12bDiff
	suicided  map[common.InternalAddress]bool // accounts that self-destructed inside the failed call
}

// c12bTracer wraps the evmgen tracer: same frame reconstruction, plus the deep dump at every
// call-like opcode (= the state evm.Call / evm.create snapshot) and the comparison when the
// opener finds 0 on its stack.
type c12bTracer struct {
	*evmgen.Tracer
	view       *c12bWorldView
	env        *evmgen.Env
	pend       map[int]*c12bPending
	checks     []c12bFrameCheck
	live       []*c12bDump // dumps that must learn about newly mentioned addresses (tx-level one first)
	mispredict int
}

func c12bNewTracer(v *c12bWorldView, env *evmgen.Env, enforce bool) *c12bTracer {
	t := &c12bTracer{Tracer: evmgen.NewTracer(), view: v, env: env, pend: map[int]*c12bPending{}}
	t.Tracer.EnforceAccessList = enforce
	return t
}

// mention registers an address before the opcode that may change it executes, and back-fills its
// current record into every live dump (sound: nothing can have changed an account before the
// first opcode that names it).
func (t *c12bTracer) mention(a common.Address) *common.InternalAddress {
	in, err := a.InternalAndQuaiAddress()
	if err != nil {
		return nil
	}
	v := t.view
	if v.addrSet[in] {
		return &in
	}
	v.addrSet[in] = true
	v.addrs = append(v.addrs, in)
	rec := v.readAcct(in)
	for _, d := range t.live {
		cp := *rec
		d.accts[in] = &cp
	}
	for _, p := range t.pend {
		cp := *rec
		p.d0.accts[in] = &cp
	}
	return &in
}

func (t *c12bTracer) CaptureStart(env *vm.EVM, from common.Address, to common.Address, create bool, input []byte, gas uint64, value *big.Int) {
	t.Tracer.CaptureStart(env, from, to, create, input, gas, value)
}

func (t *c12bTracer) CaptureEnd(output []byte, gasUsed uint64, d time.Duration, err error) {
	t.Tracer.CaptureEnd(output, gasUsed, d, err)
}

func (t *c12bTracer) CaptureFault(env *vm.EVM, pc uint64, op vm.OpCode, gas, cost uint64, scope *vm.ScopeContext, depth int, err error) {
	// a fault is either of an opcode whose CaptureState already resolved the pending call, or of
	// the pending call opcode itself (it raised an exceptional halt instead of pushing a result:
	// the opener's own frame fails and is judged one level up)
	for d := range t.pend {
		if d >= depth {
			delete(t.pend, d)
		}
	}
	t.Tracer.CaptureFault(env, pc, op, gas, cost, scope, depth, err)
}

func (t *c12bTracer) CaptureState(env *vm.EVM, pc uint64, op vm.OpCode, gas, cost uint64, scope *vm.ScopeContext, rData []byte, depth int, err error, loc common.Location) {
	t.before(env, pc, op, scope, depth, err)
	t.Tracer.CaptureState(env, pc, op, gas, cost, scope, rData, depth, err, loc)
	if err == nil {
		t.after(env, pc, op, scope, depth)
	}
}

// before: resolve the call that was pending at this depth.
func (t *c12bTracer) before(env *vm.EVM, pc uint64, op vm.OpCode, scope *vm.ScopeContext, depth int, err error) {
	for d := range t.pend {
		if d > depth {
			delete(t.pend, d)
		}
	}
	p, ok := t.pend[depth]
	if !ok {
		return
	}
	delete(t.pend, depth)
	// this is a CaptureState: the call opcode has completed and pushed its result word (when err
	// is set the NEXT opcode failed its pre-checks; the stack is still as the call left it)
	stack := scope.Stack.Data()
	if len(stack) == 0 {
		return
	}
	flag := stack[len(stack)-1]
	isCreate := p.op == vm.CREATE || p.op == vm.CREATE2
	if !flag.IsZero() {
		if isCreate {
			// the address actually used must be the predicted one, otherwise it was first seen after
			// it had been written and cannot be judged
			got := common.Bytes20ToAddress(flag.Bytes20(), evmgen.Loc)
			if in, e := got.InternalAndQuaiAddress(); e == nil {
				if p.created == nil || *p.created != in {
					t.mispredict++
					t.view.tainted[in] = true
				}
			}
		}
		return
	}
	// the call failed: nothing of it may remain
	d1 := t.view.dump(env)
	var nonceFree *common.InternalAddress
	if isCreate {
		nonceFree = &p.self
	}
	fc := c12bFrameCheck{op: p.op, depth: p.depth, pc: p.pc, self: evmgen.U().Name(common.Bytes20ToAddress(p.self, evmgen.Loc)), muts: p.muts,
		diffs: t.view.compare(p.d0, d1, nonceFree, nil), suicided: map[common.InternalAddress]bool{}}
	for k := range p.kinds {
		fc.kinds = append(fc.kinds, k)
	}
	sort.Strings(fc.kinds)
	if len(t.Tracer.Frames) > p.childID && t.Tracer.Frames[p.childID].Depth == depth+1 {
		f := t.Tracer.Frames[p.childID]
		fc.hadFrame = true
		fc.frameErr = f.Err
		if isCreate && !f.Failed {
			fc.createRej = f.CreateRejected(uint64(params.GetMaxCodeSize(t.env.BlockNumber)))
		}
		for _, s := range t.Tracer.Suicides {
			if s.Frame >= p.childID {
				if in, e := s.Addr.InternalAndQuaiAddress(); e == nil {
					fc.suicided[in] = true
				}
			}
		}
	}
	t.checks = append(t.checks, fc)
}

// after: the opcode at this event is about to execute.
func (t *c12bTracer) after(env *vm.EVM, pc uint64, op vm.OpCode, scope *vm.ScopeContext, depth int) {
	stack := scope.Stack.Data()
	n := len(stack)
	self := scope.Contract.Address()
	mut := ""
	switch op {
	case vm.SSTORE:
		mut = "SSTORE"
	case vm.TSTORE:
		mut = "TSTORE"
	case vm.LOG0, vm.LOG1, vm.LOG2, vm.LOG3, vm.LOG4:
		mut = "LOG"
	case vm.ETX:
		mut = "ETX"
	case vm.CONVERT:
		mut = "CONVERT"
	case vm.SELFDESTRUCT:
		mut = "SELFDESTRUCT"
		if n >= 1 {
			t.mention(common.Bytes20ToAddress(stack[n-1].Bytes20(), evmgen.Loc))
		}
	case vm.CREATE, vm.CREATE2:
		mut = op.String()
	case vm.CALL, vm.CALLCODE:
		if n >= 3 && !stack[n-3].IsZero() {
			mut = "VALUE-" + op.String()
		}
		if n >= 2 && common.Bytes20ToAddress(stack[n-2].Bytes20(), evmgen.Loc).Equal(evmgen.U().Lockup) && op == vm.CALL {
			mut = "LOCKUP"
		}
	}
	if mut != "" {
		for d, p := range t.pend {
			if d < depth {
				p.muts++
				p.kinds[mut] = true
			}
		}
	}
	switch op {
	case vm.CALL, vm.CALLCODE, vm.DELEGATECALL, vm.STATICCALL, vm.CREATE, vm.CREATE2:
	default:
		return
	}
	selfIn := t.mention(self)
	if selfIn == nil {
		return
	}
	p := &c12bPending{op: op, depth: depth, pc: pc, self: *selfIn, childID: len(t.Tracer.Frames), kinds: map[string]bool{}}
	switch op {
	case vm.CALL, vm.CALLCODE, vm.DELEGATECALL, vm.STATICCALL:
		if n >= 2 {
			t.mention(common.Bytes20ToAddress(stack[n-2].Bytes20(), evmgen.Loc))
		}
	case vm.CREATE:
		if n >= 3 && stack[n-2].IsUint64() && stack[n-3].IsUint64() && stack[n-3].Uint64() <= 1<<17 {
			off, size := stack[n-2].Uint64(), stack[n-3].Uint64()
			if off+size <= uint64(scope.Memory.Len()) || size == 0 {
				code := scope.Memory.GetCopy(int64(off), int64(size))
				nonce := env.StateDB.GetNonce(*selfIn)
				if a, ok := evmgen.PredictCreateAddress(self, nonce, code, t.env.BlockNumber); ok {
					p.created = t.mention(a)
				}
			}
		}
	case vm.CREATE2:
		if n >= 4 && stack[n-2].IsUint64() && stack[n-3].IsUint64() && stack[n-3].Uint64() <= 1<<17 {
			off, size := stack[n-2].Uint64(), stack[n-3].Uint64()
			if off+size <= uint64(scope.Memory.Len()) || size == 0 {
				code := scope.Memory.GetCopy(int64(off), int64(size))
				a := crypto.CreateAddress2(self, stack[n-4].Bytes32(), crypto.Keccak256(code), evmgen.Loc)
				p.created = t.mention(a)
			}
		}
	}
	p.d0 = t.view.dump(env)
	t.pend[depth] = p
}
