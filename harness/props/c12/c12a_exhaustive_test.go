package c12

import (
	"fmt"
	"os"
	"strconv"
	"testing"

	"verifharness/stats"
)

// exhaustiveAlphabet is the op alphabet of the bounded-exhaustive check: universe {A, B} x
// {s0, s1} x {0, v1, v2}.
func c12aExhaustiveAlphabet(maxLen int) []c12aOp {
	var al []c12aOp
	for a := 0; a < 2; a++ {
		al = append(al, c12aOp{k: c12aOpCreate, a: a, s: 0, v: 1}, c12aOp{k: c12aOpCreate, a: a, s: 1, v: 0}, c12aOp{k: c12aOpCreate, a: a, s: 1, v: 1})
	}
	for a := 0; a < 2; a++ {
		al = append(al, c12aOp{k: c12aOpAddBal, a: a, v: 1}, c12aOp{k: c12aOpAddBal, a: a, v: 0})
	}
	for a := 0; a < 2; a++ {
		al = append(al, c12aOp{k: c12aOpSubBal, a: a, v: 1})
	}
	for a := 0; a < 2; a++ {
		al = append(al, c12aOp{k: c12aOpSetBal, a: a, v: 5})
	}
	for a := 0; a < 2; a++ {
		al = append(al, c12aOp{k: c12aOpSetNonce, a: a, v: 2})
	}
	for a := 0; a < 2; a++ {
		al = append(al, c12aOp{k: c12aOpSetCode, a: a, v: 2})
	}
	for a := 0; a < 2; a++ {
		for s := 0; s < c12aNSlot; s++ {
			for v := 0; v < 3; v++ {
				al = append(al, c12aOp{k: c12aOpSetState, a: a, s: s, v: v})
			}
		}
	}
	for a := 0; a < 2; a++ {
		for v := 0; v < 2; v++ {
			al = append(al, c12aOp{k: c12aOpSetTransient, a: a, s: 0, v: v})
		}
	}
	for a := 0; a < 2; a++ {
		al = append(al, c12aOp{k: c12aOpSuicide, a: a})
	}
	al = append(al, c12aOp{k: c12aOpAddLog, a: 0, v: 0}, c12aOp{k: c12aOpAddRefund, v: 1}, c12aOp{k: c12aOpSubRefund, v: 1})
	for a := 0; a < 2; a++ {
		al = append(al, c12aOp{k: c12aOpALAddr, a: a})
		for s := 0; s < c12aNSlot; s++ {
			al = append(al, c12aOp{k: c12aOpALSlot, a: a, s: s})
		}
	}
	al = append(al, c12aOp{k: c12aOpPreimage, v: 0}, c12aOp{k: c12aOpSnapshot})
	for j := 0; j <= maxLen-2; j++ {
		al = append(al, c12aOp{k: c12aOpRevert, v: j})
	}
	al = append(al, c12aOp{k: c12aOpFinalise}, c12aOp{k: c12aOpPrepare}, c12aOp{k: c12aOpIRoot}, c12aOp{k: c12aOpCommitReopen})
	return al
}

func c12aHasPrecond(k c12aOpKind) bool {
	return k == c12aOpSubBal || k == c12aOpSubRefund || k == c12aOpCreate
}

// TestC12A_Exhaustive enumerates, for each of the three pre-states, ALL op sequences of length
// <= L over the alphabet that respect the caller contract and contain at least one
// RevertToSnapshot (a sequence without a revert evaluates no oracle), and checks both oracles on
// each of them. The space is partitioned over the shards by the first three ops.
func TestC12A_Exhaustive(t *testing.T) {
	env := c12aGetEnv(t)
	// maximal length per pre-state (empty, rich, pending). Cost grows ~55x per extra op: the
	// thorough tier affords length 6 only from the "rich" pre-state.
	lens := [3]int{5, 5, 5}
	if stats.Thorough() {
		lens = [3]int{5, 6, 5}
	}
	if v, err := strconv.Atoi(os.Getenv("C12A_MAXLEN")); err == nil && v >= 2 {
		lens = [3]int{v, v, v}
	}
	shard, nsh := stats.Shard(), stats.NShards()
	exclude := stats.IsKnown(c12aFpSuicideSize)
	const part = "exhaustive"
	var executed, invalid int64
	memo := map[string]*c12aCommitD{}

	var N int
	for ii := range c12aInits {
		ini := &c12aInits[ii]
		L := lens[ii]
		alpha := c12aExhaustiveAlphabet(L)
		N = len(alpha)
		seq := make([]c12aOp, 0, L)
		idx := make([]int, 0, L)

		prefixValid := func() bool {
			r, err := c12aNewRunner(env, ini, 2, false)
			if err != nil {
				t.Fatalf("HARNESS: %v", err)
			}
			for i, o := range seq {
				if ok, _ := r.step(i, o, seq); !ok {
					if i != len(seq)-1 {
						t.Fatalf("HARNESS: precondition failed inside an already validated prefix: %v @%d", c12aOpsStrings(seq), i)
					}
					return false
				}
			}
			return true
		}
		execOne := func() bool {
			spans, shadow := c12aAnalyse(seq)
			// the revert oracle of every earlier revert was evaluated when that prefix was enumerated
			observe := seq[len(seq)-1].k == c12aOpRevert
			res := c12aRunCase(env, ini, 2, exclude, seq, spans, shadow, false, memo, observe)
			if res.invalidAt >= 0 {
				if res.invalidAt != len(seq)-1 {
					t.Fatalf("HARNESS: precondition failed inside an already validated prefix: %v @%d", c12aOpsStrings(seq), res.invalidAt)
				}
				invalid++
				return false
			}
			if res.excluded {
				stats.Excluded(c12aFpSuicideSize)
				return false
			}
			executed++
			sig, nt, labels := c12aLabelsFor(ini, seq, spans)
			if res.effective {
				labels = append(labels, "revert_undid_observable_change")
			}
			labels = append(labels, fmt.Sprintf("len:%d", len(seq)))
			stats.Case(part, sig, nt, labels...)
			if nt && stats.WantSample(part) {
				stats.Sample(part, map[string]any{"init": ini.name, "ops": c12aOpsStrings(seq)})
			}
			if res.viol != nil {
				c12aReportViolation(t, part, ini, seq, shadow, res.viol)
			}
			return true
		}

		var rec func(live int, rooted, hasRev bool)
		rec = func(live int, rooted, hasRev bool) {
			for i, o := range alpha {
				if !c12aStructOK(o, live, rooted, L) {
					continue
				}
				seq, idx = append(seq, o), append(idx, i)
				n := len(seq)
				nl, hr, rem := c12aNextLive(o, live), hasRev || o.k == c12aOpRevert, L-n
				descend := true
				// work is dealt out by a hash of the first three ops; shorter sequences are executed
				// by the shard their own hash names, but every shard walks through them
				h := 0
				for _, x := range idx[:min(n, 3)] {
					h = h*131 + x + 1
				}
				mine := h%nsh == shard
				switch {
				case n == 3 && !mine:
					descend = false
				case !(hr || (nl > 0 && rem >= 1) || rem >= 2):
					descend = false // no revert reachable any more
				case hr && (mine || n > 3):
					descend = execOne()
				case hr || c12aHasPrecond(o.k):
					descend = prefixValid()
				}
				if descend && rem > 0 {
					rec(nl, c12aNextRooted(o, rooted), hr)
				}
				seq, idx = seq[:n-1], idx[:n-1]
			}
		}
		rec(0, false, false)
	}
	stats.Exhaustive(part)
	stats.Note(fmt.Sprintf("C12A exhaustive: alphabet=%d ops, max length per pre-state (empty,rich,pending)=%v; all contract-respecting sequences containing a revert", N, lens))
	t.Logf("shard %d/%d: executed %d sequences (max lengths %v, alphabet %d), %d pruned by precondition", shard, nsh, executed, lens, N, invalid)
}
