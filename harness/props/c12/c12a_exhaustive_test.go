package c12

import (
	"fmt"
	"os"
	"strconv"
	"testing"

	"verifharness/stats"
)

// exhaustiveAlphabet is the op alphabet of the bounded-exhaustive check: universe {A, B} x
// {s0, s1} x {0, v1, v2}.
func exhaustiveAlphabet(maxLen int) []op {
	var al []op
	for a := 0; a < 2; a++ {
		al = append(al, op{k: opCreate, a: a})
	}
	for a := 0; a < 2; a++ {
		al = append(al, op{k: opAddBal, a: a, v: 1}, op{k: opAddBal, a: a, v: 0})
	}
	for a := 0; a < 2; a++ {
		al = append(al, op{k: opSubBal, a: a, v: 1})
	}
	for a := 0; a < 2; a++ {
		al = append(al, op{k: opSetBal, a: a, v: 5})
	}
	for a := 0; a < 2; a++ {
		al = append(al, op{k: opSetNonce, a: a, v: 2})
	}
	for a := 0; a < 2; a++ {
		al = append(al, op{k: opSetCode, a: a, v: 2})
	}
	for a := 0; a < 2; a++ {
		for s := 0; s < c12aNSlot; s++ {
			for v := 0; v < 3; v++ {
				al = append(al, op{k: opSetState, a: a, s: s, v: v})
			}
		}
	}
	for a := 0; a < 2; a++ {
		for v := 0; v < 2; v++ {
			al = append(al, op{k: opSetTransient, a: a, s: 0, v: v})
		}
	}
	for a := 0; a < 2; a++ {
		al = append(al, op{k: opSuicide, a: a})
	}
	al = append(al, op{k: opAddLog, a: 0, v: 0}, op{k: opAddRefund, v: 1}, op{k: opSubRefund, v: 1})
	for a := 0; a < 2; a++ {
		al = append(al, op{k: opALAddr, a: a})
		for s := 0; s < c12aNSlot; s++ {
			al = append(al, op{k: opALSlot, a: a, s: s})
		}
	}
	al = append(al, op{k: opPreimage, v: 0}, op{k: opSnapshot})
	for j := 0; j <= maxLen-2; j++ {
		al = append(al, op{k: opRevert, v: j})
	}
	al = append(al, op{k: opFinalise}, op{k: opPrepare}, op{k: opIRoot}, op{k: opCommitReopen})
	return al
}

func hasPrecond(k opKind) bool { return k == opSubBal || k == opSubRefund || k == opCreate }

// TestC12A_Exhaustive enumerates, for each of the three pre-states, ALL op sequences of length
// <= L over the alphabet that respect the caller contract and contain at least one
// RevertToSnapshot (a sequence without a revert evaluates no oracle), and checks both oracles on
// each of them. The space is partitioned over the shards by the first two ops.
func TestC12A_Exhaustive(t *testing.T) {
	env := c12aGetEnv(t)
	L := stats.Scale(5, 6)
	if v, err := strconv.Atoi(os.Getenv("C12A_MAXLEN")); err == nil && v >= 2 {
		L = v
	}
	alpha := exhaustiveAlphabet(L)
	N := len(alpha)
	shard, nsh := stats.Shard(), stats.NShards()
	exclude := stats.IsKnown(fpSuicideSize)
	const part = "exhaustive"
	var executed, invalid int64

	for ii := range c12aInits {
		ini := &c12aInits[ii]
		seq := make([]op, 0, L)
		idx := make([]int, 0, L)

		prefixValid := func() bool {
			r, err := newRunner(env, ini, 2, obsNone)
			if err != nil {
				t.Fatalf("HARNESS: %v", err)
			}
			for i, o := range seq {
				if ok, _ := r.step(i, o, seq); !ok {
					if i != len(seq)-1 {
						t.Fatalf("HARNESS: precondition failed inside an already validated prefix: %v @%d", opsStrings(seq), i)
					}
					return false
				}
			}
			return true
		}
		execOne := func() bool {
			spans, shadow := analyse(seq)
			mode := obsFull
			res := runCase(env, ini, 2, mode, exclude, seq, spans, shadow)
			if res.invalidAt >= 0 {
				if res.invalidAt != len(seq)-1 {
					t.Fatalf("HARNESS: precondition failed inside an already validated prefix: %v @%d", opsStrings(seq), res.invalidAt)
				}
				invalid++
				return false
			}
			if res.excluded {
				stats.Excluded(fpSuicideSize)
				return false
			}
			executed++
			sig, nt, labels := labelsFor(ini, mode, seq, spans)
			if res.effective {
				labels = append(labels, "revert_undid_observable_change")
			}
			labels = append(labels, fmt.Sprintf("len:%d", len(seq)))
			stats.Case(part, sig, nt, labels...)
			if nt && stats.WantSample(part) {
				stats.Sample(part, map[string]any{"init": ini.name, "ops": opsStrings(seq)})
			}
			if res.viol != nil {
				reportViolation(t, part, ini, mode, seq, shadow, res.viol)
			}
			return true
		}

		var rec func(live int, hasRev bool)
		rec = func(live int, hasRev bool) {
			for i, o := range alpha {
				if !structOK(o, live, L) {
					continue
				}
				seq, idx = append(seq, o), append(idx, i)
				n := len(seq)
				nl, hr, rem := nextLive(o, live), hasRev || o.k == opRevert, L-n
				descend := true
				switch {
				case n == 2 && (idx[0]*N+idx[1])%nsh != shard:
					descend = false
				case !(hr || (nl > 0 && rem >= 1) || rem >= 2):
					descend = false // no revert reachable any more
				case hr:
					descend = execOne()
				case hasPrecond(o.k):
					descend = prefixValid()
				}
				if descend && rem > 0 {
					rec(nl, hr)
				}
				seq, idx = seq[:n-1], idx[:n-1]
			}
		}
		rec(0, false)
	}
	stats.Exhaustive(part)
	stats.Note(fmt.Sprintf("C12A exhaustive: alphabet=%d ops, max length=%d, %d pre-states; all contract-respecting sequences containing a revert", N, L, len(c12aInits)))
	t.Logf("shard %d/%d: executed %d sequences (max length %d, alphabet %d), %d pruned by precondition", shard, nsh, executed, L, N, invalid)
}
