// C12 part A — "a failed or reverted call frame leaves no trace", state-journal half.
//
// Shared machinery of the TestC12A_* checks: a small universe of in-zone Quai addresses, an op
// alphabet over the exported state.StateDB mutators, a runner that executes op sequences the way
// real callers do (Prepare / nested Snapshot+RevertToSnapshot / Finalize / IntermediateRoot /
// Commit+reopen), the deep dump D(s) of DESIGN.md §4 C12 "Oracle A", and the two oracles:
//
//	(revert) D after RevertToSnapshot(id) == D captured at Snapshot(id), D read through the
//	         exported getters of the state itself
//	(shadow) the commitment (Finalize + IntermediateRoot + Commit + re-read at the new root) of
//	         the history == the commitment of the same history with every reverted span
//	         (Snapshot … RevertToSnapshot) deleted; both executed unobserved on fresh StateDBs
//
// DESIGN.md asks for "IntermediateRoot of a Copy()" inside D. Copy() of a state in the middle of
// a transaction is outside the documented contract ("we only ever copy state between
// transactions"): the copy has an empty journal, so its Finalize neither deletes suicided nor
// empty objects (and can even panic on a negative size counter). The commitment is therefore
// taken the way the block processor takes it - destructively at the end of a replay - which is
// what the shadow oracle does, for every enumerated history / every revert point.
//
// API contract followed by the generators (read off core/vm/evm.go, core/state_transition.go,
// core/state_processor.go, core/worker.go):
//   - a revision id is used at most once and never after Finalize / IntermediateRoot / Commit
//     (those clear validRevisions); reverting to id also kills every younger id;
//   - Prepare (new access list + transient storage) only happens between transactions, i.e. with
//     no live snapshot;
//   - SubBalance only after a CanTransfer-style balance check, SubRefund only up to the counter;
//   - CreateAccount is never called alone: evm.Call creates a missing account only when value > 0
//     or the target is a precompile and then transfers the value (AddBalance, which "touches" an
//     empty account when the value is 0); evm.create refuses an address with nonce or code,
//     creates, sets nonce 1 and transfers the value. "create" ops are these two composites;
//   - R = 0x00…03 is the RIPEMD precompile of zone 0-0 (and the address of the historic "touch"
//     exception in stateObject.touch): it can be called/funded/listed but never has code, nonce
//     or storage of its own, so only create(call path), addbal and aladdr name it;
//   - AddSlotToAccessList only after AddAddressToAccessList for the address (PrepareAccessList);
//   - deleteEmptyObjects is always true (every caller in the repository passes true);
//   - IntermediateRoot is only taken at the end of a block (ValidateState / Finalize of the header
//     chain); the StateDB is then committed and re-opened at the new root, never mutated again.
package c12

import (
	"fmt"
	"io"
	"math/big"
	"sort"
	"strings"

	"github.com/dominant-strategies/go-quai/common"
	"github.com/dominant-strategies/go-quai/core/rawdb"
	"github.com/dominant-strategies/go-quai/core/state"
	"github.com/dominant-strategies/go-quai/core/types"
	"github.com/dominant-strategies/go-quai/crypto"
	"github.com/dominant-strategies/go-quai/ethdb"
	"github.com/dominant-strategies/go-quai/log"
	"github.com/sirupsen/logrus"

	"verifharness/stats"
)

// ---- environment ------------------------------------------------------------------------------

var c12aLoc = common.Location{0, 0}

func c12aNullLogger() *log.Logger {
	l := logrus.New()
	l.SetOutput(io.Discard)
	l.SetLevel(logrus.PanicLevel)
	return l
}

// memorydb.Location() returns nil; give the database the zone the state lives in.
type c12aLocDB struct{ ethdb.Database }

func (c12aLocDB) Location() common.Location { return c12aLoc }

const (
	c12aNAddr = 3 // A, B and R (the RIPEMD "touch" special case 0x…03); the enumeration uses A, B
	c12aNSlot = 2

	c12aRipemd = 2 // index of R
)

var (
	c12aAddr     [c12aNAddr]common.InternalAddress
	c12aAddrExt  [c12aNAddr]common.Address
	c12aAddrName = [c12aNAddr]string{"A", "B", "R"}
	c12aSlot     = [c12aNSlot]common.Hash{{31: 1}, {0: 0xff, 31: 2}}
	c12aVal      = [3]common.Hash{{}, {31: 0x11}, {0: 0x80, 31: 0x22}}
	c12aCode     = [3][]byte{{}, {0x60, 0x00, 0x60, 0x00, 0xf3}, {0xfe}}
	c12aPre      = [2][]byte{[]byte("p0"), []byte("preimage-1")}
)

type c12aEnv struct {
	logger   *log.Logger
	db       state.Database
	richRoot common.Hash
	richSize *big.Int
}

var c12aTheEnv *c12aEnv

var c12aEmptyCodeHash = crypto.Keccak256Hash(nil)

type c12aFataler interface {
	Fatalf(string, ...any)
}

// c12aGetEnv builds (once per process) the shared trie database and the committed "rich"
// pre-state: A = contract (balance 3, nonce 1, code, slot0 = v1, storage size 1), B = funded EOA.
// Trie nodes and code are content addressed, so sharing the database between cases is safe.
func c12aGetEnv(t c12aFataler) *c12aEnv {
	if c12aTheEnv != nil {
		return c12aTheEnv
	}
	logger := c12aNullLogger()
	log.Global = logger
	hex := [c12aNAddr]string{
		"0x0011111111111111111111111111111111111111",
		"0x0022222222222222222222222222222222222222",
		"0x0000000000000000000000000000000000000003",
	}
	for i, h := range hex {
		c12aAddrExt[i] = common.HexToAddress(h, c12aLoc)
		ia, err := c12aAddrExt[i].InternalAndQuaiAddress()
		if err != nil {
			t.Fatalf("HARNESS: universe address %s: %v", h, err)
		}
		c12aAddr[i] = ia
	}
	e := &c12aEnv{logger: logger}
	e.db = state.NewDatabase(c12aLocDB{rawdb.NewMemoryDatabase(logger)})
	s, err := state.New(types.EmptyRootHash, types.EmptyRootHash, big.NewInt(0), e.db, e.db, nil, c12aLoc, logger)
	if err != nil {
		t.Fatalf("HARNESS: state.New: %v", err)
	}
	s.CreateAccount(c12aAddr[0])
	s.AddBalance(c12aAddr[0], big.NewInt(3))
	s.SetNonce(c12aAddr[0], 1)
	s.SetCode(c12aAddr[0], c12aCode[1])
	s.SetState(c12aAddr[0], c12aSlot[0], c12aVal[1])
	s.AddBalance(c12aAddr[1], big.NewInt(2))
	root, err := s.Commit(true)
	if err != nil || s.Error() != nil {
		t.Fatalf("HARNESS: commit of the rich pre-state: %v / %v", err, s.Error())
	}
	e.richRoot, e.richSize = root, big.NewInt(2) // two accounts; asserted below through a re-read
	chk, err := state.New(root, types.EmptyRootHash, e.richSize, e.db, e.db, nil, c12aLoc, logger)
	if err != nil {
		t.Fatalf("HARNESS: reopen rich pre-state: %v", err)
	}
	if chk.GetSize(c12aAddr[0]).Int64() != 1 || chk.GetBalance(c12aAddr[1]).Int64() != 2 || e.richSize.Int64() != 2 {
		t.Fatalf("HARNESS: rich pre-state not as intended: sizeA=%v balB=%v trieSize=%v", chk.GetSize(c12aAddr[0]), chk.GetBalance(c12aAddr[1]), e.richSize)
	}
	c12aTheEnv = e
	return e
}

// ---- ops --------------------------------------------------------------------------------------

type c12aOpKind uint8

const (
	c12aOpCreate c12aOpKind = iota
	c12aOpAddBal
	c12aOpSubBal
	c12aOpSetBal
	c12aOpSetNonce
	c12aOpSetCode
	c12aOpSetState
	c12aOpSetTransient
	c12aOpSuicide
	c12aOpAddLog
	c12aOpAddRefund
	c12aOpSubRefund
	c12aOpALAddr
	c12aOpALSlot
	c12aOpPreimage
	c12aOpSnapshot
	c12aOpRevert // v = j: revert to the j-th youngest live snapshot
	c12aOpFinalise
	c12aOpPrepare
	c12aOpIRoot
	c12aOpCommitReopen
	c12aNOpKinds
)

var c12aOpKindName = [c12aNOpKinds]string{"create", "addbal", "subbal", "setbal", "setnonce", "setcode", "setstate", "settransient",
	"suicide", "addlog", "addrefund", "subrefund", "aladdr", "alslot", "preimage", "snapshot", "revert", "finalise", "prepare",
	"iroot", "commitreopen"}

func (k c12aOpKind) isBoundary() bool {
	return k == c12aOpFinalise || k == c12aOpIRoot || k == c12aOpCommitReopen
}
func (k c12aOpKind) isMutation() bool {
	return k != c12aOpSnapshot && k != c12aOpRevert && k != c12aOpPrepare && !k.isBoundary()
}

// op: a = address index, s = slot index, v = value index / amount / nonce / code index / depth.
type c12aOp struct {
	k       c12aOpKind
	a, s, v int
}

func (o c12aOp) String() string {
	n := c12aOpKindName[o.k]
	switch o.k {
	case c12aOpCreate:
		return fmt.Sprintf("%s %s %s value=%d", n, c12aAddrName[o.a], [2]string{"via-call", "via-create"}[o.s], o.v)
	case c12aOpSuicide, c12aOpALAddr:
		return n + " " + c12aAddrName[o.a]
	case c12aOpAddBal, c12aOpSubBal, c12aOpSetBal, c12aOpSetNonce, c12aOpSetCode:
		return fmt.Sprintf("%s %s %d", n, c12aAddrName[o.a], o.v)
	case c12aOpSetState, c12aOpSetTransient:
		return fmt.Sprintf("%s %s s%d=v%d", n, c12aAddrName[o.a], o.s, o.v)
	case c12aOpALSlot:
		return fmt.Sprintf("%s %s s%d", n, c12aAddrName[o.a], o.s)
	case c12aOpAddLog:
		return fmt.Sprintf("%s %s #%d", n, c12aAddrName[o.a], o.v)
	case c12aOpAddRefund, c12aOpSubRefund, c12aOpPreimage, c12aOpRevert:
		return fmt.Sprintf("%s %d", n, o.v)
	}
	return n
}

func c12aOpsStrings(seq []c12aOp) []string {
	out := make([]string, len(seq))
	for i, o := range seq {
		out[i] = o.String()
	}
	return out
}

// structOK: the part of the caller contract that depends only on the number of live snapshots
// and on whether IntermediateRoot has been taken on this StateDB (rooted): every caller in the
// repository takes the root at the very end of a block and then only commits / discards the
// StateDB, so after "iroot" only commit+reopen may follow.
func c12aStructOK(o c12aOp, live int, rooted bool, maxDepth int) bool {
	if rooted {
		return o.k == c12aOpCommitReopen
	}
	switch o.k {
	case c12aOpSnapshot:
		return live < maxDepth
	case c12aOpRevert:
		return o.v < live
	case c12aOpPrepare:
		return live == 0
	}
	return true
}

func c12aNextRooted(o c12aOp, rooted bool) bool {
	switch o.k {
	case c12aOpIRoot:
		return true
	case c12aOpCommitReopen:
		return false
	}
	return rooted
}

func c12aNextLive(o c12aOp, live int) int {
	switch {
	case o.k == c12aOpSnapshot:
		return live + 1
	case o.k == c12aOpRevert:
		return live - o.v - 1
	case o.k.isBoundary():
		return 0
	}
	return live
}

// span describes one RevertToSnapshot of a sequence: ops[from] is the Snapshot, ops[to] the revert.
type c12aSpan struct{ from, to int }

// analyse returns the reverted spans (outermost only; nested reverted spans inside a reverted
// span are contained in it) and the shadow sequence with those spans removed.
func c12aAnalyse(seq []c12aOp) (spans []c12aSpan, shadow []c12aOp) {
	var stack []int
	removed := make([]bool, len(seq))
	for i, o := range seq {
		switch {
		case o.k == c12aOpSnapshot:
			stack = append(stack, i)
		case o.k == c12aOpRevert:
			from := stack[len(stack)-1-o.v]
			stack = stack[:len(stack)-1-o.v]
			// drop spans nested in this one
			keep := spans[:0]
			for _, sp := range spans {
				if sp.from < from {
					keep = append(keep, sp)
				}
			}
			spans = append(keep, c12aSpan{from, i})
			for j := from; j <= i; j++ {
				removed[j] = true
			}
		case o.k.isBoundary():
			stack = stack[:0]
		}
	}
	for i, o := range seq {
		if !removed[i] {
			shadow = append(shadow, o)
		}
	}
	return spans, shadow
}

// ---- dump D(s) --------------------------------------------------------------------------------

type c12aAcctD struct {
	Exists, Empty, Suicided bool
	Balance, Size           string
	Nonce                   uint64
	CodeHash                common.Hash
	Code                    string
	State, Committed        [c12aNSlot]common.Hash
}

type c12aDumpD struct {
	Acct      [c12aNAddr]c12aAcctD
	Refund    uint64
	Logs      string
	Preimages string
	ALAddr    [c12aNAddr]bool
	ALSlot    [c12aNAddr][c12aNSlot]bool
	Transient [c12aNAddr][c12aNSlot]common.Hash
	TrieSize  string
}

// commitD is what a caller obtains by ending the transaction and the block at this point:
// Finalize(true), IntermediateRoot(true), Commit(true), and the state re-read from the new root.
type c12aCommitD struct {
	Root, CommitRoot common.Hash
	TrieSize         string
	After            c12aDumpD // getters after Finalize + IntermediateRoot on the state itself
	Reopened         c12aDumpD // getters on a fresh StateDB opened at the committed root
	Err              string
}

func c12aReadDump(s *state.StateDB, nAddr int, thashes []common.Hash) (d c12aDumpD) {
	for i := 0; i < nAddr; i++ {
		a := c12aAddr[i]
		ad := &d.Acct[i]
		for j := 0; j < c12aNSlot; j++ {
			d.Transient[i][j] = s.GetTransientState(a, c12aSlot[j])
			_, d.ALSlot[i][j] = s.SlotInAccessList(a.Bytes20(), c12aSlot[j])
		}
		d.ALAddr[i] = s.AddressInAccessList(a.Bytes20())
		ad.Exists = s.Exist(a)
		if !ad.Exists {
			// every account getter answers its zero value for a missing object (and would cost a
			// trie lookup each); record the canonical "missing" row
			ad.Empty, ad.Balance, ad.Size = true, "0", "0"
			continue
		}
		ad.Empty, ad.Suicided = s.Empty(a), s.HasSuicided(a)
		ad.Balance, ad.Size, ad.Nonce = s.GetBalance(a).String(), s.GetSize(a).String(), s.GetNonce(a)
		ad.CodeHash = s.GetCodeHash(a)
		ad.Code = string(s.GetCode(a))
		for j := 0; j < c12aNSlot; j++ {
			ad.State[j] = s.GetState(a, c12aSlot[j])
			ad.Committed[j] = s.GetCommittedState(a, c12aSlot[j])
		}
		continue
	}
	d.Refund = s.GetRefund()
	var sb strings.Builder
	for _, th := range thashes {
		for _, l := range s.GetLogs(th, common.Hash{}) {
			fmt.Fprintf(&sb, "[tx=%x/%d idx=%d addr=%x topics=%x data=%x]", l.TxHash[30:], l.TxIndex, l.Index, l.Address.Bytes(), l.Topics, l.Data)
		}
	}
	d.Logs = sb.String()
	pre := s.Preimages()
	if len(pre) > 0 {
		keys := make([]string, 0, len(pre))
		for h, p := range pre {
			keys = append(keys, fmt.Sprintf("%x=%x", h[:4], p))
		}
		sort.Strings(keys)
		d.Preimages = strings.Join(keys, ",")
	}
	d.TrieSize = s.GetQuaiTrieSize().String()
	return d
}

// takeCommit ends the history here the way the block processor does (destructive).
func c12aTakeCommit(r *c12aRunner, persist bool) *c12aCommitD {
	env, s, nAddr, thashes := r.env, r.s, r.nAddr, r.thashes
	c := &c12aCommitD{}
	var size *big.Int
	if r.rootedSize != nil { // the history ended with "iroot": that root and size are the recorded ones
		c.Root, size = r.rootedRoot, r.rootedSize
	} else {
		s.Finalize(true)
		c.Root = s.IntermediateRoot(true)
		size = new(big.Int).Set(s.GetQuaiTrieSize()) // the value the header records (QuaiStateSize)
	}
	c.TrieSize = size.String()
	c.After = c12aReadDump(s, nAddr, thashes)
	if !persist {
		if e := s.Error(); e != nil {
			c.Err = "dberr: " + e.Error()
		}
		return c
	}
	root, err := s.Commit(true)
	c.CommitRoot = root
	if err != nil {
		c.Err = "commit: " + err.Error()
		return c
	}
	if e := s.Error(); e != nil {
		c.Err = "dberr: " + e.Error()
	}
	// the next block opens the state with the size recorded in the header, i.e. the one read
	// right after IntermediateRoot, not whatever the counter is after Commit
	ns, err := state.New(root, types.EmptyRootHash, size, env.db, env.db, nil, c12aLoc, env.logger)
	if err != nil {
		c.Err += " reopen: " + err.Error()
		return c
	}
	c.Reopened = c12aReadDump(ns, nAddr, nil)
	return c
}

type c12aFieldDiff struct{ kind, name, before, after string }

func c12aDiffDumpD(prefix string, nAddr int, a, b *c12aDumpD, out *[]c12aFieldDiff) {
	add := func(kind, name string, x, y any) {
		*out = append(*out, c12aFieldDiff{prefix + kind, prefix + name, fmt.Sprint(x), fmt.Sprint(y)})
	}
	for i := 0; i < nAddr; i++ {
		x, y, n := &a.Acct[i], &b.Acct[i], "acct["+c12aAddrName[i]+"]."
		if x.Exists != y.Exists {
			add("acct.exists", n+"exists", x.Exists, y.Exists)
		}
		if x.Empty != y.Empty {
			add("acct.empty", n+"empty", x.Empty, y.Empty)
		}
		if x.Suicided != y.Suicided {
			add("acct.suicided", n+"suicided", x.Suicided, y.Suicided)
		}
		if x.Balance != y.Balance {
			add("acct.balance", n+"balance", x.Balance, y.Balance)
		}
		if x.Nonce != y.Nonce {
			add("acct.nonce", n+"nonce", x.Nonce, y.Nonce)
		}
		if x.CodeHash != y.CodeHash || x.Code != y.Code {
			add("acct.code", n+"code", fmt.Sprintf("%x/%x", x.CodeHash[:4], x.Code), fmt.Sprintf("%x/%x", y.CodeHash[:4], y.Code))
		}
		if x.Size != y.Size {
			add("acct.size", n+"size", x.Size, y.Size)
		}
		for j := 0; j < c12aNSlot; j++ {
			if x.State[j] != y.State[j] {
				add("acct.storage", fmt.Sprintf("%sstate[s%d]", n, j), x.State[j].Hex(), y.State[j].Hex())
			}
			if x.Committed[j] != y.Committed[j] {
				add("acct.committed", fmt.Sprintf("%scommitted[s%d]", n, j), x.Committed[j].Hex(), y.Committed[j].Hex())
			}
			if a.Transient[i][j] != b.Transient[i][j] {
				add("transient", fmt.Sprintf("transient[%s][s%d]", c12aAddrName[i], j), a.Transient[i][j].Hex(), b.Transient[i][j].Hex())
			}
			if a.ALSlot[i][j] != b.ALSlot[i][j] {
				add("accesslist", fmt.Sprintf("accesslist[%s][s%d]", c12aAddrName[i], j), a.ALSlot[i][j], b.ALSlot[i][j])
			}
		}
		if a.ALAddr[i] != b.ALAddr[i] {
			add("accesslist", "accesslist["+c12aAddrName[i]+"]", a.ALAddr[i], b.ALAddr[i])
		}
	}
	if a.Refund != b.Refund {
		add("refund", "refund", a.Refund, b.Refund)
	}
	if a.Logs != b.Logs {
		add("logs", "logs", a.Logs, b.Logs)
	}
	if a.Preimages != b.Preimages {
		add("preimages", "preimages", a.Preimages, b.Preimages)
	}
	if a.TrieSize != b.TrieSize {
		add("triesize", "quaiTrieSize", a.TrieSize, b.TrieSize)
	}
}

// diffCommit lists the differing fields, most specific first (the root differs whenever anything
// committed differs, so it comes last).
func c12aDiffCommit(nAddr int, a, b *c12aCommitD) []c12aFieldDiff {
	var out []c12aFieldDiff
	c12aDiffDumpD("final.", nAddr, &a.After, &b.After, &out)
	c12aDiffDumpD("reopened.", nAddr, &a.Reopened, &b.Reopened, &out)
	if a.TrieSize != b.TrieSize {
		out = append(out, c12aFieldDiff{"final.triesize", "quaiTrieSize after IntermediateRoot", a.TrieSize, b.TrieSize})
	}
	if a.Err != b.Err {
		out = append(out, c12aFieldDiff{"final.dberr", "Error()/Commit error", a.Err, b.Err})
	}
	if a.Root != b.Root {
		out = append(out, c12aFieldDiff{"final.root", "IntermediateRoot(true)", a.Root.Hex(), b.Root.Hex()})
	}
	if a.CommitRoot != b.CommitRoot {
		out = append(out, c12aFieldDiff{"final.commitroot", "Commit(true) root", a.CommitRoot.Hex(), b.CommitRoot.Hex()})
	}
	return out
}

func c12aDiffDirect(nAddr int, a, b *c12aDumpD) []c12aFieldDiff {
	var out []c12aFieldDiff
	c12aDiffDumpD("", nAddr, a, b, &out)
	return out
}

// ---- runner -----------------------------------------------------------------------------------

type c12aInitState struct {
	name   string
	rich   bool
	prefix []c12aOp
}

var c12aInits = []c12aInitState{
	{name: "empty"},
	{name: "rich", rich: true},
	// rich, then inside the current block: A self-destructed and finalised (deleted, not yet in the
	// trie), B touched with a pending storage write.
	{name: "pending", rich: true, prefix: []c12aOp{{k: c12aOpSuicide, a: 0}, {k: c12aOpSetState, a: 1, s: 1, v: 2}, {k: c12aOpAddBal, a: 1, v: 1}, {k: c12aOpFinalise}}},
}

type c12aSnapRec struct {
	id     int
	at     int
	before *c12aDumpD
	// poisoned: a Suicide of an account with a non-zero storage-size counter was executed while
	// this snapshot was live (known finding fpSuicideSize)
	poisoned bool
}

type c12aViolationInfo struct {
	fp, msg string
	diffs   []c12aFieldDiff
}

type c12aRunner struct {
	env     *c12aEnv
	s       *state.StateDB
	nAddr   int
	observe bool // take D at every Snapshot and compare after every RevertToSnapshot
	live    []c12aSnapRec
	txn     int
	thashes []common.Hash
	nLogs   int

	// root and QuaiStateSize recorded by the (first) IntermediateRoot of the current StateDB:
	// ValidateState / Finalize read the size right after that root and put it into the header;
	// the value of the counter after the second IntermediateRoot inside Commit is never used.
	rootedRoot common.Hash
	rootedSize *big.Int

	effective bool // some revert undid an observable change (observed runs only)
	exclude   bool // known finding fpSuicideSize is listed: do not revert across a poisoned suicide
	excluded  bool
}

func c12aNewRunner(env *c12aEnv, ini *c12aInitState, nAddr int, observe bool) (*c12aRunner, error) {
	root, size := types.EmptyRootHash, big.NewInt(0)
	if ini.rich {
		root, size = env.richRoot, new(big.Int).Set(env.richSize)
	}
	s, err := state.New(root, types.EmptyRootHash, size, env.db, env.db, nil, c12aLoc, env.logger)
	if err != nil {
		return nil, err
	}
	r := &c12aRunner{env: env, s: s, nAddr: nAddr, observe: observe, thashes: []common.Hash{{}}}
	for _, o := range ini.prefix {
		if !r.apply(o) {
			return nil, fmt.Errorf("init prefix op %v not applicable", o)
		}
	}
	return r, nil
}

// precond is the state-dependent part of the caller contract.
func (r *c12aRunner) precond(o c12aOp) bool {
	a := c12aAddr[o.a]
	switch o.k {
	case c12aOpSubBal:
		return r.s.GetBalance(a).Cmp(big.NewInt(int64(o.v))) >= 0
	case c12aOpSubRefund:
		return r.s.GetRefund() >= uint64(o.v)
	case c12aOpCreate:
		if o.s == 0 { // evm.Call on a missing account
			return !r.s.Exist(a) && (o.v > 0 || o.a == c12aRipemd)
		}
		ch := r.s.GetCodeHash(a) // evm.create collision check
		return o.a != c12aRipemd && r.s.GetNonce(a) == 0 && (ch == (common.Hash{}) || ch == c12aEmptyCodeHash)
	}
	return true
}

// apply executes one non-snapshot op; false = precondition not met (nothing executed).
func (r *c12aRunner) apply(o c12aOp) bool {
	if !r.precond(o) {
		return false
	}
	s, a := r.s, c12aAddr[o.a]
	switch o.k {
	case c12aOpCreate:
		s.CreateAccount(a)
		if o.s == 1 {
			s.SetNonce(a, 1)
		}
		s.AddBalance(a, big.NewInt(int64(o.v)))
	case c12aOpAddBal:
		s.AddBalance(a, big.NewInt(int64(o.v)))
	case c12aOpSubBal:
		s.SubBalance(a, big.NewInt(int64(o.v)))
	case c12aOpSetBal:
		s.SetBalance(a, big.NewInt(int64(o.v)))
	case c12aOpSetNonce:
		s.SetNonce(a, uint64(o.v))
	case c12aOpSetCode:
		s.SetCode(a, c12aCode[o.v])
	case c12aOpSetState:
		s.SetState(a, c12aSlot[o.s], c12aVal[o.v])
	case c12aOpSetTransient:
		s.SetTransientState(a, c12aSlot[o.s], c12aVal[o.v])
	case c12aOpSuicide:
		s.Suicide(a)
	case c12aOpAddLog:
		s.AddLog(&types.Log{Address: c12aAddrExt[o.a], Topics: []common.Hash{c12aSlot[o.v%c12aNSlot]}, Data: []byte{byte(o.v)}})
	case c12aOpAddRefund:
		s.AddRefund(uint64(o.v))
	case c12aOpSubRefund:
		s.SubRefund(uint64(o.v))
	case c12aOpALAddr:
		s.AddAddressToAccessList(a.Bytes20())
	case c12aOpALSlot:
		s.AddAddressToAccessList(a.Bytes20())
		s.AddSlotToAccessList(a.Bytes20(), c12aSlot[o.s])
	case c12aOpPreimage:
		p := c12aPre[o.v%len(c12aPre)]
		s.AddPreimage(crypto.Keccak256Hash(p), p)
	case c12aOpFinalise:
		s.Finalize(true)
		r.live = r.live[:0]
	case c12aOpPrepare:
		r.txn++
		th := common.Hash{30: byte(r.txn >> 8), 31: byte(r.txn)}
		th[0] = 0x7c
		r.thashes = append(r.thashes, th)
		s.Prepare(th, r.txn)
	case c12aOpIRoot:
		r.rootedRoot = s.IntermediateRoot(true)
		r.rootedSize = new(big.Int).Set(s.GetQuaiTrieSize())
		r.live = r.live[:0]
	case c12aOpCommitReopen:
		// block end as in the repository: ValidateState takes IntermediateRoot and the header
		// records GetQuaiTrieSize() at that moment; then Commit; the next block opens a fresh
		// StateDB at (root, recorded size).
		size := r.rootedSize
		if size == nil {
			s.IntermediateRoot(true)
			size = new(big.Int).Set(s.GetQuaiTrieSize())
		}
		r.rootedSize = nil
		root, err := s.Commit(true)
		if err != nil {
			panic(fmt.Sprintf("HARNESS: Commit failed: %v", err))
		}
		ns, err := state.New(root, types.EmptyRootHash, size, r.env.db, r.env.db, nil, c12aLoc, r.env.logger)
		if err != nil {
			panic(fmt.Sprintf("HARNESS: reopen at %x failed: %v", root, err))
		}
		r.s = ns
		r.live = r.live[:0]
		r.thashes = []common.Hash{{}}
	default:
		panic("HARNESS: apply of " + o.String())
	}
	return true
}

// step executes op i of a history including Snapshot / Revert with the revert oracle.
func (r *c12aRunner) step(i int, o c12aOp, seq []c12aOp) (ok bool, viol *c12aViolationInfo) {
	switch o.k {
	case c12aOpSnapshot:
		rec := c12aSnapRec{at: i}
		if r.observe {
			d := c12aReadDump(r.s, r.nAddr, r.thashes)
			rec.before = &d
		}
		rec.id = r.s.Snapshot()
		r.live = append(r.live, rec)
		return true, nil
	case c12aOpRevert:
		idx := len(r.live) - 1 - o.v
		rec := r.live[idx]
		if r.exclude && rec.poisoned {
			r.excluded = true
			return false, nil
		}
		if r.observe {
			if now := c12aReadDump(r.s, r.nAddr, r.thashes); now != *rec.before {
				r.effective = true
			}
		}
		r.s.RevertToSnapshot(rec.id)
		r.live = r.live[:idx]
		if r.observe {
			if after := c12aReadDump(r.s, r.nAddr, r.thashes); after != *rec.before {
				return true, c12aMkViolation("revert", seq, rec.at, i, c12aDiffDirect(r.nAddr, rec.before, &after))
			}
		}
		return true, nil
	}
	if o.k == c12aOpSuicide && len(r.live) > 0 && r.poisonedSuicide(o) {
		for i := range r.live {
			r.live[i].poisoned = true
		}
	}
	return r.apply(o), nil
}

func (k c12aOpKind) hasAddr() bool {
	switch k {
	case c12aOpCreate, c12aOpAddBal, c12aOpSubBal, c12aOpSetBal, c12aOpSetNonce, c12aOpSetCode, c12aOpSetState, c12aOpSetTransient, c12aOpSuicide, c12aOpALAddr, c12aOpALSlot:
		return true
	}
	return false
}

// crossedKinds lists the mutation kinds inside seq[from..to]; with addr >= 0 only those that
// name that address.
func c12aCrossedKinds(seq []c12aOp, from, to, addr int) []string {
	set := map[string]bool{}
	for i := from; i <= to && i < len(seq); i++ {
		o := seq[i]
		if !o.k.isMutation() {
			continue
		}
		if addr >= 0 && (!o.k.hasAddr() || o.a != addr) {
			continue
		}
		set[c12aOpKindName[o.k]] = true
	}
	out := make([]string, 0, len(set))
	for k := range set {
		out = append(out, k)
	}
	sort.Strings(out)
	return out
}

func c12aMkViolation(oracle string, seq []c12aOp, from, to int, diffs []c12aFieldDiff) *c12aViolationInfo {
	v := &c12aViolationInfo{diffs: diffs}
	kind, name := "unknown", "?"
	if len(diffs) > 0 {
		kind, name = diffs[0].kind, diffs[0].name
	}
	addr := -1
	if i := strings.Index(name, "acct["); i >= 0 {
		for k, n := range c12aAddrName {
			if strings.HasPrefix(name[i+5:], n+"]") {
				addr = k
			}
		}
	}
	x := "?"
	if from >= 0 {
		ks := c12aCrossedKinds(seq, from, to, addr)
		if len(ks) == 0 {
			ks = c12aCrossedKinds(seq, from, to, -1)
		}
		if len(ks) > 3 {
			x = "many"
		} else {
			x = strings.Join(ks, "+")
		}
	}
	v.fp = fmt.Sprintf("C12/A/%s/%s/x=%s", oracle, kind, x)
	var sb strings.Builder
	if oracle == "revert" {
		fmt.Fprintf(&sb, "state after RevertToSnapshot (op %d) differs from the state captured at Snapshot (op %d): ", to, from)
	} else {
		fmt.Fprintf(&sb, "final state of the history differs from the same history without its reverted spans: ")
	}
	for i, d := range diffs {
		if i == 6 {
			fmt.Fprintf(&sb, " … (%d fields)", len(diffs))
			break
		}
		fmt.Fprintf(&sb, "%s: %s -> %s; ", d.name, d.before, d.after)
	}
	v.msg = sb.String()
	return v
}

type c12aCaseResult struct {
	invalidAt int // index of the first op whose precondition failed, -1 if the history is valid
	viol      *c12aViolationInfo
	effective bool
	excluded  bool // the history reverts across the known finding and was not executed further
}

// commitOf executes a history without any intermediate observation on a fresh StateDB and ends
// it with takeCommit. bad = index of the first op whose precondition failed (-1 = none).
func c12aCommitOf(env *c12aEnv, ini *c12aInitState, nAddr int, seq []c12aOp, persist, exclude bool) (c *c12aCommitD, bad int, excluded bool) {
	r, err := c12aNewRunner(env, ini, nAddr, false)
	if err != nil {
		panic("HARNESS: " + err.Error())
	}
	r.exclude = exclude
	for i, o := range seq {
		if ok, _ := r.step(i, o, seq); !ok {
			return nil, i, r.excluded
		}
	}
	return c12aTakeCommit(r, persist), -1, false
}

// shadowOracle compares the commitment of a history with the commitment of the history without
// its reverted spans.
func c12aShadowOracle(env *c12aEnv, ini *c12aInitState, nAddr int, seq []c12aOp, spans []c12aSpan, shadow []c12aOp, persist bool, memo map[string]*c12aCommitD, exclude bool) (viol *c12aViolationInfo, bad int, excluded bool) {
	cm, bad, excluded := c12aCommitOf(env, ini, nAddr, seq, persist, exclude)
	if bad >= 0 {
		return nil, bad, excluded
	}
	var cs *c12aCommitD
	key := ""
	if memo != nil {
		key = ini.name + "|" + strings.Join(c12aOpsStrings(shadow), ";")
		cs = memo[key]
	}
	if cs == nil {
		cs, bad, _ = c12aCommitOf(env, ini, nAddr, shadow, persist, false)
		if memo != nil && bad < 0 {
			if len(memo) > 120000 { // ~2 kB per entry
				clear(memo)
			}
			memo[key] = cs
		}
	}
	if bad >= 0 {
		return &c12aViolationInfo{fp: "C12/A/shadow/precondition/x=" + c12aOpKindName[shadow[bad].k],
			msg: fmt.Sprintf("op %q was applicable in the history with reverted spans but not in the history without them (shadow op %d)", shadow[bad].String(), bad)}, -1, false
	}
	if *cs != *cm {
		from, to := -1, -1
		if len(spans) > 0 {
			from, to = spans[0].from, spans[len(spans)-1].to
		}
		return c12aMkViolation("shadow", seq, from, to, c12aDiffCommit(nAddr, cs, cm)), -1, false
	}
	return nil, -1, false
}

func c12aRecoverRepoPanic(viol **c12aViolationInfo) {
	if p := recover(); p != nil {
		msg := fmt.Sprint(p)
		if strings.HasPrefix(msg, "HARNESS:") {
			panic(p)
		}
		first := msg
		if i := strings.IndexAny(first, "\n:("); i > 0 {
			first = first[:i]
		}
		*viol = &c12aViolationInfo{fp: "C12/A/panic/" + strings.TrimSpace(first), msg: "panic inside the repository while executing a contract-respecting history: " + msg}
	}
}

// runCase executes a history up to three times: observed (revert oracle at every
// RevertToSnapshot; skipped when observe is false), unobserved + commitment, and the shadow
// history + commitment (shadow oracle). A panic inside the repository while running a
// contract-respecting history is reported as a violation.
func c12aRunCase(env *c12aEnv, ini *c12aInitState, nAddr int, exclude bool, seq []c12aOp, spans []c12aSpan, shadow []c12aOp, persist bool, memo map[string]*c12aCommitD, observe bool) (res c12aCaseResult) {
	res.invalidAt = -1
	defer c12aRecoverRepoPanic(&res.viol)
	if observe {
		main, err := c12aNewRunner(env, ini, nAddr, true)
		if err != nil {
			panic("HARNESS: " + err.Error())
		}
		main.exclude = exclude
		for i, o := range seq {
			ok, viol := main.step(i, o, seq)
			if !ok {
				if main.excluded {
					res.excluded = true
					return res
				}
				res.invalidAt = i
				return res
			}
			if viol != nil {
				res.viol = viol
				return res
			}
		}
		res.effective = main.effective
		if err := main.s.Error(); err != nil {
			res.viol = &c12aViolationInfo{fp: "C12/A/dberr", msg: "StateDB.Error() set by a contract-respecting history: " + err.Error()}
			return res
		}
	}
	viol, bad, excluded := c12aShadowOracle(env, ini, nAddr, seq, spans, shadow, persist, memo, exclude)
	switch {
	case excluded:
		res.excluded = true
	case bad >= 0 && observe:
		panic(fmt.Sprintf("HARNESS: history valid when observed but op %d (%v) not applicable unobserved: %v", bad, seq[bad], c12aOpsStrings(seq)))
	case bad >= 0:
		res.invalidAt = bad
	default:
		res.viol = viol
	}
	return res
}

// validStruct checks the state-independent part of the caller contract for a whole history.
func c12aValidStruct(seq []c12aOp, maxDepth int) bool {
	live, rooted := 0, false
	for _, o := range seq {
		if !c12aStructOK(o, live, rooted, maxDepth) {
			return false
		}
		live, rooted = c12aNextLive(o, live), c12aNextRooted(o, rooted)
	}
	return true
}

// minimise greedily deletes single ops and pairs of ops from a violating history while the same
// fingerprint keeps being reported; used only to make the replay dump readable.
func c12aMinimise(env *c12aEnv, ini *c12aInitState, nAddr int, seq []c12aOp, fp string) []c12aOp {
	fails := func(c []c12aOp) bool {
		if !c12aValidStruct(c, 1<<30) {
			return false
		}
		sp, sh := c12aAnalyse(c)
		res := c12aRunCase(env, ini, nAddr, false, c, sp, sh, true, nil, true)
		return res.invalidAt < 0 && res.viol != nil && res.viol.fp == fp
	}
	cur := append([]c12aOp(nil), seq...)
	if !fails(cur) {
		return nil
	}
	for changed := true; changed; {
		changed = false
		for i := 0; i < len(cur); i++ {
			c := append(append([]c12aOp(nil), cur[:i]...), cur[i+1:]...)
			if fails(c) {
				cur, changed = c, true
				i--
			}
		}
		for i := 0; i < len(cur) && !changed; i++ {
			for j := i + 1; j < len(cur); j++ {
				c := append([]c12aOp(nil), cur[:i]...)
				c = append(c, cur[i+1:j]...)
				c = append(c, cur[j+1:]...)
				if fails(c) {
					cur, changed = c, true
					break
				}
			}
		}
	}
	return cur
}

// reportViolation funnels an oracle failure into stats.Violation.
func c12aReportViolation(t stats.TB, part string, ini *c12aInitState, seq, shadow []c12aOp, v *c12aViolationInfo) bool {
	diffs := make([]string, len(v.diffs))
	for i, d := range v.diffs {
		diffs[i] = fmt.Sprintf("%s: %s -> %s", d.name, d.before, d.after)
	}
	dump := map[string]any{
		"init": ini.name, "init_prefix": c12aOpsStrings(ini.prefix),
		"ops": c12aOpsStrings(seq), "shadow_ops": c12aOpsStrings(shadow), "diff": diffs,
	}
	msg := v.msg + " | init=" + ini.name + " ops=" + strings.Join(c12aOpsStrings(seq), "; ")
	if env := c12aTheEnv; env != nil && len(seq) > 4 && !stats.IsKnown(v.fp) {
		if m := c12aMinimise(env, ini, c12aNAddr, seq, v.fp); m != nil && len(m) < len(seq) {
			dump["minimised_ops"] = c12aOpsStrings(m)
			msg += " | minimised=" + strings.Join(c12aOpsStrings(m), "; ")
		}
	}
	return stats.Violation(t, part, v.fp, msg, dump)
}

// ---- known finding: suicide zeroes the storage-size counter outside the journal ---------------

// fpSuicideSize is the fingerprint of the (so far only) confirmed StateDB-level defect: Suicide
// sets stateObject.data.Size = 0 without a journal entry, so a reverted SELFDESTRUCT of a
// contract with storage leaves Size = 0 (and a different account RLP / state root) behind.
const c12aFpSuicideSize = "C12/A/revert/acct.size/x=suicide"

// poisonedSuicide reports whether executing o now would be a Suicide of an account whose
// storage-size counter is non-zero.
func (r *c12aRunner) poisonedSuicide(o c12aOp) bool {
	return o.k == c12aOpSuicide && r.s.Exist(c12aAddr[o.a]) && r.s.GetSize(c12aAddr[o.a]).Sign() != 0
}

// labelsFor computes the label set and signature of an executed history.
func c12aLabelsFor(ini *c12aInitState, seq []c12aOp, spans []c12aSpan) (sig string, nontrivial bool, labels []string) {
	labels = append(labels, "init:"+ini.name)
	crossed := map[c12aOpKind]bool{}
	var inside []string
	for _, sp := range spans {
		for i := sp.from + 1; i < sp.to; i++ {
			k := seq[i].k
			if k.isMutation() {
				crossed[k] = true
				nontrivial = true
			}
			inside = append(inside, c12aOpKindName[k])
		}
		inside = append(inside, "|")
	}
	for k := range crossed {
		labels = append(labels, "x:"+c12aOpKindName[k])
	}
	sort.Strings(labels[1:])
	boundaryBefore, afterRevert, nested := false, false, false
	seenBoundary := false
	lastRevert := -1
	for i, o := range seq {
		if o.k.isBoundary() {
			seenBoundary = true
		}
		if o.k == c12aOpRevert {
			lastRevert = i
			if seenBoundary {
				boundaryBefore = true
			}
			if o.v > 0 {
				nested = true
			}
		}
	}
	if lastRevert >= 0 && lastRevert < len(seq)-1 {
		afterRevert = true
	}
	if boundaryBefore {
		labels = append(labels, "revert_after_boundary")
	}
	if afterRevert {
		labels = append(labels, "ops_after_last_revert")
	}
	if nested {
		labels = append(labels, "revert_crosses_inner_snapshot")
	}
	if len(spans) > 1 {
		labels = append(labels, "several_reverted_spans")
	}
	if nontrivial {
		labels = append(labels, "nontrivial")
	}
	outside := len(seq)
	for _, sp := range spans {
		outside -= sp.to - sp.from + 1
	}
	sig = fmt.Sprintf("%s|%s|out=%d", ini.name, strings.Join(inside, ","), outside)
	return sig, nontrivial, labels
}
