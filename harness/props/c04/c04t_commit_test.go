package c04

// Part T (commitments): "... none is ... altered in transit ...; [the queue's] content is committed
// by the block's ETX-set root". Between chains ETXs travel as lists (a zone block's outbound list,
// a region's rollup, a manifest of block hashes) that the receiving chain accepts only if the
// list hashes to the root committed in a header (PendingEtxs.IsValid, PendingEtxsRollup.IsValid,
// the manifest hash). For lists of every length class - in particular around the hasher's index
// encoding boundaries at 128 and 256 entries - a list that differs from the committed one in any
// single position (altered value / recipient / type, dropped, duplicated, swapped entry) must be
// refused, and the committed list itself accepted.

import (
	"fmt"
	"math/big"
	"testing"

	"github.com/dominant-strategies/go-quai/common"
	"github.com/dominant-strategies/go-quai/core/types"
	"github.com/dominant-strategies/go-quai/trie"
	"pgregory.net/rapid"

	"verifharness/stats"
)

func c04tEtx(i int, loc common.Location) *types.Transaction {
	to := common.BytesToAddress(append([]byte{0x01, 0x10}, big.NewInt(int64(1000+i)).FillBytes(make([]byte, 18))...), loc)
	from := common.BytesToAddress(append([]byte{0x00, 0x11}, big.NewInt(int64(7000+i)).FillBytes(make([]byte, 18))...), loc)
	return types.NewTx(&types.ExternalTx{OriginatingTxHash: common.BigToHash(big.NewInt(int64(50000 + i/3))), ETXIndex: uint16(i % 3), Gas: 21000 + uint64(i), To: &to,
		Value: big.NewInt(int64(1_000_000 + i)), Sender: from, EtxType: uint64([]int{0, 0, 1, 2}[i%4])})
}

func TestC04T_Commitments(t *testing.T) {
	const part = "commitments"
	loc := common.Location{0, 0}
	rapid.Check(t, func(t *rapid.T) {
		n := rapid.SampledFrom([]int{1, 2, 3, 17, 0, 126, 127, 128, 129, 130, 200, 0, 255, 256, 257, 300}).Draw(t, "n")
		list := make(types.Transactions, n)
		for i := range list {
			list[i] = c04tEtx(i, loc)
		}
		root := types.DeriveSha(list, trie.NewStackTrie(nil))
		wo := types.EmptyWorkObject(common.ZONE_CTX)
		wo.Header().SetOutboundEtxHash(root)
		wo.Header().SetEtxRollupHash(root)
		kind := rapid.SampledFrom([]string{"pending-etxs", "rollup", "manifest"}).Draw(t, "kind")
		valid := func(l types.Transactions) bool {
			if kind == "rollup" {
				return (&types.PendingEtxsRollup{Header: wo, EtxsRollup: l}).IsValid(trie.NewStackTrie(nil))
			}
			return (&types.PendingEtxs{Header: wo, OutboundEtxs: l}).IsValid(trie.NewStackTrie(nil))
		}
		// position: any, with the boundary positions over-represented
		pos := 0
		if n > 0 {
			pos = rapid.IntRange(0, n-1).Draw(t, "pos")
		}
		if b := rapid.SampledFrom([]int{-1, -1, 0, 126, 127, 128, 129, 255, 256}).Draw(t, "boundaryPos"); b >= 0 && b < n {
			pos = b
		}
		dump := map[string]any{"kind": kind, "entries": n, "position": pos}
		if kind == "manifest" && n == 0 {
			kind = "pending-etxs" // an empty manifest has no entry to replace
			dump["kind"] = kind
		}
		if kind == "manifest" {
			// the manifest is a list of block hashes committed by the header's manifest hash
			man := make(types.BlockManifest, n)
			for i := range man {
				man[i] = common.BigToHash(big.NewInt(int64(900000 + i)))
			}
			mroot := types.DeriveSha(man, trie.NewStackTrie(nil))
			alt := append(types.BlockManifest{}, man...)
			alt[pos] = common.BigToHash(big.NewInt(int64(1900000 + pos)))
			if types.DeriveSha(alt, trie.NewStackTrie(nil)) == mroot {
				stats.Violation(t, part, fmt.Sprintf("C04/T/commitment-ignores-entry/manifest/pos=%d", pos), fmt.Sprintf("a manifest of %d block hashes and the same manifest with entry %d replaced have the same manifest hash", n, pos), dump)
				return
			}
			if types.DeriveSha(append(types.BlockManifest{}, man...), trie.NewStackTrie(nil)) != mroot {
				stats.Violation(t, part, "C04/T/commitment-not-a-function-of-content/manifest", "the same manifest hashes differently", dump)
				return
			}
			stats.Case(part, fmt.Sprintf("manifest|n=%d|pos=%d", n, pos), true, "kind:manifest", fmt.Sprintf("n:%d", n))
			return
		}
		if !valid(append(types.Transactions{}, list...)) {
			stats.Violation(t, part, "C04/T/committed-list-refused/"+kind, fmt.Sprintf("the %d-entry list the header commits to is refused", n), dump)
			return
		}
		mut := rapid.SampledFrom([]string{"value+1", "recipient", "type", "drop", "duplicate", "swap-next", "append"}).Draw(t, "mutation")
		alt := append(types.Transactions{}, list...)
		if n == 0 || mut == "append" {
			// entries the header does not commit to, after the committed ones (for an empty
			// commitment: a bundle that carries transfers the block never emitted)
			mut = "append"
			k := rapid.SampledFrom([]int{1, 2, 129}).Draw(t, "forged")
			for i := 0; i < k; i++ {
				alt = append(alt, c04tEtx(n+1000+i, loc))
			}
			dump["mutation"], dump["forged_entries"] = mut, k
			if valid(alt) {
				stats.Violation(t, part, fmt.Sprintf("C04/T/altered-list-accepted/%s/%s", kind, mut), fmt.Sprintf("a list of the %d committed entries followed by %d entries the header does not commit to passes the commitment check", n, k), dump)
				return
			}
			stats.Case(part, fmt.Sprintf("%s|n=%d|append%d", kind, n, k), true, "kind:"+kind, fmt.Sprintf("n:%d", n), "mut:"+mut)
			return
		}
		in := list[pos]
		to := *in.To()
		inner := &types.ExternalTx{OriginatingTxHash: in.OriginatingTxHash(), ETXIndex: in.ETXIndex(), Gas: in.Gas(), To: &to, Value: new(big.Int).Set(in.Value()), Sender: in.ETXSender(), EtxType: in.EtxType()}
		switch mut {
		case "value+1":
			inner.Value.Add(inner.Value, big.NewInt(1))
			alt[pos] = types.NewTx(inner)
		case "recipient":
			b := to.Bytes()
			b[19] ^= 1
			nt := common.BytesToAddress(b, loc)
			inner.To = &nt
			alt[pos] = types.NewTx(inner)
		case "type":
			inner.EtxType = (inner.EtxType + 1) % 3
			alt[pos] = types.NewTx(inner)
		case "drop":
			alt = append(alt[:pos:pos], alt[pos+1:]...)
		case "duplicate":
			alt = append(alt[:pos+1:pos+1], alt[pos:]...)
		case "swap-next":
			if pos+1 >= n {
				t.Skip("no next entry")
			}
			alt[pos], alt[pos+1] = alt[pos+1], alt[pos]
		}
		dump["mutation"] = mut
		if valid(alt) {
			stats.Violation(t, part, fmt.Sprintf("C04/T/altered-list-accepted/%s/%s", kind, mut), fmt.Sprintf("a %d-entry list that differs from the committed one at position %d (%s) passes the commitment check", n, pos, mut), dump)
			return
		}
		stats.Case(part, fmt.Sprintf("%s|n=%d|pos=%d|%s", kind, n, pos, mut), true, "kind:"+kind, fmt.Sprintf("n:%d", n), "mut:"+mut)
		if stats.WantSample(part) {
			stats.Sample(part, dump)
		}
	})
}
